import QeepProps.C16x
import QeepProps.C16v
import QeepProps.C01q
import QeepProps.C08z
import QeepProps.C14y
import QeepProps.C15x
import QeepProps.C15w
import Mathlib.Tactic.IntervalCases
/-!
# C16 — what `BackPropagate` stores on the parameters of an `FC` layer (end to end)

`fc_backprop`: take ANY heap the public API can build, parameters `W, B : [O]` that are tracked and unspent and have not
been consumed by any other tracked operation (which is the situation of a layer's parameters at every training step:
`Update` replaces them by fresh tensors), any unspent input `x : [N, D]` — tracked or not, with any ancestors. Run
`Forward(x)` and `tensor.BackPropagate` on the result. If the walk returns without error then, in `sum` mode,
`W.Gradient()[o] = Σ_n Σ_d x[n][d]` and `B.Gradient()[o] = N` — the partial derivatives of `Σ_{n,o} y[n][o]`
(`fc_backward_is_gradient` with the all-ones upstream gradient). The proof runs the real walk: `C01w.grad_root` (the root
keeps the all-ones seed), `C01q.grad_path` (a tensor whose only consumer is its predecessor on a path receives the rules
of the path applied in order) along the back-edge paths `pathW` / `pathB` of the nine-node graph `fc_forward_graph`
describes, and the path results `fc_grad_weight` / `fc_grad_bias`.
-/
set_option linter.unusedSimpArgs false
set_option linter.unusedSectionVars false
set_option linter.unusedVariables false

namespace Qeep
namespace C16z
open RealScalar C01 C01x C01z C01w C01q C16x C15x

/-- a backward rule reads the heap through the tensors' values only -/
theorem evalRule_val_congr (bm : BMode) (H1 H2 : Heap ℝ) (h : ∀ n, H1.val n = H2.val n) (g : Tensor ℝ) (r : Rule ℝ) :
    evalRule bm H1 g r = evalRule bm H2 g r := by
  cases r <;> simp only [evalRule, h]

theorem evalPath_val_congr (bm : BMode) (H1 H2 : Heap ℝ) (h : ∀ n, H1.val n = H2.val n) :
    ∀ (rs : List (Rule ℝ)) (g : Tensor ℝ), evalPath bm H1 rs g = evalPath bm H2 rs g
  | [], g => rfl
  | r :: rs, g => by
    simp only [evalPath, evalRule_val_congr bm H1 H2 h g r]
    cases evalRule bm H2 g r with
    | ok g1 => simp only [Out.bind]; exact evalPath_val_congr bm H1 H2 h rs g1
    | err => rfl
    | panic => rfl

theorem mkCtx_edges_sub (H : Heap ℝ) (ops : List Nat) (es : List (Edge ℝ)) : ∀ e ∈ (mkCtx H ops es).edges, e ∈ es := by
  intro e he
  unfold mkCtx at he
  split at he
  · simp [dirtyCtx] at he
  · split at he
    · simp [freshCtx] at he
    · exact he

/-- the back edges the nine nodes of the layer's graph can have (node `k + i`) -/
def fcEdges (w b x k : Nat) : Nat → List (Edge ℝ)
  | 0 => [⟨w, .reshapeX w⟩]
  | 1 => [⟨x, .reshapeX x⟩]
  | 2 => [⟨k, .bcastX k (k + 2)⟩]
  | 3 => [⟨k + 1, .bcastX (k + 1) (k + 3)⟩]
  | 4 => [⟨k + 2, .matmulA (k + 3)⟩, ⟨k + 3, .matmulB (k + 2)⟩]
  | 5 => [⟨k + 4, .sumAlongX (k + 4) 2⟩]
  | 6 => [⟨k + 5, .bcastX (k + 5) (k + 6)⟩]
  | 7 => [⟨b, .bcastX b (k + 7)⟩]
  | 8 => [⟨k + 6, .idG⟩, ⟨k + 7, .idG⟩]
  | _ => []

theorem fc_edges_sub {H : Heap ℝ} {w b x k N D O : Nat} {Wf Bf : Nat → ℝ} {Xf : Nat → Nat → ℝ}
    (g : FCGraph H w b x k N D O Wf Bf Xf) (i : Nat) (hi : i ≤ 8) :
    ∀ e ∈ (H.ctx (k + i)).edges, e ∈ fcEdges w b x k i := by
  intro e he
  interval_cases i
  · rw [show k + 0 = k from rfl, g.c0] at he; exact mkCtx_edges_sub _ _ _ e he
  · rw [g.c1] at he; exact mkCtx_edges_sub _ _ _ e he
  · rw [g.c2] at he; exact mkCtx_edges_sub _ _ _ e he
  · rw [g.c3] at he; exact mkCtx_edges_sub _ _ _ e he
  · rw [g.c4] at he; exact mkCtx_edges_sub _ _ _ e he
  · rw [g.c5] at he; exact mkCtx_edges_sub _ _ _ e he
  · rw [g.c6] at he; exact mkCtx_edges_sub _ _ _ e he
  · rw [g.c7] at he; exact mkCtx_edges_sub _ _ _ e he
  · rw [g.c8] at he; exact mkCtx_edges_sub _ _ _ e he

theorem ctx_beyond (H : Heap ℝ) (n : Nat) (h : H.size ≤ n) : (H.ctx n).edges = [] := by
  have : H[n]? = none := Array.getElem?_eq_none h
  simp [Heap.ctx, this]

/-- the all-ones seed on an `N × O` result -/
theorem ones_is2 (t : Tensor ℝ) (N O : Nat) (f : Nat → Nat → ℝ) (h : Is2 t N O f) :
    Is2 (vPow t Scalar.zero) N O (fun _ _ => 1) := by
  refine ⟨(ones_shaped t h.wf).1, by rw [(ones_shaped t h.wf).2, h.dims], ?_⟩
  intro i j hi hj
  unfold vPow
  rw [C14y.map_el _ t h.wf (by rw [h.dims]; exact valid2 hi hj)]
  simp

/-- **An FC layer inside ANY walk** (either mode). Let `H2` be any heap with older-pointing back edges that contains the
    nine-node graph of a `Forward` call at base id `k` (`FCGraph`), with `W`, `B` tracked, unspent and without a gradient,
    the input unspent; let the tensors outside the graph that the walk visits have no back edge to `W`, `B` or the layer's eight internal
    tensors (the layer's result `k + 8` may be consumed by anything: a loss, further layers). Take a successful walk from
    ANY root (not inside the layer) that visits the layer's result and leaves the gradient `G` on it. Then `W.Gradient()` and
    `B.Gradient()` are the rules of the two back-edge paths applied to `G`, in order. -/
theorem fc_paths_in_walk (bm : BMode) (H2 : Heap ℝ) (root w b x k N D O : Nat) {Wf Bf : Nat → ℝ} {Xf : Nat → Nat → ℝ}
    (hdag : HeapDag H2) (htr : H2.tracked root = true) (hok : (backprop bm H2 root).status = .ok ())
    (g : FCGraph H2 w b x k N D O Wf Bf Xf) (hwk : w < k) (hbk : b < k) (hxk : x < k) (hwb : w ≠ b)
    (tw : H2.tracked w = true) (tb : H2.tracked b = true)
    (cw : H2.dirty w = false) (cb : H2.dirty b = false) (cx' : H2.dirty x = false)
    (gw : H2.grad w = none) (gb : H2.grad b = none) (gnew : ∀ i, i ≤ 7 → H2.grad (k + i) = none)
    (hroot1 : root ≠ w) (hroot2 : root ≠ b) (hroot3 : ∀ i, i ≤ 7 → root ≠ k + i)
    (hsole : ∀ v ∈ backwardOrder H2 root, (v < k ∨ k + 8 < v) → ∀ e ∈ (H2.ctx v).edges,
      e.target ≠ w ∧ e.target ≠ b ∧ ¬ (k ≤ e.target ∧ e.target ≤ k + 7))
    (G : Tensor ℝ) (hy : k + 8 ∈ backwardOrder H2 root) (f8 : (backprop bm H2 root).heap.grad (k + 8) = some G) :
    ∃ gW gB,
      evalPath bm H2 (pathW w k) G = .ok gW ∧ (backprop bm H2 root).heap.grad w = some gW ∧
      evalPath bm H2 (pathB b k) G = .ok gB ∧ (backprop bm H2 root).heap.grad b = some gB := by
  have hxw : x ≠ w := by intro h; have := g.vx.dims; rw [h, g.vw.dims] at this; simp at this
  have hxb : x ≠ b := by intro h; have := g.vx.dims; rw [h, g.vb.dims] at this; simp at this
  -- nothing in the graph is spent; the nodes on the two paths are tracked with their edges
  have d0 : H2.dirty k = false := ctx_clean g.c0 (by simpa using cw)
  have d1 : H2.dirty (k + 1) = false := ctx_clean g.c1 (by simpa using cx')
  have d2 : H2.dirty (k + 2) = false := ctx_clean g.c2 (by simpa using d0)
  have d3 : H2.dirty (k + 3) = false := ctx_clean g.c3 (by simpa using d1)
  have d4 : H2.dirty (k + 4) = false := ctx_clean g.c4 (by simpa using ⟨d2, d3⟩)
  have d5 : H2.dirty (k + 5) = false := ctx_clean g.c5 (by simpa using d4)
  have d6 : H2.dirty (k + 6) = false := ctx_clean g.c6 (by simpa using d5)
  have d7 : H2.dirty (k + 7) = false := ctx_clean g.c7 (by simpa using cb)
  have c67 : ∀ m ∈ [k + 6, k + 7], H2.dirty m = false := by simpa using ⟨d6, d7⟩
  have c23 : ∀ m ∈ [k + 2, k + 3], H2.dirty m = false := by simpa using ⟨d2, d3⟩
  obtain ⟨t0, e0⟩ := ctx_live g.c0 (by simpa using cw) ⟨w, by simp, tw⟩
  obtain ⟨t2, e2⟩ := ctx_live g.c2 (by simpa using d0) ⟨k, by simp, t0⟩
  obtain ⟨t4, e4⟩ := ctx_live g.c4 c23 ⟨k + 2, by simp, t2⟩
  obtain ⟨t5, e5⟩ := ctx_live g.c5 (by simpa using d4) ⟨k + 4, by simp, t4⟩
  obtain ⟨t6, e6⟩ := ctx_live g.c6 (by simpa using d5) ⟨k + 5, by simp, t5⟩
  obtain ⟨t7, e7⟩ := ctx_live g.c7 (by simpa using cb) ⟨b, by simp, tb⟩
  obtain ⟨t8, e8⟩ := ctx_live g.c8 c67 ⟨k + 6, by simp, t6⟩
  -- who else could have an edge into a tensor of the graph, or into W / B
  have hno : ∀ (t i0 : Nat), ((k ≤ t ∧ t ≤ k + 7) ∨ t = w ∨ t = b) →
      (∀ i, i ≤ 8 → i ≠ i0 → ∀ e ∈ fcEdges w b x k i, e.target ≠ t) →
      ∀ v ∈ backwardOrder H2 root, v ≠ k + i0 → ∀ e ∈ (H2.ctx v).edges, e.target ≠ t := by
    intro t i0 ht hfin v hv hne e he
    by_cases hvk : v < k ∨ k + 8 < v
    · obtain ⟨s1, s2, s3⟩ := hsole v hv hvk e he
      rcases ht with ht | rfl | rfl
      · intro h; rw [h] at s3; exact s3 ht
      · exact s1
      · exact s2
    · obtain ⟨i, hi, rfl⟩ : ∃ i, i ≤ 8 ∧ v = k + i := ⟨v - k, by omega, by omega⟩
      exact hfin i hi (by intro h; apply hne; rw [h]) e (fc_edges_sub g i hi e he)
  let Hm := markDirty H2 (backwardOrder H2 root)
  have hv1 : ∀ n, Hm.val n = H2.val n := fun n => markDirty_val _ _ n
  -- the path to W
  have pW : SolePath H2 root (k + 8) (pathW w k) w := by
    unfold pathW pathMM
    simp only [List.cons_append, List.nil_append]
    refine .cons (t := k + 6) (by rw [e8]; simp [List.filter_cons]) ?_ t6 (gnew 6 (by omega)) (hroot3 6 (by omega)).symm ?_
    · apply hno (k + 6) 8 (by omega)
      intro i hi hne e he
      interval_cases i <;> simp [fcEdges] at he <;> (try rcases he with rfl | rfl) <;> (try subst he) <;> simp <;> omega
    refine .cons (t := k + 5) (by rw [e6]; simp [List.filter_cons]) ?_ t5 (gnew 5 (by omega)) (hroot3 5 (by omega)).symm ?_
    · apply hno (k + 5) 6 (by omega)
      intro i hi hne e he
      interval_cases i <;> simp [fcEdges] at he <;> (try rcases he with rfl | rfl) <;> (try subst he) <;> simp <;> omega
    refine .cons (t := k + 4) (by rw [e5]; simp [List.filter_cons]) ?_ t4 (gnew 4 (by omega)) (hroot3 4 (by omega)).symm ?_
    · apply hno (k + 4) 5 (by omega)
      intro i hi hne e he
      interval_cases i <;> simp [fcEdges] at he <;> (try rcases he with rfl | rfl) <;> (try subst he) <;> simp <;> omega
    refine .cons (t := k + 2) (by rw [e4]; simp [List.filter_cons]) ?_ t2 (gnew 2 (by omega)) (hroot3 2 (by omega)).symm ?_
    · apply hno (k + 2) 4 (by omega)
      intro i hi hne e he
      interval_cases i <;> simp [fcEdges] at he <;> (try rcases he with rfl | rfl) <;> (try subst he) <;> simp <;> omega
    refine .cons (t := k) (by rw [e2]; simp [List.filter_cons]) ?_ t0 (by simpa using gnew 0 (by omega))
      (by simpa using (hroot3 0 (by omega)).symm) ?_
    · apply hno k 2 (by omega)
      intro i hi hne e he
      interval_cases i <;> simp [fcEdges] at he <;> (try rcases he with rfl | rfl) <;> (try subst he) <;> simp <;> omega
    refine .cons (t := w) (by rw [e0]; simp [List.filter_cons]) ?_ tw gw hroot1.symm (.nil w)
    · have := hno w 0 (Or.inr (Or.inl rfl))
      simp only [Nat.add_zero] at this
      apply this
      intro i hi hne e he
      interval_cases i <;> simp [fcEdges] at he <;> (try rcases he with rfl | rfl) <;> (try subst he) <;> simp <;> omega
  -- the path to B
  have pB : SolePath H2 root (k + 8) (pathB b k) b := by
    unfold pathB
    refine .cons (t := k + 7) (by rw [e8]; simp [List.filter_cons]) ?_ t7 (gnew 7 (by omega)) (hroot3 7 (by omega)).symm ?_
    · apply hno (k + 7) 8 (by omega)
      intro i hi hne e he
      interval_cases i <;> simp [fcEdges] at he <;> (try rcases he with rfl | rfl) <;> (try subst he) <;> simp <;> omega
    refine .cons (t := b) (by rw [e7]; simp [List.filter_cons]) ?_ tb gb hroot2.symm (.nil b)
    · apply hno b 7 (Or.inr (Or.inr rfl))
      intro i hi hne e he
      interval_cases i <;> simp [fcEdges] at he <;> (try rcases he with rfl | rfl) <;> (try subst he) <;> simp <;> omega
  obtain ⟨gW, pw1, pw2, _⟩ := grad_path bm H2 root hdag htr hok _ _ _ pW G hy f8
  obtain ⟨gB, pb1, pb2, _⟩ := grad_path bm H2 root hdag htr hok _ _ _ pB G hy f8
  rw [evalPath_val_congr bm Hm H2 hv1] at pw1 pb1
  exact ⟨gW, gB, pw1, pw2, pb1, pb2⟩

/-- **in `sum` mode, inside any walk**: `dW[o] = Σ_n G[n][o]·Σ_d x[n][d]`, `dB[o] = Σ_n G[n][o]` for the gradient `G`
    the walk leaves on the layer's result -/
theorem fc_in_walk_sum (H2 : Heap ℝ) (root w b x k N D O : Nat) {Wf Bf : Nat → ℝ} {Xf : Nat → Nat → ℝ}
    (hdag : HeapDag H2) (htr : H2.tracked root = true) (hok : (backprop .sum H2 root).status = .ok ())
    (g : FCGraph H2 w b x k N D O Wf Bf Xf) (hwk : w < k) (hbk : b < k) (hxk : x < k) (hwb : w ≠ b)
    (tw : H2.tracked w = true) (tb : H2.tracked b = true)
    (cw : H2.dirty w = false) (cb : H2.dirty b = false) (cx' : H2.dirty x = false)
    (gw : H2.grad w = none) (gb : H2.grad b = none) (gnew : ∀ i, i ≤ 7 → H2.grad (k + i) = none)
    (hroot1 : root ≠ w) (hroot2 : root ≠ b) (hroot3 : ∀ i, i ≤ 7 → root ≠ k + i)
    (hsole : ∀ v ∈ backwardOrder H2 root, (v < k ∨ k + 8 < v) → ∀ e ∈ (H2.ctx v).edges,
      e.target ≠ w ∧ e.target ≠ b ∧ ¬ (k ≤ e.target ∧ e.target ≤ k + 7))
    (G : Tensor ℝ) (Gf : Nat → Nat → ℝ) (hG : Is2 G N O Gf)
    (hy : k + 8 ∈ backwardOrder H2 root) (f8 : (backprop .sum H2 root).heap.grad (k + 8) = some G) :
    ∃ dW dB, (backprop .sum H2 root).heap.grad w = some dW ∧ (backprop .sum H2 root).heap.grad b = some dB ∧
      dW.WF ∧ dW.dims = [O] ∧ dB.WF ∧ dB.dims = [O] ∧
      (∀ o, o < O → dW.el [o] = ∑ n ∈ Finset.range N, Gf n o * ∑ d ∈ Finset.range D, Xf n d) ∧
      (∀ o, o < O → dB.el [o] = ∑ n ∈ Finset.range N, Gf n o) := by
  obtain ⟨gW, gB, pw1, pw2, pb1, pb2⟩ := fc_paths_in_walk .sum H2 root w b x k N D O hdag htr hok g hwk hbk hxk hwb tw tb
    cw cb cx' gw gb gnew hroot1 hroot2 hroot3 hsole G hy f8
  obtain ⟨dW, qw1, qw2, qw3⟩ := fc_grad_weight g hG
  obtain ⟨dB, qb1, qb2, qb3⟩ := fc_grad_bias g hG
  rw [qw1] at pw1; rw [qb1] at pb1
  injection pw1 with pw1; injection pb1 with pb1
  subst pw1 pb1
  refine ⟨dW, dB, pw2, pb2, qw3.wf, qw3.dims, qb3.wf, qb3.dims, ?_, ?_⟩
  · intro o ho
    rw [qw3.el o ho, C16x.sumOver_real]
    apply Finset.sum_congr rfl
    intro n hn
    rw [C16x.sumOver_real]
    simp only [mul_eq]
    rw [Finset.mul_sum]
  · intro o ho
    rw [qb3.el o ho, C16x.sumOver_real]

/-- **in `mean` mode (the tree as it is, finding D2), inside any walk**: `dW[o] = (Σ_n G[n][o]·Σ_d x[n][d]) / N`,
    `dB[o] = (Σ_n G[n][o]) / N` — the wanted gradients divided by the batch size -/
theorem fc_in_walk_mean (H2 : Heap ℝ) (root w b x k N D O : Nat) {Wf Bf : Nat → ℝ} {Xf : Nat → Nat → ℝ}
    (hdag : HeapDag H2) (htr : H2.tracked root = true) (hok : (backprop .mean H2 root).status = .ok ())
    (g : FCGraph H2 w b x k N D O Wf Bf Xf) (hwk : w < k) (hbk : b < k) (hxk : x < k) (hwb : w ≠ b)
    (tw : H2.tracked w = true) (tb : H2.tracked b = true)
    (cw : H2.dirty w = false) (cb : H2.dirty b = false) (cx' : H2.dirty x = false)
    (gw : H2.grad w = none) (gb : H2.grad b = none) (gnew : ∀ i, i ≤ 7 → H2.grad (k + i) = none)
    (hroot1 : root ≠ w) (hroot2 : root ≠ b) (hroot3 : ∀ i, i ≤ 7 → root ≠ k + i)
    (hsole : ∀ v ∈ backwardOrder H2 root, (v < k ∨ k + 8 < v) → ∀ e ∈ (H2.ctx v).edges,
      e.target ≠ w ∧ e.target ≠ b ∧ ¬ (k ≤ e.target ∧ e.target ≤ k + 7))
    (G : Tensor ℝ) (Gf : Nat → Nat → ℝ) (hG : Is2 G N O Gf)
    (hy : k + 8 ∈ backwardOrder H2 root) (f8 : (backprop .mean H2 root).heap.grad (k + 8) = some G) :
    ∃ dW dB, (backprop .mean H2 root).heap.grad w = some dW ∧ (backprop .mean H2 root).heap.grad b = some dB ∧
      dW.WF ∧ dW.dims = [O] ∧ dB.WF ∧ dB.dims = [O] ∧
      (∀ o, o < O → dW.el [o] = (∑ n ∈ Finset.range N, Gf n o * ∑ d ∈ Finset.range D, Xf n d) / (N : ℝ)) ∧
      (∀ o, o < O → dB.el [o] = (∑ n ∈ Finset.range N, Gf n o) / (N : ℝ)) := by
  obtain ⟨gW, gB, pw1, pw2, pb1, pb2⟩ := fc_paths_in_walk .mean H2 root w b x k N D O hdag htr hok g hwk hbk hxk hwb tw tb
    cw cb cx' gw gb gnew hroot1 hroot2 hroot3 hsole G hy f8
  obtain ⟨dW, qw1, qw2, qw3⟩ := fc_grad_weight_mean g hG
  obtain ⟨dB, qb1, qb2, qb3⟩ := fc_grad_bias_mean g hG
  rw [qw1] at pw1; rw [qb1] at pb1
  injection pw1 with pw1; injection pb1 with pb1
  subst pw1 pb1
  refine ⟨dW, dB, pw2, pb2, qw3.wf, qw3.dims, qb3.wf, qb3.dims, ?_, ?_⟩
  · intro o ho
    rw [qw3.el o ho, C16x.sumOver_real]
    simp only [div_eq, ofNat_eq]
    congr 1
    apply Finset.sum_congr rfl
    intro n hn
    rw [C16x.sumOver_real]
    simp only [mul_eq]
    rw [Finset.mul_sum]
  · intro o ho
    rw [qb3.el o ho, C16x.sumOver_real]
    simp only [div_eq, ofNat_eq]

/-- either mode: after `Forward` and a successful `BackPropagate` of the result, `W` and `B` hold what the rules of their
    back-edge paths make of the all-ones seed, and the graph is the one `FCGraph` describes -/
theorem fc_backprop_paths (bm : BMode) (H : Heap ℝ) (w b x N D O : Nat) (hR : Reach bm H)
    (lw : Live H w) (lb : Live H b) (hx : x < H.size) (cx : H.dirty x = false) (hwb : w ≠ b)
    (ww : (H.val w).WF) (wb : (H.val b).WF) (wx : (H.val x).WF)
    (dw : (H.val w).dims = [O]) (db : (H.val b).dims = [O]) (dx : (H.val x).dims = [N, D])
    (hsole : ∀ v, ∀ e ∈ (H.ctx v).edges, e.target ≠ w ∧ e.target ≠ b) :
    ∃ H', fcForward ⟨some w, some b⟩ [some x] H = .ok (H.size + 8, H') ∧ Extends H H' ∧
      FCGraph H' w b x H.size N D O (fun i => (H.val w).el [i]) (fun i => (H.val b).el [i]) (fun i j => (H.val x).el [i, j]) ∧
      ((backprop bm H' (H.size + 8)).status = .ok () →
        ∃ G gW gB, Is2 G N O (fun _ _ => 1) ∧
          evalPath bm H' (pathW w H.size) G = .ok gW ∧ (backprop bm H' (H.size + 8)).heap.grad w = some gW ∧
          evalPath bm H' (pathB b H.size) G = .ok gB ∧ (backprop bm H' (H.size + 8)).heap.grad b = some gB) := by
  obtain ⟨H', h1, hext, hsz, g⟩ := fc_forward_graph N D O w b x H lw.1 lb.1 hx _ _ _
    (is1_self _ ww O dw) (is1_self _ wb O db) (is2_self _ wx N D dx)
  refine ⟨H', h1, hext, g, ?_⟩
  intro hok
  have hwk : w < H.size := lw.1
  have hbk : b < H.size := lb.1
  have hxw : x ≠ w := by intro h; rw [h, dw] at dx; simp at dx
  have hxb : x ≠ b := by intro h; rw [h, db] at dx; simp at dx
  -- flags of the old tensors are kept
  have tw : H'.tracked w = true := by have := lw.2.1; simp only [Heap.tracked, hext.ctx hwk] at this ⊢; exact this
  have tb : H'.tracked b = true := by have := lb.2.1; simp only [Heap.tracked, hext.ctx hbk] at this ⊢; exact this
  have cw : H'.dirty w = false := by have := lw.2.2; simp only [Heap.dirty, hext.ctx hwk] at this ⊢; exact this
  have cb : H'.dirty b = false := by have := lb.2.2; simp only [Heap.dirty, hext.ctx hbk] at this ⊢; exact this
  have cx' : H'.dirty x = false := by simp only [Heap.dirty, hext.ctx hx] at cx ⊢; exact cx
  have gw : H'.grad w = none := by
    have := reach_clean_nograd hR w lw.2.2; simp only [Heap.grad, hext.ctx hwk] at this ⊢; exact this
  have gb : H'.grad b = none := by
    have := reach_clean_nograd hR b lb.2.2; simp only [Heap.grad, hext.ctx hbk] at this ⊢; exact this
  have gnew : ∀ n, H.size ≤ n → H'.grad n = none := (fresh_fcForward _ _ H _ H' h1).2
  -- nothing in the graph is spent; the nodes on the two paths are tracked with their edges
  have d0 : H'.dirty H.size = false := ctx_clean g.c0 (by simpa using cw)
  have d1 : H'.dirty (H.size + 1) = false := ctx_clean g.c1 (by simpa using cx')
  have d2 : H'.dirty (H.size + 2) = false := ctx_clean g.c2 (by simpa using d0)
  have d3 : H'.dirty (H.size + 3) = false := ctx_clean g.c3 (by simpa using d1)
  have d4 : H'.dirty (H.size + 4) = false := ctx_clean g.c4 (by simpa using ⟨d2, d3⟩)
  have d5 : H'.dirty (H.size + 5) = false := ctx_clean g.c5 (by simpa using d4)
  have d6 : H'.dirty (H.size + 6) = false := ctx_clean g.c6 (by simpa using d5)
  have d7 : H'.dirty (H.size + 7) = false := ctx_clean g.c7 (by simpa using cb)
  have c67 : ∀ m ∈ [H.size + 6, H.size + 7], H'.dirty m = false := by simpa using ⟨d6, d7⟩
  have c23 : ∀ m ∈ [H.size + 2, H.size + 3], H'.dirty m = false := by simpa using ⟨d2, d3⟩
  obtain ⟨t0, e0⟩ := ctx_live g.c0 (by simpa using cw) ⟨w, by simp, tw⟩
  obtain ⟨t2, e2⟩ := ctx_live g.c2 (by simpa using d0) ⟨H.size, by simp, t0⟩
  obtain ⟨t4, e4⟩ := ctx_live g.c4 c23 ⟨H.size + 2, by simp, t2⟩
  obtain ⟨t5, e5⟩ := ctx_live g.c5 (by simpa using d4) ⟨H.size + 4, by simp, t4⟩
  obtain ⟨t6, e6⟩ := ctx_live g.c6 (by simpa using d5) ⟨H.size + 5, by simp, t5⟩
  obtain ⟨t7, e7⟩ := ctx_live g.c7 (by simpa using cb) ⟨b, by simp, tb⟩
  obtain ⟨t8, e8⟩ := ctx_live g.c8 c67 ⟨H.size + 6, by simp, t6⟩
  -- back edges point to older tensors
  have hdagH := reach_dag hR
  have hdag : HeapDag H' := by
    intro v e he
    by_cases hv : v < H.size
    · rw [hext.ctx hv] at he; exact hdagH v e he
    · by_cases hv9 : v < H.size + 9
      · obtain ⟨i, hi, rfl⟩ : ∃ i, i ≤ 8 ∧ v = H.size + i := ⟨v - H.size, by omega, by omega⟩
        have hm := fc_edges_sub g i hi e he
        interval_cases i <;> simp [fcEdges] at hm <;> (try rcases hm with rfl | rfl) <;> (try subst hm) <;> simp <;> omega
      · rw [ctx_beyond H' v (by omega)] at he; simp at he
  have hlt := order_lt_size H' (H.size + 8) hdag t8
  -- who else could have an edge into a tensor of the graph, or into W / B
  have hno : ∀ (t i0 : Nat), (H.size ≤ t ∨ t = w ∨ t = b) →
      (∀ i, i ≤ 8 → i ≠ i0 → ∀ e ∈ fcEdges w b x H.size i, e.target ≠ t) →
      ∀ v ∈ backwardOrder H' (H.size + 8), v ≠ H.size + i0 → ∀ e ∈ (H'.ctx v).edges, e.target ≠ t := by
    intro t i0 ht hfin v hv hne e he
    by_cases hvk : v < H.size
    · rw [hext.ctx hvk] at he
      rcases ht with ht | rfl | rfl
      · have := hdagH v e he; omega
      · exact (hsole v e he).1
      · exact (hsole v e he).2
    · have := hlt v hv
      obtain ⟨i, hi, rfl⟩ : ∃ i, i ≤ 8 ∧ v = H.size + i := ⟨v - H.size, by omega, by omega⟩
      exact hfin i hi (by intro h; apply hne; rw [h]) e (fc_edges_sub g i hi e he)
  -- the root keeps the all-ones seed
  let G : Tensor ℝ := vPow (H'.val (H.size + 8)) Scalar.zero
  have hG : Is2 G N O (fun _ _ => 1) := ones_is2 _ N O _ g.y
  have f8 : (backprop bm H' (H.size + 8)).heap.grad (H.size + 8) = some G :=
    grad_root bm H' (H.size + 8) hdag t8 hok (gnew _ (by omega)) g.y.wf
  obtain ⟨hroot, _, _, _⟩ := backwardOrder_spec H' (H.size + 8) hdag t8
  let Hm := markDirty H' (backwardOrder H' (H.size + 8))
  have hv1 : ∀ n, Hm.val n = H'.val n := fun n => markDirty_val _ _ n
  -- the path to W
  have pW : SolePath H' (H.size + 8) (H.size + 8) (pathW w H.size) w := by
    unfold pathW pathMM
    simp only [List.cons_append, List.nil_append]
    refine .cons (t := H.size + 6) (by rw [e8]; simp [List.filter_cons]) ?_ t6 (gnew _ (by omega)) (by omega) ?_
    · apply hno (H.size + 6) 8 (by omega)
      intro i hi hne e he
      interval_cases i <;> simp [fcEdges] at he <;> (try rcases he with rfl | rfl) <;> (try subst he) <;> simp <;> omega
    refine .cons (t := H.size + 5) (by rw [e6]; simp [List.filter_cons]) ?_ t5 (gnew _ (by omega)) (by omega) ?_
    · apply hno (H.size + 5) 6 (by omega)
      intro i hi hne e he
      interval_cases i <;> simp [fcEdges] at he <;> (try rcases he with rfl | rfl) <;> (try subst he) <;> simp <;> omega
    refine .cons (t := H.size + 4) (by rw [e5]; simp [List.filter_cons]) ?_ t4 (gnew _ (by omega)) (by omega) ?_
    · apply hno (H.size + 4) 5 (by omega)
      intro i hi hne e he
      interval_cases i <;> simp [fcEdges] at he <;> (try rcases he with rfl | rfl) <;> (try subst he) <;> simp <;> omega
    refine .cons (t := H.size + 2) (by rw [e4]; simp [List.filter_cons]) ?_ t2 (gnew _ (by omega)) (by omega) ?_
    · apply hno (H.size + 2) 4 (by omega)
      intro i hi hne e he
      interval_cases i <;> simp [fcEdges] at he <;> (try rcases he with rfl | rfl) <;> (try subst he) <;> simp <;> omega
    refine .cons (t := H.size) (by rw [e2]; simp [List.filter_cons]) ?_ t0 (gnew _ (by omega)) (by omega) ?_
    · apply hno H.size 2 (by omega)
      intro i hi hne e he
      interval_cases i <;> simp [fcEdges] at he <;> (try rcases he with rfl | rfl) <;> (try subst he) <;> simp <;> omega
    refine .cons (t := w) (by rw [e0]; simp [List.filter_cons]) ?_ tw gw (by omega) (.nil w)
    · have := hno w 0 (Or.inr (Or.inl rfl))
      simp only [Nat.add_zero] at this
      apply this
      intro i hi hne e he
      interval_cases i <;> simp [fcEdges] at he <;> (try rcases he with rfl | rfl) <;> (try subst he) <;> simp <;> omega
  -- the path to B
  have pB : SolePath H' (H.size + 8) (H.size + 8) (pathB b H.size) b := by
    unfold pathB
    refine .cons (t := H.size + 7) (by rw [e8]; simp [List.filter_cons]) ?_ t7 (gnew _ (by omega)) (by omega) ?_
    · apply hno (H.size + 7) 8 (by omega)
      intro i hi hne e he
      interval_cases i <;> simp [fcEdges] at he <;> (try rcases he with rfl | rfl) <;> (try subst he) <;> simp <;> omega
    refine .cons (t := b) (by rw [e7]; simp [List.filter_cons]) ?_ tb gb (by omega) (.nil b)
    · apply hno b 7 (Or.inr (Or.inr rfl))
      intro i hi hne e he
      interval_cases i <;> simp [fcEdges] at he <;> (try rcases he with rfl | rfl) <;> (try subst he) <;> simp <;> omega
  obtain ⟨gW, pw1, pw2, _⟩ := grad_path bm H' (H.size + 8) hdag t8 hok _ _ _ pW G hroot f8
  obtain ⟨gB, pb1, pb2, _⟩ := grad_path bm H' (H.size + 8) hdag t8 hok _ _ _ pB G hroot f8
  rw [evalPath_val_congr bm Hm H' hv1] at pw1 pb1
  exact ⟨G, gW, gB, hG, pw1, pw2, pb1, pb2⟩

/-- **`BackPropagate` on the output of an FC layer** (`sum` mode; see the header) -/
theorem fc_backprop (H : Heap ℝ) (w b x N D O : Nat) (hR : Reach .sum H)
    (lw : Live H w) (lb : Live H b) (hx : x < H.size) (cx : H.dirty x = false) (hwb : w ≠ b)
    (ww : (H.val w).WF) (wb : (H.val b).WF) (wx : (H.val x).WF)
    (dw : (H.val w).dims = [O]) (db : (H.val b).dims = [O]) (dx : (H.val x).dims = [N, D])
    (hsole : ∀ v, ∀ e ∈ (H.ctx v).edges, e.target ≠ w ∧ e.target ≠ b) :
    ∃ y H', fcForward ⟨some w, some b⟩ [some x] H = .ok (y, H') ∧
      ((backprop .sum H' y).status = .ok () →
        ∃ dW dB, (backprop .sum H' y).heap.grad w = some dW ∧ (backprop .sum H' y).heap.grad b = some dB ∧
          dW.WF ∧ dW.dims = [O] ∧ dB.WF ∧ dB.dims = [O] ∧
          (∀ o, o < O → dW.el [o] = ∑ n ∈ Finset.range N, ∑ d ∈ Finset.range D, (H.val x).el [n, d]) ∧
          (∀ o, o < O → dB.el [o] = (N : ℝ))) := by
  obtain ⟨H', h1, hext, g, himp⟩ := fc_backprop_paths .sum H w b x N D O hR lw lb hx cx hwb ww wb wx dw db dx hsole
  refine ⟨H.size + 8, H', h1, ?_⟩
  intro hok
  obtain ⟨G, gW, gB, hG, pw1, pw2, pb1, pb2⟩ := himp hok
  obtain ⟨dW, qw1, qw2, qw3⟩ := fc_grad_weight g hG
  obtain ⟨dB, qb1, qb2, qb3⟩ := fc_grad_bias g hG
  rw [qw1] at pw1; rw [qb1] at pb1
  injection pw1 with pw1; injection pb1 with pb1
  subst pw1 pb1
  refine ⟨dW, dB, pw2, pb2, qw3.wf, qw3.dims, qb3.wf, qb3.dims, ?_, ?_⟩
  · intro o ho
    rw [qw3.el o ho, C16x.sumOver_real]
    apply Finset.sum_congr rfl
    intro n hn
    rw [C16x.sumOver_real]
    apply Finset.sum_congr rfl
    intro d hd
    simp [mul_eq]
  · intro o ho
    rw [qb3.el o ho, C16x.sumOver_real]
    simp

/-- **The tree as it is (`mean` mode, finding D2), end to end**: under the same hypotheses `B.Gradient()[o]` is `1` for every
    batch size `N` — the wanted `N` divided by the batch size: the real walk, not only the path, exhibits the defect. -/
theorem fc_backprop_bias_mean (H : Heap ℝ) (w b x N D O : Nat) (hR : Reach .mean H)
    (lw : Live H w) (lb : Live H b) (hx : x < H.size) (cx : H.dirty x = false) (hwb : w ≠ b)
    (ww : (H.val w).WF) (wb : (H.val b).WF) (wx : (H.val x).WF)
    (dw : (H.val w).dims = [O]) (db : (H.val b).dims = [O]) (dx : (H.val x).dims = [N, D])
    (hsole : ∀ v, ∀ e ∈ (H.ctx v).edges, e.target ≠ w ∧ e.target ≠ b) :
    ∃ y H', fcForward ⟨some w, some b⟩ [some x] H = .ok (y, H') ∧
      ((backprop .mean H' y).status = .ok () →
        ∃ dB, (backprop .mean H' y).heap.grad b = some dB ∧ dB.WF ∧ dB.dims = [O] ∧ (∀ o, o < O → dB.el [o] = 1)) := by
  obtain ⟨H', h1, hext, g, himp⟩ := fc_backprop_paths .mean H w b x N D O hR lw lb hx cx hwb ww wb wx dw db dx hsole
  refine ⟨H.size + 8, H', h1, ?_⟩
  intro hok
  obtain ⟨G, gW, gB, hG, pw1, pw2, pb1, pb2⟩ := himp hok
  obtain ⟨dB, qb1, qb2, qb3⟩ := fc_grad_bias_mean g hG
  rw [qb1] at pb1
  injection pb1 with pb1
  subst pb1
  refine ⟨dB, pb2, qb3.wf, qb3.dims, ?_⟩
  intro o ho
  have hN : 0 < N := g.vx.pos.1
  rw [qb3.el o ho, C16x.sumOver_real]
  simp [div_eq, ofNat_eq]
  have : (N : ℝ) ≠ 0 := by exact_mod_cast (by omega : N ≠ 0)
  omega

/-! ## success of the walk (leaf parameters, data input) -/

theorem mkCtx_untracked (H : Heap ℝ) (ops : List Nat) (es : List (Edge ℝ)) (hd : ∀ m ∈ ops, H.dirty m = false)
    (ht : ∀ m ∈ ops, H.tracked m = false) : (mkCtx H ops es).tracked = false := by
  have h1 : ops.any H.dirty = false := by
    rw [List.any_eq_false]; intro m hm; rw [hd m hm]; simp
  have h2 : ops.all (fun n => !H.tracked n) = true := by
    rw [List.all_eq_true]; intro m hm; simp [ht m hm]
  unfold mkCtx
  rw [h1, h2]
  simp [freshCtx]

/-- the shape every gradient has on the walk through the layer's graph -/
def fcP (k N D O : Nat) (n : Nat) (g : Tensor ℝ) : Prop :=
  if n = k + 8 ∨ n = k + 7 ∨ n = k + 6 ∨ n = k + 5 then Shaped [N, O] g
  else if n = k + 4 then Shaped [N, O, D] g
  else if n = k + 2 then Shaped [N, O, 1] g
  else if n = k then Shaped [O, 1] g
  else Shaped [O] g

/-- leaf parameters, data input: the walk from the layer's result visits seven tensors of the graph and `W`, `B` -/
theorem fc_leaf_visited (H : Heap ℝ) (w b x N D O : Nat) (bm : BMode) (hR : Reach bm H)
    (lw : Live H w) (lb : Live H b) (hx : x < H.size) (cx : H.dirty x = false) (ux : H.tracked x = false) (hwb : w ≠ b)
    (ww : (H.val w).WF) (wb : (H.val b).WF) (wx : (H.val x).WF)
    (dw : (H.val w).dims = [O]) (db : (H.val b).dims = [O]) (dx : (H.val x).dims = [N, D])
    (leafw : (H.ctx w).edges = []) (leafb : (H.ctx b).edges = [])
    (H' : Heap ℝ) (h1 : fcForward ⟨some w, some b⟩ [some x] H = .ok (H.size + 8, H')) :
    HeapDag H' ∧ ∀ v ∈ backwardOrder H' (H.size + 8), v = H.size + 8 ∨ v = H.size + 7 ∨ v = H.size + 6 ∨ v = H.size + 5 ∨
      v = H.size + 4 ∨ v = H.size + 2 ∨ v = H.size ∨ v = w ∨ v = b := by
  obtain ⟨H'', h1', hext, hsz, g⟩ := fc_forward_graph N D O w b x H lw.1 lb.1 hx _ _ _
    (is1_self _ ww O dw) (is1_self _ wb O db) (is2_self _ wx N D dx)
  obtain ⟨_, rfl⟩ := C15w.run_unique h1 h1'
  have hwk : w < H.size := lw.1
  have hbk : b < H.size := lb.1
  have hxw : x ≠ w := by intro h; rw [h, dw] at dx; simp at dx
  have hxb : x ≠ b := by intro h; rw [h, db] at dx; simp at dx
  obtain ⟨hN, hD⟩ := g.vx.pos
  have hO := g.vw.pos
  have tw : H'.tracked w = true := by have := lw.2.1; simp only [Heap.tracked, hext.ctx hwk] at this ⊢; exact this
  have tb : H'.tracked b = true := by have := lb.2.1; simp only [Heap.tracked, hext.ctx hbk] at this ⊢; exact this
  have cw : H'.dirty w = false := by have := lw.2.2; simp only [Heap.dirty, hext.ctx hwk] at this ⊢; exact this
  have cb : H'.dirty b = false := by have := lb.2.2; simp only [Heap.dirty, hext.ctx hbk] at this ⊢; exact this
  have cx' : H'.dirty x = false := by simp only [Heap.dirty, hext.ctx hx] at cx ⊢; exact cx
  have ux' : H'.tracked x = false := by simp only [Heap.tracked, hext.ctx hx] at ux ⊢; exact ux
  have ew : (H'.ctx w).edges = [] := by rw [hext.ctx hwk]; exact leafw
  have eb : (H'.ctx b).edges = [] := by rw [hext.ctx hbk]; exact leafb
  have gw : H'.grad w = none := by
    have := reach_clean_nograd hR w lw.2.2; simp only [Heap.grad, hext.ctx hwk] at this ⊢; exact this
  have gb : H'.grad b = none := by
    have := reach_clean_nograd hR b lb.2.2; simp only [Heap.grad, hext.ctx hbk] at this ⊢; exact this
  have gnew : ∀ n, H.size ≤ n → H'.grad n = none := (fresh_fcForward _ _ H _ H' h1).2
  have d0 : H'.dirty H.size = false := ctx_clean g.c0 (by simpa using cw)
  have d1 : H'.dirty (H.size + 1) = false := ctx_clean g.c1 (by simpa using cx')
  have d2 : H'.dirty (H.size + 2) = false := ctx_clean g.c2 (by simpa using d0)
  have d3 : H'.dirty (H.size + 3) = false := ctx_clean g.c3 (by simpa using d1)
  have d4 : H'.dirty (H.size + 4) = false := ctx_clean g.c4 (by simpa using ⟨d2, d3⟩)
  have d5 : H'.dirty (H.size + 5) = false := ctx_clean g.c5 (by simpa using d4)
  have d6 : H'.dirty (H.size + 6) = false := ctx_clean g.c6 (by simpa using d5)
  have d7 : H'.dirty (H.size + 7) = false := ctx_clean g.c7 (by simpa using cb)
  have c67 : ∀ m ∈ [H.size + 6, H.size + 7], H'.dirty m = false := by simpa using ⟨d6, d7⟩
  have c23 : ∀ m ∈ [H.size + 2, H.size + 3], H'.dirty m = false := by simpa using ⟨d2, d3⟩
  obtain ⟨t0, e0⟩ := ctx_live g.c0 (by simpa using cw) ⟨w, by simp, tw⟩
  obtain ⟨t2, e2⟩ := ctx_live g.c2 (by simpa using d0) ⟨H.size, by simp, t0⟩
  obtain ⟨t4, e4⟩ := ctx_live g.c4 c23 ⟨H.size + 2, by simp, t2⟩
  obtain ⟨t5, e5⟩ := ctx_live g.c5 (by simpa using d4) ⟨H.size + 4, by simp, t4⟩
  obtain ⟨t6, e6⟩ := ctx_live g.c6 (by simpa using d5) ⟨H.size + 5, by simp, t5⟩
  obtain ⟨t7, e7⟩ := ctx_live g.c7 (by simpa using cb) ⟨b, by simp, tb⟩
  obtain ⟨t8, e8⟩ := ctx_live g.c8 c67 ⟨H.size + 6, by simp, t6⟩
  have u1 : H'.tracked (H.size + 1) = false := by
    unfold Heap.tracked; rw [g.c1]; exact mkCtx_untracked _ _ _ (by simpa using cx') (by simpa using ux')
  have u3 : H'.tracked (H.size + 3) = false := by
    unfold Heap.tracked; rw [g.c3]; exact mkCtx_untracked _ _ _ (by simpa using d1) (by simpa using u1)
  have hdagH := reach_dag hR
  have hdag : HeapDag H' := by
    intro v e he
    by_cases hv : v < H.size
    · rw [hext.ctx hv] at he; exact hdagH v e he
    · by_cases hv9 : v < H.size + 9
      · obtain ⟨i, hi, rfl⟩ : ∃ i, i ≤ 8 ∧ v = H.size + i := ⟨v - H.size, by omega, by omega⟩
        have hm := fc_edges_sub g i hi e he
        interval_cases i <;> simp [fcEdges] at hm <;> (try rcases hm with rfl | rfl) <;> (try subst hm) <;> simp <;> omega
      · rw [ctx_beyond H' v (by omega)] at he; simp at he
  -- who is visited
  have hM : ∀ v ∈ backwardOrder H' (H.size + 8), v = H.size + 8 ∨ v = H.size + 7 ∨ v = H.size + 6 ∨ v = H.size + 5 ∨
      v = H.size + 4 ∨ v = H.size + 2 ∨ v = H.size ∨ v = w ∨ v = b := by
    apply order_subset H' (H.size + 8)
    · left; rfl
    · intro u hu v hv
      unfold succs at hv
      obtain ⟨hm, htv⟩ := List.mem_filter.mp hv
      obtain ⟨e, he, rfl⟩ := List.mem_map.mp hm
      rcases hu with rfl | rfl | rfl | rfl | rfl | rfl | rfl | rfl | rfl
      · rw [e8] at he; simp at he; rcases he with rfl | rfl <;> simp
      · rw [e7] at he; simp at he; subst he; simp
      · rw [e6] at he; simp at he; subst he; simp
      · rw [e5] at he; simp at he; subst he; simp
      · rw [e4] at he; simp at he
        rcases he with rfl | rfl
        · simp
        · simp at htv; rw [u3] at htv; cases htv
      · rw [e2] at he; simp at he; subst he; simp
      · rw [e0] at he; simp at he; subst he; simp
      · rw [ew] at he; simp at he
      · rw [eb] at he; simp at he
  exact ⟨hdag, hM⟩

/-- **`BackPropagate` on the output of an FC layer succeeds** (either mode) when the parameters are leaves (as the
    initializers and `Update` + `ResetGradContext` leave them) and the input is an untracked, unspent data tensor -/
theorem fc_backprop_ok (bm : BMode) (H : Heap ℝ) (w b x N D O : Nat) (hR : Reach bm H)
    (lw : Live H w) (lb : Live H b) (hx : x < H.size) (cx : H.dirty x = false) (ux : H.tracked x = false) (hwb : w ≠ b)
    (ww : (H.val w).WF) (wb : (H.val b).WF) (wx : (H.val x).WF)
    (dw : (H.val w).dims = [O]) (db : (H.val b).dims = [O]) (dx : (H.val x).dims = [N, D])
    (leafw : (H.ctx w).edges = []) (leafb : (H.ctx b).edges = [])
    (H' : Heap ℝ) (h1 : fcForward ⟨some w, some b⟩ [some x] H = .ok (H.size + 8, H')) :
    (backprop bm H' (H.size + 8)).status = .ok () := by
  obtain ⟨H'', h1', hext, hsz, g⟩ := fc_forward_graph N D O w b x H lw.1 lb.1 hx _ _ _
    (is1_self _ ww O dw) (is1_self _ wb O db) (is2_self _ wx N D dx)
  obtain ⟨_, rfl⟩ := C15w.run_unique h1 h1'
  have hwk : w < H.size := lw.1
  have hbk : b < H.size := lb.1
  have hxw : x ≠ w := by intro h; rw [h, dw] at dx; simp at dx
  have hxb : x ≠ b := by intro h; rw [h, db] at dx; simp at dx
  obtain ⟨hN, hD⟩ := g.vx.pos
  have hO := g.vw.pos
  have tw : H'.tracked w = true := by have := lw.2.1; simp only [Heap.tracked, hext.ctx hwk] at this ⊢; exact this
  have tb : H'.tracked b = true := by have := lb.2.1; simp only [Heap.tracked, hext.ctx hbk] at this ⊢; exact this
  have cw : H'.dirty w = false := by have := lw.2.2; simp only [Heap.dirty, hext.ctx hwk] at this ⊢; exact this
  have cb : H'.dirty b = false := by have := lb.2.2; simp only [Heap.dirty, hext.ctx hbk] at this ⊢; exact this
  have cx' : H'.dirty x = false := by simp only [Heap.dirty, hext.ctx hx] at cx ⊢; exact cx
  have ux' : H'.tracked x = false := by simp only [Heap.tracked, hext.ctx hx] at ux ⊢; exact ux
  have ew : (H'.ctx w).edges = [] := by rw [hext.ctx hwk]; exact leafw
  have eb : (H'.ctx b).edges = [] := by rw [hext.ctx hbk]; exact leafb
  have gw : H'.grad w = none := by
    have := reach_clean_nograd hR w lw.2.2; simp only [Heap.grad, hext.ctx hwk] at this ⊢; exact this
  have gb : H'.grad b = none := by
    have := reach_clean_nograd hR b lb.2.2; simp only [Heap.grad, hext.ctx hbk] at this ⊢; exact this
  have gnew : ∀ n, H.size ≤ n → H'.grad n = none := (fresh_fcForward _ _ H _ H' h1).2
  have d0 : H'.dirty H.size = false := ctx_clean g.c0 (by simpa using cw)
  have d1 : H'.dirty (H.size + 1) = false := ctx_clean g.c1 (by simpa using cx')
  have d2 : H'.dirty (H.size + 2) = false := ctx_clean g.c2 (by simpa using d0)
  have d3 : H'.dirty (H.size + 3) = false := ctx_clean g.c3 (by simpa using d1)
  have d4 : H'.dirty (H.size + 4) = false := ctx_clean g.c4 (by simpa using ⟨d2, d3⟩)
  have d5 : H'.dirty (H.size + 5) = false := ctx_clean g.c5 (by simpa using d4)
  have d6 : H'.dirty (H.size + 6) = false := ctx_clean g.c6 (by simpa using d5)
  have d7 : H'.dirty (H.size + 7) = false := ctx_clean g.c7 (by simpa using cb)
  have c67 : ∀ m ∈ [H.size + 6, H.size + 7], H'.dirty m = false := by simpa using ⟨d6, d7⟩
  have c23 : ∀ m ∈ [H.size + 2, H.size + 3], H'.dirty m = false := by simpa using ⟨d2, d3⟩
  obtain ⟨t0, e0⟩ := ctx_live g.c0 (by simpa using cw) ⟨w, by simp, tw⟩
  obtain ⟨t2, e2⟩ := ctx_live g.c2 (by simpa using d0) ⟨H.size, by simp, t0⟩
  obtain ⟨t4, e4⟩ := ctx_live g.c4 c23 ⟨H.size + 2, by simp, t2⟩
  obtain ⟨t5, e5⟩ := ctx_live g.c5 (by simpa using d4) ⟨H.size + 4, by simp, t4⟩
  obtain ⟨t6, e6⟩ := ctx_live g.c6 (by simpa using d5) ⟨H.size + 5, by simp, t5⟩
  obtain ⟨t7, e7⟩ := ctx_live g.c7 (by simpa using cb) ⟨b, by simp, tb⟩
  obtain ⟨t8, e8⟩ := ctx_live g.c8 c67 ⟨H.size + 6, by simp, t6⟩
  have u1 : H'.tracked (H.size + 1) = false := by
    unfold Heap.tracked; rw [g.c1]; exact mkCtx_untracked _ _ _ (by simpa using cx') (by simpa using ux')
  have u3 : H'.tracked (H.size + 3) = false := by
    unfold Heap.tracked; rw [g.c3]; exact mkCtx_untracked _ _ _ (by simpa using d1) (by simpa using u1)
  have hdagH := reach_dag hR
  have hdag : HeapDag H' := by
    intro v e he
    by_cases hv : v < H.size
    · rw [hext.ctx hv] at he; exact hdagH v e he
    · by_cases hv9 : v < H.size + 9
      · obtain ⟨i, hi, rfl⟩ : ∃ i, i ≤ 8 ∧ v = H.size + i := ⟨v - H.size, by omega, by omega⟩
        have hm := fc_edges_sub g i hi e he
        interval_cases i <;> simp [fcEdges] at hm <;> (try rcases hm with rfl | rfl) <;> (try subst hm) <;> simp <;> omega
      · rw [ctx_beyond H' v (by omega)] at he; simp at he
  -- who is visited
  have hM : ∀ v ∈ backwardOrder H' (H.size + 8), v = H.size + 8 ∨ v = H.size + 7 ∨ v = H.size + 6 ∨ v = H.size + 5 ∨
      v = H.size + 4 ∨ v = H.size + 2 ∨ v = H.size ∨ v = w ∨ v = b := by
    apply order_subset H' (H.size + 8)
    · left; rfl
    · intro u hu v hv
      unfold succs at hv
      obtain ⟨hm, htv⟩ := List.mem_filter.mp hv
      obtain ⟨e, he, rfl⟩ := List.mem_map.mp hm
      rcases hu with rfl | rfl | rfl | rfl | rfl | rfl | rfl | rfl | rfl
      · rw [e8] at he; simp at he; rcases he with rfl | rfl <;> simp
      · rw [e7] at he; simp at he; subst he; simp
      · rw [e6] at he; simp at he; subst he; simp
      · rw [e5] at he; simp at he; subst he; simp
      · rw [e4] at he; simp at he
        rcases he with rfl | rfl
        · simp
        · simp at htv; rw [u3] at htv; cases htv
      · rw [e2] at he; simp at he; subst he; simp
      · rw [e0] at he; simp at he; subst he; simp
      · rw [ew] at he; simp at he
      · rw [eb] at he; simp at he
  let Hm := markDirty H' (backwardOrder H' (H.size + 8))
  have hv1 : ∀ n, Hm.val n = H'.val n := fun n => markDirty_val _ _ n
  have hcg : ∀ gy r, evalRule bm Hm gy r = evalRule bm H' gy r := fun gy r => evalRule_val_congr bm Hm H' hv1 gy r
  apply C01p.backprop_ok bm H' (H.size + 8) hdag t8 (fcP H.size N D O)
  · intro n a b' ha hb
    unfold fcP at ha hb ⊢
    split_ifs at ha hb ⊢ <;> exact C15w.shaped_add_ok _ a b' ha hb
  · intro n hn gg hgg
    rcases hM n hn with rfl | rfl | rfl | rfl | rfl | rfl | rfl | rfl | rfl
    all_goals first
      | (rw [gnew _ (by omega)] at hgg; cases hgg)
      | (rw [gw] at hgg; cases hgg)
      | (rw [gb] at hgg; cases hgg)
  · unfold fcP
    rw [if_pos (Or.inl rfl)]
    have := ones_shaped (H'.val (H.size + 8)) g.y.wf
    rw [g.y.dims] at this
    exact this
  · intro u hu e he htr gy hgy
    rw [hcg]
    rcases hM u hu with rfl | rfl | rfl | rfl | rfl | rfl | rfl | rfl | rfl
    · -- the result: identity towards both Broadcast copies
      unfold fcP at hgy; rw [if_pos (Or.inl rfl)] at hgy
      rw [e8] at he; simp at he
      rcases he with rfl | rfl
      · exact ⟨gy, rfl, by (try dsimp only); unfold fcP; rw [if_pos (by omega)]; exact hgy⟩
      · exact ⟨gy, rfl, by (try dsimp only); unfold fcP; rw [if_pos (by omega)]; exact hgy⟩
    · -- Broadcast(B) → B
      unfold fcP at hgy; rw [if_pos (by omega)] at hgy
      rw [e7] at he; simp at he; subst he
      obtain ⟨dB, q1, q2⟩ : ∃ dB, bcastRule bm [O] [N, O] gy = .ok dB ∧ Shaped [O] dB := by
        cases bm with
        | sum => obtain ⟨dB, q1, q2⟩ := bcastRule_row (is2_self gy hgy.1 N O hgy.2); exact ⟨dB, q1, q2.wf, q2.dims⟩
        | mean => obtain ⟨dB, q1, q2⟩ := bcastRule_row_mean (is2_self gy hgy.1 N O hgy.2); exact ⟨dB, q1, q2.wf, q2.dims⟩
      refine ⟨dB, ?_, ?_⟩
      · show bcastRule bm (H'.val b).dims (H'.val (H.size + 7)).dims gy = .ok dB
        rw [g.vb.dims, g.bb.dims]; exact q1
      · (try dsimp only); unfold fcP
        rw [if_neg (by omega), if_neg (by omega), if_neg (by omega), if_neg (by omega)]
        exact q2
    · -- Broadcast(sum) → sum: equal shapes
      unfold fcP at hgy; rw [if_pos (by omega)] at hgy
      rw [e6] at he; simp at he; subst he
      refine ⟨gy, ?_, by (try dsimp only); unfold fcP; rw [if_pos (by omega)]; exact hgy⟩
      show bcastRule bm (H'.val (H.size + 5)).dims (H'.val (H.size + 6)).dims gy = .ok gy
      rw [g.sb]; exact C16x.bcastRule_same bm _ gy
    · -- SumAlong(2) → product
      unfold fcP at hgy; rw [if_pos (by omega)] at hgy
      rw [e5] at he; simp at he; subst he
      obtain ⟨u, hu', iu⟩ := unsq2_mat (is2_self gy hgy.1 N O hgy.2)
      obtain ⟨G3, h3, i3⟩ := bcast_last iu D hD
      refine ⟨G3, ?_, ?_⟩
      · show reducerBroadcasted gy (H'.val (H.size + 4)).dims 2 = .ok G3
        rw [g.mm.dims]
        unfold reducerBroadcasted
        simp only [bind, Out.bind]
        have hu'' : vUnSqueeze gy ((2 : Nat) : Int) = .ok u := hu'
        rw [hu'']
        exact h3
      · (try dsimp only); unfold fcP
        rw [if_neg (by omega), if_pos rfl]
        exact ⟨i3.wf, i3.dims⟩
    · -- MatMul → first operand (the second is untracked)
      unfold fcP at hgy; rw [if_neg (by omega), if_pos rfl] at hgy
      rw [e4] at he; simp at he
      rcases he with rfl | rfl
      · have ixb : Is3 (H'.val (H.size + 3)) N 1 D (fun n _ d => (H.val x).el [n, d]) := by rw [g.xb]; exact g.x1
        obtain ⟨XT, ht, iT⟩ := transpose3 ixb
        obtain ⟨g4, hm, i4⟩ := matMul3 (is3_self gy hgy.1 N O D hgy.2) iT
        refine ⟨g4, ?_, ?_⟩
        · simp only [evalRule, bind, Out.bind, ht, hm]
        · (try dsimp only); unfold fcP
          rw [if_neg (by omega), if_neg (by omega), if_pos rfl]
          exact ⟨i4.wf, i4.dims⟩
      · simp at htr; rw [u3] at htr; cases htr
    · -- Broadcast(W₁) → W₁
      unfold fcP at hgy; rw [if_neg (by omega), if_neg (by omega), if_pos rfl] at hgy
      rw [e2] at he; simp at he; subst he
      obtain ⟨g5, h5, i5⟩ : ∃ g5, bcastRule bm [O, 1] [N, O, 1] gy = .ok g5 ∧ Shaped [O, 1] g5 := by
        cases bm with
        | sum => obtain ⟨g5, h5, i5⟩ := bcastRule_lead3 (is3_self gy hgy.1 N O 1 hgy.2); exact ⟨g5, h5, i5.wf, i5.dims⟩
        | mean => obtain ⟨g5, h5, i5⟩ := bcastRule_lead3_mean (is3_self gy hgy.1 N O 1 hgy.2); exact ⟨g5, h5, i5.wf, i5.dims⟩
      refine ⟨g5, ?_, ?_⟩
      · show bcastRule bm (H'.val H.size).dims (H'.val (H.size + 2)).dims gy = .ok g5
        rw [g.w1.dims, g.wb.dims]; exact h5
      · (try dsimp only); unfold fcP
        rw [if_neg (by omega), if_neg (by omega), if_neg (by omega), if_pos rfl]
        exact i5
    · -- UnSqueeze(W) → W
      unfold fcP at hgy; rw [if_neg (by omega), if_neg (by omega), if_neg (by omega), if_pos rfl] at hgy
      rw [e0] at he; simp at he; subst he
      refine ⟨⟨[O], gy.data⟩, ?_, ?_⟩
      · show vReshape gy ((H'.val w).dims.map Int.ofNat) = .ok ⟨[O], gy.data⟩
        rw [g.vw.dims]
        exact vReshape_data gy hgy.1 [O] (by simp; omega) (by rw [hgy.2]; simp [prod])
      · (try dsimp only); unfold fcP
        rw [if_neg (by omega), if_neg (by omega), if_neg (by omega), if_neg (by omega)]
        have := reshape_col (is2_self gy hgy.1 O 1 hgy.2)
        exact ⟨this.wf, this.dims⟩
    · rw [ew] at he; simp at he
    · rw [eb] at he; simp at he

/-- **leaf parameters, data input**: `BackPropagate` succeeds, and `W.Gradient()[o] = Σ_n Σ_d x[n][d]`,
    `B.Gradient()[o] = N` — no hypothesis on the outcome of the walk -/
theorem fc_backprop_leaf (H : Heap ℝ) (w b x N D O : Nat) (hR : Reach .sum H)
    (lw : Live H w) (lb : Live H b) (hx : x < H.size) (cx : H.dirty x = false) (ux : H.tracked x = false) (hwb : w ≠ b)
    (ww : (H.val w).WF) (wb : (H.val b).WF) (wx : (H.val x).WF)
    (dw : (H.val w).dims = [O]) (db : (H.val b).dims = [O]) (dx : (H.val x).dims = [N, D])
    (leafw : (H.ctx w).edges = []) (leafb : (H.ctx b).edges = [])
    (hsole : ∀ v, ∀ e ∈ (H.ctx v).edges, e.target ≠ w ∧ e.target ≠ b) :
    ∃ y H', fcForward ⟨some w, some b⟩ [some x] H = .ok (y, H') ∧ (backprop .sum H' y).status = .ok () ∧
        ∃ dW dB, (backprop .sum H' y).heap.grad w = some dW ∧ (backprop .sum H' y).heap.grad b = some dB ∧
          dW.WF ∧ dW.dims = [O] ∧ dB.WF ∧ dB.dims = [O] ∧
          (∀ o, o < O → dW.el [o] = ∑ n ∈ Finset.range N, ∑ d ∈ Finset.range D, (H.val x).el [n, d]) ∧
          (∀ o, o < O → dB.el [o] = (N : ℝ)) := by
  obtain ⟨H', h1, hext, g, _⟩ := fc_backprop_paths .sum H w b x N D O hR lw lb hx cx hwb ww wb wx dw db dx hsole
  obtain ⟨y, H'', h2, himp⟩ := fc_backprop H w b x N D O hR lw lb hx cx hwb ww wb wx dw db dx hsole
  obtain ⟨rfl, rfl⟩ := C15w.run_unique h1 h2
  have hok := fc_backprop_ok .sum H w b x N D O hR lw lb hx cx ux hwb ww wb wx dw db dx leafw leafb H' h1
  exact ⟨_, H', h1, hok, himp hok⟩

/-- the hypotheses of `fc_backprop` are satisfiable: `W = [3, 4]`, `B = [0, 1]` tracked leaves, `x = [[1, 2, 5]]` -/
example : ∃ (H : Heap ℝ) (w b x N D O : Nat), Reach .sum H ∧ Live H w ∧ Live H b ∧ x < H.size ∧ H.dirty x = false ∧ w ≠ b ∧
    (H.val w).WF ∧ (H.val b).WF ∧ (H.val x).WF ∧ (H.val w).dims = [O] ∧ (H.val b).dims = [O] ∧ (H.val x).dims = [N, D] ∧
    (∀ v, ∀ e ∈ (H.ctx v).edges, e.target ≠ w ∧ e.target ≠ b) := by
  let H0 : Heap ℝ := #[⟨⟨[2], [3, 4]⟩, freshCtx true⟩]
  let H1 : Heap ℝ := H0.push ⟨⟨[2], [0, 1]⟩, freshCtx true⟩
  let H2 : Heap ℝ := H1.push ⟨⟨[1, 3], [1, 2, 5]⟩, freshCtx false⟩
  have r0 : Reach .sum H0 := Reach.leaf (v := ⟨[2], [3, 4]⟩) (b := true) (r := 0) Reach.empty rfl
  have r1 : Reach .sum H1 := Reach.leaf (v := ⟨[2], [0, 1]⟩) (b := true) (r := 1) r0 rfl
  have r2 : Reach .sum H2 := Reach.leaf (v := ⟨[1, 3], [1, 2, 5]⟩) (b := false) (r := 2) r1 rfl
  refine ⟨H2, 0, 1, 2, 1, 3, 2, r2, ?_, ?_, by simp [H2, H1, H0], by simp [H2, H1, H0, Heap.dirty, Heap.ctx, freshCtx], by omega,
    ?_, ?_, ?_, rfl, rfl, rfl, ?_⟩
  · exact ⟨by simp [H2, H1, H0], by simp [H2, H1, H0, Heap.tracked, Heap.ctx, freshCtx], by simp [H2, H1, H0, Heap.dirty, Heap.ctx, freshCtx]⟩
  · exact ⟨by simp [H2, H1, H0], by simp [H2, H1, H0, Heap.tracked, Heap.ctx, freshCtx], by simp [H2, H1, H0, Heap.dirty, Heap.ctx, freshCtx]⟩
  · refine ⟨by simp [H2, H1, H0, Heap.val, prod], ?_⟩
    intro d hd; simp [H2, H1, H0, Heap.val] at hd; omega
  · refine ⟨by simp [H2, H1, H0, Heap.val, prod], ?_⟩
    intro d hd; simp [H2, H1, H0, Heap.val] at hd; omega
  · refine ⟨by simp [H2, H1, H0, Heap.val, prod], ?_⟩
    intro d hd; simp [H2, H1, H0, Heap.val] at hd; omega
  · intro v e he
    have : (H2.ctx v).edges = [] := by
      by_cases h3 : v < 3
      · interval_cases v <;> simp [H2, H1, H0, Heap.ctx, freshCtx]
      · exact ctx_beyond H2 v (by simp [H2, H1, H0]; omega)
    rw [this] at he; simp at he

end C16z
end Qeep
