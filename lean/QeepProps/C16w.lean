import QeepProps.C16z
import QeepProps.C15z
import QeepProps.C15v
import QeepProps.C15w
import Mathlib.Tactic.IntervalCases
/-!
# C16 — composition: an FC layer followed by an activation

`reach_fcForward`: `Forward` of an FC layer leads from a reachable heap to a reachable heap (it is a sequence of public
tensor calls). `fc_sigmoid_backprop`: FC → Sigmoid, `BackPropagate` on the activation's output (`sum` mode):
`W.Gradient()[o] = Σ_n σ'(y[n][o])·Σ_d x[n][d]`, `B.Gradient()[o] = Σ_n σ'(y[n][o])` with `y` the layer's output and
`σ' = σ(1−σ)` — the chain rule across two components, obtained by COMPOSING the two end-to-end theorems
`C15z.sigmoid_backprop` (what the walk leaves on the activation's input, whatever its ancestors) and `C16z.fc_in_walk_sum`
(what the layer's parameters receive from whatever the walk leaves on the layer's result).
-/
set_option linter.unusedSimpArgs false
set_option linter.unusedSectionVars false
set_option linter.unusedVariables false

namespace Qeep
namespace C16w
open RealScalar C01 C01x C01z C01w C01q C16x C16z C15x C15z

theorem reach_fcForward {bm : BMode} {H H' : Heap ℝ} {w b x r : Nat} (hR : Reach bm H) (hw : w < H.size) (hb : b < H.size)
    (hx : x < H.size) (h : fcForward ⟨some w, some b⟩ [some x] H = .ok (r, H')) : Reach bm H' := by
  unfold fcForward at h
  rw [bind_run (show (liftOut (oneInput [some x]) : HM ℝ Nat) H = .ok (x, H) from rfl)] at h
  simp only [] at h
  rw [bind_run (show (getHeap : HM ℝ (Heap ℝ)) H = .ok (H, H) from rfl)] at h
  split at h
  · simp [liftOut, Out.bind] at h
  · obtain ⟨w1, H1, g1, h⟩ := bind_ok h
    obtain ⟨_, i1, x1⟩ := hUnSqueeze_val g1
    obtain ⟨xx, H2, g2, h⟩ := bind_ok h
    obtain ⟨_, i2, x2⟩ := hUnSqueeze_val g2
    obtain ⟨y, H3, g3, h⟩ := bind_ok h
    have s1 := x1.1
    have s2 := x2.1
    have hw1 : w1 < H2.size := by have := (C15v.hUnSqueeze_id g1).2; omega
    have hxx : xx < H2.size := by have := (C15v.hUnSqueeze_id g2).2; omega
    obtain ⟨_, _, hy, x3⟩ := hMatMul_val hw1 hxx g3
    obtain ⟨y2, H4, g4, g5⟩ := bind_ok h
    obtain ⟨_, i4, x4⟩ := hAlong_val g4
    have hy2 : y2 < H4.size := by have := (C15v.hAlong_id g4).2; omega
    have hb4 : b < H4.size := by have := x3.1; have := x4.1; omega
    have R1 := Reach.unsqueeze hR hw g1
    have R2 := Reach.unsqueeze R1 (by omega) g2
    have R3 := Reach.matmul R2 hw1 hxx g3
    have R4 := Reach.along R3 hy g4
    exact Reach.arith R4 hy2 hb4 g5

/-- the layer's graph survives any extension of the heap -/
theorem FCGraph.ext {H H' : Heap ℝ} {w b x k N D O : Nat} {Wf Bf : Nat → ℝ} {Xf : Nat → Nat → ℝ}
    (g : FCGraph H w b x k N D O Wf Bf Xf) (e : Extends H H') (hw : w < k) (hb : b < k) (hx : x < k) (hk : k + 9 ≤ H.size) :
    FCGraph H' w b x k N D O Wf Bf Xf := by
  have v : ∀ n, n < k + 9 → H'.val n = H.val n := fun n hn => e.val (by omega)
  have c : ∀ n, n < k + 9 → H'.ctx n = H.ctx n := fun n hn => e.ctx (by omega)
  have m : ∀ (ops : List Nat) (es : List (Edge ℝ)), (∀ n ∈ ops, n < k + 9) → mkCtx H' ops es = mkCtx H ops es :=
    fun ops es h => mkCtx_ext e ops (fun n hn => by have := h n hn; omega) es
  refine ⟨?_, ?_, ?_, ?_, ?_, ?_, ?_, ?_, ?_, ?_, ?_, ?_, ?_, ?_, ?_, ?_, ?_, ?_, ?_, ?_, ?_⟩
  · rw [v w (by omega)]; exact g.vw
  · rw [v b (by omega)]; exact g.vb
  · rw [v x (by omega)]; exact g.vx
  · rw [v k (by omega)]; exact g.w1
  · rw [v (k + 1) (by omega)]; exact g.x1
  · rw [v (k + 2) (by omega)]; exact g.wb
  · rw [v (k + 3) (by omega), v (k + 1) (by omega)]; exact g.xb
  · rw [v (k + 4) (by omega)]; exact g.mm
  · rw [v (k + 5) (by omega)]; exact g.s
  · rw [v (k + 6) (by omega), v (k + 5) (by omega)]; exact g.sb
  · rw [v (k + 7) (by omega)]; exact g.bb
  · rw [v (k + 8) (by omega)]; exact g.y
  · rw [c k (by omega), m _ _ (by simp; omega)]; exact g.c0
  · rw [c (k + 1) (by omega), m _ _ (by simp; omega)]; exact g.c1
  · rw [c (k + 2) (by omega), m _ _ (by simp)]; exact g.c2
  · rw [c (k + 3) (by omega), m _ _ (by simp)]; exact g.c3
  · rw [c (k + 4) (by omega), m _ _ (by simp)]; exact g.c4
  · rw [c (k + 5) (by omega), m _ _ (by simp)]; exact g.c5
  · rw [c (k + 6) (by omega), m _ _ (by simp)]; exact g.c6
  · rw [c (k + 7) (by omega), m _ _ (by simp; omega)]; exact g.c7
  · rw [c (k + 8) (by omega), m _ _ (by simp)]; exact g.c8

/-- the layer's result is tracked and unspent when the parameters are and the input is unspent -/
theorem fc_result_live {H2 : Heap ℝ} {w b x k N D O : Nat} {Wf Bf : Nat → ℝ} {Xf : Nat → Nat → ℝ}
    (g : FCGraph H2 w b x k N D O Wf Bf Xf) (hk : k + 8 < H2.size)
    (tw : H2.tracked w = true) (tb : H2.tracked b = true)
    (cw : H2.dirty w = false) (cb : H2.dirty b = false) (cx' : H2.dirty x = false) : Live H2 (k + 8) := by
  have d0 : H2.dirty k = false := ctx_clean g.c0 (by simpa using cw)
  have d1 : H2.dirty (k + 1) = false := ctx_clean g.c1 (by simpa using cx')
  have d2 : H2.dirty (k + 2) = false := ctx_clean g.c2 (by simpa using d0)
  have d3 : H2.dirty (k + 3) = false := ctx_clean g.c3 (by simpa using d1)
  have d4 : H2.dirty (k + 4) = false := ctx_clean g.c4 (by simpa using ⟨d2, d3⟩)
  have d5 : H2.dirty (k + 5) = false := ctx_clean g.c5 (by simpa using d4)
  have d6 : H2.dirty (k + 6) = false := ctx_clean g.c6 (by simpa using d5)
  have d7 : H2.dirty (k + 7) = false := ctx_clean g.c7 (by simpa using cb)
  have c67 : ∀ m ∈ [k + 6, k + 7], H2.dirty m = false := by simpa using ⟨d6, d7⟩
  obtain ⟨t7, _⟩ := ctx_live g.c7 (by simpa using cb) ⟨b, by simp, tb⟩
  obtain ⟨t8, _⟩ := ctx_live g.c8 c67 ⟨k + 7, by simp, t7⟩
  exact ⟨hk, t8, ctx_clean g.c8 c67⟩

/-- the factor the tree's `Broadcast` rule puts on a gradient summed over a batch of `N`: `1` in `sum` mode, `1/N` in `mean`
    mode (finding D2) -/
noncomputable def bscale (bm : BMode) (N : Nat) : ℝ :=
  match bm with
  | .sum => 1
  | .mean => 1 / (N : ℝ)

/-- **leaf parameters, data input — no hypothesis about other consumers and none about the outcome of the walk** (either
    mode): `Forward` and `BackPropagate` succeed and `W.Gradient()[o] = c·Σ_n Σ_d x[n][d]`, `B.Gradient()[o] = c·N` with
    `c = 1` in `sum` mode (what the property demands) and `c = 1/N` in `mean` mode (what the tree computes, finding D2).
    (A leaf parameter may have been consumed by other operations before; the walk does not reach them.) -/
theorem fc_backprop_leaf2 (bm : BMode) (H : Heap ℝ) (w b x N D O : Nat) (hR : Reach bm H)
    (lw : Live H w) (lb : Live H b) (hx : x < H.size) (cx : H.dirty x = false) (ux : H.tracked x = false) (hwb : w ≠ b)
    (ww : (H.val w).WF) (wb : (H.val b).WF) (wx : (H.val x).WF)
    (dw : (H.val w).dims = [O]) (db : (H.val b).dims = [O]) (dx : (H.val x).dims = [N, D])
    (leafw : (H.ctx w).edges = []) (leafb : (H.ctx b).edges = []) :
    ∃ H', fcForward ⟨some w, some b⟩ [some x] H = .ok (H.size + 8, H') ∧ Extends H H' ∧ H'.size = H.size + 9 ∧
      (backprop bm H' (H.size + 8)).status = .ok () ∧
      (∀ v ∈ backwardOrder H' (H.size + 8), H.size ≤ v ∨ v = w ∨ v = b) ∧
      ∃ dW dB, (backprop bm H' (H.size + 8)).heap.grad w = some dW ∧
        (backprop bm H' (H.size + 8)).heap.grad b = some dB ∧
        dW.WF ∧ dW.dims = [O] ∧ dB.WF ∧ dB.dims = [O] ∧
        (∀ o, o < O → dW.el [o] = bscale bm N * ∑ n ∈ Finset.range N, ∑ d ∈ Finset.range D, (H.val x).el [n, d]) ∧
        (∀ o, o < O → dB.el [o] = bscale bm N * (N : ℝ)) := by
  obtain ⟨H', h1, hext, hsz, g⟩ := fc_forward_graph N D O w b x H lw.1 lb.1 hx _ _ _
    (is1_self _ ww O dw) (is1_self _ wb O db) (is2_self _ wx N D dx)
  have hwk : w < H.size := lw.1
  have hbk : b < H.size := lb.1
  obtain ⟨hdag, hM⟩ := fc_leaf_visited H w b x N D O bm hR lw lb hx cx ux hwb ww wb wx dw db dx leafw leafb H' h1
  have hok := fc_backprop_ok bm H w b x N D O hR lw lb hx cx ux hwb ww wb wx dw db dx leafw leafb H' h1
  have tw : H'.tracked w = true := by have := lw.2.1; simp only [Heap.tracked, hext.ctx hwk] at this ⊢; exact this
  have tb : H'.tracked b = true := by have := lb.2.1; simp only [Heap.tracked, hext.ctx hbk] at this ⊢; exact this
  have cw : H'.dirty w = false := by have := lw.2.2; simp only [Heap.dirty, hext.ctx hwk] at this ⊢; exact this
  have cb : H'.dirty b = false := by have := lb.2.2; simp only [Heap.dirty, hext.ctx hbk] at this ⊢; exact this
  have cx' : H'.dirty x = false := by simp only [Heap.dirty, hext.ctx hx] at cx ⊢; exact cx
  have gw : H'.grad w = none := by
    have := reach_clean_nograd hR w lw.2.2; simp only [Heap.grad, hext.ctx hwk] at this ⊢; exact this
  have gb : H'.grad b = none := by
    have := reach_clean_nograd hR b lb.2.2; simp only [Heap.grad, hext.ctx hbk] at this ⊢; exact this
  have gnew : ∀ n, H.size ≤ n → H'.grad n = none := (fresh_fcForward _ _ H _ H' h1).2
  have ly : Live H' (H.size + 8) := fc_result_live g (by omega) tw tb cw cb cx'
  obtain ⟨hroot, _, _, _⟩ := backwardOrder_spec H' (H.size + 8) hdag ly.2.1
  have hG : Is2 (vPow (H'.val (H.size + 8)) Scalar.zero) N O (fun _ _ => 1) := ones_is2 _ N O _ g.y
  have f8 := grad_root bm H' (H.size + 8) hdag ly.2.1 hok (gnew _ (by omega)) g.y.wf
  have hsole : ∀ v ∈ backwardOrder H' (H.size + 8), (v < H.size ∨ H.size + 8 < v) → ∀ e ∈ (H'.ctx v).edges,
      e.target ≠ w ∧ e.target ≠ b ∧ ¬ (H.size ≤ e.target ∧ e.target ≤ H.size + 7) := by
    intro v hv hvk e hev
    rcases hM v hv with rfl | rfl | rfl | rfl | rfl | rfl | rfl | rfl | rfl
    all_goals first
      | omega
      | (rw [hext.ctx hwk, leafw] at hev; simp at hev)
      | (rw [hext.ctx hbk, leafb] at hev; simp at hev)
  have hvis : ∀ v ∈ backwardOrder H' (H.size + 8), H.size ≤ v ∨ v = w ∨ v = b := by
    intro v hv
    rcases hM v hv with rfl | rfl | rfl | rfl | rfl | rfl | rfl | rfl | rfl <;> simp
  have hN : (N : ℝ) ≠ 0 := by have := g.vx.pos.1; exact_mod_cast (by omega : N ≠ 0)
  cases bm with
  | sum =>
    obtain ⟨dW, dB, q1, q2, q3, q4, q5, q6, q7, q8⟩ := fc_in_walk_sum H' (H.size + 8) w b x H.size N D O hdag ly.2.1 hok g hwk hbk hx hwb
      tw tb cw cb cx' gw gb (fun i hi => gnew _ (by omega)) (by omega) (by omega) (by intro i hi; omega) hsole _ _ hG hroot f8
    refine ⟨H', h1, hext, hsz, hok, hvis, dW, dB, q1, q2, q3, q4, q5, q6, ?_, ?_⟩
    · intro o ho
      rw [q7 o ho]
      simp [bscale]
    · intro o ho
      rw [q8 o ho]
      simp [bscale]
  | mean =>
    obtain ⟨dW, dB, q1, q2, q3, q4, q5, q6, q7, q8⟩ := fc_in_walk_mean H' (H.size + 8) w b x H.size N D O hdag ly.2.1 hok g hwk hbk hx hwb
      tw tb cw cb cx' gw gb (fun i hi => gnew _ (by omega)) (by omega) (by omega) (by intro i hi; omega) hsole _ _ hG hroot f8
    refine ⟨H', h1, hext, hsz, hok, hvis, dW, dB, q1, q2, q3, q4, q5, q6, ?_, ?_⟩
    · intro o ho
      rw [q7 o ho]
      simp only [bscale, one_mul]
      rw [div_eq_mul_inv, mul_comm, one_div]
    · intro o ho
      rw [q8 o ho]
      simp only [bscale, Finset.sum_const, Finset.card_range, nsmul_eq_mul, mul_one]
      field_simp

/-- **FC → Sigmoid, `BackPropagate` on the activation's output** (`sum` mode; see the header) -/
theorem fc_sigmoid_backprop (H : Heap ℝ) (w b x N D O : Nat) (hR : Reach .sum H)
    (lw : Live H w) (lb : Live H b) (hx : x < H.size) (cx : H.dirty x = false) (hwb : w ≠ b)
    (ww : (H.val w).WF) (wb : (H.val b).WF) (wx : (H.val x).WF)
    (dw : (H.val w).dims = [O]) (db : (H.val b).dims = [O]) (dx : (H.val x).dims = [N, D])
    (hsole : ∀ v, ∀ e ∈ (H.ctx v).edges, e.target ≠ w ∧ e.target ≠ b) :
    ∃ y H1 r H2, fcForward ⟨some w, some b⟩ [some x] H = .ok (y, H1) ∧
      actForward Activation.sigmoid [some y] H1 = .ok (r, H2) ∧
      ((backprop .sum H2 r).status = .ok () →
        ∃ dW dB, (backprop .sum H2 r).heap.grad w = some dW ∧ (backprop .sum H2 r).heap.grad b = some dB ∧
          dW.dims = [O] ∧ dB.dims = [O] ∧
          (∀ o, o < O → dW.el [o] = ∑ n ∈ Finset.range N,
              (sig ((H1.val y).el [n, o]) * (1 - sig ((H1.val y).el [n, o]))) * ∑ d ∈ Finset.range D, (H.val x).el [n, d]) ∧
          (∀ o, o < O → dB.el [o] = ∑ n ∈ Finset.range N, sig ((H1.val y).el [n, o]) * (1 - sig ((H1.val y).el [n, o])))) := by
  obtain ⟨H1, h1, hext, hsz, g⟩ := fc_forward_graph N D O w b x H lw.1 lb.1 hx _ _ _
    (is1_self _ ww O dw) (is1_self _ wb O db) (is2_self _ wx N D dx)
  have hwk : w < H.size := lw.1
  have hbk : b < H.size := lb.1
  have R1 : Reach .sum H1 := reach_fcForward hR hwk hbk hx h1
  have tw : H1.tracked w = true := by have := lw.2.1; simp only [Heap.tracked, hext.ctx hwk] at this ⊢; exact this
  have tb : H1.tracked b = true := by have := lb.2.1; simp only [Heap.tracked, hext.ctx hbk] at this ⊢; exact this
  have cw : H1.dirty w = false := by have := lw.2.2; simp only [Heap.dirty, hext.ctx hwk] at this ⊢; exact this
  have cb : H1.dirty b = false := by have := lb.2.2; simp only [Heap.dirty, hext.ctx hbk] at this ⊢; exact this
  have cx' : H1.dirty x = false := by simp only [Heap.dirty, hext.ctx hx] at cx ⊢; exact cx
  have gw : H1.grad w = none := by
    have := reach_clean_nograd hR w lw.2.2; simp only [Heap.grad, hext.ctx hwk] at this ⊢; exact this
  have gb : H1.grad b = none := by
    have := reach_clean_nograd hR b lb.2.2; simp only [Heap.grad, hext.ctx hbk] at this ⊢; exact this
  have gnew : ∀ n, H.size ≤ n → H1.grad n = none := (fresh_fcForward _ _ H _ H1 h1).2
  have ly : Live H1 (H.size + 8) := fc_result_live g (by omega) tw tb cw cb cx'
  -- the activation
  obtain ⟨r, H2, hrun, hext2, R2, er, hsz2, _, _, _, _, _, vr, c0, c1, c2, c3, c4, c5, c6⟩ :=
    sigmoid_full .sum H1 (H.size + 8) R1 g.y.wf ly
  obtain ⟨r', H2', hrun', _, himp⟩ := sigmoid_backprop .sum H1 (H.size + 8) R1 g.y.wf ly
  obtain ⟨rfl, rfl⟩ := C15w.run_unique hrun hrun'
  refine ⟨H.size + 8, H1, r, H2, h1, hrun, ?_⟩
  intro hok
  have f8 := himp hok
  subst er
  rw [hsz] at c0 c1 c2 c3 c4 c5 c6 hsz2 hok f8 ⊢
  have hdag := reach_dag R2
  have hdagH := reach_dag hR
  have hdag1 := reach_dag R1
  obtain ⟨_, t6, e6⟩ := liveCtx_grad H2 _ _ c6
  obtain ⟨_, t5, e5⟩ := liveCtx_grad H2 _ _ c5
  obtain ⟨_, t3, e3⟩ := liveCtx_grad H2 _ _ c3
  obtain ⟨_, t0, e0⟩ := liveCtx_grad H2 _ _ c0
  obtain ⟨hroot, hcl, _, _⟩ := backwardOrder_spec H2 (H.size + 9 + 6) hdag t6
  have mem_of (u v : Nat) (hu : u ∈ backwardOrder H2 (H.size + 9 + 6)) (r' : Rule ℝ)
      (hev : (⟨v, r'⟩ : Edge ℝ) ∈ (H2.ctx u).edges) (hv : H2.tracked v = true) : v ∈ backwardOrder H2 (H.size + 9 + 6) := by
    apply hcl u hu
    unfold succs
    exact List.mem_filter.mpr ⟨List.mem_map.mpr ⟨⟨v, r'⟩, hev, rfl⟩, hv⟩
  have ty : H2.tracked (H.size + 8) = true := by
    have := ly.2.1; simp only [Heap.tracked, hext2.ctx ly.1] at this ⊢; exact this
  have m5 := mem_of _ (H.size + 9 + 5) hroot (.powX (H.size + 9 + 5) (-1)) (by rw [e6]; simp) t5
  have m3 := mem_of _ (H.size + 9 + 3) m5 .idG (by rw [e5]; simp) t3
  have m0 := mem_of _ (H.size + 9) m3 (.bcastX (H.size + 9) (H.size + 9 + 3)) (by rw [e3]; simp) t0
  have my := mem_of _ (H.size + 8) m0 (.powX (H.size + 8) 0) (by rw [e0]; simp) ty
  -- the layer's graph in the final heap
  have g2 : FCGraph H2 w b x H.size N D O _ _ _ := FCGraph.ext g hext2 hwk hbk hx (by omega)
  have old : ∀ n, n < H1.size → H2.ctx n = H1.ctx n := fun n hn => hext2.ctx hn
  have G2 : Is2 (⟨(H1.val (H.size + 8)).dims, (H1.val (H.size + 8)).data.map (fun a => sig a * (1 - sig a))⟩ : Tensor ℝ) N O
      (fun n o => sig ((H1.val (H.size + 8)).el [n, o]) * (1 - sig ((H1.val (H.size + 8)).el [n, o]))) := by
    refine ⟨map_wf (fun a => sig a * (1 - sig a)) _ g.y.wf, g.y.dims, ?_⟩
    intro i j hi hj
    exact C14y.map_el (fun a => sig a * (1 - sig a)) _ g.y.wf (by rw [g.y.dims]; exact valid2 hi hj)
  obtain ⟨dW, dB, q1, q2, _, q4, _, q6, q7, q8⟩ := fc_in_walk_sum H2 (H.size + 9 + 6) w b x H.size N D O hdag t6 hok g2 hwk hbk hx hwb
    (by simp only [Heap.tracked, old w (by omega)] at tw ⊢; exact tw)
    (by simp only [Heap.tracked, old b (by omega)] at tb ⊢; exact tb)
    (by simp only [Heap.dirty, old w (by omega)] at cw ⊢; exact cw)
    (by simp only [Heap.dirty, old b (by omega)] at cb ⊢; exact cb)
    (by simp only [Heap.dirty, old x (by omega)] at cx' ⊢; exact cx')
    (by simp only [Heap.grad, old w (by omega)] at gw ⊢; exact gw)
    (by simp only [Heap.grad, old b (by omega)] at gb ⊢; exact gb)
    (by intro i hi; have := gnew (H.size + i) (by omega); simp only [Heap.grad, old (H.size + i) (by omega)] at this ⊢; exact this)
    (by omega) (by omega) (by intro i hi; omega)
    (by
      intro v _ hv e hev
      rcases hv with hv | hv
      · rw [old v (by omega), hext.ctx hv] at hev
        obtain ⟨a1, a2⟩ := hsole v e hev
        have := hdagH v e hev
        exact ⟨a1, a2, by omega⟩
      · by_cases hv2 : v < H.size + 9 + 7
        · obtain ⟨i, hi, rfl⟩ : ∃ i, i ≤ 6 ∧ v = H.size + 9 + i := ⟨v - (H.size + 9), by omega, by omega⟩
          interval_cases i
          · rw [c0] at hev; simp [liveCtx] at hev; subst hev; simp; omega
          · rw [c1] at hev; simp [liveCtx] at hev; subst hev; simp; omega
          · rw [c2] at hev; simp [liveCtx] at hev; subst hev; simp; omega
          · rw [c3] at hev; simp [liveCtx] at hev; subst hev; simp; omega
          · rw [c4] at hev; simp [liveCtx] at hev; subst hev; simp; omega
          · rw [c5] at hev; simp [liveCtx] at hev; rcases hev with rfl | rfl <;> simp <;> omega
          · rw [c6] at hev; simp [liveCtx] at hev; subst hev; simp; omega
        · rw [C16z.ctx_beyond H2 v (by omega)] at hev; simp at hev)
    _ _ G2 my f8
  refine ⟨dW, dB, q1, q2, q4, q6, ?_, q8⟩
  intro o ho
  rw [q7 o ho]

end C16w
end Qeep
