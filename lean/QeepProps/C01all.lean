import QeepProps.C01x
import QeepProps.C01y
import QeepProps.C01w
import QeepProps.C01p
import QeepProps.C01q
import QeepProps.C01u
import QeepProps.C01t
/-! C01 — all property theorems: the base file `C01` (order, adjoint equations, cost, reachable heaps), `C01x` (graph-level
chain rule: reverse accumulation is the adjoint of tangent propagation) and `C01y` (a fully discharged end-to-end instance:
element-wise chains of any length — the gradient left on the leaf is the Mathlib derivative of the composed function),
`C01z` / `C01w` (what a walk leaves on ANY tensor of ANY reachable heap is the sum of what its consumers deliver:
`final_pairing`, `grad_root`, `grad_single`, `grad_two`, `grad_list`). `C01p` (progress: `backprop_ok` — if every rule met on the walk accepts gradients of the shape its tensor has, `BackPropagate` returns without error). `C01q` (`grad_path`: a tensor whose only consumer is its predecessor on a path of back edges receives the rules of the path applied in order). `C01u` (`mul_self_backprop`: the same tensor as both operands, `x.Mul(x)` — `x.Gradient() = 2x`). `C01t` (`grad_double`: one consumer with two back edges into the same tensor; `elmax_self_backprop`: `x.ElMax(x)`). -/
