import QeepProps.C17
import QeepProps.C11x
import QeepProps.C11t
/-! C17 — all property theorems: `C17` (the replacement is `w − lr·g`, the error cases), with the statements about `Update` proved for
C11: the replacement is a newly allocated tensor (`C11x.sgd_bounds`), it is spent until `ResetGradContext` (`C11.sgd_result_is_spent`),
a second `Update` without the reset is reported (`C11.missing_reset_is_reported`), and on a spent weight the five tensors `Update`
allocates have no back edge (`C11t.sgd_nodes_no_edges`). -/
