import QeepProps.C16x
import QeepProps.C16z
import QeepProps.C16w
import QeepProps.C16u
import QeepProps.C16t
/-! C16 — all property theorems: `C16`, `C16x` (forward formula, the nine-node graph, the three back-edge paths and their
results, the derivative statements) and `C16z` (end to end: what `BackPropagate` stores on `W` and `B` after `Forward`, in
`sum` mode, and — the tree as it is — `B.Gradient() = 1` in `mean` mode, finding D2). `C16w`: `Forward` keeps the heap reachable; FC → Sigmoid composed (`fc_sigmoid_backprop`: the chain rule across two components from the two end-to-end theorems). `C16u` (`fc_x_in_walk`: the gradient the layer passes to its input, inside any walk, either mode); `C16v` (the weight path in `mean` mode). `C16t` (`fc_edge_ok`: every back edge of the layer's graph accepts a gradient of its tensor's shape). -/
