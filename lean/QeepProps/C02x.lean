import QeepProps.C02
import QeepProps.C04
import QeepProps.C05
import QeepProps.C06
import QeepProps.C09
import QeepProofs.Along
import QeepProofs.Bcast
import QeepProofs.ValueOps
import QeepProofs.Real
/-!
# C02 (structural family) — the backward rules of the LINEAR structural operations are the adjoint maps

Property C02: "each operation's backward rule is the vector-Jacobian product of its forward function". The forward
functions of Reshape / UnSqueeze / Squeeze / Flatten, Transpose, Slice, Patch, Concat, SumAlong and AvgAlong are
linear maps `f` on the row-major data (permutation, selection, embedding, summation), so their VJP is the transpose
(adjoint) map `fᵀ`. Each theorem below is about one Go `gradFn` closure of `tensor/internal/gradtrack/gradients.go`
(`Qeep.evalRule`, one `Rule` constructor per closure) and states, for every rank and all positive dimension sizes,
what that closure returns element by element; the doc comment says why that is `fᵀ`.

Index conventions: multi-indices are big-endian (tensor order) lists; `Valid dims i` says `i` has one in-range
entry per dimension (`Qeep.Valid` is position-wise, so it is used for both byte orders).

Main theorems (all for every rank / size, on well-formed tensors; generic in the scalar domain unless marked ℝ):

* value of each rule, element by element: `rule_reshape`, `rule_reshape_family`, `rule_transpose`, `rule_sumAlong`,
  `rule_avgAlong`, `rule_slice` (`rule_slice_zero`, `rule_slice_real`), `rule_concat`, `rule_patchX`
  (`rule_patchX_zero`, `rule_patchX_real`), `rule_patchP`;
* forward and backward together (the rule reads the index map of the forward operation in the other direction):
  `slice_vjp`, `patch_vjp`, `concat_vjp` (+ `concatEdges_get`: the rule the `k`-th Concat edge carries), `along_vjp`,
  `transpose_vjp`, `transpose_involution`, `rule_transpose_inverse`;
* adjointness `⟨f dx, gy⟩ = ⟨dx, rule gy⟩` over ℝ (`inner` = `Σ_k a_k · b_k` over row-major positions):
  `adjoint_reshape`, `adjoint_transpose`, `adjoint_slice`, `adjoint_sumAlong`
  (generic lemmas `adjoint_of_perm`, `adjoint_of_embedding`, `adjoint_of_fibres`).

Not proved here: adjointness (sum form) for Patch / Concat / AvgAlong — their element statements above are the
select / embed pairs, the sum form would follow the pattern of `adjoint_slice`.
-/
set_option linter.unusedSimpArgs false
set_option linter.unusedSectionVars false
set_option linter.unusedVariables false

namespace Qeep
namespace C02x

variable {α : Type}

/-! ## generic helpers -/

/-- big-endian / little-endian validity -/
theorem valid_of_reverse {ds st : List Nat} (h : Valid ds.reverse st.reverse) : Valid ds st := by
  have := valid_reverse h
  simpa using this

/-- `at?` on a big-endian valid index is the element at its row-major position -/
theorem at?_valid (t : Tensor α) {i : List Nat} (hv : Valid t.dims i) :
    t.at? i = t.data[val t.dims.reverse i.reverse]? := by
  have := Tensor.at?_reverse t (valid_reverse hv)
  simpa using this

/-- a well-formed tensor has an element at every valid index -/
theorem at?_isSome (t : Tensor α) (hwf : t.WF) {i : List Nat} (hv : Valid t.dims i) :
    ∃ a, t.at? i = some a := by
  rw [at?_valid t hv]
  have hlt := val_lt (valid_reverse hv)
  rw [prod_reverse, ← hwf.1] at hlt
  exact ⟨_, List.getElem?_eq_getElem hlt⟩

/-- `at?` only depends on dims and data -/
theorem at?_map (f : α → α) (t : Tensor α) (i : List Nat) : (t.map f).at? i = (t.at? i).map f := by
  unfold Tensor.at? Tensor.map
  simp only []
  split
  · cases offset t.dims i with
    | none => rfl
    | some o => simp
  · rfl

/-- two well-formed tensors of the same dims that agree at every valid index are equal -/
theorem tensor_ext (a b : Tensor α) (ha : a.WF) (hb : b.WF) (hd : a.dims = b.dims)
    (h : ∀ u, Valid a.dims.reverse u → a.at? u.reverse = b.at? u.reverse) : a = b := by
  have hpos : ∀ d ∈ a.dims.reverse, 0 < d := fun d hd' => ha.2 d (by simpa using hd')
  have hdata : a.data = b.data := by
    apply List.ext_getElem?
    intro k
    by_cases hk : k < prod a.dims
    · have hv := valid_iter hpos k
      have e := h _ hv
      rw [Tensor.at?_reverse a hv, Tensor.at?_reverse b (by rw [← hd]; exact hv), ← hd, val_iter hpos k,
        prod_reverse, Nat.mod_eq_of_lt hk] at e
      exact e
    · rw [List.getElem?_eq_none (by rw [ha.1]; omega), List.getElem?_eq_none (by rw [hb.1, ← hd]; omega)]
  cases a; cases b
  simp only [Tensor.mk.injEq]
  exact ⟨hd, hdata⟩

section reshape
variable [Scalar α]

/-! ## 1. Reshape / UnSqueeze / Squeeze / Flatten -/

/-- **`gradtrack.Reshape` / `UnSqueeze` / `Squeeze` / `Flatten`: `gradFn = y.Gradient().Reshape(x.Shape())`.**
    The forward maps keep the row-major data and only relabel the dims (`C06.reshape_data`, `unsqueeze_data`,
    `squeeze_data`, `flatten_data`), i.e. on the data they are the identity permutation. The closure returns the
    upstream gradient's data, unchanged and in the same order, under the operand's dims: the inverse relabelling,
    which for a permutation is the adjoint. Holds for every upstream gradient with the element count of `x`. -/
theorem rule_reshape (bm : BMode) (H : Heap α) (gy : Tensor α) (x : Nat) (wg : gy.WF) (wx : (H.val x).WF)
    (hp : prod gy.dims = prod (H.val x).dims) :
    evalRule bm H gy (.reshapeX x) = .ok ⟨(H.val x).dims, gy.data⟩ := by
  have h := (C06.vReshape_total gy wg ((H.val x).dims.map Int.ofNat)).1
    ⟨validInputDims_ofNat _ wx.2, by rw [natDims_ofNat]; exact hp.symm⟩
  rw [natDims_ofNat] at h
  simpa [evalRule] using h

/-- the four forward operations that attach `Rule.reshapeX`, as functions of the operand value -/
inductive ReshapeOp
  | reshape (shape : List Int) | unsqueeze (dim : Int) | squeeze (dim : Int) | flatten (dim : Int)

def ReshapeOp.fwd (o : ReshapeOp) (t : Tensor α) : Out (Tensor α) :=
  match o with
  | .reshape s => vReshape t s
  | .unsqueeze d => vUnSqueeze t d
  | .squeeze d => vSqueeze t d
  | .flatten d => vFlatten t d

/-- the forward map of each of the four operations keeps the data and the element count -/
theorem reshape_fwd (o : ReshapeOp) (t y : Tensor α) (wt : t.WF) (h : o.fwd t = .ok y) :
    y.data = t.data ∧ prod y.dims = prod t.dims := by
  cases o with
  | reshape s =>
    simp only [ReshapeOp.fwd] at h
    by_cases hv : validInputDims s = true ∧ prod (natDims s) = prod t.dims
    · rw [(C06.vReshape_total t wt s).1 hv] at h
      injection h with h; subst h; exact ⟨rfl, hv.2⟩
    · rw [(C06.vReshape_total t wt s).2 hv] at h; cases h
  | unsqueeze d =>
    simp only [ReshapeOp.fwd, vUnSqueeze] at h
    split at h
    · rw [C06.unsqueeze_data t wt] at h
      simp only [Out.ofOpt] at h
      injection h with h; subst h; exact ⟨rfl, C06.prod_unsqueezeDims _ _⟩
    · cases h
  | squeeze d =>
    simp only [ReshapeOp.fwd, vSqueeze] at h
    split at h
    · rename_i hv
      simp only [validSqueeze, Bool.and_eq_true, beq_iff_eq] at hv
      rw [C06.squeeze_data t wt _ hv.2] at h
      simp only [Out.ofOpt] at h
      injection h with h; subst h; exact ⟨rfl, C06.prod_squeezeDims _ _ hv.2⟩
    · cases h
  | flatten d =>
    simp only [ReshapeOp.fwd, vFlatten] at h
    split at h
    · rw [C06.flatten_data t wt] at h
      simp only [Out.ofOpt] at h
      injection h with h; subst h; exact ⟨rfl, C06.prod_flattenDims _ _⟩
    · cases h

/-- **Reshape family, forward and backward together**: whichever of Reshape / UnSqueeze / Squeeze / Flatten produced
    `y` from `x`, the closure applied to an upstream gradient of `y`'s shape returns that gradient's data under `x`'s
    dims; in particular the closure applied to `y` itself returns `x` (rule ∘ forward = id: the rule is the inverse
    permutation = the adjoint of the forward relabelling). -/
theorem rule_reshape_family (bm : BMode) (H : Heap α) (o : ReshapeOp) (x : Nat) (y gy : Tensor α)
    (wx : (H.val x).WF) (hf : o.fwd (H.val x) = .ok y) (wg : gy.WF) (hd : gy.dims = y.dims) :
    evalRule bm H gy (.reshapeX x) = .ok ⟨(H.val x).dims, gy.data⟩ ∧
    (y.WF → evalRule bm H y (.reshapeX x) = .ok (H.val x)) := by
  obtain ⟨e1, e2⟩ := reshape_fwd o (H.val x) y wx hf
  refine ⟨rule_reshape bm H gy x wg wx (by rw [hd, e2]), ?_⟩
  intro wy
  rw [rule_reshape bm H y x wy wx e2, e1]

end reshape

/-! ## 2. Transpose -/

/-- swap the last two coordinates of a big-endian index -/
def swapLast2 (i : List Nat) : List Nat := (swap2 i.reverse).reverse

theorem swapLast2_swapLast2 (i : List Nat) : swapLast2 (swapLast2 i) = i := by
  simp [swapLast2, swap2_swap2]

theorem transposeDims_eq (ds : List Nat) : transposeDims ds = swapLast2 ds := by
  unfold transposeDims swapLast2
  cases h : ds.reverse with
  | nil => have : ds = [] := by simpa using h
           simp [this, swap2]
  | cons a l =>
    cases l with
    | nil =>
      have : ds = [a] := by
        have := congrArg List.reverse h; simpa using this
      simp [this, swap2]
    | cons b r => simp [swap2]

theorem transposeDims_invol (ds : List Nat) : transposeDims (transposeDims ds) = ds := by
  rw [transposeDims_eq, transposeDims_eq, swapLast2_swapLast2]

theorem valid_swap2 : ∀ {ds u : List Nat}, Valid ds u → Valid (swap2 ds) (swap2 u)
  | _, _, .nil => .nil
  | _, _, .cons h .nil => .cons h .nil
  | _, _, .cons h (.cons h' hv) => .cons h' (.cons h hv)

theorem valid_swapLast2 {ds i : List Nat} (h : Valid ds i) : Valid (swapLast2 ds) (swapLast2 i) :=
  valid_reverse (valid_swap2 (valid_reverse h))

section transpose
variable [Scalar α]

/-- **`gradtrack.Transpose`: `gradFn = y.Gradient().Transpose()`.** Forward: `y[p…, i, j] = x[p…, j, i]`
    (`C04.transpose_get`), a permutation of the elements. The closure never fails on a well-formed upstream gradient
    of rank ≥ 2, returns a well-formed tensor with the last two dims swapped back, and its element at every valid
    index `i` is the upstream element at `i` with the last two coordinates swapped: the same coordinate swap read in the
    other direction, i.e. the inverse permutation, which is the adjoint of the forward permutation. -/
theorem rule_transpose (bm : BMode) (H : Heap α) (gy : Tensor α) (wg : gy.WF) (hr : 2 ≤ gy.dims.length) :
    ∃ r, evalRule bm H gy .transposeX = .ok r ∧ r.dims = swapLast2 gy.dims ∧ r.WF ∧
      ∀ i, Valid r.dims i → r.at? i = gy.at? (swapLast2 i) := by
  obtain ⟨data, e, wf, hget⟩ := C04.transpose_get gy wg hr
  refine ⟨⟨transposeDims gy.dims, data⟩, ?_, transposeDims_eq _, wf, ?_⟩
  · simp [evalRule, vTranspose, validTranspose, hr, e, Out.ofOpt]
  · intro i hi
    have := (hget i.reverse (valid_reverse hi)).1
    simpa [swapLast2] using this

/-- **Transpose is an involution** (value level): transposing twice gives the tensor back, for every well-formed tensor
    of rank ≥ 2. Hence the forward map is a permutation that is its own inverse, and the closure `gy ↦ gy.Transpose()`
    is exactly that inverse (= adjoint): `rule (forward x) = x`. -/
theorem transpose_involution (t : Tensor α) (hwf : t.WF) (hr : 2 ≤ t.dims.length) :
    ∃ t', vTranspose t = .ok t' ∧ vTranspose t' = .ok t := by
  obtain ⟨d1, e1, wf1, g1⟩ := C04.transpose_get t hwf hr
  have hr1 : 2 ≤ (⟨transposeDims t.dims, d1⟩ : Tensor α).dims.length := by
    show 2 ≤ (transposeDims t.dims).length
    rw [transposeDims_eq]; simp [swapLast2, swap2_length]; exact hr
  obtain ⟨d2, e2, wf2, g2⟩ := C04.transpose_get ⟨transposeDims t.dims, d1⟩ wf1 hr1
  simp only [transposeDims_invol] at e2 wf2 g2
  have heq : (⟨t.dims, d2⟩ : Tensor α) = t := by
    apply tensor_ext _ t wf2 hwf rfl
    intro u hu
    have hu' : Valid t.dims.reverse u := hu
    rw [(g2 u hu').1]
    have hsw : Valid (transposeDims t.dims).reverse (swap2 u) := by
      have := valid_swap2 hu'
      rw [transposeDims_eq]; simpa [swapLast2] using this
    rw [(g1 (swap2 u) hsw).1, swap2_swap2]
  refine ⟨⟨transposeDims t.dims, d1⟩, ?_, ?_⟩
  · simp [vTranspose, validTranspose, hr, e1, Out.ofOpt]
  · have hr1' : 2 ≤ (transposeDims t.dims).length := hr1
    simp [vTranspose, validTranspose, hr1', e2, Out.ofOpt, heq]

/-- the Transpose closure undoes the forward Transpose -/
theorem rule_transpose_inverse (bm : BMode) (H : Heap α) (x : Tensor α) (wx : x.WF) (hr : 2 ≤ x.dims.length) :
    ∃ y, vTranspose x = .ok y ∧ evalRule bm H y .transposeX = .ok x := by
  obtain ⟨y, h1, h2⟩ := transpose_involution x wx hr
  exact ⟨y, h1, by simpa [evalRule] using h2⟩

end transpose

/-! ## 6. SumAlong / AvgAlong -/

theorem projLE_append : ∀ (sd sh u : List Nat) (d h x : Nat), sd.length = sh.length → sh.length = u.length →
    projLE (sd ++ [d]) (sh ++ [h]) (u ++ [x]) = projLE sd sh u ++ [if d = h then x else 0]
  | [], [], [], _, _, _, _, _ => by simp [projLE]
  | a :: sd, b :: sh, c :: u, d, h, x, h1, h2 => by
    have ih := projLE_append sd sh u d h x (by simpa using h1) (by simpa using h2)
    simp only [List.cons_append, projLE, ih]
  | [], _ :: _, _, _, _, _, h1, _ => by simp at h1
  | _ :: _, [], _, _, _, _, h1, _ => by simp at h1
  | [], [], _ :: _, _, _, _, _, h2 => by simp at h2
  | _ :: _, _ :: _, [], _, _, _, _, h2 => by simp at h2

/-- for equal ranks the right-aligned projection commutes with reversal -/
theorem projLE_reverse : ∀ (sd sh u : List Nat), sd.length = sh.length → sh.length = u.length →
    projLE sd.reverse sh.reverse u.reverse = (projLE sd sh u).reverse
  | [], [], [], _, _ => rfl
  | a :: sd, b :: sh, c :: u, h1, h2 => by
    have h1' : sd.length = sh.length := by simpa using h1
    have h2' : sh.length = u.length := by simpa using h2
    simp only [List.reverse_cons, projLE]
    rw [projLE_append _ _ _ _ _ _ (by simpa using h1') (by simpa using h2'), projLE_reverse sd sh u h1' h2']
  | [], _ :: _, _, h1, _ => by simp at h1
  | _ :: _, [], _, h1, _ => by simp at h1
  | [], [], _ :: _, _, h2 => by simp at h2
  | _ :: _, _ :: _, [], _, h2 => by simp at h2

theorem validBroadcastLE_append : ∀ (a b : List Nat) (s d : Nat), a.length = b.length →
    validBroadcastLE (a ++ [s]) (b ++ [d]) = (validBroadcastLE a b && (s == d || s == 1))
  | [], [], _, _, _ => by simp [validBroadcastLE]
  | x :: a, y :: b, s, d, h => by
    have ih := validBroadcastLE_append a b s d (by simpa using h)
    simp only [List.cons_append, validBroadcastLE, ih, Bool.and_assoc]
  | [], _ :: _, _, _, h => by simp at h
  | _ :: _, [], _, _, h => by simp at h

theorem validBroadcastLE_reverse : ∀ (a b : List Nat), a.length = b.length →
    validBroadcastLE a.reverse b.reverse = validBroadcastLE a b
  | [], [], _ => rfl
  | x :: a, y :: b, h => by
    have h' : a.length = b.length := by simpa using h
    simp only [List.reverse_cons]
    rw [validBroadcastLE_append _ _ _ _ (by simpa using h'), validBroadcastLE_reverse a b h']
    simp only [validBroadcastLE, Bool.and_comm]
  | [], _ :: _, h => by simp at h
  | _ :: _, [], h => by simp at h

/-- UnSqueeze at `dim` of the dims with `dim` removed: the dims with size 1 at `dim` -/
theorem unsqueeze_squeeze : ∀ (dim : Nat) (xd : List Nat), dim < xd.length →
    unsqueezeDims dim (squeezeDims dim xd) = xd.set dim 1
  | _, [], h => by simp at h
  | 0, d :: ds, _ => by simp [unsqueezeDims, squeezeDims]
  | dim + 1, d :: ds, h => by
    have ih := unsqueeze_squeeze dim ds (by simpa using h)
    simp only [unsqueezeDims, squeezeDims] at ih ⊢
    simp only [List.take_succ_cons, List.drop_succ_cons, List.cons_append, List.set_cons_succ, ih]

theorem squeezeDims_length (dim : Nat) (xd : List Nat) (h : dim < xd.length) :
    (squeezeDims dim xd).length = xd.length - 1 := by
  simp [squeezeDims]; omega

theorem validBroadcastLE_set_one : ∀ (dim : Nat) (xd : List Nat), validBroadcastLE (xd.set dim 1) xd = true
  | _, [] => by simp [validBroadcastLE]
  | 0, d :: ds => by simp [validBroadcastLE, validBroadcastLE_self]
  | dim + 1, d :: ds => by simp [validBroadcastLE, validBroadcastLE_set_one dim ds]

/-- source index read by `Broadcast` from dims with size 1 at `dim`: coordinate `dim` pinned to 0 -/
theorem projLE_set_one : ∀ (dim : Nat) {xd i : List Nat}, Valid xd i →
    projLE (xd.set dim 1) xd i = i.set dim 0
  | _, _, _, .nil => by simp [projLE]
  | 0, _, _, .cons (d := d) (s := s) (ds := ds) (ss := ss) hs hv => by
    simp only [List.set_cons_zero, projLE, projLE_self ds ss hv.length_eq]
    split
    · rename_i h1; congr 1; omega
    · rfl
  | dim + 1, _, _, .cons (d := d) (s := s) (ds := ds) (ss := ss) hs hv => by
    simp only [List.set_cons_succ, projLE, if_true, projLE_set_one dim hv]

theorem prod_set_one : ∀ (dim : Nat) (xd : List Nat), dim < xd.length → prod (xd.set dim 1) = prod (squeezeDims dim xd)
  | _, [], h => by simp at h
  | 0, d :: ds, _ => by simp [squeezeDims, prod]
  | dim + 1, d :: ds, h => by
    have ih := prod_set_one dim ds (by simpa using h)
    simp only [squeezeDims] at ih ⊢
    simp only [List.set_cons_succ, List.take_succ_cons, List.drop_succ_cons, List.cons_append, prod, ih]

/-- a dimension of size 1 indexed by 0 does not move the row-major offset -/
theorem offset_set_one : ∀ (dim : Nat) (xd i : List Nat), dim < xd.length → i.length = xd.length →
    offset (xd.set dim 1) (i.set dim 0) = offset (squeezeDims dim xd) (i.eraseIdx dim)
  | _, [], _, h, _ => by simp at h
  | _, _ :: _, [], _, hl => by simp at hl
  | 0, d :: ds, x :: is, _, _ => by
    simp only [List.set_cons_zero, List.eraseIdx_cons_zero, squeezeDims, List.take_zero, List.nil_append,
      List.drop_succ_cons, List.drop_zero, offset]
    cases offset ds is <;> simp
  | dim + 1, d :: ds, x :: is, h, hl => by
    have h' : dim < ds.length := by simpa using h
    have hl' : is.length = ds.length := by simpa using hl
    have ih := offset_set_one dim ds is h' hl'
    have hp := prod_set_one dim ds h'
    have hsq : squeezeDims (dim + 1) (d :: ds) = d :: squeezeDims dim ds := by simp [squeezeDims]
    rw [hsq]
    simp only [List.set_cons_succ, List.eraseIdx_cons_succ, offset, ih]
    have e1 : (ds.set dim 1).take (is.set dim 0).length = ds.set dim 1 := by
      have : (is.set dim 0).length = (ds.set dim 1).length := by simp [hl']
      rw [this, List.take_length]
    have e2 : (squeezeDims dim ds).take (is.eraseIdx dim).length = squeezeDims dim ds := by
      have : (is.eraseIdx dim).length = (squeezeDims dim ds).length := by
        rw [List.length_eraseIdx, squeezeDims_length dim ds h', hl']; simp [h']
      rw [this, List.take_length]
    rw [e1, e2, hp]

/-- element of a tensor whose dims carry a size-1 dimension at `dim` = element of the squeezed tensor -/
theorem at?_set_one (dim : Nat) (xd : List Nat) (data : List α) (i : List Nat) (h : dim < xd.length)
    (hl : i.length = xd.length) :
    (⟨xd.set dim 1, data⟩ : Tensor α).at? (i.set dim 0) = (⟨squeezeDims dim xd, data⟩ : Tensor α).at? (i.eraseIdx dim) := by
  unfold Tensor.at?
  have l1 : (i.set dim 0).length = (xd.set dim 1).length := by simp [hl]
  have l2 : (i.eraseIdx dim).length = (squeezeDims dim xd).length := by
    rw [List.length_eraseIdx, squeezeDims_length dim xd h, hl]; simp [h]
  simp only [l1, l2, if_true, offset_set_one dim xd i h hl]

section along
variable [Scalar α]

/-- `reducerBroadcasted(gy, x, dim)`: UnSqueeze at `dim`, then Broadcast to `x.Shape()` — replication along `dim` -/
theorem reducerBroadcasted_get (gy : Tensor α) (xd : List Nat) (dim : Nat) (hpos : ∀ d ∈ xd, 0 < d)
    (hdim : dim < xd.length) (wg : gy.WF) (hd : gy.dims = squeezeDims dim xd) :
    ∃ r, reducerBroadcasted gy xd dim = .ok r ∧ r.dims = xd ∧ r.WF ∧
      ∀ i, Valid xd i → r.at? i = gy.at? (i.eraseIdx dim) := by
  have hlen : gy.dims.length = xd.length - 1 := by rw [hd]; exact squeezeDims_length dim xd hdim
  have hvu : validUnSqueeze (dim : Int) gy.dims = true := by
    simp only [validUnSqueeze, Bool.and_eq_true, decide_eq_true_eq]; omega
  have hu : vUnSqueeze gy (dim : Int) = .ok ⟨xd.set dim 1, gy.data⟩ := by
    unfold vUnSqueeze
    rw [if_pos hvu, C06.unsqueeze_data gy wg, Int.toNat_natCast, hd, unsqueeze_squeeze dim xd hdim]
    rfl
  have wo : (⟨xd.set dim 1, gy.data⟩ : Tensor α).WF := by
    refine ⟨?_, ?_⟩
    · show gy.data.length = prod (xd.set dim 1)
      rw [prod_set_one dim xd hdim, ← hd]; exact wg.1
    · intro d hd'
      rcases List.mem_or_eq_of_mem_set hd' with h | h
      · exact hpos d h
      · omega
  have hv : validBroadcast (xd.set dim 1) xd = true := by
    unfold validBroadcast
    rw [validBroadcastLE_reverse _ _ (by simp)]
    exact validBroadcastLE_set_one dim xd
  obtain ⟨data, e, wf, hget⟩ := C03.broadcast_get ⟨xd.set dim 1, gy.data⟩ wo xd hpos hv
  refine ⟨⟨xd, data⟩, ?_, rfl, wf, ?_⟩
  · unfold reducerBroadcasted
    simp only [bind, Out.bind, hu]
    unfold vBroadcastN vBroadcast
    rw [validInputDims_ofNat _ hpos, natDims_ofNat]
    simp only [Bool.true_and]
    rw [if_pos hv, e]; rfl
  · intro i hi
    have h1 := (hget i.reverse (valid_reverse hi)).1
    simp only [List.reverse_reverse] at h1
    rw [h1, projLE_reverse _ _ _ (by simp) (by simp [hi.length_eq]), List.reverse_reverse,
      projLE_set_one dim hi, at?_set_one dim xd gy.data i hdim hi.length_eq, ← hd]

/-- **`gradtrack.SumAlong`: `gradFn = reducerBroadcasted(y.Gradient(), x, dim)`.** Forward: `y[j] = Σ_k x[j with k
    inserted at dim]` (`C05.along_get` with `Tensor.sum`), the summation map along `dim`. The closure succeeds on every
    well-formed upstream gradient of `y`'s shape, returns a well-formed tensor of `x`'s shape, and its element at every
    valid index `i` of `x` is the upstream element at `i` with coordinate `dim` removed — the same for all values of that
    coordinate: replication along `dim`, which is the adjoint of summation along `dim`
    (`Σ_j (Σ_k x[j,k]) gy[j] = Σ_{j,k} x[j,k] gy[j]`). -/
theorem rule_sumAlong (bm : BMode) (H : Heap α) (gy : Tensor α) (x dim : Nat) (wx : (H.val x).WF)
    (hdim : dim < (H.val x).dims.length) (wg : gy.WF) (hd : gy.dims = squeezeDims dim (H.val x).dims) :
    ∃ r, evalRule bm H gy (.sumAlongX x dim) = .ok r ∧ r.dims = (H.val x).dims ∧ r.WF ∧
      ∀ i, Valid (H.val x).dims i → r.at? i = gy.at? (i.eraseIdx dim) := by
  simpa [evalRule] using reducerBroadcasted_get gy (H.val x).dims dim wx.2 hdim wg hd

/-- **`gradtrack.AvgAlong` / `MeanAlong`: `gradFn = reducerBroadcasted(y.Gradient(), x, dim).Scale(1 / n)`**, `n` the
    size of `x` along `dim`. Forward: `y[j] = (Σ_k x[j,k]) / n`, i.e. `(1/n) ·` summation along `dim`. The closure returns
    `(1/n) · gy[i with coordinate dim removed]` at every valid index `i` of `x`: `(1/n) ·` replication along `dim`, the
    adjoint of the forward map. -/
theorem rule_avgAlong (bm : BMode) (H : Heap α) (gy : Tensor α) (x dim : Nat) (wx : (H.val x).WF)
    (hdim : dim < (H.val x).dims.length) (wg : gy.WF) (hd : gy.dims = squeezeDims dim (H.val x).dims) :
    ∃ r, evalRule bm H gy (.avgAlongX x dim) = .ok r ∧ r.dims = (H.val x).dims ∧ r.WF ∧
      ∀ i, Valid (H.val x).dims i →
        r.at? i = (gy.at? (i.eraseIdx dim)).map
          (fun g => Scalar.mul (Scalar.div Scalar.one (Scalar.ofNat ((H.val x).dims.getD dim 0))) g) := by
  obtain ⟨r, e, hdims, wf, hget⟩ := reducerBroadcasted_get gy (H.val x).dims dim wx.2 hdim wg hd
  refine ⟨vScale r (Scalar.div Scalar.one (Scalar.ofNat ((H.val x).dims.getD dim 0))), ?_, hdims, map_wf _ _ wf, ?_⟩
  · simp only [evalRule, bind, Out.bind, e]; rfl
  · intro i hi
    rw [← hget i hi]
    exact at?_map _ r i

end along

/-! ## 3. Slice -/

/-- big-endian index `i` lies in the window `[From, To)` of every range -/
def inWin : List (Nat × Nat) → List Nat → Bool
  | (f, t) :: w, j :: js => decide (f ≤ j ∧ j < t) && inWin w js
  | _, _ => true

theorem completeIndex_length : ∀ (idx : List (Nat × Nat)) (ds : List Nat), (completeIndex idx ds).length = ds.length
  | _, [] => by simp [completeIndex]
  | [], d :: ds => by simp [completeIndex, completeIndex_length [] ds]
  | (f, t) :: rest, d :: ds => by simp [completeIndex, completeIndex_length rest ds]

/-- completing an index against the dims of the block it selects gives the same complete index -/
theorem completeIndex_sliceDims : ∀ (idx : List (Nat × Nat)) (ds : List Nat),
    completeIndex idx (sliceDims (completeIndex idx ds)) = completeIndex idx ds
  | _, [] => by simp [completeIndex, sliceDims]
  | [], d :: ds => by
    have ih := completeIndex_sliceDims [] ds
    simp only [sliceDims] at ih
    simp [completeIndex, sliceDims, ih]
  | (f, t) :: rest, d :: ds => by
    have ih := completeIndex_sliceDims rest ds
    simp only [sliceDims] at ih
    simp only [completeIndex, sliceDims, List.map_cons]
    split
    · simp [ih]
    · rename_i h; simp [ih]

/-- every range of a complete index is ordered -/
def Ordered (W : List (Nat × Nat)) : Prop := ∀ p ∈ W, p.1 ≤ p.2

theorem ordered_complete : ∀ {idx ds}, C06.RangesOK idx ds → Ordered (completeIndex idx ds)
  | _, [], _ => by simp [completeIndex, Ordered]
  | _, d :: ds, .nil _ => by
    intro p hp
    simp only [completeIndex, List.mem_cons] at hp
    rcases hp with rfl | hp
    · exact Nat.zero_le _
    · exact ordered_complete (.nil ds) p hp
  | _, _, .cons (f := f) (t := t) (d := d) h hr => by
    intro p hp
    simp only [completeIndex, List.mem_cons] at hp
    rcases hp with rfl | hp
    · split
      · exact Nat.zero_le _
      · rcases h with h | h
        · rename_i hne; exact absurd h hne
        · exact Nat.le_of_lt h.1
    · exact ordered_complete hr p hp

theorem insideP_inWin : ∀ (W : List (Nat × Nat)) (i : List Nat), Ordered W →
    insideP W (sliceDims W) i = inWin W i
  | [], _, _ => by simp [insideP, inWin, sliceDims]
  | (f, t) :: W, [], _ => by simp [insideP, inWin, sliceDims]
  | (f, t) :: W, j :: js, ho => by
    have hft : f ≤ t := ho (f, t) (by simp)
    have ih := insideP_inWin W js (fun p hp => ho p (by simp [hp]))
    simp only [sliceDims] at ih
    simp only [sliceDims, List.map_cons, insideP, inWin, ih]
    have : f + (t - f) = t := by omega
    rw [this]

theorem patchOK_of_rangesOK : ∀ {idx ds}, C06.RangesOK idx ds →
    C06.PatchOK idx (sliceDims (completeIndex idx ds)) ds
  | _, [], .nil _ => by simp [completeIndex, sliceDims]; exact .nil
  | _, d :: ds, .nil _ => by
    have ih := patchOK_of_rangesOK (.nil ds)
    simp only [completeIndex, sliceDims, List.map_cons] at ih ⊢
    exact .omit (by omega) ih
  | _, _, .cons (f := f) (t := t) (d := d) h hr => by
    have ih := patchOK_of_rangesOK hr
    simp only [completeIndex, sliceDims, List.map_cons] at ih ⊢
    split
    · rename_i h0
      exact .cons (by simp) (Or.inl h0) ih
    · rename_i hne
      rcases h with h | h
      · exact absurd h hne
      · exact .cons (by simp; omega) (Or.inr ⟨h.1, h.2, rfl⟩) ih

theorem validRange_cases {a b : Int} {d : Nat} (h : validRange (a, b) d = true) :
    (a = 0 ∧ b = 0) ∨ (0 ≤ a ∧ a < b ∧ b ≤ (d : Int)) := by
  unfold validRange at h
  by_cases h0 : a = 0 ∧ b = 0
  · exact Or.inl h0
  · right
    have hne : ¬ ((a == 0 && b == 0) = true) := by simpa using h0
    simp only [hne, if_false] at h
    by_cases hge : a ≥ b
    · simp [hge] at h
    · simp only [hge, if_false] at h
      have hr' : (decide (a < 0) || decide (a ≥ (d : Int)) || decide (b < 1) || decide (b ≥ (d : Int) + 1)) = false := by
        cases hb : (decide (a < 0) || decide (a ≥ (d : Int)) || decide (b < 1) || decide (b ≥ (d : Int) + 1)) with
        | false => rfl
        | true => rw [hb] at h; simp at h
      simp only [Bool.or_eq_false_iff, decide_eq_false_iff_not] at hr'
      omega

theorem validSliceIndex_cons {r : IRange} {rest : List IRange} {d : Nat} {ds : List Nat}
    (h : validSliceIndex (r :: rest) (d :: ds) = true) : validRange r d = true ∧ validSliceIndex rest ds = true := by
  simp only [validSliceIndex, List.length_cons, List.zip_cons_cons, List.all_cons, Bool.and_eq_true,
    decide_eq_true_eq] at h ⊢
  exact ⟨h.2.1, by omega, h.2.2⟩

/-- the block selected by an accepted Slice index can be patched back with the same index -/
theorem validPatch_of_validSlice : ∀ (index : List IRange) (ds : List Nat), validSliceIndex index ds = true →
    validPatchIndex index (sliceDims (completeIndex (natRanges index) ds)) ds = true := by
  intro index ds hv
  have hfit := C06.fits_complete (C09.rangesOK_of_valid index ds hv)
  have hb : ∀ {W ds}, Fits W ds → ((sliceDims W).zip ds).all (fun (s, d) => decide (s ≤ d)) = true := by
    intro W ds hf
    induction hf with
    | nil => simp [sliceDims]
    | cons htd _ ih =>
      simp only [sliceDims, List.map_cons, List.zip_cons_cons, List.all_cons, Bool.and_eq_true, decide_eq_true_eq] at ih ⊢
      exact ⟨by omega, ih⟩
  have hd : ∀ (index : List IRange) (ds : List Nat), validSliceIndex index ds = true →
      (index.zip (sliceDims (completeIndex (natRanges index) ds))).all
        (fun (r, s) => (r.1 == 0 && r.2 == 0) || r.2 - r.1 == (s : Int)) = true := by
    intro index
    induction index with
    | nil => intro ds _; simp
    | cons r rest ih =>
      intro ds hv
      cases ds with
      | nil => simp [completeIndex, sliceDims]
      | cons d ds =>
        obtain ⟨a, b⟩ := r
        obtain ⟨h1, h2⟩ := validSliceIndex_cons hv
        have ih' := ih ds h2
        simp only [natRanges, List.map_cons, completeIndex, sliceDims, List.zip_cons_cons, List.all_cons,
          Bool.and_eq_true] at ih' ⊢
        refine ⟨?_, ih'⟩
        rcases validRange_cases h1 with h | h
        · simp [h.1, h.2]
        · have hne : ¬ (a.toNat = 0 ∧ b.toNat = 0) := by omega
          rw [if_neg hne]
          simp only [Bool.or_eq_true, beq_iff_eq]
          right
          omega
  simp only [validPatchIndex, Bool.and_eq_true, beq_iff_eq]
  refine ⟨⟨⟨?_, hb hfit⟩, hv⟩, hd index ds hv⟩
  simp [sliceDims, completeIndex_length]

section slice
variable [Scalar α]

/-- **`gradtrack.Slice`: `gradFn = toZeros(x).Patch(index, y.Gradient())`.** Forward (`C06.slice_get`):
    `y[j] = x[j + From]` for every `j` of the block — selection of the window `W = completeIndex index x.dims`.
    The closure succeeds on every well-formed upstream gradient of `y`'s shape, returns a well-formed tensor of `x`'s
    shape, and its element at a valid index `i` of `x` is `gy[i - From]` when `i` lies in the window and the element of
    `toZeros(x) = x.Scale(0)` (i.e. `0 · x[i]`) outside: embedding of the block into zeros, which is the adjoint of
    selecting the block. `rule_slice_zero` states the outside value as `0`. -/
theorem rule_slice (bm : BMode) (H : Heap α) (gy : Tensor α) (x : Nat) (index : List IRange) (wx : (H.val x).WF)
    (hv : validSliceIndex index (H.val x).dims = true) (wg : gy.WF)
    (hd : gy.dims = sliceDims (completeIndex (natRanges index) (H.val x).dims)) :
    ∃ r, evalRule bm H gy (.sliceX x index) = .ok r ∧ r.dims = (H.val x).dims ∧ r.WF ∧
      ∀ i, Valid (H.val x).dims i →
        r.at? i = if inWin (completeIndex (natRanges index) (H.val x).dims) i
          then gy.at? (unshiftP (completeIndex (natRanges index) (H.val x).dims) i)
          else ((H.val x).at? i).map (fun a => Scalar.mul Scalar.zero a) := by
  have hrok := C09.rangesOK_of_valid index (H.val x).dims hv
  have wz : (vScale (H.val x) Scalar.zero).WF := map_wf _ _ wx
  have hpok : C06.PatchOK (natRanges index) gy.dims (vScale (H.val x) Scalar.zero).dims := by
    rw [hd]; exact patchOK_of_rangesOK hrok
  obtain ⟨data, e, hlen, hget⟩ := C06.patch_get (vScale (H.val x) Scalar.zero) gy wz wg (natRanges index) hpok
  have hvp : validPatchIndex index gy.dims (vScale (H.val x) Scalar.zero).dims = true := by
    rw [hd]; exact validPatch_of_validSlice index (H.val x).dims hv
  refine ⟨⟨(H.val x).dims, data⟩, ?_, rfl, ⟨hlen, wx.2⟩, ?_⟩
  · simp only [evalRule, vPatch]
    rw [if_pos hvp, e]; rfl
  · intro i hi
    have h1 := hget i hi
    have hci : completeIndex (natRanges index) gy.dims = completeIndex (natRanges index) (H.val x).dims := by
      rw [hd]; exact completeIndex_sliceDims _ _
    rw [hci] at h1
    have hin : insideP (completeIndex (natRanges index) (H.val x).dims) gy.dims i
        = inWin (completeIndex (natRanges index) (H.val x).dims) i := by
      rw [hd]; exact insideP_inWin _ _ (ordered_complete hrok)
    rw [hin] at h1
    have hz : (vScale (H.val x) Scalar.zero).at? i = ((H.val x).at? i).map (fun a => Scalar.mul Scalar.zero a) :=
      at?_map _ _ i
    rw [hz] at h1
    exact h1

/-- `rule_slice` on a scalar domain where `0 · a = 0` (ℝ, ℚ, ℤ; not IEEE floats with infinities): zero outside -/
theorem rule_slice_zero (hz : ∀ a : α, Scalar.mul Scalar.zero a = Scalar.zero)
    (bm : BMode) (H : Heap α) (gy : Tensor α) (x : Nat) (index : List IRange) (wx : (H.val x).WF)
    (hv : validSliceIndex index (H.val x).dims = true) (wg : gy.WF)
    (hd : gy.dims = sliceDims (completeIndex (natRanges index) (H.val x).dims)) :
    ∃ r, evalRule bm H gy (.sliceX x index) = .ok r ∧ r.dims = (H.val x).dims ∧ r.WF ∧
      ∀ i, Valid (H.val x).dims i →
        r.at? i = if inWin (completeIndex (natRanges index) (H.val x).dims) i
          then gy.at? (unshiftP (completeIndex (natRanges index) (H.val x).dims) i)
          else some Scalar.zero := by
  obtain ⟨r, e, hdims, wf, hget⟩ := rule_slice bm H gy x index wx hv wg hd
  refine ⟨r, e, hdims, wf, ?_⟩
  intro i hi
  rw [hget i hi]
  obtain ⟨a, ha⟩ := at?_isSome (H.val x) wx hi
  rw [ha]; simp [hz]

end slice

/-! ## 5. Concat -/

/-- the complete window of the Concat rule: `[base, base+len)` at `dim`, the whole dimension elsewhere -/
def catWin : Nat → Nat → Nat → List Nat → List (Nat × Nat)
  | _, _, _, [] => []
  | 0, base, len, _ :: ds => (base, base + len) :: ds.map (fun d => (0, d))
  | dim + 1, base, len, d :: ds => (0, d) :: catWin dim base len ds

/-- add `b` to coordinate `k` -/
def addAt : Nat → Nat → List Nat → List Nat
  | _, _, [] => []
  | 0, b, j :: js => (j + b) :: js
  | k + 1, b, j :: js => j :: addAt k b js

theorem completeIndex_zeros : ∀ (l : List IRange) (ds : List Nat), (∀ r ∈ l, r = ((0 : Int), (0 : Int))) →
    completeIndex (natRanges l) ds = ds.map (fun d => (0, d))
  | _, [], _ => by simp [completeIndex]
  | [], d :: ds, _ => by
    have ih := completeIndex_zeros [] ds (by simp)
    simp only [natRanges, List.map_nil] at ih
    simp [natRanges, completeIndex, ih]
  | r :: l, d :: ds, h => by
    have ih := completeIndex_zeros l ds (fun x hx => h x (by simp [hx]))
    have hr : r = (0, 0) := h r (by simp)
    simp only [natRanges] at ih
    simp [natRanges, completeIndex, hr, ih]

theorem range_map_succ {β : Type} (g : Nat → β) (n : Nat) :
    (List.range (n + 1)).map g = g 0 :: (List.range n).map (fun i => g (i + 1)) := by
  rw [List.range_succ_eq_map]
  simp [List.map_map, Function.comp_def]

theorem completeIndex_oneRange : ∀ (dim base len : Nat) (ds : List Nat) (g : Nat → IRange), 0 < len →
    g dim = ((base : Int), ((base + len : Nat) : Int)) → (∀ i, i ≠ dim → g i = (0, 0)) →
    completeIndex (natRanges ((List.range ds.length).map g)) ds = catWin dim base len ds
  | _, _, _, [], _, _, _, _ => by simp [completeIndex, catWin]
  | 0, base, len, d :: ds, g, hl, hg, hz => by
    rw [List.length_cons, range_map_succ, hg]
    have hrest := completeIndex_zeros ((List.range ds.length).map (fun i => g (i + 1))) ds (by
      intro r hr
      obtain ⟨i, _, rfl⟩ := List.mem_map.mp hr
      exact hz (i + 1) (by omega))
    simp only [natRanges, List.map_cons, completeIndex, catWin] at hrest ⊢
    have hne : ¬ ((base : Int).toNat = 0 ∧ ((base + len : Nat) : Int).toNat = 0) := by omega
    rw [if_neg hne, hrest]
    simp only [Int.toNat_natCast]
  | dim + 1, base, len, d :: ds, g, hl, hg, hz => by
    rw [List.length_cons, range_map_succ, hz 0 (by omega)]
    have ih := completeIndex_oneRange dim base len ds (fun i => g (i + 1)) hl hg
      (fun i hi => hz (i + 1) (by omega))
    simp only [natRanges, List.map_cons, completeIndex, catWin] at ih ⊢
    rw [ih]
    simp

/-- the index the Concat constructor builds, completed against the result dims -/
theorem completeIndex_concatIndex (dim base len : Nat) (ds : List Nat) (hl : 0 < len) :
    completeIndex (natRanges (concatIndex ds.length dim base len)) ds = catWin dim base len ds := by
  unfold concatIndex
  exact completeIndex_oneRange dim base len ds _ hl (by simp) (fun i hi => by simp [hi])

theorem validSliceIndex_concatIndex : ∀ (dim base len : Nat) (ds : List Nat), 0 < len → dim < ds.length →
    base + len ≤ ds.getD dim 0 → validSliceIndex (concatIndex ds.length dim base len) ds = true := by
  intro dim base len ds hl hdim hb
  simp only [validSliceIndex, concatIndex, List.length_map, List.length_range, Nat.le_refl, decide_true, Bool.true_and,
    List.all_eq_true]
  intro p hp
  obtain ⟨i, hi1, hi2⟩ := List.mem_iff_getElem.mp hp
  have hi : i < ds.length := by
    simp only [List.length_zip, List.length_map, List.length_range, Nat.min_self] at hi1; exact hi1
  simp only [List.getElem_zip, List.getElem_map, List.getElem_range] at hi2
  rw [← hi2]
  by_cases hid : i = dim
  · have hgd : ds.getD dim 0 = ds[i] := by
      subst hid
      simp [List.getD, List.getElem?_eq_getElem hi]
    rw [hgd] at hb
    simp only [hid, if_true, validRange]
    have h0 : ¬ (((base : Int) == 0 && ((base + len : Nat) : Int) == 0) = true) := by
      simp only [Bool.and_eq_true, beq_iff_eq]; omega
    rw [if_neg h0]
    have h1' : ¬ ((base : Int) ≥ ((base + len : Nat) : Int)) := by omega
    rw [if_neg h1']
    have e1 : decide ((base : Int) < 0) = false := by simp
    have e2 : decide ((base : Int) ≥ (ds[i] : Int)) = false := by simp; omega
    have e3 : decide (((base + len : Nat) : Int) < 1) = false := by simp; omega
    have e4 : decide (((base + len : Nat) : Int) ≥ (ds[i] : Int) + 1) = false := by simp; omega
    subst hid
    rw [e1, e2, e3, e4]; rfl
  · simp [hid, validRange]

theorem sliceDims_catWin : ∀ (dim base len : Nat) (ds : List Nat), dim < ds.length →
    sliceDims (catWin dim base len ds) = ds.set dim len
  | _, _, _, [], h => by simp at h
  | 0, base, len, d :: ds, _ => by
    simp only [catWin, sliceDims, List.map_cons, List.map_map, List.set_cons_zero]
    congr 1
    · omega
    · conv => rhs; rw [← List.map_id ds]
      apply List.map_congr_left; intro x _; simp
  | dim + 1, base, len, d :: ds, h => by
    have ih := sliceDims_catWin dim base len ds (by simpa using h)
    simp only [sliceDims] at ih
    simp only [catWin, sliceDims, List.map_cons, List.set_cons_succ, ih]
    simp

theorem inBlock_whole : ∀ {ds js : List Nat}, Valid ds js → InBlock (ds.map (fun d => (0, d))) js
  | _, _, .nil => .nil
  | _, _, .cons h hv => by
    simp only [List.map_cons]
    exact .cons (by omega) (inBlock_whole hv)

theorem shiftIdx_whole : ∀ {ds js : List Nat}, Valid ds js → shiftIdx (ds.map (fun d => (0, d))) js = js
  | _, _, .nil => rfl
  | _, _, .cons h hv => by simp [shiftIdx, shiftIdx_whole hv]

theorem inBlock_catWin : ∀ (dim base len : Nat) {ds js : List Nat}, dim < ds.length → Valid (ds.set dim len) js →
    InBlock (catWin dim base len ds) js ∧ shiftIdx (catWin dim base len ds) js = addAt dim base js
  | _, _, _, [], _, h, _ => by simp at h
  | 0, base, len, d :: ds, _, _, hv => by
    simp only [List.set_cons_zero] at hv
    cases hv with
    | cons hj hv' =>
      simp only [catWin, shiftIdx, addAt, shiftIdx_whole hv', and_true]
      exact .cons (by omega) (inBlock_whole hv')
  | dim + 1, base, len, d :: ds, _, h, hv => by
    simp only [List.set_cons_succ] at hv
    cases hv with
    | cons hj hv' =>
      obtain ⟨h1, h2⟩ := inBlock_catWin dim base len (by simpa using h) hv'
      simp only [catWin, shiftIdx, addAt, h2, Nat.add_zero, and_true]
      exact .cons (by omega) h1

section concat
variable [Scalar α]

/-- **`gradtrack.Concat`: `gradFn_k = y.Gradient().Slice(index_k)`**, `index_k = concatIndex rank dim base_k len_k`
    with `base_k` the sum of the sizes along `dim` of the operands before `x_k` and `len_k` the size of `x_k`
    (`Qeep.concatEdges`). Forward (`C06.concat_get`): the result holds `x_k[j]` at index `j` with `base_k` added to
    coordinate `dim` — each operand is embedded as one block. The closure succeeds on every well-formed upstream
    gradient whose size along `dim` covers the block, returns the dims of `gy` with `dim` replaced by `len_k` (the shape
    of `x_k`), and its element at every valid local index `j` is `gy[j with base_k added at dim]`: selection of the block,
    the adjoint of embedding it. -/
theorem rule_concat (bm : BMode) (H : Heap α) (gy : Tensor α) (dim base len : Nat) (wg : gy.WF)
    (hl : 0 < len) (hdim : dim < gy.dims.length) (hb : base + len ≤ gy.dims.getD dim 0) :
    ∃ r, evalRule bm H gy (.concatI (concatIndex gy.dims.length dim base len)) = .ok r ∧
      r.dims = gy.dims.set dim len ∧ r.WF ∧
      ∀ j, Valid (gy.dims.set dim len) j → r.at? j = gy.at? (addAt dim base j) := by
  have hv := validSliceIndex_concatIndex dim base len gy.dims hl hdim hb
  obtain ⟨data, e, hlen, hget⟩ := C06.slice_get gy wg _ (C09.rangesOK_of_valid _ _ hv)
  rw [completeIndex_concatIndex dim base len gy.dims hl, sliceDims_catWin dim base len gy.dims hdim] at e hlen hget
  refine ⟨⟨gy.dims.set dim len, data⟩, ?_, rfl, ⟨hlen, ?_⟩, ?_⟩
  · simp only [evalRule, vSlice]
    rw [if_pos hv, e]; rfl
  · intro d hd
    rcases List.mem_or_eq_of_mem_set hd with h | h
    · exact wg.2 d h
    · omega
  · intro j hj
    obtain ⟨h1, h2⟩ := inBlock_catWin dim base len hdim hj
    rw [hget j h1, h2]

end concat

/-! ## 4. Patch -/

/-- inside the written block the shifted-back index is a valid source index -/
theorem valid_unshiftP : ∀ {idx sds dds js}, FitsP idx sds dds → Valid dds js → insideP idx sds js = true →
    Valid sds (unshiftP idx js)
  | _, _, _, _, .nil, .nil, _ => .nil
  | _, _, _, _, .cons (f := f) (sd := sd) hfit hrest, .cons (s := j) hj hv, hin => by
    simp only [insideP, Bool.and_eq_true, decide_eq_true_eq] at hin
    simp only [unshiftP]
    exact .cons (by omega) (valid_unshiftP hrest hv hin.2)

/-- every range of the complete index covers exactly the source size -/
inductive Covers : List (Nat × Nat) → List Nat → Prop
  | nil : Covers [] []
  | cons {f t W s ss} : t = f + s → Covers W ss → Covers ((f, t) :: W) (s :: ss)

theorem covers_complete : ∀ {idx sds dds}, C06.PatchOK idx sds dds → Covers (completeIndex idx sds) sds
  | _, _, _, .nil => by simp [completeIndex]; exact .nil
  | _, _, _, .omit h hr => by
    simp only [completeIndex]
    exact .cons (by omega) (covers_complete hr)
  | _, _, _, .cons (f := f) (t := t) (sd := sd) h hrange hr => by
    simp only [completeIndex]
    split
    · exact .cons (by omega) (covers_complete hr)
    · rename_i hne
      rcases hrange with h0 | h1
      · exact absurd h0 hne
      · exact .cons (by omega) (covers_complete hr)

theorem sliceDims_covers : ∀ {W pd}, Covers W pd → sliceDims W = pd
  | _, _, .nil => rfl
  | _, _, .cons h hc => by
    have ih := sliceDims_covers hc
    simp only [sliceDims] at ih
    simp only [sliceDims, List.map_cons, ih]
    congr 1; omega

theorem completeIndex_covers : ∀ {W pd} (gd : List Nat), Covers W pd → (∀ s ∈ pd, 0 < s) → pd.length = gd.length →
    completeIndex W gd = W
  | _, _, [], .nil, _, _ => by simp [completeIndex]
  | _, _, _ :: _, .nil, _, hl => by simp at hl
  | _, _, [], .cons _ _, _, hl => by simp at hl
  | _, _, d :: gd, .cons (f := f) (t := t) (s := s) h hc, hpos, hl => by
    have hs : 0 < s := hpos s (by simp)
    have ih := completeIndex_covers gd hc (fun x hx => hpos x (by simp [hx])) (by simpa using hl)
    simp only [completeIndex]
    rw [if_neg (by omega), ih]

theorem inBlock_covers : ∀ {W pd js}, Covers W pd → Valid pd js → InBlock W js
  | _, _, _, .nil, .nil => .nil
  | _, _, _, .cons h hc, .cons hj hv => .cons (by omega) (inBlock_covers hc hv)

theorem validSliceIndex_cons_iff (r : IRange) (rest : List IRange) (d : Nat) (ds : List Nat) :
    validSliceIndex (r :: rest) (d :: ds) = true ↔ (validRange r d = true ∧ validSliceIndex rest ds = true) := by
  simp only [validSliceIndex, List.length_cons, List.zip_cons_cons, List.all_cons, Bool.and_eq_true,
    decide_eq_true_eq]
  constructor
  · intro h; exact ⟨h.2.1, by omega, h.2.2⟩
  · intro h; exact ⟨by have := h.2.1; omega, h.1, h.2.2⟩

theorem validPatchIndex_nil_cons {s d : Nat} {ss ds : List Nat} (h : validPatchIndex [] (s :: ss) (d :: ds) = true) :
    s ≤ d ∧ validPatchIndex [] ss ds = true := by
  simp only [validPatchIndex, List.length_cons, List.zip_cons_cons, List.all_cons, Bool.and_eq_true,
    decide_eq_true_eq, beq_iff_eq] at h ⊢
  refine ⟨h.1.1.2.1, ⟨⟨by omega, h.1.1.2.2⟩, ?_⟩, ?_⟩ <;> simp [validSliceIndex]

theorem validPatchIndex_cons {r : IRange} {rest : List IRange} {s d : Nat} {ss ds : List Nat}
    (h : validPatchIndex (r :: rest) (s :: ss) (d :: ds) = true) :
    s ≤ d ∧ validRange r d = true ∧ ((r.1 = 0 ∧ r.2 = 0) ∨ r.2 - r.1 = (s : Int)) ∧
      validPatchIndex rest ss ds = true := by
  simp only [validPatchIndex, List.length_cons, List.zip_cons_cons, List.all_cons, Bool.and_eq_true,
    decide_eq_true_eq, beq_iff_eq, validSliceIndex, Bool.or_eq_true] at h ⊢
  obtain ⟨⟨⟨hlen, hle, hles⟩, ⟨hlen2, hr, hrs⟩⟩, hc, hcs⟩ := h
  exact ⟨hle, hr, hc, ⟨⟨by omega, hles⟩, ⟨by omega, hrs⟩⟩, hcs⟩

/-- `patchedBlock(index, p)`: an index the validator accepts as a Slice index of the target, and (on natural numbers)
    the complete index `Patch` itself used for the write -/
theorem patchedBlock_spec : ∀ (index : List IRange) (pd gd : List Nat), validPatchIndex index pd gd = true →
    (∀ s ∈ pd, 0 < s) →
    validSliceIndex (patchedBlock index pd) gd = true ∧
      natRanges (patchedBlock index pd) = completeIndex (natRanges index) pd
  | index, [], gd, h, _ => by
    have : gd = [] := by
      cases gd with
      | nil => rfl
      | cons _ _ => simp [validPatchIndex] at h
    subst this
    cases index <;> simp [patchedBlock, validSliceIndex, natRanges, completeIndex]
  | _, s :: ss, [], h, _ => by simp [validPatchIndex] at h
  | [], s :: ss, d :: ds, h, hpos => by
    obtain ⟨hle, hrest⟩ := validPatchIndex_nil_cons h
    have hs : 0 < s := hpos s (by simp)
    obtain ⟨ih1, ih2⟩ := patchedBlock_spec [] ss ds hrest (fun x hx => hpos x (by simp [hx]))
    simp only [natRanges, List.map_nil] at ih2
    refine ⟨?_, ?_⟩
    · simp only [patchedBlock]
      rw [validSliceIndex_cons_iff]
      refine ⟨?_, ih1⟩
      have h0 : ¬ ((((0 : Int), (s : Int)).1 == 0 && ((0 : Int), (s : Int)).2 == 0) = true) := by
        simp only [Bool.and_eq_true, beq_iff_eq]; omega
      have h1 : ¬ (((0 : Int), (s : Int)).1 ≥ ((0 : Int), (s : Int)).2) := by simp only []; omega
      unfold validRange
      rw [if_neg h0, if_neg h1]
      have e1 : decide ((0 : Int) < 0) = false := by simp
      have e2 : decide ((0 : Int) ≥ (d : Int)) = false := by simp; omega
      have e3 : decide ((s : Int) < 1) = false := by simp; omega
      have e4 : decide ((s : Int) ≥ (d : Int) + 1) = false := by simp; omega
      simp only [e1, e2, e3, e4]; rfl
    · simp only [patchedBlock, natRanges, List.map_cons, List.map_nil, completeIndex, Int.toNat_zero, Int.toNat_natCast]
      rw [ih2]
  | r :: rest, s :: ss, d :: ds, h, hpos => by
    obtain ⟨a, b⟩ := r
    obtain ⟨hle, hr, hc, hrest⟩ := validPatchIndex_cons h
    have hs : 0 < s := hpos s (by simp)
    obtain ⟨ih1, ih2⟩ := patchedBlock_spec rest ss ds hrest (fun x hx => hpos x (by simp [hx]))
    simp only [natRanges] at ih2
    rcases validRange_cases hr with h0 | h1
    · -- `{0,0}`: the block starts at offset 0 and has the source's size
      obtain ⟨rfl, rfl⟩ := h0
      refine ⟨?_, ?_⟩
      · simp only [patchedBlock, beq_self_eq_true, Bool.and_self, if_true]
        rw [validSliceIndex_cons_iff]
        refine ⟨?_, ih1⟩
        have h0 : ¬ ((((0 : Int), (s : Int)).1 == 0 && ((0 : Int), (s : Int)).2 == 0) = true) := by
          simp only [Bool.and_eq_true, beq_iff_eq]; omega
        have h1 : ¬ (((0 : Int), (s : Int)).1 ≥ ((0 : Int), (s : Int)).2) := by simp only []; omega
        unfold validRange
        rw [if_neg h0, if_neg h1]
        have e1 : decide ((0 : Int) < 0) = false := by simp
        have e2 : decide ((0 : Int) ≥ (d : Int)) = false := by simp; omega
        have e3 : decide ((s : Int) < 1) = false := by simp; omega
        have e4 : decide ((s : Int) ≥ (d : Int) + 1) = false := by simp; omega
        simp only [e1, e2, e3, e4]; rfl
      · simp only [patchedBlock, beq_self_eq_true, Bool.and_self, if_true, natRanges, List.map_cons, completeIndex,
          Int.toNat_zero, Int.toNat_natCast, and_self]
        rw [ih2]
    · have hne : ¬ ((a == 0 && b == 0) = true) := by
        simp only [Bool.and_eq_true, beq_iff_eq]; omega
      have hpb : patchedBlock ((a, b) :: rest) (s :: ss) = (a, b) :: patchedBlock rest ss := by
        simp only [patchedBlock]; rw [if_neg hne]
      rw [hpb]
      refine ⟨?_, ?_⟩
      · rw [validSliceIndex_cons_iff]
        exact ⟨hr, ih1⟩
      · simp only [natRanges, List.map_cons, completeIndex]
        have hne' : ¬ (a.toNat = 0 ∧ b.toNat = 0) := by omega
        rw [if_neg hne', ih2]

section patch
variable [Scalar α]

/-- **`gradtrack.Patch`, target operand `x`: `gradFn = y.Gradient().Patch(index, toZeros(p))`.** Forward
    (`C06.patch_get`): `y[i] = p[i - From]` inside the written block and `y[i] = x[i]` outside, so as a function of `x`
    the forward map keeps the positions outside the block and forgets those inside (a coordinate projection, which is
    self-adjoint). The closure succeeds on every well-formed upstream gradient of `x`'s shape, returns that shape, and its
    element at a valid index `i` is the element of `toZeros(p) = p.Scale(0)` inside the block and `gy[i]` outside: the
    same projection applied to `gy`. `rule_patchX_zero` states the inside value as `0`. -/
theorem rule_patchX (bm : BMode) (H : Heap α) (gy : Tensor α) (p : Nat) (index : List IRange) (wp : (H.val p).WF)
    (wg : gy.WF) (hv : validPatchIndex index (H.val p).dims gy.dims = true) :
    ∃ r, evalRule bm H gy (.patchX p index) = .ok r ∧ r.dims = gy.dims ∧ r.WF ∧
      ∀ i, Valid gy.dims i →
        r.at? i = if insideP (completeIndex (natRanges index) (H.val p).dims) (H.val p).dims i
          then ((H.val p).at? (unshiftP (completeIndex (natRanges index) (H.val p).dims) i)).map
            (fun a => Scalar.mul Scalar.zero a)
          else gy.at? i := by
  have wz : (vScale (H.val p) Scalar.zero).WF := map_wf _ _ wp
  have hdz : (vScale (H.val p) Scalar.zero).dims = (H.val p).dims := rfl
  have hpok : C06.PatchOK (natRanges index) (vScale (H.val p) Scalar.zero).dims gy.dims :=
    C09.patchOK_of_valid index _ _ hv
  obtain ⟨data, e, hlen, hget⟩ := C06.patch_get gy (vScale (H.val p) Scalar.zero) wg wz (natRanges index) hpok
  refine ⟨⟨gy.dims, data⟩, ?_, rfl, ⟨hlen, wg.2⟩, ?_⟩
  · simp only [evalRule, vPatch]
    rw [hdz, if_pos hv, e]; rfl
  · intro i hi
    have h1 := hget i hi
    rw [hdz] at h1
    rw [h1]
    have hz : ∀ j, (vScale (H.val p) Scalar.zero).at? j = ((H.val p).at? j).map (fun a => Scalar.mul Scalar.zero a) :=
      fun j => at?_map _ _ j
    rw [hz]

/-- `rule_patchX` on a scalar domain where `0 · a = 0`: zero inside the block -/
theorem rule_patchX_zero (hz : ∀ a : α, Scalar.mul Scalar.zero a = Scalar.zero)
    (bm : BMode) (H : Heap α) (gy : Tensor α) (p : Nat) (index : List IRange) (wp : (H.val p).WF)
    (wg : gy.WF) (hv : validPatchIndex index (H.val p).dims gy.dims = true) :
    ∃ r, evalRule bm H gy (.patchX p index) = .ok r ∧ r.dims = gy.dims ∧ r.WF ∧
      ∀ i, Valid gy.dims i →
        r.at? i = if insideP (completeIndex (natRanges index) (H.val p).dims) (H.val p).dims i
          then some Scalar.zero else gy.at? i := by
  obtain ⟨r, e, hdims, wf, hget⟩ := rule_patchX bm H gy p index wp wg hv
  refine ⟨r, e, hdims, wf, ?_⟩
  intro i hi
  rw [hget i hi]
  by_cases hin : insideP (completeIndex (natRanges index) (H.val p).dims) (H.val p).dims i = true
  · rw [if_pos hin, if_pos hin]
    have hfit := C06.fitsP_complete (C09.patchOK_of_valid index _ _ hv)
    obtain ⟨a, ha⟩ := at?_isSome (H.val p) wp (valid_unshiftP hfit hi hin)
    rw [ha]; simp [hz]
  · rw [if_neg hin, if_neg hin]

/-- **`gradtrack.Patch`, source operand `p`: `gradFn = y.Gradient().Slice(patchedBlock(index, p))`.** Forward
    (`C06.patch_get`): `y[i] = p[i - From]` for `i` inside the written block — as a function of `p`, embedding of `p` at
    offset `From` (offset 0 where the range is omitted or `{0,0}`). The closure succeeds on every well-formed upstream
    gradient of the target's shape, returns a well-formed tensor of `p`'s shape, and its element at every valid index `j`
    of `p` is `gy[j + From]`: selection of the written block, the adjoint of the embedding. -/
theorem rule_patchP (bm : BMode) (H : Heap α) (gy : Tensor α) (p : Nat) (index : List IRange) (wp : (H.val p).WF)
    (wg : gy.WF) (hv : validPatchIndex index (H.val p).dims gy.dims = true) :
    ∃ r, evalRule bm H gy (.patchP p index) = .ok r ∧ r.dims = (H.val p).dims ∧ r.WF ∧
      ∀ j, Valid (H.val p).dims j →
        r.at? j = gy.at? (shiftIdx (completeIndex (natRanges index) (H.val p).dims) j) := by
  obtain ⟨hvs, hnat⟩ := patchedBlock_spec index (H.val p).dims gy.dims hv wp.2
  have hpok := C09.patchOK_of_valid index _ _ hv
  have hcov := covers_complete hpok
  have hlen : (H.val p).dims.length = gy.dims.length := (C06.fitsP_complete hpok).lengths
  obtain ⟨data, e, hl, hget⟩ := C06.slice_get gy wg _ (C09.rangesOK_of_valid _ _ hvs)
  rw [hnat, completeIndex_covers gy.dims hcov wp.2 hlen, sliceDims_covers hcov] at e hl hget
  refine ⟨⟨(H.val p).dims, data⟩, ?_, rfl, ⟨hl, wp.2⟩, ?_⟩
  · simp only [evalRule, vSlice]
    rw [if_pos hvs, hnat, e]; rfl
  · intro j hj
    exact hget j (inBlock_covers hcov hj)

end patch

/-! ## 7. Adjointness over ℝ: `⟨f dx, gy⟩ = ⟨dx, rule gy⟩` -/

/-- the pairing `Σ_k a_k · b_k` over the row-major positions of `a` -/
noncomputable def inner (a b : Tensor ℝ) : ℝ :=
  ∑ k ∈ Finset.range (prod a.dims), (a.data[k]?).getD 0 * (b.data[k]?).getD 0

/-- a map that reads position `σ k` of its argument (`σ` a permutation of the positions with inverse `σ'`) is adjoint to
    the map that reads position `σ' j` -/
theorem adjoint_of_perm (n : ℕ) (σ σ' : ℕ → ℕ) (hσ : ∀ k, k < n → σ k < n) (hσ' : ∀ j, j < n → σ' j < n)
    (hl : ∀ k, k < n → σ' (σ k) = k) (hr : ∀ j, j < n → σ (σ' j) = j) (x g : ℕ → ℝ) :
    ∑ k ∈ Finset.range n, x (σ k) * g k = ∑ j ∈ Finset.range n, x j * g (σ' j) := by
  apply Finset.sum_nbij' σ σ'
  · intro k hk; simp only [Finset.mem_range] at hk ⊢; exact hσ k hk
  · intro j hj; simp only [Finset.mem_range] at hj ⊢; exact hσ' j hj
  · intro k hk; simp only [Finset.mem_range] at hk; exact hl k hk
  · intro j hj; simp only [Finset.mem_range] at hj; exact hr j hj
  · intro k hk; simp only [Finset.mem_range] at hk; rw [hl k hk]

/-- **Reshape family is adjoint to its rule** (over ℝ): for a direction `dx` of `x`'s shape and an upstream gradient `gy`
    of `y`'s shape, `⟨forward dx, gy⟩ = ⟨dx, rule gy⟩` — the defining property of the vector-Jacobian product of a
    linear map. (Both sides are `Σ_k dx_k · gy_k`: forward and rule keep the row-major order.) -/
theorem adjoint_reshape (bm : BMode) (H : Heap ℝ) (o : ReshapeOp) (x : Nat) (dx y gy r : Tensor ℝ)
    (wd : dx.WF) (hdx : dx.dims = (H.val x).dims) (wx : (H.val x).WF) (hf : o.fwd dx = .ok y) (wg : gy.WF)
    (hd : gy.dims = y.dims) (hr : evalRule bm H gy (.reshapeX x) = .ok r) :
    inner y gy = inner dx r := by
  obtain ⟨e1, e2⟩ := reshape_fwd o dx y wd hf
  rw [rule_reshape bm H gy x wg wx (by rw [hd, e2, hdx])] at hr
  injection hr with hr
  subst hr
  simp only [inner, e1, e2]

/-- source position (little-endian dims `D`) of the element at row-major position `k` of the transposed tensor -/
def tpos (D : List Nat) (k : Nat) : Nat :=
  val D (swap2 (iterN (incr (swap2 D)) k (zerosLike (swap2 D))))

theorem swap2_pos {D : List Nat} (h : ∀ d ∈ D, 0 < d) : ∀ d ∈ swap2 D, 0 < d := by
  match D, h with
  | [], h => exact h
  | [_], h => exact h
  | a :: b :: r, h =>
    intro d hd
    simp only [swap2, List.mem_cons] at hd
    apply h
    simp only [List.mem_cons]
    rcases hd with h1 | h1 | h1
    · exact Or.inr (Or.inl h1)
    · exact Or.inl h1
    · exact Or.inr (Or.inr h1)

theorem prod_swap2 (D : List Nat) : prod (swap2 D) = prod D := by
  match D with
  | [] => rfl
  | [_] => rfl
  | a :: b :: r => simp [swap2, prod, Nat.mul_left_comm]

theorem tpos_lt {D : List Nat} (h : ∀ d ∈ D, 0 < d) (k : Nat) : tpos D k < prod D := by
  unfold tpos
  have hv := valid_swap2 (valid_iter (swap2_pos h) k)
  rw [swap2_swap2] at hv
  exact val_lt hv

/-- transposing back reads the original position -/
theorem tpos_tpos {D : List Nat} (h : ∀ d ∈ D, 0 < d) (k : Nat) (hk : k < prod D) : tpos (swap2 D) (tpos D k) = k := by
  unfold tpos
  rw [swap2_swap2]
  have hv := valid_swap2 (valid_iter (swap2_pos h) k)
  rw [swap2_swap2] at hv
  rw [iter_val h hv, swap2_swap2, val_iter (swap2_pos h) k, prod_swap2, Nat.mod_eq_of_lt hk]

theorem transposeDims_reverse (ds : List Nat) : (transposeDims ds).reverse = swap2 ds.reverse := by
  rw [transposeDims_eq]; simp [swapLast2]

/-- data-level form of `C04.transpose_get`: position `k` of the result holds position `tpos k` of the source -/
theorem transpose_data (t r : Tensor α) (hwf : t.WF) (hr : 2 ≤ t.dims.length) (h : t.transposeRaw = some r) :
    r.dims = transposeDims t.dims ∧ r.WF ∧ ∀ k, k < prod t.dims → r.data[k]? = t.data[tpos t.dims.reverse k]? := by
  obtain ⟨data, e, wf, hget⟩ := C04.transpose_get t hwf hr
  rw [e] at h
  injection h with h
  subst h
  refine ⟨rfl, wf, ?_⟩
  intro k hk
  have hpos : ∀ d ∈ t.dims.reverse, 0 < d := fun d hd => hwf.2 d (by simpa using hd)
  have hpos' := swap2_pos hpos
  have hu : Valid (transposeDims t.dims).reverse (iterN (incr (swap2 t.dims.reverse)) k (zerosLike (swap2 t.dims.reverse))) := by
    rw [transposeDims_reverse]; exact valid_iter hpos' k
  have h1 := (hget _ hu).1
  rw [Tensor.at?_reverse _ hu] at h1
  have hv := valid_swap2 (valid_iter hpos' k)
  rw [swap2_swap2] at hv
  rw [Tensor.at?_reverse t hv] at h1
  simp only [transposeDims_reverse] at h1
  rw [val_iter hpos' k, prod_swap2, prod_reverse, Nat.mod_eq_of_lt hk] at h1
  exact h1

/-- **Transpose is adjoint to its rule** (over ℝ): for a direction `dx` and an upstream gradient `gy` of the transposed
    shape, `Σ_k (dx.Transpose())_k · gy_k = Σ_j dx_j · (gy.Transpose())_j`, i.e. `⟨f dx, gy⟩ = ⟨dx, rule gy⟩`: the closure
    `gy ↦ gy.Transpose()` of `gradtrack.Transpose` is the transpose (adjoint) of the linear forward map, hence its
    vector-Jacobian product. Every rank ≥ 2, all sizes. -/
theorem adjoint_transpose (bm : BMode) (H : Heap ℝ) (dx gy y r : Tensor ℝ) (wd : dx.WF) (hrk : 2 ≤ dx.dims.length)
    (wg : gy.WF) (hd : gy.dims = transposeDims dx.dims) (hf : vTranspose dx = .ok y)
    (hr : evalRule bm H gy .transposeX = .ok r) : inner y gy = inner dx r := by
  have hrk' : 2 ≤ gy.dims.length := by
    rw [hd, transposeDims_eq]; simp [swapLast2, swap2_length]; exact hrk
  have hy : dx.transposeRaw = some y := by
    simp only [vTranspose, validTranspose, hrk, decide_true, if_true] at hf
    cases h : dx.transposeRaw with
    | none => rw [h] at hf; cases hf
    | some v => rw [h] at hf; injection hf with hf; rw [hf]
  have hr' : gy.transposeRaw = some r := by
    simp only [evalRule, vTranspose, validTranspose, hrk', decide_true, if_true] at hr
    cases h : gy.transposeRaw with
    | none => rw [h] at hr; cases hr
    | some v => rw [h] at hr; injection hr with hr; rw [hr]
  obtain ⟨yd, _, ydata⟩ := transpose_data dx y wd hrk hy
  obtain ⟨_, _, rdata⟩ := transpose_data gy r wg hrk' hr'
  have hpos : ∀ d ∈ dx.dims.reverse, 0 < d := fun d hd' => wd.2 d (by simpa using hd')
  have hgr : gy.dims.reverse = swap2 dx.dims.reverse := by rw [hd, transposeDims_reverse]
  have hpn : prod gy.dims = prod dx.dims := by
    rw [← prod_reverse, hgr, prod_swap2, prod_reverse]
  have hpy : prod y.dims = prod dx.dims := by rw [yd, ← hd, hpn]
  unfold inner
  rw [hpy]
  have e1 : ∀ k ∈ Finset.range (prod dx.dims),
      (y.data[k]?).getD 0 * (gy.data[k]?).getD 0
        = (fun j => (dx.data[j]?).getD 0) (tpos dx.dims.reverse k) * (fun j => (gy.data[j]?).getD 0) k := by
    intro k hk
    simp only [Finset.mem_range] at hk
    simp only [ydata k hk]
  have e2 : ∀ j ∈ Finset.range (prod dx.dims),
      (dx.data[j]?).getD 0 * (r.data[j]?).getD 0
        = (fun j => (dx.data[j]?).getD 0) j * (fun j => (gy.data[j]?).getD 0) (tpos (swap2 dx.dims.reverse) j) := by
    intro j hj
    simp only [Finset.mem_range] at hj
    simp only [rdata j (by rw [hpn]; exact hj), hgr]
  rw [Finset.sum_congr rfl e1, Finset.sum_congr rfl e2]
  have hP : prod dx.dims = prod dx.dims.reverse := (prod_reverse _).symm
  refine adjoint_of_perm (prod dx.dims) (tpos dx.dims.reverse) (tpos (swap2 dx.dims.reverse)) ?_ ?_ ?_ ?_
    (fun j => (dx.data[j]?).getD 0) (fun j => (gy.data[j]?).getD 0)
  · intro k _; rw [hP]; exact tpos_lt hpos k
  · intro j _
    have := tpos_lt (swap2_pos hpos) j
    rw [prod_swap2, prod_reverse] at this; exact this
  · intro k hk; exact tpos_tpos hpos k (by rw [← hP]; exact hk)
  · intro j hj
    have := tpos_tpos (swap2_pos hpos) j (by rw [prod_swap2, ← hP]; exact hj)
    rw [swap2_swap2] at this; exact this

/-! ## Forward / backward pairs

The theorems above take the shape of the upstream gradient as a hypothesis on dims. Here the same statements are tied
to the forward call: `y` is the forward result, `gy` any well-formed tensor of `y`'s shape. -/

/-- window positions and block positions correspond one to one (`shiftIdx` / `unshiftP` are mutually inverse) -/
theorem window_of_block : ∀ {W j}, InBlock W j → inWin W (shiftIdx W j) = true ∧ unshiftP W (shiftIdx W j) = j
  | _, _, .nil => ⟨rfl, rfl⟩
  | _, _, .cons (f := f) (t := t) (j := j) hj hb => by
    obtain ⟨h1, h2⟩ := window_of_block hb
    simp only [shiftIdx, inWin, unshiftP, h1, h2, Bool.and_true, decide_eq_true_eq]
    exact ⟨by omega, by congr 1; omega⟩

theorem block_of_window : ∀ {W ds i}, Fits W ds → Valid ds i → inWin W i = true →
    InBlock W (unshiftP W i) ∧ shiftIdx W (unshiftP W i) = i
  | _, _, _, .nil, .nil, _ => ⟨.nil, rfl⟩
  | _, _, _, .cons (f := f) (t := t) htd hfit, .cons (s := j) hj hv, hin => by
    simp only [inWin, Bool.and_eq_true, decide_eq_true_eq] at hin
    obtain ⟨h1, h2⟩ := block_of_window hfit hv hin.2
    simp only [unshiftP, shiftIdx, h2]
    exact ⟨.cons (by omega) h1, by congr 1; omega⟩

section pairs
variable [Scalar α]

/-- **Slice, forward and backward together.** With `W` the complete window of the index: forward `y[j] = x[j + From]`
    on the block, backward `r[i] = gy[i - From]` on the window and `0 · x[i]` elsewhere — select / embed-into-zeros, a
    pair of mutually adjoint maps (`window_of_block`, `block_of_window`: the two index maps are mutually inverse). -/
theorem slice_vjp (bm : BMode) (H : Heap α) (x : Nat) (index : List IRange) (y gy : Tensor α) (wx : (H.val x).WF)
    (hf : vSlice (H.val x) index = .ok y) (wg : gy.WF) (hd : gy.dims = y.dims) :
    (∀ j, InBlock (completeIndex (natRanges index) (H.val x).dims) j →
        y.at? j = (H.val x).at? (shiftIdx (completeIndex (natRanges index) (H.val x).dims) j)) ∧
    ∃ r, evalRule bm H gy (.sliceX x index) = .ok r ∧ r.dims = (H.val x).dims ∧ r.WF ∧
      ∀ i, Valid (H.val x).dims i →
        r.at? i = if inWin (completeIndex (natRanges index) (H.val x).dims) i
          then gy.at? (unshiftP (completeIndex (natRanges index) (H.val x).dims) i)
          else ((H.val x).at? i).map (fun a => Scalar.mul Scalar.zero a) := by
  by_cases hv : validSliceIndex index (H.val x).dims = true
  · obtain ⟨data, e, _, hget⟩ := C06.slice_get (H.val x) wx (natRanges index) (C09.rangesOK_of_valid _ _ hv)
    have hy : y = ⟨sliceDims (completeIndex (natRanges index) (H.val x).dims), data⟩ := by
      simp only [vSlice, hv, if_true, e, Out.ofOpt] at hf
      injection hf with hf; exact hf.symm
    refine ⟨?_, rule_slice bm H gy x index wx hv wg (by rw [hd, hy])⟩
    intro j hj
    rw [hy]; exact hget j hj
  · simp only [vSlice, hv] at hf; cases hf

/-- **Patch, forward and backward together.** With `W` the complete index of the write (`From` = 0 where omitted):
    forward `y[i] = p[i - From]` inside the block, `x[i]` outside; backward towards `x`: `0 · p[·]` inside, `gy[i]`
    outside (the projection that forgets the block); backward towards `p`: `gy[j + From]` (selection of the block, adjoint
    of embedding `p` there). -/
theorem patch_vjp (bm : BMode) (H : Heap α) (x p : Nat) (index : List IRange) (y gy : Tensor α) (wx : (H.val x).WF)
    (wp : (H.val p).WF) (hf : vPatch (H.val x) index (H.val p) = .ok y) (wg : gy.WF) (hd : gy.dims = y.dims) :
    (∀ i, Valid (H.val x).dims i →
        y.at? i = if insideP (completeIndex (natRanges index) (H.val p).dims) (H.val p).dims i
          then (H.val p).at? (unshiftP (completeIndex (natRanges index) (H.val p).dims) i) else (H.val x).at? i) ∧
    (∃ r, evalRule bm H gy (.patchX p index) = .ok r ∧ r.dims = (H.val x).dims ∧ r.WF ∧
      ∀ i, Valid (H.val x).dims i →
        r.at? i = if insideP (completeIndex (natRanges index) (H.val p).dims) (H.val p).dims i
          then ((H.val p).at? (unshiftP (completeIndex (natRanges index) (H.val p).dims) i)).map
            (fun a => Scalar.mul Scalar.zero a)
          else gy.at? i) ∧
    (∃ r, evalRule bm H gy (.patchP p index) = .ok r ∧ r.dims = (H.val p).dims ∧ r.WF ∧
      ∀ j, Valid (H.val p).dims j →
        r.at? j = gy.at? (shiftIdx (completeIndex (natRanges index) (H.val p).dims) j)) := by
  by_cases hv : validPatchIndex index (H.val p).dims (H.val x).dims = true
  · obtain ⟨data, e, _, hget⟩ := C06.patch_get (H.val x) (H.val p) wx wp (natRanges index)
      (C09.patchOK_of_valid _ _ _ hv)
    have hy : y = ⟨(H.val x).dims, data⟩ := by
      simp only [vPatch, hv, if_true, e, Out.ofOpt] at hf
      injection hf with hf; exact hf.symm
    have hgd : gy.dims = (H.val x).dims := by rw [hd, hy]
    refine ⟨?_, ?_, ?_⟩
    · intro i hi; rw [hy]; exact hget i hi
    · have := rule_patchX bm H gy p index wp wg (by rw [hgd]; exact hv)
      rw [hgd] at this; exact this
    · exact rule_patchP bm H gy p index wp wg (by rw [hgd]; exact hv)
  · simp only [vPatch, hv] at hf; cases hf

/-- **SumAlong / AvgAlong / MeanAlong tied to the forward call**: `y` the forward result of any `…Along(dim)` reduction,
    `gy` of `y`'s shape; the rule attached by `SumAlong` replicates `gy` along `dim`, the one attached by
    `AvgAlong` / `MeanAlong` replicates and scales by `1/n`. -/
theorem along_vjp (bm : BMode) (H : Heap α) (rd : Reducer) (x : Nat) (dim : Int) (y gy : Tensor α) (wx : (H.val x).WF)
    (hf : vAlong rd (H.val x) dim = .ok y) (wg : gy.WF) (hd : gy.dims = y.dims) :
    (∃ r, evalRule bm H gy (.sumAlongX x dim.toNat) = .ok r ∧ r.dims = (H.val x).dims ∧ r.WF ∧
      ∀ i, Valid (H.val x).dims i → r.at? i = gy.at? (i.eraseIdx dim.toNat)) ∧
    (∃ r, evalRule bm H gy (.avgAlongX x dim.toNat) = .ok r ∧ r.dims = (H.val x).dims ∧ r.WF ∧
      ∀ i, Valid (H.val x).dims i →
        r.at? i = (gy.at? (i.eraseIdx dim.toNat)).map
          (fun g => Scalar.mul (Scalar.div Scalar.one (Scalar.ofNat ((H.val x).dims.getD dim.toNat 0))) g)) := by
  by_cases hv : validDimLt dim (H.val x).dims = true
  · obtain ⟨data, e⟩ := (C09.vAlong_total rd (H.val x) wx dim).1 hv
    rw [e] at hf
    injection hf with hf
    have hlt : dim.toNat < (H.val x).dims.length := by
      simp only [validDimLt, Bool.and_eq_true, decide_eq_true_eq] at hv; omega
    have hgd : gy.dims = squeezeDims dim.toNat (H.val x).dims := by rw [hd, ← hf]
    exact ⟨rule_sumAlong bm H gy x dim.toNat wx hlt wg hgd, rule_avgAlong bm H gy x dim.toNat wx hlt wg hgd⟩
  · have hv' : validDimLt dim (H.val x).dims = false := by simpa using hv
    rw [(C09.vAlong_total rd (H.val x) wx dim).2 hv'] at hf; cases hf

/-- **Transpose tied to the forward call**: `y = x.Transpose()`, `gy` of `y`'s shape: the rule returns a tensor of `x`'s
    shape with `r[i] = gy[i with the last two coordinates swapped]`, while `y[j] = x[j with the last two coordinates
    swapped]`. -/
theorem transpose_vjp (bm : BMode) (H : Heap α) (x y gy : Tensor α) (wx : x.WF) (hf : vTranspose x = .ok y)
    (wg : gy.WF) (hd : gy.dims = y.dims) :
    (∀ j, Valid y.dims j → y.at? j = x.at? (swapLast2 j)) ∧
    ∃ r, evalRule bm H gy .transposeX = .ok r ∧ r.dims = x.dims ∧ r.WF ∧
      ∀ i, Valid x.dims i → r.at? i = gy.at? (swapLast2 i) := by
  by_cases hr : 2 ≤ x.dims.length
  · obtain ⟨y', e, hyd, wy, hyget⟩ := rule_transpose bm H x wx hr
    have : y' = y := by
      simp only [evalRule] at e; rw [hf] at e; injection e with e; exact e.symm
    subst this
    have hr' : 2 ≤ gy.dims.length := by
      rw [hd, hyd]; simp [swapLast2, swap2_length]; exact hr
    obtain ⟨r, e', hrd, wr, hrget⟩ := rule_transpose bm H gy wg hr'
    have hrx : r.dims = x.dims := by rw [hrd, hd, hyd, swapLast2_swapLast2]
    refine ⟨hyget, r, e', hrx, wr, ?_⟩
    intro i hi
    exact hrget i (by rw [hrx]; exact hi)
  · have : ¬ (x.dims.length ≥ 2) := hr
    simp [vTranspose, validTranspose, this] at hf

end pairs

/-! ## Concat: the rule carried by the `k`-th edge, and forward / backward together -/

theorem locate_add : ∀ (lens : List Nat) (s j : Nat) (hs : s < lens.length), j < lens[s] →
    locate lens ((lens.take s).sum + j) = some (s, j)
  | [], _, _, hs, _ => by simp at hs
  | l :: ls, 0, j, _, hj => by
    have hj' : j < l := by simpa using hj
    simp [locate, hj']
  | l :: ls, s + 1, j, hs, hj => by
    have hs' : s < ls.length := by simpa using hs
    have hj' : j < ls[s] := by simpa using hj
    have ih := locate_add ls s j hs' hj'
    have e0 : ((l :: ls).take (s + 1)).sum + j = l + ((ls.take s).sum + j) := by
      simp only [List.take_succ_cons, List.sum_cons, Nat.add_assoc]
    rw [e0]
    simp only [locate]
    have hge : ¬ (l + ((ls.take s).sum + j) < l) := by omega
    rw [if_neg hge]
    have e : l + ((ls.take s).sum + j) - l = (ls.take s).sum + j := by omega
    rw [e, ih]; rfl

/-- adding the operand's base along `dim` is the inverse of the forward routing (`C06.concat_get`) -/
theorem route_addAt : ∀ (dim : Nat) (lens : List Nat) (s : Nat) (js : List Nat) (hs : s < lens.length), dim < js.length →
    js.getD dim 0 < lens[s] → route dim lens (addAt dim (lens.take s).sum js) = some (s, js)
  | _, _, _, [], _, h, _ => by simp at h
  | 0, lens, s, j :: js, hs, _, hj => by
    have hj' : j < lens[s] := by simpa using hj
    simp only [addAt, route]
    rw [Nat.add_comm, locate_add lens s j hs hj']; rfl
  | dim + 1, lens, s, j :: js, hs, h, hj => by
    have ih := route_addAt dim lens s js hs (by simpa using h) (by simpa using hj)
    simp only [addAt, route, ih]; rfl

theorem valid_addAt : ∀ (dim b len tot : Nat) {ds j : List Nat}, dim < ds.length → Valid (ds.set dim len) j →
    b + len ≤ tot → Valid (ds.set dim tot) (addAt dim b j)
  | _, _, _, _, [], _, h, _, _ => by simp at h
  | 0, b, len, tot, d :: ds, _, _, hv, hb => by
    simp only [List.set_cons_zero] at hv ⊢
    cases hv with
    | cons hj hv' => exact .cons (by omega) hv'
  | dim + 1, b, len, tot, d :: ds, _, h, hv, hb => by
    simp only [List.set_cons_succ] at hv ⊢
    cases hv with
    | cons hj hv' => exact .cons hj (valid_addAt dim b len tot (by simpa using h) hv' hb)

theorem valid_getD_lt : ∀ (dim : Nat) {ds j : List Nat}, Valid ds j → dim < ds.length → j.getD dim 0 < ds.getD dim 0
  | _, _, _, .nil, h => by simp at h
  | 0, _, _, .cons hs _, _ => by simpa using hs
  | dim + 1, _, _, .cons _ hv, h => by
    have := valid_getD_lt dim hv (by simpa using h)
    simpa using this

theorem take_sum_add_le : ∀ (lens : List Nat) (s : Nat) (hs : s < lens.length), (lens.take s).sum + lens[s] ≤ lens.sum
  | [], _, hs => by simp at hs
  | l :: ls, 0, _ => by simp
  | l :: ls, s + 1, hs => by
    have := take_sum_add_le ls s (by simpa using hs)
    simp only [List.take_succ_cons, List.sum_cons, List.getElem_cons_succ]
    omega

section concatEdges
variable [Scalar α]

/-- the `k`-th back edge `gradtrack.Concat` builds: target `xs[k]`, rule `Slice` with `From` = the sum of the sizes
    along `dim` of the operands before it and `To - From` = its own size -/
theorem concatEdges_get (H : Heap α) (dim : Nat) : ∀ (xs : List Nat) (b k : Nat) (hk : k < xs.length),
    (concatEdges H dim xs b)[k]? = some ⟨xs[k], .concatI (concatIndex (H.val xs[k]).dims.length dim
        (b + ((xs.take k).map (fun x => (H.val x).dims.getD dim 0)).sum) ((H.val xs[k]).dims.getD dim 0))⟩
  | [], _, _, hk => by simp at hk
  | x :: xs, b, 0, _ => by simp [concatEdges]
  | x :: xs, b, k + 1, hk => by
    have ih := concatEdges_get H dim xs (b + (H.val x).dims.getD dim 0) k (by simpa using hk)
    simp only [concatEdges, List.getElem?_cons_succ, ih, List.take_succ_cons, List.map_cons, List.sum_cons,
      List.getElem_cons_succ, Nat.add_assoc]

/-- **Concat, forward and backward together** — for every operand count ≥ 1, every rank ≥ 1, every `dim`: the result `y`
    holds operand `s` as one block, `y[j with base_s added at dim] = x_s[j]` (`base_s` = total size along `dim` of the
    operands before `x_s`), and the closure of the `s`-th edge (`concatEdges_get`) applied to an upstream gradient of `y`'s
    shape returns a well-formed tensor of `x_s`'s shape with `r[j] = gy[j with base_s added at dim]`: embed the block /
    select the block, a pair of mutually adjoint maps. -/
theorem concat_vjp (bm : BMode) (H : Heap α) (t0 : Tensor α) (ts : List (Tensor α)) (dim : Nat)
    (hdim : dim < t0.dims.length) (hwf : ∀ t ∈ t0 :: ts, t.WF)
    (hagree : ∀ t ∈ t0 :: ts, t.dims.length = t0.dims.length ∧ ∀ j, j ≠ dim → t.dims[j]? = t0.dims[j]?) :
    ∃ y, concatRaw (t0 :: ts) dim = some y ∧
      y.dims = t0.dims.set dim ((t0 :: ts).map (fun t => t.dims.getD dim 0)).sum ∧
      ∀ (s : Nat) (hs : s < (t0 :: ts).length),
        (∀ j, Valid ((t0 :: ts)[s]).dims j →
          y.at? (addAt dim ((((t0 :: ts).map (fun t => t.dims.getD dim 0)).take s).sum) j) = ((t0 :: ts)[s]).at? j) ∧
        ∀ gy : Tensor α, gy.WF → gy.dims = y.dims →
          ∃ r, evalRule bm H gy (.concatI (concatIndex ((t0 :: ts)[s]).dims.length dim
              ((((t0 :: ts).map (fun t => t.dims.getD dim 0)).take s).sum) (((t0 :: ts)[s]).dims.getD dim 0))) = .ok r ∧
            r.dims = ((t0 :: ts)[s]).dims ∧ r.WF ∧
            ∀ j, Valid ((t0 :: ts)[s]).dims j →
              r.at? j = gy.at? (addAt dim ((((t0 :: ts).map (fun t => t.dims.getD dim 0)).take s).sum) j) := by
  obtain ⟨data, e, hlen, hroute⟩ := C06.concat_get t0 ts dim hdim hwf hagree
  generalize hlens : (t0 :: ts).map (fun t => t.dims.getD dim 0) = lens at e hlen hroute ⊢
  refine ⟨⟨t0.dims.set dim lens.sum, data⟩, e, rfl, ?_⟩
  intro s hs
  generalize hxs : (t0 :: ts)[s] = xs
  have hmem : xs ∈ t0 :: ts := by rw [← hxs]; exact List.getElem_mem _
  have wxs := hwf xs hmem
  obtain ⟨hl, hag⟩ := hagree xs hmem
  have hdx : dim < xs.dims.length := by omega
  have hs' : s < lens.length := by rw [← hlens]; simpa using hs
  have hlen_s : lens[s] = xs.dims.getD dim 0 := by
    subst hlens; simp only [List.getElem_map, hxs]
  have hxd : xs.dims = t0.dims.set dim (xs.dims.getD dim 0) := by
    have h1 := eq_rdimsOf dim t0.dims xs.dims hl hdim hag
    rw [rdimsOf_set dim t0.dims _ hdim] at h1
    exact h1
  have hpos : 0 < xs.dims.getD dim 0 := by
    have : xs.dims.getD dim 0 = xs.dims[dim] := by simp [List.getD, List.getElem?_eq_getElem hdx]
    rw [this]; exact wxs.2 _ (List.getElem_mem _)
  have hle : (lens.take s).sum + xs.dims.getD dim 0 ≤ lens.sum := by
    rw [← hlen_s]; exact take_sum_add_le lens s hs'
  refine ⟨?_, ?_⟩
  · intro j hj
    have hj' : Valid (t0.dims.set dim (xs.dims.getD dim 0)) j := by rw [← hxd]; exact hj
    have hv := valid_addAt dim (lens.take s).sum _ lens.sum hdim hj' hle
    obtain ⟨s', idx', t, r1, r2, r3⟩ := hroute _ hv
    have hjl : dim < j.length := by rw [hj.length_eq]; exact hdx
    have hjd : j.getD dim 0 < lens[s] := by rw [hlen_s]; exact valid_getD_lt dim hj hdx
    rw [route_addAt dim lens s j hs' hjl hjd] at r1
    injection r1 with r1
    injection r1 with r1a r1b
    subst r1a r1b
    rw [List.getElem?_eq_getElem hs, hxs] at r2
    injection r2 with r2
    rw [r3, r2]
  · intro gy wg hgd
    have hgd' : gy.dims = t0.dims.set dim lens.sum := hgd
    have hdg : dim < gy.dims.length := by rw [hgd']; simpa using hdim
    have hgl : gy.dims.length = xs.dims.length := by rw [hgd']; simp [hl]
    have hb : (lens.take s).sum + xs.dims.getD dim 0 ≤ gy.dims.getD dim 0 := by
      have : gy.dims.getD dim 0 = lens.sum := by
        rw [hgd']; simp [List.getD, hdim]
      rw [this]; exact hle
    obtain ⟨r, e', hrd, wr, hrget⟩ := rule_concat bm H gy dim (lens.take s).sum (xs.dims.getD dim 0) wg hpos hdg hb
    have hrx : gy.dims.set dim (xs.dims.getD dim 0) = xs.dims := by
      rw [hgd', List.set_set]; exact hxd.symm
    rw [hgl] at e'
    rw [hrx] at hrd hrget
    exact ⟨r, e', hrd, wr, hrget⟩

end concatEdges

/-! ## Real-number corollaries and the adjointness of Slice -/

theorem real_zero_mul (a : ℝ) : Scalar.mul (Scalar.zero : ℝ) a = Scalar.zero := by
  simp [RealScalar.mul_eq, RealScalar.zero_eq]

/-- Slice rule over ℝ: the upstream block embedded into zeros -/
theorem rule_slice_real (bm : BMode) (H : Heap ℝ) (gy : Tensor ℝ) (x : Nat) (index : List IRange) (wx : (H.val x).WF)
    (hv : validSliceIndex index (H.val x).dims = true) (wg : gy.WF)
    (hd : gy.dims = sliceDims (completeIndex (natRanges index) (H.val x).dims)) :
    ∃ r, evalRule bm H gy (.sliceX x index) = .ok r ∧ r.dims = (H.val x).dims ∧ r.WF ∧
      ∀ i, Valid (H.val x).dims i →
        r.at? i = if inWin (completeIndex (natRanges index) (H.val x).dims) i
          then gy.at? (unshiftP (completeIndex (natRanges index) (H.val x).dims) i) else some 0 := by
  have := rule_slice_zero real_zero_mul bm H gy x index wx hv wg hd
  simpa [RealScalar.zero_eq] using this

/-- Patch rule towards the target over ℝ: the upstream gradient with the written block zeroed -/
theorem rule_patchX_real (bm : BMode) (H : Heap ℝ) (gy : Tensor ℝ) (p : Nat) (index : List IRange) (wp : (H.val p).WF)
    (wg : gy.WF) (hv : validPatchIndex index (H.val p).dims gy.dims = true) :
    ∃ r, evalRule bm H gy (.patchX p index) = .ok r ∧ r.dims = gy.dims ∧ r.WF ∧
      ∀ i, Valid gy.dims i →
        r.at? i = if insideP (completeIndex (natRanges index) (H.val p).dims) (H.val p).dims i
          then some 0 else gy.at? i := by
  have := rule_patchX_zero real_zero_mul bm H gy p index wp wg hv
  simpa [RealScalar.zero_eq] using this

/-- AvgAlong rule over ℝ: `gy[i with coordinate dim removed] / n` -/
theorem rule_avgAlong_real (bm : BMode) (H : Heap ℝ) (gy : Tensor ℝ) (x dim : Nat) (wx : (H.val x).WF)
    (hdim : dim < (H.val x).dims.length) (wg : gy.WF) (hd : gy.dims = squeezeDims dim (H.val x).dims) :
    ∃ r, evalRule bm H gy (.avgAlongX x dim) = .ok r ∧ r.dims = (H.val x).dims ∧ r.WF ∧
      ∀ i, Valid (H.val x).dims i →
        r.at? i = (gy.at? (i.eraseIdx dim)).map (fun g => 1 / ((H.val x).dims.getD dim 0 : ℝ) * g) := by
  have := rule_avgAlong bm H gy x dim wx hdim wg hd
  simpa [RealScalar.mul_eq, RealScalar.div_eq, RealScalar.one_eq, RealScalar.ofNat_eq] using this

/-- big-endian multi-index of row-major position `k` -/
def idxOf (D : List Nat) (k : Nat) : List Nat := (iterN (incr D.reverse) k (zerosLike D.reverse)).reverse
/-- row-major position of a big-endian multi-index -/
def posOf (D i : List Nat) : Nat := val D.reverse i.reverse

theorem pos_reverse {D : List Nat} (h : ∀ d ∈ D, 0 < d) : ∀ d ∈ D.reverse, 0 < d :=
  fun d hd => h d (by simpa using hd)

theorem valid_idxOf {D : List Nat} (h : ∀ d ∈ D, 0 < d) (k : Nat) : Valid D (idxOf D k) := by
  have := valid_reverse (valid_iter (pos_reverse h) k)
  simpa [idxOf] using this

theorem posOf_lt {D i : List Nat} (hv : Valid D i) : posOf D i < prod D := by
  have := val_lt (valid_reverse hv)
  rwa [prod_reverse] at this

theorem posOf_idxOf {D : List Nat} (h : ∀ d ∈ D, 0 < d) {k : Nat} (hk : k < prod D) : posOf D (idxOf D k) = k := by
  unfold posOf idxOf
  rw [List.reverse_reverse, val_iter (pos_reverse h) k, prod_reverse, Nat.mod_eq_of_lt hk]

theorem idxOf_posOf {D i : List Nat} (h : ∀ d ∈ D, 0 < d) (hv : Valid D i) : idxOf D (posOf D i) = i := by
  unfold posOf idxOf
  rw [iter_val (pos_reverse h) (valid_reverse hv), List.reverse_reverse]

theorem posOf_inj {D i j : List Nat} (hi : Valid D i) (hj : Valid D j) (h : posOf D i = posOf D j) : i = j := by
  have := val_inj (valid_reverse hi) (valid_reverse hj) h
  simpa using congrArg List.reverse this

theorem at?_idxOf (t : Tensor α) (hwf : t.WF) {k : Nat} (hk : k < prod t.dims) : t.at? (idxOf t.dims k) = t.data[k]? := by
  rw [at?_valid t (valid_idxOf hwf.2 k)]
  have := posOf_idxOf hwf.2 hk
  unfold posOf at this
  rw [this]

theorem inBlock_of_valid : ∀ {W j}, Valid (sliceDims W) j → InBlock W j
  | [], _, h => by cases h; exact .nil
  | (f, t) :: W, _, h => by
    simp only [sliceDims, List.map_cons] at h
    cases h with
    | cons hj hv => exact .cons hj (inBlock_of_valid hv)

theorem valid_of_inBlock : ∀ {W j}, InBlock W j → Valid (sliceDims W) j
  | _, _, .nil => .nil
  | _, _, .cons hj hb => by
    simp only [sliceDims, List.map_cons]
    exact .cons hj (valid_of_inBlock hb)

theorem valid_shiftIdx : ∀ {W ds j}, Fits W ds → InBlock W j → Valid ds (shiftIdx W j)
  | _, _, _, .nil, .nil => .nil
  | _, _, _, .cons htd hfit, .cons hj hb => by
    simp only [shiftIdx]
    exact .cons (by omega) (valid_shiftIdx hfit hb)

/-- selecting positions `σ k` (`σ` injective) is adjoint to writing `g k` at position `σ k` and `0` elsewhere -/
theorem adjoint_of_embedding (m n : ℕ) (σ : ℕ → ℕ) (hσ : ∀ k, k < m → σ k < n)
    (hinj : ∀ k k', k < m → k' < m → σ k = σ k' → k = k') (x g r : ℕ → ℝ) (hin : ∀ k, k < m → r (σ k) = g k)
    (hout : ∀ j, j < n → (∀ k, k < m → σ k ≠ j) → r j = 0) :
    ∑ k ∈ Finset.range m, x (σ k) * g k = ∑ j ∈ Finset.range n, x j * r j := by
  have hsub : (Finset.range m).image σ ⊆ Finset.range n := by
    intro j hj
    obtain ⟨k, hk, rfl⟩ := Finset.mem_image.mp hj
    exact Finset.mem_range.mpr (hσ k (Finset.mem_range.mp hk))
  rw [← Finset.sum_subset hsub (f := fun j => x j * r j)]
  · rw [Finset.sum_image]
    · apply Finset.sum_congr rfl
      intro k hk
      rw [hin k (Finset.mem_range.mp hk)]
    · intro k hk k' hk' h
      exact hinj k k' (Finset.mem_range.mp hk) (Finset.mem_range.mp hk') h
  · intro j hj hnot
    have : r j = 0 := by
      apply hout j (Finset.mem_range.mp hj)
      intro k hk h
      exact hnot (Finset.mem_image.mpr ⟨k, Finset.mem_range.mpr hk, h⟩)
    rw [this, mul_zero]

/-- **Slice is adjoint to its rule** (over ℝ): for a direction `dx` of `x`'s shape and an upstream gradient `gy` of the
    block's shape, `⟨dx.Slice(index), gy⟩ = ⟨dx, toZeros(x).Patch(index, gy)⟩`, i.e. `⟨f dx, gy⟩ = ⟨dx, rule gy⟩`: the
    closure of `gradtrack.Slice` is the transpose of the linear forward map, hence its vector-Jacobian product. Every
    rank, every accepted index (explicit, omitted and `{0,0}` ranges). -/
theorem adjoint_slice (bm : BMode) (H : Heap ℝ) (x : Nat) (index : List IRange) (dx y gy r : Tensor ℝ)
    (wd : dx.WF) (hdx : dx.dims = (H.val x).dims) (wx : (H.val x).WF) (hf : vSlice dx index = .ok y) (wg : gy.WF)
    (hd : gy.dims = y.dims) (hr : evalRule bm H gy (.sliceX x index) = .ok r) : inner y gy = inner dx r := by
  by_cases hv : validSliceIndex index dx.dims = true
  · have hrok := C09.rangesOK_of_valid index dx.dims hv
    have hfit := C06.fits_complete hrok
    obtain ⟨data, e, hlen, hget⟩ := C06.slice_get dx wd (natRanges index) hrok
    have hy : y = ⟨sliceDims (completeIndex (natRanges index) dx.dims), data⟩ := by
      simp only [vSlice, hv, if_true, e, Out.ofOpt] at hf
      injection hf with hf; exact hf.symm
    generalize hW : completeIndex (natRanges index) dx.dims = W at hfit hget hy hlen
    have hyd : y.dims = sliceDims W := by rw [hy]
    have wy : y.WF := by
      rw [hy]; refine ⟨hlen, ?_⟩
      rw [← hyd, ← hd]; exact wg.2
    have hgd : gy.dims = sliceDims W := by rw [hd, hyd]
    obtain ⟨r', e', hrd, wr, hrget⟩ := rule_slice_real bm H gy x index wx (by rw [← hdx]; exact hv) wg
      (by rw [← hdx, hW]; exact hgd)
    rw [hr] at e'
    injection e' with e'
    subst e'
    rw [← hdx, hW] at hrget
    have hrd' : r.dims = dx.dims := by rw [hrd, hdx]
    have hposB : ∀ d ∈ sliceDims W, 0 < d := by rw [← hgd]; exact wg.2
    -- the position map
    let σ : ℕ → ℕ := fun k => posOf dx.dims (shiftIdx W (idxOf (sliceDims W) k))
    have hblk : ∀ k, InBlock W (idxOf (sliceDims W) k) := fun k => inBlock_of_valid (valid_idxOf hposB k)
    have hvs : ∀ k, Valid dx.dims (shiftIdx W (idxOf (sliceDims W) k)) := fun k => valid_shiftIdx hfit (hblk k)
    have hY : ∀ k, k < prod (sliceDims W) → y.data[k]? = dx.data[σ k]? := by
      intro k hk
      have h1 := at?_idxOf y wy (by rw [hyd]; exact hk)
      rw [hyd] at h1
      rw [← h1, hy, hget _ (hblk k), at?_valid dx (hvs k)]
      rfl
    have hG : ∀ k, k < prod (sliceDims W) → gy.at? (idxOf (sliceDims W) k) = gy.data[k]? := by
      intro k hk
      have := at?_idxOf gy wg (by rw [hgd]; exact hk)
      rw [hgd] at this; exact this
    have hR : ∀ j, j < prod dx.dims → r.data[j]? = if inWin W (idxOf dx.dims j) then gy.at? (unshiftP W (idxOf dx.dims j)) else some 0 := by
      intro j hj
      have h1 := at?_idxOf r wr (by rw [hrd']; exact hj)
      rw [hrd'] at h1
      rw [← h1]
      exact hrget _ (valid_idxOf wd.2 j)
    unfold inner
    rw [hyd]
    have e1 : ∀ k ∈ Finset.range (prod (sliceDims W)),
        (y.data[k]?).getD 0 * (gy.data[k]?).getD 0
          = (fun j => (dx.data[j]?).getD 0) (σ k) * (fun k => (gy.data[k]?).getD 0) k := by
      intro k hk
      simp only [hY k (Finset.mem_range.mp hk)]
    rw [Finset.sum_congr rfl e1]
    refine adjoint_of_embedding (prod (sliceDims W)) (prod dx.dims) σ ?_ ?_ (fun j => (dx.data[j]?).getD 0)
      (fun k => (gy.data[k]?).getD 0) (fun j => (r.data[j]?).getD 0) ?_ ?_
    · intro k _; exact posOf_lt (hvs k)
    · intro k k' hk hk' h
      have h1 := posOf_inj (hvs k) (hvs k') h
      have h2 := congrArg (unshiftP W) h1
      rw [(window_of_block (hblk k)).2, (window_of_block (hblk k')).2] at h2
      have h3 := congrArg (posOf (sliceDims W)) h2
      rwa [posOf_idxOf hposB hk, posOf_idxOf hposB hk'] at h3
    · intro k hk
      show (r.data[σ k]?).getD 0 = (gy.data[k]?).getD 0
      rw [hR (σ k) (posOf_lt (hvs k)), idxOf_posOf wd.2 (hvs k), (window_of_block (hblk k)).1, if_pos rfl,
        (window_of_block (hblk k)).2, hG k hk]
    · intro j hj hne
      show (r.data[j]?).getD 0 = 0
      rw [hR j hj]
      by_cases hin : inWin W (idxOf dx.dims j) = true
      · exfalso
        obtain ⟨hb, hs⟩ := block_of_window hfit (valid_idxOf wd.2 j) hin
        have hvb := valid_of_inBlock hb
        apply hne (posOf (sliceDims W) (unshiftP W (idxOf dx.dims j))) (posOf_lt hvb)
        show posOf dx.dims (shiftIdx W (idxOf (sliceDims W) (posOf (sliceDims W) (unshiftP W (idxOf dx.dims j))))) = j
        rw [idxOf_posOf hposB hvb, hs, posOf_idxOf wd.2 hj]
      · rw [if_neg hin]; rfl
  · simp only [vSlice, hv] at hf; cases hf

/-! ## Adjointness of SumAlong over ℝ: summation along `dim` ⊣ replication along `dim` -/

theorem insLE_eq : ∀ (k v : Nat) (l : List Nat), k ≤ l.length → insLE k v l = l.take k ++ v :: l.drop k
  | 0, v, l, _ => by simp [insLE]
  | k + 1, v, [], h => by simp at h
  | k + 1, v, x :: l, h => by simp [insLE, insLE_eq k v l (by simpa using h)]

/-- inserting at little-endian position `kk` of the reversed index = inserting at big-endian position `dim` -/
theorem insLE_reverse (u : List Nat) (dim kk v : Nat) (h : kk + dim = u.length) :
    (insLE kk v u.reverse).reverse = insLE dim v u := by
  rw [insLE_eq kk v u.reverse (by simp; omega), insLE_eq dim v u (by omega)]
  simp only [List.reverse_append, List.reverse_cons, List.append_assoc, List.singleton_append]
  have e1 : (u.reverse.drop kk).reverse = u.take dim := by
    rw [List.drop_reverse]; simp; omega
  have e2 : (u.reverse.take kk).reverse = u.drop dim := by
    rw [List.take_reverse]; simp; omega
  rw [e1, e2]

theorem eraseIdx_insLE : ∀ (dim k : Nat) (u : List Nat), dim ≤ u.length → (insLE dim k u).eraseIdx dim = u
  | 0, k, u, _ => by simp [insLE]
  | dim + 1, k, [], h => by simp at h
  | dim + 1, k, x :: u, h => by simp [insLE, eraseIdx_insLE dim k u (by simpa using h)]

theorem getD_insLE : ∀ (dim k : Nat) (u : List Nat), dim ≤ u.length → (insLE dim k u).getD dim 0 = k
  | 0, k, u, _ => by simp [insLE]
  | dim + 1, k, [], h => by simp at h
  | dim + 1, k, x :: u, h => by
    have := getD_insLE dim k u (by simpa using h)
    simpa [insLE] using this

theorem insLE_eraseIdx : ∀ (dim : Nat) (i : List Nat), dim < i.length → insLE dim (i.getD dim 0) (i.eraseIdx dim) = i
  | _, [], h => by simp at h
  | 0, x :: i, _ => by simp [insLE]
  | dim + 1, x :: i, h => by
    have := insLE_eraseIdx dim i (by simpa using h)
    simp only [List.getD_cons_succ, List.eraseIdx_cons_succ, insLE, this]

theorem set_insLE : ∀ (dim k : Nat) (u : List Nat), dim ≤ u.length → (insLE dim 0 u).set dim k = insLE dim k u
  | 0, k, u, _ => by simp [insLE]
  | dim + 1, k, [], h => by simp at h
  | dim + 1, k, x :: u, h => by simp [insLE, set_insLE dim k u (by simpa using h)]

theorem squeezeDims_succ (dim d : Nat) (ds : List Nat) : squeezeDims (dim + 1) (d :: ds) = d :: squeezeDims dim ds := by
  simp [squeezeDims]

theorem valid_insLE_be : ∀ (dim k : Nat) {A u : List Nat}, dim < A.length → Valid (squeezeDims dim A) u →
    k < A.getD dim 0 → Valid A (insLE dim k u)
  | _, _, [], _, h, _, _ => by simp at h
  | 0, k, d :: ds, u, _, hv, hk => by
    have hv' : Valid ds u := by simpa [squeezeDims] using hv
    simp only [insLE]
    exact .cons (by simpa using hk) hv'
  | dim + 1, k, d :: ds, u, h, hv, hk => by
    rw [squeezeDims_succ] at hv
    cases hv with
    | cons hx hv' =>
      simp only [insLE]
      exact .cons hx (valid_insLE_be dim k (by simpa using h) hv' (by simpa using hk))

theorem valid_eraseIdx : ∀ (dim : Nat) {A i : List Nat}, dim < A.length → Valid A i →
    Valid (squeezeDims dim A) (i.eraseIdx dim)
  | _, _, _, h, .nil => by simp at h
  | 0, _, _, _, .cons hs hv => by simpa [squeezeDims] using hv
  | dim + 1, _, _, h, .cons hs hv => by
    rw [squeezeDims_succ, List.eraseIdx_cons_succ]
    exact .cons hs (valid_eraseIdx dim (by simpa using h) hv)

theorem list_sum_eq_range : ∀ (l : List ℝ), l.sum = ∑ k ∈ Finset.range l.length, (l[k]?).getD 0
  | [] => by simp
  | a :: l => by
    rw [List.sum_cons, List.length_cons, Finset.sum_range_succ', list_sum_eq_range l]
    simp [add_comm]

/-- summing disjoint fibres `{τ j k | k < d}` of the positions is adjoint to replicating `g j` over fibre `j` -/
theorem adjoint_of_fibres (m d n : ℕ) (τ : ℕ → ℕ → ℕ) (π κ : ℕ → ℕ)
    (hτ : ∀ j k, j < m → k < d → τ j k < n) (hπ : ∀ i, i < n → π i < m) (hκ : ∀ i, i < n → κ i < d)
    (hl : ∀ j k, j < m → k < d → π (τ j k) = j ∧ κ (τ j k) = k) (hr : ∀ i, i < n → τ (π i) (κ i) = i)
    (x g : ℕ → ℝ) :
    ∑ j ∈ Finset.range m, (∑ k ∈ Finset.range d, x (τ j k)) * g j = ∑ i ∈ Finset.range n, x i * g (π i) := by
  have e1 : ∀ j ∈ Finset.range m, (∑ k ∈ Finset.range d, x (τ j k)) * g j
      = ∑ k ∈ Finset.range d, x (τ j k) * g j := fun j _ => Finset.sum_mul _ _ _
  rw [Finset.sum_congr rfl e1, ← Finset.sum_product' (Finset.range m) (Finset.range d) (fun j k => x (τ j k) * g j)]
  apply Finset.sum_nbij' (fun p : ℕ × ℕ => τ p.1 p.2) (fun i => (π i, κ i))
  · intro p hp
    simp only [Finset.mem_product, Finset.mem_range] at hp ⊢
    exact hτ p.1 p.2 hp.1 hp.2
  · intro i hi
    simp only [Finset.mem_product, Finset.mem_range] at hi ⊢
    exact ⟨hπ i hi, hκ i hi⟩
  · intro p hp
    simp only [Finset.mem_product, Finset.mem_range] at hp
    obtain ⟨h1, h2⟩ := hl p.1 p.2 hp.1 hp.2
    exact Prod.ext h1 h2
  · intro i hi
    simp only [Finset.mem_range] at hi
    exact hr i hi
  · intro p hp
    simp only [Finset.mem_product, Finset.mem_range] at hp
    rw [(hl p.1 p.2 hp.1 hp.2).1]

/-- forward SumAlong over ℝ, element form: position `j` of the result is the sum over `k` of the operand's elements
    at the `j`-th output index with `k` inserted at `dim` -/
theorem sumAlong_fwd (t y : Tensor ℝ) (hwf : t.WF) (dim : Nat) (hdim : dim < t.dims.length)
    (h : t.reduceDimRaw dim Tensor.sum = some y) :
    y.dims = squeezeDims dim t.dims ∧ y.data.length = prod (squeezeDims dim t.dims) ∧
    ∀ j, j < prod (squeezeDims dim t.dims) →
      y.data[j]? = some (∑ k ∈ Finset.range (t.dims.getD dim 0),
        (t.at? (insLE dim k (idxOf (squeezeDims dim t.dims) j))).getD 0) := by
  obtain ⟨data', e, hlen, hspec⟩ := reduceDim_spec t hwf dim hdim Tensor.sum
  rw [e] at h
  injection h with h
  subst h
  refine ⟨rfl, hlen, ?_⟩
  intro j hj
  obtain ⟨fib, hfl, hfib, hval⟩ := hspec j hj
  rw [hval, (C05.sum_real _).1]
  congr 1
  show fib.sum = _
  rw [list_sum_eq_range, hfl]
  apply Finset.sum_congr rfl
  intro k hk
  rw [(hfib k (Finset.mem_range.mp hk)).1]
  congr 2
  -- the window index of step `j` with `k` at `dim`
  have hrev : delLE (t.dims.length - 1 - dim) t.dims.reverse = (squeezeDims dim t.dims).reverse :=
    (squeeze_rev dim t.dims hdim).symm
  simp only [hrev]
  have hu : (iterN (incr (squeezeDims dim t.dims).reverse) j (zerosLike (squeezeDims dim t.dims).reverse))
      = (idxOf (squeezeDims dim t.dims) j).reverse := by simp [idxOf]
  rw [hu]
  have hl : (idxOf (squeezeDims dim t.dims) j).length = t.dims.length - 1 := by
    simp only [idxOf, List.length_reverse]
    rw [iter_incr_length, List.length_reverse, squeezeDims_length dim t.dims hdim]
  rw [insLE_reverse _ dim _ 0 (by rw [hl]; omega), set_insLE dim k _ (by rw [hl]; omega)]

/-- **SumAlong is adjoint to its rule** (over ℝ): for a direction `dx` of `x`'s shape and an upstream gradient `gy` of the
    reduced shape, `⟨dx.SumAlong(dim), gy⟩ = ⟨dx, reducerBroadcasted(gy, x, dim)⟩`, i.e. `⟨f dx, gy⟩ = ⟨dx, rule gy⟩`:
    replication along `dim` is the transpose of summation along `dim`, so the closure of `gradtrack.SumAlong` is the
    vector-Jacobian product of the forward map. Every rank ≥ 1, every `dim`, all sizes. -/
theorem adjoint_sumAlong (bm : BMode) (H : Heap ℝ) (x : Nat) (dim : Int) (dx y gy r : Tensor ℝ)
    (wd : dx.WF) (hdx : dx.dims = (H.val x).dims) (wx : (H.val x).WF) (hf : vAlong .sum dx dim = .ok y) (wg : gy.WF)
    (hd : gy.dims = y.dims) (hr : evalRule bm H gy (.sumAlongX x dim.toNat) = .ok r) : inner y gy = inner dx r := by
  by_cases hv : validDimLt dim dx.dims = true
  · have hlt : dim.toNat < dx.dims.length := by
      simp only [validDimLt, Bool.and_eq_true, decide_eq_true_eq] at hv; omega
    have hy : dx.reduceDimRaw dim.toNat Tensor.sum = some y := by
      simp only [vAlong, vReduceDim, hv, if_true] at hf
      cases h : dx.reduceDimRaw dim.toNat (Reducer.fn Reducer.sum) with
      | none => rw [h] at hf; cases hf
      | some v => rw [h] at hf; injection hf with hf; rw [← hf]; exact h
    obtain ⟨hyd, hyl, hydata⟩ := sumAlong_fwd dx y wd dim.toNat hlt hy
    generalize hB : squeezeDims dim.toNat dx.dims = B at hyd hyl hydata
    have hgd : gy.dims = B := by rw [hd, hyd]
    have hposB : ∀ d ∈ B, 0 < d := by rw [← hgd]; exact wg.2
    obtain ⟨r', e', hrd, wr, hrget⟩ := rule_sumAlong bm H gy x dim.toNat wx (by rw [← hdx]; exact hlt) wg
      (by rw [← hdx, hB]; exact hgd)
    rw [hr] at e'
    injection e' with e'
    subst e'
    rw [← hdx] at hrd hrget
    have hBl : B.length = dx.dims.length - 1 := by rw [← hB]; exact squeezeDims_length _ _ hlt
    have hil : ∀ j, (idxOf B j).length = B.length := fun j => (valid_idxOf hposB j).length_eq
    -- index maps
    let τ : ℕ → ℕ → ℕ := fun j k => posOf dx.dims (insLE dim.toNat k (idxOf B j))
    let π : ℕ → ℕ := fun i => posOf B ((idxOf dx.dims i).eraseIdx dim.toNat)
    let κ : ℕ → ℕ := fun i => (idxOf dx.dims i).getD dim.toNat 0
    have hvτ : ∀ j k, k < dx.dims.getD dim.toNat 0 → Valid dx.dims (insLE dim.toNat k (idxOf B j)) := by
      intro j k hk
      exact valid_insLE_be dim.toNat k hlt (by rw [hB]; exact valid_idxOf hposB j) hk
    have hvπ : ∀ i, Valid B ((idxOf dx.dims i).eraseIdx dim.toNat) := by
      intro i
      rw [← hB]; exact valid_eraseIdx dim.toNat hlt (valid_idxOf wd.2 i)
    have hY : ∀ j, j < prod B → (y.data[j]?).getD 0
        = ∑ k ∈ Finset.range (dx.dims.getD dim.toNat 0), (fun i => (dx.data[i]?).getD 0) (τ j k) := by
      intro j hj
      rw [hydata j hj, Option.getD_some]
      apply Finset.sum_congr rfl
      intro k hk
      rw [at?_valid dx (hvτ j k (Finset.mem_range.mp hk))]
      rfl
    have hR : ∀ i, i < prod dx.dims → (r.data[i]?).getD 0 = (fun j => (gy.data[j]?).getD 0) (π i) := by
      intro i hi
      have h1 := at?_idxOf r wr (by rw [hrd]; exact hi)
      rw [hrd] at h1
      rw [← h1, hrget _ (valid_idxOf wd.2 i), at?_valid gy (by rw [hgd]; exact hvπ i), hgd]
      rfl
    unfold inner
    rw [hyd]
    have e1 : ∀ j ∈ Finset.range (prod B), (y.data[j]?).getD 0 * (gy.data[j]?).getD 0
        = (∑ k ∈ Finset.range (dx.dims.getD dim.toNat 0), (fun i => (dx.data[i]?).getD 0) (τ j k))
            * (fun j => (gy.data[j]?).getD 0) j := by
      intro j hj; rw [hY j (Finset.mem_range.mp hj)]
    have e2 : ∀ i ∈ Finset.range (prod dx.dims), (dx.data[i]?).getD 0 * (r.data[i]?).getD 0
        = (fun i => (dx.data[i]?).getD 0) i * (fun j => (gy.data[j]?).getD 0) (π i) := by
      intro i hi; rw [hR i (Finset.mem_range.mp hi)]
    rw [Finset.sum_congr rfl e1, Finset.sum_congr rfl e2]
    refine adjoint_of_fibres (prod B) (dx.dims.getD dim.toNat 0) (prod dx.dims) τ π κ ?_ ?_ ?_ ?_ ?_
      (fun i => (dx.data[i]?).getD 0) (fun j => (gy.data[j]?).getD 0)
    · intro j k _ hk; exact posOf_lt (hvτ j k hk)
    · intro i _; exact posOf_lt (hvπ i)
    · intro i _; exact valid_getD_lt dim.toNat (valid_idxOf wd.2 i) hlt
    · intro j k hj hk
      have hle : dim.toNat ≤ (idxOf B j).length := by rw [hil, hBl]; omega
      constructor
      · show posOf B ((idxOf dx.dims (posOf dx.dims (insLE dim.toNat k (idxOf B j)))).eraseIdx dim.toNat) = j
        rw [idxOf_posOf wd.2 (hvτ j k hk), eraseIdx_insLE _ _ _ hle, posOf_idxOf hposB hj]
      · show (idxOf dx.dims (posOf dx.dims (insLE dim.toNat k (idxOf B j)))).getD dim.toNat 0 = k
        rw [idxOf_posOf wd.2 (hvτ j k hk), getD_insLE _ _ _ hle]
    · intro i hi
      show posOf dx.dims (insLE dim.toNat ((idxOf dx.dims i).getD dim.toNat 0)
        (idxOf B (posOf B ((idxOf dx.dims i).eraseIdx dim.toNat)))) = i
      have hli : dim.toNat < (idxOf dx.dims i).length := by
        rw [(valid_idxOf wd.2 i).length_eq]; exact hlt
      rw [idxOf_posOf hposB (hvπ i), insLE_eraseIdx _ _ hli, posOf_idxOf wd.2 hi]
  · have hv' : validDimLt dim dx.dims = false := by simpa using hv
    simp only [vAlong, vReduceDim, hv'] at hf
    cases hf

/-! ## Non-vacuity (kernel-checked on the `Scalar Int` instance)

A heap with a [3,3] tensor (node 0) and a [2,2] tensor (node 1); every rule above evaluated on a concrete upstream
gradient, with the result the theorems predict. -/

def exHeap : Heap Int := #[⟨⟨[3, 3], [1, 2, 3, 4, 5, 6, 7, 8, 9]⟩, {}⟩, ⟨⟨[2, 2], [1, 2, 3, 4]⟩, {}⟩]

/-- Reshape family: the data, under the operand's dims -/
example : evalRule .sum exHeap ⟨[9], [1, 2, 3, 4, 5, 6, 7, 8, 9]⟩ (.reshapeX 0) = .ok ⟨[3, 3], [1, 2, 3, 4, 5, 6, 7, 8, 9]⟩ := by
  decide
/-- Transpose: last two coordinates swapped -/
example : evalRule .sum exHeap ⟨[2, 3], [1, 2, 3, 4, 5, 6]⟩ .transposeX = .ok ⟨[3, 2], [1, 4, 2, 5, 3, 6]⟩ := by decide
/-- SumAlong(1) of node 0: replication along dim 1; SumAlong(0): along dim 0 -/
example : evalRule .sum exHeap ⟨[3], [10, 20, 30]⟩ (.sumAlongX 0 1) = .ok ⟨[3, 3], [10, 10, 10, 20, 20, 20, 30, 30, 30]⟩ ∧
    evalRule .sum exHeap ⟨[3], [10, 20, 30]⟩ (.sumAlongX 0 0) = .ok ⟨[3, 3], [10, 20, 30, 10, 20, 30, 10, 20, 30]⟩ := by decide
/-- Slice rows 1..3 (partial index) / columns 1..3 (`{0,0}` first): the block embedded into zeros -/
example : evalRule .sum exHeap ⟨[2, 3], [10, 20, 30, 40, 50, 60]⟩ (.sliceX 0 [(1, 3)])
      = .ok ⟨[3, 3], [0, 0, 0, 10, 20, 30, 40, 50, 60]⟩ ∧
    evalRule .sum exHeap ⟨[3, 2], [10, 20, 30, 40, 50, 60]⟩ (.sliceX 0 [(0, 0), (1, 3)])
      = .ok ⟨[3, 3], [0, 10, 20, 0, 30, 40, 0, 50, 60]⟩ := by decide
/-- Patch of node 1 at rows 1..3 (columns: omitted, offset 0): towards the target the block is zeroed, towards the
    source the block is selected -/
example : evalRule .sum exHeap ⟨[3, 3], [1, 2, 3, 4, 5, 6, 7, 8, 9]⟩ (.patchX 1 [(1, 3)])
      = .ok ⟨[3, 3], [1, 2, 3, 0, 0, 6, 0, 0, 9]⟩ ∧
    evalRule .sum exHeap ⟨[3, 3], [1, 2, 3, 4, 5, 6, 7, 8, 9]⟩ (.patchP 1 [(1, 3)]) = .ok ⟨[2, 2], [4, 5, 7, 8]⟩ ∧
    evalRule .sum exHeap ⟨[3, 3], [1, 2, 3, 4, 5, 6, 7, 8, 9]⟩ (.patchP 1 [(0, 0), (1, 3)]) = .ok ⟨[2, 2], [2, 3, 5, 6]⟩ := by
  decide
/-- Concat along dim 1, operand with base 1 and size 2: its block of the upstream gradient -/
example : evalRule .sum exHeap ⟨[3, 3], [1, 2, 3, 4, 5, 6, 7, 8, 9]⟩ (.concatI (concatIndex 2 1 1 2))
    = .ok ⟨[3, 2], [2, 3, 5, 6, 8, 9]⟩ := by decide

end C02x
end Qeep
