import QeepProofs.Run
/-!
# C17 — an SGD update subtracts exactly learning-rate times gradient, element-wise

Generic in the scalar domain (so it holds for `ℝ` and describes the operation order executed on `float64`).
-/
set_option linter.unusedSimpArgs false

namespace Qeep
namespace C17

variable {α : Type} [Scalar α]

/-- **Update**: for a weight of any shape whose gradient has the weight's shape, the step succeeds, allocates the
    replacement — same dims, element `k` equal to `w_k - lr * g_k` — and leaves the previous tensor object, its
    gradient and every other tensor exactly as they were (`Extends`). -/
theorem sgd_update (lr : α) (H : Heap α) (w : Nat) (g : Tensor α) (hw : w < H.size) (hg : H.grad w = some g)
    (wfw : (H.val w).WF) (wfg : g.WF) (hd : g.dims = (H.val w).dims) :
    ∃ r H', sgdUpdate lr (some w) H = .ok (r, H') ∧ Extends H H' ∧
      H'.val r = ⟨(H.val w).dims,
        List.zipWith (fun wv gv => Scalar.sub wv (Scalar.mul lr gv)) (H.val w).data g.data⟩ := by
  -- g := w.Gradient()
  have hgn : (hGradNode w : HM α (Option Nat)) H = .ok (some H.size, H.push ⟨g, dirtyCtx⟩) := by
    simp [hGradNode, hm_bind, getHeap, hg, Out.bind, alloc, pure, StateT.pure]
  have e0 : Extends H (H.push ⟨g, dirtyCtx⟩) := extends_push H _
  have hgv : Heap.val (H.push ⟨g, dirtyCtx⟩) H.size = g := push_val_new H _
  -- delta := g.Scale(lr)
  obtain ⟨d, H2, hdl⟩ := ran_hScale H.size lr (H.push ⟨g, dirtyCtx⟩)
  have hwlt : w < (H.push ⟨g, dirtyCtx⟩).size := by simp; omega
  have hw2 : H2.val w = H.val w := by rw [hdl.ext.val hwlt, e0.val hw]
  have wd : (H2.val d).WF := by rw [hdl.val, hgv]; exact map_wf _ _ wfg
  have hdd : (H2.val w).dims = (H2.val d).dims := by rw [hw2, hdl.val, hgv]; exact hd.symm
  -- *wptr = w.Sub(delta)
  obtain ⟨r, H3, hr⟩ := ran_hArith_same .sub w d H2 (Nat.lt_of_lt_of_le hwlt hdl.ext.1) hdl.lt
    (by rw [hw2]; exact wfw) wd hdd
  refine ⟨r, H3, ?_, (e0.trans hdl.ext).trans hr.ext, ?_⟩
  · unfold sgdUpdate
    simp only []
    rw [bind_run hgn]
    simp only []
    rw [bind_run hdl.run]
    exact hr.run
  · rw [hr.val, hw2, hdl.val, hgv]
    simp only [vScale, Tensor.map, Arith.fn]
    congr 1
    rw [List.zipWith_map_right]

/-- **Errors**: a nil tensor behind the pointer, or a tensor without gradient, is rejected and nothing is
    replaced (an `err` outcome carries no new heap). -/
theorem sgd_errors (lr : α) (H : Heap α) :
    sgdUpdate lr none H = .err ∧ (∀ w, H.grad w = none → sgdUpdate lr (some w) H = .err) := by
  constructor
  · rfl
  · intro w hg
    simp [sgdUpdate, hGradNode, hm_bind, getHeap, hg, Out.bind, pure, StateT.pure, liftOut]

/-- non-vacuity: a weight with a gradient of its own shape (kernel-checked on `Int`) -/
example : ∃ r H', sgdUpdate (2 : Int) (some 0) (#[⟨⟨[2], [10, 20]⟩, { tracked := true, grad := some ⟨[2], [1, 3]⟩ }⟩] : Heap Int) = .ok (r, H') ∧
    H'.val r = ⟨[2], [8, 14]⟩ := by
  refine ⟨_, _, rfl, ?_⟩
  decide

end C17
end Qeep
