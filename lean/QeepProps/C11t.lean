import QeepProps.C11w
/-!
# C11 — what the optimizer half of a step leaves in the heap

`sgd_nodes_no_edges`: `Update` on a SPENT weight (every weight is, after the back-propagation that gave it its gradient)
allocates five tensors — the gradient handed out, `lr·g`, the two `Broadcast` copies inside `Sub`, the result — none of which has
a back edge: the new weight cannot reach the old graph and nothing created by the step points at anything.
`updateAll_no_edges` / `updateAll_old`: the same for the whole optimizer half over any number of weights, and no context or value
of an older tensor changes. With these a loop invariant about "who points at the parameters" survives a training step.
-/
set_option linter.unusedSimpArgs false
set_option linter.unusedSectionVars false
set_option linter.unusedVariables false

namespace Qeep
namespace C11t
open RealScalar C01 C11x C15x

theorem dirtyCtx_edges : (dirtyCtx : Ctx ℝ).edges = [] := rfl

theorem sgd_nodes_no_edges (lr : ℝ) (H H' : Heap ℝ) (w r : Nat) (hw : w < H.size) (hd : H.dirty w = true)
    (h : sgdUpdate lr (some w) H = .ok (r, H')) : ∀ n, H.size ≤ n → (H'.ctx n).edges = [] := by
  unfold sgdUpdate at h
  simp only [] at h
  obtain ⟨g, H1, h1, h2⟩ := bind_ok h
  cases g with
  | none => obtain ⟨e, _⟩ := liftOut_ok h2; cases e
  | some k =>
    simp only [] at h2
    -- k = w.Gradient()
    have hk : H1.ctx k = dirtyCtx ∧ Extends H H1 ∧ k = H.size ∧ H1.size = H.size + 1 := by
      unfold hGradNode at h1
      obtain ⟨H0, H0', g0, k1⟩ := bind_ok h1
      obtain ⟨e0, e0'⟩ := getHeap_ok g0
      rw [e0, e0'] at k1
      cases hg : H.grad w with
      | none => rw [hg] at k1; cases k1
      | some t =>
        rw [hg] at k1
        simp only [] at k1
        obtain ⟨k', Hk, ga, k2⟩ := bind_ok k1
        have hp : (pure (some k') : HM ℝ (Option Nat)) Hk = .ok (some k', Hk) := rfl
        rw [hp] at k2
        injection k2 with k2
        injection k2 with e1 e2
        injection e1 with e1
        subst e1 e2
        obtain ⟨a, _, c, x⟩ := alloc_ok ga
        exact ⟨c, x, a, alloc_grows ga⟩
    obtain ⟨ck, xk, ik, sk⟩ := hk
    obtain ⟨dl, H2, h3, h4⟩ := bind_ok h2
    have hdl : H2.ctx dl = dirtyCtx ∧ Extends H1 H2 ∧ dl = H1.size ∧ H2.size = H1.size + 1 := by
      obtain ⟨i1, i2⟩ := C15z.hScale_id h3
      unfold hScale at h3
      obtain ⟨Hx, Hx', gx, kx⟩ := bind_ok h3
      obtain ⟨ex, ex'⟩ := getHeap_ok gx
      rw [ex, ex'] at kx
      obtain ⟨_, ec, ee⟩ := C08.op1_ctx k _ _ H1 H2 dl kx
      refine ⟨?_, ee, i1, i2⟩
      rw [ec]
      exact C11.mkCtx_dirty_of_mem H1 [k] _ k (by simp) (by simp [Heap.dirty, ck, dirtyCtx])
    obtain ⟨cd, xd, id', sd⟩ := hdl
    have hw2 : w < H2.size := by have := xk.1; have := xd.1; omega
    have hdl2 : dl < H2.size := by omega
    have hdw : H2.dirty w = true := by
      have e := (xk.trans xd).ctx hw
      simp only [Heap.dirty, e] at hd ⊢; exact hd
    -- w.Sub(delta), taken apart: two Broadcast nodes and the result
    unfold hArith at h4
    obtain ⟨p, Hp, q1, q2⟩ := bind_ok h4
    obtain ⟨pa, pb⟩ := p
    unfold hBroadcastPair at q1
    obtain ⟨H0, H0', g0, k1⟩ := bind_ok q1
    obtain ⟨e0, e0'⟩ := getHeap_ok g0
    rw [e0, e0'] at k1
    obtain ⟨a', Ha, ga, k2⟩ := bind_ok k1
    obtain ⟨b', Hb, gb, k3⟩ := bind_ok k2
    have hp : (pure (a', b') : HM ℝ (Nat × Nat)) Hb = .ok ((a', b'), Hb) := rfl
    rw [hp] at k3
    injection k3 with k3
    injection k3 with e1 e2
    injection e1 with ea eb
    subst ea eb e2
    obtain ⟨H3, H3', g3, k4⟩ := bind_ok q2
    obtain ⟨e3, e3'⟩ := getHeap_ok g3
    rw [e3, e3'] at k4
    obtain ⟨t, H4, g4, k5⟩ := bind_ok k4
    obtain ⟨_, e4'⟩ := liftOut_ok g4
    rw [e4'] at k5
    obtain ⟨ir, _, cr, xHbH'⟩ := alloc_ok k5
    have sr := alloc_grows k5
    have xa : Extends H2 Ha := frame_hBroadcast _ _ H2 a' Ha ga
    have xb : Extends Ha Hb := frame_hBroadcast _ _ Ha b' Hb gb
    obtain ⟨ia, sa⟩ := C15z.hBroadcast_id ga
    obtain ⟨ib, sb⟩ := C15z.hBroadcast_id gb
    have ca : Ha.ctx a' = dirtyCtx := by
      unfold hBroadcast at ga
      obtain ⟨Hx, Hx', gx, kx⟩ := bind_ok ga
      obtain ⟨ex, ex'⟩ := getHeap_ok gx
      rw [ex, ex'] at kx
      obtain ⟨_, ec, _⟩ := C08.op1_ctx w _ _ H2 Ha a' kx
      rw [ec]
      exact C11.mkCtx_dirty_of_mem H2 [w] _ w (by simp) hdw
    have hdd : Ha.dirty dl = true := by simp [Heap.dirty, xa.ctx hdl2, cd, dirtyCtx]
    have hb' : Hb.ctx b' = dirtyCtx := by
      unfold hBroadcast at gb
      obtain ⟨Hx, Hx', gx, kx⟩ := bind_ok gb
      obtain ⟨ex, ex'⟩ := getHeap_ok gx
      rw [ex, ex'] at kx
      obtain ⟨_, ec, _⟩ := C08.op1_ctx dl _ _ Ha Hb b' kx
      rw [ec]
      exact C11.mkCtx_dirty_of_mem Ha [dl] _ dl (by simp) hdd
    have hr' : H'.ctx r = dirtyCtx := by
      rw [cr]
      exact C11.mkCtx_dirty_of_mem Hb [a', b'] _ b' (by simp) (by simp [Heap.dirty, hb', dirtyCtx])
    have ha' := ca
    intro n hn
    by_cases h5 : n < H.size + 5
    · have hcase : n = k ∨ n = dl ∨ n = a' ∨ n = b' ∨ n = r := by omega
      rcases hcase with rfl | rfl | rfl | rfl | rfl
      · rw [(((xd.trans xa).trans xb).trans xHbH').ctx (by omega), ck]; rfl
      · rw [((xa.trans xb).trans xHbH').ctx hdl2, cd]; rfl
      · rw [(xb.trans xHbH').ctx (by omega), ha']; rfl
      · rw [xHbH'.ctx (by omega), hb']; rfl
      · rw [hr']; rfl
    · exact C16z.ctx_beyond H' n (by omega)

/-- the optimizer half of a step changes no older tensor: values and contexts below the old size stay -/
theorem updateAll_old (lr : ℝ) : ∀ (ws : List Nat) (H H' : Heap ℝ) (rs : List Nat), (∀ w ∈ ws, w < H.size) →
    updateAll lr ws H = .ok (rs, H') → H.size ≤ H'.size ∧ ∀ n, n < H.size → H'.ctx n = H.ctx n ∧ H'.val n = H.val n
  | [], H, H', rs, _, h => by
    unfold updateAll at h
    have e : (pure ([] : List Nat) : HM ℝ (List Nat)) H = .ok ([], H) := rfl
    rw [e] at h; injection h with h; injection h with _ h2; subst h2
    exact ⟨Nat.le_refl _, fun n _ => ⟨rfl, rfl⟩⟩
  | w :: ws, H, H', rs, hws, h => by
    unfold updateAll at h
    obtain ⟨r, Ha, u1, h⟩ := bind_ok h
    obtain ⟨_, H2, k1, h⟩ := bind_ok h
    have e2 : H2 = resetCtx Ha r true := by
      unfold hReset at k1; injection k1 with k1; injection k1 with _ k1; exact k1.symm
    obtain ⟨rs', Hz, u2, h⟩ := bind_ok h
    have ez : (pure (r :: rs') : HM ℝ (List Nat)) Hz = .ok (r :: rs', Hz) := rfl
    rw [ez] at h; injection h with h; injection h with _ h2; subst h2
    have hw : w < H.size := hws w (by simp)
    have xa : Extends H Ha := frame_sgdUpdate lr (some w) H r Ha u1
    obtain ⟨b1, b2⟩ := sgd_bounds lr H Ha w r hw u1
    obtain ⟨s2, v2, c2⟩ := resetCtx_frame Ha r true
    subst e2
    obtain ⟨i1, i2⟩ := updateAll_old lr ws (resetCtx Ha r true) Hz rs'
      (fun w' hw' => by rw [s2]; have := hws w' (by simp [hw']); have := xa.1; omega) u2
    refine ⟨by rw [s2] at i1; have := xa.1; omega, ?_⟩
    intro n hn
    obtain ⟨j1, j2⟩ := i2 n (by rw [s2]; have := xa.1; omega)
    exact ⟨by rw [j1, c2 n (by omega), xa.ctx hn], by rw [j2, v2 n, xa.val hn]⟩

/-- **nothing the optimizer half of a step creates has a back edge**, when every weight it updates is spent -/
theorem updateAll_no_edges (lr : ℝ) : ∀ (ws : List Nat) (H H' : Heap ℝ) (rs : List Nat),
    (∀ w ∈ ws, w < H.size ∧ H.dirty w = true) → updateAll lr ws H = .ok (rs, H') →
    ∀ n, H.size ≤ n → (H'.ctx n).edges = []
  | [], H, H', rs, _, h => by
    unfold updateAll at h
    have e : (pure ([] : List Nat) : HM ℝ (List Nat)) H = .ok ([], H) := rfl
    rw [e] at h; injection h with h; injection h with _ h2; subst h2
    intro n hn; exact C16z.ctx_beyond H n hn
  | w :: ws, H, H', rs, hws, h => by
    have hall := h
    unfold updateAll at h
    obtain ⟨r, Ha, u1, h⟩ := bind_ok h
    obtain ⟨_, H2, k1, h⟩ := bind_ok h
    have e2 : H2 = resetCtx Ha r true := by
      unfold hReset at k1; injection k1 with k1; injection k1 with _ k1; exact k1.symm
    obtain ⟨rs', Hz, u2, h⟩ := bind_ok h
    have ez : (pure (r :: rs') : HM ℝ (List Nat)) Hz = .ok (r :: rs', Hz) := rfl
    rw [ez] at h; injection h with h; injection h with _ h2; subst h2
    obtain ⟨hw, hdw⟩ := hws w (by simp)
    have xa : Extends H Ha := frame_sgdUpdate lr (some w) H r Ha u1
    obtain ⟨b1, b2⟩ := sgd_bounds lr H Ha w r hw u1
    obtain ⟨s2, v2, c2⟩ := resetCtx_frame Ha r true
    subst e2
    have hws' : ∀ w' ∈ ws, w' < (resetCtx Ha r true).size ∧ (resetCtx Ha r true).dirty w' = true := by
      intro w' hw'
      obtain ⟨q1, q2⟩ := hws w' (by simp [hw'])
      refine ⟨by rw [s2]; have := xa.1; omega, ?_⟩
      simp only [Heap.dirty, c2 w' (by omega), xa.ctx q1] at q2 ⊢; exact q2
    have ih := updateAll_no_edges lr ws (resetCtx Ha r true) Hz rs' hws' u2
    obtain ⟨_, old⟩ := updateAll_old lr ws (resetCtx Ha r true) Hz rs' (fun w' hw' => (hws' w' hw').1) u2
    intro n hn
    by_cases hlt : n < Ha.size
    · rw [(old n (by rw [s2]; exact hlt)).1]
      by_cases hr : n = r
      · subst hr
        rw [(C08.reset_is_fresh_leaf Ha n true b2).1]
      · rw [c2 n hr]
        exact sgd_nodes_no_edges lr H Ha w r hw hdw u1 n hn
    · exact ih n (by rw [s2]; omega)

end C11t
end Qeep
