import QeepProofs.Bcast
/-!
# C03 — element-wise operations and implicit broadcasting compute the defined values
-/
set_option linter.unusedSimpArgs false

namespace Qeep
namespace C03

variable {α : Type}

/-- **Unary operations** (Scale, Pow, Exp … Tanh): dims preserved, element `k` is the scalar function of
    element `k`; well-formedness preserved. -/
theorem unary_get (f : α → α) (t : Tensor α) :
    (t.map f).dims = t.dims ∧ (∀ k : Nat, (t.map f).data[k]? = (t.data[k]?).map f) ∧ (t.WF → (t.map f).WF) := by
  refine ⟨rfl, fun k => by simp [Tensor.map], ?_⟩
  intro h; exact ⟨by simpa [Tensor.map] using h.1, h.2⟩

/-- **Binary element-wise kernel** on operands of equal dims: never a panic, dims preserved, element `k`
    is the scalar operation of the two elements at position `k`. -/
theorem zip_get (f : α → α → α) (a b : Tensor α) (ha : a.WF) (hb : b.WF) (hd : a.dims = b.dims) :
    ∃ r, Tensor.zipRaw f a b = some r ∧ r.dims = a.dims ∧ r.WF ∧
      ∀ (k : Nat) x y, a.data[k]? = some x → b.data[k]? = some y → r.data[k]? = some (f x y) := by
  have hl : a.data.length = b.data.length := by rw [ha.1, hb.1, hd]
  refine ⟨⟨a.dims, List.zipWith f a.data b.data⟩, by simp [Tensor.zipRaw, hd, hl], rfl, ⟨?_, ha.2⟩, ?_⟩
  · simp [hl]; rw [hd]; exact hb.1
  · intro k x y hx hy
    simp [List.getElem?_zipWith, hx, hy]

/-- **Broadcast repeats source elements** — for every source shape, every target shape accepted by the
    validator and every target position: the element is the source element at the right-aligned index with
    size-1 (expanded) dimensions pinned to 0; new leading dimensions are ignored. Never a panic.
    `projLE` is that index map on little-endian indices; `iterN (incr sh) k zeros` is the `k`-th target
    multi-index in row-major order (`val_iter`). -/
theorem broadcast_get (t : Tensor α) (hwf : t.WF) (shape : List Nat) (hpos : ∀ h ∈ shape, 0 < h)
    (hv : validBroadcast t.dims shape = true) :
    ∃ data, t.broadcastRaw shape = some ⟨shape, data⟩ ∧ (⟨shape, data⟩ : Tensor α).WF ∧
      ∀ u, Valid shape.reverse u →
        (⟨shape, data⟩ : Tensor α).at? u.reverse = t.at? (projLE t.dims.reverse shape.reverse u).reverse ∧
        ((⟨shape, data⟩ : Tensor α).at? u.reverse).isSome := by
  obtain ⟨data, h1, h2, h3⟩ := broadcastRaw_spec t hwf shape hpos hv
  refine ⟨data, h1, ⟨h2, hpos⟩, ?_⟩
  intro u hu
  have hp : ∀ h ∈ shape.reverse, 0 < h := fun h hh => hpos h (by simpa using hh)
  have hk := val_lt hu
  rw [prod_reverse] at hk
  obtain ⟨e1, e2⟩ := h3 (val shape.reverse u) hk
  rw [iter_val hp hu] at e1
  have : (⟨shape, data⟩ : Tensor α).at? u.reverse = data[val shape.reverse u]? :=
    Tensor.at?_reverse (⟨shape, data⟩ : Tensor α) hu
  rw [this]
  exact ⟨e1, e2⟩

/-- the public `Broadcast` is total: `ok` with the spec'd tensor when accepted, `err` otherwise -/
theorem vBroadcast_total (t : Tensor α) (hwf : t.WF) (shape : List Int) :
    (validInputDims shape = true ∧ validBroadcast t.dims (natDims shape) = true →
        ∃ r, vBroadcast t shape = .ok r ∧ r.dims = natDims shape ∧ r.WF) ∧
    (¬ (validInputDims shape = true ∧ validBroadcast t.dims (natDims shape) = true) → vBroadcast t shape = .err) := by
  constructor
  · rintro ⟨h1, h2⟩
    have hpos : ∀ h ∈ natDims shape, 0 < h := by
      intro h hh
      simp only [natDims, List.mem_map] at hh
      obtain ⟨z, hz, rfl⟩ := hh
      simp only [validInputDims, List.all_eq_true, decide_eq_true_eq] at h1
      have := h1 z hz
      omega
    obtain ⟨data, e, wf, _⟩ := broadcast_get t hwf (natDims shape) hpos h2
    exact ⟨_, by simp [vBroadcast, h1, h2, e, Out.ofOpt], rfl, wf⟩
  · intro h
    unfold vBroadcast
    by_cases h1 : validInputDims shape = true
    · have h2 : ¬ validBroadcast t.dims (natDims shape) = true := fun h2 => h ⟨h1, h2⟩
      simp [h1, h2]
    · simp [h1]

theorem ofBool_cases [Scalar α] (b : Bool) : (Scalar.ofBool b : α) = Scalar.one ∨ (Scalar.ofBool b : α) = Scalar.zero := by
  cases b <;> simp [Scalar.ofBool]

/-- comparisons yield exactly 0 or 1 -/
theorem cmp_zero_one [Scalar α] (c : Cmp) (hc : c ≠ .elmax ∧ c ≠ .elmin) (x y : α) :
    c.fn x y = (Scalar.one : α) ∨ c.fn x y = (Scalar.zero : α) := by
  cases c
  case elmax => exact absurd rfl hc.1
  case elmin => exact absurd rfl hc.2
  all_goals exact ofBool_cases _

/-- non-vacuity: [2,1] → [2,2,3] is accepted and the theorem's index map sends (1,0,2) to (0,0) -/
example : validBroadcast [2, 1] [2, 2, 3] = true ∧ projLE [1, 2] [3, 2, 2] [2, 0, 1] = [0, 0] := by decide

end C03
end Qeep
