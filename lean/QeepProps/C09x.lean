import QeepProps.C09
import QeepProofs.MatMul
import QeepProofs.Run
/-!
# C09 (continued) — totality of the broadcasting binary operations, Dot, MatMul, Concat and the component validators

Same style as `QeepProps/C09.lean`: for well-formed operands the outcome of the public value operation is `ok` of a
well-formed tensor exactly when the documented gates accept, `err` otherwise, and `panic` never.

IMPORTANT deviation from the naive statement "`validDot = true → ok`" (and likewise MatMul): it is FALSE, for the
Model and for the Go code alike. `Dot`/`MatMul` have TWO gates: `ValidateDotProductDims`/`ValidateMatMulDims`
and then `broadcastForBinaryOp`/`broadcastForMatMul`, whose `Broadcast` calls run their own validator and return an
`error` when the batch dimensions are not broadcast-compatible. E.g. dims `[2,3]·[4,3]`: `validDot = true`, the outcome is
`err` (kernel-checked below). So the theorems here are three-way and exhaustive:
validator rejects → `err`; validator accepts, broadcast validator rejects → `err`; both accept → `ok`, well formed.
That is the C09 property in full (see also the `…_never_panic` corollaries).
Checked against the real library (scratch Go test, 2026-09-29): `Dot` on `[2,3]·[4,3]`, `MatMul` on `[2,1,1]×[3,1,1]` and `Add`
on `[2]+[3]` all return "… tensors' broadcasting failed: …" errors, no panic; `FC.Forward` with `Weight = nil` panics and with
`Bias = nil` returns an error (see `fcForward_nil_weight_panics`).
-/
set_option linter.unusedSimpArgs false
set_option linter.unusedSectionVars false

namespace Qeep
namespace C09

variable {α : Type}

/-! ## the pair-broadcast gate -/

/-- `broadcastForBinaryOp`'s two `Broadcast` validations: both operands must be broadcastable to the common target -/
def bcastPairOK (d1 d2 : List Nat) : Bool :=
  validBroadcast d1 (targetBroadcastDims d1 d2) && validBroadcast d2 (targetBroadcastDims d1 d2)

/-- `broadcastForMatMul`'s two `Broadcast` validations (each operand keeps its own trailing two dims) -/
def bcastPairMMOK (d1 d2 : List Nat) : Bool :=
  validBroadcast d1 (matMulShape (targetBroadcastDims d1 d2) d1) &&
  validBroadcast d2 (matMulShape (targetBroadcastDims d1 d2) d2)

theorem targetBroadcastLE_pos : ∀ (l1 l2 : List Nat), (∀ d ∈ l1, 0 < d) → (∀ d ∈ l2, 0 < d) →
    ∀ d ∈ targetBroadcastLE l1 l2, 0 < d
  | [], l2, _, h2 => by simpa [targetBroadcastLE] using h2
  | a :: as, [], h1, _ => by simpa [targetBroadcastLE] using h1
  | a :: as, b :: bs, h1, h2 => by
    intro d hd
    simp only [targetBroadcastLE, List.mem_cons] at hd
    rcases hd with hd | hd
    · have ha := h1 a (by simp)
      have hb := h2 b (by simp)
      rw [hd]; split <;> assumption
    · exact targetBroadcastLE_pos as bs (fun x hx => h1 x (by simp [hx])) (fun x hx => h2 x (by simp [hx])) d hd

theorem targetBroadcastDims_pos (d1 d2 : List Nat) (h1 : ∀ d ∈ d1, 0 < d) (h2 : ∀ d ∈ d2, 0 < d) :
    ∀ d ∈ targetBroadcastDims d1 d2, 0 < d := by
  intro d hd
  simp only [targetBroadcastDims, List.mem_reverse] at hd
  exact targetBroadcastLE_pos _ _ (fun x hx => h1 x (by simpa using hx)) (fun x hx => h2 x (by simpa using hx)) d hd

/-- `Broadcast` to a shape of positive sizes (as natural numbers): `ok`, of that shape and well formed, iff the
    broadcast validator accepts; `err` otherwise -/
theorem vBroadcastN_total (t : Tensor α) (hwf : t.WF) (shape : List Nat) (hpos : ∀ h ∈ shape, 0 < h) :
    (validBroadcast t.dims shape = true → ∃ r, vBroadcastN t shape = .ok r ∧ r.dims = shape ∧ r.WF) ∧
    (validBroadcast t.dims shape = false → vBroadcastN t shape = .err) := by
  have hv := validInputDims_ofNat shape hpos
  have hn := natDims_ofNat shape
  obtain ⟨h1, h2⟩ := C03.vBroadcast_total t hwf (shape.map Int.ofNat)
  rw [hn] at h1 h2
  constructor
  · intro h
    obtain ⟨r, e, d, w⟩ := h1 ⟨hv, h⟩
    exact ⟨r, e, d, w⟩
  · intro h
    apply h2
    rintro ⟨_, h'⟩
    rw [h] at h'
    exact Bool.noConfusion h'

/-- **`broadcastForBinaryOp`** is total -/
theorem vBroadcastPair_total (a b : Tensor α) (ha : a.WF) (hb : b.WF) :
    (bcastPairOK a.dims b.dims = true → ∃ a' b', vBroadcastPair a b = .ok (a', b') ∧
        a'.dims = targetBroadcastDims a.dims b.dims ∧ b'.dims = targetBroadcastDims a.dims b.dims ∧ a'.WF ∧ b'.WF) ∧
    (bcastPairOK a.dims b.dims = false → vBroadcastPair a b = .err) := by
  have hpos := targetBroadcastDims_pos a.dims b.dims ha.2 hb.2
  obtain ⟨a1, a2⟩ := vBroadcastN_total a ha _ hpos
  obtain ⟨b1, b2⟩ := vBroadcastN_total b hb _ hpos
  constructor
  · intro h
    simp only [bcastPairOK, Bool.and_eq_true] at h
    obtain ⟨a', ea, da, wa⟩ := a1 h.1
    obtain ⟨b', eb, db, wb⟩ := b1 h.2
    refine ⟨a', b', ?_, da, db, wa, wb⟩
    unfold vBroadcastPair
    simp only [bind, Out.bind]
    rw [ea]
    simp only []
    rw [eb]
    rfl
  · intro h
    unfold vBroadcastPair
    simp only [bind, Out.bind]
    cases hva : validBroadcast a.dims (targetBroadcastDims a.dims b.dims) with
    | false => rw [a2 hva]
    | true =>
      have hvb : validBroadcast b.dims (targetBroadcastDims a.dims b.dims) = false := by
        simp only [bcastPairOK, hva, Bool.true_and] at h
        exact h
      obtain ⟨a', ea, _, _⟩ := a1 hva
      rw [ea]
      simp only []
      rw [b2 hvb]

/-! ## 4. Add / Sub / Mul / Div on operands of any two shapes -/

/-- **Add / Sub / Mul / Div** with implicit broadcasting: `ok` — of the common target shape, well formed — iff both
    operands are broadcastable to the common target shape (`broadcastForBinaryOp`'s validation); `err` otherwise. -/
theorem vArith_total [Scalar α] (o : Arith) (a b : Tensor α) (ha : a.WF) (hb : b.WF) :
    (bcastPairOK a.dims b.dims = true →
        ∃ r, vArith o a b = .ok r ∧ r.dims = targetBroadcastDims a.dims b.dims ∧ r.WF) ∧
    (bcastPairOK a.dims b.dims = false → vArith o a b = .err) := by
  obtain ⟨p1, p2⟩ := vBroadcastPair_total a b ha hb
  constructor
  · intro h
    obtain ⟨a', b', e, da, db, wa, wb⟩ := p1 h
    obtain ⟨r, er, dr, wr, _⟩ := C03.zip_get o.fn a' b' wa wb (by rw [da, db])
    refine ⟨r, ?_, by rw [dr, da], wr⟩
    unfold vArith
    simp only [bind, Out.bind]
    rw [e]
    simp only []
    rw [er]
    rfl
  · intro h
    unfold vArith
    simp only [bind, Out.bind]
    rw [p2 h]

theorem vArith_never_panic [Scalar α] (o : Arith) (a b : Tensor α) (ha : a.WF) (hb : b.WF) :
    vArith o a b ≠ .panic := by
  obtain ⟨h1, h2⟩ := vArith_total o a b ha hb
  cases h : bcastPairOK a.dims b.dims with
  | true => obtain ⟨r, e, _⟩ := h1 h; rw [e]; intro hh; cases hh
  | false => rw [h2 h]; intro hh; cases hh

/-- non-vacuity: `[2,1] + [3]` broadcasts to `[2,3]`; `[2] + [3]` is an error -/
example : bcastPairOK [2, 1] [3] = true ∧
    vArith .add (⟨[2, 1], [10, 20]⟩ : Tensor Int) ⟨[3], [1, 2, 3]⟩ = .ok ⟨[2, 3], [11, 12, 13, 21, 22, 23]⟩ ∧
    bcastPairOK [2] [3] = false ∧ vArith .add (⟨[2], [10, 20]⟩ : Tensor Int) ⟨[3], [1, 2, 3]⟩ = .err := by
  decide

/-! ## shape lemmas for Dot / MatMul -/

theorem exists_concat (l : List Nat) (h : 1 ≤ l.length) : ∃ r x, l = r ++ [x] := by
  have hne : l ≠ [] := by intro e; rw [e] at h; simp at h
  exact ⟨l.dropLast, l.getLast hne, (List.dropLast_concat_getLast hne).symm⟩

theorem exists_concat2 (l : List Nat) (h : 2 ≤ l.length) : ∃ r x y, l = r ++ [x, y] := by
  obtain ⟨r, y, e⟩ := exists_concat l (by omega)
  have hr : 1 ≤ r.length := by rw [e] at h; simp at h; omega
  obtain ⟨r', x, e'⟩ := exists_concat r hr
  exact ⟨r', x, y, by rw [e, e']; simp⟩

/-- what `ValidateDotProductDims` accepts: both ranks ≥ 1, equal last dims -/
theorem validDot_shape (d1 d2 : List Nat) (h : validDot d1 d2 = true) :
    ∃ r1 r2 n, d1 = r1 ++ [n] ∧ d2 = r2 ++ [n] := by
  simp only [validDot, Bool.and_eq_true, decide_eq_true_eq, beq_iff_eq] at h
  obtain ⟨⟨h1, h2⟩, h3⟩ := h
  obtain ⟨r1, n1, e1⟩ := exists_concat d1 h1
  obtain ⟨r2, n2, e2⟩ := exists_concat d2 h2
  rw [e1, e2, List.getLast?_concat, List.getLast?_concat] at h3
  have hn : n1 = n2 := by injection h3
  exact ⟨r1, r2, n1, e1, by rw [e2, hn]⟩

/-- what `ValidateMatMulDims` accepts: both ranks ≥ 2, inner dims equal -/
theorem validMatMul_shape (d1 d2 : List Nat) (h : validMatMul d1 d2 = true) :
    ∃ r1 r2 m n k, d1 = r1 ++ [m, n] ∧ d2 = r2 ++ [n, k] := by
  simp only [validMatMul, Bool.and_eq_true, decide_eq_true_eq, beq_iff_eq] at h
  obtain ⟨⟨h1, h2⟩, h3⟩ := h
  obtain ⟨r1, m, n, e1⟩ := exists_concat2 d1 h1
  obtain ⟨r2, n', k, e2⟩ := exists_concat2 d2 h2
  have g1 : (r1 ++ [m, n]).getLast? = some n := by simp
  have g2 : (r2 ++ [n', k]).dropLast.getLast? = some n' := by simp [List.dropLast_cons_of_ne_nil]
  rw [e1, e2, g1, g2] at h3
  have hn : n = n' := by injection h3
  exact ⟨r1, r2, m, n, k, e1, by rw [e2, hn]⟩

theorem targetBroadcastDims_concat (r1 r2 : List Nat) (n : Nat) :
    targetBroadcastDims (r1 ++ [n]) (r2 ++ [n]) = targetBroadcastDims r1 r2 ++ [n] := by
  simp [targetBroadcastDims, targetBroadcastLE]

theorem targetBroadcastDims_concat2 (r1 r2 : List Nat) (m n n' k : Nat) :
    ∃ x y, targetBroadcastDims (r1 ++ [m, n]) (r2 ++ [n', k]) = targetBroadcastDims r1 r2 ++ [x, y] := by
  refine ⟨if m > n' then m else n', if n > k then n else k, ?_⟩
  simp [targetBroadcastDims, targetBroadcastLE]

/-- every in-range index of a well-formed tensor addresses an element -/
theorem at?_some_of_valid (t : Tensor α) (hwf : t.WF) (idx : List Nat) (hv : Valid t.dims idx) :
    ∃ x, t.at? idx = some x := by
  have hvr : Valid t.dims.reverse idx.reverse := at?_prefix.valid_reverse' hv
  have e := Tensor.at?_reverse t hvr
  rw [List.reverse_reverse] at e
  have hlt := val_lt hvr
  rw [prod_reverse, ← hwf.1] at hlt
  exact ⟨_, by rw [e]; exact List.getElem?_eq_getElem hlt⟩

/-! ## 1. Dot -/

/-- **Dot**: `err` when `ValidateDotProductDims` rejects; `err` when it accepts but the operands are not
    broadcast-compatible (`broadcastForBinaryOp`); otherwise `ok` of a well-formed tensor whose dims are the common
    target shape without its last dimension. Never a panic, for every rank and size. -/
theorem vDot_total [Scalar α] (a b : Tensor α) (ha : a.WF) (hb : b.WF) :
    (validDot a.dims b.dims = true → bcastPairOK a.dims b.dims = true →
        ∃ r, vDot a b = .ok r ∧ r.dims = (targetBroadcastDims a.dims b.dims).dropLast ∧ r.WF) ∧
    (validDot a.dims b.dims = true → bcastPairOK a.dims b.dims = false → vDot a b = .err) ∧
    (validDot a.dims b.dims = false → vDot a b = .err) := by
  obtain ⟨p1, p2⟩ := vBroadcastPair_total a b ha hb
  refine ⟨?_, ?_, ?_⟩
  · intro hv hbc
    obtain ⟨r1, r2, n, e1, e2⟩ := validDot_shape a.dims b.dims hv
    obtain ⟨a', b', e, da, db, wa, wb⟩ := p1 hbc
    have hT : targetBroadcastDims a.dims b.dims = targetBroadcastDims r1 r2 ++ [n] := by
      rw [e1, e2]; exact targetBroadcastDims_concat r1 r2 n
    rw [hT] at da db
    obtain ⟨dimsA, dataA⟩ := a'
    obtain ⟨dimsB, dataB⟩ := b'
    simp only at da db
    rw [da] at wa e
    rw [db] at wb e
    have hposT : ∀ d ∈ targetBroadcastDims r1 r2 ++ [n], 0 < d := wa.2
    have hbd : ∀ d ∈ targetBroadcastDims r1 r2, 0 < d := fun d hd => hposT d (by simp [hd])
    have hn : 0 < n := hposT n (by simp)
    obtain ⟨data, er, hlen, _⟩ := dotRaw_spec (targetBroadcastDims r1 r2) n dataA dataB hbd hn wa.1 wb.1
      (fun pre p => ((⟨targetBroadcastDims r1 r2 ++ [n], dataA⟩ : Tensor α).at? (pre ++ [p])).getD Scalar.zero)
      (fun pre p => ((⟨targetBroadcastDims r1 r2 ++ [n], dataB⟩ : Tensor α).at? (pre ++ [p])).getD Scalar.zero)
      (fun pre p hpre hp => by
        obtain ⟨x, hx⟩ := at?_some_of_valid _ wa (pre ++ [p]) (valid_append hpre hp)
        rw [hx]; rfl)
      (fun pre p hpre hp => by
        obtain ⟨x, hx⟩ := at?_some_of_valid _ wb (pre ++ [p]) (valid_append hpre hp)
        rw [hx]; rfl)
    refine ⟨⟨targetBroadcastDims r1 r2, data⟩, ?_, by rw [hT]; simp, ⟨hlen, hbd⟩⟩
    unfold vDot
    rw [if_pos hv]
    simp only [bind, Out.bind]
    rw [e]
    simp only []
    rw [er]
    rfl
  · intro hv hbc
    unfold vDot
    rw [if_pos hv]
    simp only [bind, Out.bind]
    rw [p2 hbc]
  · intro hv
    unfold vDot
    rw [hv]
    rfl

theorem vDot_never_panic [Scalar α] (a b : Tensor α) (ha : a.WF) (hb : b.WF) : vDot a b ≠ .panic := by
  obtain ⟨h1, h2, h3⟩ := vDot_total a b ha hb
  cases hv : validDot a.dims b.dims with
  | false => rw [h3 hv]; intro hh; cases hh
  | true =>
    cases hbc : bcastPairOK a.dims b.dims with
    | true => obtain ⟨r, e, _⟩ := h1 hv hbc; rw [e]; intro hh; cases hh
    | false => rw [h2 hv hbc]; intro hh; cases hh

/-- non-vacuity: a batched dot with broadcasting of the batch dimension; mismatching last dims are an error; and
    the COUNTEREXAMPLE to the two-way statement: `[2,3]·[4,3]` passes `ValidateDotProductDims` yet is an error
    (returned by `broadcastForBinaryOp`), not a result — and not a panic. -/
example : validDot [2, 2] [2] = true ∧ bcastPairOK [2, 2] [2] = true ∧
    vDot (⟨[2, 2], [1, 2, 3, 4]⟩ : Tensor Int) ⟨[2], [10, 100]⟩ = .ok ⟨[2], [210, 430]⟩ ∧
    validDot [2] [3] = false ∧ vDot (⟨[2], [1, 2]⟩ : Tensor Int) ⟨[3], [1, 2, 3]⟩ = .err ∧
    validDot [2, 3] [4, 3] = true ∧ bcastPairOK [2, 3] [4, 3] = false ∧
    vDot (⟨[2, 3], [1, 2, 3, 4, 5, 6]⟩ : Tensor Int) ⟨[4, 3], [1, 2, 3, 4, 5, 6, 7, 8, 9, 10, 11, 12]⟩ = .err := by
  decide

/-! ## 2. MatMul -/

/-- **MatMul**: `err` when `ValidateMatMulDims` rejects; `err` when it accepts but the batch dimensions are not
    broadcast-compatible (`broadcastForMatMul`); otherwise `ok` of a well-formed tensor: the common batch dims followed
    by `[m, k]`. Never a panic, for every rank and size. -/
theorem vMatMul_total [Scalar α] (a b : Tensor α) (ha : a.WF) (hb : b.WF) :
    (validMatMul a.dims b.dims = true → bcastPairMMOK a.dims b.dims = true →
        ∃ r, vMatMul a b = .ok r ∧ r.WF ∧
          r.dims = (targetBroadcastDims a.dims b.dims).dropLast.dropLast ++
            [a.dims.dropLast.getLast?.getD 0, b.dims.getLast?.getD 0]) ∧
    (validMatMul a.dims b.dims = true → bcastPairMMOK a.dims b.dims = false → vMatMul a b = .err) ∧
    (validMatMul a.dims b.dims = false → vMatMul a b = .err) := by
  refine ⟨?_, ?_, ?_⟩
  · intro hv hbc
    obtain ⟨r1, r2, m, n, k, e1, e2⟩ := validMatMul_shape a.dims b.dims hv
    obtain ⟨x, y, hT⟩ := targetBroadcastDims_concat2 r1 r2 m n n k
    have hTdd : (targetBroadcastDims a.dims b.dims).dropLast.dropLast = targetBroadcastDims r1 r2 := by
      rw [e1, e2, hT]; simp [List.dropLast_cons_of_ne_nil]
    have hsa : matMulShape (targetBroadcastDims a.dims b.dims) a.dims = targetBroadcastDims r1 r2 ++ [m, n] := by
      unfold matMulShape; rw [hTdd, e1]; simp
    have hsb : matMulShape (targetBroadcastDims a.dims b.dims) b.dims = targetBroadcastDims r1 r2 ++ [n, k] := by
      unfold matMulShape; rw [hTdd, e2]; simp
    have hpa : ∀ d ∈ a.dims, 0 < d := ha.2
    have hpb : ∀ d ∈ b.dims, 0 < d := hb.2
    rw [e1] at hpa
    rw [e2] at hpb
    have hm : 0 < m := hpa m (by simp)
    have hn : 0 < n := hpa n (by simp)
    have hk : 0 < k := hpb k (by simp)
    have hbd : ∀ d ∈ targetBroadcastDims r1 r2, 0 < d :=
      targetBroadcastDims_pos r1 r2 (fun d hd => hpa d (by simp [hd])) (fun d hd => hpb d (by simp [hd]))
    have hposA : ∀ d ∈ targetBroadcastDims r1 r2 ++ [m, n], 0 < d := by
      intro d hd
      simp only [List.mem_append, List.mem_cons, List.not_mem_nil, or_false] at hd
      rcases hd with hd | hd | hd
      · exact hbd d hd
      · rw [hd]; exact hm
      · rw [hd]; exact hn
    have hposB : ∀ d ∈ targetBroadcastDims r1 r2 ++ [n, k], 0 < d := by
      intro d hd
      simp only [List.mem_append, List.mem_cons, List.not_mem_nil, or_false] at hd
      rcases hd with hd | hd | hd
      · exact hbd d hd
      · rw [hd]; exact hn
      · rw [hd]; exact hk
    simp only [bcastPairMMOK, Bool.and_eq_true] at hbc
    rw [hsa, hsb] at hbc
    obtain ⟨a', ea, da, wa⟩ := (vBroadcastN_total a ha _ hposA).1 hbc.1
    obtain ⟨b', eb, db, wb⟩ := (vBroadcastN_total b hb _ hposB).1 hbc.2
    obtain ⟨dimsA, dataA⟩ := a'
    obtain ⟨dimsB, dataB⟩ := b'
    simp only at da db
    rw [da] at wa ea
    rw [db] at wb eb
    obtain ⟨data, er, hlen, _⟩ := matMulRaw_spec (targetBroadcastDims r1 r2) m n k dataA dataB hbd hm hn hk wa.1 wb.1
      (fun pre i p => ((⟨targetBroadcastDims r1 r2 ++ [m, n], dataA⟩ : Tensor α).at? (pre ++ [i, p])).getD Scalar.zero)
      (fun pre p j => ((⟨targetBroadcastDims r1 r2 ++ [n, k], dataB⟩ : Tensor α).at? (pre ++ [p, j])).getD Scalar.zero)
      (fun pre i p hpre hi hp => by
        have hvx : Valid (targetBroadcastDims r1 r2 ++ [m, n]) (pre ++ [i, p]) := by
          have := valid_append (valid_append hpre hi) hp
          simpa using this
        obtain ⟨x, hx⟩ := at?_some_of_valid _ wa _ hvx
        rw [hx]; rfl)
      (fun pre p j hpre hp hj => by
        have hvx : Valid (targetBroadcastDims r1 r2 ++ [n, k]) (pre ++ [p, j]) := by
          have := valid_append (valid_append hpre hp) hj
          simpa using this
        obtain ⟨x, hx⟩ := at?_some_of_valid _ wb _ hvx
        rw [hx]; rfl)
    have hwr : (⟨targetBroadcastDims r1 r2 ++ [m, k], data⟩ : Tensor α).WF := by
      refine ⟨hlen, ?_⟩
      intro d hd
      simp only [List.mem_append, List.mem_cons, List.not_mem_nil, or_false] at hd
      rcases hd with hd | hd | hd
      · exact hbd d hd
      · rw [hd]; exact hm
      · rw [hd]; exact hk
    refine ⟨⟨targetBroadcastDims r1 r2 ++ [m, k], data⟩, ?_, hwr, ?_⟩
    · unfold vMatMul
      rw [if_pos hv]
      unfold vBroadcastPairMM
      simp only [bind, Out.bind]
      rw [hsa, hsb, ea]
      simp only []
      rw [eb]
      simp only [pure]
      rw [er]
      rfl
    · rw [hTdd, e1, e2]
      simp [List.dropLast_cons_of_ne_nil]
  · intro hv hbc
    have hposT := targetBroadcastDims_pos a.dims b.dims ha.2 hb.2
    -- the two target shapes are of positive sizes
    have hposMS : ∀ (own : List Nat), (∀ d ∈ own, 0 < d) →
        ∀ d ∈ matMulShape (targetBroadcastDims a.dims b.dims) own, 0 < d := by
      intro own hown d hd
      simp only [matMulShape, List.mem_append] at hd
      rcases hd with hd | hd
      · exact hposT d (List.dropLast_subset _ (List.dropLast_subset _ hd))
      · exact hown d (List.mem_of_mem_drop hd)
    obtain ⟨a1, a2⟩ := vBroadcastN_total a ha _ (hposMS a.dims ha.2)
    obtain ⟨b1, b2⟩ := vBroadcastN_total b hb _ (hposMS b.dims hb.2)
    unfold vMatMul
    rw [if_pos hv]
    unfold vBroadcastPairMM
    simp only [bind, Out.bind]
    cases hva : validBroadcast a.dims (matMulShape (targetBroadcastDims a.dims b.dims) a.dims) with
    | false => rw [a2 hva]
    | true =>
      have hvb : validBroadcast b.dims (matMulShape (targetBroadcastDims a.dims b.dims) b.dims) = false := by
        simp only [bcastPairMMOK, hva, Bool.true_and] at hbc
        exact hbc
      obtain ⟨a', ea, _, _⟩ := a1 hva
      rw [ea]
      simp only []
      rw [b2 hvb]
  · intro hv
    unfold vMatMul
    rw [hv]
    rfl

theorem vMatMul_never_panic [Scalar α] (a b : Tensor α) (ha : a.WF) (hb : b.WF) : vMatMul a b ≠ .panic := by
  obtain ⟨h1, h2, h3⟩ := vMatMul_total a b ha hb
  cases hv : validMatMul a.dims b.dims with
  | false => rw [h3 hv]; intro hh; cases hh
  | true =>
    cases hbc : bcastPairMMOK a.dims b.dims with
    | true => obtain ⟨r, e, _⟩ := h1 hv hbc; rw [e]; intro hh; cases hh
    | false => rw [h2 hv hbc]; intro hh; cases hh

/-- non-vacuity: `[2,2]×[2,1]`; a batch of one matrix against a batch of two (batch dim broadcast); inner-dim
    mismatch is an error; and the COUNTEREXAMPLE to the two-way statement: batch dims 2 vs 3 pass `ValidateMatMulDims`
    yet are an error (from `broadcastForMatMul`), not a panic. -/
example : validMatMul [2, 2] [2, 1] = true ∧ bcastPairMMOK [2, 2] [2, 1] = true ∧
    vMatMul (⟨[2, 2], [1, 2, 3, 4]⟩ : Tensor Int) ⟨[2, 1], [10, 100]⟩ = .ok ⟨[2, 1], [210, 430]⟩ ∧
    vMatMul (⟨[1, 1, 2], [1, 2]⟩ : Tensor Int) ⟨[2, 2, 1], [10, 100, 1, 1]⟩ = .ok ⟨[2, 1, 1], [210, 3]⟩ ∧
    validMatMul [2, 2] [3, 1] = false ∧ vMatMul (⟨[2, 2], [1, 2, 3, 4]⟩ : Tensor Int) ⟨[3, 1], [1, 2, 3]⟩ = .err ∧
    validMatMul [2, 1, 1] [3, 1, 1] = true ∧ bcastPairMMOK [2, 1, 1] [3, 1, 1] = false ∧
    vMatMul (⟨[2, 1, 1], [1, 2]⟩ : Tensor Int) ⟨[3, 1, 1], [1, 2, 3]⟩ = .err := by
  decide

/-! ## 3. Concat -/

/-- what `ValidateConcatTensorsDimsAlongDim` accepts: a non-empty operand list, `0 ≤ dim < rank` and every operand
    agreeing with the first one on the rank and on every dimension except `dim` -/
theorem validConcat_shape (t0 : Tensor α) (rest : List (Tensor α)) (dim : Int)
    (h : validConcat ((t0 :: rest).map (·.dims)) dim = true) :
    0 ≤ dim ∧ dim.toNat < t0.dims.length ∧
    ∀ t ∈ t0 :: rest, t.dims.length = t0.dims.length ∧ ∀ j, j ≠ dim.toNat → t.dims[j]? = t0.dims[j]? := by
  simp only [validConcat, List.map_cons, List.all_eq_true] at h
  have h0 := h t0.dims (by simp)
  simp only [Bool.and_eq_true, decide_eq_true_eq, beq_iff_eq] at h0
  have hd0 : 0 ≤ dim := h0.1.2.1
  have hd1 : dim < (t0.dims.length : Int) := h0.1.2.2
  refine ⟨hd0, by omega, ?_⟩
  intro t ht
  have hmem : t.dims ∈ t0.dims :: List.map (·.dims) rest := by
    rcases List.mem_cons.mp ht with e | e
    · rw [e]; simp
    · exact List.mem_cons_of_mem _ (List.mem_map.mpr ⟨t, e, rfl⟩)
  have ht' := h t.dims hmem
  simp only [Bool.and_eq_true, decide_eq_true_eq, beq_iff_eq, List.all_eq_true, List.mem_range, Bool.or_eq_true] at ht'
  obtain ⟨⟨⟨_, hlen⟩, _⟩, hall⟩ := ht'
  refine ⟨hlen, ?_⟩
  intro j hj
  by_cases hjl : j < t.dims.length
  · rcases hall j hjl with e | e
    · exact absurd (by omega : j = dim.toNat) hj
    · exact e
  · rw [List.getElem?_eq_none (by omega), List.getElem?_eq_none (by omega)]

/-- **Concat**: `ok` — of the first operand's dims with `dim` replaced by the sum of the operands' sizes, well
    formed — iff `ValidateConcatTensorsDimsAlongDim` accepts; `err` otherwise (including the empty operand list, which the
    public wrapper rejects earlier). Never a panic, for every operand count, rank and size. -/
theorem vConcat_total [Scalar α] (ts : List (Tensor α)) (hwf : ∀ t ∈ ts, t.WF) (dim : Int) :
    (validConcat (ts.map (·.dims)) dim = true →
        ∃ r, vConcat ts dim = .ok r ∧ r.dims = concatDims ts dim.toNat ∧ r.WF) ∧
    (validConcat (ts.map (·.dims)) dim = false → vConcat ts dim = .err) := by
  constructor
  · intro h
    cases ts with
    | nil => simp [validConcat] at h
    | cons t0 rest =>
      obtain ⟨_, hdim, hagree⟩ := validConcat_shape t0 rest dim h
      obtain ⟨data, e, hlen, _⟩ := C06.concat_get t0 rest dim.toNat hdim hwf hagree
      have hcd : concatDims (t0 :: rest) dim.toNat
          = t0.dims.set dim.toNat (((t0 :: rest).map (fun t => t.dims.getD dim.toNat 0)).sum) := rfl
      refine ⟨⟨t0.dims.set dim.toNat (((t0 :: rest).map (fun t => t.dims.getD dim.toNat 0)).sum), data⟩, ?_,
        hcd.symm, ⟨hlen, ?_⟩⟩
      · unfold vConcat
        rw [if_pos h, e]
        rfl
      · intro d hd
        rcases List.mem_or_eq_of_mem_set hd with hd | hd
        · exact (hwf t0 (by simp)).2 d hd
        · have h0 : 0 < t0.dims.getD dim.toNat 0 := by
            rw [List.getD_eq_getElem?_getD, List.getElem?_eq_getElem hdim]
            exact (hwf t0 (by simp)).2 _ (List.getElem_mem hdim)
          rw [hd]
          simp only [List.map_cons, List.sum_cons]
          omega
  · intro h
    unfold vConcat
    rw [h]
    rfl

theorem vConcat_never_panic [Scalar α] (ts : List (Tensor α)) (hwf : ∀ t ∈ ts, t.WF) (dim : Int) :
    vConcat ts dim ≠ .panic := by
  obtain ⟨h1, h2⟩ := vConcat_total ts hwf dim
  cases hv : validConcat (ts.map (·.dims)) dim with
  | false => rw [h2 hv]; intro hh; cases hh
  | true => obtain ⟨r, e, _⟩ := h1 hv; rw [e]; intro hh; cases hh

/-- non-vacuity: `[2,1] ++ [2,2]` along dim 1; a mismatching other dimension, a negative / too large dim and the empty
    list are errors -/
example : validConcat [[2, 1], [2, 2]] 1 = true ∧
    vConcat [(⟨[2, 1], [1, 2]⟩ : Tensor Int), ⟨[2, 2], [3, 4, 5, 6]⟩] 1 = .ok ⟨[2, 3], [1, 3, 4, 2, 5, 6]⟩ ∧
    validConcat [[2, 1], [2, 2]] 0 = false ∧
    vConcat [(⟨[2, 1], [1, 2]⟩ : Tensor Int), ⟨[2, 2], [3, 4, 5, 6]⟩] 0 = .err ∧
    vConcat [(⟨[2, 1], [1, 2]⟩ : Tensor Int), ⟨[2, 2], [3, 4, 5, 6]⟩] (-1) = .err ∧
    vConcat [(⟨[2, 1], [1, 2]⟩ : Tensor Int), ⟨[2, 2], [3, 4, 5, 6]⟩] 2 = .err ∧
    vConcat ([] : List (Tensor Int)) 0 = .err := by
  decide

/-! ## 5. component constructors and input validators

`Out`-valued configuration / input validators of `component/**` are two-valued (`ok` / `err`, never `panic`), and a
rejected configuration or input makes the component call return `err` with no new heap. -/

theorem ite_ne {γ : Type} {c : Prop} [Decidable c] {x y z : γ} (hx : x ≠ z) (hy : y ≠ z) :
    (if c then x else y) ≠ z := by
  split <;> assumption

section Components
variable [Scalar α]

/-- **`NewSoftmax`**: nil config → Dim 0; negative Dim → error; otherwise that Dim -/
theorem softmaxOf_total :
    softmaxOf (α := α) none = .ok (.softmax 0) ∧
    (∀ d : Int, 0 ≤ d → softmaxOf (α := α) (some d) = .ok (.softmax d.toNat)) ∧
    (∀ d : Int, d < 0 → softmaxOf (α := α) (some d) = .err) := by
  refine ⟨rfl, ?_, ?_⟩
  · intro d hd
    have : ¬ d < 0 := by omega
    simp only [softmaxOf, this, if_false]
  · intro d hd
    simp only [softmaxOf, hd, if_true]

/-- **`toValidInputs`** (all layers): exactly one, non-nil input is accepted; anything else is an error -/
theorem oneInput_total (xs : List (Option Nat)) :
    (∀ x, xs = [some x] → oneInput xs = .ok x) ∧ ((∀ x, xs ≠ [some x]) → oneInput xs = .err) := by
  constructor
  · intro x e; rw [e]; rfl
  · intro h
    unfold oneInput
    split
    · rename_i x; exact absurd rfl (h x)
    · rfl

theorem oneInput_never_panic (xs : List (Option Nat)) : oneInput xs ≠ .panic := by
  unfold oneInput
  split <;> (intro hh; cases hh)

/-- the rank a loss expects of prediction and target: CE `[batch, class]`, MSE / BCE `[batch]` -/
def lossRank : Loss → Nat
  | .ce => 2
  | _ => 1

/-- **`validateInputs`** of MSE / BCE / CE: both tensors non-nil, of the expected rank and of equal shape — `ok`;
    anything else — `err`. -/
theorem lossValid_total (H : Heap α) (l : Loss) (yp yt : Option Nat) :
    (∀ p t, yp = some p → yt = some t → (H.val p).dims.length = lossRank l → (H.val t).dims.length = lossRank l →
        (H.val p).dims = (H.val t).dims → lossValid H l yp yt = .ok (p, t)) ∧
    ((yp = none ∨ yt = none ∨ ∃ p t, yp = some p ∧ yt = some t ∧
        ¬ ((H.val p).dims.length = lossRank l ∧ (H.val t).dims.length = lossRank l ∧ (H.val p).dims = (H.val t).dims)) →
      lossValid H l yp yt = .err) := by
  constructor
  · intro p t ep et h1 h2 h3
    rw [ep, et]
    cases l <;> simp only [lossRank] at h1 h2 <;> simp only [lossValid, h1, h2, h3, and_self, if_true]
  · intro h
    rcases h with h | h | ⟨p, t, ep, et, h⟩
    · rw [h]; cases yt <;> rfl
    · rw [h]; cases yp <;> rfl
    · rw [ep, et]
      cases l <;> simp only [lossRank] at h <;> simp only [lossValid, h, if_false]

theorem lossValid_never_panic (H : Heap α) (l : Loss) (yp yt : Option Nat) : lossValid H l yp yt ≠ .panic := by
  cases yp with
  | none => intro hh; cases hh
  | some p =>
    cases yt with
    | none => intro hh; cases hh
    | some t =>
      cases l <;> exact ite_ne (by intro hh; cases hh) (by intro hh; cases hh)

/-- **initializer constructors** (`NewFull` … `NewXavierNormal`): `ok` or `err`, never a panic -/
theorem initFamily_never_panic (k : InitKind α) : initFamily k ≠ .panic := by
  cases k with
  | full v => intro hh; cases hh
  | uniform c => simp only [initFamily]; split <;> (intro hh; cases hh)
  | normal c => simp only [initFamily]; split <;> (intro hh; cases hh)
  | heUniform c =>
    cases c with
    | none => intro hh; cases hh
    | some fi => simp only [initFamily]; split <;> (intro hh; cases hh)
  | heNormal c =>
    cases c with
    | none => intro hh; cases hh
    | some fi => simp only [initFamily]; split <;> (intro hh; cases hh)
  | xavierUniform c =>
    cases c with
    | none => intro hh; cases hh
    | some p => obtain ⟨fi, fo⟩ := p; simp only [initFamily]; split <;> (intro hh; cases hh)
  | xavierNormal c =>
    cases c with
    | none => intro hh; cases hh
    | some p => obtain ⟨fi, fo⟩ := p; simp only [initFamily]; split <;> (intro hh; cases hh)

/-- invalid initializer configurations are errors: missing (nil) He / Xavier config, non-positive fan-in / fan-out,
    empty uniform interval, non-positive standard deviation -/
theorem initFamily_errors :
    initFamily (α := α) (.heUniform none) = .err ∧ initFamily (α := α) (.heNormal none) = .err ∧
    initFamily (α := α) (.xavierUniform none) = .err ∧ initFamily (α := α) (.xavierNormal none) = .err ∧
    (∀ fi : Int, fi ≤ 0 → initFamily (α := α) (.heUniform (some fi)) = .err ∧ initFamily (α := α) (.heNormal (some fi)) = .err) ∧
    (∀ fi fo : Int, fi ≤ 0 ∨ fo ≤ 0 →
      initFamily (α := α) (.xavierUniform (some (fi, fo))) = .err ∧ initFamily (α := α) (.xavierNormal (some (fi, fo))) = .err) ∧
    (∀ lo hi : α, Scalar.lt lo hi = false → initFamily (.uniform (some (lo, hi))) = .err) ∧
    (∀ mu s : α, Scalar.gt s Scalar.zero = false → initFamily (.normal (some (mu, s))) = .err) := by
  refine ⟨rfl, rfl, rfl, rfl, ?_, ?_, ?_, ?_⟩
  · intro fi h
    constructor <;> simp only [initFamily, h, if_true]
  · intro fi fo h
    constructor <;> simp only [initFamily, h, if_true]
  · intro lo hi h
    simp [initFamily, h]
  · intro mu s h
    simp [initFamily, h]

/-- **`tensor.Full / RandU / RandN`** with their own parameter validation: whatever the raw draws, never a panic;
    invalid dims are an error -/
theorem vRandom_never_panic (f : Family α) (dims : List Int) (us zs : List α) :
    vRandom f dims us zs ≠ some .panic := by
  have key : ∀ (c1 c2 : Prop) (i1 : Decidable c1) (i2 : Decidable c2) (o : Option (List α)),
      (@ite _ c1 i1 (some (Out.err : Out (Tensor α))) (@ite _ c2 i2 (some .err)
        (o.map (fun d => .ok ⟨natDims dims, d⟩)))) ≠ some .panic := by
    intro c1 c2 _ _ o
    refine ite_ne (by intro hh; cases hh) (ite_ne (by intro hh; cases hh) ?_)
    cases o with
    | none => intro hh; cases hh
    | some d => intro hh; cases hh
  cases f <;> (unfold vRandom; exact key _ _ _ _ _)

/-- invalid dims make `Full / RandU / RandN` return an error (given valid distribution parameters; invalid
    parameters are an error too) -/
theorem vRandom_err (f : Family α) (dims : List Int) (us zs : List α) (h : validInputDims dims = false) :
    vRandom f dims us zs = some .err := by
  have key : ∀ (c1 : Prop) (i1 : Decidable c1) (o : Option (Out (Tensor α))),
      (@ite _ c1 i1 (some (Out.err : Out (Tensor α))) (if (!validInputDims dims) = true then some .err else o)) = some .err := by
    intro c1 _ o
    rw [h]
    split
    · rfl
    · rfl
  cases f <;> (unfold vRandom; exact key _ _ _)

/-! ### rejected inputs make the component calls return `err` -/

/-- every activation's `Forward`: a wrong number of inputs or a nil input is an error -/
theorem actForward_err (a : Activation α) (xs : List (Option Nat)) (H : Heap α) (h : oneInput xs = .err) :
    actForward a xs H = .err := by
  unfold actForward
  rw [hm_bind, h]
  rfl

/-- `Softmax.Forward`: an input whose rank does not exceed `Dim` is an error -/
theorem softmaxForward_rank_err (dim : Nat) (x : Nat) (H : Heap α) (h : (H.val x).dims.length ≤ dim) :
    actForward (.softmax dim : Activation α) [some x] H = .err := by
  unfold actForward
  have e : (liftOut (oneInput [some x]) : HM α Nat) H = .ok (x, H) := rfl
  rw [bind_run e]
  simp only []
  have g : (getHeap : HM α (Heap α)) H = .ok (H, H) := rfl
  rw [bind_run g]
  simp only [h, if_true]
  rfl

/-- `FC.Forward`: a wrong number of inputs, a nil input or an input that is not `[batch, data]` is an error -/
theorem fcForward_err (c : FC) (xs : List (Option Nat)) (H : Heap α) :
    (oneInput xs = .err → fcForward c xs H = .err) ∧
    (∀ x, xs = [some x] → (H.val x).dims.length ≠ 2 → fcForward c xs H = .err) := by
  constructor
  · intro h
    unfold fcForward
    rw [hm_bind, h]
    rfl
  · intro x e h
    rw [e]
    unfold fcForward
    have e1 : (liftOut (oneInput [some x]) : HM α Nat) H = .ok (x, H) := rfl
    rw [bind_run e1]
    have g : (getHeap : HM α (Heap α)) H = .ok (H, H) := rfl
    rw [bind_run g]
    simp only [h, ne_eq, not_false_eq_true, if_true]
    rfl

/-- The one modelled panic of the component layer (NOT an instance of C09 holding): an `FC` whose exported `Weight`
    field was set to nil by the caller makes `Forward` on a valid input panic (`c.Weight.UnSqueeze(1)` on a nil
    interface) — the input validator does not look at the layer's own fields. A nil `Bias`, by contrast, is an error
    (`Add` rejects a nil operand). -/
theorem fcForward_nil_weight_panics (b : Option Nat) (x : Nat) (H : Heap α) (h : (H.val x).dims.length = 2) :
    fcForward (α := α) ⟨none, b⟩ [some x] H = .panic := by
  unfold fcForward
  have e1 : (liftOut (oneInput [some x]) : HM α Nat) H = .ok (x, H) := rfl
  rw [bind_run e1]
  have g : (getHeap : HM α (Heap α)) H = .ok (H, H) := rfl
  rw [bind_run g]
  simp only [h, ne_eq, not_true_eq_false, if_false]
  rfl

/-- the three losses' `Compute`: rejected inputs (nil, wrong rank, unequal shapes) are an error -/
theorem lossCompute_err (l : Loss) (yp yt : Option Nat) (H : Heap α) (h : lossValid H l yp yt = .err) :
    lossCompute l yp yt H = .err := by
  unfold lossCompute
  have g : (getHeap : HM α (Heap α)) H = .ok (H, H) := rfl
  rw [bind_run g, hm_bind, h]
  rfl

/-- `Accuracy.Accumulate`: nil operands, operands that are not rank 1 or of unequal shape are an error -/
theorem accAccumulate_err (c : Accuracy) (yp yt : Option Nat) (H : Heap α) :
    (yp = none ∨ yt = none → accAccumulate c yp yt H = .err) ∧
    (∀ p t, yp = some p → yt = some t →
      ¬ ((H.val p).dims.length = 1 ∧ (H.val t).dims.length = 1 ∧ (H.val p).dims = (H.val t).dims) →
      accAccumulate c yp yt H = .err) := by
  have g : (getHeap : HM α (Heap α)) H = .ok (H, H) := rfl
  constructor
  · intro h
    unfold accAccumulate
    rw [bind_run g]
    rcases h with h | h
    · rw [h]; rfl
    · rw [h]; cases yp <;> rfl
  · intro p t ep et h
    rw [ep, et]
    unfold accAccumulate
    rw [bind_run g]
    simp only [h, if_false]
    rfl

/-- non-vacuity (kernel-checked on `Int`): configuration and input validators on concrete data -/
example : softmaxOf (α := Int) (some (-1)) = .err := softmaxOf_total.2.2 (-1) (by decide)

example : oneInput [] = .err ∧ oneInput [none] = .err ∧
    oneInput [some 0, some 1] = .err ∧ oneInput [some 3] = .ok 3 ∧
    lossValid (#[⟨⟨[2], [1, 2]⟩, {}⟩, ⟨⟨[3], [1, 2, 3]⟩, {}⟩] : Heap Int) .mse (some 0) (some 1) = .err ∧
    lossValid (#[⟨⟨[2], [1, 2]⟩, {}⟩, ⟨⟨[3], [1, 2, 3]⟩, {}⟩] : Heap Int) .mse (some 0) (some 0) = .ok (0, 0) ∧
    lossValid (#[⟨⟨[2], [1, 2]⟩, {}⟩, ⟨⟨[3], [1, 2, 3]⟩, {}⟩] : Heap Int) .ce (some 0) (some 0) = .err ∧
    lossValid (#[⟨⟨[2], [1, 2]⟩, {}⟩] : Heap Int) .bce (some 0) none = .err := by
  decide

end Components

end C09
end Qeep
