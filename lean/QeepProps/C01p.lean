import QeepProps.C01w
/-!
# C01 / C02 — progress: when every rule on the walk succeeds on well-shaped input, `BackPropagate` succeeds

`walk_progress` (generic): let `P n g` be any per-tensor invariant of gradient values ("has the shape of tensor `n`") that
accumulation preserves and under which it succeeds; if every back edge visited by the walk has a rule that, applied to a
`P`-gradient of its source, succeeds with a `P`-gradient of its target, then the walk ends with status `ok` and every
stored gradient satisfies `P`. The order facts used: every visited tensor other than the root has a visited consumer
that comes EARLIER in the order (DFS reverse post-order is topological), so its gradient exists when its own edges are
processed — the `panic` branch of the model (`y.Gradient()` nil) is unreachable.

`backprop_ok`: the instance for the model's `backprop`.
-/
set_option linter.unusedSimpArgs false
set_option linter.unusedSectionVars false
set_option linter.unusedVariables false

namespace Qeep
namespace C01p
open C01 C01x C01z C01w C20

section generic
variable {D R : Type} (add : D → D → Out D) (pull : R → D → Out D) (tracked : Nat → Bool)

/-- state invariant of the walk -/
structure Good (V : Nat → Prop) (P : Nat → D → Prop) (s : BPSt D) : Prop where
  ok : s.status = .ok ()
  p : ∀ n, V n → ∀ g, s.grads n = some g → P n g

theorem accumG_good (V : Nat → Prop) (P : Nat → D → Prop)
    (hadd : ∀ n a b, P n a → P n b → ∃ s, add a b = .ok s ∧ P n s)
    (G : Nat → Option D) (hG : ∀ n, V n → ∀ g, G n = some g → P n g) (v : Nat) (hv' : V v) (g : D) (hg : P v g) :
    ∃ G', accumG add G v g = .ok G' ∧ (∀ n, V n → ∀ x, G' n = some x → P n x) ∧ G' v ≠ none ∧ (∀ n, n ≠ v → G' n = G n) := by
  unfold accumG
  cases hv : G v with
  | none =>
    refine ⟨updStore G v g, rfl, ?_, by simp [updStore], fun n hn => by simp [updStore, hn]⟩
    intro n hVn x hx
    unfold updStore at hx
    by_cases hn : n = v
    · subst hn; simp at hx; subst hx; exact hg
    · simp [hn] at hx; exact hG n hVn x hx
  | some old =>
    obtain ⟨s, hs, ps⟩ := hadd v old g (hG v hv' old hv) hg
    refine ⟨updStore G v s, by simp [hs, Out.bind], ?_, by simp [updStore], fun n hn => by simp [updStore, hn]⟩
    intro n hVn x hx
    unfold updStore at hx
    by_cases hn : n = v
    · subst hn; simp at hx; subst hx; exact ps
    · simp [hn] at hx; exact hG n hVn x hx

/-- the edges of one visited tensor `u` -/
theorem inner_progress (V : Nat → Prop) (P : Nat → D → Prop)
    (hadd : ∀ n a b, P n a → P n b → ∃ s, add a b = .ok s ∧ P n s) (u : Nat) (hVu : V u) :
    ∀ (es : List (Nat × R)) (s : BPSt D), Good V P s → s.grads u ≠ none → (∀ e ∈ es, e.1 ≠ u) →
      (∀ e ∈ es, tracked e.1 = true → V e.1) →
      (∀ e ∈ es, tracked e.1 = true → ∀ gy, P u gy → ∃ g, pull e.2 gy = .ok g ∧ P e.1 g) →
      Good V P (es.foldl (stepEdge add pull tracked u) s) ∧
      (∀ n, s.grads n ≠ none → (es.foldl (stepEdge add pull tracked u) s).grads n ≠ none) ∧
      (∀ e ∈ es, tracked e.1 = true → (es.foldl (stepEdge add pull tracked u) s).grads e.1 ≠ none) := by
  intro es
  induction es with
  | nil => intro s hs _ _ _ _; exact ⟨hs, fun n h => h, fun e he => by simp at he⟩
  | cons e es ih =>
    intro s hs hu hne hV hp
    simp only [List.foldl_cons]
    -- one step
    have step : Good V P (stepEdge add pull tracked u s e) ∧
        (∀ n, s.grads n ≠ none → (stepEdge add pull tracked u s e).grads n ≠ none) ∧
        (tracked e.1 = true → (stepEdge add pull tracked u s e).grads e.1 ≠ none) := by
      unfold stepEdge
      rw [hs.ok]
      simp only []
      cases ht : tracked e.1 with
      | false => simp only [Bool.false_eq_true, if_false]; exact ⟨hs, fun n h => h, fun h => by cases h⟩
      | true =>
        simp only [if_true]
        cases hgu : s.grads u with
        | none => exact absurd hgu hu
        | some gy =>
          simp only []
          obtain ⟨g, hpg, pg⟩ := hp e (by simp) ht gy (hs.p u hVu gy hgu)
          rw [hpg]
          simp only []
          obtain ⟨G', hG', pG', hv, hoth⟩ := accumG_good add V P hadd s.grads hs.p e.1 (hV e (by simp) ht) g pg
          rw [hG']
          simp only []
          refine ⟨⟨rfl, pG'⟩, ?_, fun _ => hv⟩
          intro n hn
          by_cases hne' : n = e.1
          · subst hne'; exact hv
          · rw [hoth n hne']; exact hn
    obtain ⟨g1, m1, t1⟩ := step
    have hu' : (stepEdge add pull tracked u s e).grads u ≠ none := m1 u hu
    obtain ⟨g2, m2, t2⟩ := ih (stepEdge add pull tracked u s e) g1 hu'
      (fun e' he' => hne e' (List.mem_cons_of_mem _ he')) (fun e' he' => hV e' (List.mem_cons_of_mem _ he'))
      (fun e' he' => hp e' (List.mem_cons_of_mem _ he'))
    refine ⟨g2, fun n hn => m2 n (m1 n hn), ?_⟩
    intro e' he' ht'
    rcases List.mem_cons.mp he' with rfl | h
    · exact m2 _ (t1 ht')
    · exact t2 e' h ht'

/-- **progress of the walk** (see the header): `pre` are the tensors already processed, `rest` those still to come -/
theorem walk_progress (V : Nat → Prop) (P : Nat → D → Prop) (edges : Nat → List (Nat × R)) (root : Nat)
    (hadd : ∀ n a b, P n a → P n b → ∃ s, add a b = .ok s ∧ P n s)
    (hself : ∀ u, ∀ e ∈ edges u, e.1 ≠ u)
    (hclosed : ∀ u, V u → ∀ e ∈ edges u, tracked e.1 = true → V e.1) :
    ∀ (rest pre : List Nat) (s : BPSt D), (∀ u ∈ rest, V u) → Good V P s → s.grads root ≠ none →
      (∀ w ∈ pre, ∀ e ∈ edges w, tracked e.1 = true → s.grads e.1 ≠ none) →
      (∀ (a b : List Nat) (u : Nat), rest = a ++ u :: b → u = root ∨ ∃ w ∈ pre ++ a, ∃ e ∈ edges w, e.1 = u ∧ tracked u = true) →
      (∀ u ∈ rest, ∀ e ∈ edges u, tracked e.1 = true → ∀ gy, P u gy → ∃ g, pull e.2 gy = .ok g ∧ P e.1 g) →
      Good V P (runBP add pull tracked edges rest s) := by
  intro rest
  induction rest with
  | nil => intro pre s _ hs _ _ _ _; exact hs
  | cons u rest ih =>
    intro pre s hVr hs hroot hpre hearlier hp
    unfold runBP
    simp only [List.foldl_cons]
    -- u has a gradient
    have hu : s.grads u ≠ none := by
      rcases hearlier [] rest u rfl with rfl | ⟨w, hw, e, he, het, htu⟩
      · exact hroot
      · simp only [List.append_nil] at hw
        have := hpre w hw e he (by rw [het]; exact htu)
        rw [het] at this; exact this
    obtain ⟨g1, m1, t1⟩ := inner_progress add pull tracked V P hadd u (hVr u (by simp)) (edges u) s hs hu (hself u)
      (hclosed u (hVr u (by simp))) (hp u (by simp))
    have := ih (pre ++ [u]) ((edges u).foldl (stepEdge add pull tracked u) s) (fun v hv => hVr v (List.mem_cons_of_mem _ hv)) g1 (m1 root hroot)
      (by
        intro w hw e he ht
        rcases List.mem_append.mp hw with h | h
        · exact m1 _ (hpre w h e he ht)
        · simp at h; subst h; exact t1 e he ht)
      (by
        intro a b v hab
        have := hearlier (u :: a) b v (by rw [hab]; rfl)
        rcases this with h | ⟨w, hw, rest'⟩
        · left; exact h
        · right
          refine ⟨w, ?_, rest'⟩
          simp only [List.append_assoc, List.singleton_append]
          exact hw)
      (fun v hv => hp v (List.mem_cons_of_mem _ hv))
    exact this

end generic

/-- in a topologically ordered list every member other than the head has its visited predecessors before it -/
theorem topo_split {S : Nat → List Nat} : ∀ {l : List Nat}, TopoS S l → ∀ (a b : List Nat) (u : Nat), l = a ++ u :: b →
    ∀ w ∈ b, u ∉ S w := by
  intro l h
  induction h with
  | nil => intro a b u hab; cases a <;> simp at hab
  | @cons m rest hback hnot ht ih =>
    intro a b u hab w hw
    cases a with
    | nil =>
      simp only [List.nil_append, List.cons.injEq] at hab
      obtain ⟨rfl, rfl⟩ := hab
      exact hback w hw
    | cons x a =>
      simp only [List.cons_append, List.cons.injEq] at hab
      exact ih a b u hab.2 w hw

variable {α : Type} [Scalar α]

theorem mem_succs_edge' (H : Heap α) (u v : Nat) (h : v ∈ succs H u) : ∃ e ∈ (H.ctx u).edges, e.target = v := by
  unfold succs at h
  obtain ⟨hm, _⟩ := List.mem_filter.mp h
  obtain ⟨e, he, rfl⟩ := List.mem_map.mp hm
  exact ⟨e, he, rfl⟩

/-- **`BackPropagate` succeeds** when every visited rule succeeds on `P`-gradients (see the header) -/
theorem backprop_ok (bm : BMode) (H : Heap α) (root : Nat) (hdag : HeapDag H) (htr : H.tracked root = true)
    (P : Nat → Tensor α → Prop)
    (hadd : ∀ n a b, P n a → P n b → ∃ s, vArith .add a b = .ok s ∧ P n s)
    (hold : ∀ n ∈ backwardOrder H root, ∀ g, H.grad n = some g → P n g)
    (hones : P root (vPow (H.val root) Scalar.zero))
    (hp : ∀ u ∈ backwardOrder H root, ∀ e ∈ (H.ctx u).edges, H.tracked e.target = true → ∀ gy, P u gy →
        ∃ g, evalRule bm (markDirty H (backwardOrder H root)) gy e.rule = .ok g ∧ P e.target g) :
    (backprop bm H root).status = .ok () := by
  have hnt : (!H.tracked root) = false := by simp [htr]
  have hG0 : (fun n => (markDirty H (backwardOrder H root)).grad n) = (fun n => H.grad n) := by
    funext n; exact (markDirty_fields H _ n).2.2
  have hval : (markDirty H (backwardOrder H root)).val root = H.val root := markDirty_val _ _ _
  have htrk : (markDirty H (backwardOrder H root)).tracked = H.tracked := by
    funext n; exact (markDirty_fields H _ n).1
  obtain ⟨hroot, hcl, htopo, hnd⟩ := backwardOrder_spec H root hdag htr
  unfold backprop
  simp only [hnt, Bool.false_eq_true, if_false]
  rw [hG0, hval, htrk, edgesOf_markDirty]
  obtain ⟨G1, hG1, pG1, hr1, _⟩ := C01p.accumG_good (vArith .add) (fun n => n ∈ backwardOrder H root) P hadd
    (fun n => H.grad n) hold root hroot _ hones
  rw [hG1]
  simp only []
  have key := walk_progress (vArith .add) (fun r gy => evalRule bm (markDirty H (backwardOrder H root)) gy r) H.tracked
    (fun n => n ∈ backwardOrder H root) P (edgesOf H) root hadd
    (by
      intro u e he
      unfold edgesOf at he
      obtain ⟨e0, he0, rfl⟩ := List.mem_map.mp he
      have := hdag u e0 he0
      simp only; omega)
    (by
      intro u hu e he ht
      unfold edgesOf at he
      obtain ⟨e0, he0, rfl⟩ := List.mem_map.mp he
      apply hcl u hu
      unfold succs
      exact List.mem_filter.mpr ⟨List.mem_map.mpr ⟨e0, he0, rfl⟩, ht⟩)
    (backwardOrder H root) [] { grads := G1 } (fun u hu => hu) ⟨rfl, pG1⟩ hr1 (by intro w hw; simp at hw)
    (by
      intro a b u hab
      have hu : u ∈ backwardOrder H root := by rw [hab]; simp
      rcases order_members_tracked H root hdag u hu with rfl | ⟨w, hw, hsu⟩
      · left; rfl
      · right
        -- w is visited and u ∈ succs w; by topological order w is not after u, and it is not u itself
        have hwu : w ≠ u := fun e => by
          subst e
          exact absurd (succs_lt H hdag w w hsu) (Nat.lt_irrefl _)
        have hnb : w ∉ b := fun hb => topo_split htopo a b u hab w hb hsu
        have hwa : w ∈ a := by
          rw [hab] at hw
          rcases List.mem_append.mp hw with h | h
          · exact h
          · rcases List.mem_cons.mp h with h | h
            · exact absurd h hwu
            · exact absurd h hnb
        obtain ⟨e, he, het⟩ := mem_succs_edge' H w u hsu
        have htu : H.tracked u = true := by unfold succs at hsu; exact (List.mem_filter.mp hsu).2
        exact ⟨w, by simpa using hwa, (e.target, e.rule), by unfold edgesOf; exact List.mem_map.mpr ⟨e, he, rfl⟩, het, htu⟩)
    (by
      intro u hu e he ht gy hgy
      unfold edgesOf at he
      obtain ⟨e0, he0, rfl⟩ := List.mem_map.mp he
      exact hp u hu e0 he0 ht gy hgy)
  exact key.ok

end C01p
end Qeep
