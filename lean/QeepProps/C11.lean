import QeepProps.C07
import QeepProps.C17
/-!
# C11 — a training loop follows the gradient-descent trajectory of its loss (state-machine half)

Proved (generic scalar): what one optimisation step does to the tracking state machine, for every weight shape:

* `sgd_result_is_spent` — the tensor `Update` stores behind the pointer is spent, untracked, has no gradient and no back
  edges (nothing of the finished step's graph is reachable from it);
* `missing_reset_is_reported` — so, if `ResetGradContext(true)` is omitted, the next `Update` of that weight returns an
  error and replaces nothing (and a forward pass from it is untracked: `C08.op1_tracked_iff`, so back-propagation from
  the next loss changes nothing: `C08.bp_untracked_root_noop`);
* `reset_makes_fresh_leaf` — after `ResetGradContext(true)` it is a fresh tracked leaf with the same value;
* the numeric step itself is `C17.sgd_update` (`w − lr·g` element-wise, same shape).

Not proved: that the composition forward ∘ loss ∘ back-propagation ∘ update follows `w ← w − lr·∇L(w)` for the FC models
(needs the FC forward formula and the loss/activation gradient theorems for all components); covered by the
correspondence run on multi-step training programs.
-/
set_option linter.unusedSimpArgs false

namespace Qeep
namespace C11

variable {α : Type} [Scalar α]

theorem mkCtx_dirty_of_mem (H : Heap α) (ops : List Nat) (edges : List (Edge α)) (n : Nat) (hn : n ∈ ops)
    (hd : H.dirty n = true) : mkCtx H ops edges = dirtyCtx := by
  unfold mkCtx
  have : ops.any H.dirty = true := List.any_eq_true.mpr ⟨n, hn, hd⟩
  rw [if_pos this]

/-- **the replacement weight is spent**: untracked, no gradient, no back edges -/
theorem sgd_result_is_spent (lr : α) (H H' : Heap α) (w r : Nat) (hw : w < H.size)
    (h : sgdUpdate lr (some w) H = .ok (r, H')) : H'.ctx r = dirtyCtx := by
  unfold sgdUpdate at h
  simp only [] at h
  obtain ⟨g, H1, h1, h2⟩ := bind_ok h
  cases g with
  | none => obtain ⟨e, _⟩ := liftOut_ok h2; cases e
  | some k =>
    simp only [] at h2
    -- k = w.Gradient(): a spent node
    have hk : H1.ctx k = dirtyCtx ∧ Extends H H1 ∧ k < H1.size := by
      unfold hGradNode at h1
      obtain ⟨H0, H0', g0, k1⟩ := bind_ok h1
      obtain ⟨e0, e0'⟩ := getHeap_ok g0
      rw [e0, e0'] at k1
      cases hg : H.grad w with
      | none => rw [hg] at k1; cases k1
      | some t =>
        rw [hg] at k1
        simp only [] at k1
        obtain ⟨k', Hk, ga, k2⟩ := bind_ok k1
        have hp : (pure (some k') : HM α (Option Nat)) Hk = .ok (some k', Hk) := rfl
        rw [hp] at k2
        injection k2 with k2
        injection k2 with e1 e2
        injection e1 with e1
        subst e1 e2
        obtain ⟨_, _, c, x⟩ := alloc_ok ga
        exact ⟨c, x, by have := alloc_grows ga; obtain ⟨a, _, _, _⟩ := alloc_ok ga; omega⟩
    obtain ⟨dl, H2, h3, h4⟩ := bind_ok h2
    -- delta = g.Scale(lr) is spent
    have hdl : H2.ctx dl = dirtyCtx ∧ Extends H1 H2 ∧ dl < H2.size := by
      unfold hScale at h3
      obtain ⟨Hx, Hx', gx, kx⟩ := bind_ok h3
      obtain ⟨ex, ex'⟩ := getHeap_ok gx
      rw [ex, ex'] at kx
      obtain ⟨_, ec, ee⟩ := C08.op1_ctx k _ _ H1 H2 dl kx
      refine ⟨?_, ee, hOp1_size kx⟩
      rw [ec]
      exact mkCtx_dirty_of_mem H1 [k] _ k (by simp) (by simp [Heap.dirty, hk.1, dirtyCtx])
    -- w.Sub(delta): the broadcast of delta is spent, hence the result
    obtain ⟨a', b', Ha, Hb, shape, ga, gb, ca, cb, edges, cr, _⟩ := C07.arith_routes_through_broadcast .sub w dl H2 H' r h4
    have xa : Extends H2 Ha := frame_hBroadcast _ _ H2 a' Ha ga
    have hdd : Ha.dirty dl = true := by
      simp [Heap.dirty, xa.ctx hdl.2.2, hdl.1, dirtyCtx]
    have hb' : Hb.ctx b' = dirtyCtx := by rw [cb]; exact mkCtx_dirty_of_mem Ha [dl] _ dl (by simp) hdd
    rw [cr]
    exact mkCtx_dirty_of_mem Hb [a', b'] _ b' (by simp) (by simp [Heap.dirty, hb', dirtyCtx])

/-- **omitting the reset is reported**: the next `Update` of the replaced weight fails (it has no gradient) -/
theorem missing_reset_is_reported (lr lr' : α) (H H' : Heap α) (w r : Nat) (hw : w < H.size)
    (h : sgdUpdate lr (some w) H = .ok (r, H')) : sgdUpdate lr' (some r) H' = .err := by
  have := sgd_result_is_spent lr H H' w r hw h
  exact (C17.sgd_errors lr' H').2 r (by simp [Heap.grad, this, dirtyCtx])

/-- **after `ResetGradContext(true)`** the replaced weight is a fresh tracked leaf with the same value -/
theorem reset_makes_fresh_leaf (H' : Heap α) (r : Nat) (hr : r < H'.size) :
    (resetCtx H' r true).ctx r = { tracked := true, dirty := false, grad := none, edges := [] } ∧
    (resetCtx H' r true).val r = H'.val r :=
  ⟨(C08.reset_is_fresh_leaf H' r true hr).1, (C08.reset_is_fresh_leaf H' r true hr).2.2 r⟩

end C11
end Qeep
