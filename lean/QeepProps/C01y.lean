import QeepProps.C01
import QeepProps.C02
import QeepProofs.Run
import Mathlib.Analysis.Calculus.Deriv.Comp
/-!
# C01y — end-to-end: back-propagation through an element-wise chain of any length leaves the derivative

A fully discharged instance of C01 (no abstract adjointness / vector-Jacobian hypotheses): for every heap, every fresh
tracked leaf `x` of any (well-formed) shape and every list `os` of total smooth element-wise operations
(`exp | sin | cos | sinh | cosh | tanh | scale a`), of any length including 0,

* running the operations one after the other (`chain os x`) succeeds, the result holds `compF os` of every element;
* `BackPropagate` from the result succeeds (both `BMode`s: no Broadcast rule occurs);
* the gradient it leaves on `x` is, element by element, `compF' os x_i`, where `compF' os` IS the derivative of the composed
  function `compF os` (`compF_hasDerivAt`, Mathlib `HasDerivAt.comp`) — which is the partial derivative with respect to
  `x_i` of the sum of the result's elements (`sum_hasDerivAt`, `chain_backprop_total_derivative`), the operations being
  element-wise.

Route: the walk is computed, not assumed — `backwardOrder` on the path graph is the path (`visit_chain`), the edge
sequence is the path's edges root-first (`allPairs_chain`), and the fold over them (`fold_chain`) multiplies the
upstream gradient by the rule factor of each operation (`rule_op`, from the C02 rule theorems).
-/
set_option linter.unusedSimpArgs false
set_option linter.unusedSectionVars false
set_option linter.unusedVariables false

namespace Qeep
namespace C01y
open RealScalar

/-! ## The operations, the composed function and its derivative -/

/-- total smooth element-wise operations (defined on all of ℝ: no domain side conditions) -/
inductive Op where
  | exp | sin | cos | sinh | cosh | tanh
  | scale (a : ℝ)

/-- the scalar function an operation applies to every element -/
noncomputable def Op.f : Op → ℝ → ℝ
  | .exp => Real.exp
  | .sin => Real.sin
  | .cos => Real.cos
  | .sinh => Real.sinh
  | .cosh => Real.cosh
  | .tanh => Real.tanh
  | .scale a => fun t => a * t

/-- its derivative, in the form the backward rule computes it -/
noncomputable def Op.f' : Op → ℝ → ℝ
  | .exp => Real.exp
  | .sin => Real.cos
  | .cos => fun t => -1 * Real.sin t
  | .sinh => Real.cosh
  | .cosh => Real.sinh
  | .tanh => fun t => (Real.cosh t) ^ (-2 : ℝ)
  | .scale a => fun _ => a

theorem Op.hasDerivAt (o : Op) (a : ℝ) : HasDerivAt o.f (o.f' a) a := by
  cases o with
  | exp => exact d_exp a
  | sin => exact d_sin a
  | cos => exact d_cos a
  | sinh => exact d_sinh a
  | cosh => exact d_cosh a
  | tanh => exact d_tanh a
  | scale c => simpa [Op.f, Op.f'] using (hasDerivAt_id a).const_mul c

/-- the public operation of the Model -/
noncomputable def Op.run (o : Op) (x : Nat) : HM ℝ Nat :=
  match o with
  | .exp => hUnary .exp x
  | .sin => hUnary .sin x
  | .cos => hUnary .cos x
  | .sinh => hUnary .sinh x
  | .cosh => hUnary .cosh x
  | .tanh => hUnary .tanh x
  | .scale a => hScale x a

/-- the backward rule the operation attaches to its result `y` (operand `x`) -/
noncomputable def Op.rule (o : Op) (x y : Nat) : Rule ℝ :=
  match o with
  | .exp => .expX y
  | .sin => .sinX x
  | .cos => .cosX x
  | .sinh => .sinhX x
  | .cosh => .coshX x
  | .tanh => .tanhX x
  | .scale a => .scaleX a

/-- apply the operations one after the other, starting from node `x` -/
noncomputable def chain : List Op → Nat → HM ℝ Nat
  | [], x => pure x
  | o :: os, x => o.run x >>= chain os

/-- the composed scalar function (first operation of the list applied first) -/
noncomputable def compF : List Op → ℝ → ℝ
  | [], a => a
  | o :: os, a => compF os (o.f a)

/-- its derivative by the chain rule -/
noncomputable def compF' : List Op → ℝ → ℝ
  | [], _ => 1
  | o :: os, a => compF' os (o.f a) * o.f' a

/-- **`compF'` is the derivative of `compF`** (Mathlib's chain rule) -/
theorem compF_hasDerivAt (os : List Op) (a : ℝ) : HasDerivAt (compF os) (compF' os a) a := by
  induction os generalizing a with
  | nil => exact hasDerivAt_id a
  | cons o os ih =>
    have h := HasDerivAt.comp a (ih (o.f a)) (o.hasDerivAt a)
    exact h

/-- element-wise operations: the derivative of the SUM of the outputs with respect to input `i` is the derivative of the
    composed function at `x_i` -/
theorem sum_hasDerivAt {n : ℕ} (os : List Op) (x : Fin n → ℝ) (i : Fin n) :
    HasDerivAt (fun t => ∑ k, compF os (Function.update x i t k)) (compF' os (x i)) (x i) := by
  have h := hasDerivAt_weighted_map (compF os) (compF' os) x (fun _ => 1) i (compF_hasDerivAt os (x i))
  simpa using h

/-! ## Forward run: the heap a chain builds -/

theorem run_eq (o : Op) (x : Nat) (H : Heap ℝ) :
    o.run x H = .ok (H.size, H.push ⟨(H.val x).map o.f, mkCtx H [x] [⟨x, o.rule x H.size⟩]⟩) := by
  cases o <;> rfl

theorem mkCtx_live (H : Heap ℝ) (x : Nat) (es : List (Edge ℝ)) (ht : H.tracked x = true) (hd : H.dirty x = false) :
    mkCtx H [x] es = { tracked := true, edges := es } := by
  unfold mkCtx
  simp [ht, hd]

/-- the result node of `chain os x` run on a heap of size `N` -/
def top : Nat → Nat → List Op → Nat
  | _, x, [] => x
  | N, _, _ :: os => top (N + 1) N os

/-- `H'` contains, from index `N` on, the nodes of the chain `os` started at `x`: node `N` is the first result … -/
def IsChain (H' : Heap ℝ) : Nat → Nat → List Op → Prop
  | _, _, [] => True
  | N, x, o :: os =>
      H'.ctx N = { tracked := true, edges := [⟨x, o.rule x N⟩] } ∧ H'.val N = (H'.val x).map o.f ∧ IsChain H' (N + 1) N os

theorem chain_spec (os : List Op) : ∀ (x : Nat) (H : Heap ℝ), x < H.size → H.tracked x = true → H.dirty x = false →
    ∃ H', chain os x H = .ok (top H.size x os, H') ∧ Extends H H' ∧ H'.size = H.size + os.length ∧ IsChain H' H.size x os := by
  induction os with
  | nil => intro x H _ _ _; exact ⟨H, rfl, Extends.refl _, rfl, trivial⟩
  | cons o os ih =>
    intro x H hx ht hd
    let H1 : Heap ℝ := H.push ⟨(H.val x).map o.f, mkCtx H [x] [⟨x, o.rule x H.size⟩]⟩
    have hsz : H1.size = H.size + 1 := by simp [H1]
    have hext : Extends H H1 := extends_push _ _
    have hctx1 : H1.ctx H.size = { tracked := true, edges := [⟨x, o.rule x H.size⟩] } := by
      rw [← mkCtx_live H x _ ht hd]; simp [H1, Heap.ctx]
    have hval1 : H1.val H.size = (H.val x).map o.f := push_val_new _ _
    obtain ⟨H', hrun, hext', hsz', hch⟩ := ih H.size H1 (by omega) (by simp [Heap.tracked, hctx1]) (by simp [Heap.dirty, hctx1])
    have hlt1 : H.size < H1.size := by omega
    refine ⟨H', ?_, hext.trans hext', by rw [hsz', hsz, List.length_cons]; omega, ?_, ?_, ?_⟩
    · show (o.run x >>= chain os) H = _
      rw [bind_run (run_eq o x H)]
      rw [hsz] at hrun
      exact hrun
    · rw [hext'.ctx hlt1, hctx1]
    · rw [hext'.val hlt1, hval1, (hext.trans hext').val hx]
    · rw [hsz] at hch; exact hch

/-- the value of the result: the composed function of every element of the start node -/
theorem chain_val (H' : Heap ℝ) (os : List Op) : ∀ (N x : Nat), IsChain H' N x os →
    H'.val (top N x os) = (H'.val x).map (compF os) := by
  induction os with
  | nil => intro N x _; simp [top, compF, Tensor.map]
  | cons o os ih =>
    intro N x h
    obtain ⟨_, hv, hc⟩ := h
    show H'.val (top (N + 1) N os) = _
    rw [ih (N + 1) N hc, hv]
    simp [Tensor.map, compF, List.map_map, Function.comp_def]

/-! ## The walk on a path graph, computed -/

/-- the new nodes of the chain, newest first (without the start node) -/
def chainUp : Nat → List Op → List Nat
  | _, [] => []
  | N, _ :: os => chainUp (N + 1) os ++ [N]

/-- the back edges of the chain, in the order the walk processes them: root first -/
noncomputable def chainPairs : Nat → Nat → List Op → List (Pair (Rule ℝ))
  | _, _, [] => []
  | N, x, o :: os => chainPairs (N + 1) N os ++ [(N, (x, o.rule x N))]

theorem top_ge (os : List Op) : ∀ (N x : Nat), x ≤ N → x ≤ top N x os := by
  induction os with
  | nil => intro N x _; exact Nat.le_refl _
  | cons o os ih => intro N x h; exact Nat.le_trans h (ih (N + 1) N (by omega))

theorem top_lt (os : List Op) : ∀ (N x : Nat), x < N → top N x os < N + os.length := by
  induction os with
  | nil => intro N x h; simpa [top] using h
  | cons o os ih =>
    intro N x h
    have := ih (N + 1) N (by omega)
    simp only [top, List.length_cons]; omega

theorem target_lt_top (os : List Op) : ∀ (N x : Nat), x < N → ∀ p ∈ chainPairs N x os, p.2.1 < top N x os := by
  induction os with
  | nil => intro N x _ p hp; simp [chainPairs] at hp
  | cons o os ih =>
    intro N x h p hp
    simp only [chainPairs, List.mem_append, List.mem_singleton] at hp
    rcases hp with hp | hp
    · exact ih (N + 1) N (by omega) p hp
    · rw [hp]
      have := top_ge os (N + 1) N (by omega)
      show x < top (N + 1) N os
      omega

theorem target_ge (os : List Op) : ∀ (N x : Nat), ∀ p ∈ chainPairs N x os, p.2.1 = x ∨ N ≤ p.2.1 := by
  induction os with
  | nil => intro N x p hp; simp [chainPairs] at hp
  | cons o os ih =>
    intro N x p hp
    simp only [chainPairs, List.mem_append, List.mem_singleton] at hp
    rcases hp with hp | hp
    · rcases ih (N + 1) N p hp with h | h
      · right; omega
      · right; omega
    · left; rw [hp]

/-- every edge target of the chain is tracked and has no gradient yet -/
theorem chain_targets (H' : Heap ℝ) (os : List Op) : ∀ (N x : Nat), IsChain H' N x os → H'.tracked x = true →
    H'.grad x = none → ∀ p ∈ chainPairs N x os, H'.tracked p.2.1 = true ∧ H'.grad p.2.1 = none := by
  induction os with
  | nil => intro N x _ _ _ p hp; simp [chainPairs] at hp
  | cons o os ih =>
    intro N x hc ht hg p hp
    obtain ⟨hctx, _, hrest⟩ := hc
    simp only [chainPairs, List.mem_append, List.mem_singleton] at hp
    rcases hp with hp | hp
    · exact ih (N + 1) N hrest (by simp [Heap.tracked, hctx]) (by simp [Heap.grad, hctx]) p hp
    · rw [hp]; exact ⟨ht, hg⟩

theorem succs_chain (H' : Heap ℝ) (N x : Nat) (r : Rule ℝ) (hctx : H'.ctx N = { tracked := true, edges := [⟨x, r⟩] })
    (ht : H'.tracked x = true) : succs H' N = [x] := by
  unfold succs; rw [hctx]; simp [ht]

/-- **the depth-first order on a path is the path**: from the result down to the start node, then whatever the
    start node's own visit gives -/
theorem visit_chain (H' : Heap ℝ) (os : List Op) : ∀ (N x f : Nat), IsChain H' N x os → H'.tracked x = true →
    visit (succs H') (os.length + f) (top N x os) [] = chainUp N os ++ visit (succs H') f x [] := by
  induction os with
  | nil => intro N x f _ _; simp [top, chainUp]
  | cons o os ih =>
    intro N x f hc ht
    obtain ⟨hctx, _, hrest⟩ := hc
    have htN : H'.tracked N = true := by simp [Heap.tracked, hctx]
    have hS := succs_chain H' N x _ hctx ht
    have e : (o :: os).length + f = os.length + (f + 1) := by simp only [List.length_cons]; omega
    rw [e]
    show visit (succs H') (os.length + (f + 1)) (top (N + 1) N os) [] = _
    rw [ih (N + 1) N (f + 1) hrest htN]
    have hv : visit (succs H') (f + 1) N [] = N :: visit (succs H') f x [] := by
      simp [visit, hS]
    rw [hv]
    simp [chainUp]

/-- the edge sequence of the path -/
theorem allPairs_chain (H' : Heap ℝ) (os : List Op) : ∀ (N x : Nat), IsChain H' N x os →
    allPairs (edgesOf H') (chainUp N os) = chainPairs N x os := by
  induction os with
  | nil => intro N x _; rfl
  | cons o os ih =>
    intro N x hc
    obtain ⟨hctx, _, hrest⟩ := hc
    have hE : edgesOf H' N = [(x, o.rule x N)] := by unfold edgesOf; rw [hctx]; rfl
    have := ih (N + 1) N hrest
    unfold allPairs at this ⊢
    simp only [chainUp, chainPairs, List.flatMap_append, this, List.flatMap_cons, List.flatMap_nil, hE,
      List.map_cons, List.map_nil, List.append_nil]

/-! ## Rule evaluation and the fold along the path -/

/-- **every operation's backward rule multiplies the upstream gradient by the derivative factor at the operand**
    (C02 rule theorems, uniformly over `Op`) -/
theorem rule_op (bm : BMode) (Hv : Heap ℝ) (o : Op) (x y : Nat) (gy : Tensor ℝ) (wg : gy.WF) (wx : (Hv.val x).WF)
    (hd : gy.dims = (Hv.val x).dims) (hy : Hv.val y = (Hv.val x).map o.f) :
    evalRule bm Hv gy (o.rule x y) = .ok ⟨gy.dims, List.zipWith (fun g a => g * o.f' a) gy.data (Hv.val x).data⟩ := by
  cases o with
  | exp => exact C02.rule_exp bm Hv gy x wg wx hd y hy
  | sin => exact C02.rule_sin bm Hv gy x wg wx hd
  | cos => exact C02.rule_cos bm Hv gy x wg wx hd
  | sinh => exact C02.rule_sinh bm Hv gy x wg wx hd
  | cosh => exact C02.rule_cosh bm Hv gy x wg wx hd
  | tanh => exact C02.rule_tanh bm Hv gy x wg wx hd
  | scale a =>
    show evalRule bm Hv gy (.scaleX a) = _
    rw [C02.rule_scale]
    have hl : gy.data.length = (Hv.val x).data.length := by rw [wg.1, wx.1, hd]
    congr 2
    apply List.ext_getElem
    · simp [hl]
    · intro i h1 h2; simp [Op.f', mul_comm]

/-- values along the chain (a function of the value map only, so it transfers across `markDirty`) -/
def ValChain (val : Nat → Tensor ℝ) : Nat → Nat → List Op → Prop
  | _, _, [] => True
  | N, x, o :: os => val N = (val x).map o.f ∧ ValChain val (N + 1) N os

theorem IsChain.vals {H' : Heap ℝ} : ∀ {os : List Op} {N x : Nat}, IsChain H' N x os → ValChain H'.val N x os
  | [], _, _, _ => trivial
  | _ :: _, _, _, h => ⟨h.2.1, IsChain.vals h.2.2⟩

theorem zip_step (F' f f' : ℝ → ℝ) : ∀ (gd xs : List ℝ),
    List.zipWith (fun g a => g * f' a) (List.zipWith (fun g b => g * F' b) gd (xs.map f)) xs
      = List.zipWith (fun g a => g * (F' (f a) * f' a)) gd xs
  | [], _ => by simp
  | _ :: _, [] => by simp
  | g :: gd, a :: xs => by simp [zip_step F' f f' gd xs, mul_assoc]

section generic
variable {D R : Type} (add : D → D → Out D) (pull : R → D → Out D) (trk : Nat → Bool)

/-- one step of the walk whose target is tracked and has no gradient yet: the pulled-back value is stored -/
theorem stepPair_fresh (s : BPSt D) (u v : Nat) (r : R) (gy g : D)
    (hs : s.status = .ok ()) (ht : trk v = true) (hg : s.grads u = some gy) (hp : pull r gy = .ok g)
    (hn : s.grads v = none) :
    (stepPair add pull trk s (u, (v, r))).status = .ok () ∧
    (stepPair add pull trk s (u, (v, r))).grads = updStore s.grads v g ∧
    (stepPair add pull trk s (u, (v, r))).calls = s.calls + 1 := by
  simp [stepPair, stepEdge, hs, ht, hg, hp, accumG, hn]
end generic

/-- **the walk along the path**: starting with gradient `gd` on the result and none below, the walk succeeds and
    leaves on the start node `gd_i · (compF os)'(x_i)` -/
theorem fold_chain (bm : BMode) (Hv : Heap ℝ) (trk : Nat → Bool) (os : List Op) :
    ∀ (N x : Nat) (gd : List ℝ) (s : BPSt (Tensor ℝ)),
      x < N → ValChain Hv.val N x os → (Hv.val x).WF → gd.length = (Hv.val x).data.length →
      (∀ p ∈ chainPairs N x os, trk p.2.1 = true) →
      (∀ p ∈ chainPairs N x os, s.grads p.2.1 = none) →
      s.status = .ok () → s.grads (top N x os) = some ⟨(Hv.val x).dims, gd⟩ →
      ((chainPairs N x os).foldl (stepPair (vArith .add) (fun r gy => evalRule bm Hv gy r) trk) s).status = .ok () ∧
      ((chainPairs N x os).foldl (stepPair (vArith .add) (fun r gy => evalRule bm Hv gy r) trk) s).grads x
        = some ⟨(Hv.val x).dims, List.zipWith (fun g a => g * compF' os a) gd (Hv.val x).data⟩ ∧
      ((chainPairs N x os).foldl (stepPair (vArith .add) (fun r gy => evalRule bm Hv gy r) trk) s).calls
        = s.calls + os.length := by
  induction os with
  | nil =>
    intro N x gd s _ _ _ hl _ _ hs hg
    refine ⟨hs, ?_, rfl⟩
    simp only [chainPairs, List.foldl_nil, top] at hg ⊢
    rw [hg]
    congr 2
    apply List.ext_getElem
    · simp [hl]
    · intro i h1 h2; simp [compF']
  | cons o os ih =>
    intro N x gd s hxN hvc wx hl htrk hnone hs hg
    obtain ⟨hvN, hvrest⟩ := hvc
    have hdimsN : (Hv.val N).dims = (Hv.val x).dims := by rw [hvN]; rfl
    have hdataN : (Hv.val N).data = (Hv.val x).data.map o.f := by rw [hvN]; rfl
    have wN : (Hv.val N).WF := by rw [hvN]; exact map_wf _ _ wx
    have hmem1 : ∀ p ∈ chainPairs (N + 1) N os, p ∈ chainPairs N x (o :: os) := by
      intro p hp; simp only [chainPairs, List.mem_append]; exact Or.inl hp
    have hmem2 : (N, (x, o.rule x N)) ∈ chainPairs N x (o :: os) := by simp [chainPairs]
    obtain ⟨hs1, hg1, hc1⟩ := ih (N + 1) N gd s (by omega) hvrest wN (by rw [hdataN, List.length_map]; exact hl)
      (fun p hp => htrk p (hmem1 p hp)) (fun p hp => hnone p (hmem1 p hp)) hs (by rw [hdimsN]; exact hg)
    -- the start node is not touched by the upper part of the path
    have hx1 : ((chainPairs (N + 1) N os).foldl (stepPair (vArith .add) (fun r gy => evalRule bm Hv gy r) trk) s).grads x = none := by
      rw [fold_grads_unchanged]
      · exact hnone _ hmem2
      · intro p hp _
        rcases target_ge os (N + 1) N p hp with h | h <;> omega
    simp only [chainPairs, List.foldl_append, List.foldl_cons, List.foldl_nil]
    generalize (chainPairs (N + 1) N os).foldl (stepPair (vArith .add) (fun r gy => evalRule bm Hv gy r) trk) s = s1
      at hs1 hg1 hx1 hc1 ⊢
    rw [hdimsN, hdataN] at hg1
    have wg : (⟨(Hv.val x).dims, List.zipWith (fun g b => g * compF' os b) gd ((Hv.val x).data.map o.f)⟩ : Tensor ℝ).WF := by
      refine ⟨?_, wx.2⟩
      simp only [List.length_zipWith, List.length_map, hl, Nat.min_self]
      exact wx.1
    have hrule := rule_op bm Hv o x N _ wg wx rfl hvN
    obtain ⟨hs2, hg2, hc2⟩ := stepPair_fresh (vArith .add) (fun r gy => evalRule bm Hv gy r) trk s1 N x (o.rule x N) _ _
      hs1 (htrk _ hmem2) hg1 hrule hx1
    refine ⟨hs2, ?_, by rw [hc2, hc1, List.length_cons]; omega⟩
    rw [hg2]
    simp only [updStore, if_true]
    rw [zip_step]
    rfl

/-! ### intermediate nodes: splitting the chain -/

theorem top_append (os1 os2 : List Op) : ∀ (N x : Nat),
    top N x (os1 ++ os2) = top (N + os1.length) (top N x os1) os2 := by
  induction os1 with
  | nil => intro N x; rfl
  | cons o os1 ih =>
    intro N x
    show top (N + 1) N (os1 ++ os2) = top (N + (os1.length + 1)) (top (N + 1) N os1) os2
    rw [ih (N + 1) N]
    have e : N + 1 + os1.length = N + (os1.length + 1) := by omega
    rw [e]

theorem chainPairs_append (os1 os2 : List Op) : ∀ (N x : Nat),
    chainPairs N x (os1 ++ os2) = chainPairs (N + os1.length) (top N x os1) os2 ++ chainPairs N x os1 := by
  induction os1 with
  | nil => intro N x; simp [chainPairs, top]
  | cons o os1 ih =>
    intro N x
    show chainPairs (N + 1) N (os1 ++ os2) ++ [(N, (x, o.rule x N))]
      = chainPairs (N + (os1.length + 1)) (top (N + 1) N os1) os2 ++ (chainPairs (N + 1) N os1 ++ [(N, (x, o.rule x N))])
    rw [ih (N + 1) N]
    have e : N + 1 + os1.length = N + (os1.length + 1) := by omega
    rw [e, List.append_assoc]

theorem ValChain.append {val : Nat → Tensor ℝ} (os1 os2 : List Op) : ∀ (N x : Nat), ValChain val N x (os1 ++ os2) →
    ValChain val (N + os1.length) (top N x os1) os2 := by
  induction os1 with
  | nil => intro N x h; exact h
  | cons o os1 ih =>
    intro N x h
    have h2 := ih (N + 1) N h.2
    have e : N + 1 + os1.length = N + (os1.length + 1) := by omega
    rw [e] at h2
    exact h2

theorem ValChain.prefix {val : Nat → Tensor ℝ} (os1 os2 : List Op) : ∀ (N x : Nat), ValChain val N x (os1 ++ os2) →
    ValChain val N x os1 := by
  induction os1 with
  | nil => intro N x _; trivial
  | cons o os1 ih => intro N x h; exact ⟨h.1, ih (N + 1) N h.2⟩

theorem ValChain.top {val : Nat → Tensor ℝ} (os : List Op) : ∀ (N x : Nat), ValChain val N x os →
    val (top N x os) = (val x).map (compF os) := by
  induction os with
  | nil => intro N x _; simp [C01y.top, compF, Tensor.map]
  | cons o os ih =>
    intro N x h
    show val (C01y.top (N + 1) N os) = _
    rw [ih (N + 1) N h.2, h.1]
    simp [Tensor.map, compF, List.map_map, Function.comp_def]

/-- the node the prefix `os1` ends in receives the upstream gradient times the derivative of the REST of the chain at
    its own value -/
theorem fold_chain_split (bm : BMode) (Hv : Heap ℝ) (trk : Nat → Bool) (os1 os2 : List Op)
    (N x : Nat) (gd : List ℝ) (s : BPSt (Tensor ℝ))
    (hxN : x < N) (hvc : ValChain Hv.val N x (os1 ++ os2)) (wx : (Hv.val x).WF) (hl : gd.length = (Hv.val x).data.length)
    (htrk : ∀ p ∈ chainPairs N x (os1 ++ os2), trk p.2.1 = true)
    (hnone : ∀ p ∈ chainPairs N x (os1 ++ os2), s.grads p.2.1 = none)
    (hs : s.status = .ok ()) (hg : s.grads (top N x (os1 ++ os2)) = some ⟨(Hv.val x).dims, gd⟩) :
    ((chainPairs N x (os1 ++ os2)).foldl (stepPair (vArith .add) (fun r gy => evalRule bm Hv gy r) trk) s).grads (top N x os1)
      = some ⟨(Hv.val x).dims, List.zipWith (fun g b => g * compF' os2 b) gd ((Hv.val x).data.map (compF os1))⟩ := by
  have hvm : Hv.val (top N x os1) = (Hv.val x).map (compF os1) :=
    ValChain.top os1 N x (ValChain.prefix os1 os2 N x hvc)
  have hdm : (Hv.val (top N x os1)).dims = (Hv.val x).dims := by rw [hvm]; rfl
  have hdatam : (Hv.val (top N x os1)).data = (Hv.val x).data.map (compF os1) := by rw [hvm]; rfl
  rw [chainPairs_append] at htrk hnone ⊢
  rw [top_append] at hg
  rw [List.foldl_append]
  obtain ⟨_, hg1, _⟩ := fold_chain bm Hv trk os2 (N + os1.length) (top N x os1) gd s (top_lt os1 N x hxN)
    (ValChain.append os1 os2 N x hvc) (by rw [hvm]; exact map_wf _ _ wx) (by rw [hdatam, List.length_map]; exact hl)
    (fun p hp => htrk p (List.mem_append_left _ hp)) (fun p hp => hnone p (List.mem_append_left _ hp)) hs
    (by rw [hdm]; exact hg)
  rw [fold_grads_unchanged]
  · rw [hg1, hdm, hdatam]
  · intro p hp _
    exact Nat.ne_of_lt (target_lt_top os1 N x hxN p hp)

/-! ## The end-to-end theorem -/

/-- `BackPropagate` from a tracked root without a gradient, unfolded: all-ones seed, then the fold over the edges of
    the depth-first order; rule bodies read values from the heap with the spent flags set -/
theorem backprop_unfold {α : Type} [Scalar α] (bm : BMode) (H : Heap α) (root : Nat) (htr : H.tracked root = true)
    (hg : H.grad root = none) :
    backprop bm H root =
      { heap := writeBack (markDirty H (backwardOrder H root))
          ((allPairs (edgesOf H) (backwardOrder H root)).foldl
            (stepPair (vArith .add) (fun r gy => evalRule bm (markDirty H (backwardOrder H root)) gy r) H.tracked)
            { grads := updStore (fun n => H.grad n) root (vPow (H.val root) Scalar.zero) }).grads,
        status := ((allPairs (edgesOf H) (backwardOrder H root)).foldl
            (stepPair (vArith .add) (fun r gy => evalRule bm (markDirty H (backwardOrder H root)) gy r) H.tracked)
            { grads := updStore (fun n => H.grad n) root (vPow (H.val root) Scalar.zero) }).status,
        calls := ((allPairs (edgesOf H) (backwardOrder H root)).foldl
            (stepPair (vArith .add) (fun r gy => evalRule bm (markDirty H (backwardOrder H root)) gy r) H.tracked)
            { grads := updStore (fun n => H.grad n) root (vPow (H.val root) Scalar.zero) }).calls } := by
  have hnt : (!H.tracked root) = false := by simp [htr]
  have hG0 : (fun n => (markDirty H (backwardOrder H root)).grad n) = (fun n => H.grad n) := by
    funext n; exact (C01.markDirty_fields H _ n).2.2
  have hval : (markDirty H (backwardOrder H root)).val root = H.val root := markDirty_val _ _ _
  have htrk : (markDirty H (backwardOrder H root)).tracked = H.tracked := by
    funext n; exact (C01.markDirty_fields H _ n).1
  unfold backprop
  simp only [hnt, Bool.false_eq_true, if_false]
  rw [hG0, hval, htrk, C01.edgesOf_markDirty]
  simp only [accumG, hg]
  rw [runBP_eq_fold]

theorem top_props (H' : Heap ℝ) (os : List Op) : ∀ (N x : Nat), IsChain H' N x os → H'.tracked x = true →
    H'.grad x = none → H'.tracked (top N x os) = true ∧ H'.grad (top N x os) = none := by
  induction os with
  | nil => intro N x _ ht hg; exact ⟨ht, hg⟩
  | cons o os ih =>
    intro N x hc _ _
    obtain ⟨hctx, _, hrest⟩ := hc
    exact ih (N + 1) N hrest (by simp [Heap.tracked, hctx]) (by simp [Heap.grad, hctx])

theorem top_cons (os : List Op) : ∀ (o : Op) (N x : Nat), top N x (o :: os) = N + os.length := by
  induction os with
  | nil => intro o N x; rfl
  | cons o2 os ih =>
    intro o N x
    show top (N + 1) N (o2 :: os) = _
    rw [ih o2 (N + 1) N, List.length_cons]; omega

theorem len_le_top (os : List Op) (N x : Nat) (h : x < N) : os.length ≤ top N x os := by
  cases os with
  | nil => exact Nat.zero_le _
  | cons o os => rw [top_cons, List.length_cons]; omega

/-- the all-ones seed pulled through the rest `os2` of the chain, at the value `compF os1 x_i` of the prefix's result -/
theorem ones_zip (os os1 os2 : List Op) (xs : List ℝ) :
    List.zipWith (fun g b => g * compF' os2 b) ((xs.map (compF os)).map (fun a => Scalar.pow a Scalar.zero)) (xs.map (compF os1))
      = xs.map (fun a => compF' os2 (compF os1 a)) := by
  rw [List.zipWith_map_left, List.zipWith_map_left, List.zipWith_map_right]
  apply List.ext_getElem
  · simp
  · intro i h1 h2
    simp

/-- **Core statement**: the run succeeds and builds the path; back-propagation from the result succeeds with one rule
    evaluation per operation; EVERY node of the path — the node `top H.size x os1` the prefix `os1` ends in, for every split
    `os = os1 ++ os2`; `os1 = []` is the leaf, `os2 = []` the result — receives the derivative of the rest of the chain
    at its own elements. -/
theorem chain_backprop_nodes (bm : BMode) (H : Heap ℝ) (x : Nat) (os : List Op)
    (hx : x < H.size) (hleaf : H.ctx x = freshCtx true) (wf : (H.val x).WF) :
    ∃ H', chain os x H = .ok (top H.size x os, H') ∧ Extends H H' ∧ H'.size = H.size + os.length ∧
      (backprop bm H' (top H.size x os)).status = .ok () ∧
      (backprop bm H' (top H.size x os)).calls = os.length ∧
      ∀ os1 os2, os = os1 ++ os2 →
        H'.val (top H.size x os1) = (H.val x).map (compF os1) ∧
        (backprop bm H' (top H.size x os)).heap.grad (top H.size x os1)
          = some ⟨(H.val x).dims, (H.val x).data.map (fun a => compF' os2 (compF os1 a))⟩ := by
  have ht : H.tracked x = true := by simp [Heap.tracked, hleaf, freshCtx]
  have hd : H.dirty x = false := by simp [Heap.dirty, hleaf, freshCtx]
  obtain ⟨H', hrun, hext, hsz, hch⟩ := chain_spec os x H hx ht hd
  have hctx' : H'.ctx x = freshCtx true := by rw [hext.ctx hx, hleaf]
  have hvx : H'.val x = H.val x := hext.val hx
  have ht' : H'.tracked x = true := by simp [Heap.tracked, hctx', freshCtx]
  have hg' : H'.grad x = none := by simp [Heap.grad, hctx', freshCtx]
  have hSx : succs H' x = [] := by unfold succs; rw [hctx']; simp [freshCtx]
  have hEx : edgesOf H' x = [] := by unfold edgesOf; rw [hctx']; simp [freshCtx]
  have hvy : H'.val (top H.size x os) = (H.val x).map (compF os) := by rw [chain_val H' os _ _ hch, hvx]
  obtain ⟨hty, hgy⟩ := top_props H' os _ _ hch ht' hg'
  refine ⟨H', hrun, hext, hsz, ?_⟩
  -- the order of the walk
  have hord : backwardOrder H' (top H.size x os) = chainUp H.size os ++ [x] := by
    unfold backwardOrder
    rw [if_pos hty]
    have hle := len_le_top os H.size x hx
    have e : top H.size x os + 1 = os.length + ((top H.size x os - os.length) + 1) := by omega
    rw [e, visit_chain H' os _ _ _ hch ht']
    simp [visit, hSx]
  have hpairs : allPairs (edgesOf H') (chainUp H.size os ++ [x]) = chainPairs H.size x os := by
    rw [← allPairs_chain H' os _ _ hch]
    unfold allPairs
    simp [List.flatMap_append, hEx]
  rw [backprop_unfold bm H' _ hty hgy, hord, hpairs]
  simp only []
  -- the fold along the path
  have hvals : (markDirty H' (chainUp H.size os ++ [x])).val = H'.val := by
    funext n; exact markDirty_val _ _ _
  have hvc : ValChain (markDirty H' (chainUp H.size os ++ [x])).val H.size x os := by rw [hvals]; exact hch.vals
  have hvx2 : (markDirty H' (chainUp H.size os ++ [x])).val x = H.val x := by rw [hvals, hvx]
  have htg := chain_targets H' os _ _ hch ht' hg'
  have hnone : ∀ p ∈ chainPairs H.size x os,
      updStore (fun n => H'.grad n) (top H.size x os) (vPow (H'.val (top H.size x os)) Scalar.zero) p.2.1 = none := by
    intro p hp
    have hne : p.2.1 ≠ top H.size x os := Nat.ne_of_lt (target_lt_top os _ _ hx p hp)
    simp only [updStore, if_neg hne]
    exact (htg p hp).2
  have hseed : updStore (fun n => H'.grad n) (top H.size x os) (vPow (H'.val (top H.size x os)) Scalar.zero) (top H.size x os)
      = some ⟨((markDirty H' (chainUp H.size os ++ [x])).val x).dims,
          ((H.val x).data.map (compF os)).map (fun a => Scalar.pow a Scalar.zero)⟩ := by
    simp only [updStore, if_true]; rw [hvy, hvx2]; rfl
  obtain ⟨hs, _, hcalls⟩ := fold_chain bm (markDirty H' (chainUp H.size os ++ [x])) H'.tracked os H.size x
    (((H.val x).data.map (compF os)).map (fun a => Scalar.pow a Scalar.zero))
    { grads := updStore (fun n => H'.grad n) (top H.size x os) (vPow (H'.val (top H.size x os)) Scalar.zero) }
    hx hvc (by rw [hvx2]; exact wf) (by rw [hvx2]; simp) (fun p hp => (htg p hp).1) hnone rfl hseed
  refine ⟨hs, by rw [hcalls]; simp, ?_⟩
  intro os1 os2 hsplit
  subst hsplit
  have hm : top H.size x os1 < H'.size := by
    have := top_lt os1 H.size x hx
    rw [hsz, List.length_append]; omega
  refine ⟨?_, ?_⟩
  · rw [ValChain.top os1 H.size x (ValChain.prefix os1 os2 _ _ hch.vals), hvx]
  · have hsp := fold_chain_split bm (markDirty H' (chainUp H.size (os1 ++ os2) ++ [x])) H'.tracked os1 os2 H.size x
      (((H.val x).data.map (compF (os1 ++ os2))).map (fun a => Scalar.pow a Scalar.zero))
      { grads := updStore (fun n => H'.grad n) (top H.size x (os1 ++ os2)) (vPow (H'.val (top H.size x (os1 ++ os2))) Scalar.zero) }
      hx hvc (by rw [hvx2]; exact wf) (by rw [hvx2]; simp) (fun p hp => (htg p hp).1) hnone rfl hseed
    rw [C01.writeBack_grad _ _ _ (by rw [markDirty_size]; exact hm), hsp, hvx2, ones_zip]

theorem compF_append (os1 os2 : List Op) (a : ℝ) : compF (os1 ++ os2) a = compF os2 (compF os1 a) := by
  induction os1 generalizing a with
  | nil => rfl
  | cons o os1 ih => exact ih (o.f a)

/-- **C01, end to end, for element-wise chains of any length.** `x` is a fresh tracked leaf (`NewGradContext(true)`:
    tracked, not spent, no gradient, no back edges) of any well-formed shape in any heap; `os` any list of operations
    (also the empty one). The run succeeds, the result holds the composed function of every element, `BackPropagate`
    from the result succeeds (either `BMode`), and the gradient left on `x` is, element by element, the derivative
    `compF' os x_i` of the composed function (`compF_hasDerivAt`) = ∂(Σ_j y_j)/∂x_i (`sum_hasDerivAt`). -/
theorem chain_backprop (bm : BMode) (H : Heap ℝ) (x : Nat) (os : List Op)
    (hx : x < H.size) (hleaf : H.ctx x = freshCtx true) (wf : (H.val x).WF) :
    ∃ y H', chain os x H = .ok (y, H') ∧
      H'.val y = (H.val x).map (compF os) ∧
      (backprop bm H' y).status = .ok () ∧
      (backprop bm H' y).heap.grad x = some ⟨(H.val x).dims, (H.val x).data.map (compF' os)⟩ := by
  obtain ⟨H', hrun, _, _, hs, _, hall⟩ := chain_backprop_nodes bm H x os hx hleaf wf
  obtain ⟨_, hg⟩ := hall [] os rfl
  obtain ⟨hv, _⟩ := hall os [] (List.append_nil _).symm
  exact ⟨_, H', hrun, hv, hs, hg⟩

/-- one rule evaluation per operation: linear in the length of the chain -/
theorem chain_backprop_calls (bm : BMode) (H : Heap ℝ) (x : Nat) (os : List Op)
    (hx : x < H.size) (hleaf : H.ctx x = freshCtx true) (wf : (H.val x).WF) :
    ∃ y H', chain os x H = .ok (y, H') ∧ (backprop bm H' y).calls = os.length := by
  obtain ⟨H', hrun, _, _, _, hc, _⟩ := chain_backprop_nodes bm H x os hx hleaf wf
  exact ⟨_, H', hrun, hc⟩

/-- **every intermediate node gets its own partial product**: for every split `os1 ++ os2` of the chain, the node `m` that
    the prefix `os1` produces holds `compF os1` of the leaf, the result is `compF os2` of `m`'s value, and the gradient
    left on `m` is the derivative of the rest `os2` of the chain at `m`'s own elements (`os2 = []`: the result itself
    gets all ones) -/
theorem chain_backprop_intermediate (bm : BMode) (H : Heap ℝ) (x : Nat) (os1 os2 : List Op)
    (hx : x < H.size) (hleaf : H.ctx x = freshCtx true) (wf : (H.val x).WF) :
    ∃ m H1 y H', chain os1 x H = .ok (m, H1) ∧ chain (os1 ++ os2) x H = .ok (y, H') ∧
      H'.val m = (H.val x).map (compF os1) ∧ H'.val y = (H'.val m).map (compF os2) ∧
      (backprop bm H' y).status = .ok () ∧
      (backprop bm H' y).heap.grad m = some ⟨(H'.val m).dims, (H'.val m).data.map (compF' os2)⟩ := by
  have ht : H.tracked x = true := by simp [Heap.tracked, hleaf, freshCtx]
  have hd : H.dirty x = false := by simp [Heap.dirty, hleaf, freshCtx]
  obtain ⟨H1, hrun1, _, _, _⟩ := chain_spec os1 x H hx ht hd
  obtain ⟨H', hrun, _, _, hs, _, hall⟩ := chain_backprop_nodes bm H x (os1 ++ os2) hx hleaf wf
  obtain ⟨hvm, hgm⟩ := hall os1 os2 rfl
  obtain ⟨hvy, _⟩ := hall (os1 ++ os2) [] (List.append_nil _).symm
  refine ⟨_, H1, _, H', hrun1, hrun, hvm, ?_, hs, ?_⟩
  · rw [hvy, hvm]
    simp [Tensor.map, List.map_map, Function.comp_def, compF_append]
  · rw [hgm, hvm]
    simp [Tensor.map, List.map_map, Function.comp_def]

/-- **C01 as stated**: the gradient left on the leaf is, at every position `i`, the derivative with respect to `x_i` of the
    SUM OF THE RESULT'S ELEMENTS (the result of the chain on input `x'` being `compF os` of every element of `x'`, by the
    value clause of `chain_backprop`, for every input). -/
theorem chain_backprop_total_derivative (bm : BMode) (H : Heap ℝ) (x : Nat) (os : List Op)
    (hx : x < H.size) (hleaf : H.ctx x = freshCtx true) (wf : (H.val x).WF) :
    ∃ y H' g, chain os x H = .ok (y, H') ∧ H'.val y = (H.val x).map (compF os) ∧
      (backprop bm H' y).status = .ok () ∧ (backprop bm H' y).heap.grad x = some g ∧
      g.dims = (H.val x).dims ∧ g.data.length = (H.val x).data.length ∧
      ∀ i : Fin (H.val x).data.length,
        HasDerivAt (fun t => ∑ k, compF os (Function.update (fun j : Fin (H.val x).data.length => (H.val x).data[j]) i t k))
          (g.data.getD i 0) ((H.val x).data[i]) := by
  obtain ⟨y, H', hrun, hv, hs, hg⟩ := chain_backprop bm H x os hx hleaf wf
  refine ⟨y, H', _, hrun, hv, hs, hg, rfl, by simp, ?_⟩
  intro i
  have h := sum_hasDerivAt os (fun j : Fin (H.val x).data.length => (H.val x).data[j]) i
  have e : (List.map (compF' os) (H.val x).data).getD i 0 = compF' os ((H.val x).data[i]) := by
    simp [List.getD, List.getElem?_map]
  rw [e]
  exact h

/-- the same from scratch: create the leaf (`NewGradContext(true)`), run the chain, back-propagate — on any heap -/
theorem leaf_chain_backprop (bm : BMode) (H : Heap ℝ) (v : Tensor ℝ) (wf : v.WF) (os : List Op) :
    ∃ y H', (hLeaf v true >>= chain os) H = .ok (y, H') ∧
      H'.val y = v.map (compF os) ∧
      (backprop bm H' y).status = .ok () ∧
      (backprop bm H' y).heap.grad H.size = some ⟨v.dims, v.data.map (compF' os)⟩ := by
  let H0 : Heap ℝ := H.push ⟨v, freshCtx true⟩
  have hleaf : hLeaf v true H = .ok (H.size, H0) := rfl
  have hv0 : H0.val H.size = v := push_val_new _ _
  obtain ⟨y, H', hrun, hv, hs, hg⟩ := chain_backprop bm H0 H.size os (by simp [H0]) (by simp [H0, Heap.ctx])
    (by rw [hv0]; exact wf)
  rw [hv0] at hv hg
  exact ⟨y, H', by rw [bind_run hleaf]; exact hrun, hv, hs, hg⟩

/-! ## Instances (non-vacuity, and what the statement says concretely) -/

/-- `y = exp(sin x)`: the gradient is `exp(sin x_i) · cos x_i` -/
example (bm : BMode) (v : Tensor ℝ) (wf : v.WF) :
    ∃ y H', (hLeaf v true >>= chain [.sin, .exp]) #[] = .ok (y, H') ∧
      (backprop bm H' y).status = .ok () ∧
      (backprop bm H' y).heap.grad 0 = some ⟨v.dims, v.data.map (fun a => Real.exp (Real.sin a) * Real.cos a)⟩ := by
  obtain ⟨y, H', h1, _, h3, h4⟩ := leaf_chain_backprop bm #[] v wf [.sin, .exp]
  refine ⟨y, H', h1, h3, ?_⟩
  have e : compF' [.sin, .exp] = fun a => Real.exp (Real.sin a) * Real.cos a := by
    funext a; simp [compF', Op.f, Op.f']
  rw [← e]; exact h4

/-- `y = cos(tanh(3·x))`: three operations -/
example (a : ℝ) : compF [.scale 3, .tanh, .cos] a = Real.cos (Real.tanh (3 * a)) ∧
    compF' [.scale 3, .tanh, .cos] a
      = -1 * Real.sin (Real.tanh (3 * a)) * (Real.cosh (3 * a)) ^ (-2 : ℝ) * 3 := by
  constructor
  · simp [compF, Op.f]
  · simp [compF', Op.f, Op.f']

/-- a concrete well-formed leaf: the hypotheses are satisfiable -/
example : (⟨[2], [0, 1]⟩ : Tensor ℝ).WF := by
  refine ⟨by simp [prod], ?_⟩
  intro d hd; simp at hd; omega

end C01y
end Qeep
