import QeepProps.C01x
/-!
# C01 — what `BackPropagate` leaves on a tensor is the sum of what its consumers deliver

`final_pairing`: after a successful walk, for EVERY tensor `n` of ANY heap with the DAG shape (every reachable heap),
the stored gradient paired with an arbitrary tangent is the seed (previous gradient, plus all ones at the root) plus the
sum, over the visited tensors `u` and their back edges into `n`, of the edge's backward rule applied to the FINAL
gradient of `u` — each edge exactly once, in whatever order the walk processed them. With the element-wise pairing and
unit tangents this determines every element of the stored gradient (`final_elements`).

This is the form in which the per-graph results of C13 / C15 / C16 (the "local backward pass" theorems, which evaluate
the rules along the back edges of a component's graph) become statements about `Tensor.Gradient()` after
`tensor.BackPropagate`: the consumers of a component's input inside the walk are the component's own nodes, whatever the
input was computed from (its ancestors have smaller identities and no edge into it).
-/
set_option linter.unusedSimpArgs false
set_option linter.unusedSectionVars false
set_option linter.unusedVariables false

namespace Qeep
namespace C01z
open C01 C01x C20

variable {α : Type} [Scalar α]

/-- the contribution of the back edge `e` of `u` to the gradient of `n`, paired with `t` -/
noncomputable def edgeTerm {T : Type} (ip : Tensor α → T → ℝ) (pull : Rule α → Tensor α → Out (Tensor α)) (tracked : Nat → Bool)
    (G : Nat → Option (Tensor α)) (n : Nat) (t : T) (u : Nat) (e : Nat × Rule α) : ℝ :=
  if tracked e.1 = true ∧ e.1 = n then
    match G u with
    | some gy => (match pull e.2 gy with | .ok g => ip g t | _ => 0)
    | none => 0
  else 0

theorem contrib_sum {T : Type} (ip : Tensor α → T → ℝ) (pull : Rule α → Tensor α → Out (Tensor α)) (tracked : Nat → Bool)
    (G : Nat → Option (Tensor α)) (n : Nat) (t : T) (ps : List (Pair (Rule α))) :
    ((contrib pull tracked G ps n).map (fun g => ip g t)).sum
      = (ps.map (fun p => edgeTerm ip pull tracked G n t p.1 p.2)).sum := by
  induction ps with
  | nil => simp [contrib]
  | cons p ps ih =>
    unfold contrib at ih ⊢
    rw [fm_sum, ih]
    simp only [List.map_cons, List.sum_cons]
    congr 1
    unfold edgeTerm
    by_cases hc : tracked p.2.1 = true ∧ p.2.1 = n
    · rw [if_pos hc, if_pos hc]
      cases G p.1 with
      | none => rfl
      | some gy =>
        simp only []
        cases hq : pull p.2.2 gy <;> simp [hq]
    · rw [if_neg hc, if_neg hc]

theorem sums_good {D : Type} {add : D → D → Out D} (Good : D → Prop)
    (hadd : ∀ a b s, Good a → Good b → add a b = .ok s → Good s)
    {a b : Option D} {l : List D} (h : Sums add a l b) (ha : ∀ x, a = some x → Good x) (hl : ∀ g ∈ l, Good g) :
    ∀ x, b = some x → Good x := by
  induction h with
  | nil a => exact ha
  | @first g gs b _ ih =>
    exact ih (fun x hx => by cases hx; exact hl g (by simp)) (fun y hy => hl y (List.mem_cons_of_mem _ hy))
  | @next x g s gs b hs _ ih =>
    exact ih (fun y hy => by cases hy; exact hadd x g s (ha x rfl) (hl g (by simp)) hs)
      (fun y hy => hl y (List.mem_cons_of_mem _ hy))

/-- **what a walk leaves on a tensor** (see the header) -/
theorem final_pairing {T : Type} (bm : BMode) (H : Heap α) (root : Nat) (hdag : HeapDag H)
    (htr : H.tracked root = true) (hok : (backprop bm H root).status = .ok ())
    (ip : Tensor α → T → ℝ) (n : Nat) (hn : n < H.size) (Good : Tensor α → Prop)
    (hadd : ∀ a b s, Good a → Good b → vArith .add a b = .ok s → Good s ∧ ∀ t, ip s t = ip a t + ip b t)
    (hold : ∀ g, H.grad n = some g → Good g)
    (hones : n = root → Good (vPow (H.val root) Scalar.zero))
    (hrule : ∀ u ∈ backwardOrder H root, ∀ e ∈ (H.ctx u).edges, H.tracked e.target = true → e.target = n →
        ∀ gy g, (backprop bm H root).heap.grad u = some gy →
          evalRule bm (markDirty H (backwardOrder H root)) gy e.rule = .ok g → Good g)
    (t : T) :
    ∃ seedG, accumG (vArith .add) (fun n => H.grad n) root (vPow (H.val root) Scalar.zero) = .ok seedG ∧
      (∀ g, (backprop bm H root).heap.grad n = some g → Good g) ∧
      ipo ip ((backprop bm H root).heap.grad n) t = ipo ip (seedG n) t +
        ((backwardOrder H root).map (fun u => ((edgesOf H u).map (fun e =>
          edgeTerm ip (fun r gy => evalRule bm (markDirty H (backwardOrder H root)) gy r) H.tracked
            (fun m => (backprop bm H root).heap.grad m) n t u e)).sum)).sum := by
  obtain ⟨seedG, final, hseed, hfin, hsums, hdef, _⟩ := backprop_adjoint bm H root hdag htr hok
  have hlt := order_lt_size H root hdag htr
  -- the seed value at n is Good
  have hseedGood : ∀ x, seedG n = some x → Good x := by
    intro x hx
    unfold accumG at hseed
    cases hg : H.grad root with
    | none =>
      simp only [hg] at hseed
      cases hseed
      unfold updStore at hx
      by_cases hnr : n = root
      · simp [hnr] at hx; subst hx; exact hones hnr
      · simp [hnr] at hx; exact hold x hx
    | some old =>
      simp only [hg] at hseed
      cases ha : vArith Arith.add old (vPow (H.val root) Scalar.zero) with
      | ok s =>
        rw [ha] at hseed; simp only [Out.bind] at hseed; cases hseed
        unfold updStore at hx
        by_cases hnr : n = root
        · simp [hnr] at hx; subst hx
          exact (hadd _ _ _ (hold _ (by rw [hnr]; exact hg)) (hones hnr) ha).1
        · simp [hnr] at hx; exact hold x hx
      | err => rw [ha] at hseed; simp [Out.bind] at hseed
      | panic => rw [ha] at hseed; simp [Out.bind] at hseed
  -- contributions are Good
  have hgood : ∀ g ∈ contrib (fun r gy => evalRule bm (markDirty H (backwardOrder H root)) gy r) H.tracked final (bpPairs H root) n,
      Good g := by
    intro g hg
    unfold contrib at hg
    obtain ⟨p, hp, hpe⟩ := List.mem_filterMap.mp hg
    unfold bpPairs allPairs at hp
    obtain ⟨u, hu, hpu⟩ := List.mem_flatMap.mp hp
    obtain ⟨e, he, rfl⟩ := List.mem_map.mp hpu
    unfold edgesOf at he
    obtain ⟨e0, he0, rfl⟩ := List.mem_map.mp he
    simp only [] at hpe
    split at hpe
    · rename_i hc
      cases hG : final u with
      | none => rw [hG] at hpe; simp at hpe
      | some gy =>
        rw [hG] at hpe
        simp only [] at hpe
        cases hp2 : evalRule bm (markDirty H (backwardOrder H root)) gy e0.rule with
        | ok g' =>
          rw [hp2] at hpe; simp only [Option.some.injEq] at hpe
          subst hpe
          exact hrule u hu e0 he0 hc.1 hc.2 gy _ (by rw [hfin u (hlt u hu)]; exact hG) hp2
        | err => rw [hp2] at hpe; simp at hpe
        | panic => rw [hp2] at hpe; simp at hpe
    · simp at hpe
  have h1 := sums_ip (vArith .add) ip Good hadd (hsums n) hseedGood hgood t
  refine ⟨seedG, hseed, ?_, ?_⟩
  · intro g hg
    rw [hfin n hn] at hg
    exact sums_good Good (fun a b s ha hb h => (hadd a b s ha hb h).1) (hsums n) hseedGood hgood g hg
  rw [hfin n hn, h1]
  congr 1
  rw [contrib_sum]
  unfold bpPairs allPairs
  rw [sum_flatMap_map (backwardOrder H root) (edgesOf H)
    (fun u e => edgeTerm ip (fun r gy => evalRule bm (markDirty H (backwardOrder H root)) gy r) H.tracked final n t u e)]
  apply sum_congr_map
  intro u hu
  apply sum_congr_map
  intro e _
  unfold edgeTerm
  simp only []
  rw [hfin u (hlt u hu)]

/-- every member of the walk satisfies any predicate that holds of the root and is closed under tracked back edges -/
theorem visit_subset (S : Nat → List Nat) (P : Nat → Prop) (hcl : ∀ u, P u → ∀ v ∈ S u, P v) :
    ∀ (f n : Nat) (done : List Nat), P n → (∀ d ∈ done, P d) → ∀ m ∈ visit S f n done, P m := by
  intro f
  induction f with
  | zero => intro n done _ hd m hm; simpa [visit] using hd m (by simpa [visit] using hm)
  | succ f ih =>
    intro n done hn hd m hm
    unfold visit at hm
    by_cases hmem : n ∈ done
    · rw [if_pos hmem] at hm; exact hd m hm
    · rw [if_neg hmem] at hm
      rcases List.mem_cons.mp hm with rfl | hm
      · exact hn
      · have gen : ∀ (cs : List Nat) (d : List Nat), (∀ c ∈ cs, P c) → (∀ x ∈ d, P x) →
            ∀ y ∈ cs.foldl (fun d c => visit S f c d) d, P y := by
          intro cs
          induction cs with
          | nil => intro d _ hd y hy; exact hd y (by simpa using hy)
          | cons c cs ihc =>
            intro d hcs hd y hy
            simp only [List.foldl_cons] at hy
            exact ihc _ (fun c' hc' => hcs c' (List.mem_cons_of_mem _ hc'))
              (fun x hx => ih c d (hcs c (by simp)) hd x hx) y hy
        exact gen (S n) done (fun c hc => hcl n hn c hc) hd m hm

theorem order_subset (H : Heap α) (root : Nat) (P : Nat → Prop) (hroot : P root)
    (hcl : ∀ u, P u → ∀ v ∈ succs H u, P v) : ∀ n ∈ backwardOrder H root, P n := by
  intro n hn
  unfold backwardOrder at hn
  split at hn
  · exact visit_subset (succs H) P hcl (root + 1) root [] hroot (by simp) n hn
  · simp at hn

/-- back edges point to older tensors: every tracked successor is older -/
theorem succs_lt (H : Heap α) (hdag : HeapDag H) (u v : Nat) (h : v ∈ succs H u) : v < u := by
  unfold succs at h
  obtain ⟨hm, _⟩ := List.mem_filter.mp h
  obtain ⟨e, he, rfl⟩ := List.mem_map.mp hm
  exact hdag u e he

theorem order_le_root (H : Heap α) (root : Nat) (hdag : HeapDag H) : ∀ n ∈ backwardOrder H root, n ≤ root :=
  order_subset H root (fun n => n ≤ root) (Nat.le_refl _)
    (fun u hu v hv => Nat.le_trans (Nat.le_of_lt (succs_lt H hdag u v hv)) hu)

end C01z
end Qeep
