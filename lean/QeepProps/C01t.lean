import QeepProps.C15z
/-!
# C01 — one consumer with TWO back edges into the same tensor

`grad_double`: if the only visited tensor with back edges into `n` is `u`, and `u` has exactly two of them (rules `r1`, `r2`:
the same tensor passed twice to `Concat`, `ElMax`, `ElMin` or `Patch`, whose edges point at their operands directly), then
`n` receives the SUM of the two deliveries — each edge once.
`elmax_self_backprop`: `y = x.ElMax(x)`, `BackPropagate(y)`: `x.Gradient()` is all ones — the tie-aware rule gives each of the
two edges one half.
-/
set_option linter.unusedSimpArgs false
set_option linter.unusedSectionVars false
set_option linter.unusedVariables false

namespace Qeep
namespace C01t
open RealScalar C15x C15z C01 C01x C01z C01w

theorem edge_sum_double (H : Heap ℝ) (pull : Rule ℝ → Tensor ℝ → Out (Tensor ℝ)) (G : Nat → Option (Tensor ℝ))
    (n u : Nat) (t : Tensor ℝ) (r1 r2 : Rule ℝ) (htn : H.tracked n = true)
    (hf : (H.ctx u).edges.filter (fun e => decide (e.target = n)) = [⟨n, r1⟩, ⟨n, r2⟩]) :
    ((edgesOf H u).map (fun e => edgeTerm dotp pull H.tracked G n t u e)).sum
      = match G u with
        | some gy => (match pull r1 gy with | .ok g => dotp g t | _ => 0) + (match pull r2 gy with | .ok g => dotp g t | _ => 0)
        | none => 0 := by
  unfold edgesOf
  rw [List.map_map]
  have : ((H.ctx u).edges.map ((fun e => edgeTerm dotp pull H.tracked G n t u e) ∘ fun e => (e.target, e.rule)))
      = (H.ctx u).edges.map (fun e => if e.target = n then
          (match G u with | some gy => (match pull e.rule gy with | .ok g => dotp g t | _ => 0) | none => 0) else 0) := by
    apply List.map_congr_left
    intro e _
    simp only [Function.comp, edgeTerm]
    by_cases h : e.target = n
    · rw [if_pos (⟨by rw [h]; exact htn, h⟩ : H.tracked e.target = true ∧ e.target = n), if_pos h]
      cases G u with
      | none => rfl
      | some gy => simp only []; cases hq : pull e.rule gy <;> simp [hq]
    · rw [if_neg (fun hc => h hc.2), if_neg h]
  rw [this, sum_filter_eq, hf]
  cases G u with
  | none => simp
  | some gy => simp

theorem grad_double (bm : BMode) (H : Heap ℝ) (root : Nat) (hdag : HeapDag H) (htr : H.tracked root = true)
    (hok : (backprop bm H root).status = .ok ()) (n u : Nat) (hu : u ∈ backwardOrder H root) (hnr : n ≠ root)
    (hg : H.grad n = none) (htn : H.tracked n = true) (r1 r2 : Rule ℝ)
    (hf : (H.ctx u).edges.filter (fun e => decide (e.target = n)) = [⟨n, r1⟩, ⟨n, r2⟩])
    (hother : ∀ v ∈ backwardOrder H root, v ≠ u → ∀ e ∈ (H.ctx v).edges, e.target ≠ n)
    (gy g1 g2 s : Tensor ℝ) (hgy : (backprop bm H root).heap.grad u = some gy)
    (hp1 : evalRule bm (markDirty H (backwardOrder H root)) gy r1 = .ok g1)
    (hp2 : evalRule bm (markDirty H (backwardOrder H root)) gy r2 = .ok g2) (ds : List Nat)
    (hs1 : Shaped ds g1) (hs2 : Shaped ds g2) (hadd : vArith .add g1 g2 = .ok s) :
    (backprop bm H root).heap.grad n = some s := by
  have hedge : (⟨n, r1⟩ : Edge ℝ) ∈ (H.ctx u).edges := by
    have : (⟨n, r1⟩ : Edge ℝ) ∈ (H.ctx u).edges.filter (fun e => decide (e.target = n)) := by rw [hf]; simp
    exact (List.mem_filter.mp this).1
  have hmem : n ∈ backwardOrder H root := by
    obtain ⟨_, hcl, _, _⟩ := backwardOrder_spec H root hdag htr
    apply hcl u hu
    unfold succs
    exact List.mem_filter.mpr ⟨List.mem_map.mpr ⟨⟨n, r1⟩, hedge, rfl⟩, htn⟩
  obtain ⟨_, _, _, hnd⟩ := backwardOrder_spec H root hdag htr
  obtain ⟨ss, hdot⟩ := shaped_add ds g1 g2 s hs1 hs2 hadd
  apply grad_eq bm H root hdag htr hok n hmem hnr hg ds ?_ s ss
  · intro t
    rw [sum_one _ (backwardOrder H root) hnd u hu]
    · rw [edge_sum_double H _ _ n u t r1 r2 htn hf, hgy]
      simp only [hp1, hp2]
      rw [hdot t]
    · intro v hv hvu
      exact edge_sum_none H _ _ n v t (hother v hv hvu)
  · intro v hv e he _ het gy' g' hgy' h'
    by_cases hvu : v = u
    · subst hvu
      have : e ∈ (H.ctx v).edges.filter (fun e => decide (e.target = n)) := List.mem_filter.mpr ⟨he, by simpa using het⟩
      rw [hf] at this
      simp at this
      rw [hgy] at hgy'
      cases hgy'
      rcases this with rfl | rfl
      · rw [hp1] at h'; cases h'; exact hs1
      · rw [hp2] at h'; cases h'; exact hs2
    · exact absurd het (hother v hv hvu e he)

/-- **`y = x.ElMax(x)`** (the same tensor as both operands of an operation whose back edges point at the operands directly) -/
theorem elmax_self_backprop (bm : BMode) (H : Heap ℝ) (x : Nat) (hR : Reach bm H) (hwf : (H.val x).WF) (l : Live H x) :
    ∃ r H', hCmp .elmax x x H = .ok (r, H') ∧ H'.val r = H.val x ∧
      ((backprop bm H' r).status = .ok () →
        (backprop bm H' r).heap.grad x = some ⟨(H.val x).dims, (H.val x).data.map (fun _ => 1)⟩) := by
  have hxN : x < H.size := l.1
  let X := H.val x
  have hv : vCmp .elmax X X = .ok ⟨X.dims, List.zipWith Cmp.elmax.fn X.data X.data⟩ := vCmp_same .elmax X X hwf hwf rfl
  obtain ⟨r, H', hran⟩ := ran_hCmp .elmax x x H _ hv
  have hrun := hran.run
  obtain ⟨vr, hext, cr, lr⟩ := hCmp_ext_live (Or.inl rfl) hrun l l
  have ir := hCmp_id hrun
  subst ir
  have vy : H'.val H.size = X.map id := by
    rw [hran.val]
    simp only [Tensor.map, X]
    congr 1
    apply List.ext_getElem
    · simp
    · intro i h1 h2
      simp [Cmp.fn, max_eq]
  refine ⟨H.size, H', hrun, by rw [vy]; simp [Tensor.map, X], ?_⟩
  intro hok
  have R' : Reach bm H' := Reach.cmp hR hxN hxN hrun
  have hdag := reach_dag R'
  have hgx : H.grad x = none := reach_clean_nograd hR x l.2.2
  have tx : H'.tracked x = true := by have := l.2.1; simp only [Heap.tracked, hext.ctx hxN] at this ⊢; exact this
  have gx : H'.grad x = none := by simp only [Heap.grad, hext.ctx hxN] at hgx ⊢; exact hgx
  obtain ⟨g0, t0, e0⟩ := liveCtx_grad H' _ _ cr
  obtain ⟨hroot, _, _, _⟩ := backwardOrder_spec H' H.size hdag t0
  have hlt := order_lt_size H' H.size hdag t0
  have hle := order_le_root H' H.size hdag
  let H1 := markDirty H' (backwardOrder H' H.size)
  have hv1 : ∀ n, H1.val n = H'.val n := fun n => markDirty_val _ _ n
  have wr : (H'.val H.size).WF := by rw [vy]; exact map_wf _ _ hwf
  let G : Tensor ℝ := vPow (H'.val H.size) Scalar.zero
  have sG : Shaped X.dims G := by
    have := ones_shaped _ wr
    have hd' : (H'.val H.size).dims = X.dims := by rw [vy]; rfl
    rw [hd'] at this; exact this
  have hd : G.dims = X.dims := sG.2
  have f0 : (backprop bm H' H.size).heap.grad H.size = some (gz G X (fun _ => 1)) := by
    rw [gz_one G X hwf sG.1 hd]
    exact grad_root bm H' H.size hdag t0 hok g0 wr
  have hX : H1.val x = X.map id := by rw [hv1, hext.val hxN]; simp [Tensor.map, X]
  have hY : H1.val H.size = X.map id := by rw [hv1, vy]
  have hrule := r_elext bm H1 G X (fun _ => 1) hwf sG.1 hd H.size x x id id id hY hX hX
  have shp : ∀ φ, Shaped X.dims (gz G X φ) := fun φ => ⟨gz_wf G X φ hwf sG.1 hd, hd⟩
  have fx := grad_double bm H' H.size hdag t0 hok x H.size hroot (by omega) gx tx
    (.elext H.size x x) (.elext H.size x x) (by rw [e0]; simp [List.filter_cons])
    (by
      intro v hv hne e he
      have h1 := hle v hv
      have h2 := hdag v e he
      have : v < H.size := by omega
      rw [hext.ctx this] at he
      -- an older visited tensor is x or an ancestor of x: it cannot point at x
      have hP : ∀ n ∈ backwardOrder H' H.size, n = H.size ∨ n ≤ x := by
        apply order_subset H' H.size
        · left; rfl
        · intro u hu w hw
          obtain ⟨e', he', rfl⟩ := mem_succs_edge H' u _ hw
          rcases hu with rfl | hle'
          · rw [e0] at he'; simp at he'; subst he'; right; simp
          · have := hdag u e' he'
            right; omega
      have h3 := reach_dag hR v e he
      rcases hP v hv with h | h
      · omega
      · intro heq; omega)
    _ _ _ _ f0 hrule hrule X.dims (shp _) (shp _) (gz_add G X _ _ hwf sG.1 hd)
  rw [fx]
  congr 1
  simp only [gz, G, vPow, Tensor.map, X, vy]
  congr 1
  apply List.ext_getElem
  · simp
  · intro i h1 h2
    simp [Scalar.near]
    have hthr : Scalar.abs (0 : ℝ) ≤ (Scalar.eqThr : ℝ) := by
      have := eqThr_pos
      simp [Scalar.abs]
      exact le_of_lt this
    rw [if_pos hthr, if_pos hthr]
    norm_num

end C01t
end Qeep
