import QeepProps.C13z
import QeepProps.C01q
import QeepProps.C15w
import QeepProps.C01p
import QeepProps.C02x
import QeepProps.C09
import Mathlib.Tactic.IntervalCases
/-!
# C13 — the clip segment inside any walk; CE end to end

`clip_in_walk`: the five tensors `clip(x, l, u)` allocates (`x⁰`, `l·x⁰`, `u·x⁰`, `ElMin(x, u·x⁰)`, `ElMax(l·x⁰, ·)`) at base
id `k`, inside ANY successful walk from any root that leaves the gradient `g` on the clip's result: if nothing else the walk
visits has a back edge into `x` or into the four internal tensors, `x.Gradient()` is `g · clipD l u x` — all FIVE paths from
the result to `x` are accounted for (through ElMax → ElMin → `x`; ElMax → ElMin → `u·x⁰` → `x⁰` → `x`; ElMax → `l·x⁰` → `x⁰` →
`x`), the ones through the constant `x⁰` adding zeros. This is the statement C13x left open ("that no further path from
the loss reaches the prediction").

`ce_backprop`: any reachable heap, a tracked unspent prediction `p` (leaf or not) and an untracked unspent target `t`
(`m × n`); after `CE.Compute(p, t)` and a successful `BackPropagate(loss)`, `p.Gradient()` is `ceGrad 1 m t̂ p` at every
position: the derivative `−t̂ᵢⱼ/(m·pᵢⱼ)` of the CE formula strictly inside the clip band, 0 strictly outside.

`ce_backprop_full` is the form for composition: it also exports the footprint of the loss graph (seventeen tensors, the loss
last and tracked, every tracked new tensor pointing only at new tensors or at the prediction), that the prediction is visited,
and the PROGRESS statement — `BackPropagate(loss)` returns without error as soon as the part of the walk below the prediction
accepts gradients of the prediction's shape (`C01p.backprop_ok` with the acceptance of every edge of the loss graph;
`elext_ok` for the tie-aware ElMax / ElMin rule). `ce_backprop_leaf`: on a leaf prediction everything is unconditional.
-/
set_option linter.unusedSimpArgs false
set_option linter.unusedSectionVars false
set_option linter.unusedVariables false

namespace Qeep
namespace C13v
open RealScalar C13x C13z C15x C15z C15w C01 C01x C01z C01w C01q C01p C16x C20
open C12x (wf_map tHat pHat clipR)

theorem pullPath_eq_evalPath (bm : BMode) (H : Heap ℝ) : ∀ (rs : List (Rule ℝ)) (g : Tensor ℝ),
    pullPath bm H rs g = evalPath bm H rs g
  | [], g => rfl
  | r :: rs, g => by
    simp only [pullPath, evalPath]
    cases evalRule bm H g r with
    | ok g1 => simp only [Out.bind]; exact pullPath_eq_evalPath bm H rs g1
    | err => rfl
    | panic => rfl

/-- **ElMax / ElMin rule, acceptance**: on operands of one shape `ds` the tie-aware rule accepts any gradient of that shape
    and returns one of that shape -/
theorem elext_ok (bm : BMode) (H : Heap ℝ) (gy : Tensor ℝ) (y a b : Nat) (ds : List Nat) (hg : Shaped ds gy)
    (hy : Shaped ds (H.val y)) (ha : Shaped ds (H.val a)) (hb : Shaped ds (H.val b)) :
    ∃ r, evalRule bm H gy (.elext y a b) = .ok r ∧ Shaped ds r := by
  have d1 : (H.val y).dims = (H.val a).dims := by rw [hy.2, ha.2]
  have d2 : (H.val a).dims = (H.val b).dims := by rw [ha.2, hb.2]
  have c1 := vCmp_same .eq _ _ hy.1 ha.1 d1
  have c2 := vCmp_same .eq _ _ ha.1 hb.1 d2
  have w1 := zip_wf Cmp.eq.fn _ _ hy.1 ha.1 d1
  have w2 := zip_wf Cmp.eq.fn _ _ ha.1 hb.1 d2
  have w2s : (vScale (⟨(H.val a).dims, List.zipWith Cmp.eq.fn (H.val a).data (H.val b).data⟩ : Tensor ℝ) Scalar.half).WF := by
    unfold vScale; exact map_wf _ _ w2
  obtain ⟨r3, e3, d3, w3⟩ := C09.vArith_same_total .sub _ _ w1 w2s (by simp only [vScale, Tensor.map]; exact d1)
  obtain ⟨r4, e4, d4, w4⟩ := C09.vArith_same_total .mul gy r3 hg.1 w3 (by rw [d3, hg.2, hy.2])
  refine ⟨r4, ?_, w4, by rw [d4, hg.2]⟩
  simp only [evalRule, bind, Out.bind, c1, c2, e3, e4]

/-- **the clip segment inside any walk** (see the header) -/
theorem clip_in_walk {ι : Type} (bm : BMode) (H : Heap ℝ) (root x k : Nat) {d : List Nat} {Z : List ι}
    (hZ : Z.length = prod d) (hd : ∀ y ∈ d, 0 < y) (f : ι → ℝ) (l u : ℝ)
    (hdag : HeapDag H) (htr : H.tracked root = true) (hok : (backprop bm H root).status = .ok ())
    (sx : H.val x = ⟨d, Z.map f⟩) (tx : H.tracked x = true) (gx : H.grad x = none)
    (s0 : St H k ⟨d, Z.map (fun _ => 1)⟩ true [⟨x, .powX x 0⟩])
    (s1 : St H (k + 1) ⟨d, Z.map (fun _ => l)⟩ true [⟨k, .scaleX l⟩])
    (s2 : St H (k + 2) ⟨d, Z.map (fun _ => u)⟩ true [⟨k, .scaleX u⟩])
    (s3 : St H (k + 3) ⟨d, Z.map (fun z => min (f z) u)⟩ true
      [⟨x, .elext (k + 3) x (k + 2)⟩, ⟨k + 2, .elext (k + 3) (k + 2) x⟩])
    (s4 : St H (k + 4) ⟨d, Z.map (fun z => max l (min (f z) u))⟩ true
      [⟨k + 1, .elext (k + 4) (k + 1) (k + 3)⟩, ⟨k + 3, .elext (k + 4) (k + 3) (k + 1)⟩])
    (hxk : x < k) (gnew : ∀ i, i ≤ 3 → H.grad (k + i) = none)
    (hroot : root ≠ x) (hroot' : ∀ i, i ≤ 3 → root ≠ k + i)
    (hsole : ∀ v ∈ backwardOrder H root, (v < k ∨ k + 4 < v) → ∀ e ∈ (H.ctx v).edges,
      e.target ≠ x ∧ ¬ (k ≤ e.target ∧ e.target ≤ k + 3))
    (g : ι → ℝ) (hy : k + 4 ∈ backwardOrder H root)
    (f4 : (backprop bm H root).heap.grad (k + 4) = some ⟨d, Z.map g⟩) :
    (backprop bm H root).heap.grad x = some ⟨d, Z.map (fun z => g z * clipD l u (f z))⟩ := by
  obtain ⟨e0t, e0⟩ := st_facts s0
  obtain ⟨e1t, e1⟩ := st_facts s1
  obtain ⟨e2t, e2⟩ := st_facts s2
  obtain ⟨e3t, e3⟩ := st_facts s3
  obtain ⟨e4t, e4⟩ := st_facts s4
  obtain ⟨_, hcl, _, hnd⟩ := backwardOrder_spec H root hdag htr
  -- who has an edge into x or into an internal tensor
  have hcases : ∀ v ∈ backwardOrder H root, ∀ e ∈ (H.ctx v).edges,
      (e.target = x → v = k ∨ v = k + 3) ∧ (e.target = k → v = k + 1 ∨ v = k + 2) ∧ (e.target = k + 1 → v = k + 4) ∧
      (e.target = k + 2 → v = k + 3) ∧ (e.target = k + 3 → v = k + 4) := by
    intro v hv e he
    by_cases hvk : v < k ∨ k + 4 < v
    · obtain ⟨a1, a2⟩ := hsole v hv hvk e he
      refine ⟨fun h => absurd h a1, fun h => ?_, fun h => ?_, fun h => ?_, fun h => ?_⟩ <;> exact absurd (by omega) a2
    · obtain ⟨i, hi, rfl⟩ : ∃ i, i ≤ 4 ∧ v = k + i := ⟨v - k, by omega, by omega⟩
      interval_cases i
      · rw [Nat.add_zero, e0] at he; simp at he; subst he; simp; omega
      · rw [e1] at he; simp at he; subst he; simp; omega
      · rw [e2] at he; simp at he; subst he; simp; omega
      · rw [e3] at he; simp at he; rcases he with rfl | rfl <;> simp <;> omega
      · rw [e4] at he; simp at he; rcases he with rfl | rfl <;> simp <;> omega
  have mem_of (u v : Nat) (hu : u ∈ backwardOrder H root) (r' : Rule ℝ) (he : (⟨v, r'⟩ : Edge ℝ) ∈ (H.ctx u).edges)
      (hv : H.tracked v = true) : v ∈ backwardOrder H root := by
    apply hcl u hu
    unfold succs
    exact List.mem_filter.mpr ⟨List.mem_map.mpr ⟨⟨v, r'⟩, he, rfl⟩, hv⟩
  have m4 := hy
  have m3 := mem_of _ (k + 3) m4 (.elext (k + 4) (k + 3) (k + 1)) (by rw [e4]; simp) e3t
  have m1 := mem_of _ (k + 1) m4 (.elext (k + 4) (k + 1) (k + 3)) (by rw [e4]; simp) e1t
  have m2 := mem_of _ (k + 2) m3 (.elext (k + 3) (k + 2) x) (by rw [e3]; simp) e2t
  have m0 := mem_of _ k m1 (.scaleX l) (by rw [e1]; simp) e0t
  let Hm := markDirty H (backwardOrder H root)
  have hv1 : ∀ n, Hm.val n = H.val n := fun n => markDirty_val _ _ n
  have vx : Hm.val x = ⟨d, Z.map f⟩ := by rw [hv1]; exact sx
  have v1 : Hm.val (k + 1) = ⟨d, Z.map (fun _ => l)⟩ := by rw [hv1]; exact s1.val
  have v2 : Hm.val (k + 2) = ⟨d, Z.map (fun _ => u)⟩ := by rw [hv1]; exact s2.val
  have v3 : Hm.val (k + 3) = ⟨d, Z.map (fun z => min (f z) u)⟩ := by rw [hv1]; exact s3.val
  have v4 : Hm.val (k + 4) = ⟨d, Z.map (fun z => max l (min (f z) u))⟩ := by rw [hv1]; exact s4.val
  -- k+3 and k+1 from the result
  let g3 : ι → ℝ := fun z => g z * ((if Scalar.near (max l (min (f z) u)) (min (f z) u) then 1 else 0)
    - (1 / 2) * (if Scalar.near (min (f z) u) l then 1 else 0))
  have r43 : evalRule bm Hm ⟨d, Z.map g⟩ (.elext (k + 4) (k + 3) (k + 1)) = .ok ⟨d, Z.map g3⟩ :=
    r_elext bm Hm hZ hd v4 v3 v1 g
  have f3 := grad_single' bm H root hdag htr hok (k + 3) (k + 4) m4 (hroot' 3 (by omega)).symm (gnew 3 (by omega)) e3t
    _ (by rw [e4]; simp [List.filter_cons])
    (by intro v hv hne e he het; have := (hcases v hv e he).2.2.2.2 het; exact hne this)
    _ _ f4 r43
  have r41 := r_elext bm Hm hZ hd v4 v1 v3 g
  have f1 := grad_single' bm H root hdag htr hok (k + 1) (k + 4) m4 (hroot' 1 (by omega)).symm (gnew 1 (by omega)) e1t
    _ (by rw [e4]; simp [List.filter_cons])
    (by intro v hv hne e he het; have := (hcases v hv e he).2.2.1 het; exact hne this)
    _ _ f4 r41
  -- k+2 from k+3
  have r32 := r_elext bm Hm hZ hd v3 v2 vx g3
  have f2 := grad_single' bm H root hdag htr hok (k + 2) (k + 3) m3 (hroot' 2 (by omega)).symm (gnew 2 (by omega)) e2t
    _ (by rw [e3]; simp [List.filter_cons]; omega)
    (by intro v hv hne e he het; have := (hcases v hv e he).2.2.2.1 het; exact hne this)
    _ _ f3 r32
  -- k from k+1 and k+2
  have r10 := fun g' => r_scale bm Hm (d := d) (Z := Z) l g'
  have r20 := fun g' => r_scale bm Hm (d := d) (Z := Z) u g'
  have f0 := grad_two bm H root hdag htr hok k (k + 1) (k + 2) m1 m2 (by omega)
    (by have := (hroot' 0 (by omega)).symm; simpa using this) (by simpa using gnew 0 (by omega)) e0t _ _
    (by rw [e1]; simp [List.filter_cons]) (by rw [e2]; simp [List.filter_cons])
    (by intro v hv h1 h2 e he het; rcases (hcases v hv e he).2.1 het with h | h; exact h1 h; exact h2 h)
    _ _ _ _ _ f1 f2 (r10 _) (r20 _) d ⟨wf_map hZ hd _, rfl⟩ ⟨wf_map hZ hd _, rfl⟩ (add_maps hZ hd _ _)
  -- x from k and k+3
  have r0x : ∀ G : Tensor ℝ, evalRule bm Hm G (.powX x 0) = .ok ⟨d, Z.map (fun _ => 0)⟩ := fun G => by
    have := r_pow0 bm Hm (d := d) (Z := Z) G vx
    rwa [zero_eq] at this
  have r3x := r_elext bm Hm hZ hd v3 vx v2 g3
  have fx := grad_two bm H root hdag htr hok x k (k + 3) m0 m3 (by omega) hroot.symm gx tx _ _
    (by rw [e0]; simp [List.filter_cons]) (by rw [e3]; simp [List.filter_cons]; omega)
    (by intro v hv h1 h2 e he het; rcases (hcases v hv e he).1 het with h | h; exact h1 h; exact h2 h)
    _ _ _ _ _ f0 f3 (r0x _) r3x d ⟨wf_map hZ hd _, rfl⟩ ⟨wf_map hZ hd _, rfl⟩ (add_maps hZ hd _ _)
  rw [fx]
  congr 2
  apply List.map_congr_left
  intro z _
  simp only [clipD]
  ring


/-- every heap `clip` produces from a reachable heap is reachable -/
theorem reach_clip {ι : Type} {bm : BMode} {H : Heap ℝ} {x : Nat} {trx : Bool} {esx : List (Edge ℝ)} {d : List Nat}
    {Z : List ι} (hZ : Z.length = prod d) (hd : ∀ x ∈ d, 0 < x) {f : ι → ℝ} (hR : Reach bm H)
    (hx : St H x ⟨d, Z.map f⟩ trx esx) (l u : ℝ) {r : Nat} {H' : Heap ℝ} (h : clip x l u H = .ok (r, H')) :
    Reach bm H' := by
  obtain ⟨H1, r1, e1, s1, st1⟩ := g_pow hx (Scalar.zero : ℝ)
  have v1 : vPow (⟨d, Z.map f⟩ : Tensor ℝ) Scalar.zero = ⟨d, Z.map (fun _ => 1)⟩ := by
    simp only [vPow, Tensor.map, List.map_map, Function.comp_def, pow_eq, zero_eq, Real.rpow_zero]
  rw [v1] at st1
  obtain ⟨H2, r2, e2, s2, st2⟩ := g_scale st1 l
  have v2 : ∀ a : ℝ, vScale (⟨d, Z.map (fun _ => (1 : ℝ))⟩ : Tensor ℝ) a = ⟨d, Z.map (fun _ => a)⟩ := by
    intro a
    simp only [vScale, Tensor.map, List.map_map, Function.comp_def, mul_eq, mul_one]
  rw [v2] at st2
  obtain ⟨H3, r3, e3, s3, st3⟩ := g_scale (st1.mono e2) u
  rw [v2] at st3
  obtain ⟨H4, r4, e4, s4, st4⟩ := g_ext .elmin (Or.inr rfl) ((hx.mono (e1.trans e2)).mono e3) st3 _
    (vCmp_same .elmin _ _ (wf_map hZ hd f) (wf_map hZ hd _) rfl)
  simp only [C14.zipWith_maps, Cmp.fn, min_eq, Bool.or_self] at st4
  obtain ⟨H5, r5, e5, s5, st5⟩ := g_ext .elmax (Or.inl rfl) ((st2.mono e3).mono e4) st4 _
    (vCmp_same .elmax _ _ (wf_map hZ hd _) (wf_map hZ hd _) rfl)
  have hc : clip x l u H = .ok (H4.size, H5) := by
    unfold clip
    rw [bind_run r1, bind_run r2, bind_run r3, bind_run r4, r5]
  rw [hc] at h
  injection h with h
  injection h with _ h
  subst h
  have R1 := Reach.pow hR hx.lt r1
  have R2 := Reach.scale R1 st1.lt r2
  have R3 := Reach.scale R2 (st1.mono e2).lt r3
  have R4 := Reach.cmp R3 ((hx.mono (e1.trans e2)).mono e3).lt st3.lt r4
  exact Reach.cmp R4 ((st2.mono e3).mono e4).lt st4.lt r5

/-- the value the path loss → `p̂` of the CE graph delivers, explicitly (the first half of `ce_local_vjp_gen`) -/
theorem ce_pathA_val {ι : Type} (bm : BMode) (H : Heap ℝ) (N : CeIds) (m n : Nat) (hm : 0 < m) (hn : 0 < n)
    (Z : List ι) (hZmn : Z.length = m * n) (fP τ : ι → ℝ) (hv : CeVals H N m n Z fP τ) (c : ℝ) :
    pullPath bm H N.pathA ⟨[], [c]⟩
      = .ok ⟨[m, n], Z.map (fun z => -1 * (1 / (m : ℝ) * c) * τ z * (1 / pHat (fP z)))⟩ := by
  have hZ : Z.length = prod [m, n] := by simp [prod, hZmn]
  have hd : ∀ x ∈ [m, n], 0 < x := by simp; omega
  have e0 := r_avg1 bm H (Z := List.range m) N.ln m c hm hv.ln (by simp)
  have e1 := r_scale bm H (d := [m]) (Z := List.range m) (-1) (fun _ => 1 / (m : ℝ) * c)
  have e2 : evalRule bm H ⟨[m], (List.range m).map (fun _ => -1 * (1 / (m : ℝ) * c))⟩ (.sumAlongX N.s 1)
      = .ok ⟨[m, n], Z.map (fun _ => -1 * (1 / (m : ℝ) * c))⟩ := by
    simp only [evalRule, hv.s]
    rw [List.map_const', List.length_range, reducerBroadcasted_const _ m n hm hn, List.map_const', hZmn]
  have a2 := r_mul bm H hZ hd hv.tb (fun z => -1 * (1 / (m : ℝ) * c))
  have a3 := r_log bm H hZ hd hv.ph (fun z => -1 * (1 / (m : ℝ) * c) * τ z)
  unfold CeIds.pathA
  rw [pullPath_cons bm H e0, pullPath_cons bm H e1, pullPath_cons bm H e2, pullPath_cons bm H a2,
    pullPath_cons bm H (r_bcast bm H _ (by rw [hv.lg, hv.lgb])), pullPath_cons bm H a3, pullPath_nil]

/-- **CE, end to end, with the footprint of the loss graph**: the run allocates exactly seventeen tensors, the loss is the
    last one and is tracked, every TRACKED new tensor has back edges only into new tensors or into the prediction, and after a
    successful `BackPropagate(loss)` the prediction holds `ceGrad 1 m t̂ p` -/
theorem ce_backprop_full (bm : BMode) (H : Heap ℝ) (p t m n : Nat) (hR : Reach bm H) (hp : p < H.size) (ht : t < H.size)
    (wp : (H.val p).WF) (wt : (H.val t).WF) (dp : (H.val p).dims = [m, n]) (dt : (H.val t).dims = [m, n])
    (hpt : H.tracked p = true) (hpc : H.dirty p = false) (htt : H.tracked t = false) (htc : H.dirty t = false) :
    ∃ H', lossCompute Loss.ce (some p) (some t) H = .ok (H.size + 16, H') ∧ Extends H H' ∧ H'.size = H.size + 17 ∧
      Reach bm H' ∧ H'.tracked (H.size + 16) = true ∧
      (∀ v, H.size ≤ v → H'.tracked v = true → ∀ e ∈ (H'.ctx v).edges, H.size ≤ e.target ∨ e.target = p) ∧
      (∀ (P : Nat → Tensor ℝ → Prop),
        (∀ k a b, P k a → P k b → ∃ s, vArith .add a b = .ok s ∧ P k s) →
        (∀ g, Shaped [m, n] g → P p g) →
        (∀ k ∈ backwardOrder H' (H.size + 16), k < H.size → ∀ g, H'.grad k = some g → P k g) →
        (∀ u ∈ backwardOrder H' (H.size + 16), u < H.size → ∀ e ∈ (H'.ctx u).edges, H'.tracked e.target = true →
          ∀ gy, P u gy → ∃ g, evalRule bm (markDirty H' (backwardOrder H' (H.size + 16))) gy e.rule = .ok g ∧ P e.target g) →
        (backprop bm H' (H.size + 16)).status = .ok ()) ∧
      ((backprop bm H' (H.size + 16)).status = .ok () →
        p ∈ backwardOrder H' (H.size + 16) ∧
        (backprop bm H' (H.size + 16)).heap.grad p
          = some ⟨[m, n], List.zipWith (fun tv pv => ceGrad 1 m (tHat tv) pv) (H.val t).data (H.val p).data⟩) := by
  have hm : 0 < m := wp.2 m (by rw [dp]; simp)
  have hn : 0 < n := wp.2 n (by rw [dp]; simp)
  have lp : (H.val p).data.length = m * n := by rw [wp.1, dp]; simp [prod]
  have lt' : (H.val t).data.length = m * n := by rw [wt.1, dt]; simp [prod]
  have hZmn : ((H.val t).data.zip (H.val p).data).length = m * n := by simp [lp, lt']
  have hZ : ((H.val t).data.zip (H.val p).data).length = prod [m, n] := by simp [prod, lp, lt']
  have hd : ∀ y ∈ [m, n], 0 < y := by simp; omega
  have t0 : St H t ⟨[m, n], ((H.val t).data.zip (H.val p).data).map (fun z => z.1)⟩ false (H.ctx t).edges :=
    ⟨ht, by rw [List.map_fst_zip (by omega), ← dt], htc, htt, fun h => by cases h⟩
  have p0 : St H p ⟨[m, n], ((H.val t).data.zip (H.val p).data).map (fun z => z.2)⟩ true (H.ctx p).edges :=
    ⟨hp, by rw [List.map_snd_zip (by omega), ← dp], hpc, hpt, fun _ => rfl⟩
  obtain ⟨H1, r1, e1, s1, a0, a1, a2, a3, yt1⟩ := g_clip hZ hd t0 (Scalar.zero : ℝ) Scalar.one
  have hth : (fun z : ℝ × ℝ => max (Scalar.zero : ℝ) (min z.1 Scalar.one)) = fun z => tHat z.1 := by
    funext z; simp only [tHat, clipR, zero_eq, one_eq]
  rw [hth] at yt1
  obtain ⟨H2, r2, e2, s2, q0, q1, q2, q3, q4⟩ := g_clip hZ hd (p0.mono e1) (Scalar.eps : ℝ) Scalar.oneMinusEps
  have hph : (fun z : ℝ × ℝ => max (Scalar.eps : ℝ) (min z.2 Scalar.oneMinusEps)) = fun z => pHat z.2 := by
    funext z; simp only [pHat, clipR, C12x.eps_val, C12x.oneMinusEps_val]
  have ph2 := q4
  rw [hph] at ph2
  obtain ⟨H3, r3, e3, s3, lg3⟩ := g_log ph2
  rw [vLog_map] at lg3
  obtain ⟨H4, r4, e4, s4, tb4, lgb4, sm4⟩ := g_arith hZ hd .mul (yt1.mono (e2.trans e3)) lg3
  rw [Bool.false_or] at sm4
  obtain ⟨H5, r5, e5, s5, l5⟩ := g_along sm4 .sum 1 _
    (C12x.vAlong_rank2_dim1 .sum _ m n rfl (wf_map hZ hd _))
  obtain ⟨H6, r6, e6, s6, ln6⟩ := g_scale l5 (Scalar.neg Scalar.one : ℝ)
  have hZ' : (List.range m).length = prod [m] := by simp [prod]
  have hd' : ∀ y ∈ [m], 0 < y := by simpa using hm
  obtain ⟨H7, r7, e7, s7, r_7⟩ := g_along ln6 .mean 0 _
    (C12.vAlong_rank1 .mean _ m rfl (map_wf _ _ (wf_map hZ' hd' _)))
  have hneg : (Scalar.neg Scalar.one : ℝ) = -1 := by simp only [neg_eq, one_eq]
  rw [hneg] at ln6
  have hrule1 : alongRule (α := ℝ) .sum (H3.size + 2) H4.size (1 : Int).toNat = .sumAlongX (H3.size + 2) 1 := rfl
  rw [hrule1] at l5
  have hrule : alongRule (α := ℝ) .mean H5.size H6.size (0 : Int).toNat = .avgAlongX H5.size 0 := rfl
  rw [hrule] at r_7
  -- reachability
  have R1 := reach_clip hZ hd hR t0 _ _ r1
  have R2 := reach_clip hZ hd R1 (p0.mono e1) _ _ r2
  have R3 := Reach.unary R2 q4.lt r3
  have R4 := Reach.arith R3 (yt1.mono (e2.trans e3)).lt lg3.lt r4
  have R5 := Reach.along R4 sm4.lt r5
  have R6 := Reach.scale R5 l5.lt r6
  have R7 := Reach.along R6 ln6.lt r7
  have hrun : lossCompute Loss.ce (some p) (some t) H = .ok (H6.size, H7) := by
    unfold lossCompute
    rw [bind_run (show (getHeap : HM ℝ (Heap ℝ)) H = .ok (H, H) from rfl)]
    have hv : lossValid H Loss.ce (some p) (some t) = .ok (p, t) := by simp [lossValid, dp, dt]
    rw [bind_run (show (liftOut (lossValid H Loss.ce (some p) (some t)) : HM ℝ (Nat × Nat)) H = .ok ((p, t), H) by rw [hv]; rfl)]
    simp only []
    rw [bind_run r1, bind_run r2, bind_run r3, bind_run r4, bind_run r5, bind_run r6]
    exact r7
  have i1 : H1.size = H.size + 5 := s1
  have i2 : H2.size = H.size + 10 := by omega
  have i3 : H3.size = H.size + 11 := by omega
  have i4 : H4.size = H.size + 14 := by omega
  have i5 : H5.size = H.size + 15 := by omega
  have i6 : H6.size = H.size + 16 := by omega
  have hdag := reach_dag R7
  have f6 : Extends H6 H7 := e7
  have f5 : Extends H5 H7 := e6.trans f6
  have f4 : Extends H4 H7 := e5.trans f5
  have f3 : Extends H3 H7 := e4.trans f4
  have f2 : Extends H2 H7 := e3.trans f3
  have f1 : Extends H1 H7 := e2.trans f2
  have f0 : Extends H H7 := e1.trans f1
  have Pp := p0.mono f0
  have Q0 := q0.mono f2
  have Q1 := q1.mono f2
  have Q2 := q2.mono f2
  have Q3 := q3.mono f2
  have Q4 := q4.mono f2
  have Pph := ph2.mono f2
  have Plg := lg3.mono f3
  have Ptb := tb4.mono f4
  have Plgb := lgb4.mono f4
  have Ps := sm4.mono f4
  have Pl := l5.mono f5
  have Pln := ln6.mono f6
  obtain ⟨t16, ed16⟩ := st_facts r_7
  obtain ⟨t15, ed15⟩ := st_facts Pln
  obtain ⟨t14, ed14⟩ := st_facts Pl
  obtain ⟨t13, ed13⟩ := st_facts Ps
  obtain ⟨t12, ed12⟩ := st_facts Plgb
  obtain ⟨t10, ed10⟩ := st_facts Plg
  obtain ⟨t9, ed9⟩ := st_facts Q4
  obtain ⟨t8, ed8⟩ := st_facts Q3
  obtain ⟨t7, ed7⟩ := st_facts Q2
  obtain ⟨t6, ed6⟩ := st_facts Q1
  obtain ⟨t5, ed5⟩ := st_facts Q0
  have tp : H7.tracked p = true := Pp.tracked
  have t11 : H7.tracked H3.size = false := Ptb.tracked
  have hfoot : ∀ v, H.size ≤ v → H7.tracked v = true → ∀ e ∈ (H7.ctx v).edges, H.size ≤ e.target ∨ e.target = p := by
    intro v hv hvt e he
    have hlt := tracked_lt_size H7 v hvt
    have hc : v = H.size ∨ v = H.size + 1 ∨ v = H.size + 2 ∨ v = H.size + 3 ∨ v = H.size + 4 ∨ v = H1.size ∨
        v = H1.size + 1 ∨ v = H1.size + 2 ∨ v = H1.size + 3 ∨ v = H1.size + 4 ∨ v = H2.size ∨ v = H3.size ∨
        v = H3.size + 1 ∨ v = H3.size + 2 ∨ v = H4.size ∨ v = H5.size ∨ v = H6.size := by omega
    rcases hc with rfl | rfl | rfl | rfl | rfl | rfl | rfl | rfl | rfl | rfl | rfl | rfl | rfl | rfl | rfl | rfl | rfl
    · rw [(a0.mono f1).tracked] at hvt; cases hvt
    · rw [(a1.mono f1).tracked] at hvt; cases hvt
    · rw [(a2.mono f1).tracked] at hvt; cases hvt
    · rw [(a3.mono f1).tracked] at hvt; cases hvt
    · rw [(yt1.mono f1).tracked] at hvt; cases hvt
    · rw [ed5] at he; simp at he; subst he; simp
    · rw [ed6] at he; simp at he; subst he; simp; omega
    · rw [ed7] at he; simp at he; subst he; simp; omega
    · rw [ed8] at he; simp at he; rcases he with rfl | rfl <;> simp <;> omega
    · rw [ed9] at he; simp at he; rcases he with rfl | rfl <;> simp <;> omega
    · rw [ed10] at he; simp at he; subst he; simp; omega
    · rw [t11] at hvt; cases hvt
    · rw [ed12] at he; simp at he; subst he; simp; omega
    · rw [ed13] at he; simp [C13x.arithEdges] at he; rcases he with rfl | rfl <;> simp <;> omega
    · rw [ed14] at he; simp at he; subst he; simp; omega
    · rw [ed15] at he; simp at he; subst he; simp; omega
    · rw [ed16] at he; simp at he; subst he; simp; omega
  have hfresh := (fresh_lossCompute (α := ℝ) Loss.ce (some p) (some t) H _ _ hrun).2
  have gp : H7.grad p = none := by
    have := reach_clean_nograd hR p hpc
    simp only [Heap.grad, f0.ctx hp] at this ⊢; exact this
  obtain ⟨hroot, hcl, _, hnd⟩ := backwardOrder_spec H7 H6.size hdag t16
  -- the visited tensors
  have hM : ∀ v ∈ backwardOrder H7 H6.size, v = H6.size ∨ v = H5.size ∨ v = H4.size ∨ v = H3.size + 2 ∨ v = H3.size + 1 ∨
      v = H2.size ∨ (H1.size ≤ v ∧ v ≤ H1.size + 4) ∨ v ≤ p := by
    apply order_subset H7 H6.size
    · left; rfl
    · intro u hu v hv
      have hvt : H7.tracked v = true := by
        unfold succs at hv; exact (List.mem_filter.mp hv).2
      obtain ⟨e, he, rfl⟩ := mem_succs_edge H7 u v hv
      rcases hu with rfl | rfl | rfl | rfl | rfl | rfl | ⟨h1, h2⟩ | hle
      · rw [ed16] at he; simp at he; subst he; simp
      · rw [ed15] at he; simp at he; subst he; simp
      · rw [ed14] at he; simp at he; subst he; simp
      · rw [ed13] at he; simp [C13x.arithEdges] at he
        rcases he with rfl | rfl
        · simp at hvt; rw [t11] at hvt; cases hvt
        · simp
      · rw [ed12] at he; simp at he; subst he; simp
      · rw [ed10] at he; simp at he; subst he; simp
      · obtain ⟨i, hi, rfl⟩ : ∃ i, i ≤ 4 ∧ u = H1.size + i := ⟨u - H1.size, by omega, by omega⟩
        interval_cases i
        · rw [Nat.add_zero, ed5] at he; simp at he; subst he; simp
        · rw [ed6] at he; simp at he; subst he; simp
        · rw [ed7] at he; simp at he; subst he; simp
        · rw [ed8] at he; simp at he; rcases he with rfl | rfl <;> simp
        · rw [ed9] at he; simp at he; rcases he with rfl | rfl <;> simp
      · have := hdag u e he
        right; right; right; right; right; right; right; omega
  -- who has an edge into a tensor of the path, the clip or the prediction
  have hcases : ∀ v ∈ backwardOrder H7 H6.size, ∀ e ∈ (H7.ctx v).edges,
      (e.target = H5.size → v = H6.size) ∧ (e.target = H4.size → v = H5.size) ∧ (e.target = H3.size + 2 → v = H4.size) ∧
      (e.target = H3.size + 1 → v = H3.size + 2) ∧ (e.target = H2.size → v = H3.size + 1) ∧
      (e.target = H1.size + 4 → v = H2.size) ∧
      ((e.target = p ∨ (H1.size ≤ e.target ∧ e.target ≤ H1.size + 3)) → (H1.size ≤ v ∧ v ≤ H1.size + 4)) := by
    intro v hv e he
    rcases hM v hv with rfl | rfl | rfl | rfl | rfl | rfl | ⟨h1, h2⟩ | hle
    · rw [ed16] at he; simp at he; subst he; simp; omega
    · rw [ed15] at he; simp at he; subst he; simp; omega
    · rw [ed14] at he; simp at he; subst he; simp; omega
    · rw [ed13] at he; simp [C13x.arithEdges] at he
      rcases he with rfl | rfl <;> simp <;> omega
    · rw [ed12] at he; simp at he; subst he; simp; omega
    · rw [ed10] at he; simp at he; subst he; simp; omega
    · refine ⟨?_, ?_, ?_, ?_, ?_, ?_, fun _ => ⟨h1, h2⟩⟩ <;> intro het <;> have := hdag v e he <;> omega
    · have := hdag v e he
      refine ⟨?_, ?_, ?_, ?_, ?_, ?_, ?_⟩ <;> intro het <;> omega
  have mem_of (u v : Nat) (hu : u ∈ backwardOrder H7 H6.size) (r' : Rule ℝ) (he : (⟨v, r'⟩ : Edge ℝ) ∈ (H7.ctx u).edges)
      (hv : H7.tracked v = true) : v ∈ backwardOrder H7 H6.size := by
    apply hcl u hu
    unfold succs
    exact List.mem_filter.mpr ⟨List.mem_map.mpr ⟨⟨v, r'⟩, he, rfl⟩, hv⟩
  have wl : (H7.val H6.size).WF := by rw [r_7.val]; exact ⟨by simp [prod], by simp⟩
  have hrun16 : lossCompute Loss.ce (some p) (some t) H = .ok (H.size + 16, H7) := by rw [← i6]; exact hrun
  refine ⟨H7, hrun16, f0, by omega, R7, by rw [← i6]; exact t16, hfoot, ?_, ?_⟩
  · -- the walk succeeds as soon as the part below the prediction does
    rw [← i6]
    intro P hPadd hPp hPold hPedge
    obtain ⟨dimsOf, dO6, dO5, dO4, dOo⟩ : ∃ dimsOf : Nat → List Nat, dimsOf H6.size = [] ∧ dimsOf H5.size = [m] ∧
        dimsOf H4.size = [m] ∧ ∀ k, k ≠ H6.size → k ≠ H5.size → k ≠ H4.size → dimsOf k = [m, n] :=
      ⟨fun k => if k = H6.size then [] else if k = H5.size ∨ k = H4.size then [m] else [m, n],
        by simp, by simp; omega, by simp; omega, by intro k h1 h2 h3; simp [h1, h2, h3]⟩
    obtain ⟨P', hPn, hPo⟩ : ∃ P' : Nat → Tensor ℝ → Prop, (∀ k g, H.size ≤ k → (P' k g ↔ Shaped (dimsOf k) g)) ∧
        (∀ k g, k < H.size → (P' k g ↔ P k g)) :=
      ⟨fun k g => if H.size ≤ k then Shaped (dimsOf k) g else P k g, by intro k g hk; simp [hk],
        by intro k g hk; simp [show ¬ H.size ≤ k by omega]⟩
    have hv1 : ∀ k, (markDirty H7 (backwardOrder H7 H6.size)).val k = H7.val k := fun k => markDirty_val _ _ k
    have S_p : Shaped [m, n] ((markDirty H7 (backwardOrder H7 H6.size)).val p) := by
      rw [hv1, Pp.val]; exact ⟨wf_map hZ hd _, rfl⟩
    have S_1 : Shaped [m, n] ((markDirty H7 (backwardOrder H7 H6.size)).val (H1.size + 1)) := by
      rw [hv1, Q1.val]; exact ⟨wf_map hZ hd _, rfl⟩
    have S_2 : Shaped [m, n] ((markDirty H7 (backwardOrder H7 H6.size)).val (H1.size + 2)) := by
      rw [hv1, Q2.val]; exact ⟨wf_map hZ hd _, rfl⟩
    have S_3 : Shaped [m, n] ((markDirty H7 (backwardOrder H7 H6.size)).val (H1.size + 3)) := by
      rw [hv1, Q3.val]; exact ⟨wf_map hZ hd _, rfl⟩
    have S_4 : Shaped [m, n] ((markDirty H7 (backwardOrder H7 H6.size)).val (H1.size + 4)) := by
      rw [hv1, Q4.val]; exact ⟨wf_map hZ hd _, rfl⟩
    have S_tb : Shaped [m, n] ((markDirty H7 (backwardOrder H7 H6.size)).val H3.size) := by
      rw [hv1, Ptb.val]; exact ⟨wf_map hZ hd _, rfl⟩
    have S_s : Shaped [m, n] ((markDirty H7 (backwardOrder H7 H6.size)).val (H3.size + 2)) := by
      rw [hv1, Ps.val]; exact ⟨wf_map hZ hd _, rfl⟩
    have S_ln : Shaped [m] ((markDirty H7 (backwardOrder H7 H6.size)).val H5.size) := by
      rw [hv1, Pln.val]; exact ⟨map_wf _ _ (wf_map hZ' hd' _), rfl⟩
    have D_lg : ((markDirty H7 (backwardOrder H7 H6.size)).val H2.size).dims
        = ((markDirty H7 (backwardOrder H7 H6.size)).val (H3.size + 1)).dims := by rw [hv1, hv1, Plg.val, Plgb.val]
    have hfresh := (fresh_lossCompute (α := ℝ) Loss.ce (some p) (some t) H _ _ hrun).2
    have hMv := hM
    apply backprop_ok bm H7 H6.size hdag t16 P'
    · intro k a b ha hb
      by_cases hk : H.size ≤ k
      · rw [hPn k _ hk] at ha hb
        obtain ⟨s, e1, e2⟩ := shaped_add_ok _ a b ha hb
        exact ⟨s, e1, (hPn k _ hk).mpr e2⟩
      · rw [hPo k _ (by omega)] at ha hb
        obtain ⟨s, e1, e2⟩ := hPadd k a b ha hb
        exact ⟨s, e1, (hPo k _ (by omega)).mpr e2⟩
    · intro k hk g hg
      by_cases hk2 : H.size ≤ k
      · rw [hfresh k hk2] at hg; cases hg
      · exact (hPo k _ (by omega)).mpr (hPold k hk (by omega) g hg)
    · rw [hPn _ _ (by omega), dO6]
      have := ones_shaped (H7.val H6.size) wl
      rw [r_7.val] at this ⊢
      exact this
    · intro u hu e he htr gy hgy
      rcases hMv u hu with rfl | rfl | rfl | rfl | rfl | rfl | ⟨h1, h2⟩ | hle
      · -- the loss: MeanAlong(0)
        rw [ed16] at he; simp at he; subst he; dsimp only
        rw [hPn _ _ (by omega), dO6] at hgy
        obtain ⟨r, e, hdm, wr, _⟩ := C02x.rule_avgAlong bm (markDirty H7 (backwardOrder H7 H6.size)) gy H5.size 0 S_ln.1
          (by rw [S_ln.2]; simp) hgy.1 (by rw [S_ln.2, hgy.2]; rfl)
        exact ⟨r, e, (hPn _ _ (by omega)).mpr (by rw [dO5]; exact ⟨wr, by rw [hdm, S_ln.2]⟩)⟩
      · -- Scale(−1)
        rw [ed15] at he; simp at he; subst he; dsimp only
        rw [hPn _ _ (by omega), dO5] at hgy
        refine ⟨_, C02.rule_scale bm _ gy (-1), (hPn _ _ (by omega)).mpr ?_⟩
        rw [dO4]
        exact ⟨⟨by simp [hgy.1.1], hgy.1.2⟩, hgy.2⟩
      · -- SumAlong(1)
        rw [ed14] at he; simp at he; subst he; dsimp only
        rw [hPn _ _ (by omega), dO4] at hgy
        obtain ⟨r, e, hdm, wr, _⟩ := C02x.rule_sumAlong bm (markDirty H7 (backwardOrder H7 H6.size)) gy (H3.size + 2) 1 S_s.1
          (by rw [S_s.2]; simp) hgy.1 (by rw [S_s.2, hgy.2]; rfl)
        exact ⟨r, e, (hPn _ _ (by omega)).mpr (by rw [dOo _ (by omega) (by omega) (by omega)]; exact ⟨wr, by rw [hdm, S_s.2]⟩)⟩
      · -- Mul: towards Broadcast(log p̂)
        rw [ed13] at he; simp [C13x.arithEdges] at he
        rw [hPn _ _ (by omega), dOo _ (by omega) (by omega) (by omega)] at hgy
        rcases he with rfl | rfl
        · simp at htr; rw [t11] at htr; cases htr
        · dsimp only
          have hdd : gy.dims = ((markDirty H7 (backwardOrder H7 H6.size)).val H3.size).dims := by rw [hgy.2, S_tb.2]
          refine ⟨_, (C02.rule_mul_div bm _ gy H3.size H3.size hgy.1 S_tb.1 S_tb.1 hdd hdd).1, (hPn _ _ (by omega)).mpr ?_⟩
          rw [dOo _ (by omega) (by omega) (by omega)]
          exact ⟨zip_wf _ gy _ hgy.1 S_tb.1 hdd, hgy.2⟩
      · -- Broadcast(log p̂): equal shapes
        rw [ed12] at he; simp at he; subst he; dsimp only
        rw [hPn _ _ (by omega), dOo _ (by omega) (by omega) (by omega)] at hgy
        exact ⟨gy, r_bcast bm _ gy D_lg, (hPn _ _ (by omega)).mpr (by rw [dOo _ (by omega) (by omega) (by omega)]; exact hgy)⟩
      · -- Log
        rw [ed10] at he; simp at he; subst he; dsimp only
        rw [hPn _ _ (by omega), dOo _ (by omega) (by omega) (by omega)] at hgy
        have hdd : gy.dims = ((markDirty H7 (backwardOrder H7 H6.size)).val (H1.size + 4)).dims := by rw [hgy.2, S_4.2]
        refine ⟨_, C02.rule_log bm _ gy (H1.size + 4) hgy.1 S_4.1 hdd, (hPn _ _ (by omega)).mpr ?_⟩
        rw [dOo _ (by omega) (by omega) (by omega)]
        exact ⟨zip_wf _ gy _ hgy.1 S_4.1 hdd, hgy.2⟩
      · -- the clip
        obtain ⟨i, hi, rfl⟩ : ∃ i, i ≤ 4 ∧ u = H1.size + i := ⟨u - H1.size, by omega, by omega⟩
        rw [hPn _ _ (by omega), dOo _ (by omega) (by omega) (by omega)] at hgy
        have toP : ∀ g, Shaped [m, n] g → P' p g := fun g hg => (hPo p g hp).mpr (hPp g hg)
        have toN : ∀ j g, j ≤ 3 → Shaped [m, n] g → P' (H1.size + j) g := fun j g hj hg =>
          (hPn _ _ (by omega)).mpr (by rw [dOo _ (by omega) (by omega) (by omega)]; exact hg)
        interval_cases i
        · rw [Nat.add_zero, ed5] at he; simp at he; subst he; dsimp only
          have := r_pow0 bm (markDirty H7 (backwardOrder H7 H6.size)) (d := [m, n]) gy ((hv1 p).trans Pp.val)
          rw [zero_eq] at this
          exact ⟨_, this, toP _ ⟨wf_map hZ hd _, rfl⟩⟩
        · rw [ed6] at he; simp at he; subst he; dsimp only
          exact ⟨_, C02.rule_scale bm _ gy _, toN 0 _ (by omega) ⟨⟨by simp [hgy.1.1], hgy.1.2⟩, hgy.2⟩⟩
        · rw [ed7] at he; simp at he; subst he; dsimp only
          exact ⟨_, C02.rule_scale bm _ gy _, toN 0 _ (by omega) ⟨⟨by simp [hgy.1.1], hgy.1.2⟩, hgy.2⟩⟩
        · rw [ed8] at he; simp at he
          rcases he with rfl | rfl <;> dsimp only
          · obtain ⟨r, e1, e2⟩ := elext_ok bm _ gy (H1.size + 3) p (H1.size + 2) [m, n] hgy S_3 S_p S_2
            exact ⟨r, e1, toP r e2⟩
          · obtain ⟨r, e1, e2⟩ := elext_ok bm _ gy (H1.size + 3) (H1.size + 2) p [m, n] hgy S_3 S_2 S_p
            exact ⟨r, e1, toN 2 r (by omega) e2⟩
        · rw [ed9] at he; simp at he
          rcases he with rfl | rfl <;> dsimp only
          · obtain ⟨r, e1, e2⟩ := elext_ok bm _ gy (H1.size + 4) (H1.size + 1) (H1.size + 3) [m, n] hgy S_4 S_1 S_3
            exact ⟨r, e1, toN 1 r (by omega) e2⟩
          · obtain ⟨r, e1, e2⟩ := elext_ok bm _ gy (H1.size + 4) (H1.size + 3) (H1.size + 1) [m, n] hgy S_4 S_3 S_1
            exact ⟨r, e1, toN 3 r (by omega) e2⟩
      · -- below the prediction
        rw [hPo u _ (by omega)] at hgy
        obtain ⟨g, e1, e2⟩ := hPedge u hu (by omega) e he htr gy hgy
        exact ⟨g, e1, (hPo _ _ (by have := hdag u e he; omega)).mpr e2⟩
  rw [← i6]
  intro hok
  -- the root's gradient
  have f16 : (backprop bm H7 H6.size).heap.grad H6.size = some ⟨[], [1]⟩ := by
    have := grad_root bm H7 H6.size hdag t16 hok (hfresh _ (by omega)) wl
    rw [r_7.val] at this
    simpa [vPow, Tensor.map] using this
  let N : CeIds := {
    p := p, lo := H1.size + 1, up := H1.size + 2, pmin := H1.size + 3, ph := H1.size + 4,
    lg := H2.size, tb := H3.size, lgb := H3.size + 1, s := H3.size + 2, ln := H5.size }
  have pA : SolePath H7 H6.size H6.size N.pathA (H1.size + 4) := by
    unfold CeIds.pathA
    refine .cons (t := H5.size) (by rw [ed16]; simp [List.filter_cons, N]) ?_ t15 (hfresh _ (by omega)) (by omega) ?_
    · intro v hv hne e he het; exact hne ((hcases v hv e he).1 het)
    refine .cons (t := H4.size) (by rw [ed15]; simp [List.filter_cons]) ?_ t14 (hfresh _ (by omega)) (by omega) ?_
    · intro v hv hne e he het; exact hne ((hcases v hv e he).2.1 het)
    refine .cons (t := H3.size + 2) (by rw [ed14]; simp [List.filter_cons, N]) ?_ t13 (hfresh _ (by omega)) (by omega) ?_
    · intro v hv hne e he het; exact hne ((hcases v hv e he).2.2.1 het)
    refine .cons (t := H3.size + 1) (by rw [ed13]; simp [C13x.arithEdges, List.filter_cons, N]) ?_ t12 (hfresh _ (by omega))
      (by omega) ?_
    · intro v hv hne e he het; exact hne ((hcases v hv e he).2.2.2.1 het)
    refine .cons (t := H2.size) (by rw [ed12]; simp [List.filter_cons, N]) ?_ t10 (hfresh _ (by omega)) (by omega) ?_
    · intro v hv hne e he het; exact hne ((hcases v hv e he).2.2.2.2.1 het)
    refine .cons (t := H1.size + 4) (by rw [ed10]; simp [List.filter_cons, N]) ?_ t9 (hfresh _ (by omega)) (by omega) (.nil _)
    · intro v hv hne e he het; exact hne ((hcases v hv e he).2.2.2.2.2.1 het)
  obtain ⟨G9, pg1, pg2, m9⟩ := grad_path bm H7 H6.size hdag t16 hok _ _ _ pA _ hroot f16
  have hv1 : ∀ k, (markDirty H7 (backwardOrder H7 H6.size)).val k = H7.val k := fun k => markDirty_val _ _ k
  have hvals : CeVals (markDirty H7 (backwardOrder H7 H6.size)) N m n ((H.val t).data.zip (H.val p).data)
      (fun z => z.2) (fun z => tHat z.1) := {
    p := (by rw [hv1]; exact Pp.val)
    lo := (by rw [hv1, ← C12x.eps_val]; exact Q1.val)
    up := (by rw [hv1, ← C12x.oneMinusEps_val]; exact Q2.val)
    pmin := (by rw [hv1, ← C12x.oneMinusEps_val]; exact Q3.val)
    ph := (by rw [hv1]; exact Pph.val)
    tb := (by rw [hv1]; exact Ptb.val)
    lg := (by rw [hv1]; exact congrArg Tensor.dims Plg.val)
    lgb := (by rw [hv1]; exact congrArg Tensor.dims Plgb.val)
    s := (by rw [hv1]; exact congrArg Tensor.dims Ps.val)
    ln := (by rw [hv1]; exact congrArg Tensor.dims Pln.val) }
  have hA := ce_pathA_val bm _ N m n hm hn _ hZmn _ _ hvals 1
  rw [pullPath_eq_evalPath] at hA
  rw [hA] at pg1
  injection pg1 with pg1
  subst pg1
  have fp := clip_in_walk bm H7 H6.size p H1.size hZ hd (fun z => z.2) (Scalar.eps : ℝ) Scalar.oneMinusEps hdag t16 hok
    Pp.val tp gp Q0 Q1 Q2 Q3 Q4 (by omega) (fun i hi => hfresh _ (by omega)) (by omega) (fun i hi => by omega)
    (by
      intro v hv hvk e he
      have h7 := (hcases v hv e he).2.2.2.2.2.2
      refine ⟨fun h => ?_, fun h => ?_⟩
      · have := h7 (Or.inl h); omega
      · have := h7 (Or.inr h); omega)
    _ m9 pg2
  refine ⟨?_, ?_⟩
  · have m8 := mem_of _ (H1.size + 3) m9 (.elext (H1.size + 4) (H1.size + 3) (H1.size + 1)) (by rw [ed9]; simp) t8
    exact mem_of _ p m8 (.elext (H1.size + 3) p (H1.size + 2)) (by rw [ed8]; simp) tp
  rw [fp, C12x.zipWith_as_map]
  congr 2
  apply List.map_congr_left
  intro z _
  simp only [ceGrad, C12x.eps_val, C12x.oneMinusEps_val]
  ring

/-- **CE, end to end** (see the header) -/
theorem ce_backprop (bm : BMode) (H : Heap ℝ) (p t m n : Nat) (hR : Reach bm H) (hp : p < H.size) (ht : t < H.size)
    (wp : (H.val p).WF) (wt : (H.val t).WF) (dp : (H.val p).dims = [m, n]) (dt : (H.val t).dims = [m, n])
    (hpt : H.tracked p = true) (hpc : H.dirty p = false) (htt : H.tracked t = false) (htc : H.dirty t = false) :
    ∃ r H', lossCompute Loss.ce (some p) (some t) H = .ok (r, H') ∧
      ((backprop bm H' r).status = .ok () →
        (backprop bm H' r).heap.grad p
          = some ⟨[m, n], List.zipWith (fun tv pv => ceGrad 1 m (tHat tv) pv) (H.val t).data (H.val p).data⟩) := by
  obtain ⟨H', hrun, _, _, _, _, _, _, hg⟩ := ce_backprop_full bm H p t m n hR hp ht wp wt dp dt hpt hpc htt htc
  exact ⟨_, H', hrun, fun hok => (hg hok).2⟩

/-- **CE on a leaf prediction: unconditional.** `BackPropagate` of the loss SUCCEEDS (the progress theorem `C01p.backprop_ok`
    with the per-edge acceptance of all seventeen tensors, exported by `ce_backprop_full`) and stores `ceGrad 1 m t̂ p` -/
theorem ce_backprop_leaf (bm : BMode) (H : Heap ℝ) (p t m n : Nat) (hR : Reach bm H) (hp : p < H.size) (ht : t < H.size)
    (wp : (H.val p).WF) (wt : (H.val t).WF) (dp : (H.val p).dims = [m, n]) (dt : (H.val t).dims = [m, n])
    (hpt : H.tracked p = true) (hpc : H.dirty p = false) (htt : H.tracked t = false) (htc : H.dirty t = false)
    (hleaf : (H.ctx p).edges = []) :
    ∃ r H', lossCompute Loss.ce (some p) (some t) H = .ok (r, H') ∧ (backprop bm H' r).status = .ok () ∧
      (backprop bm H' r).heap.grad p
        = some ⟨[m, n], List.zipWith (fun tv pv => ceGrad 1 m (tHat tv) pv) (H.val t).data (H.val p).data⟩ := by
  obtain ⟨H', hrun, hext, hsz, R', troot, hfoot, hokc, hg⟩ :=
    ce_backprop_full bm H p t m n hR hp ht wp wt dp dt hpt hpc htt htc
  have ep : (H'.ctx p).edges = [] := by rw [hext.ctx hp]; exact hleaf
  have gp : H'.grad p = none := by
    have := reach_clean_nograd hR p hpc
    simp only [Heap.grad, hext.ctx hp] at this ⊢; exact this
  have hvis : ∀ v ∈ backwardOrder H' (H.size + 16), H'.tracked v = true ∧ (H.size ≤ v ∨ v = p) := by
    apply order_subset H' (H.size + 16) (fun v => H'.tracked v = true ∧ (H.size ≤ v ∨ v = p))
    · exact ⟨troot, Or.inl (by omega)⟩
    · intro u hu v hv
      obtain ⟨hut, hu⟩ := hu
      have hvt : H'.tracked v = true := by
        unfold succs at hv; exact (List.mem_filter.mp hv).2
      obtain ⟨e, he, rfl⟩ := mem_succs_edge H' u v hv
      rcases hu with hu | rfl
      · exact ⟨hvt, hfoot u hu hut e he⟩
      · rw [ep] at he; simp at he
  have hok := hokc (fun _ g => Shaped [m, n] g) (fun _ a b ha hb => shaped_add_ok _ a b ha hb) (fun g hg => hg)
    (by
      intro k hk hlt g hgk
      obtain ⟨_, h | rfl⟩ := hvis k hk
      · omega
      · rw [gp] at hgk; cases hgk)
    (by
      intro u hu hlt e he
      obtain ⟨_, h | rfl⟩ := hvis u hu
      · omega
      · rw [ep] at he; simp at he)
  exact ⟨_, H', hrun, hok, (hg hok).2⟩

/-- **CE, end to end, element by element**: element `(i, j)` of `p.Gradient()` is `−t̂ᵢⱼ/(m·pᵢⱼ)` — the partial derivative of
    the CE formula (`C13x.ce_formula_deriv`) — where the prediction is strictly inside the clip band, and 0 where it is
    strictly outside -/
theorem ce_backprop_el (bm : BMode) (H : Heap ℝ) (p t m n : Nat) (hR : Reach bm H) (hp : p < H.size) (ht : t < H.size)
    (wp : (H.val p).WF) (wt : (H.val t).WF) (dp : (H.val p).dims = [m, n]) (dt : (H.val t).dims = [m, n])
    (hpt : H.tracked p = true) (hpc : H.dirty p = false) (htt : H.tracked t = false) (htc : H.dirty t = false) :
    ∃ r H', lossCompute Loss.ce (some p) (some t) H = .ok (r, H') ∧
      ((backprop bm H' r).status = .ok () →
        ∃ K, (backprop bm H' r).heap.grad p = some K ∧ K.dims = [m, n] ∧
          ∀ (i j : Nat) (hi : i < m) (hj : j < n) (tv pv : ℝ),
            (H.val t).at? [i, j] = some tv → (H.val p).at? [i, j] = some pv →
            (1 / 10 ^ 12 + 1 / 10 ^ 240 < pv → pv < 1 - 1 / 10 ^ 12 - 1 / 10 ^ 240 →
              K.at? [i, j] = some ((-1 / (m : ℝ)) * (tHat tv / pv))) ∧
            (pv < 1 / 10 ^ 12 - 1 / 10 ^ 240 ∨ 1 - 1 / 10 ^ 12 + 1 / 10 ^ 240 < pv → K.at? [i, j] = some 0)) := by
  obtain ⟨r, H', hrun, hg⟩ := ce_backprop bm H p t m n hR hp ht wp wt dp dt hpt hpc htt htc
  refine ⟨r, H', hrun, fun hok => ⟨_, hg hok, rfl, ?_⟩⟩
  intro i j hi hj tv pv htv hpv
  have et : H.val t = ⟨[m, n], (H.val t).data⟩ := by rw [← dt]
  have ep : H.val p = ⟨[m, n], (H.val p).data⟩ := by rw [← dp]
  rw [et] at htv
  rw [ep] at hpv
  rw [C12x.at?_rank2 m n _ i j hi hj] at htv hpv ⊢
  have hget : (List.zipWith (fun tv pv => ceGrad 1 m (tHat tv) pv) (H.val t).data (H.val p).data)[i * n + j]?
      = some (ceGrad 1 m (tHat tv) pv) := by
    rw [List.getElem?_zipWith, htv, hpv]
  refine ⟨fun a b => ?_, fun a => ?_⟩
  · rw [hget, ceGrad_inside 1 m _ pv a b, one_mul]
  · rw [hget, ceGrad_outside 1 m _ pv a]

/-- the hypotheses of `ce_backprop` are satisfiable: a tracked prediction leaf and an untracked target leaf, `1 × 2` -/
example : ∃ (H : Heap ℝ) (p t m n : Nat), Reach BMode.mean H ∧ p < H.size ∧ t < H.size ∧ (H.val p).WF ∧ (H.val t).WF ∧
    (H.val p).dims = [m, n] ∧ (H.val t).dims = [m, n] ∧ H.tracked p = true ∧ H.dirty p = false ∧ H.tracked t = false ∧
    H.dirty t = false := by
  refine ⟨#[⟨⟨[1, 2], [1 / 4, 3 / 4]⟩, freshCtx true⟩, ⟨⟨[1, 2], [0, 1]⟩, freshCtx false⟩], 0, 1, 1, 2, ?_, by simp, by simp,
    ?_, ?_, rfl, rfl,
    by simp [Heap.tracked, Heap.ctx, freshCtx], by simp [Heap.dirty, Heap.ctx, freshCtx],
    by simp [Heap.tracked, Heap.ctx, freshCtx], by simp [Heap.dirty, Heap.ctx, freshCtx]⟩
  · exact Reach.leaf (v := ⟨[1, 2], [0, 1]⟩) (b := false) (r := 1)
      (Reach.leaf (v := ⟨[1, 2], [1 / 4, 3 / 4]⟩) (b := true) (r := 0) Reach.empty rfl) rfl
  · refine ⟨by simp [Heap.val, prod], ?_⟩
    intro d hd; simp [Heap.val] at hd; omega
  · refine ⟨by simp [Heap.val, prod], ?_⟩
    intro d hd; simp [Heap.val] at hd; omega

end C13v
end Qeep
