import QeepProps.C16x
import QeepProps.C14y
/-!
# C16 — the weight path as the tree computes it (`mean` mode, finding D2)

`avg_along0_3`: `AvgAlong(0)` of an `N × O × 1` tensor. `bcastRule_lead3_mean`: the `Broadcast` rule `[O,1] ← [N,O,1]` as the
code has it: the batch MEAN. `fc_grad_weight_mean`: pulling `G : [N, O]` back to `W` gives `dW[o] = (Σ_n Σ_d G[n][o]·x[n][d]) / N`
— the wanted gradient divided by the batch size.
-/
set_option linter.unusedSimpArgs false
set_option linter.unusedSectionVars false
set_option linter.unusedVariables false

namespace Qeep
namespace C16x
variable {α : Type} [Scalar α]
open Scalar

theorem avg_along0_3 {G : Tensor α} {N O : Nat} {Gf : Nat → Nat → Nat → α} (hG : Is3 G N O 1 Gf) :
    ∃ r, vAlong .avg G 0 = .ok r ∧
      Is2 r O 1 (fun o k => Scalar.div (sumOver N (fun n => Gf n o k)) (Scalar.ofNat N)) := by
  obtain ⟨r, h1, h2, h3, h4⟩ := C14y.avgAlong_el G hG.wf 0 (by rw [hG.dims]; simp)
  have hsq : squeezeDims 0 G.dims = [O, 1] := by rw [hG.dims]; rfl
  refine ⟨r, h1, h2, by rw [h3, hsq], ?_⟩
  intro o k ho hk
  rw [h4 [o, k] (by rw [hsq]; exact valid2 ho hk)]
  have hg : G.dims.getD 0 0 = N := by rw [hG.dims]; rfl
  rw [hg]
  congr 1
  unfold sumOver
  congr 1
  apply List.map_congr_left
  intro n hn
  have hn' : n < N := by simpa using hn
  have : insAt 0 n [o, k] = [n, o, k] := rfl
  rw [this]
  exact hG.el n o k hn' ho hk

/-- `Broadcast` rule as the code has it (`AvgAlong`), `[O, 1] ← [N, O, 1]`: the batch **mean** -/
theorem bcastRule_lead3_mean {G : Tensor α} {N O : Nat} {Gf : Nat → Nat → Nat → α} (hG : Is3 G N O 1 Gf) :
    ∃ g, bcastRule .mean [O, 1] [N, O, 1] G = .ok g ∧
      Is2 g O 1 (fun o k => Scalar.div (sumOver N (fun n => Gf n o k)) (Scalar.ofNat N)) := by
  obtain ⟨g, h1, h2⟩ := avg_along0_3 hG
  refine ⟨g, ?_, h2⟩
  unfold bcastRule
  have hl : ([N, O, 1] : List Nat).length - ([O, 1] : List Nat).length = 1 := rfl
  simp only [hl, bcastLead, bind, Out.bind, h1, List.drop_succ_cons, List.drop_zero, bcastExpand, ne_eq, not_true_eq_false,
    if_false]

variable {H : Heap α} {w b x k N D O : Nat} {Wf Bf : Nat → α} {Xf : Nat → Nat → α}

/-- **Weight gradient as the code computes it (`mean` mode, finding D2)**:
    `dW[o] = (Σ_n Σ_d G[n][o]·x[n][d]) / N` — the wanted gradient divided by the batch size. -/
theorem fc_grad_weight_mean (g : FCGraph H w b x k N D O Wf Bf Xf) {G : Tensor α} {Gf : Nat → Nat → α} (hG : Is2 G N O Gf) :
    ∃ dW, evalPath .mean H (pathW w k) G = .ok dW ∧ dW.dims = (H.val w).dims ∧
      Is1 dW O (fun o => Scalar.div (sumOver N (fun n => sumOver D (fun d => Scalar.mul (Gf n o) (Xf n d)))) (Scalar.ofNat N)) := by
  obtain ⟨G3, p1, i3⟩ := fc_back_mm .mean g hG
  have ixb : Is3 (H.val (k + 3)) N 1 D (fun n _ d => Xf n d) := by rw [g.xb]; exact g.x1
  obtain ⟨XT, ht, iT⟩ := transpose3 ixb
  obtain ⟨g4, hm, i4⟩ := matMul3 i3 iT
  have e4 : evalRule .mean H G3 (.matmulA (k + 3)) = .ok g4 := by
    simp only [evalRule, bind, Out.bind, ht, hm]
  obtain ⟨g5, h5, i5⟩ := bcastRule_lead3_mean i4
  have e5 : evalRule .mean H g4 (.bcastX k (k + 2)) = .ok g5 := by
    show bcastRule .mean (H.val k).dims (H.val (k + 2)).dims g4 = .ok g5
    rw [g.w1.dims, g.wb.dims]; exact h5
  have hO := g.vw.pos
  have e6 : evalRule .mean H g5 (.reshapeX w) = .ok ⟨[O], g5.data⟩ := by
    show vReshape g5 ((H.val w).dims.map Int.ofNat) = .ok ⟨[O], g5.data⟩
    rw [g.vw.dims]
    exact vReshape_data g5 i5.wf [O] (by simp; omega) (by rw [i5.dims]; simp [prod])
  refine ⟨⟨[O], g5.data⟩, ?_, by rw [g.vw.dims], reshape_col i5⟩
  unfold pathW
  rw [evalPath_append p1, evalPath_cons e4, evalPath_cons e5, evalPath_cons e6]
  rfl

end C16x
end Qeep
