import QeepProps.C11p
import Mathlib.Analysis.SpecialFunctions.Log.Deriv
/-!
# C11 — `gdStep` IS gradient descent on the loss: the step direction is the Mathlib derivative of the composite loss

The loss of the network `FC → CE` as a function of the parameters,

    ceLoss N D O T X W B = −(1/N) · Σ_{n<N} Σ_{o<O} T n o · log (W o · Σ_d X n d + B o),

is the CE formula (`C13x.ce_formula_deriv`) applied to the layer's formula (`C16x.fcReal`). `ceLoss_deriv_W` / `ceLoss_deriv_B`:
its partial derivatives with respect to `W o`, `B o` (Mathlib `HasDerivAt`, the other parameters fixed) are

    Σ_n (−1/N)·(T n o / y n o) · Σ_d X n d        and        Σ_n (−1/N)·(T n o / y n o),        y = fcReal D W B X.

`gdStep_is_gradient_descent`: wherever every output `y n o` is strictly inside the clip band of CE (there the code's clip is
the identity and `ceGrad` is the plain derivative, `C13x.ceGrad_inside`), the map `gdStep lr` that `C11p.fc_ce_training_loop`
iterates sends `(W, B)` to `(W − lr·∂loss/∂W, B − lr·∂loss/∂B)` with THESE derivatives, the targets entering as `t̂ = clip(t, 0, 1)`.
Together: the training loop of the model follows the gradient-descent trajectory of its loss, in the literal sense of the
property.
-/
set_option linter.unusedSimpArgs false
set_option linter.unusedSectionVars false
set_option linter.unusedVariables false

namespace Qeep
namespace C11o
open RealScalar C16x C13x C11p
open C12x (tHat)

/-- the CE loss of the layer's output as a function of the parameters (no clipping: used inside the band) -/
noncomputable def ceLoss (N D O : ℕ) (T X : ℕ → ℕ → ℝ) (W B : ℕ → ℝ) : ℝ :=
  -(1 / (N : ℝ)) * ∑ n ∈ Finset.range N, ∑ o ∈ Finset.range O, T n o * Real.log (fcReal D W B X n o)

theorem ceLoss_deriv_W (N D O : ℕ) (T X : ℕ → ℕ → ℝ) (W B : ℕ → ℝ) (o' : ℕ) (ho : o' < O)
    (hy : ∀ n, n < N → fcReal D W B X n o' ≠ 0) :
    HasDerivAt (fun s => ceLoss N D O T X (Function.update W o' s) B)
      (∑ n ∈ Finset.range N, (-1 / (N : ℝ)) * (T n o' / fcReal D W B X n o') * ∑ d ∈ Finset.range D, X n d) (W o') := by
  have inner : ∀ n ∈ Finset.range N, ∀ o ∈ Finset.range O,
      HasDerivAt (fun s => T n o * Real.log (fcReal D (Function.update W o' s) B X n o))
        (if o = o' then T n o' * ((∑ d ∈ Finset.range D, X n d) / fcReal D W B X n o') else 0) (W o') := by
    intro n hn o _
    by_cases h : o = o'
    · subst h
      simp only [fcReal, Function.update_self, if_true]
      have h1 : HasDerivAt (fun s : ℝ => s * (∑ d ∈ Finset.range D, X n d) + B o) (∑ d ∈ Finset.range D, X n d) (W o) := by
        simpa using ((hasDerivAt_id (W o)).mul_const (∑ d ∈ Finset.range D, X n d)).add_const (B o)
      have h2 := h1.log (by have := hy n (Finset.mem_range.mp hn); simpa [fcReal] using this)
      exact h2.const_mul (T n o)
    · simp only [fcReal, Function.update_of_ne h, h, if_false]
      exact hasDerivAt_const _ _
  have h1 : HasDerivAt (fun s => ∑ n ∈ Finset.range N, ∑ o ∈ Finset.range O,
      T n o * Real.log (fcReal D (Function.update W o' s) B X n o))
      (∑ n ∈ Finset.range N, ∑ o ∈ Finset.range O,
        (if o = o' then T n o' * ((∑ d ∈ Finset.range D, X n d) / fcReal D W B X n o') else 0)) (W o') :=
    HasDerivAt.fun_sum (fun n hn => HasDerivAt.fun_sum (fun o ho' => inner n hn o ho'))
  have h2 := h1.const_mul (-(1 / (N : ℝ)))
  unfold ceLoss
  refine h2.congr_deriv ?_
  rw [Finset.mul_sum]
  apply Finset.sum_congr rfl
  intro n _
  rw [Finset.sum_ite_eq' (Finset.range O) o' (fun o => T n o' * ((∑ d ∈ Finset.range D, X n d) / fcReal D W B X n o')),
    if_pos (Finset.mem_range.mpr ho)]
  ring

theorem ceLoss_deriv_B (N D O : ℕ) (T X : ℕ → ℕ → ℝ) (W B : ℕ → ℝ) (o' : ℕ) (ho : o' < O)
    (hy : ∀ n, n < N → fcReal D W B X n o' ≠ 0) :
    HasDerivAt (fun s => ceLoss N D O T X W (Function.update B o' s))
      (∑ n ∈ Finset.range N, (-1 / (N : ℝ)) * (T n o' / fcReal D W B X n o')) (B o') := by
  have inner : ∀ n ∈ Finset.range N, ∀ o ∈ Finset.range O,
      HasDerivAt (fun s => T n o * Real.log (fcReal D W (Function.update B o' s) X n o))
        (if o = o' then T n o' * (1 / fcReal D W B X n o') else 0) (B o') := by
    intro n hn o _
    by_cases h : o = o'
    · subst h
      simp only [fcReal, Function.update_self, if_true]
      have h1 : HasDerivAt (fun s : ℝ => W o * (∑ d ∈ Finset.range D, X n d) + s) 1 (B o) := by
        simpa using (hasDerivAt_id (B o)).const_add (W o * (∑ d ∈ Finset.range D, X n d))
      have h2 := h1.log (by have := hy n (Finset.mem_range.mp hn); simpa [fcReal] using this)
      exact h2.const_mul (T n o)
    · simp only [fcReal, Function.update_of_ne h, h, if_false]
      exact hasDerivAt_const _ _
  have h1 : HasDerivAt (fun s => ∑ n ∈ Finset.range N, ∑ o ∈ Finset.range O,
      T n o * Real.log (fcReal D W (Function.update B o' s) X n o))
      (∑ n ∈ Finset.range N, ∑ o ∈ Finset.range O,
        (if o = o' then T n o' * (1 / fcReal D W B X n o') else 0)) (B o') :=
    HasDerivAt.fun_sum (fun n hn => HasDerivAt.fun_sum (fun o ho' => inner n hn o ho'))
  have h2 := h1.const_mul (-(1 / (N : ℝ)))
  unfold ceLoss
  refine h2.congr_deriv ?_
  rw [Finset.mul_sum]
  apply Finset.sum_congr rfl
  intro n _
  rw [Finset.sum_ite_eq' (Finset.range O) o' (fun o => T n o' * (1 / fcReal D W B X n o')),
    if_pos (Finset.mem_range.mpr ho)]
  ring

/-- **`gdStep` is the gradient-descent step of `ceLoss`** (targets as the loss uses them, `t̂ = clip(t, 0, 1)`) wherever the
    layer's outputs for the output unit `o` are strictly inside the clip band of CE -/
theorem gdStep_is_gradient_descent (lr : ℝ) (N D O : ℕ) (T X : ℕ → ℕ → ℝ) (W B : ℕ → ℝ) (o : ℕ) (ho : o < O)
    (hin : ∀ n, n < N → 1 / 10 ^ 12 + 1 / 10 ^ 240 < fcReal D W B X n o ∧
      fcReal D W B X n o < 1 - 1 / 10 ^ 12 - 1 / 10 ^ 240) :
    ∃ dW dB : ℝ,
      HasDerivAt (fun s => ceLoss N D O (fun n o => tHat (T n o)) X (Function.update W o s) B) dW (W o) ∧
      HasDerivAt (fun s => ceLoss N D O (fun n o => tHat (T n o)) X W (Function.update B o s)) dB (B o) ∧
      (gdStep lr N D X T (W, B)).1 o = W o - lr * dW ∧ (gdStep lr N D X T (W, B)).2 o = B o - lr * dB := by
  have hθ : (0 : ℝ) < 1 / 10 ^ 240 := by positivity
  have hε : (0 : ℝ) < 1 / 10 ^ 12 := by positivity
  have hy : ∀ n, n < N → fcReal D W B X n o ≠ 0 := fun n hn => by have := (hin n hn).1; linarith
  refine ⟨_, _, ceLoss_deriv_W N D O _ X W B o ho hy, ceLoss_deriv_B N D O _ X W B o ho hy, ?_, ?_⟩
  · simp only [gdStep]
    congr 2
    apply Finset.sum_congr rfl
    intro n hn
    obtain ⟨a, b⟩ := hin n (Finset.mem_range.mp hn)
    rw [ceGrad_inside 1 N _ _ a b, one_mul]
  · simp only [gdStep]
    congr 2
    apply Finset.sum_congr rfl
    intro n hn
    obtain ⟨a, b⟩ := hin n (Finset.mem_range.mp hn)
    rw [ceGrad_inside 1 N _ _ a b, one_mul]

/-- **every step of the trajectory is a gradient-descent step**: the `(k+1)`-th iterate of `gdStep lr` — by
    `C11p.fc_ce_training_loop` the parameters after `k + 1` steps of the training loop (with `lr := lr·bscale`) — is obtained
    from the `k`-th by `θ ← θ − lr·∂loss/∂θ`, the derivative being that of `ceLoss` AT THE CURRENT PARAMETERS, wherever the
    layer's outputs for that output unit are strictly inside the clip band at the current parameters -/
theorem gdIter_succ_is_gradient_descent (lr : ℝ) (N D O : ℕ) (T X : ℕ → ℕ → ℝ) (W0 B0 : ℕ → ℝ) (k o : ℕ) (ho : o < O)
    (hin : ∀ n, n < N →
      1 / 10 ^ 12 + 1 / 10 ^ 240 < fcReal D ((gdStep lr N D X T)^[k] (W0, B0)).1 ((gdStep lr N D X T)^[k] (W0, B0)).2 X n o ∧
      fcReal D ((gdStep lr N D X T)^[k] (W0, B0)).1 ((gdStep lr N D X T)^[k] (W0, B0)).2 X n o
        < 1 - 1 / 10 ^ 12 - 1 / 10 ^ 240) :
    ∃ dW dB : ℝ,
      HasDerivAt (fun s => ceLoss N D O (fun n o => tHat (T n o)) X
        (Function.update ((gdStep lr N D X T)^[k] (W0, B0)).1 o s) ((gdStep lr N D X T)^[k] (W0, B0)).2) dW
        (((gdStep lr N D X T)^[k] (W0, B0)).1 o) ∧
      HasDerivAt (fun s => ceLoss N D O (fun n o => tHat (T n o)) X
        ((gdStep lr N D X T)^[k] (W0, B0)).1 (Function.update ((gdStep lr N D X T)^[k] (W0, B0)).2 o s)) dB
        (((gdStep lr N D X T)^[k] (W0, B0)).2 o) ∧
      ((gdStep lr N D X T)^[k + 1] (W0, B0)).1 o = ((gdStep lr N D X T)^[k] (W0, B0)).1 o - lr * dW ∧
      ((gdStep lr N D X T)^[k + 1] (W0, B0)).2 o = ((gdStep lr N D X T)^[k] (W0, B0)).2 o - lr * dB := by
  rw [Function.iterate_succ_apply']
  exact gdStep_is_gradient_descent lr N D O T X _ _ o ho hin

end C11o
end Qeep
