import QeepProps.C12x
import QeepProps.C03x
import QeepProofs.BcastCopies
/-!
# C14 (extension) — Softmax along the configured dim, for every rank and every valid dim (over `ℝ`)

`softmax.go`: `e = x.Exp(); s = e.SumAlong(dim).UnSqueeze(dim); y = e.Div(s)` (no max-shift). Proved here about its
model `actForward (Activation.softmax dim)`:

* `softmax_value_any` : for every rank `r ≥ 1`, every `dim < r`, every well-formed input: the run succeeds, only
  allocates, the result has the input's dims, is well-formed, and at every valid multi-index `idx`
  `y[idx] = exp(x[idx]) / Σ_{i < n} exp(x[idx with position dim := i])`, `n = dims[dim]`;
* `softmax_simplex_any` : the `n` outputs on the fibre along `dim` through `idx` sum to 1, every output lies in `(0, 1]`;
* `softmax_err_of_dim_ge` : `dim ≥ rank` is the layer's error (not a panic);
* `softmax_value_any_scalar` : the same value theorem for every scalar domain, in the operations and summation
  order the code executes.

Value-level ingredients (any rank): `map_el` (element-wise ops at index level), `softmax_val_split` (the chain
Exp / SumAlong / UnSqueeze / broadcasting Div on values), `projLE_split` (a `[.., 1, ..]` operand is repeated along
the expanded position).

Second part: index-level statements for every `…Along` reducer at any rank and dim (`along_el`, and the
`sum / mean / max / min` instances `meanAlong_el`, `maxAlong_el`, `minAlong_el`, `meanAlong_el_real`).
-/
set_option linter.unusedSimpArgs false
set_option linter.unusedSectionVars false
set_option linter.unusedVariables false

namespace Qeep
namespace C14y
open RealScalar

/-! ## Index-level helpers -/

section Generic
variable {α : Type} [Scalar α]

theorem el_of_at? {t : Tensor α} {u : List Nat} {v : α} (h : t.at? u = some v) : t.el u = v := by
  unfold Tensor.el; rw [h]; rfl

theorem map_at? (f : α → α) (t : Tensor α) (u : List Nat) : (t.map f).at? u = (t.at? u).map f := by
  unfold Tensor.at? Tensor.map
  simp only []
  split
  · cases offset t.dims u with
    | none => rfl
    | some o => simp [List.getElem?_map]
  · rfl

/-- **element-wise operations at index level**: `(t.map f)[idx] = f (t[idx])` at every valid index -/
theorem map_el (f : α → α) (t : Tensor α) (hwf : t.WF) {u : List Nat} (hu : Valid t.dims u) :
    (t.map f).el u = f (t.el u) := by
  apply el_of_at?
  rw [map_at?, at?_some_el t hwf hu]; rfl

/-- a valid index of `P ++ n :: R` splits at position `P.length` -/
theorem valid_split3 {P R : List Nat} {n : Nat} {idx : List Nat} (h : Valid (P ++ n :: R) idx) :
    ∃ p i q, idx = p ++ i :: q ∧ Valid P p ∧ i < n ∧ Valid R q := by
  have hl : idx.length = P.length + (R.length + 1) := by simpa using h.length_eq
  have hs : idx = idx.take P.length ++ idx.drop P.length := (List.take_append_drop _ _).symm
  rw [hs] at h
  obtain ⟨v1, v2⟩ := valid_split (by rw [List.length_take]; omega) h
  cases hq : idx.drop P.length with
  | nil => rw [hq] at v2; cases v2
  | cons i q =>
    rw [hq] at v2
    cases v2 with
    | cons hi hv => exact ⟨_, i, q, by rw [← hq]; exact hs, v1, hi, hv⟩

theorem set_split (p q : List Nat) (i j : Nat) : (p ++ i :: q).set p.length j = p ++ j :: q := by
  induction p with
  | nil => rfl
  | cons a p ih => simp only [List.cons_append, List.length_cons, List.set_cons_succ, ih]

theorem insAt_split (p q : List Nat) (j : Nat) : insAt p.length j (p ++ q) = p ++ j :: q := by
  unfold insAt
  rw [List.take_left' rfl, List.drop_left' rfl]

theorem dims_split (ds : List Nat) (dim : Nat) (h : dim < ds.length) :
    ds = ds.take dim ++ ds.getD dim 0 :: ds.drop (dim + 1) ∧ (ds.take dim).length = dim := by
  refine ⟨?_, by rw [List.length_take]; omega⟩
  have : ds.getD dim 0 = ds[dim] := by simp [List.getD, List.getElem?_eq_getElem h]
  rw [this, ← List.drop_eq_getElem_cons h, List.take_append_drop]

theorem squeeze_split (P R : List Nat) (n : Nat) : squeezeDims P.length (P ++ n :: R) = P ++ R := by
  unfold squeezeDims
  rw [List.take_left' rfl]
  have : (P ++ n :: R).drop (P.length + 1) = R := by
    rw [← List.drop_drop, List.drop_left' rfl]; rfl
  rw [this]

theorem getD_split (P R : List Nat) (n : Nat) : (P ++ n :: R).getD P.length 0 = n := by
  simp [List.getD]

/-! ## The broadcast of a `[.., 1, ..]` operand against `[.., n, ..]` -/

theorem projLE_app : ∀ (A A' a B B' b : List Nat), A.length = A'.length → A.length = a.length →
    projLE (A ++ B) (A' ++ B') (a ++ b) = projLE A A' a ++ projLE B B' b
  | [], [], [], _, _, _, _, _ => rfl
  | x :: A, y :: A', z :: a, B, B', b, h1, h2 => by
    simp only [List.cons_append, projLE]
    rw [projLE_app A A' a B B' b (by simpa using h1) (by simpa using h2)]
  | [], _ :: _, _, _, _, _, h, _ => by simp at h
  | _ :: _, [], _, _, _, _, h, _ => by simp at h
  | [], [], _ :: _, _, _, _, _, h => by simp at h
  | _ :: _, _ :: _, [], _, _, _, _, h => by simp at h

/-- the operand of dims `A ++ 1 :: B` is read at `0` in the expanded position, wherever the target index is -/
theorem projLE_split (A B a b : List Nat) (n i : Nat) (ha : a.length = A.length) (hb : b.length = B.length) (hi : i < n) :
    projLE (A ++ 1 :: B) (A ++ n :: B) (a ++ i :: b) = a ++ 0 :: b := by
  rw [projLE_app A A a _ _ _ rfl ha.symm, projLE_self A a ha]
  simp only [projLE]
  rw [projLE_self B b hb]
  have : (if 1 = n then i else 0) = 0 := by split <;> omega
  rw [this]

theorem compatLE_self : ∀ (l : List Nat), C03x.compatLE l l = true
  | [] => rfl
  | a :: l => by simp [C03x.compatLE, compatLE_self l]

theorem compatLE_split : ∀ (A B : List Nat) (n : Nat), C03x.compatLE (A ++ n :: B) (A ++ 1 :: B) = true
  | [], B, n => by simp [C03x.compatLE, compatLE_self B]
  | a :: A, B, n => by simp [C03x.compatLE, compatLE_split A B n]

theorem targetLE_split : ∀ (A B : List Nat) (n : Nat), 0 < n →
    targetBroadcastLE (A ++ n :: B) (A ++ 1 :: B) = A ++ n :: B
  | [], B, n, hn => by
    simp only [List.nil_append, targetBroadcastLE, targetBroadcastLE_self]
    have : (if n > 1 then n else 1) = n := by split <;> omega
    rw [this]
  | a :: A, B, n, hn => by
    simp only [List.cons_append, targetBroadcastLE, targetLE_split A B n hn]
    have : (if a > a then a else a) = a := by split <;> rfl
    rw [this]

theorem target_split (P R : List Nat) (n : Nat) (hn : 0 < n) :
    targetBroadcastDims (P ++ n :: R) (P ++ 1 :: R) = P ++ n :: R := by
  unfold targetBroadcastDims
  have e1 : (P ++ n :: R).reverse = R.reverse ++ n :: P.reverse := by simp
  have e2 : (P ++ 1 :: R).reverse = R.reverse ++ 1 :: P.reverse := by simp
  rw [e1, e2, targetLE_split _ _ n hn, ← e1, List.reverse_reverse]

theorem compat_split (P R : List Nat) (n : Nat) : C03x.compat (P ++ n :: R) (P ++ 1 :: R) = true := by
  unfold C03x.compat
  have e1 : (P ++ n :: R).reverse = R.reverse ++ n :: P.reverse := by simp
  have e2 : (P ++ 1 :: R).reverse = R.reverse ++ 1 :: P.reverse := by simp
  rw [e1, e2, compatLE_split]

/-- **broadcasting arithmetic of `[P, n, R]` with `[P, 1, R]`** at index level: the result has the dims of the
    first operand and its element at `p ++ i :: q` combines the first operand's element there with the second
    operand's element at `p ++ 0 :: q`. -/
theorem arith_split_el (o : Arith) (a b : Tensor α) (ha : a.WF) (hb : b.WF) (P R : List Nat) (n : Nat)
    (hda : a.dims = P ++ n :: R) (hdb : b.dims = P ++ 1 :: R) :
    ∃ r, vArith o a b = .ok r ∧ r.WF ∧ r.dims = P ++ n :: R ∧
      ∀ p i q, Valid P p → i < n → Valid R q → r.el (p ++ i :: q) = o.fn (a.el (p ++ i :: q)) (b.el (p ++ 0 :: q)) := by
  have hn : 0 < n := ha.2 n (by rw [hda]; simp)
  obtain ⟨r, hr⟩ := (C03x.arith_total o a b ha hb).1 (by rw [hda, hdb]; exact compat_split P R n)
  obtain ⟨hrd, hrw⟩ := C03x.arith_result_dims o a b r ha hb hr
  rw [hda, hdb, target_split P R n hn] at hrd
  refine ⟨r, hr, hrw, hrd, ?_⟩
  intro p i q hp hi hq
  have hv : Valid (P ++ n :: R) (p ++ i :: q) := valid_app hp (.cons hi hq)
  have hu : Valid r.dims.reverse (p ++ i :: q).reverse := by rw [hrd]; exact valid_reverse hv
  obtain ⟨xv, yv, e1, e2, e3⟩ := C03x.arith_get o a b r ha hb hr _ hu
  rw [List.reverse_reverse] at e3
  have hlen : (p ++ i :: q).reverse.length = (P ++ n :: R).reverse.length := by
    simp [hp.length_eq, hq.length_eq]
  rw [hda, hrd, projLE_self _ _ hlen, List.reverse_reverse] at e1
  have er : (P ++ n :: R).reverse = R.reverse ++ n :: P.reverse := by simp
  have eb : (P ++ 1 :: R).reverse = R.reverse ++ 1 :: P.reverse := by simp
  have eu : (p ++ i :: q).reverse = q.reverse ++ i :: p.reverse := by simp
  rw [hdb, hrd, er, eb, eu, projLE_split _ _ _ _ n i (by simp [hq.length_eq]) (by simp [hp.length_eq]) hi] at e2
  have eb' : (q.reverse ++ 0 :: p.reverse).reverse = p ++ 0 :: q := by simp
  rw [eb'] at e2
  rw [el_of_at? e1, el_of_at? e2, el_of_at? e3]

/-- forward run of a broadcasting arithmetic from its value-level result -/
theorem ran_hArith_of_val (o : Arith) (a b : Nat) (H : Heap α) (ha : a < H.size) (hb : b < H.size)
    (wa : (H.val a).WF) (wb : (H.val b).WF) (v : Tensor α) (h : vArith o (H.val a) (H.val b) = .ok v) :
    ∃ r H', Ran (hArith o a b) H v r H' := by
  cases hp : vBroadcastPair (H.val a) (H.val b) with
  | err => rw [C03x.arith_err_of_pair_err o _ _ hp] at h; cases h
  | panic =>
    unfold vArith at h
    simp only [bind, Out.bind] at h
    rw [hp] at h; cases h
  | ok pr =>
    obtain ⟨a', b'⟩ := pr
    obtain ⟨ea, eb, da, db, wa', wb'⟩ := C03x.pair_ok wa wb hp
    have hd : a'.dims = b'.dims := by rw [da, db]
    have hl : a'.data.length = b'.data.length := by rw [wa'.1, wb'.1, hd]
    rw [C03x.arith_implicit_eq_explicit o _ _ a' b' wa wb hp, vArith_same o a' b' wa' wb' hd] at h
    injection h with h
    exact ran_hArith o a b H ha hb a' b' v ea eb (by rw [← h]; simp [Tensor.zipRaw, hd, hl])

end Generic

/-! ## Softmax on values: Exp, SumAlong(dim), UnSqueeze(dim), broadcasting Div

Stated for every scalar domain first (the operations and the summation order are the code's: `sumOver` is the left
fold from zero that `SumAlong` performs), then specialised to `ℝ`. -/

section Scalar
variable {α : Type} [Scalar α]

/-- **the value-level chain of `softmax.go`** on a well-formed tensor of dims `P ++ n :: R` (`dim = P.length`):
    every step succeeds, and the quotient at `p ++ i :: q` is `exp(x[p,i,q]) / Σ_j exp(x[p,j,q])`. -/
theorem softmax_val_split (x : Tensor α) (hwf : x.WF) (P R : List Nat) (n : Nat) (hd : x.dims = P ++ n :: R) :
    ∃ s s' y, vAlong .sum (vUnary .exp x) (P.length : Int) = .ok s ∧ vUnSqueeze s (P.length : Int) = .ok s' ∧
      vArith .div (vUnary .exp x) s' = .ok y ∧ s'.WF ∧ y.WF ∧ y.dims = P ++ n :: R ∧
      ∀ p i q, Valid P p → i < n → Valid R q →
        y.el (p ++ i :: q)
          = Scalar.div (Scalar.exp (x.el (p ++ i :: q))) (sumOver n (fun j => Scalar.exp (x.el (p ++ j :: q)))) := by
  have we : (vUnary .exp x).WF := map_wf _ _ hwf
  have hde : (vUnary .exp x).dims = P ++ n :: R := hd
  have hel : ∀ u, Valid (P ++ n :: R) u → (vUnary .exp x).el u = Scalar.exp (x.el u) := by
    intro u hu
    exact map_el _ x hwf (by rw [hd]; exact hu)
  obtain ⟨s, h1, ws, ds, es⟩ := sumAlong_el (vUnary .exp x) we P.length (by rw [hde]; simp)
  rw [hde, squeeze_split] at ds es
  rw [getD_split] at es
  obtain ⟨s', h2, ws', ds', es'⟩ := unsqueeze_el s ws P R ds
  obtain ⟨y, h3, wy, dy, ey⟩ := arith_split_el .div (vUnary .exp x) s' we ws' P R n hde ds'
  refine ⟨s, s', y, h1, h2, h3, ws', wy, dy, ?_⟩
  intro p i q hp hi hq
  rw [ey p i q hp hi hq, es' p q hp hq, es (p ++ q) (valid_app hp hq), hel _ (valid_app hp (.cons hi hq))]
  show Scalar.div (Scalar.exp (x.el (p ++ i :: q))) _ = _
  congr 1
  apply sumOver_congr
  intro j hj
  rw [← hp.length_eq, insAt_split, hel _ (valid_app hp (.cons hj hq))]

/-- **Softmax along `dim`, any rank, any scalar domain (split form)**: input dims `P ++ n :: R`, `dim = P.length`. -/
theorem softmax_value_split_scalar (H : Heap α) (x : Nat) (hx : x < H.size) (hwf : (H.val x).WF) (P R : List Nat) (n : Nat)
    (hd : (H.val x).dims = P ++ n :: R) :
    ∃ r H', actForward (Activation.softmax P.length) [some x] H = .ok (r, H') ∧ Extends H H' ∧
      (H'.val r).dims = P ++ n :: R ∧ (H'.val r).WF ∧
      ∀ p i q, Valid P p → i < n → Valid R q →
        (H'.val r).el (p ++ i :: q)
          = Scalar.div (Scalar.exp ((H.val x).el (p ++ i :: q)))
              (sumOver n (fun j => Scalar.exp ((H.val x).el (p ++ j :: q)))) := by
  obtain ⟨sv, sv', yv, v1, v2, v3, wsv', wy, dy, ey⟩ := softmax_val_split (H.val x) hwf P R n hd
  -- e = x.Exp()
  obtain ⟨e, H1, h1⟩ := ran_hUnary .exp x H
  -- s = e.SumAlong(dim)
  obtain ⟨s, H2, h2⟩ := ran_hAlong .sum e (P.length : Int) H1 sv (by rw [h1.val]; exact v1)
  -- s = s.UnSqueeze(dim)
  obtain ⟨s', H3, h3⟩ := C12x.ran_hUnSqueeze s (P.length : Int) H2 sv' (by rw [h2.val]; exact v2)
  have he3 : H3.val e = vUnary .exp (H.val x) := by
    rw [h3.ext.val (Nat.lt_of_lt_of_le h1.lt h2.ext.1), h2.ext.val h1.lt, h1.val]
  -- e.Div(s)
  obtain ⟨r, H4, h4⟩ := ran_hArith_of_val .div e s' H3 (Nat.lt_of_lt_of_le (Nat.lt_of_lt_of_le h1.lt h2.ext.1) h3.ext.1) h3.lt
    (by rw [he3]; exact map_wf _ _ hwf) (by rw [h3.val]; exact wsv') yv (by rw [he3, h3.val]; exact v3)
  refine ⟨r, H4, ?_, ((h1.ext.trans h2.ext).trans h3.ext).trans h4.ext, by rw [h4.val]; exact dy,
    by rw [h4.val]; exact wy, by rw [h4.val]; exact ey⟩
  unfold actForward
  rw [bind_run (show (liftOut (oneInput [some x]) : HM α Nat) H = .ok (x, H) from rfl)]
  simp only []
  rw [bind_run (show (getHeap : HM α (Heap α)) H = .ok (H, H) from rfl)]
  have hnot : ¬ ((H.val x).dims.length ≤ P.length) := by rw [hd]; simp
  rw [if_neg hnot]
  rw [bind_run h1.run, bind_run h2.run, bind_run h3.run]
  exact h4.run

/-- **Softmax along the configured dim, every rank `≥ 1`, every valid `dim`, every scalar domain**: total
    correctness with the element formula in the scalar operations and summation order the code executes (so it is
    also the statement for a floating-point instance of `Scalar`). -/
theorem softmax_value_any_scalar (H : Heap α) (x dim : Nat) (hx : x < H.size) (hwf : (H.val x).WF)
    (hdim : dim < (H.val x).dims.length) :
    ∃ r H', actForward (Activation.softmax dim) [some x] H = .ok (r, H') ∧ Extends H H' ∧
      (H'.val r).dims = (H.val x).dims ∧ (H'.val r).WF ∧
      ∀ idx, Valid (H.val x).dims idx →
        (H'.val r).el idx = Scalar.div (Scalar.exp ((H.val x).el idx))
          (sumOver ((H.val x).dims.getD dim 0) (fun i => Scalar.exp ((H.val x).el (idx.set dim i)))) := by
  obtain ⟨hsp, hl⟩ := dims_split (H.val x).dims dim hdim
  obtain ⟨r, H', h1, h2, h3, h4, h5⟩ := softmax_value_split_scalar H x hx hwf _ _ _ hsp
  rw [hl] at h1
  refine ⟨r, H', h1, h2, by rw [h3, ← hsp], h4, ?_⟩
  intro idx hidx
  rw [hsp] at hidx
  obtain ⟨p, i, q, hi, hp, hin, hq⟩ := valid_split3 hidx
  have hpl : p.length = dim := by rw [hp.length_eq, hl]
  rw [hi, h5 p i q hp hin hq]
  congr 1
  apply sumOver_congr
  intro j _
  rw [← hpl, set_split]

end Scalar

/-- **Softmax along `dim`, any rank (split form, over `ℝ`)**: input dims `P ++ n :: R`, `dim = P.length`. -/
theorem softmax_value_split (H : Heap ℝ) (x : Nat) (hx : x < H.size) (hwf : (H.val x).WF) (P R : List Nat) (n : Nat)
    (hd : (H.val x).dims = P ++ n :: R) :
    ∃ r H', actForward (Activation.softmax P.length) [some x] H = .ok (r, H') ∧ Extends H H' ∧
      (H'.val r).dims = P ++ n :: R ∧ (H'.val r).WF ∧
      ∀ p i q, Valid P p → i < n → Valid R q →
        (H'.val r).el (p ++ i :: q)
          = Real.exp ((H.val x).el (p ++ i :: q)) / sumOver n (fun j => Real.exp ((H.val x).el (p ++ j :: q))) :=
  softmax_value_split_scalar H x hx hwf P R n hd

/-- **C14, Softmax along the configured dim — for every rank `≥ 1` and every valid `dim`**: the run succeeds, only
    allocates, the result has the input's dims and is well-formed, and at every valid (big-endian) multi-index
    `y[idx] = exp(x[idx]) / Σ_{i<n} exp(x[idx with position dim := i])`, `n = dims[dim]` (`sumOver` is the left fold
    the code performs; `softmax_value_any_sum` is the same with a `List.sum`). No max-shift in the code. -/
theorem softmax_value_any (H : Heap ℝ) (x dim : Nat) (hx : x < H.size) (hwf : (H.val x).WF)
    (hdim : dim < (H.val x).dims.length) :
    ∃ r H', actForward (Activation.softmax dim) [some x] H = .ok (r, H') ∧ Extends H H' ∧
      (H'.val r).dims = (H.val x).dims ∧ (H'.val r).WF ∧
      ∀ idx, Valid (H.val x).dims idx →
        (H'.val r).el idx = Real.exp ((H.val x).el idx) /
          sumOver ((H.val x).dims.getD dim 0) (fun i => Real.exp ((H.val x).el (idx.set dim i))) :=
  softmax_value_any_scalar H x dim hx hwf hdim

/-- the same with the denominator as an (unordered) real sum -/
theorem softmax_value_any_sum (H : Heap ℝ) (x dim : Nat) (hx : x < H.size) (hwf : (H.val x).WF)
    (hdim : dim < (H.val x).dims.length) :
    ∃ r H', actForward (Activation.softmax dim) [some x] H = .ok (r, H') ∧ Extends H H' ∧
      (H'.val r).dims = (H.val x).dims ∧ (H'.val r).WF ∧
      ∀ idx, Valid (H.val x).dims idx →
        (H'.val r).el idx = Real.exp ((H.val x).el idx) /
          ((List.range ((H.val x).dims.getD dim 0)).map (fun i => Real.exp ((H.val x).el (idx.set dim i)))).sum := by
  obtain ⟨r, H', h1, h2, h3, h4, h5⟩ := softmax_value_any H x dim hx hwf hdim
  refine ⟨r, H', h1, h2, h3, h4, ?_⟩
  intro idx hidx
  rw [h5 idx hidx, sumOver_real]

/-- `dim ≥ rank` is the layer's own error (checked before any tensor call) -/
theorem softmax_err_of_dim_ge (H : Heap ℝ) (x dim : Nat) (hdim : (H.val x).dims.length ≤ dim) :
    actForward (Activation.softmax dim) [some x] H = .err := by
  unfold actForward
  rw [bind_run (show (liftOut (oneInput [some x]) : HM ℝ Nat) H = .ok (x, H) from rfl)]
  simp only []
  rw [bind_run (show (getHeap : HM ℝ (Heap ℝ)) H = .ok (H, H) from rfl)]
  rw [if_pos hdim]
  rfl

/-! ## The simplex property along the fibre -/

theorem valid_set : ∀ {ds idx : List Nat} (dim i : Nat), Valid ds idx → i < ds.getD dim 0 → Valid ds (idx.set dim i)
  | _, _, _, _, .nil, h => by simp [List.getD] at h
  | _, _, 0, i, .cons h0 hv, h => by
    simp only [List.set_cons_zero]
    exact .cons (by simpa [List.getD] using h) hv
  | _, _, dim + 1, i, .cons h0 hv, h => by
    simp only [List.set_cons_succ]
    exact .cons h0 (valid_set dim i hv (by simpa [List.getD] using h))

theorem valid_getD : ∀ {ds idx : List Nat} (dim : Nat), Valid ds idx → dim < ds.length → idx.getD dim 0 < ds.getD dim 0
  | _, _, _, .nil, h => by simp at h
  | _, _, 0, .cons h0 hv, _ => by simpa [List.getD] using h0
  | _, _, dim + 1, .cons h0 hv, h => by
    have := valid_getD dim hv (by simpa using h)
    simpa [List.getD] using this

theorem set_getD_self : ∀ (idx : List Nat) (dim : Nat), idx.set dim (idx.getD dim 0) = idx
  | [], _ => by simp
  | a :: idx, 0 => by simp [List.getD]
  | a :: idx, dim + 1 => by
    have := set_getD_self idx dim
    simp only [List.getD, List.getElem?_cons_succ, List.set_cons_succ] at this ⊢
    rw [this]

/-- **Softmax returns a point of the open-below simplex on every fibre along `dim`** (any rank, any valid dim): on
    the fibre through any valid index the `n = dims[dim]` outputs sum to 1, and every output lies in `(0, 1]`. -/
theorem softmax_simplex_any (H : Heap ℝ) (x dim : Nat) (hx : x < H.size) (hwf : (H.val x).WF)
    (hdim : dim < (H.val x).dims.length) :
    ∃ r H', actForward (Activation.softmax dim) [some x] H = .ok (r, H') ∧ Extends H H' ∧
      (H'.val r).dims = (H.val x).dims ∧ (H'.val r).WF ∧
      ∀ idx, Valid (H.val x).dims idx →
        ((List.range ((H.val x).dims.getD dim 0)).map (fun i => (H'.val r).el (idx.set dim i))).sum = 1 ∧
        (∀ i, i < (H.val x).dims.getD dim 0 → 0 < (H'.val r).el (idx.set dim i) ∧ (H'.val r).el (idx.set dim i) ≤ 1) ∧
        0 < (H'.val r).el idx ∧ (H'.val r).el idx ≤ 1 := by
  obtain ⟨r, H', h1, h2, h3, h4, h5⟩ := softmax_value_any_sum H x dim hx hwf hdim
  refine ⟨r, H', h1, h2, h3, h4, ?_⟩
  intro idx hidx
  have hn : 0 < (H.val x).dims.getD dim 0 := by
    have : (H.val x).dims.getD dim 0 = (H.val x).dims[dim] := by simp [List.getD, List.getElem?_eq_getElem hdim]
    rw [this]; exact hwf.2 _ (List.getElem_mem hdim)
  -- the fibre of inputs
  have hne : (List.range ((H.val x).dims.getD dim 0)).map (fun i => (H.val x).el (idx.set dim i)) ≠ [] := by
    intro h
    have := congrArg List.length h
    rw [List.length_map, List.length_range, List.length_nil] at this
    omega
  have hfib : ∀ i, i < (H.val x).dims.getD dim 0 → (H'.val r).el (idx.set dim i)
      = Real.exp ((H.val x).el (idx.set dim i)) /
        (((List.range ((H.val x).dims.getD dim 0)).map (fun i => (H.val x).el (idx.set dim i))).map Real.exp).sum := by
    intro i hi
    rw [h5 _ (valid_set dim i hidx hi), List.map_map]
    congr 2
    apply List.map_congr_left
    intro j _
    simp only [Function.comp, List.set_set]
  have hIoc : ∀ i, i < (H.val x).dims.getD dim 0 →
      0 < (H'.val r).el (idx.set dim i) ∧ (H'.val r).el (idx.set dim i) ≤ 1 := by
    intro i hi
    rw [hfib i hi]
    exact C12x.softmax_mem_Ioc _ _ (List.mem_map.mpr ⟨i, List.mem_range.mpr hi, rfl⟩)
  refine ⟨?_, hIoc, ?_⟩
  · have := C12x.softmax_sum_one _ hne
    rw [List.map_map] at this
    rw [← this]
    congr 1
    apply List.map_congr_left
    intro i hi
    exact hfib i (List.mem_range.mp hi)
  · have := hIoc (idx.getD dim 0) (valid_getD dim hidx hdim)
    rw [set_getD_self] at this
    exact this

/-- "whenever the run returns `ok`" form (the model is a function) -/
theorem softmax_value_any_of_ok (H H' : Heap ℝ) (x dim r : Nat) (hx : x < H.size) (hwf : (H.val x).WF)
    (hdim : dim < (H.val x).dims.length) (hrun : actForward (Activation.softmax dim) [some x] H = .ok (r, H')) :
    (H'.val r).dims = (H.val x).dims ∧
      ∀ idx, Valid (H.val x).dims idx →
        (H'.val r).el idx = Real.exp ((H.val x).el idx) /
          ((List.range ((H.val x).dims.getD dim 0)).map (fun i => Real.exp ((H.val x).el (idx.set dim i)))).sum := by
  obtain ⟨r0, H0, h1, _, h3, _, h5⟩ := softmax_value_any_sum H x dim hx hwf hdim
  rw [h1] at hrun
  injection hrun with e
  injection e with e1 e2
  rw [← e1, ← e2]; exact ⟨h3, h5⟩

/-! ## Index-level `…Along` for every reducer, any rank, any dim -/

section Along
variable {α : Type} [Scalar α]

theorem sliceDims_unitWin (st : List Nat) : sliceDims (unitWin st) = List.replicate st.length 1 := by
  induction st with
  | nil => rfl
  | cons s st ih =>
    simp only [unitWin, sliceDims, List.map_cons, List.length_cons, List.replicate_succ] at ih ⊢
    rw [ih]
    congr 1
    omega

/-- the window handed to the reducer has size `dims[dim]` at `dim` and 1 elsewhere -/
theorem sliceDims_window : ∀ (dim : Nat) (dims st : List Nat), st.length = dims.length → dim < dims.length →
    sliceDims (windowOf dim dims st) = List.replicate dim 1 ++ dims.getD dim 0 :: List.replicate (dims.length - 1 - dim) 1
  | _, [], _, _, h => by simp at h
  | _, _ :: _, [], h, _ => by simp at h
  | 0, d :: ds, s :: st, hl, _ => by
    have hl' : st.length = ds.length := by simpa using hl
    have e : sliceDims (windowOf 0 (d :: ds) (s :: st)) = d :: sliceDims (unitWin st) := by
      simp [windowOf, sliceDims]
    rw [e, sliceDims_unitWin, hl']
    simp [List.getD]
  | dim + 1, d :: ds, s :: st, hl, hd => by
    have hl' : st.length = ds.length := by simpa using hl
    have hd' : dim < ds.length := by simpa using hd
    have e : sliceDims (windowOf (dim + 1) (d :: ds) (s :: st)) = 1 :: sliceDims (windowOf dim ds st) := by
      simp [windowOf, sliceDims]
    rw [e, sliceDims_window dim ds st hl' hd']
    have e2 : (d :: ds).length - 1 - (dim + 1) = ds.length - 1 - dim := by simp only [List.length_cons]; omega
    rw [e2]
    simp [List.getD, List.replicate_succ]

theorem prod_replicate_one (k : Nat) : prod (List.replicate k 1) = 1 := by
  induction k with
  | zero => rfl
  | succ k ih => simp [List.replicate_succ, prod, ih]

theorem prod_window (k m n : Nat) : prod (List.replicate k 1 ++ n :: List.replicate m 1) = n := by
  rw [prod_append, prod_replicate_one]
  simp [prod, prod_replicate_one]

/-- every whole-tensor reducer depends on the dims only through the element count -/
theorem fn_dims_irrel (rd : Reducer) (d d' : List Nat) (data : List α) (h : prod d = prod d') :
    rd.fn (⟨d, data⟩ : Tensor α) = rd.fn ⟨d', data⟩ := by
  cases rd <;>
    simp only [Reducer.fn, Tensor.sum, Tensor.max, Tensor.min, Tensor.avg, Tensor.mean, Tensor.var, Tensor.std,
      Tensor.fold, Tensor.numElems, h] <;> rfl

theorem insLE_length (k v : Nat) (l : List Nat) (h : k ≤ l.length) : (insLE k v l).length = l.length + 1 := by
  rw [insLE_eq k v l h]
  simp only [List.length_append, List.length_cons, List.length_take, List.length_drop]
  omega

/-- `reduceDim_at` with the window dims exposed -/
theorem reduceDim_at_wd (t : Tensor α) (hwf : t.WF) (dim : Nat) (hdim : dim < t.dims.length) (trf : Tensor α → α) :
    ∃ r, t.reduceDimRaw dim trf = some r ∧ r.dims = squeezeDims dim t.dims ∧ r.data.length = prod (squeezeDims dim t.dims) ∧
      ∀ u, Valid (squeezeDims dim t.dims) u →
        ∃ (fib : List α), fib.length = t.dims.getD dim 0 ∧
          (∀ i, i < t.dims.getD dim 0 → fib[i]? = t.at? (insAt dim i u) ∧ (fib[i]?).isSome) ∧
          r.at? u = some (trf ⟨List.replicate dim 1 ++ t.dims.getD dim 0 :: List.replicate (t.dims.length - 1 - dim) 1, fib⟩) := by
  obtain ⟨data', h1, h2, h3⟩ := reduceDim_spec t hwf dim hdim trf
  refine ⟨⟨squeezeDims dim t.dims, data'⟩, h1, rfl, h2, ?_⟩
  intro u hu
  have hposR : ∀ d ∈ t.dims.reverse, 0 < d := fun d hd => hwf.2 d (by simpa using hd)
  have hD : (squeezeDims dim t.dims).reverse = delLE (t.dims.length - 1 - dim) t.dims.reverse := squeeze_rev dim t.dims hdim
  have hposD : ∀ d ∈ delLE (t.dims.length - 1 - dim) t.dims.reverse, 0 < d := by
    rw [← hD]
    intro d hd
    have : d ∈ squeezeDims dim t.dims := by simpa using hd
    unfold squeezeDims at this
    rcases List.mem_append.mp this with h | h
    · exact hwf.2 d (List.mem_of_mem_take h)
    · exact hwf.2 d (List.mem_of_mem_drop h)
  have hvD : Valid (delLE (t.dims.length - 1 - dim) t.dims.reverse) u.reverse := by
    rw [← hD]; exact valid_reverse hu
  have hj : val (delLE (t.dims.length - 1 - dim) t.dims.reverse) u.reverse < prod (squeezeDims dim t.dims) := by
    have := val_lt hvD
    have e : prod (delLE (t.dims.length - 1 - dim) t.dims.reverse) = prod (squeezeDims dim t.dims) := by
      rw [← hD, prod_reverse]
    rw [e] at this
    exact this
  obtain ⟨fib, f1, f2, f3⟩ := h3 _ hj
  dsimp only at f2 f3
  rw [iter_val hposD hvD] at f2 f3
  have hul : u.length = t.dims.length - 1 := by
    have := hu.length_eq
    rw [this]; unfold squeezeDims; simp; omega
  have hset : ∀ i, ((insLE (t.dims.length - 1 - dim) 0 u.reverse).reverse).set dim i = insAt dim i u :=
    fun i => insLE_rev_set u dim _ i (by omega)
  have hstl : ((insLE (t.dims.length - 1 - dim) 0 u.reverse).reverse).length = t.dims.length := by
    rw [List.length_reverse, insLE_length _ _ _ (by rw [List.length_reverse]; omega), List.length_reverse]
    omega
  rw [sliceDims_window dim t.dims _ hstl hdim] at f3
  refine ⟨fib, f1, ?_, ?_⟩
  · intro i hi
    have := f2 i hi
    rw [hset i] at this
    exact this
  · have hv' : Valid (Tensor.dims ⟨squeezeDims dim t.dims, data'⟩).reverse u.reverse := by
      simp only []; rw [hD]; exact hvD
    have := Tensor.at?_reverse (⟨squeezeDims dim t.dims, data'⟩ : Tensor α) hv'
    rw [List.reverse_reverse] at this
    rw [this]
    simp only []
    rw [hD]
    exact f3

/-- **`…Along(dim)` for every reducer, any rank, any valid dim**: the call succeeds, drops `dim`, and the element at
    `u` is the whole-tensor reducer applied to the fibre `t[u with i inserted at dim]`, `i < n`, as a vector `[n]`
    (the code hands the reducer the `[1,…,n,…,1]` window; reducers see dims only through the element count). -/
theorem along_el (rd : Reducer) (t : Tensor α) (hwf : t.WF) (dim : Nat) (hdim : dim < t.dims.length) :
    ∃ r, vAlong rd t (dim : Int) = .ok r ∧ r.WF ∧ r.dims = squeezeDims dim t.dims ∧
      ∀ u, Valid (squeezeDims dim t.dims) u →
        r.el u = rd.fn ⟨[t.dims.getD dim 0], (List.range (t.dims.getD dim 0)).map (fun i => t.el (insAt dim i u))⟩ := by
  obtain ⟨r, h1, h2, h3, h4⟩ := reduceDim_at_wd t hwf dim hdim rd.fn
  have hvd : validDimLt (dim : Int) t.dims = true := by
    simp only [validDimLt, Bool.and_eq_true, decide_eq_true_eq]; omega
  refine ⟨r, ?_, ⟨by rw [h2]; exact h3, ?_⟩, h2, ?_⟩
  · simp [vAlong, vReduceDim, hvd, h1, Out.ofOpt]
  · rw [h2]
    intro d hd
    unfold squeezeDims at hd
    rcases List.mem_append.mp hd with h | h
    · exact hwf.2 d (List.mem_of_mem_take h)
    · exact hwf.2 d (List.mem_of_mem_drop h)
  · intro u hu
    obtain ⟨fib, f1, f2, f3⟩ := h4 u hu
    have hfib : fib = (List.range (t.dims.getD dim 0)).map (fun i => t.el (insAt dim i u)) := by
      apply List.ext_getElem?
      intro i
      by_cases hi : i < t.dims.getD dim 0
      · obtain ⟨e1, e2⟩ := f2 i hi
        rw [List.getElem?_map, List.getElem?_range hi]
        simp only [Option.map_some]
        rw [e1] at e2 ⊢
        unfold Tensor.el
        cases h : t.at? (insAt dim i u) with
        | none => rw [h] at e2; simp at e2
        | some v => rfl
      · rw [List.getElem?_eq_none (by omega), List.getElem?_eq_none (by rw [List.length_map, List.length_range]; omega)]
    rw [el_of_at? f3, hfib]
    apply fn_dims_irrel
    rw [prod_window]
    simp [prod]

/-- `MeanAlong(dim)` / `AvgAlong(dim)`: the fibre sum (left fold, as the code adds) divided by `n` -/
theorem meanAlong_el (t : Tensor α) (hwf : t.WF) (dim : Nat) (hdim : dim < t.dims.length) :
    ∃ r, vAlong .mean t (dim : Int) = .ok r ∧ r.WF ∧ r.dims = squeezeDims dim t.dims ∧
      ∀ u, Valid (squeezeDims dim t.dims) u →
        r.el u = Scalar.div (sumOver (t.dims.getD dim 0) (fun i => t.el (insAt dim i u))) (Scalar.ofNat (t.dims.getD dim 0)) := by
  obtain ⟨r, h1, h2, h3, h4⟩ := along_el .mean t hwf dim hdim
  refine ⟨r, h1, h2, h3, ?_⟩
  intro u hu
  rw [h4 u hu]
  simp only [Reducer.fn, Tensor.mean, Tensor.avg, Tensor.sum, Tensor.fold, Tensor.numElems, prod, Nat.mul_one, sumOver]

theorem avgAlong_el (t : Tensor α) (hwf : t.WF) (dim : Nat) (hdim : dim < t.dims.length) :
    ∃ r, vAlong .avg t (dim : Int) = .ok r ∧ r.WF ∧ r.dims = squeezeDims dim t.dims ∧
      ∀ u, Valid (squeezeDims dim t.dims) u →
        r.el u = Scalar.div (sumOver (t.dims.getD dim 0) (fun i => t.el (insAt dim i u))) (Scalar.ofNat (t.dims.getD dim 0)) := by
  obtain ⟨r, h1, h2, h3, h4⟩ := along_el .avg t hwf dim hdim
  refine ⟨r, h1, h2, h3, ?_⟩
  intro u hu
  rw [h4 u hu]
  simp only [Reducer.fn, Tensor.avg, Tensor.sum, Tensor.fold, Tensor.numElems, prod, Nat.mul_one, sumOver]

/-- `MaxAlong(dim)`: the running maximum over the fibre, started at the scalar domain's `negInf` (`-math.MaxFloat64`) -/
theorem maxAlong_el (t : Tensor α) (hwf : t.WF) (dim : Nat) (hdim : dim < t.dims.length) :
    ∃ r, vAlong .max t (dim : Int) = .ok r ∧ r.WF ∧ r.dims = squeezeDims dim t.dims ∧
      ∀ u, Valid (squeezeDims dim t.dims) u →
        r.el u = ((List.range (t.dims.getD dim 0)).map (fun i => t.el (insAt dim i u))).foldl
          (fun a b => if Scalar.gt a b then a else b) Scalar.negInf := by
  obtain ⟨r, h1, h2, h3, h4⟩ := along_el .max t hwf dim hdim
  refine ⟨r, h1, h2, h3, ?_⟩
  intro u hu
  rw [h4 u hu]
  rfl

/-- `MinAlong(dim)`: the running minimum over the fibre, started at `posInf` -/
theorem minAlong_el (t : Tensor α) (hwf : t.WF) (dim : Nat) (hdim : dim < t.dims.length) :
    ∃ r, vAlong .min t (dim : Int) = .ok r ∧ r.WF ∧ r.dims = squeezeDims dim t.dims ∧
      ∀ u, Valid (squeezeDims dim t.dims) u →
        r.el u = ((List.range (t.dims.getD dim 0)).map (fun i => t.el (insAt dim i u))).foldl
          (fun a b => if Scalar.lt a b then a else b) Scalar.posInf := by
  obtain ⟨r, h1, h2, h3, h4⟩ := along_el .min t hwf dim hdim
  refine ⟨r, h1, h2, h3, ?_⟩
  intro u hu
  rw [h4 u hu]
  rfl

/-- `VarAlong(dim)` / `StdAlong(dim)`: the (Bessel-corrected) variance / its square root of the fibre as a vector -/
theorem varAlong_el (t : Tensor α) (hwf : t.WF) (dim : Nat) (hdim : dim < t.dims.length) :
    ∃ r, vAlong .var t (dim : Int) = .ok r ∧ r.WF ∧ r.dims = squeezeDims dim t.dims ∧
      ∀ u, Valid (squeezeDims dim t.dims) u →
        r.el u = Tensor.var ⟨[t.dims.getD dim 0], (List.range (t.dims.getD dim 0)).map (fun i => t.el (insAt dim i u))⟩ :=
  along_el .var t hwf dim hdim

theorem stdAlong_el (t : Tensor α) (hwf : t.WF) (dim : Nat) (hdim : dim < t.dims.length) :
    ∃ r, vAlong .std t (dim : Int) = .ok r ∧ r.WF ∧ r.dims = squeezeDims dim t.dims ∧
      ∀ u, Valid (squeezeDims dim t.dims) u →
        r.el u = Scalar.sqrt (Tensor.var ⟨[t.dims.getD dim 0], (List.range (t.dims.getD dim 0)).map (fun i => t.el (insAt dim i u))⟩) :=
  along_el .std t hwf dim hdim

/-- the public `…Along(dim)` call on the heap (with its gradient context): total for `dim < rank`, same element formula -/
theorem hAlong_el (rd : Reducer) (H : Heap α) (x dim : Nat) (hwf : (H.val x).WF) (hdim : dim < (H.val x).dims.length) :
    ∃ r H', hAlong rd x (dim : Int) H = .ok (r, H') ∧ Extends H H' ∧ (H'.val r).WF ∧
      (H'.val r).dims = squeezeDims dim (H.val x).dims ∧
      ∀ u, Valid (squeezeDims dim (H.val x).dims) u →
        (H'.val r).el u = rd.fn ⟨[(H.val x).dims.getD dim 0],
          (List.range ((H.val x).dims.getD dim 0)).map (fun i => (H.val x).el (insAt dim i u))⟩ := by
  obtain ⟨v, h1, h2, h3, h4⟩ := along_el rd (H.val x) hwf dim hdim
  obtain ⟨r, H', hr⟩ := ran_hAlong rd x (dim : Int) H v h1
  exact ⟨r, H', hr.run, hr.ext, by rw [hr.val]; exact h2, by rw [hr.val]; exact h3, by rw [hr.val]; exact h4⟩

/-- `dim ≥ rank` (or negative) is the validator's error, for every reducer -/
theorem vAlong_err_of_dim_ge (rd : Reducer) (t : Tensor α) (dim : Nat) (h : t.dims.length ≤ dim) :
    vAlong rd t (dim : Int) = .err := by
  have hvd : validDimLt (dim : Int) t.dims = false := by
    simp only [validDimLt, Bool.and_eq_false_iff, decide_eq_false_iff_not]; omega
  simp [vAlong, vReduceDim, hvd]

end Along

/-- `MeanAlong(dim)` over `ℝ`: the arithmetic mean of the fibre -/
theorem meanAlong_el_real (t : Tensor ℝ) (hwf : t.WF) (dim : Nat) (hdim : dim < t.dims.length) :
    ∃ r, vAlong .mean t (dim : Int) = .ok r ∧ r.WF ∧ r.dims = squeezeDims dim t.dims ∧
      ∀ u, Valid (squeezeDims dim t.dims) u →
        r.el u = ((List.range (t.dims.getD dim 0)).map (fun i => t.el (insAt dim i u))).sum / (t.dims.getD dim 0 : ℝ) := by
  obtain ⟨r, h1, h2, h3, h4⟩ := meanAlong_el t hwf dim hdim
  refine ⟨r, h1, h2, h3, ?_⟩
  intro u hu
  rw [h4 u hu, sumOver_real]
  rfl

/-- `SumAlong(dim)` over `ℝ`: the (unordered) sum of the fibre -/
theorem sumAlong_el_real (t : Tensor ℝ) (hwf : t.WF) (dim : Nat) (hdim : dim < t.dims.length) :
    ∃ r, vAlong .sum t (dim : Int) = .ok r ∧ r.WF ∧ r.dims = squeezeDims dim t.dims ∧
      ∀ u, Valid (squeezeDims dim t.dims) u →
        r.el u = ((List.range (t.dims.getD dim 0)).map (fun i => t.el (insAt dim i u))).sum := by
  obtain ⟨r, h1, h2, h3, h4⟩ := sumAlong_el t hwf dim hdim
  refine ⟨r, h1, h2, h3, ?_⟩
  intro u hu
  rw [h4 u hu, sumOver_real]

/-! ## Non-vacuity -/

/-- a well-formed rank-3 input in a heap, with valid `dim = 1` and a valid index -/
example : ∃ H : Heap ℝ, 0 < H.size ∧ (H.val 0).WF ∧ (H.val 0).dims = [2, 3, 2] ∧ 1 < (H.val 0).dims.length ∧
    Valid (H.val 0).dims [1, 2, 0] ∧ ([1, 2, 0] : List Nat).set 1 0 = [1, 0, 0] ∧ (H.val 0).dims.getD 1 0 = 3 :=
  ⟨#[⟨⟨[2, 3, 2], [1, 2, 3, 4, 5, 6, 7, 8, 9, 10, 11, 12]⟩, {}⟩], by simp, by simp [Heap.val, Tensor.WF, prod],
    by simp [Heap.val], by simp [Heap.val], by
      simp only [Heap.val]
      exact .cons (by decide) (.cons (by decide) (.cons (by decide) .nil)), rfl, by simp [Heap.val]⟩

end C14y
end Qeep
