import QeepProps.C15v
/-!
# C15 — Sigmoid inside a walk

`sigmoid_in_walk`: in ANY heap that contains the seven-tensor graph `Sigmoid.Forward(x)` builds at base id `k`, for a successful
walk from any root outside the layer that leaves `G` on the layer's result and reaches `x` through the layer only:
`x.Gradient() = G ⊙ σ(x)(1 − σ(x))` — the vector–Jacobian product with the upstream gradient, whatever produced it (a loss,
further layers). `sigmoid_backprop` (C15z) is the case "root = the result, `G` = ones".
-/
set_option linter.unusedSimpArgs false
set_option linter.unusedSectionVars false
set_option linter.unusedVariables false

namespace Qeep
namespace C15u
open RealScalar C15x C15z C01 C01x C01z C01w

/-- the back edges of the seven tensors of the Sigmoid graph (tensor `k + i`) -/
def sgEdges (x k : Nat) : Nat → List (Edge ℝ)
  | 0 => [⟨x, .powX x 0⟩]
  | 1 => [⟨x, .scaleX (-1)⟩]
  | 2 => [⟨k + 1, .expX (k + 2)⟩]
  | 3 => [⟨k, .bcastX k (k + 3)⟩]
  | 4 => [⟨k + 2, .bcastX (k + 2) (k + 4)⟩]
  | 5 => [⟨k + 3, .idG⟩, ⟨k + 4, .idG⟩]
  | 6 => [⟨k + 5, .powX (k + 5) (-1)⟩]
  | _ => []

theorem sigmoid_in_walk (bm : BMode) (H2 : Heap ℝ) (root x k : Nat)
    (hdag : HeapDag H2) (htr : H2.tracked root = true) (hok : (backprop bm H2 root).status = .ok ())
    (wX : (H2.val x).WF) (hxk : x < k)
    (v2 : H2.val (k + 2) = (H2.val x).map (fun a => Real.exp (-a)))
    (v3 : H2.val (k + 3) = H2.val k) (v4 : H2.val (k + 4) = H2.val (k + 2))
    (v5 : H2.val (k + 5) = (H2.val x).map (fun a => 1 + Real.exp (-a)))
    (hc : ∀ i, i ≤ 6 → H2.ctx (k + i) = liveCtx (sgEdges x k i))
    (tx : H2.tracked x = true) (gx : H2.grad x = none)
    (hroot1 : root ≠ x) (hroot2 : ∀ i, i ≤ 5 → root ≠ k + i)
    (hsole : ∀ v ∈ backwardOrder H2 root, (v < k ∨ k + 6 < v) → ∀ e ∈ (H2.ctx v).edges,
      e.target ≠ x ∧ ¬ (k ≤ e.target ∧ e.target ≤ k + 5))
    (G : Tensor ℝ) (wG : G.WF) (dG : G.dims = (H2.val x).dims)
    (hy : k + 6 ∈ backwardOrder H2 root) (f6' : (backprop bm H2 root).heap.grad (k + 6) = some G) :
    (backprop bm H2 root).heap.grad x = some (gz G (H2.val x) (fun a => sig a * (1 - sig a))) := by
  have c0 := hc 0 (by omega); have c1 := hc 1 (by omega); have c2 := hc 2 (by omega); have c3 := hc 3 (by omega)
  have c4 := hc 4 (by omega); have c5 := hc 5 (by omega); have c6 := hc 6 (by omega)
  simp only [sgEdges, Nat.add_zero] at c0 c1 c2 c3 c4 c5 c6
  obtain ⟨_, t6, e6⟩ := liveCtx_grad H2 _ _ c6
  obtain ⟨g5, t5, e5⟩ := liveCtx_grad H2 _ _ c5
  obtain ⟨g4, t4, e4⟩ := liveCtx_grad H2 _ _ c4
  obtain ⟨g3, t3, e3⟩ := liveCtx_grad H2 _ _ c3
  obtain ⟨g2, t2, e2⟩ := liveCtx_grad H2 _ _ c2
  obtain ⟨g1, t1, e1⟩ := liveCtx_grad H2 _ _ c1
  obtain ⟨g0, t0, e0⟩ := liveCtx_grad H2 _ _ c0
  obtain ⟨_, hcl, _, _⟩ := backwardOrder_spec H2 root hdag htr
  have mem_of (u v : Nat) (hu : u ∈ backwardOrder H2 root) (r' : Rule ℝ) (hev : (⟨v, r'⟩ : Edge ℝ) ∈ (H2.ctx u).edges)
      (hv : H2.tracked v = true) : v ∈ backwardOrder H2 root := by
    apply hcl u hu
    unfold succs
    exact List.mem_filter.mpr ⟨List.mem_map.mpr ⟨⟨v, r'⟩, hev, rfl⟩, hv⟩
  have m6 := hy
  have m5 := mem_of _ (k + 5) m6 (.powX (k + 5) (-1)) (by rw [e6]; simp) t5
  have m3 := mem_of _ (k + 3) m5 .idG (by rw [e5]; simp) t3
  have m4 := mem_of _ (k + 4) m5 .idG (by rw [e5]; simp) t4
  have m0 := mem_of _ k m3 (.bcastX k (k + 3)) (by rw [e3]; simp) t0
  have m2 := mem_of _ (k + 2) m4 (.bcastX (k + 2) (k + 4)) (by rw [e4]; simp) t2
  have m1 := mem_of _ (k + 1) m2 (.expX (k + 2)) (by rw [e2]; simp) t1
  have hno : ∀ (t : Nat), ((k ≤ t ∧ t ≤ k + 5) ∨ t = x) → ∀ (P : Nat → Prop),
      (∀ i, i ≤ 6 → ¬ P (k + i) → ∀ e ∈ sgEdges x k i, e.target ≠ t) →
      ∀ v ∈ backwardOrder H2 root, ¬ P v → ∀ e ∈ (H2.ctx v).edges, e.target ≠ t := by
    intro t ht P hfin v hv hne e hev
    by_cases hvk : v < k ∨ k + 6 < v
    · obtain ⟨s1, s3⟩ := hsole v hv hvk e hev
      rcases ht with ht | rfl
      · intro h; rw [h] at s3; exact s3 ht
      · exact s1
    · obtain ⟨i, hi, rfl⟩ : ∃ i, i ≤ 6 ∧ v = k + i := ⟨v - k, by omega, by omega⟩
      rw [hc i hi] at hev
      exact hfin i hi hne e hev
  let H1 := markDirty H2 (backwardOrder H2 root)
  have hv1 : ∀ n, H1.val n = H2.val n := fun n => markDirty_val _ _ n
  let X := H2.val x
  have hd : G.dims = X.dims := dG
  have f6 : (backprop bm H2 root).heap.grad (k + 6) = some (gz G X (fun _ => 1)) := by
    rw [gz_one G X wX wG hd]; exact f6'
  let φy : ℝ → ℝ := fun a => 1 * (-1 * (1 + Real.exp (-a)) ^ ((-1 : ℝ) - 1))
  have f5 : (backprop bm H2 root).heap.grad (k + 5) = some (gz G X φy) := by
    apply grad_single' bm H2 root hdag htr hok (k + 5) (k + 6) m6 (hroot2 5 (by omega)).symm g5 t5 (.powX (k + 5) (-1))
      (by rw [e6]; simp [List.filter_cons]) ?_ (gz G X (fun _ => 1)) (gz G X φy) f6
      (r_pow bm H1 G X (fun _ => 1) (fun a => 1 + Real.exp (-a)) (k + 5) wX wG hd (-1) (by norm_num) (by rw [hv1, v5]))
    intro v hv hne
    apply hno (k + 5) (by omega) (fun v => v = k + 6) ?_ v hv hne
    intro i hi hne e hev
    interval_cases i <;> simp [sgEdges] at hev hne <;> (try rcases hev with rfl | rfl) <;> (try subst hev) <;> simp <;> omega
  have f3 : (backprop bm H2 root).heap.grad (k + 3) = some (gz G X φy) := by
    apply grad_single' bm H2 root hdag htr hok (k + 3) (k + 5) m5 (hroot2 3 (by omega)).symm g3 t3 .idG
      (by rw [e5]; simp [List.filter_cons]) ?_ (gz G X φy) (gz G X φy) f5 (r_id bm H1 G X φy)
    intro v hv hne
    apply hno (k + 3) (by omega) (fun v => v = k + 5) ?_ v hv hne
    intro i hi hne e hev
    interval_cases i <;> simp [sgEdges] at hev hne <;> (try rcases hev with rfl | rfl) <;> (try subst hev) <;> simp <;> omega
  have f4 : (backprop bm H2 root).heap.grad (k + 4) = some (gz G X φy) := by
    apply grad_single' bm H2 root hdag htr hok (k + 4) (k + 5) m5 (hroot2 4 (by omega)).symm g4 t4 .idG
      (by rw [e5]; simp [List.filter_cons]) ?_ (gz G X φy) (gz G X φy) f5 (r_id bm H1 G X φy)
    intro v hv hne
    apply hno (k + 4) (by omega) (fun v => v = k + 5) ?_ v hv hne
    intro i hi hne e hev
    interval_cases i <;> simp [sgEdges] at hev hne <;> (try rcases hev with rfl | rfl) <;> (try subst hev) <;> simp <;> omega
  have f0 : (backprop bm H2 root).heap.grad k = some (gz G X φy) := by
    apply grad_single' bm H2 root hdag htr hok k (k + 3) m3 (by simpa using (hroot2 0 (by omega)).symm) g0 t0 (.bcastX k (k + 3))
      (by rw [e3]; simp [List.filter_cons]) ?_ (gz G X φy) (gz G X φy) f3
      (r_bcast bm H1 _ k (k + 3) (by rw [hv1, hv1, v3]))
    intro v hv hne
    apply hno k (by omega) (fun v => v = k + 3) ?_ v hv hne
    intro i hi hne e hev
    interval_cases i <;> simp [sgEdges] at hev hne <;> (try rcases hev with rfl | rfl) <;> (try subst hev) <;> simp <;> omega
  have f2 : (backprop bm H2 root).heap.grad (k + 2) = some (gz G X φy) := by
    apply grad_single' bm H2 root hdag htr hok (k + 2) (k + 4) m4 (hroot2 2 (by omega)).symm g2 t2 (.bcastX (k + 2) (k + 4))
      (by rw [e4]; simp [List.filter_cons]) ?_ (gz G X φy) (gz G X φy) f4
      (r_bcast bm H1 _ (k + 2) (k + 4) (by rw [hv1, hv1, v4]))
    intro v hv hne
    apply hno (k + 2) (by omega) (fun v => v = k + 4) ?_ v hv hne
    intro i hi hne e hev
    interval_cases i <;> simp [sgEdges] at hev hne <;> (try rcases hev with rfl | rfl) <;> (try subst hev) <;> simp <;> omega
  let φ1 : ℝ → ℝ := fun a => φy a * Real.exp (-a)
  have f1 : (backprop bm H2 root).heap.grad (k + 1) = some (gz G X φ1) := by
    apply grad_single' bm H2 root hdag htr hok (k + 1) (k + 2) m2 (hroot2 1 (by omega)).symm g1 t1 (.expX (k + 2))
      (by rw [e2]; simp [List.filter_cons]) ?_ (gz G X φy) (gz G X φ1) f2
      (r_exp bm H1 G X φy (fun a => Real.exp (-a)) (k + 2) wX wG hd (by rw [hv1, v2]))
    intro v hv hne
    apply hno (k + 1) (by omega) (fun v => v = k + 2) ?_ v hv hne
    intro i hi hne e hev
    interval_cases i <;> simp [sgEdges] at hev hne <;> (try rcases hev with rfl | rfl) <;> (try subst hev) <;> simp <;> omega
  have shp : ∀ φ, Shaped X.dims (gz G X φ) := fun φ => ⟨gz_wf G X φ wX wG hd, hd⟩
  have hX : H1.val x = X.map id := by rw [hv1]; simp [Tensor.map, X]
  have fx := grad_two bm H2 root hdag htr hok x (k + 1) k m1 m0 (by omega) hroot1.symm gx tx
    (.scaleX (-1)) (.powX x 0) (by rw [e1]; simp [List.filter_cons]) (by rw [e0]; simp [List.filter_cons])
    (by
      intro v hv hn1 hn0
      apply hno x (Or.inr rfl) (fun v => v = k + 1 ∨ v = k) ?_ v hv (by intro h; rcases h with h | h; exact hn1 h; exact hn0 h)
      intro i hi hne e hev
      interval_cases i <;> simp [sgEdges] at hev hne <;> (try rcases hev with rfl | rfl) <;> (try subst hev) <;> simp <;> omega)
    (gz G X φ1) (gz G X (fun a => -1 * φ1 a)) (gz G X φy) (gz G X (fun _ => 0)) _ f1 f0
    (r_scale bm H1 G X φ1 (-1)) (r_pow0 bm H1 G X φy id x wX wG hd hX) X.dims (shp _) (shp _)
    (gz_add G X _ _ wX wG hd)
  rw [fx]
  congr 1
  exact gz_congr G X _ _ sig_factor

end C15u
end Qeep
