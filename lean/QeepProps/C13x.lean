import QeepProps.C13
import QeepProps.C15
import QeepProps.C12x
import QeepProofs.Calculus
import QeepProofs.Real
/-!
# C13 extension — BCE and CE: the local backward pass delivers the derivative of the loss formula (over `ℝ`)

What is proved (all for every batch size / class count, all real values, every upstream gradient `c`, and **both** modes
of the Broadcast backward rule — every Broadcast node in these graphs is between equal shapes, and SumAlong's rule is
`reducerBroadcasted`, i.e. forward UnSqueeze + Broadcast, so finding D2 does not touch the loss gradients):

* calculus (Mathlib): `bce_deriv`, `ce_deriv` (one summand), `bce_formula_deriv`, `ce_formula_deriv` (the whole formula,
  partial derivative with respect to one prediction);
* `clip_local_vjp`: the clip `ElMax(l·x⁰, ElMin(x, u·x⁰))` multiplies the gradient with `clipD l u x`; `clipD_cases`:
  1 strictly inside the band, 0 strictly outside; `clipD_tie`: ½ within `θ = 1e-240` of a bound; `const_path_zero`: the
  other paths (through the all-ones constants `x⁰`) deliver zeros;
* `bce_local_vjp` / `ce_local_vjp` (exact, all predictions): composing the Model's rules along the back edges of the loss
  graph — for BCE the two paths into `p̂` (through `log p̂` and `log(1−p̂)`), summed at `p̂` (fan-in), then the clip — the
  prediction receives `bceGrad` resp. `ceGrad` = `c·(−1/n)·(t̂/p̂ − (1−t̂)/(1−p̂))·clipD ε (1−ε) p` resp.
  `c·(−1/m)·(t̂/p̂)·clipD ε (1−ε) p`;
* `bce_local_vjp_partial` / `ce_local_vjp_partial`: hence the derivative of the formula strictly inside the band, 0
  strictly outside;
* `bce_graph` / `ce_graph`: the hypotheses of the local theorems (node values, rules on the back edges, tracked nodes) are
  exactly what `lossCompute` builds; `bce_gradient` / `ce_gradient`: both steps combined.

**The naive statement is false for the code** (`clipD_naive_false`): "factor 1 whenever `ε < p < 1−ε`" fails for
`p = 1 − ε − 1e-241`: the library's `Eq` (`|a−b| ≤ 1e-240`) makes ElMin's tie rule fire and the factor is ½. "Strictly
inside / outside" therefore means: by more than `θ = 1e-240` (`ε + θ < p < 1 − ε − θ`, resp. `p < ε − θ` or `1 − ε + θ < p`).
Over float64 the excluded slivers contain only the two bounds themselves (doubles are spaced `1.1e-16` near `1 − ε` and
`2e-28` near `ε`): the exact ties `p = ε`, `p = 1 − ε`, where the factor is ½ (`clipD_tie`). The targets enter as `t̂ = clip(t, 0, 1)` (no gradient is
asked for them); `tHat t = t` for `t ∈ [0, 1]` (`C12x.tHat_id`).

Not proved here: that no *further* path from the loss reaches the prediction (by inspection of `lossCompute` the only
other consumers of `p̂` and `p` are the `Pow(·, 0)` constants, covered by `const_path_zero`), and the lifting from path
pullbacks to the stored `Gradient()` of a whole `BackPropagate` run (`C01.backprop_adjoint` gives the per-edge equations).
-/
set_option linter.unusedSimpArgs false
set_option linter.unusedSectionVars false
set_option linter.unusedVariables false

namespace Qeep
namespace C13x
open RealScalar
open C12x (clipR tHat pHat wf_map)

/-! ## The calculus facts -/

/-- **BCE summand**: `d/dp [-(t·log p + (1-t)·log(1-p))] = -(t/p - (1-t)/(1-p))` on `0 < p < 1` -/
theorem bce_deriv (t p : ℝ) (hp0 : 0 < p) (hp1 : p < 1) :
    HasDerivAt (fun p => -(t * Real.log p + (1 - t) * Real.log (1 - p))) (-(t / p - (1 - t) / (1 - p))) p := by
  have hne : p ≠ 0 := hp0.ne'
  have hne1 : 1 - p ≠ 0 := by linarith
  have h1 : HasDerivAt (fun y => t * Real.log y) (t * p⁻¹) p := (Real.hasDerivAt_log hne).const_mul t
  have h2 : HasDerivAt (fun y : ℝ => 1 - y) (-1) p := by
    simpa using (hasDerivAt_id p).const_sub 1
  have h3 : HasDerivAt (fun y => Real.log (1 - y)) ((1 - p)⁻¹ * -1) p :=
    (Real.hasDerivAt_log hne1).comp p h2
  have h4 := (h1.add (h3.const_mul (1 - t))).neg
  refine h4.congr_deriv ?_
  field_simp
  ring

/-- **CE summand**: `d/dp [-(t·log p)] = -(t/p)` for `p ≠ 0` -/
theorem ce_deriv (t p : ℝ) (hp : p ≠ 0) : HasDerivAt (fun p => -(t * Real.log p)) (-(t / p)) p := by
  have h1 : HasDerivAt (fun y => t * Real.log y) (t * p⁻¹) p := (Real.hasDerivAt_log hp).const_mul t
  refine h1.neg.congr_deriv ?_
  rw [div_eq_mul_inv]

/-! ## The factor the clip delivers -/

/-- what the two tie-aware rules of `clip(x, l, u) = ElMax(l·x⁰, ElMin(x, u·x⁰))` multiply the gradient with along the
    path result → ElMin result → `x` (`Scalar.near a b` is the library's `Eq`: `|a − b| ≤ 1e-240`):
    first factor = ElMax rule towards the ElMin result, second factor = ElMin rule towards `x` -/
noncomputable def clipD (l u a : ℝ) : ℝ :=
  ((if Scalar.near (max l (min a u)) (min a u) then 1 else 0) - (1 / 2) * (if Scalar.near (min a u) l then 1 else 0)) *
  ((if Scalar.near (min a u) a then 1 else 0) - (1 / 2) * (if Scalar.near a u then 1 else 0))

theorem near_iff (u v : ℝ) : Scalar.near u v = true ↔ |u - v| ≤ 1 / 10 ^ 240 := by
  have : Scalar.near u v = decide (|u - v| ≤ (Scalar.eqThr : ℝ)) := rfl
  rw [this, decide_eq_true_eq]
  have e : (Scalar.eqThr : ℝ) = 1 / 10 ^ 240 := by simp [Scalar.eqThr, Scalar.ofSci]
  rw [e]

/-- **1 strictly inside the band, 0 strictly outside** — "strictly" up to the library's equality threshold
    `θ = 1e-240`: inside means `l + θ < a < u − θ`, outside means `a < l − θ` or `u + θ < a`. -/
theorem clipD_cases (l u a : ℝ) (hlu : l ≤ u) :
    (l + 1 / 10 ^ 240 < a → a < u - 1 / 10 ^ 240 → clipD l u a = 1) ∧
    (a < l - 1 / 10 ^ 240 → clipD l u a = 0) ∧
    (u + 1 / 10 ^ 240 < a → clipD l u a = 0) := by
  have hθ : (0 : ℝ) < 1 / 10 ^ 240 := by positivity
  refine ⟨?_, ?_, ?_⟩
  · intro h1 h2
    have hau : a ≤ u := by linarith
    have hla : l ≤ a := by linarith
    have n1 : Scalar.near (max l (min a u)) (min a u) = true := by
      rw [near_iff, min_eq_left hau, max_eq_right hla]; simp [hθ.le]
    have n2 : Scalar.near (min a u) l = false := by
      rw [← Bool.not_eq_true, near_iff, min_eq_left hau, abs_of_nonneg (by linarith)]; linarith
    have n3 : Scalar.near (min a u) a = true := by
      rw [near_iff, min_eq_left hau]; simp [hθ.le]
    have n4 : Scalar.near a u = false := by
      rw [← Bool.not_eq_true, near_iff, abs_of_nonpos (by linarith)]; linarith
    simp [clipD, n1, n2, n3, n4]
  · intro h1
    have hau : a ≤ u := by linarith
    have hal : a ≤ l := by linarith
    have n1 : Scalar.near (max l (min a u)) (min a u) = false := by
      rw [← Bool.not_eq_true, near_iff, min_eq_left hau, max_eq_left hal, abs_of_nonneg (by linarith)]; linarith
    have n2 : Scalar.near (min a u) l = false := by
      rw [← Bool.not_eq_true, near_iff, min_eq_left hau, abs_of_nonpos (by linarith)]; linarith
    simp [clipD, n1, n2]
  · intro h1
    have hua : u ≤ a := by linarith
    have n3 : Scalar.near (min a u) a = false := by
      rw [← Bool.not_eq_true, near_iff, min_eq_right hua, abs_of_nonpos (by linarith)]; linarith
    have n4 : Scalar.near a u = false := by
      rw [← Bool.not_eq_true, near_iff, abs_of_nonneg (by linarith)]; linarith
    simp [clipD, n3, n4]

/-- **½ on the ties**: within `θ = 1e-240` of a bound (bounds more than `2θ` apart) -/
theorem clipD_tie (l u a : ℝ) (hlu : l + 2 / 10 ^ 240 < u) :
    (|a - u| ≤ 1 / 10 ^ 240 → clipD l u a = 1 / 2) ∧ (|a - l| ≤ 1 / 10 ^ 240 → clipD l u a = 1 / 2) := by
  have hθ : (0 : ℝ) < 1 / 10 ^ 240 := by positivity
  have h2θ : (2 : ℝ) / 10 ^ 240 = 1 / 10 ^ 240 + 1 / 10 ^ 240 := by ring
  constructor
  · intro h
    obtain ⟨h1, h2⟩ := abs_le.mp h
    have n4 : Scalar.near a u = true := by rw [near_iff]; exact h
    rcases le_total a u with hau | hua
    · have n1 : Scalar.near (max l (min a u)) (min a u) = true := by
        rw [near_iff, min_eq_left hau, max_eq_right (by linarith)]; simp [hθ.le]
      have n2 : Scalar.near (min a u) l = false := by
        rw [← Bool.not_eq_true, near_iff, min_eq_left hau, abs_of_nonneg (by linarith)]; linarith
      have n3 : Scalar.near (min a u) a = true := by
        rw [near_iff, min_eq_left hau]; simp [hθ.le]
      simp [clipD, n1, n2, n3, n4]
      norm_num
    · have n1 : Scalar.near (max l (min a u)) (min a u) = true := by
        rw [near_iff, min_eq_right hua, max_eq_right (by linarith)]; simp [hθ.le]
      have n2 : Scalar.near (min a u) l = false := by
        rw [← Bool.not_eq_true, near_iff, min_eq_right hua, abs_of_nonneg (by linarith)]; linarith
      have n3 : Scalar.near (min a u) a = true := by
        rw [near_iff, min_eq_right hua, abs_of_nonpos (by linarith)]; linarith
      simp [clipD, n1, n2, n3, n4]
      norm_num
  · intro h
    obtain ⟨h1, h2⟩ := abs_le.mp h
    have hau : a ≤ u := by linarith
    have n1 : Scalar.near (max l (min a u)) (min a u) = true := by
      rw [near_iff, min_eq_left hau]
      rcases le_total l a with h0 | h0
      · rw [max_eq_right h0]; simp [hθ.le]
      · rw [max_eq_left h0, abs_of_nonneg (by linarith)]; linarith
    have n2 : Scalar.near (min a u) l = true := by rw [near_iff, min_eq_left hau]; exact h
    have n3 : Scalar.near (min a u) a = true := by
      rw [near_iff, min_eq_left hau]; simp [hθ.le]
    have n4 : Scalar.near a u = false := by
      rw [← Bool.not_eq_true, near_iff, abs_of_nonpos (by linarith)]; linarith
    simp [clipD, n1, n2, n3, n4]
    norm_num

/-- the naive reading "gradient factor 1 whenever `ε < p < 1 − ε`" is **false** for the code: a prediction within
    `1e-240` below `1 − ε` is strictly inside the band, yet the factor is ½ (tie rule of ElMin). Over float64 such a
    number does not exist (the spacing of doubles near 1 is `1.1e-16`), over `ℝ` it does. -/
theorem clipD_naive_false :
    ∃ a : ℝ, 1 / 10 ^ 12 < a ∧ a < 1 - 1 / 10 ^ 12 ∧ clipD (1 / 10 ^ 12) (1 - 1 / 10 ^ 12) a = 1 / 2 := by
  refine ⟨1 - 1 / 10 ^ 12 - 1 / 10 ^ 241, by norm_num, by norm_num, ?_⟩
  refine (clipD_tie _ _ _ (by norm_num)).1 ?_
  rw [abs_le]; constructor <;> norm_num

/-! ## Rule values on tensors given as element-wise images of one index list -/

section Rules
variable {ι : Type} (bm : BMode) (H : Heap ℝ) {d : List Nat} {Z : List ι}

theorem r_log (hZ : Z.length = prod d) (hd : ∀ x ∈ d, 0 < x) {x : Nat} {f : ι → ℝ} (hx : H.val x = ⟨d, Z.map f⟩)
    (g : ι → ℝ) :
    evalRule bm H ⟨d, Z.map g⟩ (.logX x) = .ok ⟨d, Z.map (fun z => g z * (1 / f z))⟩ := by
  have := C02.rule_log bm H ⟨d, Z.map g⟩ x (wf_map hZ hd g) (by rw [hx]; exact wf_map hZ hd f) (by rw [hx])
  rw [this, hx]
  simp only [C14.zipWith_maps]

theorem r_mul (hZ : Z.length = prod d) (hd : ∀ x ∈ d, 0 < x) {o : Nat} {f : ι → ℝ} (ho : H.val o = ⟨d, Z.map f⟩)
    (g : ι → ℝ) :
    evalRule bm H ⟨d, Z.map g⟩ (.mulG o) = .ok ⟨d, Z.map (fun z => g z * f z)⟩ := by
  have wo : (H.val o).WF := by rw [ho]; exact wf_map hZ hd f
  have := (C02.rule_mul_div bm H ⟨d, Z.map g⟩ o o (wf_map hZ hd g) wo wo (by rw [ho]) (by rw [ho])).1
  rw [this, ho]
  simp only [C14.zipWith_maps]

theorem r_neg (g : ι → ℝ) :
    evalRule bm H ⟨d, Z.map g⟩ .negG = .ok ⟨d, Z.map (fun z => -1 * g z)⟩ := by
  rw [(C02.rule_add_sub bm H _).2]
  simp only [List.map_map, Function.comp_def]

theorem r_scale (a : ℝ) (g : ι → ℝ) :
    evalRule bm H ⟨d, Z.map g⟩ (.scaleX a) = .ok ⟨d, Z.map (fun z => a * g z)⟩ := by
  rw [C02.rule_scale]
  simp only [List.map_map, Function.comp_def]

theorem r_id (G : Tensor ℝ) : evalRule bm H G .idG = .ok G := (C02.rule_add_sub bm H G).1

/-- the `Broadcast` node `hArith` puts in front of an operand of the common shape: identity rule, either mode -/
theorem r_bcast (G : Tensor ℝ) {x y : Nat} (h : (H.val x).dims = (H.val y).dims) :
    evalRule bm H G (.bcastX x y) = .ok G := by
  simp only [evalRule, h]
  exact C13.bcastRule_same bm _ _

/-- `Pow(·, 0)` (the all-ones constant of `clip` and of `1 − ŷ`): the rule returns zeros whatever arrives -/
theorem r_pow0 (G : Tensor ℝ) {x : Nat} {f : ι → ℝ} (hx : H.val x = ⟨d, Z.map f⟩) :
    evalRule bm H G (.powX x Scalar.zero) = .ok ⟨d, Z.map (fun _ => 0)⟩ := by
  have hz : isZero (Scalar.zero : ℝ) = true := by simp [isZero]
  simp only [evalRule, hz, if_true, pure, vScale, Tensor.map, hx, List.map_map, Function.comp_def]
  simp only [mul_eq, zero_eq, zero_mul]

theorem r_elext (hZ : Z.length = prod d) (hd : ∀ x ∈ d, 0 < x) {y a b : Nat} {fy fa fb : ι → ℝ}
    (hy : H.val y = ⟨d, Z.map fy⟩) (ha : H.val a = ⟨d, Z.map fa⟩) (hb : H.val b = ⟨d, Z.map fb⟩) (g : ι → ℝ) :
    evalRule bm H ⟨d, Z.map g⟩ (.elext y a b) = .ok ⟨d, Z.map (fun z =>
      g z * ((if Scalar.near (fy z) (fa z) then 1 else 0) - (1 / 2) * (if Scalar.near (fa z) (fb z) then 1 else 0)))⟩ := by
  simp only [evalRule, hy, ha, hb, bind, Out.bind]
  rw [vCmp_same .eq _ _ (wf_map hZ hd fy) (wf_map hZ hd fa) rfl]
  simp only [C14.zipWith_maps]
  rw [vCmp_same .eq _ _ (wf_map hZ hd fa) (wf_map hZ hd fb) rfl]
  simp only [C14.zipWith_maps, vScale, Tensor.map, List.map_map, Function.comp_def]
  rw [vArith_same .sub _ _ (wf_map hZ hd (fun a => Cmp.eq.fn (fy a) (fa a)))
    (wf_map hZ hd (fun x => Scalar.mul Scalar.half (Cmp.eq.fn (fa x) (fb x)))) rfl]
  simp only [C14.zipWith_maps]
  rw [vArith_same .mul _ _ (wf_map hZ hd g) (wf_map hZ hd (fun a => Arith.sub.fn (Cmp.eq.fn (fy a) (fa a))
    (Scalar.mul Scalar.half (Cmp.eq.fn (fa a) (fb a))))) rfl]
  simp only [C14.zipWith_maps, Cmp.fn, Arith.fn, mul_eq, sub_eq, Scalar.ofBool, half_eq, one_eq, zero_eq]

/-- `MeanAlong(0)` of a rank-1 tensor, seeded with the scalar `c`: every position gets `c / n` -/
theorem r_avg1 (x n : Nat) (c : ℝ) (hn : 0 < n) (hx : (H.val x).dims = [n]) (hZ : Z.length = n) :
    evalRule bm H (⟨[], [c]⟩ : Tensor ℝ) (.avgAlongX x 0) = .ok ⟨[n], Z.map (fun _ => 1 / (n : ℝ) * c)⟩ := by
  simp only [evalRule, hx, bind, Out.bind, C13.reducerBroadcasted_scalar c n hn, pure, List.getD_cons_zero]
  simp [vScale, Tensor.map, List.map_const', hZ]

end Rules

theorem add_maps {ι : Type} {d : List Nat} {Z : List ι} (hZ : Z.length = prod d) (hd : ∀ x ∈ d, 0 < x) (f g : ι → ℝ) :
    vArith .add (⟨d, Z.map f⟩ : Tensor ℝ) ⟨d, Z.map g⟩ = .ok ⟨d, Z.map (fun z => f z + g z)⟩ := by
  rw [vArith_same .add _ _ (wf_map hZ hd f) (wf_map hZ hd g) rfl]
  simp only [C14.zipWith_maps, Arith.fn, add_eq]

/-! ## Composition of rules along a path of back edges -/

/-- the backward rules along a path of back edges, composed (the rule of the edge nearest to the loss first) -/
noncomputable def pullPath (bm : BMode) (H : Heap ℝ) : List (Rule ℝ) → Tensor ℝ → Out (Tensor ℝ)
  | [], g => .ok g
  | r :: rs, g => (evalRule bm H g r).bind (pullPath bm H rs)

theorem pullPath_nil (bm : BMode) (H : Heap ℝ) (g : Tensor ℝ) : pullPath bm H [] g = .ok g := rfl

theorem pullPath_cons (bm : BMode) (H : Heap ℝ) {r : Rule ℝ} {rs : List (Rule ℝ)} {g g' : Tensor ℝ}
    (h : evalRule bm H g r = .ok g') : pullPath bm H (r :: rs) g = pullPath bm H rs g' := by
  simp only [pullPath, h, Out.bind]

/-! ## The clip segment -/

/-- **clip, local backward pass** (`clip(x, l, u) = ElMax(l·x⁰, ElMin(x, u·x⁰))`): a gradient `g` arriving at the clip's
    result reaches `x`, through the ElMax rule (towards the ElMin result) and the ElMin rule (towards `x`), as
    `g · clipD l u x` — 1 strictly inside the band, 0 strictly outside, ½ on a tie (`clipD_cases`, `clipD_tie`). -/
theorem clip_local_vjp {ι : Type} (bm : BMode) (H : Heap ℝ) {d : List Nat} {Z : List ι} (hZ : Z.length = prod d)
    (hd : ∀ x ∈ d, 0 < x) (x lo up xmin r : Nat) (l u : ℝ) (f g : ι → ℝ)
    (hx : H.val x = ⟨d, Z.map f⟩) (hlo : H.val lo = ⟨d, Z.map (fun _ => l)⟩) (hup : H.val up = ⟨d, Z.map (fun _ => u)⟩)
    (hmin : H.val xmin = ⟨d, Z.map (fun z => min (f z) u)⟩)
    (hr : H.val r = ⟨d, Z.map (fun z => max l (min (f z) u))⟩) :
    pullPath bm H [.elext r xmin lo, .elext xmin x up] ⟨d, Z.map g⟩ = .ok ⟨d, Z.map (fun z => g z * clipD l u (f z))⟩ := by
  rw [pullPath_cons bm H (r_elext bm H hZ hd hr hmin hlo g), pullPath_cons bm H (r_elext bm H hZ hd hmin hx hup _),
    pullPath_nil]
  congr 2
  apply List.map_congr_left
  intro z _
  simp only [clipD]
  ring

/-- the other paths from the clip's result to `x` run through the constant `x⁰` (towards `lower` and `upper`): its
    `Pow(·, 0)` rule delivers zeros whatever arrives, and adding zeros changes nothing -/
theorem const_path_zero {ι : Type} (bm : BMode) (H : Heap ℝ) {d : List Nat} {Z : List ι} (hZ : Z.length = prod d)
    (hd : ∀ x ∈ d, 0 < x) (x : Nat) (f g : ι → ℝ) (hx : H.val x = ⟨d, Z.map f⟩) (G : Tensor ℝ) :
    ∃ z, evalRule bm H G (.powX x 0) = .ok z ∧ vArith .add (⟨d, Z.map g⟩ : Tensor ℝ) z = .ok ⟨d, Z.map g⟩ := by
  refine ⟨⟨d, Z.map (fun _ => 0)⟩, ?_, ?_⟩
  · have := r_pow0 bm H G hx
    rwa [zero_eq] at this
  · rw [add_maps hZ hd]
    simp only [add_zero]

/-! ## BCE -/

/-- the nodes of the graph `lossCompute .bce` builds that lie on a path from the loss to the prediction `p`
    (the all-ones constants `p⁰`, `p̂⁰` only contribute zeros, see `const_path_zero`) -/
structure BceIds where
  /-- the prediction -/
  p : Nat
  /-- `lower = ε·p⁰`, `upper = (1−ε)·p⁰`, `pmin = ElMin(p, upper)`, `ph = p̂ = ElMax(lower, pmin)` -/
  lo : Nat
  up : Nat
  pmin : Nat
  ph : Nat
  /-- `lg = Log(p̂)`; `s1 = Mul(t̂, lg)` on the broadcast operands `tb`, `lgb` -/
  lg : Nat
  tb : Nat
  lgb : Nat
  s1 : Nat
  /-- `y2 = Sub(p̂⁰, p̂)` on the broadcast operand `phb` of `p̂`; `lg2 = Log(y2)`; `s2 = Mul(t2, lg2)` on `t2b`, `lg2b`,
      `t2 = 1 − t̂` -/
  phb : Nat
  y2 : Nat
  lg2 : Nat
  t2b : Nat
  lg2b : Nat
  s2 : Nat
  /-- `l = Add(s1, s2)` on the broadcast operands `s1b`, `s2b`; `ln = Scale(l, −1)`; loss = `MeanAlong(ln, 0)` -/
  s1b : Nat
  s2b : Nat
  ln : Nat

/-- loss → `ln` → `l` → `s1` → `lg` → `p̂` -/
noncomputable def BceIds.pathA (N : BceIds) : List (Rule ℝ) :=
  [.avgAlongX N.ln 0, .scaleX (-1), .idG, .bcastX N.s1 N.s1b, .mulG N.tb, .bcastX N.lg N.lgb, .logX N.ph]
/-- loss → `ln` → `l` → `s2` → `lg2` → `y2` → `p̂` -/
noncomputable def BceIds.pathB (N : BceIds) : List (Rule ℝ) :=
  [.avgAlongX N.ln 0, .scaleX (-1), .idG, .bcastX N.s2 N.s2b, .mulG N.t2b, .bcastX N.lg2 N.lg2b, .logX N.y2, .negG,
   .bcastX N.ph N.phb]
/-- `p̂` → `pmin` → `p` -/
noncomputable def BceIds.pathClip (N : BceIds) : List (Rule ℝ) := [.elext N.ph N.pmin N.lo, .elext N.pmin N.p N.up]

/-- what the forward pass stored in those nodes, position by position over an index list `Z`: `fP` the predictions,
    `τ` the (clipped) targets -/
structure BceVals {ι : Type} (H : Heap ℝ) (N : BceIds) (n : Nat) (Z : List ι) (fP τ : ι → ℝ) : Prop where
  p : H.val N.p = ⟨[n], Z.map fP⟩
  lo : H.val N.lo = ⟨[n], Z.map (fun _ => 1 / 10 ^ 12)⟩
  up : H.val N.up = ⟨[n], Z.map (fun _ => 1 - 1 / 10 ^ 12)⟩
  pmin : H.val N.pmin = ⟨[n], Z.map (fun z => min (fP z) (1 - 1 / 10 ^ 12))⟩
  ph : H.val N.ph = ⟨[n], Z.map (fun z => pHat (fP z))⟩
  tb : H.val N.tb = ⟨[n], Z.map τ⟩
  t2b : H.val N.t2b = ⟨[n], Z.map (fun z => 1 - τ z)⟩
  y2 : H.val N.y2 = ⟨[n], Z.map (fun z => 1 - pHat (fP z))⟩
  lg : (H.val N.lg).dims = [n]
  lgb : (H.val N.lgb).dims = [n]
  s1 : (H.val N.s1).dims = [n]
  s1b : (H.val N.s1b).dims = [n]
  phb : (H.val N.phb).dims = [n]
  lg2 : (H.val N.lg2).dims = [n]
  lg2b : (H.val N.lg2b).dims = [n]
  s2 : (H.val N.s2).dims = [n]
  s2b : (H.val N.s2b).dims = [n]
  ln : (H.val N.ln).dims = [n]

/-- the gradient BCE's graph delivers to prediction `pv` with target `tv`, batch size `n`, upstream `c` -/
noncomputable def bceGrad (c : ℝ) (n : Nat) (τ pv : ℝ) : ℝ :=
  c * (-1 / (n : ℝ)) * (τ / pHat pv - (1 - τ) / (1 - pHat pv)) * clipD (1 / 10 ^ 12) (1 - 1 / 10 ^ 12) pv

theorem pHat_inside (p : ℝ) (h1 : 1 / 10 ^ 12 ≤ p) (h2 : p ≤ 1 - 1 / 10 ^ 12) : pHat p = p := by
  unfold pHat clipR
  rw [min_eq_left h2, max_eq_right h1]

/-- strictly inside the band: the derivative of the BCE formula (`bce_deriv`) times `c / n` -/
theorem bceGrad_inside (c : ℝ) (n : Nat) (τ pv : ℝ) (h1 : 1 / 10 ^ 12 + 1 / 10 ^ 240 < pv)
    (h2 : pv < 1 - 1 / 10 ^ 12 - 1 / 10 ^ 240) :
    bceGrad c n τ pv = c * (-1 / (n : ℝ)) * (τ / pv - (1 - τ) / (1 - pv)) := by
  have hθ : (0 : ℝ) < 1 / 10 ^ 240 := by positivity
  unfold bceGrad
  rw [(clipD_cases _ _ pv (by norm_num)).1 h1 h2, pHat_inside pv (by linarith) (by linarith), mul_one]

/-- strictly outside the band: 0 -/
theorem bceGrad_outside (c : ℝ) (n : Nat) (τ pv : ℝ)
    (h : pv < 1 / 10 ^ 12 - 1 / 10 ^ 240 ∨ 1 - 1 / 10 ^ 12 + 1 / 10 ^ 240 < pv) : bceGrad c n τ pv = 0 := by
  unfold bceGrad
  rcases h with h | h
  · rw [(clipD_cases _ _ pv (by norm_num)).2.1 h, mul_zero]
  · rw [(clipD_cases _ _ pv (by norm_num)).2.2 h, mul_zero]

/-- **BCE, local backward pass** (positions indexed by `Z`): seeded with `c` on the scalar loss, the two paths to `p̂`
    (through `log p̂` and through `log(1 − p̂)`) are pulled back by the Model's rules, their contributions are added
    at `p̂` (fan-in), and the sum is pulled through the clip to `p`: position `z` receives `bceGrad c n (τ z) (p z)`.
    Either mode of the Broadcast rule (all Broadcast nodes are between equal shapes). -/
theorem bce_local_vjp_gen {ι : Type} (bm : BMode) (H : Heap ℝ) (N : BceIds) (n : Nat) (hn : 0 < n) (Z : List ι)
    (hZn : Z.length = n) (fP τ : ι → ℝ) (hv : BceVals H N n Z fP τ) (c : ℝ) :
    ∃ A B G,
      pullPath bm H N.pathA ⟨[], [c]⟩ = .ok A ∧ pullPath bm H N.pathB ⟨[], [c]⟩ = .ok B ∧
      vArith .add A B = .ok G ∧
      pullPath bm H N.pathClip G = .ok ⟨[n], Z.map (fun z => bceGrad c n (τ z) (fP z))⟩ := by
  have hZ : Z.length = prod [n] := by simp [prod, hZn]
  have hd : ∀ x ∈ [n], 0 < x := by simpa using hn
  -- shared prefix
  have e0 := r_avg1 bm H (Z := Z) N.ln n c hn hv.ln hZn
  have e1 := r_scale bm H (d := [n]) (Z := Z) (-1) (fun _ => 1 / (n : ℝ) * c)
  -- path A
  have a2 := r_mul bm H hZ hd hv.tb (fun z => -1 * (1 / (n : ℝ) * c))
  have a3 := r_log bm H hZ hd hv.ph (fun z => -1 * (1 / (n : ℝ) * c) * τ z)
  have hA : pullPath bm H N.pathA ⟨[], [c]⟩
      = .ok ⟨[n], Z.map (fun z => -1 * (1 / (n : ℝ) * c) * τ z * (1 / pHat (fP z)))⟩ := by
    unfold BceIds.pathA
    rw [pullPath_cons bm H e0, pullPath_cons bm H e1, pullPath_cons bm H (r_id bm H _),
      pullPath_cons bm H (r_bcast bm H _ (by rw [hv.s1, hv.s1b])), pullPath_cons bm H a2,
      pullPath_cons bm H (r_bcast bm H _ (by rw [hv.lg, hv.lgb])), pullPath_cons bm H a3, pullPath_nil]
  -- path B
  have b2 := r_mul bm H hZ hd hv.t2b (fun z => -1 * (1 / (n : ℝ) * c))
  have b3 := r_log bm H hZ hd hv.y2 (fun z => -1 * (1 / (n : ℝ) * c) * (1 - τ z))
  have b4 := r_neg bm H (d := [n]) (Z := Z) (fun z => -1 * (1 / (n : ℝ) * c) * (1 - τ z) * (1 / (1 - pHat (fP z))))
  have hB : pullPath bm H N.pathB ⟨[], [c]⟩
      = .ok ⟨[n], Z.map (fun z => -1 * (-1 * (1 / (n : ℝ) * c) * (1 - τ z) * (1 / (1 - pHat (fP z)))))⟩ := by
    unfold BceIds.pathB
    rw [pullPath_cons bm H e0, pullPath_cons bm H e1, pullPath_cons bm H (r_id bm H _),
      pullPath_cons bm H (r_bcast bm H _ (by rw [hv.s2, hv.s2b])), pullPath_cons bm H b2,
      pullPath_cons bm H (r_bcast bm H _ (by rw [hv.lg2, hv.lg2b])), pullPath_cons bm H b3,
      pullPath_cons bm H b4, pullPath_cons bm H (r_bcast bm H _ (by rw [hv.ph, hv.phb])), pullPath_nil]
  refine ⟨_, _, _, hA, hB, add_maps hZ hd _ _, ?_⟩
  unfold BceIds.pathClip
  rw [clip_local_vjp bm H hZ hd N.p N.lo N.up N.pmin N.ph _ _ fP _ hv.p hv.lo hv.up hv.pmin hv.ph]
  congr 2
  apply List.map_congr_left
  intro z _
  unfold bceGrad
  ring

theorem map_zip_fst {β γ δ : Type} (f : β → δ) (T : List β) (P : List γ) (h : T.length ≤ P.length) :
    (T.zip P).map (fun z => f z.1) = T.map f := by
  have := congrArg (List.map f) (List.map_fst_zip (l₁ := T) (l₂ := P) h)
  simpa only [List.map_map, Function.comp_def] using this

theorem map_zip_snd {β γ δ : Type} (f : γ → δ) (T : List β) (P : List γ) (h : P.length ≤ T.length) :
    (T.zip P).map (fun z => f z.2) = P.map f := by
  have := congrArg (List.map f) (List.map_snd_zip (l₁ := T) (l₂ := P) h)
  simpa only [List.map_map, Function.comp_def] using this

/-- the same node values stated on the data of the two inputs: `P` the predictions, `T` the targets; `t̂ = tHat`
    (`clip(·, 0, 1)`), `p̂ = pHat` (`clip(·, ε, 1−ε)`), constants `ε·p⁰ = ε`, `(1−ε)·p⁰ = 1−ε` -/
structure BceNodeVals (H : Heap ℝ) (N : BceIds) (n : Nat) (T P : List ℝ) : Prop where
  p : H.val N.p = ⟨[n], P⟩
  lo : H.val N.lo = ⟨[n], P.map (fun _ => 1 / 10 ^ 12)⟩
  up : H.val N.up = ⟨[n], P.map (fun _ => 1 - 1 / 10 ^ 12)⟩
  pmin : H.val N.pmin = ⟨[n], P.map (fun pv => min pv (1 - 1 / 10 ^ 12))⟩
  ph : H.val N.ph = ⟨[n], P.map pHat⟩
  tb : H.val N.tb = ⟨[n], T.map tHat⟩
  t2b : H.val N.t2b = ⟨[n], T.map (fun tv => 1 - tHat tv)⟩
  y2 : H.val N.y2 = ⟨[n], P.map (fun pv => 1 - pHat pv)⟩
  lg : (H.val N.lg).dims = [n]
  lgb : (H.val N.lgb).dims = [n]
  s1 : (H.val N.s1).dims = [n]
  s1b : (H.val N.s1b).dims = [n]
  phb : (H.val N.phb).dims = [n]
  lg2 : (H.val N.lg2).dims = [n]
  lg2b : (H.val N.lg2b).dims = [n]
  s2 : (H.val N.s2).dims = [n]
  s2b : (H.val N.s2b).dims = [n]
  ln : (H.val N.ln).dims = [n]

theorem BceNodeVals.toVals {H : Heap ℝ} {N : BceIds} {n : Nat} {T P : List ℝ} (hT : T.length = n) (hP : P.length = n)
    (h : BceNodeVals H N n T P) : BceVals H N n (T.zip P) (fun z => z.2) (fun z => tHat z.1) where
  p := by rw [h.p, List.map_snd_zip (by omega)]
  lo := by rw [h.lo, map_zip_snd (fun _ => (1 : ℝ) / 10 ^ 12) T P (by omega)]
  up := by rw [h.up, map_zip_snd (fun _ => (1 : ℝ) - 1 / 10 ^ 12) T P (by omega)]
  pmin := by rw [h.pmin, map_zip_snd (fun pv => min pv ((1 : ℝ) - 1 / 10 ^ 12)) T P (by omega)]
  ph := by rw [h.ph, map_zip_snd pHat T P (by omega)]
  tb := by rw [h.tb, map_zip_fst tHat T P (by omega)]
  t2b := by rw [h.t2b, map_zip_fst (fun tv => 1 - tHat tv) T P (by omega)]
  y2 := by rw [h.y2, map_zip_snd (fun pv => 1 - pHat pv) T P (by omega)]
  lg := h.lg
  lgb := h.lgb
  s1 := h.s1
  s1b := h.s1b
  phb := h.phb
  lg2 := h.lg2
  lg2b := h.lg2b
  s2 := h.s2
  s2b := h.s2b
  ln := h.ln

/-- **BCE, local backward pass**: for every batch size `n ≥ 1`, all predictions `P`, all targets `T` and every upstream
    gradient `c` (the all-ones seed is `c = 1`): the pullbacks along the two paths loss → `p̂` succeed, their sum `G` is
    what accumulates at `p̂`, and pulled through the clip the prediction receives, at position `i`,
    `bceGrad c n (tHat Tᵢ) Pᵢ = c · (−1/n) · (t̂ᵢ/p̂ᵢ − (1−t̂ᵢ)/(1−p̂ᵢ)) · clipD ε (1−ε) Pᵢ`. -/
theorem bce_local_vjp (bm : BMode) (H : Heap ℝ) (N : BceIds) (n : Nat) (hn : 0 < n) (T P : List ℝ)
    (hT : T.length = n) (hP : P.length = n) (hv : BceNodeVals H N n T P) (c : ℝ) :
    ∃ A B G,
      pullPath bm H N.pathA ⟨[], [c]⟩ = .ok A ∧ pullPath bm H N.pathB ⟨[], [c]⟩ = .ok B ∧
      vArith .add A B = .ok G ∧
      pullPath bm H N.pathClip G = .ok ⟨[n], List.zipWith (fun tv pv => bceGrad c n (tHat tv) pv) T P⟩ := by
  obtain ⟨A, B, G, h1, h2, h3, h4⟩ := bce_local_vjp_gen bm H N n hn (T.zip P) (by simp [hT, hP])
    (fun z => z.2) (fun z => tHat z.1) (hv.toVals hT hP) c
  refine ⟨A, B, G, h1, h2, h3, ?_⟩
  rw [h4, C12x.zipWith_as_map]

/-- **BCE gradient = derivative of the BCE formula where the prediction is strictly inside the clip band, 0 where it is
    strictly outside** (strictly: by more than the library's equality threshold `θ = 1e-240`; in between the tie rule
    of ElMax / ElMin gives half the value, `clipD_tie`). The targets enter as `t̂ = clip(t, 0, 1)`. -/
theorem bce_local_vjp_partial (bm : BMode) (H : Heap ℝ) (N : BceIds) (n : Nat) (hn : 0 < n) (T P : List ℝ)
    (hT : T.length = n) (hP : P.length = n) (hv : BceNodeVals H N n T P) (c : ℝ) :
    ∃ A B G K,
      pullPath bm H N.pathA ⟨[], [c]⟩ = .ok A ∧ pullPath bm H N.pathB ⟨[], [c]⟩ = .ok B ∧
      vArith .add A B = .ok G ∧ pullPath bm H N.pathClip G = .ok K ∧ K.dims = [n] ∧ K.data.length = n ∧
      ∀ (i : Nat) (hi : i < n) (tv pv : ℝ), T[i]? = some tv → P[i]? = some pv →
        (1 / 10 ^ 12 + 1 / 10 ^ 240 < pv → pv < 1 - 1 / 10 ^ 12 - 1 / 10 ^ 240 →
          K.data[i]? = some (c * (-1 / (n : ℝ)) * (tHat tv / pv - (1 - tHat tv) / (1 - pv)))) ∧
        (pv < 1 / 10 ^ 12 - 1 / 10 ^ 240 ∨ 1 - 1 / 10 ^ 12 + 1 / 10 ^ 240 < pv → K.data[i]? = some 0) := by
  obtain ⟨A, B, G, h1, h2, h3, h4⟩ := bce_local_vjp bm H N n hn T P hT hP hv c
  refine ⟨A, B, G, _, h1, h2, h3, h4, rfl, by simp [hT, hP], ?_⟩
  intro i hi tv pv ht hp
  have hget : (List.zipWith (fun tv pv => bceGrad c n (tHat tv) pv) T P)[i]? = some (bceGrad c n (tHat tv) pv) := by
    rw [List.getElem?_zipWith, ht, hp]
  refine ⟨fun a b => ?_, fun a => ?_⟩
  · rw [hget, bceGrad_inside c n _ pv a b]
  · rw [hget, bceGrad_outside c n _ pv a]

/-! ## CE -/

/-- broadcasting a tensor all of whose elements are `a` gives the all-`a` tensor of the target shape -/
theorem broadcast_const {α : Type} (t : Tensor α) (hwf : t.WF) (a : α) (ha : ∀ x ∈ t.data, x = a) (shape : List Nat)
    (hpos : ∀ h ∈ shape, 0 < h) (hv : validBroadcast t.dims shape = true) :
    t.broadcastRaw shape = some ⟨shape, List.replicate (prod shape) a⟩ := by
  obtain ⟨data, h1, h2, h3⟩ := broadcastRaw_spec t hwf shape hpos hv
  have hat : ∀ u v, t.at? u = some v → v = a := by
    intro u v h
    unfold Tensor.at? at h
    split at h
    · cases ho : offset t.dims u with
      | none => rw [ho] at h; simp at h
      | some o =>
        rw [ho] at h
        simp only [Option.bind_some] at h
        exact ha v (List.mem_of_getElem? h)
    · simp at h
  have : data = List.replicate (prod shape) a := by
    apply List.ext_getElem?
    intro k
    by_cases hk : k < prod shape
    · obtain ⟨e1, e2⟩ := h3 k hk
      rw [List.getElem?_replicate, if_pos hk]
      cases hv' : data[k]? with
      | none => rw [hv'] at e2; simp at e2
      | some v =>
        rw [hv'] at e1
        rw [hat _ v e1.symm]
    · rw [List.getElem?_eq_none (by omega), List.getElem?_eq_none (by simp; omega)]
  rw [h1, this]

/-- `reducerBroadcasted` of a constant rank-1 gradient `[m]` towards a `[m, n]` operand reduced along dimension 1 -/
theorem reducerBroadcasted_const (a : ℝ) (m n : Nat) (hm : 0 < m) (hn : 0 < n) :
    reducerBroadcasted (⟨[m], List.replicate m a⟩ : Tensor ℝ) [m, n] 1 = .ok ⟨[m, n], List.replicate (m * n) a⟩ := by
  have hwf : (⟨[m], List.replicate m a⟩ : Tensor ℝ).WF := ⟨by simp [prod], by simpa using hm⟩
  have hu : vUnSqueeze (⟨[m], List.replicate m a⟩ : Tensor ℝ) ((1 : Nat) : Int) = .ok ⟨[m, 1], List.replicate m a⟩ := by
    simp [vUnSqueeze, validUnSqueeze, C06.unsqueeze_data _ hwf, Out.ofOpt, unsqueezeDims]
  have hwf2 : (⟨[m, 1], List.replicate m a⟩ : Tensor ℝ).WF := ⟨by simp [prod], by simp; omega⟩
  have hpos : ∀ h ∈ [m, n], 0 < h := by simp; omega
  have hb : vBroadcastN (⟨[m, 1], List.replicate m a⟩ : Tensor ℝ) [m, n] = .ok ⟨[m, n], List.replicate (m * n) a⟩ := by
    unfold vBroadcastN vBroadcast
    rw [validInputDims_ofNat _ hpos, natDims_ofNat]
    have hv : validBroadcast [m, 1] [m, n] = true := by simp [validBroadcast, validBroadcastLE]
    rw [hv]
    simp only [Bool.and_self, if_true]
    rw [broadcast_const _ hwf2 a (by intro x hx; exact List.eq_of_mem_replicate hx) [m, n] hpos hv]
    simp [Out.ofOpt, prod]
  simp only [reducerBroadcasted, bind, Out.bind, hu, hb]

/-- the nodes of the graph `lossCompute .ce` builds that lie on the path from the loss to the prediction `p` -/
structure CeIds where
  /-- the prediction -/
  p : Nat
  /-- `lower = ε·p⁰`, `upper = (1−ε)·p⁰`, `pmin = ElMin(p, upper)`, `ph = p̂ = ElMax(lower, pmin)` -/
  lo : Nat
  up : Nat
  pmin : Nat
  ph : Nat
  /-- `lg = Log(p̂)`; `s = Mul(t̂, lg)` on the broadcast operands `tb`, `lgb` -/
  lg : Nat
  tb : Nat
  lgb : Nat
  s : Nat
  /-- `ln = Scale(SumAlong(s, 1), −1)`; loss = `MeanAlong(ln, 0)` -/
  ln : Nat

/-- loss → `ln` → `SumAlong(s,1)` → `s` → `lg` → `p̂` -/
noncomputable def CeIds.pathA (N : CeIds) : List (Rule ℝ) :=
  [.avgAlongX N.ln 0, .scaleX (-1), .sumAlongX N.s 1, .mulG N.tb, .bcastX N.lg N.lgb, .logX N.ph]
/-- `p̂` → `pmin` → `p` -/
noncomputable def CeIds.pathClip (N : CeIds) : List (Rule ℝ) := [.elext N.ph N.pmin N.lo, .elext N.pmin N.p N.up]

/-- what the forward pass stored in those nodes (`m` rows, `n` classes; positions indexed by `Z`, row-major) -/
structure CeVals {ι : Type} (H : Heap ℝ) (N : CeIds) (m n : Nat) (Z : List ι) (fP τ : ι → ℝ) : Prop where
  p : H.val N.p = ⟨[m, n], Z.map fP⟩
  lo : H.val N.lo = ⟨[m, n], Z.map (fun _ => 1 / 10 ^ 12)⟩
  up : H.val N.up = ⟨[m, n], Z.map (fun _ => 1 - 1 / 10 ^ 12)⟩
  pmin : H.val N.pmin = ⟨[m, n], Z.map (fun z => min (fP z) (1 - 1 / 10 ^ 12))⟩
  ph : H.val N.ph = ⟨[m, n], Z.map (fun z => pHat (fP z))⟩
  tb : H.val N.tb = ⟨[m, n], Z.map τ⟩
  lg : (H.val N.lg).dims = [m, n]
  lgb : (H.val N.lgb).dims = [m, n]
  s : (H.val N.s).dims = [m, n]
  ln : (H.val N.ln).dims = [m]

/-- the gradient CE's graph delivers to prediction `pv` with target `tv`, batch size `m`, upstream `c` -/
noncomputable def ceGrad (c : ℝ) (m : Nat) (τ pv : ℝ) : ℝ :=
  c * (-1 / (m : ℝ)) * (τ / pHat pv) * clipD (1 / 10 ^ 12) (1 - 1 / 10 ^ 12) pv

/-- strictly inside the band: the derivative of the CE formula (`ce_deriv`) times `c / m` -/
theorem ceGrad_inside (c : ℝ) (m : Nat) (τ pv : ℝ) (h1 : 1 / 10 ^ 12 + 1 / 10 ^ 240 < pv)
    (h2 : pv < 1 - 1 / 10 ^ 12 - 1 / 10 ^ 240) : ceGrad c m τ pv = c * (-1 / (m : ℝ)) * (τ / pv) := by
  have hθ : (0 : ℝ) < 1 / 10 ^ 240 := by positivity
  unfold ceGrad
  rw [(clipD_cases _ _ pv (by norm_num)).1 h1 h2, pHat_inside pv (by linarith) (by linarith), mul_one]

/-- strictly outside the band: 0 -/
theorem ceGrad_outside (c : ℝ) (m : Nat) (τ pv : ℝ)
    (h : pv < 1 / 10 ^ 12 - 1 / 10 ^ 240 ∨ 1 - 1 / 10 ^ 12 + 1 / 10 ^ 240 < pv) : ceGrad c m τ pv = 0 := by
  unfold ceGrad
  rcases h with h | h
  · rw [(clipD_cases _ _ pv (by norm_num)).2.1 h, mul_zero]
  · rw [(clipD_cases _ _ pv (by norm_num)).2.2 h, mul_zero]

/-- **CE, local backward pass** (positions indexed by `Z`): seeded with `c` on the scalar loss, through MeanAlong(0),
    Scale(−1), SumAlong(1) (rule `reducerBroadcasted`: UnSqueeze + Broadcast *forward* operations), Mul, Log and the
    clip, position `z` of the prediction receives `ceGrad c m (τ z) (p z)`. The mode of the Broadcast *rule* does not
    matter: the statement holds for both. -/
theorem ce_local_vjp_gen {ι : Type} (bm : BMode) (H : Heap ℝ) (N : CeIds) (m n : Nat) (hm : 0 < m) (hn : 0 < n)
    (Z : List ι) (hZmn : Z.length = m * n) (fP τ : ι → ℝ) (hv : CeVals H N m n Z fP τ) (c : ℝ) :
    ∃ G, pullPath bm H N.pathA ⟨[], [c]⟩ = .ok G ∧
      pullPath bm H N.pathClip G = .ok ⟨[m, n], Z.map (fun z => ceGrad c m (τ z) (fP z))⟩ := by
  have hZ : Z.length = prod [m, n] := by simp [prod, hZmn]
  have hd : ∀ x ∈ [m, n], 0 < x := by simp; omega
  have e0 := r_avg1 bm H (Z := List.range m) N.ln m c hm hv.ln (by simp)
  have e1 := r_scale bm H (d := [m]) (Z := List.range m) (-1) (fun _ => 1 / (m : ℝ) * c)
  have e2 : evalRule bm H ⟨[m], (List.range m).map (fun _ => -1 * (1 / (m : ℝ) * c))⟩ (.sumAlongX N.s 1)
      = .ok ⟨[m, n], Z.map (fun _ => -1 * (1 / (m : ℝ) * c))⟩ := by
    simp only [evalRule, hv.s]
    rw [List.map_const', List.length_range, reducerBroadcasted_const _ m n hm hn, List.map_const', hZmn]
  have a2 := r_mul bm H hZ hd hv.tb (fun z => -1 * (1 / (m : ℝ) * c))
  have a3 := r_log bm H hZ hd hv.ph (fun z => -1 * (1 / (m : ℝ) * c) * τ z)
  have hA : pullPath bm H N.pathA ⟨[], [c]⟩
      = .ok ⟨[m, n], Z.map (fun z => -1 * (1 / (m : ℝ) * c) * τ z * (1 / pHat (fP z)))⟩ := by
    unfold CeIds.pathA
    rw [pullPath_cons bm H e0, pullPath_cons bm H e1, pullPath_cons bm H e2, pullPath_cons bm H a2,
      pullPath_cons bm H (r_bcast bm H _ (by rw [hv.lg, hv.lgb])), pullPath_cons bm H a3, pullPath_nil]
  refine ⟨_, hA, ?_⟩
  unfold CeIds.pathClip
  rw [clip_local_vjp bm H hZ hd N.p N.lo N.up N.pmin N.ph _ _ fP _ hv.p hv.lo hv.up hv.pmin hv.ph]
  congr 2
  apply List.map_congr_left
  intro z _
  unfold ceGrad
  ring

/-- the same node values stated on the row-major data of the two inputs -/
structure CeNodeVals (H : Heap ℝ) (N : CeIds) (m n : Nat) (T P : List ℝ) : Prop where
  p : H.val N.p = ⟨[m, n], P⟩
  lo : H.val N.lo = ⟨[m, n], P.map (fun _ => 1 / 10 ^ 12)⟩
  up : H.val N.up = ⟨[m, n], P.map (fun _ => 1 - 1 / 10 ^ 12)⟩
  pmin : H.val N.pmin = ⟨[m, n], P.map (fun pv => min pv (1 - 1 / 10 ^ 12))⟩
  ph : H.val N.ph = ⟨[m, n], P.map pHat⟩
  tb : H.val N.tb = ⟨[m, n], T.map tHat⟩
  lg : (H.val N.lg).dims = [m, n]
  lgb : (H.val N.lgb).dims = [m, n]
  s : (H.val N.s).dims = [m, n]
  ln : (H.val N.ln).dims = [m]

theorem CeNodeVals.toVals {H : Heap ℝ} {N : CeIds} {m n : Nat} {T P : List ℝ} (hT : T.length = m * n)
    (hP : P.length = m * n) (h : CeNodeVals H N m n T P) :
    CeVals H N m n (T.zip P) (fun z => z.2) (fun z => tHat z.1) where
  p := by rw [h.p, List.map_snd_zip (by omega)]
  lo := by rw [h.lo, map_zip_snd (fun _ => (1 : ℝ) / 10 ^ 12) T P (by omega)]
  up := by rw [h.up, map_zip_snd (fun _ => (1 : ℝ) - 1 / 10 ^ 12) T P (by omega)]
  pmin := by rw [h.pmin, map_zip_snd (fun pv => min pv ((1 : ℝ) - 1 / 10 ^ 12)) T P (by omega)]
  ph := by rw [h.ph, map_zip_snd pHat T P (by omega)]
  tb := by rw [h.tb, map_zip_fst tHat T P (by omega)]
  lg := h.lg
  lgb := h.lgb
  s := h.s
  ln := h.ln

/-- **CE, local backward pass**: for every batch size `m ≥ 1`, class count `n ≥ 1`, all predictions `P`, all targets `T`
    (row-major) and every upstream gradient `c`: the prediction receives, at row-major position `k`,
    `ceGrad c m (tHat T_k) P_k = c · (−1/m) · t̂_k/p̂_k · clipD ε (1−ε) P_k` — for both modes of the Broadcast rule. -/
theorem ce_local_vjp (bm : BMode) (H : Heap ℝ) (N : CeIds) (m n : Nat) (hm : 0 < m) (hn : 0 < n) (T P : List ℝ)
    (hT : T.length = m * n) (hP : P.length = m * n) (hv : CeNodeVals H N m n T P) (c : ℝ) :
    ∃ G, pullPath bm H N.pathA ⟨[], [c]⟩ = .ok G ∧
      pullPath bm H N.pathClip G = .ok ⟨[m, n], List.zipWith (fun tv pv => ceGrad c m (tHat tv) pv) T P⟩ := by
  obtain ⟨G, h1, h2⟩ := ce_local_vjp_gen bm H N m n hm hn (T.zip P) (by simp [hT, hP])
    (fun z => z.2) (fun z => tHat z.1) (hv.toVals hT hP) c
  refine ⟨G, h1, ?_⟩
  rw [h2, C12x.zipWith_as_map]

/-- **CE gradient = derivative of the CE formula where the prediction is strictly inside the clip band, 0 where it is
    strictly outside**: element `(i, j)` (row `i`, class `j`) receives `c · (−1/m) · t̂ᵢⱼ / pᵢⱼ`, resp. `0`. -/
theorem ce_local_vjp_partial (bm : BMode) (H : Heap ℝ) (N : CeIds) (m n : Nat) (hm : 0 < m) (hn : 0 < n) (T P : List ℝ)
    (hT : T.length = m * n) (hP : P.length = m * n) (hv : CeNodeVals H N m n T P) (c : ℝ) :
    ∃ G K, pullPath bm H N.pathA ⟨[], [c]⟩ = .ok G ∧ pullPath bm H N.pathClip G = .ok K ∧ K.dims = [m, n] ∧
      ∀ (i j : Nat) (hi : i < m) (hj : j < n) (tv pv : ℝ),
        (⟨[m, n], T⟩ : Tensor ℝ).at? [i, j] = some tv → (⟨[m, n], P⟩ : Tensor ℝ).at? [i, j] = some pv →
        (1 / 10 ^ 12 + 1 / 10 ^ 240 < pv → pv < 1 - 1 / 10 ^ 12 - 1 / 10 ^ 240 →
          K.at? [i, j] = some (c * (-1 / (m : ℝ)) * (tHat tv / pv))) ∧
        (pv < 1 / 10 ^ 12 - 1 / 10 ^ 240 ∨ 1 - 1 / 10 ^ 12 + 1 / 10 ^ 240 < pv → K.at? [i, j] = some 0) := by
  obtain ⟨G, h1, h2⟩ := ce_local_vjp bm H N m n hm hn T P hT hP hv c
  refine ⟨G, _, h1, h2, rfl, ?_⟩
  intro i j hi hj tv pv ht hp
  rw [C12x.at?_rank2 m n _ i j hi hj] at ht hp ⊢
  have hget : (List.zipWith (fun tv pv => ceGrad c m (tHat tv) pv) T P)[i * n + j]? = some (ceGrad c m (tHat tv) pv) := by
    rw [List.getElem?_zipWith, ht, hp]
  refine ⟨fun a b => ?_, fun a => ?_⟩
  · rw [hget, ceGrad_inside c m _ pv a b]
  · rw [hget, ceGrad_outside c m _ pv a]

/-! ## The delivered values are the partial derivatives of the loss formulas -/

/-- partial derivative of a sum of per-position terms with respect to one position -/
theorem hasDerivAt_sum_update {κ : Type} [Fintype κ] [DecidableEq κ] (F : κ → ℝ → ℝ) (x : κ → ℝ) (i : κ) (F' : ℝ)
    (hF : HasDerivAt (F i) F' (x i)) :
    HasDerivAt (fun s => ∑ k, F k (Function.update x i s k)) F' (x i) := by
  have h : ∀ k ∈ (Finset.univ : Finset κ),
      HasDerivAt (fun s => F k (Function.update x i s k)) (if k = i then F' else 0) (x i) := by
    intro k _
    by_cases hk : k = i
    · subst hk
      simp only [Function.update_self, if_true]
      exact hF
    · simp only [Function.update_of_ne hk, hk, if_false]
      exact hasDerivAt_const _ _
  have := HasDerivAt.fun_sum h
  simpa using this

/-- **the BCE formula** `−(1/n) Σₖ [tₖ·log pₖ + (1−tₖ)·log(1−pₖ)]`, differentiated with respect to `pᵢ ∈ (0,1)`:
    `(−1/n)·(tᵢ/pᵢ − (1−tᵢ)/(1−pᵢ))` — the value `bce_local_vjp_partial` finds at position `i` (with `c = 1`, `t = t̂`). -/
theorem bce_formula_deriv {n : ℕ} (t x : Fin n → ℝ) (i : Fin n) (h0 : 0 < x i) (h1 : x i < 1) :
    HasDerivAt (fun s => -(1 / (n : ℝ)) * ∑ k, (t k * Real.log (Function.update x i s k)
        + (1 - t k) * Real.log (1 - Function.update x i s k)))
      (-1 / (n : ℝ) * (t i / x i - (1 - t i) / (1 - x i))) (x i) := by
  have hd := bce_deriv (t i) (x i) h0 h1
  have hs := hasDerivAt_sum_update (fun k y => -(t k * Real.log y + (1 - t k) * Real.log (1 - y))) x i _ hd
  have := hs.const_mul (1 / (n : ℝ))
  refine (this.congr_deriv (by ring)).congr_of_eventuallyEq ?_
  filter_upwards with s
  simp only [Finset.sum_neg_distrib]
  ring

/-- **the CE formula** `−(1/m) Σᵢ Σⱼ tᵢⱼ·log pᵢⱼ`, differentiated with respect to `pᵢⱼ ≠ 0`: `(−1/m)·tᵢⱼ/pᵢⱼ` — the value
    `ce_local_vjp_partial` finds at element `(i, j)` (with `c = 1`, `t = t̂`). -/
theorem ce_formula_deriv {m n : ℕ} (t x : Fin m × Fin n → ℝ) (ij : Fin m × Fin n) (h0 : x ij ≠ 0) :
    HasDerivAt (fun s => -(1 / (m : ℝ)) * ∑ i, ∑ j, t (i, j) * Real.log (Function.update x ij s (i, j)))
      (-1 / (m : ℝ) * (t ij / x ij)) (x ij) := by
  have hd := ce_deriv (t ij) (x ij) h0
  have hs := hasDerivAt_sum_update (fun k y => -(t k * Real.log y)) x ij _ hd
  have := hs.const_mul (1 / (m : ℝ))
  refine (this.congr_deriv (by ring)).congr_of_eventuallyEq ?_
  filter_upwards with s
  rw [← Finset.sum_product']
  simp only [Finset.sum_neg_distrib, Finset.univ_product_univ]
  ring

/-! ## The graph the losses build: node values, tracking, back edges -/

/-- status of node `k` in heap `H`: holds `v`, is not spent, is tracked iff `tr`, and if tracked has back edges `es` -/
structure St (H : Heap ℝ) (k : Nat) (v : Tensor ℝ) (tr : Bool) (es : List (Edge ℝ)) : Prop where
  lt : k < H.size
  val : H.val k = v
  clean : H.dirty k = false
  tracked : H.tracked k = tr
  edges : tr = true → (H.ctx k).edges = es

theorem St.mono {H H' : Heap ℝ} {k : Nat} {v : Tensor ℝ} {tr : Bool} {es : List (Edge ℝ)} (h : St H k v tr es)
    (e : Extends H H') : St H' k v tr es where
  lt := Nat.lt_of_lt_of_le h.lt e.1
  val := by rw [e.val h.lt]; exact h.val
  clean := by unfold Heap.dirty; rw [e.ctx h.lt]; exact h.clean
  tracked := by unfold Heap.tracked; rw [e.ctx h.lt]; exact h.tracked
  edges := by rw [e.ctx h.lt]; exact h.edges

theorem all_not_tracked (H : Heap ℝ) (ops : List Nat) :
    ops.all (fun n => !H.tracked n) = !(ops.any H.tracked) := by
  induction ops with
  | nil => rfl
  | cons x xs ih => simp only [List.all_cons, List.any_cons, ih, Bool.not_or]

theorem mkCtx_st (H : Heap ℝ) (ops : List Nat) (es : List (Edge ℝ)) (hc : ∀ n ∈ ops, H.dirty n = false) :
    (mkCtx H ops es).dirty = false ∧ (mkCtx H ops es).tracked = ops.any H.tracked ∧
    (ops.any H.tracked = true → (mkCtx H ops es).edges = es) := by
  have h1 : ops.any H.dirty = false := by
    rw [List.any_eq_false]
    intro n hn; rw [hc n hn]; simp
  unfold mkCtx
  rw [h1, all_not_tracked]
  cases h2 : ops.any H.tracked <;> simp [freshCtx]

/-- allocating a node with the three-way context of `gradients.go` over unspent operands -/
theorem st_push (H : Heap ℝ) (v : Tensor ℝ) (ops : List Nat) (es : List (Edge ℝ)) (hc : ∀ n ∈ ops, H.dirty n = false) :
    St (H.push ⟨v, mkCtx H ops es⟩) H.size v (ops.any H.tracked) es := by
  obtain ⟨c1, c2, c3⟩ := mkCtx_st H ops es hc
  have hctx : Heap.ctx (H.push ⟨v, mkCtx H ops es⟩) H.size = mkCtx H ops es := by simp [Heap.ctx]
  refine ⟨by simp, push_val_new H _, ?_, ?_, ?_⟩
  · unfold Heap.dirty; rw [hctx]; exact c1
  · unfold Heap.tracked; rw [hctx]; exact c2
  · rw [hctx]; exact c3

section GraphOps
variable {H : Heap ℝ} {x : Nat} {vx : Tensor ℝ} {trx : Bool} {esx : List (Edge ℝ)}

theorem g_scale (hx : St H x vx trx esx) (a : ℝ) :
    ∃ H', hScale x a H = .ok (H.size, H') ∧ Extends H H' ∧ H'.size = H.size + 1 ∧
      St H' H.size (vScale vx a) trx [⟨x, .scaleX a⟩] := by
  refine ⟨H.push ⟨vScale (H.val x) a, mkCtx H [x] [⟨x, .scaleX a⟩]⟩,
    by simp [hScale, hOp1, hm_bind, getHeap, liftOut, alloc, Out.bind], extends_push _ _, by simp, ?_⟩
  have := st_push H (vScale (H.val x) a) [x] [⟨x, .scaleX a⟩] (by simpa using hx.clean)
  simpa [hx.val, hx.tracked] using this

theorem g_pow (hx : St H x vx trx esx) (a : ℝ) :
    ∃ H', hPow x a H = .ok (H.size, H') ∧ Extends H H' ∧ H'.size = H.size + 1 ∧
      St H' H.size (vPow vx a) trx [⟨x, .powX x a⟩] := by
  refine ⟨H.push ⟨vPow (H.val x) a, mkCtx H [x] [⟨x, .powX x a⟩]⟩,
    by simp [hPow, hOp1, hm_bind, getHeap, liftOut, alloc, Out.bind], extends_push _ _, by simp, ?_⟩
  have := st_push H (vPow (H.val x) a) [x] [⟨x, .powX x a⟩] (by simpa using hx.clean)
  simpa [hx.val, hx.tracked] using this

theorem g_log (hx : St H x vx trx esx) :
    ∃ H', hUnary .log x H = .ok (H.size, H') ∧ Extends H H' ∧ H'.size = H.size + 1 ∧
      St H' H.size (vUnary .log vx) trx [⟨x, .logX x⟩] := by
  refine ⟨H.push ⟨vUnary .log (H.val x), mkCtx H [x] [⟨x, .logX x⟩]⟩,
    by simp [hUnary, hOp1, hm_bind, getHeap, liftOut, alloc, Out.bind, unaryRule], extends_push _ _, by simp, ?_⟩
  have := st_push H (vUnary .log (H.val x)) [x] [⟨x, .logX x⟩] (by simpa using hx.clean)
  simpa [hx.val, hx.tracked] using this

theorem g_along (hx : St H x vx trx esx) (rd : Reducer) (d : Int) (v : Tensor ℝ) (h : vAlong rd vx d = .ok v) :
    ∃ H', hAlong rd x d H = .ok (H.size, H') ∧ Extends H H' ∧ H'.size = H.size + 1 ∧
      St H' H.size v trx [⟨x, alongRule rd x H.size d.toNat⟩] := by
  refine ⟨H.push ⟨v, mkCtx H [x] [⟨x, alongRule rd x H.size d.toNat⟩]⟩, ?_, extends_push _ _, by simp, ?_⟩
  · unfold hAlong
    rw [bind_run (show (getHeap : HM ℝ (Heap ℝ)) H = .ok (H, H) from rfl), hx.val, h]
    simp [hOp1, hm_bind, getHeap, liftOut, alloc, Out.bind]
  · have := st_push H v [x] [⟨x, alongRule rd x H.size d.toNat⟩] (by simpa using hx.clean)
    simpa [hx.tracked] using this

theorem g_bcast (hx : St H x vx trx esx) (s : List Int) (v : Tensor ℝ) (h : vBroadcast vx s = .ok v) :
    ∃ H', hBroadcast x s H = .ok (H.size, H') ∧ Extends H H' ∧ H'.size = H.size + 1 ∧
      St H' H.size v trx [⟨x, .bcastX x H.size⟩] := by
  refine ⟨H.push ⟨v, mkCtx H [x] [⟨x, .bcastX x H.size⟩]⟩, ?_, extends_push _ _, by simp, ?_⟩
  · unfold hBroadcast
    rw [bind_run (show (getHeap : HM ℝ (Heap ℝ)) H = .ok (H, H) from rfl), hx.val, h]
    simp [hOp1, hm_bind, getHeap, liftOut, alloc, Out.bind]
  · have := st_push H v [x] [⟨x, .bcastX x H.size⟩] (by simpa using hx.clean)
    simpa [hx.tracked] using this

/-- ElMax / ElMin: two tie-aware back edges -/
theorem g_ext {a b : Nat} {va vb : Tensor ℝ} {tra trb : Bool} {esa esb : List (Edge ℝ)} (c : Cmp)
    (hc : c = .elmax ∨ c = .elmin) (ha : St H a va tra esa) (hb : St H b vb trb esb) (v : Tensor ℝ)
    (h : vCmp c va vb = .ok v) :
    ∃ H', hCmp c a b H = .ok (H.size, H') ∧ Extends H H' ∧ H'.size = H.size + 1 ∧
      St H' H.size v (tra || trb) [⟨a, .elext H.size a b⟩, ⟨b, .elext H.size b a⟩] := by
  refine ⟨H.push ⟨v, mkCtx H [a, b] [⟨a, .elext H.size a b⟩, ⟨b, .elext H.size b a⟩]⟩, ?_, extends_push _ _,
    by simp, ?_⟩
  · rcases hc with rfl | rfl <;>
      simp [hCmp, hm_bind, getHeap, liftOut, alloc, Out.bind, ha.val, hb.val, h]
  · have := st_push H v [a, b] [⟨a, .elext H.size a b⟩, ⟨b, .elext H.size b a⟩]
      (by intro n hn; simp at hn; rcases hn with rfl | rfl; exact ha.clean; exact hb.clean)
    simpa [ha.tracked, hb.tracked] using this

/-- the back edges of an arithmetic result towards its two (broadcast) operands -/
def arithEdges (o : Arith) (a' b' : Nat) : List (Edge ℝ) :=
  match o with
  | .add => [⟨a', .idG⟩, ⟨b', .idG⟩]
  | .sub => [⟨a', .idG⟩, ⟨b', .negG⟩]
  | .mul => [⟨a', .mulG b'⟩, ⟨b', .mulG a'⟩]
  | .div => [⟨a', .divA b'⟩, ⟨b', .divB a' b'⟩]

/-- Add / Sub / Mul / Div on operands of one shape: three nodes — `Broadcast(a)`, `Broadcast(b)` (identity copies,
    each with one Broadcast back edge) and the result -/
theorem g_arith {ι : Type} {d : List Nat} {Z : List ι} (hZ : Z.length = prod d) (hd : ∀ x ∈ d, 0 < x) (o : Arith)
    {a b : Nat} {f g : ι → ℝ} {tra trb : Bool} {esa esb : List (Edge ℝ)}
    (ha : St H a ⟨d, Z.map f⟩ tra esa) (hb : St H b ⟨d, Z.map g⟩ trb esb) :
    ∃ H', hArith o a b H = .ok (H.size + 2, H') ∧ Extends H H' ∧ H'.size = H.size + 3 ∧
      St H' H.size ⟨d, Z.map f⟩ tra [⟨a, .bcastX a H.size⟩] ∧
      St H' (H.size + 1) ⟨d, Z.map g⟩ trb [⟨b, .bcastX b (H.size + 1)⟩] ∧
      St H' (H.size + 2) ⟨d, Z.map (fun z => o.fn (f z) (g z))⟩ (tra || trb) (arithEdges o H.size (H.size + 1)) := by
  have wa : (⟨d, Z.map f⟩ : Tensor ℝ).WF := wf_map hZ hd f
  have wb : (⟨d, Z.map g⟩ : Tensor ℝ).WF := wf_map hZ hd g
  have hshape : targetBroadcastDims (H.val a).dims (H.val b).dims = d := by
    rw [ha.val, hb.val]; exact targetBroadcastDims_self d
  have hba : vBroadcast (⟨d, Z.map f⟩ : Tensor ℝ) (d.map Int.ofNat) = .ok ⟨d, Z.map f⟩ := vBroadcastN_self _ wa
  have hbb : vBroadcast (⟨d, Z.map g⟩ : Tensor ℝ) (d.map Int.ofNat) = .ok ⟨d, Z.map g⟩ := vBroadcastN_self _ wb
  obtain ⟨Ha, ra, ea, sa, sta⟩ := g_bcast ha (d.map Int.ofNat) _ hba
  obtain ⟨Hb, rb, eb, sb, stb⟩ := g_bcast (hb.mono ea) (d.map Int.ofNat) _ hbb
  have sta' := sta.mono eb
  rw [sa] at rb stb
  let v : Tensor ℝ := ⟨d, Z.map (fun z => o.fn (f z) (g z))⟩
  have hz : Tensor.zipRaw o.fn (⟨d, Z.map f⟩ : Tensor ℝ) ⟨d, Z.map g⟩ = some v := by
    simp [Tensor.zipRaw, v, C14.zipWith_maps]
  have hclean : ∀ n ∈ [H.size, H.size + 1], Hb.dirty n = false := by
    intro n hn; simp at hn; rcases hn with rfl | rfl
    · exact sta'.clean
    · exact stb.clean
  have hsb : Hb.size = H.size + 2 := by rw [sb, sa]
  refine ⟨Hb.push ⟨v, mkCtx Hb [H.size, H.size + 1] (arithEdges o H.size (H.size + 1))⟩, ?_,
    (ea.trans eb).trans (extends_push _ _), by simp [hsb], sta'.mono (extends_push _ _), stb.mono (extends_push _ _), ?_⟩
  · unfold hArith hBroadcastPair
    rw [hm_bind, hm_bind]
    rw [show (getHeap : HM ℝ (Heap ℝ)) H = .ok (H, H) from rfl]
    simp only [Out.bind]
    rw [hshape, hm_bind, ra]
    simp only [Out.bind]
    rw [hm_bind, rb]
    simp only [Out.bind, pure, StateT.pure]
    rw [hm_bind]
    rw [show (getHeap : HM ℝ (Heap ℝ)) Hb = .ok (Hb, Hb) from rfl]
    simp only [Out.bind]
    rw [hm_bind, sta'.val, stb.val, hz]
    simp only [Out.ofOpt, liftOut, Out.bind, alloc, hsb]
    cases o <;> rfl
  · have := st_push Hb v [H.size, H.size + 1] (arithEdges o H.size (H.size + 1)) hclean
    rw [hsb] at this
    simpa [sta'.tracked, stb.tracked] using this

/-- **the graph `clip(x, l, u)` builds**: five nodes `x⁰`, `lower = l·x⁰`, `upper = u·x⁰`, `xmin = ElMin(x, upper)`,
    `ElMax(lower, xmin)`, with their values over `ℝ` and their back edges -/
theorem g_clip {ι : Type} {d : List Nat} {Z : List ι} (hZ : Z.length = prod d) (hd : ∀ x ∈ d, 0 < x) {f : ι → ℝ}
    (hx : St H x ⟨d, Z.map f⟩ trx esx) (l u : ℝ) :
    ∃ H', clip x l u H = .ok (H.size + 4, H') ∧ Extends H H' ∧ H'.size = H.size + 5 ∧
      St H' H.size ⟨d, Z.map (fun _ => 1)⟩ trx [⟨x, .powX x 0⟩] ∧
      St H' (H.size + 1) ⟨d, Z.map (fun _ => l)⟩ trx [⟨H.size, .scaleX l⟩] ∧
      St H' (H.size + 2) ⟨d, Z.map (fun _ => u)⟩ trx [⟨H.size, .scaleX u⟩] ∧
      St H' (H.size + 3) ⟨d, Z.map (fun z => min (f z) u)⟩ trx
        [⟨x, .elext (H.size + 3) x (H.size + 2)⟩, ⟨H.size + 2, .elext (H.size + 3) (H.size + 2) x⟩] ∧
      St H' (H.size + 4) ⟨d, Z.map (fun z => max l (min (f z) u))⟩ trx
        [⟨H.size + 1, .elext (H.size + 4) (H.size + 1) (H.size + 3)⟩,
         ⟨H.size + 3, .elext (H.size + 4) (H.size + 3) (H.size + 1)⟩] := by
  obtain ⟨H1, r1, e1, s1, st1⟩ := g_pow hx (Scalar.zero : ℝ)
  have v1 : vPow (⟨d, Z.map f⟩ : Tensor ℝ) Scalar.zero = ⟨d, Z.map (fun _ => 1)⟩ := by
    simp only [vPow, Tensor.map, List.map_map, Function.comp_def, pow_eq, zero_eq, Real.rpow_zero]
  rw [v1] at st1
  obtain ⟨H2, r2, e2, s2, st2⟩ := g_scale st1 l
  have v2 : ∀ a : ℝ, vScale (⟨d, Z.map (fun _ => (1 : ℝ))⟩ : Tensor ℝ) a = ⟨d, Z.map (fun _ => a)⟩ := by
    intro a
    simp only [vScale, Tensor.map, List.map_map, Function.comp_def, mul_eq, mul_one]
  rw [v2] at st2
  obtain ⟨H3, r3, e3, s3, st3⟩ := g_scale (st1.mono e2) u
  rw [v2] at st3
  obtain ⟨H4, r4, e4, s4, st4⟩ := g_ext .elmin (Or.inr rfl) ((hx.mono (e1.trans e2)).mono e3) st3 _
    (vCmp_same .elmin _ _ (wf_map hZ hd f) (wf_map hZ hd _) rfl)
  simp only [C14.zipWith_maps, Cmp.fn, min_eq, Bool.or_self] at st4
  obtain ⟨H5, r5, e5, s5, st5⟩ := g_ext .elmax (Or.inl rfl) ((st2.mono e3).mono e4) st4 _
    (vCmp_same .elmax _ _ (wf_map hZ hd _) (wf_map hZ hd _) rfl)
  simp only [C14.zipWith_maps, Cmp.fn, max_eq, Bool.or_self] at st5
  have hs1 : H1.size = H.size + 1 := s1
  have hs2 : H2.size = H.size + 2 := by rw [s2, hs1]
  have hs3 : H3.size = H.size + 3 := by rw [s3, hs2]
  have hs4 : H4.size = H.size + 4 := by rw [s4, hs3]
  have hs5 : H5.size = H.size + 5 := by rw [s5, hs4]
  have z0 : (Scalar.zero : ℝ) = 0 := zero_eq
  refine ⟨H5, ?_, (((e1.trans e2).trans e3).trans e4).trans e5, hs5, ?_, ?_, ?_, ?_, ?_⟩
  · unfold clip
    rw [bind_run r1, bind_run r2, bind_run r3, bind_run r4, r5, hs4]
  · have := st1.mono (((e2.trans e3).trans e4).trans e5)
    rwa [z0] at this
  · have := st2.mono ((e3.trans e4).trans e5)
    rwa [hs1] at this
  · have := st3.mono (e4.trans e5)
    rwa [hs2] at this
  · have := st4.mono e5
    rwa [hs3, hs2] at this
  · rwa [hs4, hs3, hs1] at st5

end GraphOps

/-- `rs` are the rules on consecutive back edges leading from node `a` to node `c`, every node on the way tracked
    (so that back-propagation follows each of these edges, `C01.backprop_adjoint`) -/
inductive BackPath (H : Heap ℝ) : Nat → List (Rule ℝ) → Nat → Prop
  | nil (a : Nat) : BackPath H a [] a
  | cons {a b c : Nat} {r : Rule ℝ} {rs : List (Rule ℝ)} :
      (⟨b, r⟩ : Edge ℝ) ∈ (H.ctx a).edges → H.tracked b = true → BackPath H b rs c → BackPath H a (r :: rs) c

theorem BackPath.step {H : Heap ℝ} {a b c : Nat} {v vb : Tensor ℝ} {es esb : List (Edge ℝ)} {r : Rule ℝ}
    {rs : List (Rule ℝ)} (ha : St H a v true es) (hm : (⟨b, r⟩ : Edge ℝ) ∈ es) (hb : St H b vb true esb)
    (rest : BackPath H b rs c) : BackPath H a (r :: rs) c :=
  .cons (by rw [ha.edges rfl]; exact hm) hb.tracked rest

theorem vPow_zero_map {ι : Type} (d : List Nat) (Z : List ι) (f : ι → ℝ) :
    vPow (⟨d, Z.map f⟩ : Tensor ℝ) Scalar.zero = ⟨d, Z.map (fun _ => 1)⟩ := by
  simp only [vPow, Tensor.map, List.map_map, Function.comp_def, pow_eq, zero_eq, Real.rpow_zero]

theorem vLog_map {ι : Type} (d : List Nat) (Z : List ι) (f : ι → ℝ) :
    vUnary .log (⟨d, Z.map f⟩ : Tensor ℝ) = ⟨d, Z.map (fun z => Real.log (f z))⟩ := by
  simp only [vUnary, Tensor.map, List.map_map, Function.comp_def, Unary.fn, log_eq]

/-- **the graph `lossCompute .bce` builds** on a tracked, unspent prediction `p` and an unspent target `t` (rank 1,
    length `n`): the run succeeds, the nodes `N` between the loss and `p` hold the values `bce_local_vjp` assumes,
    and the back edges carry exactly the rules of the three paths — loss → `p̂` through `log p̂`, loss → `p̂` through
    `log(1 − p̂)`, and `p̂` → `p` through the clip. -/
theorem bce_graph (H : Heap ℝ) (p t n : Nat) (hp : p < H.size) (ht : t < H.size)
    (wp : (H.val p).WF) (wt : (H.val t).WF) (dp : (H.val p).dims = [n]) (dt : (H.val t).dims = [n])
    (hpt : H.tracked p = true) (hpc : H.dirty p = false) (htc : H.dirty t = false) :
    ∃ r H' N, lossCompute Loss.bce (some p) (some t) H = .ok (r, H') ∧ Extends H H' ∧ N.p = p ∧
      BceNodeVals H' N n (H.val t).data (H.val p).data ∧
      BackPath H' r N.pathA N.ph ∧ BackPath H' r N.pathB N.ph ∧ BackPath H' N.ph N.pathClip p := by
  have hn : 0 < n := wp.2 n (by rw [dp]; simp)
  have lp : (H.val p).data.length = n := by rw [wp.1, dp]; simp [prod]
  have lt' : (H.val t).data.length = n := by rw [wt.1, dt]; simp [prod]
  have hZ : ((H.val t).data.zip (H.val p).data).length = prod [n] := by simp [prod, lp, lt']
  have hd : ∀ y ∈ [n], 0 < y := by simpa using hn
  have t0 : St H t ⟨[n], ((H.val t).data.zip (H.val p).data).map (fun z => z.1)⟩ (H.tracked t) (H.ctx t).edges :=
    ⟨ht, by rw [List.map_fst_zip (by omega), ← dt], htc, rfl, fun _ => rfl⟩
  have p0 : St H p ⟨[n], ((H.val t).data.zip (H.val p).data).map (fun z => z.2)⟩ true (H.ctx p).edges :=
    ⟨hp, by rw [List.map_snd_zip (by omega), ← dp], hpc, hpt, fun _ => rfl⟩
  -- 1. clip the targets
  obtain ⟨H1, r1, e1, _, _, _, _, _, yt1⟩ := g_clip hZ hd t0 (Scalar.zero : ℝ) Scalar.one
  have hth : (fun z : ℝ × ℝ => max (Scalar.zero : ℝ) (min z.1 Scalar.one)) = fun z => tHat z.1 := by
    funext z; simp only [tHat, clipR, zero_eq, one_eq]
  rw [hth] at yt1
  -- 2. clip the predictions
  obtain ⟨H2, r2, e2, _, _, lo2, up2, pmin2, ph2⟩ := g_clip hZ hd (p0.mono e1) (Scalar.eps : ℝ) Scalar.oneMinusEps
  have hph : (fun z : ℝ × ℝ => max (Scalar.eps : ℝ) (min z.2 Scalar.oneMinusEps)) = fun z => pHat z.2 := by
    funext z; simp only [pHat, clipR, C12x.eps_val, C12x.oneMinusEps_val]
  rw [hph] at ph2
  rw [C12x.eps_val] at lo2
  rw [C12x.oneMinusEps_val] at up2 pmin2
  -- 3. lg = log p̂
  obtain ⟨H3, r3, e3, _, lg3⟩ := g_log ph2
  rw [vLog_map] at lg3
  -- 4. s1 = t̂ · lg
  obtain ⟨H4, r4, e4, _, tb4, lgb4, s1_4⟩ := g_arith hZ hd .mul (yt1.mono (e2.trans e3)) lg3
  rw [Bool.or_true] at s1_4
  -- 5. o = p̂⁰
  obtain ⟨H5, r5, e5, _, o5⟩ := g_pow (ph2.mono (e3.trans e4)) (Scalar.zero : ℝ)
  rw [vPow_zero_map] at o5
  -- 6. t2 = o − t̂
  obtain ⟨H6, r6, e6, _, _, _, t2_6⟩ := g_arith hZ hd .sub o5 (yt1.mono (((e2.trans e3).trans e4).trans e5))
  rw [Bool.true_or] at t2_6
  -- 7. y2 = o − p̂
  obtain ⟨H7, r7, e7, _, _, phb7, y2_7⟩ := g_arith hZ hd .sub (o5.mono e6)
    (ph2.mono (((e3.trans e4).trans e5).trans e6))
  rw [Bool.true_or] at y2_7
  -- 8. lg2 = log y2
  obtain ⟨H8, r8, e8, _, lg2_8⟩ := g_log y2_7
  rw [vLog_map] at lg2_8
  -- 9. s2 = t2 · lg2
  obtain ⟨H9, r9, e9, _, t2b9, lg2b9, s2_9⟩ := g_arith hZ hd .mul (t2_6.mono (e7.trans e8)) lg2_8
  rw [Bool.or_true] at s2_9
  -- 10. l = s1 + s2
  obtain ⟨H10, r10, e10, _, s1b10, s2b10, l10⟩ := g_arith hZ hd .add
    (s1_4.mono ((((e5.trans e6).trans e7).trans e8).trans e9)) s2_9
  rw [Bool.or_true] at l10
  -- 11. ln = −l
  obtain ⟨H11, r11, e11, _, ln11⟩ := g_scale l10 (Scalar.neg Scalar.one : ℝ)
  have wl : (vScale (⟨[n], ((H.val t).data.zip (H.val p).data).map (fun z => Arith.add.fn
      (Arith.mul.fn (tHat z.1) (Real.log (pHat z.2)))
      (Arith.mul.fn (Arith.sub.fn 1 (tHat z.1)) (Real.log (Arith.sub.fn 1 (pHat z.2)))))⟩ : Tensor ℝ)
      (Scalar.neg Scalar.one)).WF := map_wf _ _ (wf_map hZ hd _)
  -- 12. loss = mean(ln)
  obtain ⟨H12, r12, e12, _, r_12⟩ := g_along ln11 .mean 0 _ (C12.vAlong_rank1 .mean _ n rfl wl)
  have hneg : (Scalar.neg Scalar.one : ℝ) = -1 := by simp only [neg_eq, one_eq]
  rw [hneg] at ln11
  have hrule : alongRule (α := ℝ) .mean H10.size H11.size (0 : Int).toNat = .avgAlongX H10.size 0 := rfl
  rw [hrule] at r_12
  -- cumulative extensions to the final heap
  have f11 : Extends H11 H12 := e12
  have f10 : Extends H10 H12 := e11.trans f11
  have f9 : Extends H9 H12 := e10.trans f10
  have f8 : Extends H8 H12 := e9.trans f9
  have f7 : Extends H7 H12 := e8.trans f8
  have f6 : Extends H6 H12 := e7.trans f7
  have f5 : Extends H5 H12 := e6.trans f6
  have f4 : Extends H4 H12 := e5.trans f5
  have f3 : Extends H3 H12 := e4.trans f4
  have f2 : Extends H2 H12 := e3.trans f3
  have f1 : Extends H1 H12 := e2.trans f2
  have f0 : Extends H H12 := e1.trans f1
  have Pp := p0.mono f0
  have Plo := lo2.mono f2
  have Pup := up2.mono f2
  have Ppmin := pmin2.mono f2
  have Pph := ph2.mono f2
  have Plg := lg3.mono f3
  have Ptb := tb4.mono f4
  have Plgb := lgb4.mono f4
  have Ps1 := s1_4.mono f4
  have Pphb := phb7.mono f7
  have Py2 := y2_7.mono f7
  have Plg2 := lg2_8.mono f8
  have Pt2b := t2b9.mono f9
  have Plg2b := lg2b9.mono f9
  have Ps2 := s2_9.mono f9
  have Ps1b := s1b10.mono f10
  have Ps2b := s2b10.mono f10
  have Pl := l10.mono f10
  have Pln := ln11.mono f11
  let N : BceIds := {
    p := p, lo := H1.size + 1, up := H1.size + 2, pmin := H1.size + 3, ph := H1.size + 4,
    lg := H2.size, tb := H3.size, lgb := H3.size + 1, s1 := H3.size + 2, phb := H6.size + 1, y2 := H6.size + 2,
    lg2 := H7.size, t2b := H8.size, lg2b := H8.size + 1, s2 := H8.size + 2, s1b := H9.size, s2b := H9.size + 1,
    ln := H10.size }
  have hT := lt'
  have hP := lp
  refine ⟨H11.size, H12, N, ?_, f0, rfl, ?_, ?_, ?_, ?_⟩
  · unfold lossCompute
    rw [bind_run (show (getHeap : HM ℝ (Heap ℝ)) H = .ok (H, H) from rfl)]
    have hv : lossValid H Loss.bce (some p) (some t) = .ok (p, t) := by
      simp [lossValid, dp, dt]
    rw [bind_run (show (liftOut (lossValid H Loss.bce (some p) (some t)) : HM ℝ (Nat × Nat)) H = .ok ((p, t), H) by rw [hv]; rfl)]
    simp only []
    rw [bind_run r1, bind_run r2, bind_run r3, bind_run r4, bind_run r5, bind_run r6,
      bind_run r7, bind_run r8, bind_run r9, bind_run r10, bind_run r11]
    exact r12
  · exact {
      p := by rw [Pp.val, List.map_snd_zip (by omega)]
      lo := by rw [Plo.val, map_zip_snd (fun _ => (1 : ℝ) / 10 ^ 12) _ _ (by omega)]
      up := by rw [Pup.val, map_zip_snd (fun _ => (1 : ℝ) - 1 / 10 ^ 12) _ _ (by omega)]
      pmin := by rw [Ppmin.val, map_zip_snd (fun pv => min pv ((1 : ℝ) - 1 / 10 ^ 12)) _ _ (by omega)]
      ph := by rw [Pph.val, map_zip_snd pHat _ _ (by omega)]
      tb := by rw [Ptb.val, map_zip_fst tHat _ _ (by omega)]
      t2b := by
        rw [Pt2b.val, ← map_zip_fst (fun tv => 1 - tHat tv) _ (H.val p).data (by omega)]
        simp only [Arith.fn, sub_eq]
      y2 := by
        rw [Py2.val, ← map_zip_snd (fun pv => 1 - pHat pv) (H.val t).data _ (by omega)]
        simp only [Arith.fn, sub_eq]
      lg := by rw [Plg.val]
      lgb := by rw [Plgb.val]
      s1 := by rw [Ps1.val]
      s1b := by rw [Ps1b.val]
      phb := by rw [Pphb.val]
      lg2 := by rw [Plg2.val]
      lg2b := by rw [Plg2b.val]
      s2 := by rw [Ps2.val]
      s2b := by rw [Ps2b.val]
      ln := by rw [Pln.val]; rfl }
  · exact .step r_12 (by simp [N]) Pln (.step Pln (by simp [N]) Pl (.step Pl (by simp [arithEdges, N]) Ps1b
      (.step Ps1b (by simp [N]) Ps1 (.step Ps1 (by simp [arithEdges, N]) Plgb (.step Plgb (by simp [N]) Plg
      (.step Plg (by simp [N]) Pph (.nil _)))))))
  · exact .step r_12 (by simp [N]) Pln (.step Pln (by simp [N]) Pl (.step Pl (by simp [arithEdges, N]) Ps2b
      (.step Ps2b (by simp [N]) Ps2 (.step Ps2 (by simp [arithEdges, N]) Plg2b (.step Plg2b (by simp [N]) Plg2
      (.step Plg2 (by simp [N]) Py2 (.step Py2 (by simp [arithEdges, N]) Pphb (.step Pphb (by simp [N]) Pph (.nil _)))))))))
  · exact .step Pph (by simp [N]) Ppmin (.step Ppmin (by simp [N]) Pp (.nil _))

/-- **the graph `lossCompute .ce` builds** on a tracked, unspent prediction `p` and an unspent target `t` (rank 2,
    `m` rows, `n` classes): the run succeeds, the nodes `N` between the loss and `p` hold the values `ce_local_vjp`
    assumes, and the back edges carry exactly the rules of the path loss → `p̂` and of the clip path `p̂` → `p`. -/
theorem ce_graph (H : Heap ℝ) (p t m n : Nat) (hp : p < H.size) (ht : t < H.size)
    (wp : (H.val p).WF) (wt : (H.val t).WF) (dp : (H.val p).dims = [m, n]) (dt : (H.val t).dims = [m, n])
    (hpt : H.tracked p = true) (hpc : H.dirty p = false) (htc : H.dirty t = false) :
    ∃ r H' N, lossCompute Loss.ce (some p) (some t) H = .ok (r, H') ∧ Extends H H' ∧ N.p = p ∧
      CeNodeVals H' N m n (H.val t).data (H.val p).data ∧
      BackPath H' r N.pathA N.ph ∧ BackPath H' N.ph N.pathClip p := by
  have hm : 0 < m := wp.2 m (by rw [dp]; simp)
  have hn : 0 < n := wp.2 n (by rw [dp]; simp)
  have lp : (H.val p).data.length = m * n := by rw [wp.1, dp]; simp [prod]
  have lt' : (H.val t).data.length = m * n := by rw [wt.1, dt]; simp [prod]
  have hZ : ((H.val t).data.zip (H.val p).data).length = prod [m, n] := by simp [prod, lp, lt']
  have hd : ∀ y ∈ [m, n], 0 < y := by simp; omega
  have t0 : St H t ⟨[m, n], ((H.val t).data.zip (H.val p).data).map (fun z => z.1)⟩ (H.tracked t) (H.ctx t).edges :=
    ⟨ht, by rw [List.map_fst_zip (by omega), ← dt], htc, rfl, fun _ => rfl⟩
  have p0 : St H p ⟨[m, n], ((H.val t).data.zip (H.val p).data).map (fun z => z.2)⟩ true (H.ctx p).edges :=
    ⟨hp, by rw [List.map_snd_zip (by omega), ← dp], hpc, hpt, fun _ => rfl⟩
  obtain ⟨H1, r1, e1, _, _, _, _, _, yt1⟩ := g_clip hZ hd t0 (Scalar.zero : ℝ) Scalar.one
  have hth : (fun z : ℝ × ℝ => max (Scalar.zero : ℝ) (min z.1 Scalar.one)) = fun z => tHat z.1 := by
    funext z; simp only [tHat, clipR, zero_eq, one_eq]
  rw [hth] at yt1
  obtain ⟨H2, r2, e2, _, _, lo2, up2, pmin2, ph2⟩ := g_clip hZ hd (p0.mono e1) (Scalar.eps : ℝ) Scalar.oneMinusEps
  have hph : (fun z : ℝ × ℝ => max (Scalar.eps : ℝ) (min z.2 Scalar.oneMinusEps)) = fun z => pHat z.2 := by
    funext z; simp only [pHat, clipR, C12x.eps_val, C12x.oneMinusEps_val]
  rw [hph] at ph2
  rw [C12x.eps_val] at lo2
  rw [C12x.oneMinusEps_val] at up2 pmin2
  obtain ⟨H3, r3, e3, _, lg3⟩ := g_log ph2
  rw [vLog_map] at lg3
  obtain ⟨H4, r4, e4, _, tb4, lgb4, s4⟩ := g_arith hZ hd .mul (yt1.mono (e2.trans e3)) lg3
  rw [Bool.or_true] at s4
  -- SumAlong(1)
  obtain ⟨H5, r5, e5, _, l5⟩ := g_along s4 .sum 1 _
    (C12x.vAlong_rank2_dim1 .sum _ m n rfl (wf_map hZ hd _))
  -- Scale(−1)
  obtain ⟨H6, r6, e6, _, ln6⟩ := g_scale l5 (Scalar.neg Scalar.one : ℝ)
  have hZ' : (List.range m).length = prod [m] := by simp [prod]
  have hd' : ∀ y ∈ [m], 0 < y := by simpa using hm
  -- MeanAlong(0)
  obtain ⟨H7, r7, e7, _, r_7⟩ := g_along ln6 .mean 0 _
    (C12.vAlong_rank1 .mean _ m rfl (map_wf _ _ (wf_map hZ' hd' _)))
  have hneg : (Scalar.neg Scalar.one : ℝ) = -1 := by simp only [neg_eq, one_eq]
  rw [hneg] at ln6
  have hrule1 : alongRule (α := ℝ) .sum (H3.size + 2) H4.size (1 : Int).toNat = .sumAlongX (H3.size + 2) 1 := rfl
  rw [hrule1] at l5
  have hrule : alongRule (α := ℝ) .mean H5.size H6.size (0 : Int).toNat = .avgAlongX H5.size 0 := rfl
  rw [hrule] at r_7
  have f6 : Extends H6 H7 := e7
  have f5 : Extends H5 H7 := e6.trans f6
  have f4 : Extends H4 H7 := e5.trans f5
  have f3 : Extends H3 H7 := e4.trans f4
  have f2 : Extends H2 H7 := e3.trans f3
  have f1 : Extends H1 H7 := e2.trans f2
  have f0 : Extends H H7 := e1.trans f1
  have Pp := p0.mono f0
  have Plo := lo2.mono f2
  have Pup := up2.mono f2
  have Ppmin := pmin2.mono f2
  have Pph := ph2.mono f2
  have Plg := lg3.mono f3
  have Ptb := tb4.mono f4
  have Plgb := lgb4.mono f4
  have Ps := s4.mono f4
  have Pl := l5.mono f5
  have Pln := ln6.mono f6
  let N : CeIds := {
    p := p, lo := H1.size + 1, up := H1.size + 2, pmin := H1.size + 3, ph := H1.size + 4,
    lg := H2.size, tb := H3.size, lgb := H3.size + 1, s := H3.size + 2, ln := H5.size }
  refine ⟨H6.size, H7, N, ?_, f0, rfl, ?_, ?_, ?_⟩
  · unfold lossCompute
    rw [bind_run (show (getHeap : HM ℝ (Heap ℝ)) H = .ok (H, H) from rfl)]
    have hv : lossValid H Loss.ce (some p) (some t) = .ok (p, t) := by
      simp [lossValid, dp, dt]
    rw [bind_run (show (liftOut (lossValid H Loss.ce (some p) (some t)) : HM ℝ (Nat × Nat)) H = .ok ((p, t), H) by rw [hv]; rfl)]
    simp only []
    rw [bind_run r1, bind_run r2, bind_run r3, bind_run r4, bind_run r5, bind_run r6]
    exact r7
  · exact {
      p := by rw [Pp.val, List.map_snd_zip (by omega)]
      lo := by rw [Plo.val, map_zip_snd (fun _ => (1 : ℝ) / 10 ^ 12) _ _ (by omega)]
      up := by rw [Pup.val, map_zip_snd (fun _ => (1 : ℝ) - 1 / 10 ^ 12) _ _ (by omega)]
      pmin := by rw [Ppmin.val, map_zip_snd (fun pv => min pv ((1 : ℝ) - 1 / 10 ^ 12)) _ _ (by omega)]
      ph := by rw [Pph.val, map_zip_snd pHat _ _ (by omega)]
      tb := by rw [Ptb.val, map_zip_fst tHat _ _ (by omega)]
      lg := by rw [Plg.val]
      lgb := by rw [Plgb.val]
      s := by rw [Ps.val]
      ln := by rw [Pln.val]; rfl }
  · exact .step r_7 (by simp [N]) Pln (.step Pln (by simp [N]) Pl (.step Pl (by simp [N]) Ps
      (.step Ps (by simp [arithEdges, N]) Plgb (.step Plgb (by simp [N]) Plg (.step Plg (by simp [N]) Pph (.nil _))))))
  · exact .step Pph (by simp [N]) Ppmin (.step Ppmin (by simp [N]) Pp (.nil _))

/-! ## End to end: forward pass of the loss, then the local backward pass -/

/-- **BCE**: for every batch size and all values — run `lossCompute .bce` on a tracked prediction; then along the back
    edges the run created (`BackPath`) the Model's backward rules, seeded with `c` on the loss, deliver to the
    prediction the derivative of the BCE formula (`bce_formula_deriv`, with `t̂ = clip(t,0,1)`) wherever the prediction
    is strictly inside the clip band, and 0 wherever it is strictly outside. -/
theorem bce_gradient (bm : BMode) (H : Heap ℝ) (p t n : Nat) (hp : p < H.size) (ht : t < H.size)
    (wp : (H.val p).WF) (wt : (H.val t).WF) (dp : (H.val p).dims = [n]) (dt : (H.val t).dims = [n])
    (hpt : H.tracked p = true) (hpc : H.dirty p = false) (htc : H.dirty t = false) (c : ℝ) :
    ∃ r H' ph pathA pathB pathClip A B G K,
      lossCompute Loss.bce (some p) (some t) H = .ok (r, H') ∧
      BackPath H' r pathA ph ∧ BackPath H' r pathB ph ∧ BackPath H' ph pathClip p ∧
      pullPath bm H' pathA ⟨[], [c]⟩ = .ok A ∧ pullPath bm H' pathB ⟨[], [c]⟩ = .ok B ∧
      vArith .add A B = .ok G ∧ pullPath bm H' pathClip G = .ok K ∧ K.dims = [n] ∧ K.data.length = n ∧
      ∀ (i : Nat) (hi : i < n) (tv pv : ℝ), (H.val t).data[i]? = some tv → (H.val p).data[i]? = some pv →
        (1 / 10 ^ 12 + 1 / 10 ^ 240 < pv → pv < 1 - 1 / 10 ^ 12 - 1 / 10 ^ 240 →
          K.data[i]? = some (c * (-1 / (n : ℝ)) * (tHat tv / pv - (1 - tHat tv) / (1 - pv)))) ∧
        (pv < 1 / 10 ^ 12 - 1 / 10 ^ 240 ∨ 1 - 1 / 10 ^ 12 + 1 / 10 ^ 240 < pv → K.data[i]? = some 0) := by
  obtain ⟨r, H', N, hrun, _, hNp, hv, pa, pb, pc⟩ := bce_graph H p t n hp ht wp wt dp dt hpt hpc htc
  have hn : 0 < n := wp.2 n (by rw [dp]; simp)
  have lp : (H.val p).data.length = n := by rw [wp.1, dp]; simp [prod]
  have lt' : (H.val t).data.length = n := by rw [wt.1, dt]; simp [prod]
  obtain ⟨A, B, G, K, h1, h2, h3, h4, h5, h6, h7⟩ :=
    bce_local_vjp_partial bm H' N n hn (H.val t).data (H.val p).data lt' lp hv c
  exact ⟨r, H', N.ph, N.pathA, N.pathB, N.pathClip, A, B, G, K, hrun, pa, pb, pc, h1, h2, h3, h4, h5, h6, h7⟩

/-- **CE**: the same for `lossCompute .ce` on `m × n` inputs: element `(i, j)` of the prediction receives
    `c · (−1/m) · t̂ᵢⱼ / pᵢⱼ` (the derivative of the CE formula, `ce_formula_deriv`) strictly inside the band, 0 strictly
    outside — for both modes of the Broadcast rule. -/
theorem ce_gradient (bm : BMode) (H : Heap ℝ) (p t m n : Nat) (hp : p < H.size) (ht : t < H.size)
    (wp : (H.val p).WF) (wt : (H.val t).WF) (dp : (H.val p).dims = [m, n]) (dt : (H.val t).dims = [m, n])
    (hpt : H.tracked p = true) (hpc : H.dirty p = false) (htc : H.dirty t = false) (c : ℝ) :
    ∃ r H' ph pathA pathClip G K,
      lossCompute Loss.ce (some p) (some t) H = .ok (r, H') ∧
      BackPath H' r pathA ph ∧ BackPath H' ph pathClip p ∧
      pullPath bm H' pathA ⟨[], [c]⟩ = .ok G ∧ pullPath bm H' pathClip G = .ok K ∧ K.dims = [m, n] ∧
      ∀ (i j : Nat) (hi : i < m) (hj : j < n) (tv pv : ℝ),
        (H.val t).at? [i, j] = some tv → (H.val p).at? [i, j] = some pv →
        (1 / 10 ^ 12 + 1 / 10 ^ 240 < pv → pv < 1 - 1 / 10 ^ 12 - 1 / 10 ^ 240 →
          K.at? [i, j] = some (c * (-1 / (m : ℝ)) * (tHat tv / pv))) ∧
        (pv < 1 / 10 ^ 12 - 1 / 10 ^ 240 ∨ 1 - 1 / 10 ^ 12 + 1 / 10 ^ 240 < pv → K.at? [i, j] = some 0) := by
  obtain ⟨r, H', N, hrun, _, hNp, hv, pa, pc⟩ := ce_graph H p t m n hp ht wp wt dp dt hpt hpc htc
  have hm : 0 < m := wp.2 m (by rw [dp]; simp)
  have hn : 0 < n := wp.2 n (by rw [dp]; simp)
  have lp : (H.val p).data.length = m * n := by rw [wp.1, dp]; simp [prod]
  have lt' : (H.val t).data.length = m * n := by rw [wt.1, dt]; simp [prod]
  obtain ⟨G, K, h1, h2, h3, h4⟩ := ce_local_vjp_partial bm H' N m n hm hn (H.val t).data (H.val p).data lt' lp hv c
  refine ⟨r, H', N.ph, N.pathA, N.pathClip, G, K, hrun, pa, pc, h1, h2, h3, ?_⟩
  intro i j hi hj tv pv htv hpv
  have et : H.val t = ⟨[m, n], (H.val t).data⟩ := by rw [← dt]
  have ep : H.val p = ⟨[m, n], (H.val p).data⟩ := by rw [← dp]
  rw [et] at htv
  rw [ep] at hpv
  exact h4 i j hi hj tv pv htv hpv

end C13x
end Qeep
