import QeepProofs.Graph
import QeepProofs.Heap
import QeepProofs.Dag
/-!
# C01 — back-propagation yields the total derivative on any operation DAG

`backprop` (model of `BackPropagate`, `Qeep.Grad`) = depth-first order + one pass over the back edges.
The theorems below hold for every heap whose back edges point to older tensors (`HeapDag`; proved to hold of every heap
built through the public API, `reachable_is_dag`: an operation's operands exist before its result) — every fan-out and
reconvergence pattern, every depth, every tracked/untracked assignment, every root.

* `backwardOrder_spec`  — the order contains the root, is closed under tracked back edges, has no duplicates and
  is topological (no tensor is processed before one of its consumers);
* `backprop_adjoint`    — if the walk succeeds, every tensor's final gradient is its previous gradient (plus the
  all-ones seed at the root) plus, edge by edge in processing order and each edge exactly once, the backward rule
  applied to the FINAL gradient of the consumer: the adjoint equations, i.e. the multivariate chain rule once each
  rule is the vector-Jacobian product of its operation (C02);
* `backprop_calls`      — the number of rule applications is the number of back edges with a tracked target among
  the visited tensors: linear in the size of the graph, whatever the depth or sharing;
* `backprop_untracked_root` — from an untracked root nothing happens.

What is not proved here: that the solution of the adjoint equations is the derivative (the chain rule itself) —
see DESIGN.md, trusted base.
-/
set_option linter.unusedSimpArgs false
set_option linter.unusedSectionVars false

namespace Qeep
namespace C01

variable {α : Type} [Scalar α]

-- `HeapDag H` (back edges point to older tensors) is defined in `QeepProofs.Dag`, where it is shown to be an
-- invariant of every heap the public API can build (`reach_dag`).

theorem dag_succs (H : Heap α) (h : HeapDag H) : DagS (succs H) := by
  intro n c hc
  unfold succs at hc
  obtain ⟨hc1, _⟩ := List.mem_filter.mp hc
  obtain ⟨e, he, rfl⟩ := List.mem_map.mp hc1
  exact h n e he

/-- **The order of the walk**: root first, closed under tracked back edges, duplicate-free, topological. -/
theorem backwardOrder_spec (H : Heap α) (root : Nat) (hdag : HeapDag H) (htr : H.tracked root = true) :
    root ∈ backwardOrder H root ∧ ClosedS (succs H) (backwardOrder H root) ∧
    TopoS (succs H) (backwardOrder H root) ∧ (backwardOrder H root).Nodup := by
  unfold backwardOrder
  rw [if_pos htr]
  obtain ⟨hinv, _, hmem⟩ := visit_spec (succs H) (dag_succs H hdag) (root + 1) root [] (by omega)
    (DInv.mk (fun a ha => by simp at ha) TopoS.nil)
  exact ⟨hmem, hinv.closed, hinv.topo, hinv.topo.nodup⟩

/-! ### `markDirty` only sets spent flags -/

theorem setCtx_none (H : Heap α) (n : Nat) (c : Ctx α) (h : H[n]? = none) : H.setCtx n c = H := by
  unfold Heap.setCtx; rw [h]

theorem markDirty_fields (H : Heap α) (ns : List Nat) (m : Nat) :
    (markDirty H ns).tracked m = H.tracked m ∧ ((markDirty H ns).ctx m).edges = (H.ctx m).edges ∧
    (markDirty H ns).grad m = H.grad m := by
  unfold markDirty
  induction ns generalizing H with
  | nil => exact ⟨rfl, rfl, rfl⟩
  | cons n ns ih =>
    simp only [List.foldl_cons]
    obtain ⟨a, b, c⟩ := ih (H.setCtx n { H.ctx n with dirty := true })
    have step : (H.setCtx n { H.ctx n with dirty := true }).tracked m = H.tracked m ∧
        ((H.setCtx n { H.ctx n with dirty := true }).ctx m).edges = (H.ctx m).edges ∧
        (H.setCtx n { H.ctx n with dirty := true }).grad m = H.grad m := by
      by_cases hm : m = n
      · subst hm
        cases hx : H[m]? with
        | none => rw [setCtx_none _ _ _ hx]; exact ⟨rfl, rfl, rfl⟩
        | some nd =>
          have hlt : m < H.size := by
            rcases Nat.lt_or_ge m H.size with h | h
            · exact h
            · rw [Array.getElem?_eq_none h] at hx; cases hx
          simp [Heap.tracked, Heap.grad, setCtx_ctx_eq _ _ _ hlt]
      · simp [Heap.tracked, Heap.grad, setCtx_ctx_ne _ _ _ _ hm]
    exact ⟨a.trans step.1, b.trans step.2.1, c.trans step.2.2⟩

theorem writeBack_grad (H : Heap α) (G : Nat → Option (Tensor α)) (n : Nat) (hn : n < H.size) :
    (writeBack H G).grad n = G n := by
  unfold writeBack Heap.grad Heap.ctx
  simp [Array.getElem?_mapIdx, hn]

/-- the edge sequence the walk processes -/
def bpPairs (H : Heap α) (root : Nat) : List (Pair (Rule α)) := allPairs (edgesOf H) (backwardOrder H root)

theorem edgesOf_markDirty (H : Heap α) (ns : List Nat) : edgesOf (markDirty H ns) = edgesOf H := by
  funext u; unfold edgesOf; rw [(markDirty_fields H ns u).2.1]

/-- **Adjoint equations** (see the header). `seedG` is the gradient store right after the all-ones seed has been
    accumulated on the root; `final` the store the walk ends with, which is what `Gradient()` returns afterwards. -/
theorem backprop_adjoint (bm : BMode) (H : Heap α) (root : Nat) (hdag : HeapDag H) (htr : H.tracked root = true)
    (hok : (backprop bm H root).status = .ok ()) :
    ∃ (seedG final : Nat → Option (Tensor α)),
      accumG (vArith .add) (fun n => H.grad n) root (vPow (H.val root) Scalar.zero) = .ok seedG ∧
      (∀ n, n < H.size → (backprop bm H root).heap.grad n = final n) ∧
      (∀ n, Sums (vArith .add) (seedG n)
          (contrib (fun r gy => evalRule bm (markDirty H (backwardOrder H root)) gy r) H.tracked final (bpPairs H root) n)
          (final n)) ∧
      (∀ p ∈ bpPairs H root, H.tracked p.2.1 = true →
          ∃ gy g, final p.1 = some gy ∧ evalRule bm (markDirty H (backwardOrder H root)) gy p.2.2 = .ok g) ∧
      (backprop bm H root).calls = ((bpPairs H root).filter (fun p => H.tracked p.2.1)).length := by
  have hnt : (!H.tracked root) = false := by simp [htr]
  have hG0 : (fun n => (markDirty H (backwardOrder H root)).grad n) = (fun n => H.grad n) := by
    funext n; exact (markDirty_fields H _ n).2.2
  have hval : (markDirty H (backwardOrder H root)).val root = H.val root := markDirty_val _ _ _
  have htrk : (markDirty H (backwardOrder H root)).tracked = H.tracked := by
    funext n; exact (markDirty_fields H _ n).1
  unfold backprop at hok ⊢
  simp only [hnt, Bool.false_eq_true, if_false] at hok ⊢
  rw [hG0, hval, htrk, edgesOf_markDirty] at hok ⊢
  cases hseed : accumG (vArith Arith.add) (fun n => H.grad n) root (vPow (H.val root) Scalar.zero) with
  | err => simp [hseed] at hok
  | panic => simp [hseed] at hok
  | ok G1 =>
    simp only [hseed] at hok ⊢
    rw [runBP_eq_fold] at hok ⊢
    obtain ⟨_, _, htopo, _⟩ := backwardOrder_spec H root hdag htr
    have hst : Stable H.tracked (allPairs (edgesOf H) (backwardOrder H root)) :=
      stable_of_topo H.tracked (succs H) (edgesOf H) (dag_succs H hdag)
        (by
          intro u e he ht
          unfold edgesOf at he
          obtain ⟨e0, he0, rfl⟩ := List.mem_map.mp he
          unfold succs
          exact List.mem_filter.mpr ⟨List.mem_map.mpr ⟨e0, he0, rfl⟩, ht⟩)
        _ htopo
    obtain ⟨hA, hB, hC⟩ := fold_adjoint (vArith Arith.add)
      (fun r gy => evalRule bm (markDirty H (backwardOrder H root)) gy r) H.tracked
      (allPairs (edgesOf H) (backwardOrder H root)) { grads := G1 } rfl hst hok
    refine ⟨G1, _, rfl, ?_, hA, hB, ?_⟩
    · intro n hn
      exact writeBack_grad _ _ n (by rw [markDirty_size]; exact hn)
    · simpa [bpPairs] using hC

/-- **Every heap the public API can build has the shape the theorems need**: whatever sequence of constructors,
    operations (on existing tensors), `Gradient()`, `BackPropagate()` and `ResetGradContext()` calls produced it. -/
theorem reachable_is_dag {bm : BMode} {H : Heap α} (h : Reach bm H) : HeapDag H := reach_dag h

/-- the adjoint equations with the structural hypothesis discharged: any reachable heap, any tracked root -/
theorem backprop_adjoint_reachable (bm : BMode) (H : Heap α) (root : Nat) (hr : Reach bm H) (htr : H.tracked root = true)
    (hok : (backprop bm H root).status = .ok ()) :
    ∃ (seedG final : Nat → Option (Tensor α)),
      accumG (vArith .add) (fun n => H.grad n) root (vPow (H.val root) Scalar.zero) = .ok seedG ∧
      (∀ n, n < H.size → (backprop bm H root).heap.grad n = final n) ∧
      (∀ n, Sums (vArith .add) (seedG n)
          (contrib (fun r gy => evalRule bm (markDirty H (backwardOrder H root)) gy r) H.tracked final (bpPairs H root) n)
          (final n)) ∧
      (∀ p ∈ bpPairs H root, H.tracked p.2.1 = true →
          ∃ gy g, final p.1 = some gy ∧ evalRule bm (markDirty H (backwardOrder H root)) gy p.2.2 = .ok g) ∧
      (backprop bm H root).calls = ((bpPairs H root).filter (fun p => H.tracked p.2.1)).length :=
  backprop_adjoint bm H root (reach_dag hr) htr hok

/-- **Rule applications are linear in the graph**: at most one per back edge of a visited tensor, whatever the
    outcome of the walk (a failing rule stops it early). -/
theorem backprop_calls_le (bm : BMode) (H : Heap α) (root : Nat) :
    (backprop bm H root).calls ≤ (bpPairs H root).length := by
  unfold backprop
  split
  · exact Nat.zero_le _
  · simp only []
    split
    · rename_i G1 _
      simp only []
      rw [runBP_eq_fold, edgesOf_markDirty]
      have hgen : ∀ (ps : List (Pair (Rule α))) (s : BPSt (Tensor α)),
          (ps.foldl (stepPair (vArith Arith.add) (fun r gy => evalRule bm (markDirty H (backwardOrder H root)) gy r)
            (markDirty H (backwardOrder H root)).tracked) s).calls ≤ s.calls + ps.length := by
        intro ps
        induction ps with
        | nil => intro s; simp
        | cons p ps ih =>
          intro s
          simp only [List.foldl_cons, List.length_cons]
          refine Nat.le_trans (ih _) ?_
          have : (stepPair (vArith Arith.add) (fun r gy => evalRule bm (markDirty H (backwardOrder H root)) gy r)
              (markDirty H (backwardOrder H root)).tracked s p).calls ≤ s.calls + 1 := by
            unfold stepPair stepEdge
            repeat (first | split | simp | omega)
          omega
      have := hgen (allPairs (edgesOf H) (backwardOrder H root)) { grads := G1 }
      simpa [bpPairs] using this
    · exact Nat.zero_le _
    · exact Nat.zero_le _

/-- from an untracked root nothing changes and no rule is applied -/
theorem backprop_untracked_root (bm : BMode) (H : Heap α) (root : Nat) (h : H.tracked root = false) :
    (backprop bm H root).heap = H ∧ (backprop bm H root).status = .ok () ∧ (backprop bm H root).calls = 0 := by
  unfold backprop; simp [h]

/-- non-vacuity: a two-node graph (x tracked leaf, y = Scale(x, 2)) satisfies the hypotheses -/
def H0 : Heap Rat :=
  #[⟨⟨[], [3]⟩, { tracked := true }⟩, ⟨⟨[], [6]⟩, { tracked := true, edges := [⟨0, .scaleX 2⟩] }⟩]

example : HeapDag H0 ∧ H0.tracked 1 = true := by
  refine ⟨?_, rfl⟩
  intro n e he
  match n with
  | 0 => simp [H0, Heap.ctx] at he
  | 1 => simp [H0, Heap.ctx] at he; subst he; simp
  | n + 2 => simp [H0, Heap.ctx] at he

/-- x = leaf 3, y = Scale(x, 2), built by the model's own operations -/
def Hr : Heap Int :=
  match (hLeaf (⟨[], [3]⟩ : Tensor Int) true >>= fun x => hScale x 2) #[] with
  | .ok (_, H) => H
  | _ => #[]

/-- non-vacuity of `Reach`: that history is reachable, its result is a tracked root, and the walk succeeds -/
example : Reach .sum Hr ∧ Hr.size = 2 ∧ Hr.tracked 1 = true ∧ (backprop .sum Hr 1).status = .ok () := by
  refine ⟨?_, by decide, by decide, by decide⟩
  exact Reach.scale (x := 0) (a := 2) (r := 1) (Reach.leaf (v := ⟨[], [3]⟩) (b := true) (r := 0) Reach.empty rfl) (by decide) rfl

end C01
end Qeep
