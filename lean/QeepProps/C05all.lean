import QeepProps.C05x
import QeepProps.C14y
/-! C05 — all property theorems: the base file `C05`, the real-number statistics of `C05x`, and the index-level
`…Along` statements for every reducer, rank and dim proved in `C14y` (`along_el` and its instances). -/
