import QeepProps.C03
import QeepProofs.ValueOps
import QeepProofs.Real
/-!
# C03 (extension) — implicit broadcasting of Add/Sub/Mul/Div and the `Equals` predicate

* `arith_implicit_eq_explicit` : `vArith o a b = vArith o a' b'` whenever `vBroadcastPair a b = .ok (a', b')`
  (implicit broadcasting = broadcasting explicitly first), plus the error direction `arith_err_of_pair_err`
  and totality `arith_total` (never a panic; `ok` exactly for right-aligned compatible shapes).
* `arith_result_dims` : the result has the broadcast shape and is well-formed.
* `arith_get` : element `u` of the result is the scalar operation of the operands' elements at the
  right-aligned index (size-1 / missing leading dimensions are repeated).
* `equals_iff` (+ `equals_eq_all`, `equals_dims_ne`) : `Equals` is true exactly when every position compares
  equal under the model's scalar comparison `Scalar.near`; `equals_iff_int` / `equals_iff_real` specialise it.
-/
set_option linter.unusedSimpArgs false
set_option linter.unusedSectionVars false

namespace Qeep
namespace C03x

variable {α : Type}

/-! ## shapes -/

theorem targetBroadcastLE_pos : ∀ {d1 d2 : List Nat}, (∀ d ∈ d1, 0 < d) → (∀ d ∈ d2, 0 < d) →
    ∀ d ∈ targetBroadcastLE d1 d2, 0 < d
  | [], _, _, h2 => by simpa [targetBroadcastLE] using h2
  | _ :: _, [], h1, _ => by simpa [targetBroadcastLE] using h1
  | a :: as, b :: bs, h1, h2 => by
    intro d hd
    simp only [targetBroadcastLE, List.mem_cons] at hd
    rcases hd with hd | hd
    · have ha : 0 < a := h1 a (by simp)
      have hb : 0 < b := h2 b (by simp)
      rw [hd]; split <;> assumption
    · exact targetBroadcastLE_pos (fun x hx => h1 x (by simp [hx])) (fun x hx => h2 x (by simp [hx])) d hd

theorem targetBroadcastDims_pos {d1 d2 : List Nat} (h1 : ∀ d ∈ d1, 0 < d) (h2 : ∀ d ∈ d2, 0 < d) :
    ∀ d ∈ targetBroadcastDims d1 d2, 0 < d := by
  intro d hd
  simp only [targetBroadcastDims, List.mem_reverse] at hd
  exact targetBroadcastLE_pos (fun x hx => h1 x (by simpa using hx)) (fun x hx => h2 x (by simpa using hx)) d hd

/-- right-aligned compatibility of two shapes (little-endian lists): aligned sizes are equal or one of them is 1 -/
def compatLE : List Nat → List Nat → Bool
  | [], _ => true
  | _ :: _, [] => true
  | a :: as, b :: bs => (a == b || a == 1 || b == 1) && compatLE as bs

/-- right-aligned (NumPy) compatibility of two shapes -/
def compat (d1 d2 : List Nat) : Bool := compatLE d1.reverse d2.reverse

/-- both operands are accepted by the broadcast validator for the common target shape exactly when the
    shapes are right-aligned compatible -/
theorem valid_target_iff_compat : ∀ {d1 d2 : List Nat}, (∀ d ∈ d1, 0 < d) → (∀ d ∈ d2, 0 < d) →
    ((validBroadcastLE d1 (targetBroadcastLE d1 d2) && validBroadcastLE d2 (targetBroadcastLE d1 d2)) = compatLE d1 d2)
  | [], l, _, _ => by simp [targetBroadcastLE, validBroadcastLE, validBroadcastLE_self, compatLE]
  | a :: as, [], _, _ => by simp [targetBroadcastLE, validBroadcastLE, validBroadcastLE_self, compatLE]
  | a :: as, b :: bs, h1, h2 => by
    have ih := valid_target_iff_compat (d1 := as) (d2 := bs)
      (fun x hx => h1 x (by simp [hx])) (fun x hx => h2 x (by simp [hx]))
    have ha : 0 < a := h1 a (by simp)
    have hb : 0 < b := h2 b (by simp)
    simp only [targetBroadcastLE, validBroadcastLE, compatLE]
    rw [← ih]
    cases validBroadcastLE as (targetBroadcastLE as bs) <;> cases validBroadcastLE bs (targetBroadcastLE as bs) <;>
      simp only [Bool.and_false, Bool.and_true, Bool.false_and, Bool.true_and]
    by_cases hab : a > b
    · rw [if_pos hab]
      have e1 : (b == a) = false := by simp; omega
      have e2 : (a == b) = false := by simp; omega
      have e3 : (a == 1) = false := by simp; omega
      simp [e1, e2, e3]
    · rw [if_neg hab]
      by_cases hba : a = b
      · subst hba; simp
      · have e2 : (a == b) = false := by simp; omega
        have e3 : (b == 1) = false := by simp; omega
        simp [e2, e3]

/-! ## explicit broadcast of a well-formed tensor -/

theorem pos_of_validInputDims_ofNat {shape : List Nat} (h : validInputDims (shape.map Int.ofNat) = true) :
    ∀ d ∈ shape, 0 < d := by
  intro d hd
  simp only [validInputDims, List.all_eq_true, List.mem_map, decide_eq_true_eq] at h
  have := h (Int.ofNat d) ⟨d, hd, rfl⟩
  have e : Int.ofNat d = (d : Int) := rfl
  omega

/-- `vBroadcastN` on a well-formed tensor: `ok` (with a well-formed tensor of the target shape) exactly when
    the validator accepts; `err` otherwise; never a panic -/
theorem vBroadcastN_total (t : Tensor α) (hwf : t.WF) (shape : List Nat) (hpos : ∀ d ∈ shape, 0 < d) :
    (validBroadcast t.dims shape = true →
      ∃ r, vBroadcastN t shape = .ok r ∧ t.broadcastRaw shape = some r ∧ r.dims = shape ∧ r.WF) ∧
    (validBroadcast t.dims shape = false → vBroadcastN t shape = .err) := by
  unfold vBroadcastN vBroadcast
  rw [validInputDims_ofNat _ hpos, natDims_ofNat]
  constructor
  · intro hv
    obtain ⟨data, h1, h2, _⟩ := broadcastRaw_spec t hwf shape hpos hv
    exact ⟨⟨shape, data⟩, by simp [hv, h1, Out.ofOpt], h1, rfl, h2, hpos⟩
  · intro hv
    simp [hv]

theorem vBroadcastN_ok {t r : Tensor α} (hwf : t.WF) {shape : List Nat} (h : vBroadcastN t shape = .ok r) :
    validBroadcast t.dims shape = true ∧ (∀ d ∈ shape, 0 < d) ∧ t.broadcastRaw shape = some r ∧ r.dims = shape ∧ r.WF := by
  have hc : (validInputDims (shape.map Int.ofNat) && validBroadcast t.dims (natDims (shape.map Int.ofNat))) = true := by
    unfold vBroadcastN vBroadcast at h
    by_cases hc : (validInputDims (shape.map Int.ofNat) && validBroadcast t.dims (natDims (shape.map Int.ofNat))) = true
    · exact hc
    · rw [if_neg hc] at h; cases h
  rw [Bool.and_eq_true, natDims_ofNat] at hc
  have hpos := pos_of_validInputDims_ofNat hc.1
  obtain ⟨r', e, hr, hd, hw⟩ := (vBroadcastN_total t hwf shape hpos).1 hc.2
  rw [e] at h
  injection h with h
  subst h
  exact ⟨hc.2, hpos, hr, hd, hw⟩

/-- elements of an explicit broadcast, by target multi-index (`C03.broadcast_get` for the public call) -/
theorem vBroadcastN_get {t r : Tensor α} (hwf : t.WF) {shape : List Nat} (h : vBroadcastN t shape = .ok r) :
    ∀ u, Valid shape.reverse u →
      r.data[val shape.reverse u]? = t.at? (projLE t.dims.reverse shape.reverse u).reverse ∧
      (r.data[val shape.reverse u]?).isSome := by
  intro u hu
  obtain ⟨hv, hpos, hr, _, _⟩ := vBroadcastN_ok hwf h
  obtain ⟨data, h1, _, h3⟩ := broadcastRaw_spec t hwf shape hpos hv
  rw [hr] at h1
  injection h1 with h1
  have hp : ∀ d ∈ shape.reverse, 0 < d := fun d hd => hpos d (by simpa using hd)
  have hk := val_lt hu
  rw [prod_reverse] at hk
  obtain ⟨e1, e2⟩ := h3 (val shape.reverse u) hk
  rw [iter_val hp hu] at e1
  rw [h1]
  exact ⟨e1, e2⟩

/-- `broadcastForBinaryOp` succeeded: both results are well-formed and have the common target shape -/
theorem pair_ok {a b a' b' : Tensor α} (ha : a.WF) (hb : b.WF) (h : vBroadcastPair a b = .ok (a', b')) :
    vBroadcastN a (targetBroadcastDims a.dims b.dims) = .ok a' ∧
    vBroadcastN b (targetBroadcastDims a.dims b.dims) = .ok b' ∧
    a'.dims = targetBroadcastDims a.dims b.dims ∧ b'.dims = targetBroadcastDims a.dims b.dims ∧ a'.WF ∧ b'.WF := by
  unfold vBroadcastPair at h
  simp only [bind, Out.bind, pure] at h
  cases ea : vBroadcastN a (targetBroadcastDims a.dims b.dims) with
  | err => rw [ea] at h; cases h
  | panic => rw [ea] at h; cases h
  | ok x =>
    rw [ea] at h
    simp only [] at h
    cases eb : vBroadcastN b (targetBroadcastDims a.dims b.dims) with
    | err => rw [eb] at h; cases h
    | panic => rw [eb] at h; cases h
    | ok y =>
      rw [eb] at h
      simp only [] at h
      injection h with h
      injection h with h1 h2
      subst h1 h2
      obtain ⟨_, _, _, d1, w1⟩ := vBroadcastN_ok ha ea
      obtain ⟨_, _, _, d2, w2⟩ := vBroadcastN_ok hb eb
      exact ⟨rfl, rfl, d1, d2, w1, w2⟩

/-- `broadcastForBinaryOp` is total on well-formed operands: `ok` for compatible shapes, `err` otherwise -/
theorem pair_total (a b : Tensor α) (ha : a.WF) (hb : b.WF) :
    (compat a.dims b.dims = true → ∃ a' b', vBroadcastPair a b = .ok (a', b')) ∧
    (compat a.dims b.dims = false → vBroadcastPair a b = .err) := by
  have hpos := targetBroadcastDims_pos ha.2 hb.2
  have hc := valid_target_iff_compat (d1 := a.dims.reverse) (d2 := b.dims.reverse)
    (fun x hx => ha.2 x (by simpa using hx)) (fun x hx => hb.2 x (by simpa using hx))
  have hva : validBroadcast a.dims (targetBroadcastDims a.dims b.dims)
      = validBroadcastLE a.dims.reverse (targetBroadcastLE a.dims.reverse b.dims.reverse) := by
    simp [validBroadcast, targetBroadcastDims]
  have hvb : validBroadcast b.dims (targetBroadcastDims a.dims b.dims)
      = validBroadcastLE b.dims.reverse (targetBroadcastLE a.dims.reverse b.dims.reverse) := by
    simp [validBroadcast, targetBroadcastDims]
  rw [← hva, ← hvb] at hc
  obtain ⟨oka, erra⟩ := vBroadcastN_total a ha _ hpos
  obtain ⟨okb, errb⟩ := vBroadcastN_total b hb _ hpos
  unfold compat
  rw [← hc]
  constructor
  · intro h
    rw [Bool.and_eq_true] at h
    obtain ⟨a', ea, _⟩ := oka h.1
    obtain ⟨b', eb, _⟩ := okb h.2
    refine ⟨a', b', ?_⟩
    unfold vBroadcastPair
    simp only [bind, Out.bind, pure]
    rw [ea]; simp only []; rw [eb]
  · intro h
    unfold vBroadcastPair
    simp only [bind, Out.bind, pure]
    cases hA : validBroadcast a.dims (targetBroadcastDims a.dims b.dims) with
    | false => rw [erra hA]
    | true =>
      rw [hA, Bool.true_and] at h
      obtain ⟨a', ea, _⟩ := oka hA
      rw [ea]; simp only []; rw [errb h]

section
variable [Scalar α]

/-! ## Target 1: implicit = explicit -/

/-- **Implicit broadcasting equals explicit broadcasting.** For every operation, all well-formed operands of
    any shapes: if `broadcastForBinaryOp` yields `(a', b')` then the arithmetic on `a, b` (which broadcasts
    implicitly) has the identical outcome as the arithmetic on the explicitly broadcast `a', b'`. -/
theorem arith_implicit_eq_explicit (o : Arith) (a b a' b' : Tensor α) (ha : a.WF) (hb : b.WF)
    (h : vBroadcastPair a b = .ok (a', b')) : vArith o a b = vArith o a' b' := by
  obtain ⟨_, _, da, db, wa, wb⟩ := pair_ok ha hb h
  have hd : a'.dims = b'.dims := by rw [da, db]
  have hl : a'.data.length = b'.data.length := by rw [wa.1, wb.1, hd]
  rw [vArith_same o a' b' wa wb hd]
  unfold vArith
  simp only [bind, Out.bind]
  rw [h]
  simp [Tensor.zipRaw, hd, hl, Out.ofOpt]

/-- the explicit form with the two `Broadcast` calls spelled out -/
theorem arith_implicit_eq_explicit' (o : Arith) (a b a' b' : Tensor α) (ha : a.WF) (hb : b.WF)
    (h1 : vBroadcastN a (targetBroadcastDims a.dims b.dims) = .ok a')
    (h2 : vBroadcastN b (targetBroadcastDims a.dims b.dims) = .ok b') : vArith o a b = vArith o a' b' := by
  apply arith_implicit_eq_explicit o a b a' b' ha hb
  unfold vBroadcastPair
  simp only [bind, Out.bind, pure]
  rw [h1]; simp only []; rw [h2]

/-- error direction: if the operands cannot be broadcast together, the arithmetic returns the error -/
theorem arith_err_of_pair_err (o : Arith) (a b : Tensor α) (h : vBroadcastPair a b = .err) : vArith o a b = .err := by
  unfold vArith
  simp only [bind, Out.bind]
  rw [h]

/-- totality: on well-formed operands arithmetic never panics; it succeeds exactly for compatible shapes -/
theorem arith_total (o : Arith) (a b : Tensor α) (ha : a.WF) (hb : b.WF) :
    (compat a.dims b.dims = true → ∃ r, vArith o a b = .ok r) ∧
    (compat a.dims b.dims = false → vArith o a b = .err) := by
  obtain ⟨hok, herr⟩ := pair_total a b ha hb
  constructor
  · intro hc
    obtain ⟨a', b', h⟩ := hok hc
    obtain ⟨_, _, da, db, wa, wb⟩ := pair_ok ha hb h
    have hd : a'.dims = b'.dims := by rw [da, db]
    rw [arith_implicit_eq_explicit o a b a' b' ha hb h, vArith_same o a' b' wa wb hd]
    exact ⟨_, rfl⟩
  · intro hc
    exact arith_err_of_pair_err o a b (herr hc)

/-- non-vacuity: a `[2,1]` and a `[3]` operand; implicit and explicit agree (and are `ok`) -/
example :
    vBroadcastPair (⟨[2, 1], [1, 2]⟩ : Tensor Int) ⟨[3], [10, 20, 30]⟩
      = .ok (⟨[2, 3], [1, 1, 1, 2, 2, 2]⟩, ⟨[2, 3], [10, 20, 30, 10, 20, 30]⟩) ∧
    vArith .add (⟨[2, 1], [1, 2]⟩ : Tensor Int) ⟨[3], [10, 20, 30]⟩ = .ok ⟨[2, 3], [11, 21, 31, 12, 22, 32]⟩ ∧
    vArith .add (⟨[2, 3], [1, 1, 1, 2, 2, 2]⟩ : Tensor Int) ⟨[2, 3], [10, 20, 30, 10, 20, 30]⟩
      = .ok ⟨[2, 3], [11, 21, 31, 12, 22, 32]⟩ := by decide

/-- non-vacuity of the error direction: `[2]` against `[3]` -/
example : vBroadcastPair (⟨[2], [1, 2]⟩ : Tensor Int) ⟨[3], [10, 20, 30]⟩ = .err ∧
    vArith .mul (⟨[2], [1, 2]⟩ : Tensor Int) ⟨[3], [10, 20, 30]⟩ = .err ∧ compat [2] [3] = false := by decide

/-! ## Target 2: the result has the broadcast shape -/

/-- **Result shape.** A successful Add/Sub/Mul/Div has the right-aligned broadcast shape of its operands and
    is well-formed. -/
theorem arith_result_dims (o : Arith) (a b r : Tensor α) (ha : a.WF) (hb : b.WF) (h : vArith o a b = .ok r) :
    r.dims = targetBroadcastDims a.dims b.dims ∧ r.WF := by
  cases hp : vBroadcastPair a b with
  | err => rw [arith_err_of_pair_err o a b hp] at h; cases h
  | panic =>
    unfold vArith at h
    simp only [bind, Out.bind] at h
    rw [hp] at h; cases h
  | ok p =>
    obtain ⟨a', b'⟩ := p
    obtain ⟨_, _, da, db, wa, wb⟩ := pair_ok ha hb hp
    have hd : a'.dims = b'.dims := by rw [da, db]
    rw [arith_implicit_eq_explicit o a b a' b' ha hb hp, vArith_same o a' b' wa wb hd] at h
    injection h with h
    subst h
    exact ⟨da, zip_wf o.fn a' b' wa wb hd⟩

/-- the broadcast shape, position by position (little-endian): the larger of the aligned sizes, the longer
    operand's sizes beyond the shorter one's rank -/
example : targetBroadcastDims [2, 1] [3] = [2, 3] ∧ targetBroadcastDims [4, 1, 3] [5, 1] = [4, 5, 3] := by decide

example : vArith .sub (⟨[2, 1], [1, 2]⟩ : Tensor Int) ⟨[3], [10, 20, 30]⟩ = .ok ⟨[2, 3], [-9, -19, -29, -8, -18, -28]⟩ := by
  decide

/-! ## Elements of the result: right-aligned repetition -/

/-- **Element formula.** For every position `u` of the result (little-endian multi-index, `Valid`), the element
    is the scalar operation applied to the operands' elements at the right-aligned index `projLE`: positions of
    a size-1 dimension are pinned to 0 (the element is repeated) and the leading dimensions a lower-rank operand
    lacks are ignored. Both operand reads are in range. -/
theorem arith_get (o : Arith) (a b r : Tensor α) (ha : a.WF) (hb : b.WF) (h : vArith o a b = .ok r) :
    ∀ u, Valid r.dims.reverse u →
      ∃ x y, a.at? (projLE a.dims.reverse r.dims.reverse u).reverse = some x ∧
        b.at? (projLE b.dims.reverse r.dims.reverse u).reverse = some y ∧
        r.at? u.reverse = some (o.fn x y) := by
  intro u hu
  cases hp : vBroadcastPair a b with
  | err => rw [arith_err_of_pair_err o a b hp] at h; cases h
  | panic =>
    unfold vArith at h
    simp only [bind, Out.bind] at h
    rw [hp] at h; cases h
  | ok p =>
    obtain ⟨a', b'⟩ := p
    obtain ⟨ea, eb, da, db, wa, wb⟩ := pair_ok ha hb hp
    have hd : a'.dims = b'.dims := by rw [da, db]
    rw [arith_implicit_eq_explicit o a b a' b' ha hb hp, vArith_same o a' b' wa wb hd] at h
    injection h with h
    have hrd : r.dims = targetBroadcastDims a.dims b.dims := by rw [← h]; exact da
    rw [hrd] at hu ⊢
    obtain ⟨ga, sa⟩ := vBroadcastN_get ha ea u hu
    obtain ⟨gb, sb⟩ := vBroadcastN_get hb eb u hu
    cases hx : a'.data[val (targetBroadcastDims a.dims b.dims).reverse u]? with
    | none => rw [hx] at sa; cases sa
    | some x =>
      cases hy : b'.data[val (targetBroadcastDims a.dims b.dims).reverse u]? with
      | none => rw [hy] at sb; cases sb
      | some y =>
        refine ⟨x, y, by rw [← ga, hx], by rw [← gb, hy], ?_⟩
        have hu' : Valid r.dims.reverse u := by rw [hrd]; exact hu
        rw [Tensor.at?_reverse r hu', hrd, ← h]
        simp [List.getElem?_zipWith, hx, hy]

/-- non-vacuity: in `[2,1] + [3]` the element at (row 1, column 2) — little-endian `[2, 1]` — reads `a` at
    (1, 0) and `b` at (2) -/
example : projLE [1, 2] [3, 2] [2, 1] = [0, 1] ∧ projLE [3] [3, 2] [2, 1] = [2] ∧
    (⟨[2, 3], [11, 21, 31, 12, 22, 32]⟩ : Tensor Int).at? [1, 2] = some 32 ∧
    (⟨[2, 1], [1, 2]⟩ : Tensor Int).at? [1, 0] = some 2 ∧ (⟨[3], [10, 20, 30]⟩ : Tensor Int).at? [2] = some 30 := by
  decide

end

/-! ## Target 3: `Equals`

`t.equals(u)` computes the element-wise `Eq` tensor (each element `1` if `|x - y| ≤ 1e-240`, i.e.
`Scalar.near x y`, else `0`), sums it and tests `sum ≥ float64(n)`. That this count test means "every
position compares equal" needs two facts about the scalar domain (`CountLaws`): adding the images of naturals is
exact, and comparing them is faithful. They hold for `Int`, `ℝ` (below) — and for `float64` as long as the
element count stays below 2^53. -/

section
variable [Scalar α]
open Scalar

/-- the two scalar-domain facts behind the count test `sum ≥ n` -/
structure CountLaws (α : Type) [Scalar α] : Prop where
  add_ofNat : ∀ m n : Nat, Scalar.add (Scalar.ofNat m : α) (Scalar.ofNat n) = Scalar.ofNat (m + n)
  le_ofNat : ∀ m n : Nat, Scalar.le (Scalar.ofNat m : α) (Scalar.ofNat n) = true ↔ m ≤ n

theorem ofBool_eq_ofNat (b : Bool) : (ofBool b : α) = ofNat (if b then 1 else 0) := by
  cases b <;> rfl

theorem foldl_count (L : CountLaws α) : ∀ (bs : List Bool) (c : Nat),
    (bs.map (fun b => (ofBool b : α))).foldl add (ofNat c) = ofNat (c + bs.count true)
  | [], c => by simp
  | b :: bs, c => by
    simp only [List.map_cons, List.foldl_cons]
    rw [ofBool_eq_ofNat, L.add_ofNat, foldl_count L bs]
    congr 1
    cases b <;> simp [List.count_cons]; omega

theorem all_zipWith_iff {β : Type} (p : β → β → Bool) : ∀ (l1 l2 : List β),
    (List.zipWith p l1 l2).all id = true ↔ ∀ (i : Nat) x y, l1[i]? = some x → l2[i]? = some y → p x y = true
  | [], _ => by simp
  | _ :: _, [] => by simp
  | a :: l1, b :: l2 => by
    simp only [List.zipWith_cons_cons, List.all_cons, id, Bool.and_eq_true, all_zipWith_iff p l1 l2]
    constructor
    · rintro ⟨h0, hs⟩ i x y hx hy
      cases i with
      | zero =>
        simp only [List.getElem?_cons_zero, Option.some.injEq] at hx hy
        rw [← hx, ← hy]; exact h0
      | succ i =>
        simp only [List.getElem?_cons_succ] at hx hy
        exact hs i x y hx hy
    · intro h
      exact ⟨h 0 a b rfl rfl, fun i x y hx hy => h (i + 1) x y (by simpa using hx) (by simpa using hy)⟩

/-- `Equals` on operands of different dims is the validator's error (not `false`) -/
theorem equals_dims_ne (a b : Tensor α) (h : a.dims ≠ b.dims) : vEquals a b = .err := by
  simp [vEquals, validDimsMatch, h]

/-- on well-formed operands of equal dims `Equals` never fails; its answer is the count test -/
theorem equals_same (a b : Tensor α) (ha : a.WF) (hb : b.WF) (hd : a.dims = b.dims) :
    vEquals a b = .ok (Scalar.ge ((List.zipWith (fun x y => (ofBool (near x y) : α)) a.data b.data).foldl add zero)
      (ofNat a.data.length)) := by
  have hl : a.data.length = b.data.length := by rw [ha.1, hb.1, hd]
  simp only [vEquals, validDimsMatch, hd, beq_self_eq_true, if_true, Tensor.zipRaw, hl, and_self, Option.map_some,
    Out.ofOpt, Tensor.sum, Tensor.fold, Tensor.numElems, Cmp.fn]
  rw [← hb.1]

/-- **`Equals`, as a Boolean**: for well-formed operands of equal dims the result is `ok` of "every position
    compares equal (`Scalar.near`)" — both the `true` and the `false` answers are characterised. -/
theorem equals_eq_all (L : CountLaws α) (a b : Tensor α) (ha : a.WF) (hb : b.WF) (hd : a.dims = b.dims) :
    vEquals a b = .ok ((List.zipWith near a.data b.data).all id) := by
  have hl : a.data.length = b.data.length := by rw [ha.1, hb.1, hd]
  rw [equals_same a b ha hb hd]
  congr 1
  have e : List.zipWith (fun x y => (ofBool (near x y) : α)) a.data b.data
      = (List.zipWith near a.data b.data).map (fun c => (ofBool c : α)) := by
    rw [List.map_zipWith]
  have hlen : (List.zipWith near a.data b.data).length = a.data.length := by
    simp [List.length_zipWith, hl]
  rw [e]
  show Scalar.ge _ _ = _
  unfold Scalar.ge Scalar.zero
  rw [foldl_count L, Bool.eq_iff_iff, L.le_ofNat, ← hlen, List.all_eq_true]
  have hle := List.count_le_length (a := true) (l := List.zipWith near a.data b.data)
  constructor
  · intro h c hc
    have : List.count true (List.zipWith near a.data b.data) = (List.zipWith near a.data b.data).length := by omega
    exact ((List.count_eq_length.1 this) c hc).symm
  · intro h
    have : List.count true (List.zipWith near a.data b.data) = (List.zipWith near a.data b.data).length :=
      List.count_eq_length.2 (fun c hc => (h c hc).symm)
    omega

/-- **`Equals` is true exactly when every position compares equal** (well-formed operands of equal dims;
    the comparison is the model's `Scalar.near`, Go's `math.Abs(x-y) <= 1e-240`). -/
theorem equals_iff (L : CountLaws α) (a b : Tensor α) (ha : a.WF) (hb : b.WF) (hd : a.dims = b.dims) :
    vEquals a b = .ok true ↔
      ∀ (i : Nat) x y, a.data[i]? = some x → b.data[i]? = some y → near x y = true := by
  rw [equals_eq_all L a b ha hb hd, ← all_zipWith_iff]
  constructor
  · intro h; injection h
  · intro h; rw [h]

/-- the same with bounded positions `i < a.data.length` -/
theorem equals_iff_lt (L : CountLaws α) (a b : Tensor α) (ha : a.WF) (hb : b.WF) (hd : a.dims = b.dims) :
    vEquals a b = .ok true ↔
      ∀ (i : Nat) (hi : i < a.data.length),
        near a.data[i] (b.data[i]'(by rw [hb.1, ← hd, ← ha.1]; exact hi)) = true := by
  have hl : a.data.length = b.data.length := by rw [ha.1, hb.1, hd]
  rw [equals_iff L a b ha hb hd]
  constructor
  · intro h i hi
    exact h i _ _ (List.getElem?_eq_getElem hi) (List.getElem?_eq_getElem (hl ▸ hi))
  · intro h i x y hx hy
    obtain ⟨hi, ex⟩ := List.getElem?_eq_some_iff.1 hx
    obtain ⟨hj, ey⟩ := List.getElem?_eq_some_iff.1 hy
    rw [← ex, ← ey]
    exact h i hi

/-- and `Equals` is `ok false` exactly when some position does not compare equal -/
theorem equals_false_iff (L : CountLaws α) (a b : Tensor α) (ha : a.WF) (hb : b.WF) (hd : a.dims = b.dims) :
    vEquals a b = .ok false ↔
      ∃ (i : Nat) (x y : α), a.data[i]? = some x ∧ b.data[i]? = some y ∧ near x y = false := by
  have h1 := equals_eq_all L a b ha hb hd
  have h2 := equals_iff L a b ha hb hd
  cases hv : (List.zipWith near a.data b.data).all id with
  | true =>
    rw [hv] at h1
    rw [h1]
    constructor
    · intro h; cases h
    · rintro ⟨i, x, y, hx, hy, hn⟩
      have := (h2.1 h1) i x y hx hy
      rw [hn] at this; cases this
  | false =>
    rw [hv] at h1
    refine ⟨fun _ => ?_, fun _ => h1⟩
    apply Classical.byContradiction
    intro hne
    have : vEquals a b = .ok true := h2.2 (fun i x y hx hy => by
      cases hn : near x y with
      | true => rfl
      | false => exact absurd ⟨i, x, y, hx, hy, hn⟩ hne)
    rw [h1] at this; cases this

end

/-! ### `Int`: the scalar comparison is equality -/

theorem countLaws_int : CountLaws Int where
  add_ofNat m n := by
    show (m : Int) + (n : Int) = ((m + n : Nat) : Int)
    omega
  le_ofNat m n := by
    show decide ((m : Int) ≤ (n : Int)) = true ↔ m ≤ n
    rw [decide_eq_true_eq]; omega

theorem near_int (x y : Int) : Scalar.near x y = decide (x = y) := by
  show decide ((if x - y < 0 then -(x - y) else x - y) ≤ (if (240 : Nat) = 0 then ((1 : Nat) : Int) else 0)) = decide (x = y)
  have e : (if (240 : Nat) = 0 then ((1 : Nat) : Int) else 0) = 0 := by decide
  rw [e, Bool.eq_iff_iff, decide_eq_true_eq, decide_eq_true_eq]
  split <;> omega

/-- over `Int`, for **all** well-formed operands: `Equals` answers `true` exactly when the tensors are equal -/
theorem equals_iff_int (a b : Tensor Int) (ha : a.WF) (hb : b.WF) : vEquals a b = .ok true ↔ a = b := by
  by_cases hd : a.dims = b.dims
  · have hl : a.data.length = b.data.length := by rw [ha.1, hb.1, hd]
    rw [equals_iff countLaws_int a b ha hb hd]
    constructor
    · intro h
      have : a.data = b.data := by
        apply List.ext_getElem hl
        intro i h1 h2
        have := h i _ _ (List.getElem?_eq_getElem h1) (List.getElem?_eq_getElem h2)
        rw [near_int, decide_eq_true_eq] at this
        exact this
      cases a; cases b; simp only [Tensor.mk.injEq] at hd this ⊢; exact ⟨hd, this⟩
    · intro h i x y hx hy
      rw [h, hy] at hx
      injection hx with hx
      rw [near_int, decide_eq_true_eq]; exact hx.symm
  · rw [equals_dims_ne a b hd]
    constructor
    · intro h; cases h
    · intro h; rw [h] at hd; exact absurd rfl hd

/-- over `Int`, equal dims: the answer is literally `a.data = b.data` -/
theorem equals_int_data (a b : Tensor Int) (ha : a.WF) (hb : b.WF) (hd : a.dims = b.dims) :
    vEquals a b = .ok (decide (a.data = b.data)) := by
  by_cases h : a.data = b.data
  · have : a = b := by cases a; cases b; simp only [Tensor.mk.injEq] at hd h ⊢; exact ⟨hd, h⟩
    rw [(equals_iff_int a b ha hb).2 this]; simp [h]
  · have hne : vEquals a b ≠ .ok true := fun e => h (by rw [(equals_iff_int a b ha hb).1 e])
    rw [equals_eq_all countLaws_int a b ha hb hd] at hne ⊢
    cases hv : (List.zipWith Scalar.near a.data b.data).all id with
    | true => rw [hv] at hne; exact absurd rfl hne
    | false => simp [h]

/-- non-vacuity: equal tensors, tensors differing in one position, tensors of different dims -/
example : vEquals (⟨[2, 2], [1, 2, 3, 4]⟩ : Tensor Int) ⟨[2, 2], [1, 2, 3, 4]⟩ = .ok true ∧
    vEquals (⟨[2, 2], [1, 2, 3, 4]⟩ : Tensor Int) ⟨[2, 2], [1, 2, 5, 4]⟩ = .ok false ∧
    vEquals (⟨[2, 2], [1, 2, 3, 4]⟩ : Tensor Int) ⟨[4], [1, 2, 3, 4]⟩ = .err ∧
    (⟨[2, 2], [1, 2, 3, 4]⟩ : Tensor Int).WF := by decide

/-! ### `ℝ`: the scalar comparison is `|x - y| ≤ 1e-240` -/

theorem countLaws_real : CountLaws ℝ where
  add_ofNat m n := by
    show (m : ℝ) + (n : ℝ) = ((m + n : ℕ) : ℝ)
    exact (Nat.cast_add m n).symm
  le_ofNat m n := by
    show decide ((m : ℝ) ≤ (n : ℝ)) = true ↔ m ≤ n
    rw [decide_eq_true_eq]; exact Nat.cast_le

theorem near_real (x y : ℝ) : Scalar.near x y = decide (|x - y| ≤ 1 / (10 : ℝ) ^ 240) := by
  show decide (|x - y| ≤ ((1 : ℕ) : ℝ) / (10 : ℝ) ^ 240) = _
  rw [Nat.cast_one]

/-- over `ℝ`: `Equals` is true exactly when all positions are within the model's threshold `1e-240` -/
theorem equals_iff_real (a b : Tensor ℝ) (ha : a.WF) (hb : b.WF) (hd : a.dims = b.dims) :
    vEquals a b = .ok true ↔
      ∀ (i : Nat) x y, a.data[i]? = some x → b.data[i]? = some y → |x - y| ≤ 1 / (10 : ℝ) ^ 240 := by
  rw [equals_iff countLaws_real a b ha hb hd]
  constructor
  · intro h i x y hx hy
    have := h i x y hx hy
    rw [near_real, decide_eq_true_eq] at this; exact this
  · intro h i x y hx hy
    rw [near_real, decide_eq_true_eq]; exact h i x y hx hy

/-- over `ℝ`: equal tensors are `Equals` -/
theorem equals_real_of_eq (a : Tensor ℝ) (ha : a.WF) : vEquals a a = .ok true := by
  rw [equals_iff_real a a ha ha rfl]
  intro i x y hx hy
  rw [hx] at hy; injection hy with hy
  rw [hy, sub_self, abs_zero]
  positivity

/-- `equals_iff_real_partial`: the reading "`Equals` is true iff `a.data = b.data`" is FALSE over `ℝ` for the
    model as written (and for the Go code: `float64EqualityThreshold = 1e-240`): only the direction
    `equals_real_of_eq` holds. Counterexample: `[0]` and `[1e-240]` are `Equals` yet differ. (Over `Int` the
    threshold literal truncates to 0 and the comparison is equality: `equals_iff_int`.) -/
theorem equals_iff_real_partial :
    ∃ a b : Tensor ℝ, a.WF ∧ b.WF ∧ a.dims = b.dims ∧ vEquals a b = .ok true ∧ a.data ≠ b.data := by
  have hc : (0 : ℝ) < 1 / (10 : ℝ) ^ 240 := by positivity
  refine ⟨⟨[1], [0]⟩, ⟨[1], [1 / (10 : ℝ) ^ 240]⟩, by decide, ⟨rfl, by decide⟩, rfl, ?_, ?_⟩
  · rw [equals_iff_real ⟨[1], [0]⟩ ⟨[1], [1 / (10 : ℝ) ^ 240]⟩ (by decide) ⟨rfl, by decide⟩ rfl]
    intro i x y hx hy
    cases i with
    | zero =>
      simp only [List.getElem?_cons_zero, Option.some.injEq] at hx hy
      rw [← hx, ← hy, zero_sub, abs_neg, abs_of_pos hc]
    | succ i => simp at hx
  · intro h
    simp only [List.cons.injEq, and_true] at h
    exact absurd h (ne_of_lt hc)

end C03x
end Qeep
