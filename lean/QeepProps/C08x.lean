import QeepProofs.Dag
import QeepProps.C08
/-!
# C08 (extension) — the tracking flags of the two-operand and n-operand public operations

`QeepProps.C08` characterises the three-way head `mkCtx` and the one-operand operations. Here: Patch, Concat,
ElMax / ElMin, Add / Sub / Mul / Div, Dot and MatMul, for every heap.

* Patch, Concat, ElMax / ElMin attach `mkCtx H operands …` directly.
* Add / Sub / Mul / Div / Dot / MatMul first send BOTH operands through the public `Broadcast`; the operands of the result
  are the two intermediate nodes `a'`, `b'`. Flags of an intermediate node: tracked ⇔ (operand tracked ∧ operand not
  spent), spent ⇔ operand spent (`bcast_flags`). Chaining these through the second `mkCtx` gives, for the result,

      tracked ⇔ (a tracked ∨ b tracked) ∧ a not spent ∧ b not spent          spent ⇔ a spent ∨ b spent

  i.e. the naive statement of the property IS true for the model, in every corner of the truth table (in particular
  "a tracked and clean, b spent" gives an untracked, spent result with no back edge). The only side condition the proofs
  use is that the second operand exists (`b < H.size`, true of every public call — `Reach.arith` etc.): the first
  `Broadcast` allocates a node, so for a dangling id `b = H.size` the intermediate fact "flags of `b'` = flags of `b` in
  `H`" (`pair_flags`) would be about the wrong node. `a < H.size` is not needed.
-/
set_option linter.unusedSimpArgs false
set_option linter.unusedSectionVars false
set_option linter.unusedVariables false

namespace Qeep
namespace C08x

variable {α : Type}

/-! ### Bool-valued form of the head, for one and two operands -/

/-- flags of `mkCtx` with one operand, as Bool equations -/
theorem mkCtx_one_flags (H : Heap α) (x : Nat) (edges : List (Edge α)) :
    (mkCtx H [x] edges).tracked = (H.tracked x && !H.dirty x) ∧ (mkCtx H [x] edges).dirty = H.dirty x := by
  unfold mkCtx
  cases hd : H.dirty x <;> cases ht : H.tracked x <;>
    simp [hd, ht, List.any, List.all, dirtyCtx, freshCtx]

/-- flags of `mkCtx` with two operands, as Bool equations -/
theorem mkCtx_two_flags (H : Heap α) (x p : Nat) (edges : List (Edge α)) :
    (mkCtx H [x, p] edges).tracked = ((H.tracked x || H.tracked p) && !H.dirty x && !H.dirty p) ∧
    (mkCtx H [x, p] edges).dirty = (H.dirty x || H.dirty p) := by
  unfold mkCtx
  cases hd : H.dirty x <;> cases hd' : H.dirty p <;> cases ht : H.tracked x <;> cases ht' : H.tracked p <;>
    simp [hd, hd', ht, ht', List.any, List.all, dirtyCtx, freshCtx]

/-- the whole context of a two-operand head: three cases -/
theorem mkCtx_two_cases (H : Heap α) (x p : Nat) (edges : List (Edge α)) :
    mkCtx H [x, p] edges =
      if (H.dirty x || H.dirty p) = true then dirtyCtx
      else if (H.tracked x || H.tracked p) = true then { tracked := true, edges := edges }
      else freshCtx false := by
  unfold mkCtx
  cases hd : H.dirty x <;> cases hd' : H.dirty p <;> cases ht : H.tracked x <;> cases ht' : H.tracked p <;>
    simp [hd, hd', ht, ht', List.any, List.all, dirtyCtx, freshCtx]

/-- Bool equations → the `iff` form used by `C08.mkCtx_tracked_iff` / `C08.mkCtx_dirty_iff` -/
theorem flags_iff {t d ta tb da db : Bool} (ht : t = ((ta || tb) && !da && !db)) (hd : d = (da || db)) :
    (t = true ↔ (ta = true ∨ tb = true) ∧ da = false ∧ db = false) ∧ (d = true ↔ da = true ∨ db = true) := by
  subst ht hd
  cases ta <;> cases tb <;> cases da <;> cases db <;> decide

/-- a context `mkCtx H [x, p] edges` read through `Heap.tracked` / `Heap.dirty` -/
theorem two_flags_of_ctx {H H' : Heap α} {x p r : Nat} {edges : List (Edge α)} (hc : H'.ctx r = mkCtx H [x, p] edges) :
    (H'.tracked r = true ↔ (H.tracked x = true ∨ H.tracked p = true) ∧ H.dirty x = false ∧ H.dirty p = false) ∧
    (H'.dirty r = true ↔ H.dirty x = true ∨ H.dirty p = true) := by
  have h := mkCtx_two_flags H x p edges
  apply flags_iff
  · show (H'.ctx r).tracked = _; rw [hc]; exact h.1
  · show (H'.ctx r).dirty = _; rw [hc]; exact h.2

section
variable [Scalar α]

/-! ### Patch -/

/-- the context `Patch` attaches -/
theorem patch_ctx (x : Nat) (index : List IRange) (p : Nat) (H H' : Heap α) (r : Nat)
    (h : hPatch x index p H = .ok (r, H')) :
    r = H.size ∧ H'.ctx r = mkCtx H [x, p] [⟨x, .patchX p index⟩, ⟨p, .patchP p index⟩] ∧ Extends H H' := by
  unfold hPatch at h
  obtain ⟨H0, H1, g0, k1⟩ := bind_ok h
  obtain ⟨e0, e0'⟩ := getHeap_ok g0
  rw [e0, e0'] at k1
  obtain ⟨t, H2, g1, k2⟩ := bind_ok k1
  obtain ⟨_, e1⟩ := liftOut_ok g1
  rw [e1] at k2
  obtain ⟨hr, _, hc, hx⟩ := alloc_ok k2
  exact ⟨hr, hc, hx⟩

/-- **Patch**: the result is tracked exactly when the target or the source is tracked and neither is spent;
    it is spent exactly when one of them is. Every heap, every index, no side condition. -/
theorem patch_tracked_iff (x : Nat) (index : List IRange) (p : Nat) (H H' : Heap α) (r : Nat)
    (h : hPatch x index p H = .ok (r, H')) :
    (H'.tracked r = true ↔ (H.tracked x = true ∨ H.tracked p = true) ∧ H.dirty x = false ∧ H.dirty p = false) ∧
    (H'.dirty r = true ↔ H.dirty x = true ∨ H.dirty p = true) :=
  two_flags_of_ctx (patch_ctx x index p H H' r h).2.1

/-! ### ElMax / ElMin (the two comparisons that do attach a rule) -/

theorem elext_ctx (c : Cmp) (hc : c = .elmax ∨ c = .elmin) (a b : Nat) (H H' : Heap α) (r : Nat)
    (h : hCmp c a b H = .ok (r, H')) :
    r = H.size ∧ H'.ctx r = mkCtx H [a, b] [⟨a, .elext H.size a b⟩, ⟨b, .elext H.size b a⟩] ∧ Extends H H' := by
  unfold hCmp at h
  obtain ⟨H0, H1, g0, k1⟩ := bind_ok h
  obtain ⟨e0, e0'⟩ := getHeap_ok g0
  rw [e0, e0'] at k1
  obtain ⟨t, H2, g1, k2⟩ := bind_ok k1
  obtain ⟨_, e1⟩ := liftOut_ok g1
  rw [e1] at k2
  rcases hc with rfl | rfl
  · obtain ⟨hr, _, hcx, hx⟩ := alloc_ok k2
    exact ⟨hr, hcx, hx⟩
  · obtain ⟨hr, _, hcx, hx⟩ := alloc_ok k2
    exact ⟨hr, hcx, hx⟩

/-- **ElMax / ElMin** follow the two-operand rule (unlike Eq … Le, which are always untracked: `C08.cmp_untracked`) -/
theorem elext_tracked_iff (c : Cmp) (hc : c = .elmax ∨ c = .elmin) (a b : Nat) (H H' : Heap α) (r : Nat)
    (h : hCmp c a b H = .ok (r, H')) :
    (H'.tracked r = true ↔ (H.tracked a = true ∨ H.tracked b = true) ∧ H.dirty a = false ∧ H.dirty b = false) ∧
    (H'.dirty r = true ↔ H.dirty a = true ∨ H.dirty b = true) :=
  two_flags_of_ctx (elext_ctx c hc a b H H' r h).2.1

/-! ### Concat -/

/-- the context `Concat` attaches -/
theorem concat_ctx (xs : List Nat) (dim : Int) (H H' : Heap α) (r : Nat) (h : hConcat xs dim H = .ok (r, H')) :
    r = H.size ∧ H'.ctx r = mkCtx H xs (concatEdges H dim.toNat xs 0) ∧ Extends H H' := by
  unfold hConcat at h
  obtain ⟨H0, H1, g0, k1⟩ := bind_ok h
  obtain ⟨e0, e0'⟩ := getHeap_ok g0
  rw [e0, e0'] at k1
  obtain ⟨t, H2, g1, k2⟩ := bind_ok k1
  obtain ⟨_, e1⟩ := liftOut_ok g1
  rw [e1] at k2
  obtain ⟨hr, _, hc, hx⟩ := alloc_ok k2
  exact ⟨hr, hc, hx⟩

/-- **Concat**: tracked exactly when some operand is tracked and no operand is spent; spent exactly when some
    operand is. Every heap, every operand list, every `dim`. -/
theorem concat_tracked_iff (xs : List Nat) (dim : Int) (H H' : Heap α) (r : Nat) (h : hConcat xs dim H = .ok (r, H')) :
    (H'.tracked r = true ↔ (∃ n ∈ xs, H.tracked n = true) ∧ (∀ n ∈ xs, H.dirty n = false)) ∧
    (H'.dirty r = true ↔ ∃ n ∈ xs, H.dirty n = true) := by
  obtain ⟨_, hc, _⟩ := concat_ctx xs dim H H' r h
  constructor
  · show (H'.ctx r).tracked = true ↔ _
    rw [hc]; exact C08.mkCtx_tracked_iff H xs _
  · show (H'.ctx r).dirty = true ↔ _
    rw [hc]; exact C08.mkCtx_dirty_iff H xs _

/-! ### the implicit `Broadcast` of each operand -/

/-- flags of a `Broadcast` result (any one-operand result has the same): tracked ⇔ operand tracked and not spent,
    spent ⇔ operand spent — as Bool equations -/
theorem bcast_flags {x : Nat} {s : List Int} {H H' : Heap α} {r : Nat} (h : hBroadcast x s H = .ok (r, H')) :
    r = H.size ∧ H'.ctx r = mkCtx H [x] [⟨x, .bcastX x r⟩] ∧ Extends H H' ∧
    H'.tracked r = (H.tracked x && !H.dirty x) ∧ H'.dirty r = H.dirty x := by
  unfold hBroadcast at h
  obtain ⟨Hx, Hx', gx, kx⟩ := bind_ok h
  obtain ⟨ex, ex'⟩ := getHeap_ok gx
  rw [ex, ex'] at kx
  obtain ⟨er, ec, hx⟩ := C08.op1_ctx x _ _ H H' r kx
  have hf := mkCtx_one_flags H x [⟨x, Rule.bcastX x H.size⟩]
  refine ⟨er, by rw [ec, er], hx, ?_, ?_⟩
  · show (H'.ctx r).tracked = _; rw [ec]; exact hf.1
  · show (H'.ctx r).dirty = _; rw [ec]; exact hf.2

/-- both broadcasting helpers (`hBroadcastPair`, `hBroadcastPairMM`): the flags of the two intermediate nodes in
    the heap the result is built in -/
theorem pair_flags {a b : Nat} {s1 s2 : Heap α → List Int} {H H1 : Heap α} {a' b' : Nat} (hb : b < H.size)
    (h : (do let H ← getHeap; let a' ← hBroadcast a (s1 H); let b' ← hBroadcast b (s2 H); pure (a', b') : HM α (Nat × Nat)) H
        = .ok ((a', b'), H1)) :
    H1.tracked a' = (H.tracked a && !H.dirty a) ∧ H1.dirty a' = H.dirty a ∧
    H1.tracked b' = (H.tracked b && !H.dirty b) ∧ H1.dirty b' = H.dirty b ∧
    Extends H H1 ∧ a' = H.size ∧ b' = H.size + 1 := by
  obtain ⟨H0, H0', g0, k1⟩ := bind_ok h
  obtain ⟨e0, e0'⟩ := getHeap_ok g0
  rw [e0, e0'] at k1
  obtain ⟨a1, Ha, g1, k2⟩ := bind_ok k1
  obtain ⟨b1, Hb, g2, k3⟩ := bind_ok k2
  have hp : (pure (a1, b1) : HM α (Nat × Nat)) Hb = .ok ((a1, b1), Hb) := rfl
  rw [hp] at k3
  injection k3 with k3
  injection k3 with e1 e2
  injection e1 with ea eb
  subst ea eb e2
  obtain ⟨ra, _, xa, ta, da⟩ := bcast_flags g1
  obtain ⟨rb, _, xb, tb, db⟩ := bcast_flags g2
  have hlt : a1 < Ha.size := alloc_size_lt g1
  have ca : Hb.ctx a1 = Ha.ctx a1 := xb.ctx hlt
  have cb : Ha.ctx b = H.ctx b := xa.ctx hb
  have hsz : Ha.size = H.size + 1 := by
    unfold hBroadcast at g1
    obtain ⟨Hx, Hx', gx, kx⟩ := bind_ok g1
    obtain ⟨ex, ex'⟩ := getHeap_ok gx
    rw [ex, ex'] at kx
    unfold hOp1 at kx
    obtain ⟨t, Hy, hy1, hy2⟩ := bind_ok kx
    obtain ⟨_, ey⟩ := liftOut_ok hy1
    rw [ey] at hy2
    obtain ⟨Hz, Hz', hz1, hz2⟩ := bind_ok hy2
    obtain ⟨ez, ez'⟩ := getHeap_ok hz1
    rw [ez, ez'] at hz2
    exact alloc_grows hz2
  refine ⟨?_, ?_, ?_, ?_, xa.trans xb, ra, by rw [rb, hsz]⟩
  · show (Hb.ctx a1).tracked = _; rw [ca]; exact ta
  · show (Hb.ctx a1).dirty = _; rw [ca]; exact da
  · rw [tb]; show ((Ha.ctx b).tracked && !(Ha.ctx b).dirty) = _; rw [cb]; rfl
  · rw [db]; show (Ha.ctx b).dirty = _; rw [cb]; rfl

/-- chaining: a result whose context is `mkCtx H1 [a', b'] edges`, with `a'`, `b'` the two intermediate nodes -/
theorem chained_flags {H H1 H' : Heap α} {a b a' b' r : Nat} {edges : List (Edge α)}
    (ta : H1.tracked a' = (H.tracked a && !H.dirty a)) (da : H1.dirty a' = H.dirty a)
    (tb : H1.tracked b' = (H.tracked b && !H.dirty b)) (db : H1.dirty b' = H.dirty b)
    (cr : H'.ctx r = mkCtx H1 [a', b'] edges) :
    ((H'.tracked r = true ↔ (H.tracked a = true ∨ H.tracked b = true) ∧ H.dirty a = false ∧ H.dirty b = false) ∧
     (H'.dirty r = true ↔ H.dirty a = true ∨ H.dirty b = true)) ∧
    H'.ctx r = (if (H.dirty a || H.dirty b) = true then dirtyCtx
      else if (H.tracked a || H.tracked b) = true then { tracked := true, edges := edges }
      else freshCtx false) := by
  have hf := mkCtx_two_flags H1 a' b' edges
  have hc := mkCtx_two_cases H1 a' b' edges
  rw [ta, da, tb, db] at hf hc
  constructor
  · apply flags_iff
    · show (H'.ctx r).tracked = _; rw [cr, hf.1]
      cases H.tracked a <;> cases H.tracked b <;> cases H.dirty a <;> cases H.dirty b <;> rfl
    · show (H'.ctx r).dirty = _; rw [cr, hf.2]
  · rw [cr, hc]
    cases H.tracked a <;> cases H.tracked b <;> cases H.dirty a <;> cases H.dirty b <;> rfl

/-! ### Add / Sub / Mul / Div -/

/-- the back edges of an arithmetic result, when it has any -/
def arithEdges (o : Arith) (a' b' : Nat) : List (Edge α) :=
  match o with
  | .add => [⟨a', .idG⟩, ⟨b', .idG⟩]
  | .sub => [⟨a', .idG⟩, ⟨b', .negG⟩]
  | .mul => [⟨a', .mulG b'⟩, ⟨b', .mulG a'⟩]
  | .div => [⟨a', .divA b'⟩, ⟨b', .divB a' b'⟩]

/-- **the exact context of an arithmetic result**, in terms of the flags of the ORIGINAL operands: spent if either is
    spent; otherwise tracked, with two back edges to the two `Broadcast` nodes `H.size`, `H.size + 1`, if either is
    tracked; otherwise a fresh untracked leaf -/
theorem arith_ctx (o : Arith) (a b : Nat) (H H' : Heap α) (r : Nat) (hb : b < H.size)
    (h : hArith o a b H = .ok (r, H')) :
    ((H'.tracked r = true ↔ (H.tracked a = true ∨ H.tracked b = true) ∧ H.dirty a = false ∧ H.dirty b = false) ∧
     (H'.dirty r = true ↔ H.dirty a = true ∨ H.dirty b = true)) ∧
    H'.ctx r = (if (H.dirty a || H.dirty b) = true then dirtyCtx
      else if (H.tracked a || H.tracked b) = true then { tracked := true, edges := arithEdges o H.size (H.size + 1) }
      else freshCtx false) := by
  unfold hArith at h
  obtain ⟨p, H1, h1, h2⟩ := bind_ok h
  obtain ⟨a', b'⟩ := p
  obtain ⟨ta, da, tb, db, _, ea, eb⟩ :=
    pair_flags (s1 := fun H => (targetBroadcastDims (H.val a).dims (H.val b).dims).map Int.ofNat)
      (s2 := fun H => (targetBroadcastDims (H.val a).dims (H.val b).dims).map Int.ofNat) hb h1
  obtain ⟨H3, H3', g3, k4⟩ := bind_ok h2
  obtain ⟨e3, e3'⟩ := getHeap_ok g3
  rw [e3, e3'] at k4
  obtain ⟨t, H4, g4, k5⟩ := bind_ok k4
  obtain ⟨_, e4'⟩ := liftOut_ok g4
  rw [e4'] at k5
  obtain ⟨_, _, cr, _⟩ := alloc_ok k5
  have cr' : H'.ctx r = mkCtx H1 [a', b'] (arithEdges o H.size (H.size + 1)) := by
    have he : (arithEdges o H.size (H.size + 1) : List (Edge α)) = arithEdges o a' b' := by rw [ea, eb]
    rw [cr, he]; cases o <;> rfl
  exact chained_flags ta da tb db cr'

/-- **Add / Sub / Mul / Div**: the result is tracked exactly when one of the two operands is tracked and neither is
    spent; it is spent exactly when one of them is. (The result's own operands are the two intermediate `Broadcast`
    nodes; the statement is about the operands the caller passed.) -/
theorem arith_tracked_iff (o : Arith) (a b : Nat) (H H' : Heap α) (r : Nat) (hb : b < H.size)
    (h : hArith o a b H = .ok (r, H')) :
    (H'.tracked r = true ↔ (H.tracked a = true ∨ H.tracked b = true) ∧ H.dirty a = false ∧ H.dirty b = false) ∧
    (H'.dirty r = true ↔ H.dirty a = true ∨ H.dirty b = true) :=
  (arith_ctx o a b H H' r hb h).1

/-! ### Dot -/

theorem dot_ctx (a b : Nat) (H H' : Heap α) (r : Nat) (hb : b < H.size) (h : hDot a b H = .ok (r, H')) :
    ((H'.tracked r = true ↔ (H.tracked a = true ∨ H.tracked b = true) ∧ H.dirty a = false ∧ H.dirty b = false) ∧
     (H'.dirty r = true ↔ H.dirty a = true ∨ H.dirty b = true)) ∧
    H'.ctx r = (if (H.dirty a || H.dirty b) = true then dirtyCtx
      else if (H.tracked a || H.tracked b) = true then
        { tracked := true, edges := [⟨H.size, .dotG (H.size + 1)⟩, ⟨H.size + 1, .dotG H.size⟩] }
      else freshCtx false) := by
  unfold hDot at h
  obtain ⟨H0, H0', g0, k1⟩ := bind_ok h
  obtain ⟨e0, e0'⟩ := getHeap_ok g0
  rw [e0, e0'] at k1
  split at k1
  · obtain ⟨p, H1, h1, h2⟩ := bind_ok k1
    obtain ⟨a', b'⟩ := p
    obtain ⟨ta, da, tb, db, _, ea, eb⟩ :=
      pair_flags (s1 := fun H => (targetBroadcastDims (H.val a).dims (H.val b).dims).map Int.ofNat)
        (s2 := fun H => (targetBroadcastDims (H.val a).dims (H.val b).dims).map Int.ofNat) hb h1
    obtain ⟨H3, H3', g3, k4⟩ := bind_ok h2
    obtain ⟨e3, e3'⟩ := getHeap_ok g3
    rw [e3, e3'] at k4
    obtain ⟨t, H4, g4, k5⟩ := bind_ok k4
    obtain ⟨_, e4'⟩ := liftOut_ok g4
    rw [e4'] at k5
    obtain ⟨_, _, cr, _⟩ := alloc_ok k5
    have cr' : H'.ctx r = mkCtx H1 [a', b'] [⟨H.size, .dotG (H.size + 1)⟩, ⟨H.size + 1, .dotG H.size⟩] := by
      rw [cr, ea, eb]
    exact chained_flags ta da tb db cr'
  · simp [liftOut, Out.bind] at k1

/-- **Dot**: tracked exactly when one of the operands is tracked and neither is spent; spent exactly when one is -/
theorem dot_tracked_iff (a b : Nat) (H H' : Heap α) (r : Nat) (hb : b < H.size) (h : hDot a b H = .ok (r, H')) :
    (H'.tracked r = true ↔ (H.tracked a = true ∨ H.tracked b = true) ∧ H.dirty a = false ∧ H.dirty b = false) ∧
    (H'.dirty r = true ↔ H.dirty a = true ∨ H.dirty b = true) :=
  (dot_ctx a b H H' r hb h).1

/-! ### MatMul -/

theorem matmul_ctx (a b : Nat) (H H' : Heap α) (r : Nat) (hb : b < H.size) (h : hMatMul a b H = .ok (r, H')) :
    ((H'.tracked r = true ↔ (H.tracked a = true ∨ H.tracked b = true) ∧ H.dirty a = false ∧ H.dirty b = false) ∧
     (H'.dirty r = true ↔ H.dirty a = true ∨ H.dirty b = true)) ∧
    H'.ctx r = (if (H.dirty a || H.dirty b) = true then dirtyCtx
      else if (H.tracked a || H.tracked b) = true then
        { tracked := true, edges := [⟨H.size, .matmulA (H.size + 1)⟩, ⟨H.size + 1, .matmulB H.size⟩] }
      else freshCtx false) := by
  unfold hMatMul at h
  obtain ⟨H0, H0', g0, k1⟩ := bind_ok h
  obtain ⟨e0, e0'⟩ := getHeap_ok g0
  rw [e0, e0'] at k1
  split at k1
  · obtain ⟨p, H1, h1, h2⟩ := bind_ok k1
    obtain ⟨a', b'⟩ := p
    obtain ⟨ta, da, tb, db, _, ea, eb⟩ := pair_flags
      (s1 := fun H => (matMulShape (targetBroadcastDims (H.val a).dims (H.val b).dims) (H.val a).dims).map Int.ofNat)
      (s2 := fun H => (matMulShape (targetBroadcastDims (H.val a).dims (H.val b).dims) (H.val b).dims).map Int.ofNat) hb h1
    obtain ⟨H3, H3', g3, k4⟩ := bind_ok h2
    obtain ⟨e3, e3'⟩ := getHeap_ok g3
    rw [e3, e3'] at k4
    obtain ⟨t, H4, g4, k5⟩ := bind_ok k4
    obtain ⟨_, e4'⟩ := liftOut_ok g4
    rw [e4'] at k5
    obtain ⟨_, _, cr, _⟩ := alloc_ok k5
    have cr' : H'.ctx r = mkCtx H1 [a', b'] [⟨H.size, .matmulA (H.size + 1)⟩, ⟨H.size + 1, .matmulB H.size⟩] := by
      rw [cr, ea, eb]
    exact chained_flags ta da tb db cr'
  · simp [liftOut, Out.bind] at k1

/-- **MatMul**: tracked exactly when one of the operands is tracked and neither is spent; spent exactly when one is -/
theorem matmul_tracked_iff (a b : Nat) (H H' : Heap α) (r : Nat) (hb : b < H.size) (h : hMatMul a b H = .ok (r, H')) :
    (H'.tracked r = true ↔ (H.tracked a = true ∨ H.tracked b = true) ∧ H.dirty a = false ∧ H.dirty b = false) ∧
    (H'.dirty r = true ↔ H.dirty a = true ∨ H.dirty b = true) :=
  (matmul_ctx a b H H' r hb h).1

/-! ### results computed from a spent operand are isolated -/

theorem mkCtx_spent (H : Heap α) (ops : List Nat) (edges : List (Edge α)) (hs : ∃ n ∈ ops, H.dirty n = true) :
    mkCtx H ops edges = dirtyCtx := by
  unfold mkCtx
  rw [if_pos (List.any_eq_true.mpr hs)]

/-- **If any operand is spent, the result of every two-operand / n-operand operation is the isolated spent context**
    (`dirtyCtx`: untracked, spent, no gradient, NO back edge — it cannot reach the old graph, and a back-propagation
    from it is a no-op by `C08.bp_untracked_root_noop`). -/
theorem two_operand_results_isolated_when_spent (H H' : Heap α) (r : Nat) :
    (∀ x index p, (H.dirty x = true ∨ H.dirty p = true) → hPatch x index p H = .ok (r, H') → H'.ctx r = dirtyCtx) ∧
    (∀ xs dim, (∃ n ∈ xs, H.dirty n = true) → hConcat xs dim H = .ok (r, H') → H'.ctx r = dirtyCtx) ∧
    (∀ c a b, (c = .elmax ∨ c = .elmin) → (H.dirty a = true ∨ H.dirty b = true) → hCmp c a b H = .ok (r, H') →
      H'.ctx r = dirtyCtx) ∧
    (∀ o a b, b < H.size → (H.dirty a = true ∨ H.dirty b = true) → hArith o a b H = .ok (r, H') → H'.ctx r = dirtyCtx) ∧
    (∀ a b, b < H.size → (H.dirty a = true ∨ H.dirty b = true) → hDot a b H = .ok (r, H') → H'.ctx r = dirtyCtx) ∧
    (∀ a b, b < H.size → (H.dirty a = true ∨ H.dirty b = true) → hMatMul a b H = .ok (r, H') → H'.ctx r = dirtyCtx) := by
  have two : ∀ {x p : Nat}, (H.dirty x = true ∨ H.dirty p = true) → ∃ n ∈ [x, p], H.dirty n = true := by
    intro x p hs
    rcases hs with hs | hs
    · exact ⟨x, by simp, hs⟩
    · exact ⟨p, by simp, hs⟩
  have orb : ∀ {a b : Nat}, (H.dirty a = true ∨ H.dirty b = true) → (H.dirty a || H.dirty b) = true := by
    intro a b hs
    rcases hs with hs | hs <;> simp [hs]
  refine ⟨?_, ?_, ?_, ?_, ?_, ?_⟩
  · intro x index p hs h
    rw [(patch_ctx x index p H H' r h).2.1]; exact mkCtx_spent _ _ _ (two hs)
  · intro xs dim hs h
    rw [(concat_ctx xs dim H H' r h).2.1]; exact mkCtx_spent _ _ _ hs
  · intro c a b hc hs h
    rw [(elext_ctx c hc a b H H' r h).2.1]; exact mkCtx_spent _ _ _ (two hs)
  · intro o a b hb hs h
    rw [(arith_ctx o a b H H' r hb h).2, if_pos (orb hs)]
  · intro a b hb hs h
    rw [(dot_ctx a b H H' r hb h).2, if_pos (orb hs)]
  · intro a b hb hs h
    rw [(matmul_ctx a b H H' r hb h).2, if_pos (orb hs)]

/-- the edge-level reading of the previous theorem for the arithmetic operations: no back edges, no gradient, untracked -/
theorem arith_no_edges_when_spent (o : Arith) (a b : Nat) (H H' : Heap α) (r : Nat) (hb : b < H.size)
    (hs : H.dirty a = true ∨ H.dirty b = true) (h : hArith o a b H = .ok (r, H')) :
    (H'.ctx r).edges = [] ∧ H'.tracked r = false ∧ H'.dirty r = true ∧ H'.grad r = none := by
  have := (two_operand_results_isolated_when_spent H H' r).2.2.2.1 o a b hb hs h
  unfold Heap.tracked Heap.dirty Heap.grad
  rw [this]
  exact ⟨rfl, rfl, rfl, rfl⟩

/-- a tracked arithmetic result has exactly two back edges, to the two `Broadcast` nodes, each of which has exactly
    the flags of its operand; the edge towards an untracked operand's broadcast is skipped by the walk (`succs`
    filters on `tracked`) -/
theorem arith_tracked_edges (o : Arith) (a b : Nat) (H H' : Heap α) (r : Nat) (hb : b < H.size)
    (h : hArith o a b H = .ok (r, H')) (ht : H'.tracked r = true) :
    (H'.ctx r).edges.map (·.target) = [H.size, H.size + 1] := by
  obtain ⟨⟨hti, _⟩, hc⟩ := arith_ctx o a b H H' r hb h
  obtain ⟨hor, hda, hdb⟩ := hti.mp ht
  have h1 : (H.dirty a || H.dirty b) = false := by simp [hda, hdb]
  have h2 : (H.tracked a || H.tracked b) = true := by
    rcases hor with h | h <;> simp [h]
  rw [hc, h1, h2]
  simp only [Bool.false_eq_true, if_false, if_true]
  cases o <;> rfl

end

/-! ### non-vacuity (kernel-checked on `Heap Int`) -/

/-- operand heap: 0 tracked & clean, 1 untracked & clean, 2 spent, 3 tracked & clean (a matrix) -/
def H0 : Heap Int :=
  #[⟨⟨[2], [1, 2]⟩, { tracked := true }⟩, ⟨⟨[2], [3, 4]⟩, {}⟩, ⟨⟨[2], [5, 6]⟩, { dirty := true }⟩,
    ⟨⟨[2, 2], [1, 0, 0, 1]⟩, { tracked := true }⟩]

/-- (tracked, spent, number of back edges) of the result of a heap computation started in `H0` -/
def probe (m : HM Int Nat) : Option (Bool × Bool × Nat) :=
  match m H0 with
  | .ok (r, H) => some (H.tracked r, H.dirty r, (H.ctx r).edges.length)
  | _ => none

/-- tracked ∘ untracked → tracked, two back edges; untracked ∘ untracked → untracked leaf;
    tracked ∘ spent → untracked, spent, no back edge (in both operand orders) -/
example : probe (hArith .mul 0 1) = some (true, false, 2) ∧ probe (hArith .add 1 1) = some (false, false, 0) ∧
    probe (hArith .sub 0 2) = some (false, true, 0) ∧ probe (hArith .div 2 0) = some (false, true, 0) := by decide

example : probe (hPatch 0 [] 1) = some (true, false, 2) ∧ probe (hPatch 1 [] 0) = some (true, false, 2) ∧
    probe (hPatch 0 [] 2) = some (false, true, 0) ∧ probe (hPatch 1 [] 1) = some (false, false, 0) := by decide

example : probe (hConcat [1, 0, 1] 0) = some (true, false, 3) ∧ probe (hConcat [1, 0, 2] 0) = some (false, true, 0) ∧
    probe (hConcat [1, 1] 0) = some (false, false, 0) := by decide

example : probe (hDot 0 1) = some (true, false, 2) ∧ probe (hDot 0 2) = some (false, true, 0) ∧
    probe (hMatMul 3 3) = some (true, false, 2) := by decide

example : probe (hCmp .elmax 1 0) = some (true, false, 2) ∧ probe (hCmp .elmin 0 2) = some (false, true, 0) ∧
    probe (hCmp .le 0 0) = some (false, false, 0) := by decide

/-- spent-ness produced by an actual back-propagation: y = a * b, back-propagate from y, then a + b is isolated -/
example :
    (match ((do let a ← hLeaf ⟨[2], [1, 2]⟩ true; let b ← hLeaf ⟨[2], [3, 4]⟩ false; hArith .mul a b) : HM Int Nat) #[] with
     | .ok (y, H) =>
       (match hArith .add 0 1 (backprop .sum H y).heap with
        | .ok (r, H') => some (H'.tracked r, H'.dirty r, (H'.ctx r).edges.length)
        | _ => none)
     | _ => none) = some (false, true, 0) := by decide

end C08x
end Qeep
