import QeepProofs.Calculus
import QeepProofs.Real
import QeepProofs.ValueOps
/-!
# C02 — each differentiable operation's backward rule is its vector-Jacobian product (element-wise family)

Proved over `ℝ` for the element-wise operations Scale, Pow, Exp, Log, Sin, Cos, Tan, Sinh, Cosh, Tanh and for
Add / Sub / Mul / Div on operands of equal shape, for every shape:

1. *value of the rule*: evaluating the Model's rule (`evalRule`, the body of the Go `gradFn`) on an upstream gradient
   `gy` of the operand's shape succeeds and returns, at every position, `gy_i · f'(x_i)` with the scalar factor `f'` of
   the table below;
2. *the factor is the derivative*: `HasDerivAt f (f' x) x` from Mathlib on the differentiability domain
   (`QeepProofs/Calculus.lean`), including Pow at base 0 with exponent 0 (the repaired rule: factor 0);
3. *lifting* (`vjp_of_rule`): hence the rule result at position `i` is the partial derivative with respect to `x_i`
   of the `gy`-weighted sum of the outputs — the vector-Jacobian product.

Not proved yet (correspondence only): the indexing / shape / reduction / Dot / MatMul / Concat / ElMax / ElMin rules.
-/
set_option linter.unusedSimpArgs false

namespace Qeep
namespace C02
open RealScalar

/-- rule bodies of the form `gy.Mul(T(x))` with `T` element-wise: the result is `gy_i * T(x_i)` -/
theorem mul_map_rule (gy x : Tensor ℝ) (T : ℝ → ℝ) (wg : gy.WF) (wx : x.WF) (hd : gy.dims = x.dims) :
    vArith .mul gy (x.map T) = .ok ⟨gy.dims, List.zipWith (fun g a => g * T a) gy.data x.data⟩ := by
  rw [vArith_same .mul gy (x.map T) wg (map_wf T x wx) (by simpa [Tensor.map] using hd)]
  simp only [Tensor.map, Arith.fn, List.zipWith_map_right]
  rfl

section rules
variable (bm : BMode) (H : Heap ℝ) (gy : Tensor ℝ) (x : Nat)
variable (wg : gy.WF) (wx : (H.val x).WF) (hd : gy.dims = (H.val x).dims)
include wg wx hd

theorem rule_sin : evalRule bm H gy (.sinX x) = .ok ⟨gy.dims, List.zipWith (fun g a => g * Real.cos a) gy.data (H.val x).data⟩ := by
  simpa [evalRule, vUnary, Unary.fn] using mul_map_rule gy (H.val x) Real.cos wg wx hd

theorem rule_cos : evalRule bm H gy (.cosX x) = .ok ⟨gy.dims, List.zipWith (fun g a => g * (-1 * Real.sin a)) gy.data (H.val x).data⟩ := by
  have := mul_map_rule gy (H.val x) (fun a => -1 * Real.sin a) wg wx hd
  simpa [evalRule, vUnary, vScale, Unary.fn, Tensor.map, List.map_map, Function.comp_def] using this

theorem rule_sinh : evalRule bm H gy (.sinhX x) = .ok ⟨gy.dims, List.zipWith (fun g a => g * Real.cosh a) gy.data (H.val x).data⟩ := by
  simpa [evalRule, vUnary, Unary.fn] using mul_map_rule gy (H.val x) Real.cosh wg wx hd

theorem rule_cosh : evalRule bm H gy (.coshX x) = .ok ⟨gy.dims, List.zipWith (fun g a => g * Real.sinh a) gy.data (H.val x).data⟩ := by
  simpa [evalRule, vUnary, Unary.fn] using mul_map_rule gy (H.val x) Real.sinh wg wx hd

theorem rule_tan : evalRule bm H gy (.tanX x) = .ok ⟨gy.dims, List.zipWith (fun g a => g * (Real.cos a) ^ (-2 : ℝ)) gy.data (H.val x).data⟩ := by
  have := mul_map_rule gy (H.val x) (fun a => (Real.cos a) ^ (-2 : ℝ)) wg wx hd
  have e : vPow (vUnary .cos (H.val x)) (Scalar.neg Scalar.two) = (H.val x).map (fun a => (Real.cos a) ^ (-2 : ℝ)) := by
    simp only [vPow, vUnary, Tensor.map, Unary.fn, List.map_map, cos_fn]
    congr 1
  simp only [evalRule, e]; exact this

theorem rule_tanh : evalRule bm H gy (.tanhX x) = .ok ⟨gy.dims, List.zipWith (fun g a => g * (Real.cosh a) ^ (-2 : ℝ)) gy.data (H.val x).data⟩ := by
  have := mul_map_rule gy (H.val x) (fun a => (Real.cosh a) ^ (-2 : ℝ)) wg wx hd
  have e : vPow (vUnary .cosh (H.val x)) (Scalar.neg Scalar.two) = (H.val x).map (fun a => (Real.cosh a) ^ (-2 : ℝ)) := by
    simp only [vPow, vUnary, Tensor.map, Unary.fn, List.map_map, cosh_fn]
    congr 1
  simp only [evalRule, e]; exact this

/-- Exp: the rule multiplies by the forward result `y = exp x` -/
theorem rule_exp (y : Nat) (hy : H.val y = (H.val x).map Real.exp) :
    evalRule bm H gy (.expX y) = .ok ⟨gy.dims, List.zipWith (fun g a => g * Real.exp a) gy.data (H.val x).data⟩ := by
  have := mul_map_rule gy (H.val x) Real.exp wg wx hd
  simpa [evalRule, hy] using this

/-- Log: `gy / x` -/
theorem rule_log : evalRule bm H gy (.logX x) = .ok ⟨gy.dims, List.zipWith (fun g a => g * (1 / a)) gy.data (H.val x).data⟩ := by
  simp only [evalRule]
  rw [vArith_same .div gy (H.val x) wg wx hd]
  simp only [Arith.fn, div_fn]
  congr 2
  have : (fun (a b : ℝ) => a / b) = fun g a => g * (1 / a) := by funext g a; simp [div_eq_mul_inv]
  rw [this]

/-- Pow: `gy · a·x^(a−1)`, and exactly zero for exponent 0 (also at base 0) -/
theorem rule_pow (a : ℝ) :
    evalRule bm H gy (.powX x a) = .ok ⟨gy.dims, List.zipWith (fun g v => g * (if a = 0 then 0 else a * v ^ (a - 1))) gy.data (H.val x).data⟩ := by
  by_cases ha : a = 0
  · subst ha
    have hz : isZero (0 : ℝ) = true := by simp [isZero]
    simp only [evalRule, hz, if_true, pure, vScale, Tensor.map]
    congr 1
    rw [← hd]
    congr 1
    have hl : gy.data.length = (H.val x).data.length := by rw [wg.1, wx.1, hd]
    apply List.ext_getElem
    · simp [hl]
    · intro i h1 h2; simp
  · have hz : isZero a = false := by
      simp only [isZero, le_eq, zero_eq, Bool.and_eq_false_iff, decide_eq_false_iff_not]
      rcases lt_or_gt_of_ne ha with h | h
      · right; linarith
      · left; linarith
    have := mul_map_rule gy (H.val x) (fun v => a * v ^ (a - 1)) wg wx hd
    simpa [evalRule, hz, ha, vScale, vPow, Tensor.map, List.map_map, Function.comp_def] using this

end rules

/-- Scale: `a · gy` -/
theorem rule_scale (bm : BMode) (H : Heap ℝ) (gy : Tensor ℝ) (a : ℝ) :
    evalRule bm H gy (.scaleX a) = .ok ⟨gy.dims, gy.data.map (fun g => a * g)⟩ := by
  simp [evalRule, vScale, Tensor.map, pure]

/-- Add (both operands) and Sub (first): the upstream gradient itself; Sub (second): its negation -/
theorem rule_add_sub (bm : BMode) (H : Heap ℝ) (gy : Tensor ℝ) :
    evalRule bm H gy .idG = .ok gy ∧ evalRule bm H gy .negG = .ok ⟨gy.dims, gy.data.map (fun g => -1 * g)⟩ := by
  constructor <;> simp [evalRule, vScale, Tensor.map, pure]

/-- Mul: `gy · other`; Div: `gy / b` towards the dividend and `gy · (−a / b²)` towards the divisor -/
theorem rule_mul_div (bm : BMode) (H : Heap ℝ) (gy : Tensor ℝ) (a b : Nat) (wg : gy.WF) (wa : (H.val a).WF) (wb : (H.val b).WF)
    (ha : gy.dims = (H.val a).dims) (hb : gy.dims = (H.val b).dims) :
    evalRule bm H gy (.mulG b) = .ok ⟨gy.dims, List.zipWith (fun g v => g * v) gy.data (H.val b).data⟩ ∧
    evalRule bm H gy (.divA b) = .ok ⟨gy.dims, List.zipWith (fun g v => g / v) gy.data (H.val b).data⟩ ∧
    evalRule bm H gy (.divB a b) = .ok ⟨gy.dims,
      List.zipWith (fun g p => g * p) gy.data (List.zipWith (fun u v => (-1 * u) / v ^ (2 : ℝ)) (H.val a).data (H.val b).data)⟩ := by
  refine ⟨?_, ?_, ?_⟩
  · simp only [evalRule]; rw [vArith_same .mul gy _ wg wb hb]; rfl
  · simp only [evalRule]; rw [vArith_same .div gy _ wg wb hb]; rfl
  · simp only [evalRule, bind, Out.bind]
    have w1 : (vScale (H.val a) (Scalar.neg Scalar.one)).WF := map_wf _ _ wa
    have w2 : (vPow (H.val b) Scalar.two).WF := map_wf _ _ wb
    have hd12 : (vScale (H.val a) (Scalar.neg Scalar.one)).dims = (vPow (H.val b) Scalar.two).dims := by
      simp [vScale, vPow, Tensor.map, ← ha, ← hb]
    rw [vArith_same .div _ _ w1 w2 hd12]
    simp only []
    have w3 : (⟨(vScale (H.val a) (Scalar.neg Scalar.one)).dims,
        List.zipWith Arith.div.fn (vScale (H.val a) (Scalar.neg Scalar.one)).data (vPow (H.val b) Scalar.two).data⟩ : Tensor ℝ).WF :=
      zip_wf _ _ _ w1 w2 hd12
    rw [vArith_same .mul gy _ wg w3 (by simp [vScale, Tensor.map, ha])]
    simp [vScale, vPow, Tensor.map, Arith.fn, List.zipWith_map_left, List.zipWith_map_right]

/-- **Lifting to the vector-Jacobian product.** If a rule delivers `gy_i · f'(x_i)` at every position and `f'` is the
    derivative of `f` at every `x_i`, then the delivered value at `i` is the partial derivative, with respect to
    `x_i`, of the `gy`-weighted sum of the operation's outputs. -/
theorem vjp_of_rule {n : ℕ} (f f' : ℝ → ℝ) (x g : Fin n → ℝ) (hf : ∀ i, HasDerivAt f (f' (x i)) (x i)) (i : Fin n) :
    HasDerivAt (fun t => ∑ k, g k * f (Function.update x i t k)) (g i * f' (x i)) (x i) :=
  hasDerivAt_weighted_map f f' x g i (hf i)

/-- the table: each rule's factor is the derivative of the forward function on its differentiability domain -/
theorem derivative_table (x : ℝ) :
    HasDerivAt Real.exp (Real.exp x) x ∧ (x ≠ 0 → HasDerivAt Real.log (1 / x) x) ∧
    HasDerivAt Real.sin (Real.cos x) x ∧ HasDerivAt Real.cos (-1 * Real.sin x) x ∧
    (Real.cos x ≠ 0 → HasDerivAt Real.tan ((Real.cos x) ^ (-2 : ℝ)) x) ∧
    HasDerivAt Real.sinh (Real.cosh x) x ∧ HasDerivAt Real.cosh (Real.sinh x) x ∧
    HasDerivAt Real.tanh ((Real.cosh x) ^ (-2 : ℝ)) x ∧
    (∀ a : ℝ, (x ≠ 0 ∨ 1 ≤ a) → HasDerivAt (fun y => y ^ a) (a * x ^ (a - 1)) x) ∧
    HasDerivAt (fun y : ℝ => y ^ (0 : ℝ)) 0 x :=
  ⟨d_exp x, d_log x, d_sin x, d_cos x, d_tan x, d_sinh x, d_cosh x, d_tanh x, fun a h => d_pow x a h, d_pow_zero x⟩

end C02
end Qeep
