import QeepProps.C13x
import QeepProps.C15z
/-!
# C13 — what `BackPropagate` stores on the prediction of a loss (end to end)

`mse_backprop`: any reachable heap, a tracked unspent prediction `p` (leaf or not) and an untracked unspent target `t` of
length `n`; run `MSE.Compute(p, t)` and `tensor.BackPropagate(loss)`. If the back-propagation returns without error,
`p.Gradient()` is exactly `2(pᵢ − tᵢ)/n` at every position. The walk is the real one (`C01w.grad_root` / `grad_single`
over the five tensors `lossCompute .mse` allocates); whatever `p` was computed from is walked as well and does not matter.
-/
set_option linter.unusedSimpArgs false
set_option linter.unusedSectionVars false
set_option linter.unusedVariables false

namespace Qeep
namespace C13z
open RealScalar C13x C15x C15z C01 C01x C01z C01w C20
open C12x (wf_map)

theorem st_facts {H : Heap ℝ} {k : Nat} {v : Tensor ℝ} {es : List (Edge ℝ)} (h : St H k v true es) :
    H.tracked k = true ∧ (H.ctx k).edges = es := ⟨h.tracked, h.edges rfl⟩

theorem no_edge_to' (H : Heap ℝ) (v n : Nat) (es : List (Edge ℝ)) (hc : (H.ctx v).edges = es)
    (h : ∀ e ∈ es, e.target ≠ n) : ∀ e ∈ (H.ctx v).edges, e.target ≠ n := by
  rw [hc]; exact h

macro "edge_nz" c:term : tactic =>
  `(tactic| exact no_edge_to' _ _ _ _ $c (by simp [C13x.arithEdges] <;> omega))

/-- **MSE, end to end** (see the header) -/
theorem mse_backprop (bm : BMode) (H : Heap ℝ) (p t n : Nat) (hR : Reach bm H) (hp : p < H.size) (ht : t < H.size)
    (wp : (H.val p).WF) (wt : (H.val t).WF) (dp : (H.val p).dims = [n]) (dt : (H.val t).dims = [n])
    (hpt : H.tracked p = true) (hpc : H.dirty p = false) (htt : H.tracked t = false) (htc : H.dirty t = false) :
    ∃ r H', lossCompute Loss.mse (some p) (some t) H = .ok (r, H') ∧
      ((backprop bm H' r).status = .ok () →
        (backprop bm H' r).heap.grad p
          = some ⟨[n], List.zipWith (fun tv pv => 2 * (pv - tv) / (n : ℝ)) (H.val t).data (H.val p).data⟩) := by
  have hn : 0 < n := wp.2 n (by rw [dp]; simp)
  have lp : (H.val p).data.length = n := by rw [wp.1, dp]; simp [prod]
  have lt' : (H.val t).data.length = n := by rw [wt.1, dt]; simp [prod]
  have hZ : ((H.val t).data.zip (H.val p).data).length = prod [n] := by simp [prod, lp, lt']
  have hd : ∀ y ∈ [n], 0 < y := by simpa using hn
  have t0 : St H t ⟨[n], ((H.val t).data.zip (H.val p).data).map (fun z => z.1)⟩ false (H.ctx t).edges :=
    ⟨ht, by rw [List.map_fst_zip (by omega), ← dt], htc, htt, fun h => by cases h⟩
  have p0 : St H p ⟨[n], ((H.val t).data.zip (H.val p).data).map (fun z => z.2)⟩ true (H.ctx p).edges :=
    ⟨hp, by rw [List.map_snd_zip (by omega), ← dp], hpc, hpt, fun _ => rfl⟩
  -- d = t − p ; d2 = d² ; l = mean d2
  obtain ⟨H1, r1, e1, s1, ta1, pb1, d1⟩ := g_arith hZ hd .sub t0 p0
  rw [Bool.false_or] at d1
  obtain ⟨H2, r2, e2, s2, d2_2⟩ := g_pow d1 (Scalar.two : ℝ)
  have wd : (⟨[n], ((H.val t).data.zip (H.val p).data).map (fun z => Arith.sub.fn z.1 z.2)⟩ : Tensor ℝ).WF := wf_map hZ hd _
  have wd2 : (vPow (⟨[n], ((H.val t).data.zip (H.val p).data).map (fun z => Arith.sub.fn z.1 z.2)⟩ : Tensor ℝ) Scalar.two).WF :=
    map_wf _ _ wd
  obtain ⟨H3, r3, e3, s3, l3⟩ := g_along d2_2 .mean 0 _ (C12.vAlong_rank1 .mean _ n rfl wd2)
  have R1 : Reach bm H1 := Reach.arith hR ht hp r1
  have R2 : Reach bm H2 := Reach.pow R1 d1.lt r2
  have R3 : Reach bm H3 := Reach.along R2 d2_2.lt r3
  have hrule : alongRule (α := ℝ) .mean H1.size H2.size (0 : Int).toNat = .avgAlongX H1.size 0 := rfl
  rw [hrule] at l3
  have hrun : lossCompute Loss.mse (some p) (some t) H = .ok (H2.size, H3) := by
    unfold lossCompute
    rw [bind_run (show (getHeap : HM ℝ (Heap ℝ)) H = .ok (H, H) from rfl)]
    have hv : lossValid H Loss.mse (some p) (some t) = .ok (p, t) := by simp [lossValid, dp, dt]
    rw [bind_run (show (liftOut (lossValid H Loss.mse (some p) (some t)) : HM ℝ (Nat × Nat)) H = .ok ((p, t), H) by rw [hv]; rfl)]
    simp only []
    rw [bind_run r1, bind_run r2]
    exact r3
  refine ⟨H2.size, H3, hrun, ?_⟩
  intro hok
  -- identities: a' = N, b' = N+1, d = N+2, d2 = N+3, l = N+4
  have i1 : H1.size = H.size + 3 := s1
  have i2 : H2.size = H.size + 4 := by omega
  have i3 : H3.size = H.size + 5 := by omega
  rw [i1] at d2_2 l3
  rw [i2] at l3 hok ⊢
  have hdag := reach_dag R3
  have f23 : Extends H2 H3 := e3
  have f13 : Extends H1 H3 := e2.trans f23
  have f03 : Extends H H3 := e1.trans f13
  have Pp := p0.mono f03
  have Ppb := pb1.mono f13
  have Pd := d1.mono f13
  have Pd2 := d2_2.mono f23
  obtain ⟨tl, el⟩ := st_facts l3
  obtain ⟨td2, ed2⟩ := st_facts Pd2
  obtain ⟨td, ed⟩ := st_facts Pd
  obtain ⟨tb, eb⟩ := st_facts Ppb
  have tp : H3.tracked p = true := Pp.tracked
  have ta : H3.tracked H.size = false := (ta1.mono f13).tracked
  -- no gradients on the new tensors, none on p
  have hfresh := (fresh_lossCompute (α := ℝ) Loss.mse (some p) (some t) H _ _ hrun).2
  have gp : H3.grad p = none := by
    have := reach_clean_nograd hR p hpc
    simp only [Heap.grad, f03.ctx hp] at this ⊢; exact this
  obtain ⟨hroot, hcl, _, hnd⟩ := backwardOrder_spec H3 (H.size + 4) hdag tl
  have hM : ∀ v ∈ backwardOrder H3 (H.size + 4), v = H.size + 4 ∨ v = H.size + 3 ∨ v = H.size + 2 ∨ v = H.size + 1 ∨ v ≤ p := by
    apply order_subset H3 (H.size + 4)
    · left; rfl
    · intro u hu v hv
      have hvt : H3.tracked v = true := by
        unfold succs at hv; exact (List.mem_filter.mp hv).2
      obtain ⟨e, he, rfl⟩ := mem_succs_edge H3 u v hv
      rcases hu with rfl | rfl | rfl | rfl | hle
      · rw [el] at he; simp at he; subst he; simp
      · rw [ed2] at he; simp at he; subst he; simp
      · rw [ed] at he; simp [C13x.arithEdges] at he
        rcases he with rfl | rfl
        · simp at hvt; rw [ta] at hvt; cases hvt
        · simp
      · rw [eb] at he; simp at he; subst he; simp
      · have := hdag u e he
        right; right; right; right; omega
  have mem_of (u v : Nat) (hu : u ∈ backwardOrder H3 (H.size + 4)) (r' : Rule ℝ) (he : (⟨v, r'⟩ : Edge ℝ) ∈ (H3.ctx u).edges)
      (hv : H3.tracked v = true) : v ∈ backwardOrder H3 (H.size + 4) := by
    apply hcl u hu
    unfold succs
    exact List.mem_filter.mpr ⟨List.mem_map.mpr ⟨⟨v, r'⟩, he, rfl⟩, hv⟩
  have m4 := hroot
  have m3 := mem_of _ (H.size + 3) m4 (.avgAlongX (H.size + 3) 0) (by rw [el]; simp) td2
  have m2 := mem_of _ (H.size + 2) m3 (.powX (H.size + 2) Scalar.two) (by rw [ed2]; simp) td
  have m1 := mem_of _ (H.size + 1) m2 .negG (by rw [ed]; simp [C13x.arithEdges]) tb
  -- values seen by the rules
  let Hm := markDirty H3 (backwardOrder H3 (H.size + 4))
  have hv1 : ∀ k, Hm.val k = H3.val k := fun k => markDirty_val _ _ k
  let D : Tensor ℝ := ⟨[n], List.zipWith (fun tv pv => tv - pv) (H.val t).data (H.val p).data⟩
  have vD : Hm.val (H.size + 2) = D := by
    rw [hv1, Pd.val]
    simp only [D, Arith.fn, sub_eq]
    congr 1
    simp [List.zip, List.map_zipWith]
  have wD : D.WF := ⟨by simp [D, lt', lp, prod], fun d hd => by simp [D] at hd; subst hd; exact hn⟩
  have vD2 : (Hm.val (H.size + 3)).dims = [n] := by rw [hv1, Pd2.val]; rfl
  have vP : Hm.val p = H.val p := by rw [hv1, f03.val hp]
  have vB : (Hm.val (H.size + 1)).dims = (Hm.val p).dims := by rw [hv1, Ppb.val, vP, dp]
  -- the walk
  have wl : (H3.val (H.size + 4)).WF := by rw [l3.val]; exact ⟨by simp [prod], by simp⟩
  have f4 : (backprop bm H3 (H.size + 4)).heap.grad (H.size + 4) = some ⟨[], [1]⟩ := by
    have := grad_root bm H3 (H.size + 4) hdag tl hok (hfresh _ (by omega)) wl
    rw [l3.val] at this
    simpa [vPow, Tensor.map] using this
  let c1 : Tensor ℝ := ⟨[n], (List.replicate n (1 : ℝ)).map (fun g => (1 / (n : ℝ)) * g)⟩
  have wc1 : c1.WF := ⟨by simp [c1, prod], fun d hd => by simp [c1] at hd; subst hd; exact hn⟩
  have r4 : evalRule bm Hm (⟨[], [1]⟩ : Tensor ℝ) (.avgAlongX (H.size + 3) 0) = .ok c1 := by
    simp only [evalRule, vD2, bind, Out.bind, C13.reducerBroadcasted_scalar 1 n hn, pure, List.getD_cons_zero]
    simp [vScale, Tensor.map, c1]
  have f3 := grad_single bm H3 (H.size + 4) hdag tl hok (H.size + 3) (H.size + 4) m4 (by omega) (hfresh _ (by omega)) td2
    (.avgAlongX (H.size + 3) 0) (by rw [el]; simp)
    (by
      intro v hv hne
      rcases hM v hv with rfl | rfl | rfl | rfl | hle
      · exact absurd rfl hne
      · edge_nz ed2
      · edge_nz ed
      · edge_nz eb
      · intro e he; have := hdag v e he; omega)
    _ c1 f4 r4 [n] ⟨wc1, rfl⟩
  let c2 : Tensor ℝ := ⟨c1.dims, List.zipWith (fun g v => g * (2 * v ^ ((2 : ℝ) - 1))) c1.data D.data⟩
  have r3' : evalRule bm Hm c1 (.powX (H.size + 2) Scalar.two) = .ok c2 := by
    have := C02.rule_pow bm Hm c1 (H.size + 2) wc1 (by rw [vD]; exact wD) (by rw [vD]) 2
    rw [vD] at this
    simpa [two_eq] using this
  have wc2 : c2.WF := ⟨by simp [c2, c1, D, lt', lp, prod], fun d hd => by simp [c2, c1] at hd; subst hd; exact hn⟩
  have f2 := grad_single bm H3 (H.size + 4) hdag tl hok (H.size + 2) (H.size + 3) m3 (by omega) (hfresh _ (by omega)) td
    (.powX (H.size + 2) Scalar.two) (by rw [ed2]; simp)
    (by
      intro v hv hne
      rcases hM v hv with rfl | rfl | rfl | rfl | hle
      · edge_nz el
      · exact absurd rfl hne
      · edge_nz ed
      · edge_nz eb
      · intro e he; have := hdag v e he; omega)
    c1 c2 f3 r3' [n] ⟨wc2, rfl⟩
  let c3 : Tensor ℝ := ⟨c2.dims, c2.data.map (fun g => -1 * g)⟩
  have wc3 : c3.WF := ⟨by simp [c3, c2, c1, D, lt', lp, prod], fun d hd => by simp [c3, c2, c1] at hd; subst hd; exact hn⟩
  have f1 := grad_single bm H3 (H.size + 4) hdag tl hok (H.size + 1) (H.size + 2) m2 (by omega) (hfresh _ (by omega)) tb
    .negG (by rw [ed]; simp [C13x.arithEdges, List.filter_cons])
    (by
      intro v hv hne
      rcases hM v hv with rfl | rfl | rfl | rfl | hle
      · edge_nz el
      · edge_nz ed2
      · exact absurd rfl hne
      · edge_nz eb
      · intro e he; have := hdag v e he; omega)
    c2 c3 f2 (C02.rule_add_sub bm Hm c2).2 [n] ⟨wc3, rfl⟩
  have fp := grad_single bm H3 (H.size + 4) hdag tl hok p (H.size + 1) m1 (by omega) gp tp
    (.bcastX p (H.size + 1)) (by rw [eb]; simp)
    (by
      intro v hv hne
      rcases hM v hv with rfl | rfl | rfl | rfl | hle
      · edge_nz el
      · edge_nz ed2
      · edge_nz ed
      · exact absurd rfl hne
      · intro e he; have := hdag v e he; omega)
    c3 c3 f1 (by simp only [evalRule]; rw [show (Hm.val (H.size + 1)).dims = (Hm.val p).dims from vB]; exact C13.bcastRule_same bm _ _) [n] ⟨wc3, rfl⟩
  rw [fp]
  congr 1
  simp only [c3, c2, c1, D]
  congr 1
  apply List.ext_getElem
  · simp [lt', lp]
  · intro i h1 h2
    simp only [List.getElem_map, List.getElem_zipWith, List.getElem_replicate]
    have : ∀ v : ℝ, v ^ ((2 : ℝ) - 1) = v := by
      intro v; rw [show (2 : ℝ) - 1 = 1 by norm_num, Real.rpow_one]
    simp only [this]
    field_simp
    ring

/-- the hypotheses of `mse_backprop` are satisfiable: a tracked prediction leaf and an untracked target leaf of length 2 -/
example : ∃ (H : Heap ℝ) (p t n : Nat), Reach BMode.mean H ∧ p < H.size ∧ t < H.size ∧ (H.val p).WF ∧ (H.val t).WF ∧
    (H.val p).dims = [n] ∧ (H.val t).dims = [n] ∧ H.tracked p = true ∧ H.dirty p = false ∧ H.tracked t = false ∧
    H.dirty t = false := by
  refine ⟨#[⟨⟨[2], [1, 2]⟩, freshCtx true⟩, ⟨⟨[2], [0, 1]⟩, freshCtx false⟩], 0, 1, 2, ?_, by simp, by simp, ?_, ?_, rfl, rfl,
    by simp [Heap.tracked, Heap.ctx, freshCtx], by simp [Heap.dirty, Heap.ctx, freshCtx],
    by simp [Heap.tracked, Heap.ctx, freshCtx], by simp [Heap.dirty, Heap.ctx, freshCtx]⟩
  · exact Reach.leaf (v := ⟨[2], [0, 1]⟩) (b := false) (r := 1)
      (Reach.leaf (v := ⟨[2], [1, 2]⟩) (b := true) (r := 0) Reach.empty rfl) rfl
  · refine ⟨by simp [Heap.val, prod], ?_⟩
    intro d hd; simp [Heap.val] at hd; omega
  · refine ⟨by simp [Heap.val, prod], ?_⟩
    intro d hd; simp [Heap.val] at hd; omega

end C13z
end Qeep
