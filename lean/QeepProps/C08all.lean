import QeepProps.C08x
import QeepProps.C08z
/-! C08 — all property theorems: `C08`, `C08x`, and `C08z` (every operation and component allocates tensors without a
gradient; in every reachable heap an unspent tensor has no gradient). -/
