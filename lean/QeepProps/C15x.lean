import QeepProps.C12
import QeepProps.C13
import QeepProps.C15
/-!
# C15, continued — Sigmoid, LeakyRelu and rank-1 Softmax: graphs and local backward passes

Same structure as `QeepProps/C15.lean` (Relu, Tanh), over `ℝ`, for every input shape and all values:

* `*_graph`     : the tensors the activation's forward pass allocates on a tracked, unspent input, their values and
                  their back edges (which rule on which edge) — by inversion of the successful run;
* `*_local_vjp` : the *local* backward pass along those edges evaluated with the Model's rules (`evalRule`): if `G` is
                  the gradient arriving at the activation's result, the contributions arriving at the activation's
                  input, added in the order the walk adds them, are `G_i · act'(x_i)`; and `act'` is the Mathlib
                  derivative (`HasDerivAt`);
* `*_vjp_on_graph` : both together, on the heap the forward pass returns.

Sigmoid : `σ' = σ(1−σ)` (`sigmoid_local_vjp`, `d_sig`) — both modes of the `Broadcast` rule (only identity broadcasts).
LeakyRelu : `1` above the tie band `|x| ≤ 1e-240` of the library's `Eq`, `m` below, `(1+m)/2` inside
  (`leaky_local_vjp`, `leakyD_cases`) — both modes.
Softmax (`Dim = 0`, input of shape `[n]`, every `n`): `s_j (G_j − Σ_i G_i s_i)`, i.e. `G` times the Jacobian
  `s_i (δ_ij − s_j)` (`softmax_local_vjp`, `d_softmax`, `softmax_jacobian_vjp`, `softmax_vjp_deriv`) — for the `Broadcast`
  rule in `sum` mode ONLY. The graph contains a genuine expansion `[1] → [n]` of the denominator; in `mean` mode (the
  library, finding D2) the chain delivers `s_j (G_j − (1/n) Σ_i G_i s_i)` (`softmax_local_vjp_mean_partial`), which is
  not the vector-Jacobian product for `n > 1` (`softmax_mean_ne_vjp`).
  `softmax_graph` also gives the forward value `r_j = exp(x_j) / Σ_k exp(x_k)` (rank 1).
-/
set_option linter.unusedSimpArgs false
set_option linter.unusedSectionVars false

namespace Qeep
namespace C15x
open RealScalar

/-! ## Gradients of the form `g_i · φ(x_i)` -/

/-- the tensor `g_i · φ(x_i)` (shape of `G`) -/
def gz (G X : Tensor ℝ) (φ : ℝ → ℝ) : Tensor ℝ := ⟨G.dims, List.zipWith (fun g a => g * φ a) G.data X.data⟩

theorem gz_dims (G X : Tensor ℝ) (φ : ℝ → ℝ) : (gz G X φ).dims = G.dims := rfl

theorem gz_wf (G X : Tensor ℝ) (φ : ℝ → ℝ) (wX : X.WF) (wG : G.WF) (hd : G.dims = X.dims) : (gz G X φ).WF := by
  refine ⟨?_, wG.2⟩
  have hl : G.data.length = X.data.length := by rw [wG.1, wX.1, hd]
  simp only [gz, List.length_zipWith]; rw [← hl, Nat.min_self, wG.1]

theorem gz_congr (G X : Tensor ℝ) (φ ψ : ℝ → ℝ) (h : ∀ a, φ a = ψ a) : gz G X φ = gz G X ψ := by
  have : φ = ψ := funext h
  rw [this]

theorem zipWith_zipWith_left {β γ δ ε : Type} (f : δ → γ → ε) (h : β → γ → δ) :
    ∀ (l : List β) (m : List γ), List.zipWith f (List.zipWith h l m) m = List.zipWith (fun g a => f (h g a) a) l m
  | [], _ => by simp
  | _ :: _, [] => by simp
  | x :: l, y :: m => by simp [zipWith_zipWith_left f h l m]

theorem gz_gz (G X : Tensor ℝ) (φ ψ : ℝ → ℝ) : gz (gz G X φ) X ψ = gz G X (fun a => φ a * ψ a) := by
  simp only [gz, zipWith_zipWith_left]
  congr 1
  congr 1
  funext g a; ring

theorem gz_one (G X : Tensor ℝ) (wX : X.WF) (wG : G.WF) (hd : G.dims = X.dims) : gz G X (fun _ => 1) = G := by
  have hl : G.data.length = X.data.length := by rw [wG.1, wX.1, hd]
  cases G with
  | mk dims data =>
    simp only [gz]
    congr 1
    apply List.ext_getElem
    · simp at hl ⊢; omega
    · intro i h1 h2; simp

/-- `gy.Mul(T(x))` -/
theorem gz_mul (G X : Tensor ℝ) (φ T : ℝ → ℝ) (wX : X.WF) (wG : G.WF) (hd : G.dims = X.dims) :
    vArith .mul (gz G X φ) (X.map T) = .ok (gz G X (fun a => φ a * T a)) := by
  rw [C02.mul_map_rule (gz G X φ) X T (gz_wf G X φ wX wG hd) wX hd]
  exact congrArg Out.ok (gz_gz G X φ T)

theorem gz_scale (G X : Tensor ℝ) (φ : ℝ → ℝ) (c : ℝ) : vScale (gz G X φ) c = gz G X (fun a => c * φ a) := by
  simp only [gz, vScale, Tensor.map, List.map_zipWith, mul_eq]
  congr 1
  congr 1
  funext g a; ring

theorem gz_add (G X : Tensor ℝ) (φ ψ : ℝ → ℝ) (wX : X.WF) (wG : G.WF) (hd : G.dims = X.dims) :
    vArith .add (gz G X φ) (gz G X ψ) = .ok (gz G X (fun a => φ a + ψ a)) := by
  rw [vArith_same .add _ _ (gz_wf G X φ wX wG hd) (gz_wf G X ψ wX wG hd) rfl]
  have hl : G.data.length = X.data.length := by rw [wG.1, wX.1, hd]
  simp only [gz, Arith.fn]
  congr 2
  apply List.ext_getElem
  · simp [hl]
  · intro i h1 h2
    simp only [List.getElem_zipWith, add_eq]; ring

/-! ## Rules on gradients of that form -/

section rules
variable (bm : BMode) (H : Heap ℝ) (G X : Tensor ℝ) (φ u : ℝ → ℝ) (n : Nat)
variable (wX : X.WF) (wG : G.WF) (hd : G.dims = X.dims)

theorem r_id : evalRule bm H (gz G X φ) .idG = .ok (gz G X φ) := rfl

theorem r_scale (c : ℝ) : evalRule bm H (gz G X φ) (.scaleX c) = .ok (gz G X (fun a => c * φ a)) := by
  simp only [evalRule, pure, gz_scale]

/-- `Broadcast` rule between equal shapes: identity -/
theorem r_bcast (T : Tensor ℝ) (a b : Nat) (h : (H.val a).dims = (H.val b).dims) :
    evalRule bm H T (.bcastX a b) = .ok T := by
  simp only [evalRule, h]
  exact C13.bcastRule_same bm _ _

include wX wG hd

/-- Mul / Exp style rules: `gy · val(n)` with `val(n)` an element-wise image of `X` -/
theorem r_exp (hn : H.val n = X.map u) :
    evalRule bm H (gz G X φ) (.expX n) = .ok (gz G X (fun a => φ a * u a)) := by
  simp only [evalRule, hn]
  exact gz_mul G X φ u wX wG hd

/-- Pow rule, non-zero exponent -/
theorem r_pow (c : ℝ) (hc : c ≠ 0) (hn : H.val n = X.map u) :
    evalRule bm H (gz G X φ) (.powX n c) = .ok (gz G X (fun a => φ a * (c * (u a) ^ (c - 1)))) := by
  have hz : isZero c = false := by
    simp only [isZero, le_eq, zero_eq, Bool.and_eq_false_iff, decide_eq_false_iff_not]
    rcases lt_or_gt_of_ne hc with h | h
    · right; linarith
    · left; linarith
  have e : vScale (vPow (X.map u) (Scalar.sub c Scalar.one)) c = X.map (fun a => c * (u a) ^ (c - 1)) := by
    simp only [vScale, vPow, Tensor.map, List.map_map]
    congr 1
    apply List.map_congr_left
    intro a _
    simp only [Function.comp, mul_eq, pow_eq, sub_eq, one_eq]
  simp only [evalRule, hz, hn, e]
  exact gz_mul G X φ _ wX wG hd

/-- Pow rule, exponent 0: zeros -/
theorem r_pow0 (hn : H.val n = X.map u) :
    evalRule bm H (gz G X φ) (.powX n 0) = .ok (gz G X (fun _ => 0)) := by
  have hz : isZero (0 : ℝ) = true := by simp [isZero]
  have hl : G.data.length = X.data.length := by rw [wG.1, wX.1, hd]
  simp only [evalRule, hz, if_true, pure, hn, vScale, Tensor.map, gz]
  congr 1
  rw [← hd]
  congr 1
  apply List.ext_getElem
  · simp [hl]
  · intro i h1 h2; simp

/-- tie-aware ElMax / ElMin rule -/
theorem r_elext (y a b : Nat) (fy fa fb : ℝ → ℝ)
    (hy : H.val y = X.map fy) (ha : H.val a = X.map fa) (hb : H.val b = X.map fb) :
    evalRule bm H (gz G X φ) (.elext y a b) = .ok (gz G X (fun v => φ v *
      ((if Scalar.near (fy v) (fa v) then 1 else 0) - (1 / 2) * (if Scalar.near (fa v) (fb v) then 1 else 0)))) := by
  rw [C15.elext_maps bm H y a b X (gz G X φ) fy fa fb hy ha hb wX (gz_wf G X φ wX wG hd) hd]
  exact congrArg Out.ok (gz_gz G X φ _)

end rules

/-! ## Inversion of forward runs on tracked, unspent operands: values, back edges, flags -/

section inv
variable {α : Type} [Scalar α]

/-- a tracked, unspent node of the heap -/
def Live (H : Heap α) (n : Nat) : Prop := n < H.size ∧ H.tracked n = true ∧ H.dirty n = false

theorem Live.ext {H H' : Heap α} {n : Nat} (l : Live H n) (e : Extends H H') : Live H' n := by
  refine ⟨Nat.lt_of_lt_of_le l.1 e.1, ?_, ?_⟩
  · have := l.2.1; simp only [Heap.tracked, e.ctx l.1] at this ⊢; exact this
  · have := l.2.2; simp only [Heap.dirty, e.ctx l.1] at this ⊢; exact this

/-- the context of a result with back edges -/
def liveCtx (edges : List (Edge α)) : Ctx α := { tracked := true, edges := edges }

theorem mkCtx_live1 (H : Heap α) (x : Nat) (edges : List (Edge α)) (l : Live H x) :
    mkCtx H [x] edges = liveCtx edges := by
  simp [mkCtx, liveCtx, l.2.1, l.2.2]

theorem mkCtx_live2 (H : Heap α) (a b : Nat) (edges : List (Edge α)) (la : Live H a) (lb : Live H b) :
    mkCtx H [a, b] edges = liveCtx edges := by
  simp [mkCtx, liveCtx, la.2.1, la.2.2, lb.2.1, lb.2.2]

theorem live_of_ctx {H : Heap α} {r : Nat} {edges : List (Edge α)} (hr : r < H.size) (hc : H.ctx r = liveCtx edges) :
    Live H r := ⟨hr, by simp [Heap.tracked, hc, liveCtx], by simp [Heap.dirty, hc, liveCtx]⟩

theorem op1_live {x : Nat} {v : Out (Tensor α)} {rule : Nat → Rule α} {H H' : Heap α} {r : Nat}
    (h : hOp1 x v rule H = .ok (r, H')) (l : Live H x) :
    r = H.size ∧ v = .ok (H'.val r) ∧ Extends H H' ∧ H'.ctx r = liveCtx [⟨x, rule r⟩] ∧ Live H' r := by
  obtain ⟨e1, e2, e3⟩ := C08.op1_ctx x v rule H H' r h
  obtain ⟨v1, _, _⟩ := hOp1_val h
  have hc : H'.ctx r = liveCtx [⟨x, rule r⟩] := by rw [e2, mkCtx_live1 H x _ l, e1]
  exact ⟨e1, v1, e3, hc, live_of_ctx (hOp1_size h) hc⟩

theorem hPow_live {x : Nat} {a : α} {H H' : Heap α} {r : Nat} (h : hPow x a H = .ok (r, H')) (l : Live H x) :
    H'.val r = vPow (H.val x) a ∧ Extends H H' ∧ H'.ctx r = liveCtx [⟨x, .powX x a⟩] ∧ Live H' r := by
  unfold hPow at h
  obtain ⟨H0, H1, h1, h2⟩ := bind_ok h
  obtain ⟨e0, e1⟩ := getHeap_ok h1
  rw [e0, e1] at h2
  obtain ⟨_, v, e, c, l'⟩ := op1_live h2 l
  exact ⟨by injection v with v; exact v.symm, e, c, l'⟩

theorem hScale_live {x : Nat} {a : α} {H H' : Heap α} {r : Nat} (h : hScale x a H = .ok (r, H')) (l : Live H x) :
    H'.val r = vScale (H.val x) a ∧ Extends H H' ∧ H'.ctx r = liveCtx [⟨x, .scaleX a⟩] ∧ Live H' r := by
  unfold hScale at h
  obtain ⟨H0, H1, h1, h2⟩ := bind_ok h
  obtain ⟨e0, e1⟩ := getHeap_ok h1
  rw [e0, e1] at h2
  obtain ⟨_, v, e, c, l'⟩ := op1_live h2 l
  exact ⟨by injection v with v; exact v.symm, e, c, l'⟩

theorem hUnary_live {f : Unary} {x : Nat} {H H' : Heap α} {r : Nat} (h : hUnary f x H = .ok (r, H')) (l : Live H x) :
    H'.val r = vUnary f (H.val x) ∧ Extends H H' ∧ H'.ctx r = liveCtx [⟨x, unaryRule f x r⟩] ∧ Live H' r := by
  unfold hUnary at h
  obtain ⟨H0, H1, h1, h2⟩ := bind_ok h
  obtain ⟨e0, e1⟩ := getHeap_ok h1
  rw [e0, e1] at h2
  obtain ⟨_, v, e, c, l'⟩ := op1_live h2 l
  exact ⟨by injection v with v; exact v.symm, e, c, l'⟩

theorem hBroadcast_live {x : Nat} {s : List Int} {H H' : Heap α} {r : Nat} (h : hBroadcast x s H = .ok (r, H')) (l : Live H x) :
    vBroadcast (H.val x) s = .ok (H'.val r) ∧ Extends H H' ∧ H'.ctx r = liveCtx [⟨x, .bcastX x r⟩] ∧ Live H' r := by
  unfold hBroadcast at h
  obtain ⟨H0, H1, h1, h2⟩ := bind_ok h
  obtain ⟨e0, e1⟩ := getHeap_ok h1
  rw [e0, e1] at h2
  obtain ⟨_, v, e, c, l'⟩ := op1_live h2 l
  exact ⟨v, e, c, l'⟩

theorem hAlong_live {rd : Reducer} {x : Nat} {d : Int} {H H' : Heap α} {r : Nat} (h : hAlong rd x d H = .ok (r, H'))
    (l : Live H x) :
    vAlong rd (H.val x) d = .ok (H'.val r) ∧ Extends H H' ∧ H'.ctx r = liveCtx [⟨x, alongRule rd x r d.toNat⟩] ∧ Live H' r := by
  unfold hAlong at h
  obtain ⟨H0, H1, h1, h2⟩ := bind_ok h
  obtain ⟨e0, e1⟩ := getHeap_ok h1
  rw [e0, e1] at h2
  obtain ⟨_, v, e, c, l'⟩ := op1_live h2 l
  exact ⟨v, e, c, l'⟩

theorem hUnSqueeze_live {x : Nat} {d : Int} {H H' : Heap α} {r : Nat} (h : hUnSqueeze x d H = .ok (r, H'))
    (l : Live H x) :
    vUnSqueeze (H.val x) d = .ok (H'.val r) ∧ Extends H H' ∧ H'.ctx r = liveCtx [⟨x, .reshapeX x⟩] ∧ Live H' r := by
  unfold hUnSqueeze at h
  obtain ⟨H0, H1, h1, h2⟩ := bind_ok h
  obtain ⟨e0, e1⟩ := getHeap_ok h1
  rw [e0, e1] at h2
  obtain ⟨_, v, e, c, l'⟩ := op1_live h2 l
  exact ⟨v, e, c, l'⟩

theorem ran_hUnSqueeze (x : Nat) (d : Int) (H : Heap α) (v : Tensor α) (h : vUnSqueeze (H.val x) d = .ok v) :
    ∃ r H', Ran (hUnSqueeze x d) H v r H' := by
  obtain ⟨r, H', hr⟩ := ran_hOp1 x v (fun _ => Rule.reshapeX x) H
  refine ⟨r, H', ⟨?_, hr.val, hr.ext, hr.lt, hr.ge⟩⟩
  unfold hUnSqueeze
  rw [bind_run (show (getHeap : HM α (Heap α)) H = .ok (H, H) from rfl), h]
  exact hr.run

/-- ElMax / ElMin: two tie-aware back edges -/
theorem hCmp_ext_live {c : Cmp} {a b : Nat} {H H' : Heap α} {r : Nat} (hc : c = .elmax ∨ c = .elmin)
    (h : hCmp c a b H = .ok (r, H')) (la : Live H a) (lb : Live H b) :
    vCmp c (H.val a) (H.val b) = .ok (H'.val r) ∧ Extends H H' ∧
    H'.ctx r = liveCtx [⟨a, .elext r a b⟩, ⟨b, .elext r b a⟩] ∧ Live H' r := by
  obtain ⟨v, _, e⟩ := hCmp_val h
  unfold hCmp at h
  obtain ⟨H0, H1, h1, h2⟩ := bind_ok h
  obtain ⟨e0, e1⟩ := getHeap_ok h1
  rw [e0, e1] at h2
  obtain ⟨t, H2, h3, h4⟩ := bind_ok h2
  obtain ⟨_, e2⟩ := liftOut_ok h3
  rw [e2] at h4
  have hk : alloc t (mkCtx H [a, b] [⟨a, .elext H.size a b⟩, ⟨b, .elext H.size b a⟩]) H = .ok (r, H') := by
    rcases hc with rfl | rfl <;> exact h4
  obtain ⟨p, _, q, _⟩ := alloc_ok hk
  have hc' : H'.ctx r = liveCtx [⟨a, .elext r a b⟩, ⟨b, .elext r b a⟩] := by
    rw [q, mkCtx_live2 H a b _ la lb, p]
  have hlt : r < H'.size := by have := alloc_grows hk; omega
  exact ⟨v, e, hc', live_of_ctx hlt hc'⟩

/-- back edges of the four arithmetic operations (`gradtrack.Add` … `gradtrack.Div`) -/
def arithEdges (o : Arith) (a' b' : Nat) : List (Edge α) :=
  match o with
  | .add => [⟨a', .idG⟩, ⟨b', .idG⟩]
  | .sub => [⟨a', .idG⟩, ⟨b', .negG⟩]
  | .mul => [⟨a', .mulG b'⟩, ⟨b', .mulG a'⟩]
  | .div => [⟨a', .divA b'⟩, ⟨b', .divB a' b'⟩]

/-- arithmetic on tracked, unspent operands: the two `Broadcast` nodes (towards the common target shape), the result,
    their back edges -/
theorem hArith_live {o : Arith} {a b : Nat} {H H' : Heap α} {r : Nat} (h : hArith o a b H = .ok (r, H'))
    (la : Live H a) (lb : Live H b) :
    ∃ a' b', Extends H H' ∧
      vBroadcastN (H.val a) (targetBroadcastDims (H.val a).dims (H.val b).dims) = .ok (H'.val a') ∧
      vBroadcastN (H.val b) (targetBroadcastDims (H.val a).dims (H.val b).dims) = .ok (H'.val b') ∧
      vArith o (H.val a) (H.val b) = .ok (H'.val r) ∧
      H'.ctx a' = liveCtx [⟨a, .bcastX a a'⟩] ∧ H'.ctx b' = liveCtx [⟨b, .bcastX b b'⟩] ∧
      H'.ctx r = liveCtx (arithEdges o a' b') ∧ Live H' a' ∧ Live H' b' ∧ Live H' r := by
  obtain ⟨hv, _, hlt, hext⟩ := hArith_val la.1 lb.1 h
  unfold hArith at h
  obtain ⟨p, H1, h1, h2⟩ := bind_ok h
  obtain ⟨a', b'⟩ := p
  unfold hBroadcastPair at h1
  obtain ⟨H0, H0', g0, k1⟩ := bind_ok h1
  obtain ⟨e0, e0'⟩ := getHeap_ok g0
  rw [e0, e0'] at k1
  obtain ⟨a1, Ha, g1, k2⟩ := bind_ok k1
  obtain ⟨b1, Hb, g2, k3⟩ := bind_ok k2
  have hp : (pure (a1, b1) : HM α (Nat × Nat)) Hb = .ok ((a1, b1), Hb) := rfl
  rw [hp] at k3
  injection k3 with k3
  injection k3 with e1 e2
  injection e1 with ea eb
  subst ea eb e2
  obtain ⟨va, xa, ca, lva⟩ := hBroadcast_live g1 la
  obtain ⟨vb, xb, cb, lvb⟩ := hBroadcast_live g2 (lb.ext xa)
  rw [xa.val lb.1] at vb
  obtain ⟨H3, H3', g3, k4⟩ := bind_ok h2
  obtain ⟨e3, e3'⟩ := getHeap_ok g3
  rw [e3, e3'] at k4
  obtain ⟨t, H4, g4, k5⟩ := bind_ok k4
  obtain ⟨_, e4'⟩ := liftOut_ok g4
  rw [e4'] at k5
  obtain ⟨_, _, cr, xr⟩ := alloc_ok k5
  have lva' : Live Hb a1 := lva.ext xb
  have hcr : H'.ctx r = liveCtx (arithEdges o a1 b1) := by
    rw [cr, mkCtx_live2 Hb a1 b1 _ lva' lvb]
    cases o <;> rfl
  refine ⟨a1, b1, hext, ?_, ?_, hv, ?_, ?_, hcr, lva'.ext xr, lvb.ext xr, live_of_ctx hlt hcr⟩
  · rw [(xb.trans xr).val lva.1]; exact va
  · rw [xr.val lvb.1]; exact vb
  · rw [(xb.trans xr).ctx lva.1]; exact ca
  · rw [xr.ctx lvb.1]; exact cb

end inv

/-! ## Sigmoid -/

/-- the logistic function, literally the value `C14.sigmoid_value` proves for the forward pass -/
noncomputable def sig (a : ℝ) : ℝ := (1 + Real.exp (-a))⁻¹

/-- `σ' = σ (1 − σ)` -/
theorem d_sig (a : ℝ) : HasDerivAt sig (sig a * (1 - sig a)) a := by
  have h1 : HasDerivAt (fun t : ℝ => Real.exp (-t)) (-Real.exp (-a)) a := by
    exact (hasDerivAt_neg a).exp.congr_deriv (by ring)
  have hpos : (0 : ℝ) < 1 + Real.exp (-a) := by have := Real.exp_pos (-a); linarith
  have h2 : HasDerivAt (fun t : ℝ => 1 + Real.exp (-t)) (-Real.exp (-a)) a := h1.const_add 1
  have h3 := h2.inv hpos.ne'
  have hs : sig = fun t : ℝ => (1 + Real.exp (-t))⁻¹ := rfl
  rw [hs]
  refine h3.congr_deriv ?_
  have := hpos.ne'
  field_simp
  ring

/-- the factor the Sigmoid graph delivers, position-wise -/
theorem sig_factor (a : ℝ) :
    -1 * (1 * (-1 * (1 + Real.exp (-a)) ^ ((-1 : ℝ) - 1)) * Real.exp (-a)) + 0 = sig a * (1 - sig a) := by
  have hpos : (0 : ℝ) < 1 + Real.exp (-a) := by have := Real.exp_pos (-a); linarith
  have e : (1 + Real.exp (-a)) ^ ((-1 : ℝ) - 1) = ((1 + Real.exp (-a)) ^ 2)⁻¹ := by
    rw [show (-1 : ℝ) - 1 = -((2 : ℕ) : ℝ) by norm_num, Real.rpow_neg hpos.le, Real.rpow_natCast]
  rw [e]
  unfold sig
  have := hpos.ne'
  field_simp
  ring

/-- **Sigmoid, local backward pass.** The graph `actForward .sigmoid` builds on `x` (see `sigmoid_graph`):
    `o = Pow(x,0)`, `x1 = Scale(x,−1)`, `x2 = Exp(x1)`, `y = Add(o', x2')` with `o'`, `x2'` the (identity) `Broadcast`s of
    `o`, `x2` that every binary operation inserts, `r = Pow(y,−1)`. With `G` the gradient arriving at `r`: through
    `Pow(−1)`, `Add` (both edges: the gradient itself), the two `Broadcast` rules (equal shapes: identity — for both
    `BMode`s), then `Pow(·,0)` (zeros) on one branch and `Exp`, `Scale(−1)` on the other; the two contributions
    arriving at `x`, added in the order the walk adds them, are `G_i · σ(x_i)(1 − σ(x_i))` at every position, and that
    factor is the derivative of `σ`. Every shape, all values. -/
theorem sigmoid_local_vjp (bm : BMode) (H : Heap ℝ) (x o x2 o' x2' y : Nat) (G : Tensor ℝ)
    (hx2 : H.val x2 = (H.val x).map (fun a => Real.exp (-a)))
    (ho' : H.val o' = H.val o) (hx2' : H.val x2' = H.val x2)
    (hy : H.val y = (H.val x).map (fun a => 1 + Real.exp (-a)))
    (wX : (H.val x).WF) (wG : G.WF) (hd : G.dims = (H.val x).dims) :
    (∃ gy go gx2 gx1 c1 c2,
      evalRule bm H G (.powX y (-1)) = .ok gy ∧
      evalRule bm H gy .idG = .ok gy ∧
      evalRule bm H gy (.bcastX o o') = .ok go ∧
      evalRule bm H gy (.bcastX x2 x2') = .ok gx2 ∧
      evalRule bm H go (.powX x 0) = .ok c1 ∧
      evalRule bm H gx2 (.expX x2) = .ok gx1 ∧
      evalRule bm H gx1 (.scaleX (-1)) = .ok c2 ∧
      vArith .add c2 c1 = .ok ⟨G.dims, List.zipWith (fun g a => g * (sig a * (1 - sig a))) G.data (H.val x).data⟩) ∧
    (∀ a : ℝ, HasDerivAt sig (sig a * (1 - sig a)) a) := by
  refine ⟨?_, d_sig⟩
  have hX : H.val x = (H.val x).map id := by simp [Tensor.map]
  have e0 : evalRule bm H G (.powX y (-1)) = evalRule bm H (gz G (H.val x) (fun _ => 1)) (.powX y (-1)) := by
    rw [gz_one G (H.val x) wX wG hd]
  have s1 := r_pow bm H G (H.val x) (fun _ => 1) (fun a => 1 + Real.exp (-a)) y wX wG hd (-1) (by norm_num) hy
  have s3 := r_pow0 bm H G (H.val x) (fun a => 1 * (-1 * (1 + Real.exp (-a)) ^ ((-1 : ℝ) - 1))) id x wX wG hd hX
  have s4 := r_exp bm H G (H.val x) (fun a => 1 * (-1 * (1 + Real.exp (-a)) ^ ((-1 : ℝ) - 1))) (fun a => Real.exp (-a)) x2
    wX wG hd hx2
  refine ⟨_, _, _, _, _, _, e0.trans s1, rfl, r_bcast bm H _ o o' (by rw [ho']), r_bcast bm H _ x2 x2' (by rw [hx2']),
    s3, s4, r_scale bm H G (H.val x) _ (-1), ?_⟩
  rw [gz_add G (H.val x) _ _ wX wG hd]
  exact congrArg Out.ok (gz_congr G (H.val x) _ _ sig_factor)

/-- **the graph Sigmoid builds** on a tracked, unspent input `x`: seven new tensors
    `o = Pow(x,0)`, `x1 = Scale(x,−1)`, `x2 = Exp(x1)`, `o' = Broadcast(o)`, `x2' = Broadcast(x2)`, `y = Add(o',x2')`,
    `r = Pow(y,−1)`, their values, and their back edges (all tracked, unspent, no gradient yet) -/
theorem sigmoid_graph (H : Heap ℝ) (x : Nat) (hwf : (H.val x).WF) (l : Live H x) :
    ∃ o x1 x2 o' x2' y r H', actForward Activation.sigmoid [some x] H = .ok (r, H') ∧ Extends H H' ∧
      H'.val x = H.val x ∧
      H'.val x2 = (H.val x).map (fun a => Real.exp (-a)) ∧
      H'.val o' = H'.val o ∧ H'.val x2' = H'.val x2 ∧
      H'.val y = (H.val x).map (fun a => 1 + Real.exp (-a)) ∧
      H'.val r = (H.val x).map sig ∧
      H'.ctx o = liveCtx [⟨x, .powX x 0⟩] ∧
      H'.ctx x1 = liveCtx [⟨x, .scaleX (-1)⟩] ∧
      H'.ctx x2 = liveCtx [⟨x1, .expX x2⟩] ∧
      H'.ctx o' = liveCtx [⟨o, .bcastX o o'⟩] ∧
      H'.ctx x2' = liveCtx [⟨x2, .bcastX x2 x2'⟩] ∧
      H'.ctx y = liveCtx [⟨o', .idG⟩, ⟨x2', .idG⟩] ∧
      H'.ctx r = liveCtx [⟨y, .powX y (-1)⟩] := by
  obtain ⟨r, H', hrun, hext, hval⟩ := C14.sigmoid_value H x l.1 hwf
  have h := hrun
  unfold actForward at h
  rw [bind_run (show (liftOut (oneInput [some x]) : HM ℝ Nat) H = .ok (x, H) from rfl)] at h
  simp only [] at h
  obtain ⟨o, H1, g1, h⟩ := bind_ok h
  obtain ⟨vo, e1, co, lo⟩ := hPow_live g1 l
  obtain ⟨x1, H2, g2, h⟩ := bind_ok h
  obtain ⟨vx1, e2, cx1, lx1⟩ := hScale_live g2 (l.ext e1)
  obtain ⟨x2, H3, g3, h⟩ := bind_ok h
  obtain ⟨vx2, e3, cx2, lx2⟩ := hUnary_live g3 lx1
  obtain ⟨y, H4, g4, g5⟩ := bind_ok h
  have lo3 : Live H3 o := (lo.ext e2).ext e3
  obtain ⟨o', x2', e4, vo', vx2', vy, co', cx2', cy, lo', lx2', ly⟩ := hArith_live g4 lo3 lx2
  obtain ⟨vr, e5, cr, lr⟩ := hPow_live g5 ly
  -- values below the Add
  have hx1 : H1.val x = H.val x := e1.val l.1
  have ho3 : H3.val o = vPow (H.val x) Scalar.zero := by rw [(e2.trans e3).val lo.1, vo]
  have hx23 : H3.val x2 = (H.val x).map (fun a => Real.exp (-a)) := by
    rw [vx2, vx1, hx1]
    simp only [vUnary, vScale, Tensor.map, Unary.fn, List.map_map]
    congr 1
    apply List.map_congr_left
    intro a _
    simp
  have wo : (H3.val o).WF := by rw [ho3]; exact map_wf _ _ hwf
  have wx2 : (H3.val x2).WF := by rw [hx23]; exact map_wf _ _ hwf
  have hdd : (H3.val o).dims = (H3.val x2).dims := by rw [ho3, hx23]; rfl
  rw [← hdd, targetBroadcastDims_self, vBroadcastN_self _ wo] at vo'
  rw [← hdd, targetBroadcastDims_self, hdd, vBroadcastN_self _ wx2] at vx2'
  rw [vArith_same .add _ _ wo wx2 hdd] at vy
  injection vo' with vo'
  injection vx2' with vx2'
  injection vy with vy
  have e45 : Extends H4 H' := e5
  have e35 : Extends H3 H' := e4.trans e5
  refine ⟨o, x1, x2, o', x2', y, r, H', hrun, hext, hext.val l.1, ?_, ?_, ?_, ?_, ?_, ?_, ?_, ?_, ?_, ?_, ?_, ?_⟩
  · rw [e35.val lx2.1, hx23]
  · rw [e45.val lo'.1, e35.val lo3.1, vo']
  · rw [e45.val lx2'.1, e35.val lx2.1, vx2']
  · rw [e45.val ly.1, ← vy, ho3, hx23]
    simp only [vPow, Tensor.map, Arith.fn]
    congr 1
    rw [C14.zipWith_maps]
    apply List.map_congr_left
    intro a _
    simp
  · rw [hval]; rfl
  · rw [(((e2.trans e3).trans e4).trans e5).ctx lo.1, co, zero_eq]
  · rw [((e3.trans e4).trans e5).ctx lx1.1, cx1, neg_eq, one_eq]
  · rw [e35.ctx lx2.1, cx2]; rfl
  · rw [e45.ctx lo'.1, co']
  · rw [e45.ctx lx2'.1, cx2']
  · rw [e45.ctx ly.1, cy]; rfl
  · rw [cr, neg_eq, one_eq]

/-! ## LeakyRelu -/

/-- the derivative the `ElMin(0·x, x)` node delivers towards `x`: 1 below the tie band, 0 above, ½ inside -/
noncomputable def minD (a : ℝ) : ℝ :=
  (if Scalar.near (min 0 a) a then 1 else 0) - (1 / 2) * (if Scalar.near a 0 then 1 else 0)

/-- the derivative LeakyRelu's graph delivers -/
noncomputable def leakyD (m a : ℝ) : ℝ := C15.reluD a + m * minD a

theorem minD_cases (a : ℝ) (thr : ℝ) (hthr : thr = (Scalar.eqThr : ℝ)) (hpos : 0 < thr) :
    (thr < a → minD a = 0) ∧ (a < -thr → minD a = 1) ∧ (|a| ≤ thr → minD a = 1 / 2) := by
  subst hthr
  have hn1 : ∀ u v : ℝ, Scalar.near u v = decide (|u - v| ≤ Scalar.eqThr) := fun u v => rfl
  refine ⟨?_, ?_, ?_⟩
  · intro h
    have h0 : 0 < a := lt_trans hpos h
    have e1 : ¬ |min 0 a - a| ≤ (Scalar.eqThr : ℝ) := by
      rw [min_eq_left h0.le, zero_sub, abs_neg, abs_of_pos h0]; linarith
    have e2 : ¬ |a - 0| ≤ (Scalar.eqThr : ℝ) := by rw [sub_zero, abs_of_pos h0]; linarith
    unfold minD
    rw [hn1, hn1]
    simp only [decide_eq_true_eq]
    rw [if_neg e1, if_neg e2]; norm_num
  · intro h
    have h0 : a < 0 := by linarith
    have e1 : |min 0 a - a| ≤ (Scalar.eqThr : ℝ) := by rw [min_eq_right h0.le]; simp [hpos.le]
    have e3 : ¬ |a - 0| ≤ (Scalar.eqThr : ℝ) := by rw [sub_zero, abs_of_neg h0]; linarith
    unfold minD
    rw [hn1, hn1]
    simp only [decide_eq_true_eq]
    rw [if_pos e1, if_neg e3]; norm_num
  · intro h
    have e3 : |a - 0| ≤ (Scalar.eqThr : ℝ) := by rwa [sub_zero]
    have e1 : |min 0 a - a| ≤ (Scalar.eqThr : ℝ) := by
      rcases le_total 0 a with h0 | h0
      · rw [min_eq_left h0, zero_sub, abs_neg]; exact h
      · rw [min_eq_right h0]; simp [hpos.le]
    unfold minD
    rw [hn1, hn1]
    simp only [decide_eq_true_eq]
    rw [if_pos e1, if_pos e3]; norm_num

/-- **LeakyRelu's delivered derivative**: `1` above the tie band of the library's `Eq` (`|x| ≤ 1e-240`), the slope `m`
    below it, and `(1 + m)/2` inside the band (in particular at `x = 0`) — exactly what the rules compute -/
theorem leakyD_cases (m a : ℝ) (thr : ℝ) (hthr : thr = (Scalar.eqThr : ℝ)) (hpos : 0 < thr) :
    (thr < a → leakyD m a = 1) ∧ (a < -thr → leakyD m a = m) ∧ (|a| ≤ thr → leakyD m a = (1 + m) / 2) := by
  obtain ⟨r1, r2, r3⟩ := C15.reluD_cases a thr hthr hpos
  obtain ⟨m1, m2, m3⟩ := minD_cases a thr hthr hpos
  unfold leakyD
  refine ⟨fun h => ?_, fun h => ?_, fun h => ?_⟩
  · rw [r1 h, m1 h]; ring
  · rw [r2 h, m2 h]; ring
  · rw [r3 h, m3 h]; ring

/-- the tie band is not empty and is tiny: the threshold is `1e-240 > 0` -/
theorem eqThr_pos : (0 : ℝ) < (Scalar.eqThr : ℝ) := by
  simp only [Scalar.eqThr, Scalar.ofSci]
  positivity

/-- **the graph LeakyRelu builds** on a tracked, unspent input `x`: seven new tensors `z = Scale(x,0)`,
    `s1 = ElMax(z,x)`, `s2 = ElMin(z,x)`, `s3 = Scale(s2,m)`, `s1' = Broadcast(s1)`, `s3' = Broadcast(s3)`,
    `r = Add(s1',s3')`, their values and their back edges (all tracked, unspent, no gradient yet) -/
theorem leaky_graph (m : ℝ) (H : Heap ℝ) (x : Nat) (hwf : (H.val x).WF) (l : Live H x) :
    ∃ z s1 s2 s3 s1' s3' r H', actForward (Activation.leaky m) [some x] H = .ok (r, H') ∧ Extends H H' ∧
      H'.val x = H.val x ∧
      H'.val z = vScale (H.val x) 0 ∧
      H'.val s1 = (H.val x).map (fun a => max 0 a) ∧ H'.val s2 = (H.val x).map (fun a => min 0 a) ∧
      H'.val s1' = H'.val s1 ∧ H'.val s3' = H'.val s3 ∧
      H'.val r = (H.val x).map (fun a => max 0 a + m * min 0 a) ∧
      H'.ctx z = liveCtx [⟨x, .scaleX 0⟩] ∧
      H'.ctx s1 = liveCtx [⟨z, .elext s1 z x⟩, ⟨x, .elext s1 x z⟩] ∧
      H'.ctx s2 = liveCtx [⟨z, .elext s2 z x⟩, ⟨x, .elext s2 x z⟩] ∧
      H'.ctx s3 = liveCtx [⟨s2, .scaleX m⟩] ∧
      H'.ctx s1' = liveCtx [⟨s1, .bcastX s1 s1'⟩] ∧ H'.ctx s3' = liveCtx [⟨s3, .bcastX s3 s3'⟩] ∧
      H'.ctx r = liveCtx [⟨s1', .idG⟩, ⟨s3', .idG⟩] := by
  obtain ⟨r, H', hrun, hext, hval⟩ := C14.leaky_value m H x l.1 hwf
  have h := hrun
  unfold actForward at h
  rw [bind_run (show (liftOut (oneInput [some x]) : HM ℝ Nat) H = .ok (x, H) from rfl)] at h
  simp only [] at h
  obtain ⟨z, H1, g1, h⟩ := bind_ok h
  obtain ⟨vz, e1, cz, lz⟩ := hScale_live g1 l
  have lx1 : Live H1 x := l.ext e1
  obtain ⟨s1, H2, g2, h⟩ := bind_ok h
  obtain ⟨vs1, e2, cs1, ls1⟩ := hCmp_ext_live (Or.inl rfl) g2 lz lx1
  obtain ⟨s2, H3, g3, h⟩ := bind_ok h
  obtain ⟨vs2, e3, cs2, ls2⟩ := hCmp_ext_live (Or.inr rfl) g3 (lz.ext e2) (lx1.ext e2)
  obtain ⟨s3, H4, g4, g5⟩ := bind_ok h
  obtain ⟨vs3, e4, cs3, ls3⟩ := hScale_live g4 ls2
  have ls14 : Live H4 s1 := (ls1.ext e3).ext e4
  obtain ⟨s1', s3', e5, vs1', vs3', vr, cs1', cs3', cr, ls1', ls3', lr⟩ := hArith_live g5 ls14 ls3
  -- values
  have hx1 : H1.val x = H.val x := e1.val l.1
  have hz1 : H1.val z = (H.val x).map (fun a => 0 * a) := by rw [vz]; simp [vScale, Tensor.map]
  have wz : (H1.val z).WF := by rw [hz1]; exact map_wf _ _ hwf
  have wx : (H1.val x).WF := by rw [hx1]; exact hwf
  have hdzx : (H1.val z).dims = (H1.val x).dims := by rw [hz1, hx1]; rfl
  rw [vCmp_same .elmax _ _ wz wx hdzx] at vs1
  rw [e2.val lz.1, e2.val lx1.1, vCmp_same .elmin _ _ wz wx hdzx] at vs2
  injection vs1 with vs1
  injection vs2 with vs2
  have hs1 : H2.val s1 = (H.val x).map (fun a => max 0 a) := by
    rw [← vs1, hz1, hx1]
    simp only [Tensor.map, Cmp.fn, C14.zipWith_map_left]
    congr 1
    apply List.map_congr_left
    intro a _; simp
  have hs2 : H3.val s2 = (H.val x).map (fun a => min 0 a) := by
    rw [← vs2, hz1, hx1]
    simp only [Tensor.map, Cmp.fn, C14.zipWith_map_left]
    congr 1
    apply List.map_congr_left
    intro a _; simp
  have hs14 : H4.val s1 = (H.val x).map (fun a => max 0 a) := by rw [(e3.trans e4).val ls1.1, hs1]
  have hs34 : H4.val s3 = (H.val x).map (fun a => m * min 0 a) := by
    rw [vs3, hs2]; simp only [vScale, Tensor.map, List.map_map]; rfl
  have w1 : (H4.val s1).WF := by rw [hs14]; exact map_wf _ _ hwf
  have w3 : (H4.val s3).WF := by rw [hs34]; exact map_wf _ _ hwf
  have hdd : (H4.val s1).dims = (H4.val s3).dims := by rw [hs14, hs34]; rfl
  rw [← hdd, targetBroadcastDims_self, vBroadcastN_self _ w1] at vs1'
  rw [← hdd, targetBroadcastDims_self, hdd, vBroadcastN_self _ w3] at vs3'
  injection vs1' with vs1'
  injection vs3' with vs3'
  refine ⟨z, s1, s2, s3, s1', s3', r, H', hrun, hext, hext.val l.1, ?_, ?_, ?_, ?_, ?_, ?_, ?_, ?_, ?_, ?_, ?_, ?_, cr⟩
  · rw [(((e2.trans e3).trans e4).trans e5).val lz.1, vz, zero_eq]
  · rw [e5.val ls14.1, hs14]
  · rw [(e4.trans e5).val ls2.1, hs2]
  · rw [e5.val ls14.1, vs1']
  · rw [e5.val ls3.1, vs3']
  · rw [hval]; rfl
  · rw [(((e2.trans e3).trans e4).trans e5).ctx lz.1, cz, zero_eq]
  · rw [((e3.trans e4).trans e5).ctx ls1.1, cs1]
  · rw [(e4.trans e5).ctx ls2.1, cs2]
  · rw [e5.ctx ls3.1, cs3]
  · exact cs1'
  · exact cs3'

/-- the LeakyRelu chain on a gradient `g_i · φ(x_i)` -/
theorem leaky_chain (bm : BMode) (H : Heap ℝ) (x z s1 s2 s3 s1' s3' : Nat) (m : ℝ) (G : Tensor ℝ) (φ : ℝ → ℝ)
    (hz : H.val z = vScale (H.val x) 0)
    (hs1 : H.val s1 = (H.val x).map (fun a => max 0 a)) (hs2 : H.val s2 = (H.val x).map (fun a => min 0 a))
    (hs1' : H.val s1' = H.val s1) (hs3' : H.val s3' = H.val s3)
    (wX : (H.val x).WF) (wG : G.WF) (hd : G.dims = (H.val x).dims) :
    ∃ g2 gz2 c2 gz1 c1 gzt cz c21,
      evalRule bm H (gz G (H.val x) φ) .idG = .ok (gz G (H.val x) φ) ∧
      evalRule bm H (gz G (H.val x) φ) (.bcastX s1 s1') = .ok (gz G (H.val x) φ) ∧
      evalRule bm H (gz G (H.val x) φ) (.bcastX s3 s3') = .ok (gz G (H.val x) φ) ∧
      evalRule bm H (gz G (H.val x) φ) (.scaleX m) = .ok g2 ∧
      evalRule bm H g2 (.elext s2 z x) = .ok gz2 ∧ evalRule bm H g2 (.elext s2 x z) = .ok c2 ∧
      evalRule bm H (gz G (H.val x) φ) (.elext s1 z x) = .ok gz1 ∧
      evalRule bm H (gz G (H.val x) φ) (.elext s1 x z) = .ok c1 ∧
      vArith .add gz2 gz1 = .ok gzt ∧ evalRule bm H gzt (.scaleX 0) = .ok cz ∧
      vArith .add c2 c1 = .ok c21 ∧
      vArith .add c21 cz = .ok (gz G (H.val x) (fun a => φ a * leakyD m a)) := by
  have hX : H.val x = (H.val x).map id := by simp [Tensor.map]
  have hZ : H.val z = (H.val x).map (fun a => 0 * a) := by rw [hz]; simp [vScale, Tensor.map]
  have a1 := r_elext bm H G (H.val x) (fun a => m * φ a) wX wG hd s2 z x _ _ _ hs2 hZ hX
  have a2 := r_elext bm H G (H.val x) (fun a => m * φ a) wX wG hd s2 x z _ _ _ hs2 hX hZ
  have a3 := r_elext bm H G (H.val x) φ wX wG hd s1 z x _ _ _ hs1 hZ hX
  have a4 := r_elext bm H G (H.val x) φ wX wG hd s1 x z _ _ _ hs1 hX hZ
  refine ⟨_, _, _, _, _, _, _, _, rfl, r_bcast bm H _ s1 s1' (by rw [hs1']), r_bcast bm H _ s3 s3' (by rw [hs3']),
    r_scale bm H G (H.val x) φ m, a1, a2, a3, a4, gz_add G (H.val x) _ _ wX wG hd, r_scale bm H G (H.val x) _ 0,
    gz_add G (H.val x) _ _ wX wG hd, ?_⟩
  rw [gz_add G (H.val x) _ _ wX wG hd]
  refine congrArg Out.ok (gz_congr G (H.val x) _ _ ?_)
  intro a
  simp only [id, zero_mul, leakyD, C15.reluD, minD]
  ring

/-- **LeakyRelu, local backward pass.** The graph `actForward (.leaky m)` builds on `x` (see `leaky_graph`):
    `z = 0·x`, `s1 = ElMax(z,x)`, `s2 = ElMin(z,x)`, `s3 = m·s2`, `r = Add(s1', s3')` with `s1'`, `s3'` the (identity)
    `Broadcast`s of `s1`, `s3`. With `G` the gradient arriving at `r`, in the order the walk processes the edges:
    `Add` (the gradient itself, both edges), the two `Broadcast` rules (equal shapes: identity, for both `BMode`s),
    `Scale(m)`, the tie-aware rules of `ElMin` and `ElMax` towards `z` and towards `x`, the sum at `z` sent through
    `Scale(0)`; the three contributions arriving at `x` add up to `G_i · leakyD m x_i` at every position:
    `G_i` for `x_i` above the tie band, `m·G_i` below, `(1+m)/2 · G_i` inside (`leakyD_cases`). -/
theorem leaky_local_vjp (bm : BMode) (H : Heap ℝ) (x z s1 s2 s3 s1' s3' : Nat) (m : ℝ) (G : Tensor ℝ)
    (hz : H.val z = vScale (H.val x) 0)
    (hs1 : H.val s1 = (H.val x).map (fun a => max 0 a)) (hs2 : H.val s2 = (H.val x).map (fun a => min 0 a))
    (hs1' : H.val s1' = H.val s1) (hs3' : H.val s3' = H.val s3)
    (wX : (H.val x).WF) (wG : G.WF) (hd : G.dims = (H.val x).dims) :
    (∃ g2 gz2 c2 gz1 c1 gzt cz c21,
      evalRule bm H G .idG = .ok G ∧
      evalRule bm H G (.bcastX s1 s1') = .ok G ∧ evalRule bm H G (.bcastX s3 s3') = .ok G ∧
      evalRule bm H G (.scaleX m) = .ok g2 ∧
      evalRule bm H g2 (.elext s2 z x) = .ok gz2 ∧ evalRule bm H g2 (.elext s2 x z) = .ok c2 ∧
      evalRule bm H G (.elext s1 z x) = .ok gz1 ∧ evalRule bm H G (.elext s1 x z) = .ok c1 ∧
      vArith .add gz2 gz1 = .ok gzt ∧ evalRule bm H gzt (.scaleX 0) = .ok cz ∧
      vArith .add c2 c1 = .ok c21 ∧
      vArith .add c21 cz = .ok ⟨G.dims, List.zipWith (fun g a => g * leakyD m a) G.data (H.val x).data⟩) ∧
    (∀ a : ℝ, ((Scalar.eqThr : ℝ) < a → leakyD m a = 1) ∧ (a < -(Scalar.eqThr : ℝ) → leakyD m a = m) ∧
      (|a| ≤ (Scalar.eqThr : ℝ) → leakyD m a = (1 + m) / 2)) := by
  refine ⟨?_, fun a => leakyD_cases m a _ rfl eqThr_pos⟩
  have key := leaky_chain bm H x z s1 s2 s3 s1' s3' m G (fun _ => 1) hz hs1 hs2 hs1' hs3' wX wG hd
  rw [gz_one G (H.val x) wX wG hd] at key
  obtain ⟨g2, gz2, c2, gz1, c1, gzt, cz, c21, k1, k2, k3, k4, k5, k6, k7, k8, k9, k10, k11, k12⟩ := key
  refine ⟨g2, gz2, c2, gz1, c1, gzt, cz, c21, k1, k2, k3, k4, k5, k6, k7, k8, k9, k10, k11, ?_⟩
  rw [k12]
  exact congrArg Out.ok (gz_congr G (H.val x) _ _ (fun a => one_mul _))

/-! ## Softmax on a rank-1 input (`Dim = 0`), Broadcast rule in `sum` mode -/

theorem foldl_add_sum : ∀ (l : List ℝ) (a : ℝ), l.foldl Scalar.add a = a + l.sum
  | [], a => by simp
  | x :: xs, a => by rw [List.foldl_cons, foldl_add_sum xs, List.sum_cons, add_eq, add_assoc]

theorem tensor_sum_eq (t : Tensor ℝ) : t.sum = t.data.sum := by
  simp only [Tensor.sum, Tensor.fold, foldl_add_sum, zero_eq, zero_add]

theorem unsq_scalar (c : ℝ) : vUnSqueeze (⟨[], [c]⟩ : Tensor ℝ) ((0 : Nat) : Int) = .ok ⟨[1], [c]⟩ := by
  have hwf : (⟨[], [c]⟩ : Tensor ℝ).WF := ⟨by simp [prod], by simp⟩
  simp [vUnSqueeze, validUnSqueeze, C06.unsqueeze_data _ hwf, Out.ofOpt, unsqueezeDims]

theorem reshape_to_scalar (c : ℝ) : vReshape (⟨[1], [c]⟩ : Tensor ℝ) (([] : List Nat).map Int.ofNat) = .ok ⟨[], [c]⟩ := by
  have hwf : (⟨[1], [c]⟩ : Tensor ℝ).WF := ⟨by simp [prod], by simp⟩
  have := (C06.vReshape_total (⟨[1], [c]⟩ : Tensor ℝ) hwf []).1 ⟨by simp [validInputDims], by simp [natDims, prod]⟩
  simpa [natDims] using this

/-- the factor the `Broadcast` rule `[n] → [1]` puts on the sum of the upstream gradient: `1` in `sum` mode, `1/n` in
    `mean` mode (the library: `AvgAlong`, finding D2) -/
noncomputable def bfac (bm : BMode) (n : Nat) : ℝ :=
  match bm with
  | .sum => 1
  | .mean => 1 / (n : ℝ)

/-- the `Broadcast` rule `[1] → [n]`: the sum (`sum` mode) or the average (`mean` mode) of the upstream gradient, as a
    `[1]` tensor -/
theorem bcast_1n (bm : BMode) (n : Nat) (g : Tensor ℝ) (wg : g.WF) (dg : g.dims = [n]) :
    bcastRule bm [1] [n] g = .ok ⟨[1], [bfac bm n * g.data.sum]⟩ := by
  by_cases h1 : n = 1
  · subst h1
    have hl : g.data.length = 1 := by rw [wg.1, dg]; simp [prod]
    have hg : g = ⟨[1], [bfac bm 1 * g.data.sum]⟩ := by
      cases g with
      | mk dims data =>
        simp only at dg hl ⊢
        match data, hl with
        | [v], _ => cases bm <;> simp [dg, bfac]
    rw [C13.bcastRule_same]
    exact congrArg Out.ok hg
  · have hne : (1 : Nat) ≠ n := fun h => h1 h.symm
    have h0 : (((0 : Nat) : Int)) = (0 : Int) := rfl
    cases bm with
    | sum =>
      have hr : vAlong .sum g ((0 : Nat) : Int) = .ok ⟨[], [bfac .sum n * g.data.sum]⟩ := by
        rw [h0, C12.vAlong_rank1 .sum g n dg wg]
        simp only [Reducer.fn, tensor_sum_eq, bfac, one_mul]
      simp only [bcastRule, List.length_cons, List.length_nil, Nat.sub_self, bcastLead, bind, Out.bind, List.drop_zero,
        bcastExpand, hne, ne_eq, not_false_eq_true, if_true, hr, unsq_scalar]
    | mean =>
      have hr : vAlong .avg g ((0 : Nat) : Int) = .ok ⟨[], [bfac .mean n * g.data.sum]⟩ := by
        rw [h0, C12.vAlong_rank1 .avg g n dg wg]
        simp only [Reducer.fn, Tensor.avg, tensor_sum_eq, bfac, Tensor.numElems, dg, prod, div_eq, ofNat_eq, Nat.mul_one]
        congr 2
        rw [div_eq_mul_inv, one_div, mul_comm]
      simp only [bcastRule, List.length_cons, List.length_nil, Nat.sub_self, bcastLead, bind, Out.bind, List.drop_zero,
        bcastExpand, hne, ne_eq, not_false_eq_true, if_true, hr, unsq_scalar]

/-- the softmax denominator `Σ_k exp(x_k)` -/
noncomputable def expSum (X : Tensor ℝ) : ℝ := (X.data.map Real.exp).sum

/-- `softmax(x)` at the position holding the value `a` -/
noncomputable def smax (X : Tensor ℝ) (a : ℝ) : ℝ := Real.exp a / expSum X

theorem sum_zipWith_mul_left (k : ℝ) (f : ℝ → ℝ → ℝ) :
    ∀ (l m : List ℝ), (List.zipWith (fun g a => k * f g a) l m).sum = k * (List.zipWith f l m).sum
  | [], _ => by simp
  | _ :: _, [] => by simp
  | x :: l, y :: m => by simp [sum_zipWith_mul_left k f l m, mul_add]

theorem expSum_pos (X : Tensor ℝ) (wX : X.WF) : 0 < expSum X := by
  have hne : X.data ≠ [] := by
    intro h
    have := wX.1
    rw [h] at this
    have hp := prod_pos wX.2
    simp at this; omega
  unfold expSum
  cases hX : X.data with
  | nil => exact absurd hX hne
  | cons a l =>
    have : ∀ l : List ℝ, 0 ≤ (l.map Real.exp).sum := by
      intro l
      induction l with
      | nil => simp
      | cons b l ih => simp only [List.map_cons, List.sum_cons]; have := Real.exp_pos b; linarith
    simp only [List.map_cons, List.sum_cons]
    have h1 := Real.exp_pos a
    have h2 := this l
    linarith

/-- `Σ_i g_i · softmax(x)_i` -/
noncomputable def sdot (G X : Tensor ℝ) : ℝ := (List.zipWith (fun g a => g * smax X a) G.data X.data).sum

/-- the Softmax chain for either mode of the `Broadcast` rule: `s_j · (G_j − bfac · Σ_i G_i s_i)` arrives at `x` -/
theorem softmax_chain (bm : BMode) (H : Heap ℝ) (x e s s' e' s'' : Nat) (n : Nat) (G : Tensor ℝ)
    (dX : (H.val x).dims = [n])
    (he : H.val e = (H.val x).map Real.exp) (hs : (H.val s).dims = []) (hs' : (H.val s').dims = [1])
    (he' : H.val e' = H.val e) (hs'' : H.val s'' = ⟨[n], List.replicate n (expSum (H.val x))⟩)
    (wX : (H.val x).WF) (wG : G.WF) (hd : G.dims = [n]) :
    ∃ ga gb g1 g2 ce1 ce2 ge,
      evalRule bm H G (.divA s'') = .ok ga ∧
      evalRule bm H G (.divB e' s'') = .ok gb ∧
      evalRule bm H gb (.bcastX s' s'') = .ok g1 ∧
      evalRule bm H g1 (.reshapeX s) = .ok g2 ∧
      evalRule bm H g2 (.sumAlongX e 0) = .ok ce1 ∧
      evalRule bm H ga (.bcastX e e') = .ok ce2 ∧
      vArith .add ce1 ce2 = .ok ge ∧
      evalRule bm H ge (.expX e) = .ok ⟨[n], List.zipWith (fun g a => smax (H.val x) a * (g - bfac bm n * sdot G (H.val x)))
        G.data (H.val x).data⟩ := by
  have hn : 0 < n := wX.2 n (by rw [dX]; simp)
  have hlX : (H.val x).data.length = n := by rw [wX.1, dX]; simp [prod]
  have hlG : G.data.length = n := by rw [wG.1, hd]; simp [prod]
  have wE : (H.val e).WF := by rw [he]; exact map_wf _ _ wX
  have dE : (H.val e).dims = [n] := by rw [he]; exact dX
  have wS : (H.val s'').WF := by rw [hs'']; exact ⟨by simp [prod], by simpa using hn⟩
  have dS : (H.val s'').dims = [n] := by rw [hs'']
  obtain ⟨_, r2, r3⟩ := C02.rule_mul_div bm H G e' s'' wG (by rw [he']; exact wE) wS (by rw [he', dE, hd]) (by rw [dS, hd])
  -- the gradient towards the denominator, element-wise
  have hgb : List.zipWith (fun g p => g * p) G.data
        (List.zipWith (fun u v => (-1 * u) / v ^ (2 : ℝ)) (H.val e').data (H.val s'').data)
      = List.zipWith (fun g a => (-1 / expSum (H.val x)) * (g * smax (H.val x) a)) G.data (H.val x).data := by
    rw [he', he, hs'']
    apply List.ext_getElem
    · simp [Tensor.map, hlX, hlG]
    · intro i h1 h2
      simp only [Tensor.map, List.getElem_zipWith, List.getElem_map, List.getElem_replicate, smax, Real.rpow_two]
      ring
  have wgb : (⟨G.dims, List.zipWith (fun g a => (-1 / expSum (H.val x)) * (g * smax (H.val x) a)) G.data (H.val x).data⟩ : Tensor ℝ).WF := by
    refine ⟨?_, wG.2⟩
    simp [hlX, hlG, hd, prod]
  rw [hgb] at r3
  have hc : (List.zipWith (fun g a => (-1 / expSum (H.val x)) * (g * smax (H.val x) a)) G.data (H.val x).data).sum
      = (-1 / expSum (H.val x)) * sdot G (H.val x) := sum_zipWith_mul_left _ _ _ _
  -- Broadcast rule [n] → [1]
  have b1 : evalRule bm H (⟨G.dims, List.zipWith (fun g a => (-1 / expSum (H.val x)) * (g * smax (H.val x) a)) G.data (H.val x).data⟩ : Tensor ℝ)
      (.bcastX s' s'') = .ok ⟨[1], [bfac bm n * ((-1 / expSum (H.val x)) * sdot G (H.val x))]⟩ := by
    simp only [evalRule, hs', dS]
    rw [bcast_1n bm n _ wgb hd, hc]
  have b2 : evalRule bm H (⟨[1], [bfac bm n * ((-1 / expSum (H.val x)) * sdot G (H.val x))]⟩ : Tensor ℝ) (.reshapeX s)
      = .ok ⟨[], [bfac bm n * ((-1 / expSum (H.val x)) * sdot G (H.val x))]⟩ := by
    simp only [evalRule, hs]
    exact reshape_to_scalar _
  have b3 : evalRule bm H (⟨[], [bfac bm n * ((-1 / expSum (H.val x)) * sdot G (H.val x))]⟩ : Tensor ℝ) (.sumAlongX e 0)
      = .ok ⟨[n], List.replicate n (bfac bm n * ((-1 / expSum (H.val x)) * sdot G (H.val x)))⟩ := by
    simp only [evalRule, dE]
    exact C13.reducerBroadcasted_scalar _ n hn
  have wga : (⟨G.dims, List.zipWith (fun g v => g / v) G.data (H.val s'').data⟩ : Tensor ℝ).WF :=
    zip_wf _ G (H.val s'') wG wS (by rw [dS, hd])
  have wce1 : (⟨[n], List.replicate n (bfac bm n * ((-1 / expSum (H.val x)) * sdot G (H.val x)))⟩ : Tensor ℝ).WF :=
    ⟨by simp [prod], by simpa using hn⟩
  have b5 := vArith_same .add _ _ wce1 wga (by rw [hd])
  have wge := zip_wf Arith.add.fn _ _ wce1 wga (by rw [hd])
  refine ⟨_, _, _, _, _, _, _, r2, r3, b1, b2, b3, r_bcast bm H _ e e' (by rw [he']), b5, ?_⟩
  simp only [evalRule]
  rw [vArith_same .mul _ _ wge wE (by rw [dE])]
  congr 2
  rw [he, hs'']
  apply List.ext_getElem
  · simp [Tensor.map, hlX, hlG]
  · intro i h1 h2
    simp only [Tensor.map, Arith.fn, List.getElem_zipWith, List.getElem_map, List.getElem_replicate, smax,
      add_eq, mul_eq]
    ring

/-- **Softmax (rank-1 input, `Dim = 0`), local backward pass, `Broadcast` rule in `sum` mode.**
    The graph `actForward (.softmax 0)` builds on `x` of shape `[n]` (see `softmax_graph`): `e = Exp(x)`,
    `s = SumAlong(e,0)` (shape `[]`), `s' = UnSqueeze(s,0)` (shape `[1]`), `r = Div(e', s'')` with `e' = Broadcast(e,[n])`
    (identity) and `s'' = Broadcast(s',[n])` (a genuine expansion `[1] → [n]`). With `G` the gradient arriving at `r`, in
    the order the walk processes the edges: the two `Div` rules; towards the denominator the `Broadcast` rule
    `[n] → [1]`, `Reshape` to `[]`, the `SumAlong` rule (re-expansion to `[n]`); towards the numerator the identity
    `Broadcast` rule; the sum of the two contributions at `e`; the `Exp` rule. What arrives at `x` is
    `s_j · (G_j − Σ_i G_i s_i)` at every position `j`, `s = softmax(x)` — the product of `G` with the Jacobian
    `∂s_i/∂x_j = s_i (δ_ij − s_j)` (`softmax_jacobian_vjp`, `d_softmax`). Every length `n`, all values.

    Stated for `BMode.sum` only: with `BMode.mean` (what the library does, finding D2) the `[n] → [1]` step averages
    and the result is `s_j · (G_j − (1/n) Σ_i G_i s_i)`, wrong for `n > 1` — `softmax_local_vjp_mean_partial`. -/
theorem softmax_local_vjp (H : Heap ℝ) (x e s s' e' s'' : Nat) (n : Nat) (G : Tensor ℝ)
    (dX : (H.val x).dims = [n])
    (he : H.val e = (H.val x).map Real.exp) (hs : (H.val s).dims = []) (hs' : (H.val s').dims = [1])
    (he' : H.val e' = H.val e) (hs'' : H.val s'' = ⟨[n], List.replicate n (expSum (H.val x))⟩)
    (wX : (H.val x).WF) (wG : G.WF) (hd : G.dims = [n]) :
    ∃ ga gb g1 g2 ce1 ce2 ge,
      evalRule .sum H G (.divA s'') = .ok ga ∧
      evalRule .sum H G (.divB e' s'') = .ok gb ∧
      evalRule .sum H gb (.bcastX s' s'') = .ok g1 ∧
      evalRule .sum H g1 (.reshapeX s) = .ok g2 ∧
      evalRule .sum H g2 (.sumAlongX e 0) = .ok ce1 ∧
      evalRule .sum H ga (.bcastX e e') = .ok ce2 ∧
      vArith .add ce1 ce2 = .ok ge ∧
      evalRule .sum H ge (.expX e) = .ok ⟨[n], List.zipWith (fun g a => smax (H.val x) a * (g - sdot G (H.val x)))
        G.data (H.val x).data⟩ := by
  have key := softmax_chain .sum H x e s s' e' s'' n G dX he hs hs' he' hs'' wX wG hd
  simp only [bfac, one_mul] at key
  exact key

/-- **Softmax with the library's `Broadcast` rule (`mean` mode, finding D2)** — the strongest true statement: the same
    chain delivers `s_j · (G_j − (1/n) Σ_i G_i s_i)`. This is NOT the vector-Jacobian product for `n > 1` whenever
    `Σ_i G_i s_i ≠ 0` (`softmax_mean_ne_vjp`); e.g. `x = [0,0]`, `G = [1,0]`: `s = [½,½]`, the product with the
    Jacobian is `[¼, −¼]`, the `mean` chain delivers `[⅜, −⅛]`. For `n = 1` both are `0`. -/
theorem softmax_local_vjp_mean_partial (H : Heap ℝ) (x e s s' e' s'' : Nat) (n : Nat) (G : Tensor ℝ)
    (dX : (H.val x).dims = [n])
    (he : H.val e = (H.val x).map Real.exp) (hs : (H.val s).dims = []) (hs' : (H.val s').dims = [1])
    (he' : H.val e' = H.val e) (hs'' : H.val s'' = ⟨[n], List.replicate n (expSum (H.val x))⟩)
    (wX : (H.val x).WF) (wG : G.WF) (hd : G.dims = [n]) :
    ∃ ga gb g1 g2 ce1 ce2 ge,
      evalRule .mean H G (.divA s'') = .ok ga ∧
      evalRule .mean H G (.divB e' s'') = .ok gb ∧
      evalRule .mean H gb (.bcastX s' s'') = .ok g1 ∧
      evalRule .mean H g1 (.reshapeX s) = .ok g2 ∧
      evalRule .mean H g2 (.sumAlongX e 0) = .ok ce1 ∧
      evalRule .mean H ga (.bcastX e e') = .ok ce2 ∧
      vArith .add ce1 ce2 = .ok ge ∧
      evalRule .mean H ge (.expX e) = .ok ⟨[n], List.zipWith (fun g a => smax (H.val x) a * (g - 1 / (n : ℝ) * sdot G (H.val x)))
        G.data (H.val x).data⟩ :=
  softmax_chain .mean H x e s s' e' s'' n G dX he hs hs' he' hs'' wX wG hd

/-- the `mean` result differs from the vector-Jacobian product at EVERY position as soon as `n > 1` and
    `Σ_i G_i s_i ≠ 0` -/
theorem softmax_mean_ne_vjp (X : Tensor ℝ) (wX : X.WF) (n : Nat) (hn : 1 < n) (g a d : ℝ) (hd : d ≠ 0) :
    smax X a * (g - 1 / (n : ℝ) * d) ≠ smax X a * (g - d) := by
  have hs : smax X a ≠ 0 := (div_pos (Real.exp_pos a) (expSum_pos X wX)).ne'
  have hn' : (n : ℝ) ≠ 0 := by positivity
  have hn1 : (n : ℝ) ≠ 1 := by
    intro h
    have : n = 1 := by exact_mod_cast h
    omega
  intro h
  have h2 := mul_left_cancel₀ hs h
  have h3 : 1 / (n : ℝ) * d = 1 * d := by linarith
  have h4 := mul_right_cancel₀ hd h3
  apply hn1
  field_simp at h4
  linarith

/-! ### the Softmax Jacobian (Mathlib) -/

/-- softmax on `Fin n → ℝ` -/
noncomputable def softmaxF {n : ℕ} (x : Fin n → ℝ) (i : Fin n) : ℝ := Real.exp (x i) / ∑ k, Real.exp (x k)

/-- **`∂ softmax_i / ∂ x_j = s_i (δ_ij − s_j)`** -/
theorem d_softmax {n : ℕ} (x : Fin n → ℝ) (i j : Fin n) :
    HasDerivAt (fun t => softmaxF (Function.update x j t) i)
      (softmaxF x i * ((if i = j then 1 else 0) - softmaxF x j)) (x j) := by
  have hD : HasDerivAt (fun t => ∑ k, Real.exp (Function.update x j t k)) (Real.exp (x j)) (x j) := by
    have := hasDerivAt_weighted_map Real.exp Real.exp x (fun _ => 1) j (Real.hasDerivAt_exp (x j))
    simpa using this
  have hN : HasDerivAt (fun t => Real.exp (Function.update x j t i)) (if i = j then Real.exp (x j) else 0) (x j) := by
    by_cases hij : i = j
    · subst hij
      simp only [Function.update_self, if_true]
      exact Real.hasDerivAt_exp (x i)
    · simp only [Function.update_of_ne hij, hij, if_false]
      exact hasDerivAt_const _ _
  have hS : (0 : ℝ) < ∑ k, Real.exp (x k) :=
    Finset.sum_pos (fun k _ => Real.exp_pos (x k)) ⟨j, Finset.mem_univ j⟩
  have hne : (fun t => ∑ k, Real.exp (Function.update x j t k)) (x j) ≠ 0 := by
    simp only [Function.update_eq_self]; exact hS.ne'
  have h := hN.div hD hne
  unfold softmaxF
  refine h.congr_deriv ?_
  simp only [Function.update_eq_self]
  have := hS.ne'
  by_cases hij : i = j
  · subst hij; simp only [if_true]; field_simp
  · simp only [hij, if_false]; field_simp; ring

/-- the product of an upstream gradient with that Jacobian -/
theorem softmax_jacobian_vjp {n : ℕ} (x g : Fin n → ℝ) (j : Fin n) :
    ∑ i, g i * (softmaxF x i * ((if i = j then 1 else 0) - softmaxF x j))
      = softmaxF x j * (g j - ∑ i, g i * softmaxF x i) := by
  have h1 : ∀ i, g i * (softmaxF x i * ((if i = j then 1 else 0) - softmaxF x j))
      = (if i = j then g i * softmaxF x i else 0) - softmaxF x j * (g i * softmaxF x i) := by
    intro i
    by_cases hij : i = j
    · simp only [hij, if_true]; ring
    · simp only [hij, if_false]; ring
  simp only [h1, Finset.sum_sub_distrib, Finset.sum_ite_eq', Finset.mem_univ, if_true, ← Finset.mul_sum]
  ring

/-- **the vector-Jacobian product of Softmax**: the partial derivative with respect to `x_j` of the `g`-weighted sum of
    the outputs is `s_j (g_j − Σ_i g_i s_i)` — what `softmax_local_vjp` shows the rules deliver -/
theorem softmax_vjp_deriv {n : ℕ} (x g : Fin n → ℝ) (j : Fin n) :
    HasDerivAt (fun t => ∑ i, g i * softmaxF (Function.update x j t) i)
      (softmaxF x j * (g j - ∑ i, g i * softmaxF x i)) (x j) := by
  have h : ∀ i ∈ (Finset.univ : Finset (Fin n)),
      HasDerivAt (fun t => g i * softmaxF (Function.update x j t) i)
        (g i * (softmaxF x i * ((if i = j then 1 else 0) - softmaxF x j))) (x j) :=
    fun i _ => (d_softmax x i j).const_mul (g i)
  have := HasDerivAt.fun_sum h
  rw [softmax_jacobian_vjp] at this
  exact this

/-- bridge: the list-level quantities of `softmax_local_vjp` are the `Fin n` ones -/
theorem smax_ofFn {n : ℕ} (x : Fin n → ℝ) (X : Tensor ℝ) (hX : X.data = List.ofFn x) (j : Fin n) :
    smax X (x j) = softmaxF x j := by
  unfold smax softmaxF expSum
  rw [hX, List.map_ofFn, List.sum_ofFn]
  rfl

theorem sdot_ofFn {n : ℕ} (x g : Fin n → ℝ) (G X : Tensor ℝ) (hG : G.data = List.ofFn g) (hX : X.data = List.ofFn x) :
    sdot G X = ∑ i, g i * softmaxF x i := by
  have hz : List.zipWith (fun g a => g * smax X a) G.data X.data = List.ofFn (fun i => g i * softmaxF x i) := by
    rw [hG]
    conv => lhs; rw [hX]
    apply List.ext_getElem
    · simp
    · intro i h1 h2
      simp only [List.getElem_zipWith, List.getElem_ofFn]
      rw [smax_ofFn x X hX]
  unfold sdot
  rw [hz, List.sum_ofFn]

/-! ### the Softmax graph on a rank-1 input -/

theorem vBroadcastN_one (c : ℝ) (n : Nat) (hn : 0 < n) :
    vBroadcastN (⟨[1], [c]⟩ : Tensor ℝ) [n] = .ok ⟨[n], List.replicate n c⟩ := by
  have hpos : validInputDims ([n].map Int.ofNat) = true := by
    simp [validInputDims]; omega
  unfold vBroadcastN vBroadcast
  rw [hpos]
  have : validBroadcast [1] (natDims ([n].map Int.ofNat)) = true := by simp [natDims, validBroadcast, validBroadcastLE]
  simp only [this, Bool.and_self, if_true]
  have hnd : natDims ([n].map Int.ofNat) = [n] := by simp [natDims]
  rw [hnd, C13.broadcast_one c n hn]; rfl

theorem target_n_1 (n : Nat) (hn : 0 < n) : targetBroadcastDims [n] [1] = [n] := by
  simp only [targetBroadcastDims, List.reverse_cons, List.reverse_nil, List.nil_append, targetBroadcastLE]
  by_cases h : n > 1
  · simp [h]
  · have : n = 1 := by omega
    simp [this]

/-- **the graph Softmax (`Dim = 0`) builds** on a tracked, unspent rank-1 input `x` of shape `[n]`: six new tensors
    `e = Exp(x)`, `s = SumAlong(e,0)`, `s' = UnSqueeze(s,0)`, `e' = Broadcast(e,[n])`, `s'' = Broadcast(s',[n])`,
    `r = Div(e',s'')`; their values — in particular **`r_j = exp(x_j) / Σ_k exp(x_k)`** — and their back edges -/
theorem softmax_graph (H : Heap ℝ) (x n : Nat) (hwf : (H.val x).WF) (dX : (H.val x).dims = [n]) (l : Live H x) :
    ∃ e s s' e' s'' r H', actForward (Activation.softmax 0) [some x] H = .ok (r, H') ∧ Extends H H' ∧
      H'.val x = H.val x ∧
      H'.val e = (H.val x).map Real.exp ∧ (H'.val s).dims = [] ∧ (H'.val s').dims = [1] ∧
      H'.val e' = H'.val e ∧ H'.val s'' = ⟨[n], List.replicate n (expSum (H.val x))⟩ ∧
      H'.val r = (H.val x).map (smax (H.val x)) ∧
      H'.ctx e = liveCtx [⟨x, .expX e⟩] ∧
      H'.ctx s = liveCtx [⟨e, .sumAlongX e 0⟩] ∧
      H'.ctx s' = liveCtx [⟨s, .reshapeX s⟩] ∧
      H'.ctx e' = liveCtx [⟨e, .bcastX e e'⟩] ∧
      H'.ctx s'' = liveCtx [⟨s', .bcastX s' s''⟩] ∧
      H'.ctx r = liveCtx [⟨e', .divA s''⟩, ⟨s'', .divB e' s''⟩] := by
  have hn : 0 < n := hwf.2 n (by rw [dX]; simp)
  have hlX : (H.val x).data.length = n := by rw [hwf.1, dX]; simp [prod]
  have h0 : (((0 : Nat) : Int)) = (0 : Int) := rfl
  -- forward run
  obtain ⟨e, H1, re⟩ := ran_hUnary .exp x H
  have vE : H1.val e = (H.val x).map Real.exp := by rw [re.val]; rfl
  have wE : (H1.val e).WF := by rw [vE]; exact map_wf _ _ hwf
  have dE : (H1.val e).dims = [n] := by rw [vE]; exact dX
  have hsum : (H1.val e).sum = expSum (H.val x) := by rw [tensor_sum_eq, vE]; rfl
  obtain ⟨s, H2, rs⟩ := ran_hAlong .sum e ((0 : Nat) : Int) H1 ⟨[], [expSum (H.val x)]⟩
    (by rw [h0, C12.vAlong_rank1 .sum _ n dE wE]; simp only [Reducer.fn, hsum])
  obtain ⟨s', H3, rs'⟩ := ran_hUnSqueeze s ((0 : Nat) : Int) H2 ⟨[1], [expSum (H.val x)]⟩
    (by rw [rs.val]; exact unsq_scalar _)
  have e13 : Extends H1 H3 := rs.ext.trans rs'.ext
  have vE3 : H3.val e = (H.val x).map Real.exp := by rw [e13.val re.lt, vE]
  have hz : Tensor.zipRaw Arith.div.fn (H3.val e) (⟨[n], List.replicate n (expSum (H.val x))⟩ : Tensor ℝ)
      = some ⟨[n], List.zipWith Arith.div.fn (H3.val e).data (List.replicate n (expSum (H.val x)))⟩ := by
    simp [Tensor.zipRaw, vE3, Tensor.map, dX, hlX]
  obtain ⟨r, H4, rr⟩ := ran_hArith .div e s' H3 (Nat.lt_of_lt_of_le re.lt e13.1) rs'.lt (H3.val e)
    ⟨[n], List.replicate n (expSum (H.val x))⟩ _
    (by rw [rs'.val, vE3]; simp only [Tensor.map, dX, target_n_1 n hn]
        have := vBroadcastN_self ((H.val x).map Real.exp) (map_wf _ _ hwf)
        simpa [Tensor.map, dX] using this)
    (by rw [rs'.val, vE3]; simp only [Tensor.map, dX, target_n_1 n hn]; exact vBroadcastN_one _ n hn)
    hz
  have hrun : actForward (Activation.softmax 0) [some x] H = .ok (r, H4) := by
    unfold actForward
    rw [bind_run (show (liftOut (oneInput [some x]) : HM ℝ Nat) H = .ok (x, H) from rfl)]
    simp only []
    rw [bind_run (show (getHeap : HM ℝ (Heap ℝ)) H = .ok (H, H) from rfl)]
    rw [if_neg (by rw [dX]; simp)]
    rw [bind_run re.run, bind_run rs.run, bind_run rs'.run]
    exact rr.run
  -- inversion: contexts
  have le1 : Live H1 e := by
    obtain ⟨_, _, c, l'⟩ := hUnary_live re.run l
    exact l'
  obtain ⟨_, _, ce, _⟩ := hUnary_live re.run l
  obtain ⟨_, _, cs, ls⟩ := hAlong_live rs.run le1
  obtain ⟨_, _, cs', ls'⟩ := hUnSqueeze_live rs'.run ls
  have le3 : Live H3 e := le1.ext e13
  obtain ⟨e', s'', e4, ve', vs'', _, ce', cs'', cr, le', ls'', lr⟩ := hArith_live rr.run le3 ls'
  rw [rs'.val, vE3] at ve' vs''
  simp only [Tensor.map, dX, target_n_1 n hn] at ve' vs''
  rw [vBroadcastN_one _ n hn] at vs''
  have hself := vBroadcastN_self ((H.val x).map Real.exp) (map_wf _ _ hwf)
  simp only [Tensor.map, dX] at hself
  rw [hself] at ve'
  injection ve' with ve'
  injection vs'' with vs''
  have hext : Extends H H4 := ((re.ext.trans rs.ext).trans rs'.ext).trans rr.ext
  refine ⟨e, s, s', e', s'', r, H4, hrun, hext, hext.val l.1, ?_, ?_, ?_, ?_, vs''.symm, ?_, ?_, ?_, ?_, ce', cs'', cr⟩
  · rw [e4.val le3.1, vE3]
  · rw [(rs'.ext.trans rr.ext).val rs.lt, rs.val]
  · rw [rr.ext.val rs'.lt, rs'.val]
  · rw [← ve', e4.val le3.1, vE3]; simp only [Tensor.map, dX]
  · rw [rr.val, vE3]
    simp only [Tensor.map, Arith.fn, dX]
    congr 1
    apply List.ext_getElem
    · simp [hlX]
    · intro i h1 h2
      simp [smax]
  · rw [(e13.trans e4).ctx le1.1, ce]; rfl
  · rw [(rs'.ext.trans rr.ext).ctx ls.1, cs]; rfl
  · rw [rr.ext.ctx ls'.1, cs']

/-! ## Graph and local backward pass together

For the heap the forward pass actually returns: the back edges (which rule sits on which edge) and, for every
upstream gradient `G` of the result's shape, the local backward pass along exactly those edges. By
`C01.backprop_adjoint` these rule applications are what `BackPropagate` performs, once per edge. -/

/-- **Sigmoid** -/
theorem sigmoid_vjp_on_graph (bm : BMode) (H : Heap ℝ) (x : Nat) (hwf : (H.val x).WF) (l : Live H x) :
    ∃ o x1 x2 o' x2' y r H', actForward Activation.sigmoid [some x] H = .ok (r, H') ∧
      H'.val r = (H.val x).map sig ∧
      H'.ctx r = liveCtx [⟨y, .powX y (-1)⟩] ∧ H'.ctx y = liveCtx [⟨o', .idG⟩, ⟨x2', .idG⟩] ∧
      H'.ctx o' = liveCtx [⟨o, .bcastX o o'⟩] ∧ H'.ctx x2' = liveCtx [⟨x2, .bcastX x2 x2'⟩] ∧
      H'.ctx o = liveCtx [⟨x, .powX x 0⟩] ∧ H'.ctx x2 = liveCtx [⟨x1, .expX x2⟩] ∧ H'.ctx x1 = liveCtx [⟨x, .scaleX (-1)⟩] ∧
      ∀ G : Tensor ℝ, G.WF → G.dims = (H.val x).dims →
        ∃ gy go gx2 gx1 c1 c2,
          evalRule bm H' G (.powX y (-1)) = .ok gy ∧ evalRule bm H' gy .idG = .ok gy ∧
          evalRule bm H' gy (.bcastX o o') = .ok go ∧ evalRule bm H' gy (.bcastX x2 x2') = .ok gx2 ∧
          evalRule bm H' go (.powX x 0) = .ok c1 ∧
          evalRule bm H' gx2 (.expX x2) = .ok gx1 ∧ evalRule bm H' gx1 (.scaleX (-1)) = .ok c2 ∧
          vArith .add c2 c1 = .ok ⟨G.dims, List.zipWith (fun g a => g * (sig a * (1 - sig a))) G.data (H.val x).data⟩ := by
  obtain ⟨o, x1, x2, o', x2', y, r, H', hrun, _, hx, hx2, ho', hx2', hy, hr, co, cx1, cx2, co', cx2', cy, cr⟩ :=
    sigmoid_graph H x hwf l
  refine ⟨o, x1, x2, o', x2', y, r, H', hrun, hr, cr, cy, co', cx2', co, cx2, cx1, ?_⟩
  intro G wG hd
  have := (sigmoid_local_vjp bm H' x o x2 o' x2' y G (by rw [hx]; exact hx2) ho' hx2' (by rw [hx]; exact hy)
    (by rw [hx]; exact hwf) wG (by rw [hx]; exact hd)).1
  rw [hx] at this
  exact this

/-- **LeakyRelu** -/
theorem leaky_vjp_on_graph (bm : BMode) (m : ℝ) (H : Heap ℝ) (x : Nat) (hwf : (H.val x).WF) (l : Live H x) :
    ∃ z s1 s2 s3 s1' s3' r H', actForward (Activation.leaky m) [some x] H = .ok (r, H') ∧
      H'.val r = (H.val x).map (fun a => max 0 a + m * min 0 a) ∧
      H'.ctx r = liveCtx [⟨s1', .idG⟩, ⟨s3', .idG⟩] ∧
      H'.ctx s1' = liveCtx [⟨s1, .bcastX s1 s1'⟩] ∧ H'.ctx s3' = liveCtx [⟨s3, .bcastX s3 s3'⟩] ∧
      H'.ctx s3 = liveCtx [⟨s2, .scaleX m⟩] ∧
      H'.ctx s2 = liveCtx [⟨z, .elext s2 z x⟩, ⟨x, .elext s2 x z⟩] ∧
      H'.ctx s1 = liveCtx [⟨z, .elext s1 z x⟩, ⟨x, .elext s1 x z⟩] ∧
      H'.ctx z = liveCtx [⟨x, .scaleX 0⟩] ∧
      ∀ G : Tensor ℝ, G.WF → G.dims = (H.val x).dims →
        ∃ g2 gz2 c2 gz1 c1 gzt cz c21,
          evalRule bm H' G .idG = .ok G ∧
          evalRule bm H' G (.bcastX s1 s1') = .ok G ∧ evalRule bm H' G (.bcastX s3 s3') = .ok G ∧
          evalRule bm H' G (.scaleX m) = .ok g2 ∧
          evalRule bm H' g2 (.elext s2 z x) = .ok gz2 ∧ evalRule bm H' g2 (.elext s2 x z) = .ok c2 ∧
          evalRule bm H' G (.elext s1 z x) = .ok gz1 ∧ evalRule bm H' G (.elext s1 x z) = .ok c1 ∧
          vArith .add gz2 gz1 = .ok gzt ∧ evalRule bm H' gzt (.scaleX 0) = .ok cz ∧
          vArith .add c2 c1 = .ok c21 ∧
          vArith .add c21 cz = .ok ⟨G.dims, List.zipWith (fun g a => g * leakyD m a) G.data (H.val x).data⟩ := by
  obtain ⟨z, s1, s2, s3, s1', s3', r, H', hrun, _, hx, hz, hs1, hs2, hs1', hs3', hr, cz, cs1, cs2, cs3, cs1', cs3', cr⟩ :=
    leaky_graph m H x hwf l
  refine ⟨z, s1, s2, s3, s1', s3', r, H', hrun, hr, cr, cs1', cs3', cs3, cs2, cs1, cz, ?_⟩
  intro G wG hd
  have := (leaky_local_vjp bm H' x z s1 s2 s3 s1' s3' m G (by rw [hx]; exact hz) (by rw [hx]; exact hs1)
    (by rw [hx]; exact hs2) hs1' hs3' (by rw [hx]; exact hwf) wG (by rw [hx]; exact hd)).1
  rw [hx] at this
  exact this

/-- **Softmax**, rank-1 input, `Broadcast` rule in `sum` mode -/
theorem softmax_vjp_on_graph (H : Heap ℝ) (x n : Nat) (hwf : (H.val x).WF) (dX : (H.val x).dims = [n]) (l : Live H x) :
    ∃ e s s' e' s'' r H', actForward (Activation.softmax 0) [some x] H = .ok (r, H') ∧
      H'.val r = (H.val x).map (smax (H.val x)) ∧
      H'.ctx r = liveCtx [⟨e', .divA s''⟩, ⟨s'', .divB e' s''⟩] ∧
      H'.ctx s'' = liveCtx [⟨s', .bcastX s' s''⟩] ∧ H'.ctx s' = liveCtx [⟨s, .reshapeX s⟩] ∧
      H'.ctx s = liveCtx [⟨e, .sumAlongX e 0⟩] ∧ H'.ctx e' = liveCtx [⟨e, .bcastX e e'⟩] ∧
      H'.ctx e = liveCtx [⟨x, .expX e⟩] ∧
      ∀ G : Tensor ℝ, G.WF → G.dims = [n] →
        ∃ ga gb g1 g2 ce1 ce2 ge,
          evalRule .sum H' G (.divA s'') = .ok ga ∧ evalRule .sum H' G (.divB e' s'') = .ok gb ∧
          evalRule .sum H' gb (.bcastX s' s'') = .ok g1 ∧ evalRule .sum H' g1 (.reshapeX s) = .ok g2 ∧
          evalRule .sum H' g2 (.sumAlongX e 0) = .ok ce1 ∧ evalRule .sum H' ga (.bcastX e e') = .ok ce2 ∧
          vArith .add ce1 ce2 = .ok ge ∧
          evalRule .sum H' ge (.expX e) = .ok ⟨[n], List.zipWith (fun g a => smax (H.val x) a * (g - sdot G (H.val x)))
            G.data (H.val x).data⟩ := by
  obtain ⟨e, s, s', e', s'', r, H', hrun, _, hx, he, hs, hs', he', hs'', hr, ce, cs, cs', ce', cs'', cr⟩ :=
    softmax_graph H x n hwf dX l
  refine ⟨e, s, s', e', s'', r, H', hrun, hr, cr, cs'', cs', cs, ce', ce, ?_⟩
  intro G wG hd
  have := softmax_local_vjp H' x e s s' e' s'' n G (by rw [hx]; exact dX) (by rw [hx]; exact he) hs hs' he'
    (by rw [hx]; exact hs'') (by rw [hx]; exact hwf) wG hd
  rw [hx] at this
  exact this

/-- non-vacuity: a heap with a tracked, unspent, well-formed rank-1 tensor -/
example : ∃ (H : Heap ℝ) (x : Nat), (H.val x).WF ∧ (H.val x).dims = [2] ∧ Live H x :=
  ⟨#[⟨⟨[2], [1, -1]⟩, freshCtx true⟩], 0, by simp [Heap.val, Tensor.WF, prod], by simp [Heap.val],
    by simp [Live, Heap.tracked, Heap.dirty, Heap.ctx, freshCtx]⟩

end C15x
end Qeep
