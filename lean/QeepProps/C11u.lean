import QeepProps.C11v
import QeepProps.C11x
import QeepProps.C15y
import QeepProps.C16t
import QeepProps.C15t
/-!
# C11 — the two-layer network: `BackPropagate` succeeds (leaf parameters, data input), hence the gradients unconditionally

`mlp_backprop_ok`: for FC → Sigmoid → FC over leaf parameters and an untracked, unspent input, the walk from the output
returns without error, in either mode: `C01p.backprop_ok` with the shape invariant `mlpShape`, the per-edge lemmas `C16t.fc_edge_ok`
(both layers) and `C15t.sg_edge_ok`, and the exact set of tensors the walk visits.
-/
set_option linter.unusedSimpArgs false
set_option linter.unusedSectionVars false
set_option linter.unusedVariables false

namespace Qeep
namespace C11u
open RealScalar C01 C01x C01z C01w C01q C16x C16z C16w C16u C16t C15x C15z C15u C15t

/-- the shape of every gradient on the walk through FC(D→O) → Sigmoid → FC(O→P) built on a heap of size `k` -/
def mlpShape (k N D O P w2 b2 : Nat) (n : Nat) : List Nat :=
  if k + 16 ≤ n then fcShape N O P (n - (k + 16))
  else if k + 9 ≤ n then [N, O]
  else if k ≤ n then fcShape N D O (n - k)
  else if n = w2 ∨ n = b2 then [P]
  else [O]

theorem mlp_backprop_ok (bm : BMode) (H : Heap ℝ) (w1 b1 w2 b2 x N D O P : Nat) (hR : Reach bm H)
    (lw1 : Live H w1) (lb1 : Live H b1) (lw2 : Live H w2) (lb2 : Live H b2)
    (hx : x < H.size) (cx : H.dirty x = false) (ux : H.tracked x = false)
    (h12 : w1 ≠ b1) (h34 : w2 ≠ b2) (h13 : w1 ≠ w2) (h14 : w1 ≠ b2) (h23 : b1 ≠ w2) (h24 : b1 ≠ b2)
    (ww1 : (H.val w1).WF) (wb1 : (H.val b1).WF) (ww2 : (H.val w2).WF) (wb2 : (H.val b2).WF) (wx : (H.val x).WF)
    (dw1 : (H.val w1).dims = [O]) (db1 : (H.val b1).dims = [O]) (dw2 : (H.val w2).dims = [P]) (db2 : (H.val b2).dims = [P])
    (dx : (H.val x).dims = [N, D])
    (lf1 : (H.ctx w1).edges = []) (lf2 : (H.ctx b1).edges = []) (lf3 : (H.ctx w2).edges = []) (lf4 : (H.ctx b2).edges = [])
    (K1 K2 K3 : Heap ℝ) (q1 : fcForward ⟨some w1, some b1⟩ [some x] H = .ok (H.size + 8, K1))
    (q2 : actForward Activation.sigmoid [some (H.size + 8)] K1 = .ok (H.size + 9 + 6, K2))
    (q3 : fcForward ⟨some w2, some b2⟩ [some (H.size + 9 + 6)] K2 = .ok (H.size + 16 + 8, K3)) :
    (backprop bm K3 (H.size + 16 + 8)).status = .ok () := by
  have hw1 := lw1.1; have hb1 := lb1.1; have hw2 := lw2.1; have hb2 := lb2.1
  -- stage 1: the first layer
  obtain ⟨H1, r1, x1, s1, g1⟩ := fc_forward_graph N D O w1 b1 x H hw1 hb1 hx _ _ _
    (is1_self _ ww1 O dw1) (is1_self _ wb1 O db1) (is2_self _ wx N D dx)
  have eK1 := (C15w.run_unique r1 q1).2; subst eK1
  have R1 : Reach bm H1 := reach_fcForward hR hw1 hb1 hx r1
  have flag1 : ∀ n, n < H.size → H1.ctx n = H.ctx n := fun n hn => x1.ctx hn
  have ly1 : Live H1 (H.size + 8) := fc_result_live g1 (by omega)
    (by have := lw1.2.1; simp only [Heap.tracked, flag1 w1 hw1] at this ⊢; exact this)
    (by have := lb1.2.1; simp only [Heap.tracked, flag1 b1 hb1] at this ⊢; exact this)
    (by have := lw1.2.2; simp only [Heap.dirty, flag1 w1 hw1] at this ⊢; exact this)
    (by have := lb1.2.2; simp only [Heap.dirty, flag1 b1 hb1] at this ⊢; exact this)
    (by simp only [Heap.dirty, flag1 x hx] at cx ⊢; exact cx)
  -- stage 2: the activation
  obtain ⟨a, H2, r2, x2, R2, ea, s2, _, v2, v3, v4, v5, va, c0, c1, c2, c3, c4, c5, c6⟩ :=
    sigmoid_full bm H1 (H.size + 8) R1 g1.y.wf ly1
  subst ea
  rw [s1] at r2 s2 v2 v3 v4 v5 va c0 c1 c2 c3 c4 c5 c6
  have eK2 := (C15w.run_unique r2 q2).2; subst eK2
  have wa : (H2.val (H.size + 9 + 6)).WF := by rw [va]; exact map_wf _ _ g1.y.wf
  have da : (H2.val (H.size + 9 + 6)).dims = [N, O] := by rw [va]; exact g1.y.dims
  have flag2 : ∀ n, n < H.size + 9 → H2.ctx n = H1.ctx n := fun n hn => x2.ctx (by omega)
  have val2 : ∀ n, n < H.size + 9 → H2.val n = H1.val n := fun n hn => x2.val (by omega)
  -- stage 3: the second layer
  have hw2' : w2 < H2.size := by omega
  have hb2' : b2 < H2.size := by omega
  have vw2 : H2.val w2 = H.val w2 := by rw [val2 w2 (by omega), x1.val hw2]
  have vb2 : H2.val b2 = H.val b2 := by rw [val2 b2 (by omega), x1.val hb2]
  obtain ⟨H3, r3, x3, s3, g3⟩ := fc_forward_graph N O P w2 b2 (H.size + 9 + 6) H2 hw2' hb2' (by omega) _ _ _
    (is1_self _ (by rw [vw2]; exact ww2) P (by rw [vw2]; exact dw2))
    (is1_self _ (by rw [vb2]; exact wb2) P (by rw [vb2]; exact db2)) (is2_self _ wa N O da)
  have R3 : Reach bm H3 := reach_fcForward R2 hw2' hb2' (by omega) r3
  have k3 : H2.size = H.size + 16 := by omega
  rw [k3] at r3 s3 g3
  have eK3 := (C15w.run_unique r3 q3).2; subst eK3
  -- everything in the final heap
  have hdag := reach_dag R3
  have hdagH := reach_dag hR
  have flag3 : ∀ n, n < H.size + 16 → H3.ctx n = H2.ctx n := fun n hn => x3.ctx (by omega)
  have val3 : ∀ n, n < H.size + 16 → H3.val n = H2.val n := fun n hn => x3.val (by omega)
  have ctxH : ∀ n, n < H.size → H3.ctx n = H.ctx n := fun n hn => by rw [flag3 n (by omega), flag2 n (by omega), flag1 n hn]
  have valH : ∀ n, n < H.size → H3.val n = H.val n := fun n hn => by rw [val3 n (by omega), val2 n (by omega), x1.val hn]
  have G1 : FCGraph H3 w1 b1 x H.size N D O _ _ _ := FCGraph.ext g1 (x2.trans x3) hw1 hb1 hx (by omega)
  have hc : ∀ i, i ≤ 6 → H3.ctx (H.size + 9 + i) = liveCtx (sgEdges (H.size + 8) (H.size + 9) i) := by
    intro i hi
    rw [flag3 (H.size + 9 + i) (by omega)]
    interval_cases i
    · exact c0
    · exact c1
    · exact c2
    · exact c3
    · exact c4
    · exact c5
    · exact c6
  -- where an edge of the final heap can come from
  have hE : ∀ v, ∀ e ∈ (H3.ctx v).edges,
      (v < H.size ∧ e ∈ (H.ctx v).edges) ∨ (∃ i, i ≤ 8 ∧ v = H.size + i ∧ e ∈ fcEdges w1 b1 x H.size i) ∨
      (∃ i, i ≤ 6 ∧ v = H.size + 9 + i ∧ e ∈ sgEdges (H.size + 8) (H.size + 9) i) ∨
      (∃ i, i ≤ 8 ∧ v = H.size + 16 + i ∧ e ∈ fcEdges w2 b2 (H.size + 9 + 6) (H.size + 16) i) := by
    intro v e he
    by_cases h1 : v < H.size
    · left; rw [ctxH v h1] at he; exact ⟨h1, he⟩
    · by_cases h2 : v < H.size + 9
      · right; left
        obtain ⟨i, hi, rfl⟩ : ∃ i, i ≤ 8 ∧ v = H.size + i := ⟨v - H.size, by omega, by omega⟩
        exact ⟨i, hi, rfl, fc_edges_sub G1 i hi e he⟩
      · by_cases h3 : v < H.size + 16
        · right; right; left
          obtain ⟨i, hi, rfl⟩ : ∃ i, i ≤ 6 ∧ v = H.size + 9 + i := ⟨v - (H.size + 9), by omega, by omega⟩
          rw [hc i hi] at he
          exact ⟨i, hi, rfl, he⟩
        · by_cases h4 : v < H.size + 25
          · right; right; right
            obtain ⟨i, hi, rfl⟩ : ∃ i, i ≤ 8 ∧ v = H.size + 16 + i := ⟨v - (H.size + 16), by omega, by omega⟩
            exact ⟨i, hi, rfl, fc_edges_sub g3 i hi e he⟩
          · rw [C16z.ctx_beyond H3 v (by omega)] at he; simp at he
  -- flags of the parameters and of the layer results in the final heap
  have live3 : ∀ n, n < H.size → Live H n → H3.tracked n = true ∧ H3.dirty n = false ∧ H3.grad n = none := by
    intro n hn l
    have g := reach_clean_nograd hR n l.2.2
    refine ⟨?_, ?_, ?_⟩
    · have := l.2.1; simp only [Heap.tracked, ctxH n hn] at this ⊢; exact this
    · have := l.2.2; simp only [Heap.dirty, ctxH n hn] at this ⊢; exact this
    · simp only [Heap.grad, ctxH n hn] at g ⊢; exact g
  obtain ⟨tw1, cw1, gw1⟩ := live3 w1 hw1 lw1
  obtain ⟨tb1, cb1, gb1⟩ := live3 b1 hb1 lb1
  obtain ⟨tw2, cw2, gw2⟩ := live3 w2 hw2 lw2
  obtain ⟨tb2, cb2, gb2⟩ := live3 b2 hb2 lb2
  have cx3 : H3.dirty x = false := by simp only [Heap.dirty, ctxH x hx] at cx ⊢; exact cx
  have gn1 : ∀ n, H.size ≤ n → H1.grad n = none := (fresh_fcForward _ _ H _ H1 r1).2
  have gn2 : ∀ n, H.size + 9 ≤ n → H2.grad n = none := fun n hn => (fresh_actForward _ _ H1 _ H2 r2).2 n (by omega)
  have gn3 : ∀ n, H.size + 16 ≤ n → H3.grad n = none := fun n hn => (fresh_fcForward _ _ H2 _ H3 r3).2 n (by omega)
  have gnew : ∀ n, H.size ≤ n → H3.grad n = none := by
    intro n hn
    by_cases h2 : n < H.size + 9
    · have := gn1 n hn
      simp only [Heap.grad, flag3 n (by omega), flag2 n h2] at this ⊢; exact this
    · by_cases h3 : n < H.size + 16
      · have := gn2 n (by omega)
        simp only [Heap.grad, flag3 n h3] at this ⊢; exact this
      · exact gn3 n (by omega)
  -- the activation's result in the final heap: live
  obtain ⟨_, ta2, _⟩ := liveCtx_grad H2 _ _ c6
  have ta3 : H3.tracked (H.size + 9 + 6) = true := by simp only [Heap.tracked, flag3 (H.size + 9 + 6) (by omega)] at ta2 ⊢; exact ta2
  have ca3 : H3.dirty (H.size + 9 + 6) = false := by
    have : H2.dirty (H.size + 9 + 6) = false := by simp [Heap.dirty, c6, liveCtx]
    simp only [Heap.dirty, flag3 (H.size + 9 + 6) (by omega)] at this ⊢; exact this
  have ly3 : Live H3 (H.size + 16 + 8) := fc_result_live g3 (by omega) tw2 tb2 cw2 cb2 ca3
  have ty1 : H3.tracked (H.size + 8) = true := by
    have := ly1.2.1; simp only [Heap.tracked, flag3 (H.size + 8) (by omega), flag2 (H.size + 8) (by omega)] at this ⊢; exact this
  obtain ⟨hroot, _, _, _⟩ := backwardOrder_spec H3 (H.size + 16 + 8) hdag ly3.2.1
  -- the untracked side of the first layer
  have hxw1 : x ≠ w1 := by intro h; rw [h, dw1] at dx; simp at dx
  have hxb1 : x ≠ b1 := by intro h; rw [h, db1] at dx; simp at dx
  have ux3 : H3.tracked x = false := by simp only [Heap.tracked, ctxH x hx] at ux ⊢; exact ux
  have u1 : H3.tracked (H.size + 1) = false := by
    unfold Heap.tracked; rw [G1.c1]; exact mkCtx_untracked _ _ _ (by simpa using cx3) (by simpa using ux3)
  have d1' : H3.dirty (H.size + 1) = false := ctx_clean G1.c1 (by simpa using cx3)
  have u3 : H3.tracked (H.size + 3) = false := by
    unfold Heap.tracked; rw [G1.c3]; exact mkCtx_untracked _ _ _ (by simpa using d1') (by simpa using u1)
  have lfH : ∀ n, (n = w1 ∨ n = b1 ∨ n = w2 ∨ n = b2) → (H3.ctx n).edges = [] := by
    intro n h
    rcases h with rfl | rfl | rfl | rfl
    · rw [ctxH _ hw1]; exact lf1
    · rw [ctxH _ hb1]; exact lf2
    · rw [ctxH _ hw2]; exact lf3
    · rw [ctxH _ hb2]; exact lf4
  -- where the edges of a node of one of the three graphs point
  have tg : ∀ (w b x' k i : Nat) (e : Edge ℝ), i ≤ 8 → e ∈ fcEdges w b x' k i →
      e.target = w ∨ e.target = b ∨ e.target = x' ∨ ∃ j, j ≤ 8 ∧ e.target = k + j := by
    intro w b x' k i e hi hm
    interval_cases i <;> simp [fcEdges] at hm <;> (try rcases hm with rfl | rfl) <;> (try subst hm) <;> simp
    all_goals first
      | (right; right; right; exact ⟨0, by omega, by omega⟩)
      | (right; right; right; exact ⟨1, by omega, by omega⟩)
      | (right; right; right; exact ⟨2, by omega, by omega⟩)
      | (right; right; right; exact ⟨3, by omega, by omega⟩)
      | (right; right; right; exact ⟨4, by omega, by omega⟩)
      | (right; right; right; exact ⟨5, by omega, by omega⟩)
      | (right; right; right; exact ⟨6, by omega, by omega⟩)
      | (right; right; right; exact ⟨7, by omega, by omega⟩)
  have tgs : ∀ (i : Nat) (e : Edge ℝ), i ≤ 6 → e ∈ sgEdges (H.size + 8) (H.size + 9) i →
      e.target = H.size + 8 ∨ ∃ j, j ≤ 5 ∧ e.target = H.size + 9 + j := by
    intro i e hi hm
    interval_cases i <;> simp [sgEdges] at hm <;> (try rcases hm with rfl | rfl) <;> (try subst hm) <;> simp
    all_goals first
      | (exact ⟨0, by omega, by omega⟩)
      | (exact ⟨1, by omega, by omega⟩)
      | (exact ⟨2, by omega, by omega⟩)
      | (exact ⟨3, by omega, by omega⟩)
      | (exact ⟨4, by omega, by omega⟩)
      | (exact ⟨5, by omega, by omega⟩)
  -- who is visited
  have hM : ∀ v ∈ backwardOrder H3 (H.size + 16 + 8),
      (H.size + 9 ≤ v ∧ v ≤ H.size + 24) ∨
      (v = H.size + 8 ∨ v = H.size + 7 ∨ v = H.size + 6 ∨ v = H.size + 5 ∨ v = H.size + 4 ∨ v = H.size + 2 ∨ v = H.size) ∨
      (v = w1 ∨ v = b1 ∨ v = w2 ∨ v = b2) := by
    apply order_subset H3 (H.size + 16 + 8)
    · left; omega
    · intro u hu v hv
      unfold succs at hv
      obtain ⟨hmm, htv⟩ := List.mem_filter.mp hv
      obtain ⟨e, he, rfl⟩ := List.mem_map.mp hmm
      rcases hE u e he with ⟨h1, hm⟩ | ⟨i, hi, rfl, hm⟩ | ⟨i, hi, rfl, hm⟩ | ⟨i, hi, rfl, hm⟩
      · have : u = w1 ∨ u = b1 ∨ u = w2 ∨ u = b2 := by omega
        rw [lfH u this] at he; simp at he
      · rcases tg w1 b1 x H.size i e hi hm with h | h | h | ⟨j, hj, h⟩
        · right; right; left; exact h
        · right; right; right; left; exact h
        · rw [h] at htv; rw [ux3] at htv; cases htv
        · rw [h] at htv ⊢
          have : j ≠ 1 := by intro hj1; subst hj1; rw [u1] at htv; cases htv
          have : j ≠ 3 := by intro hj3; subst hj3; rw [u3] at htv; cases htv
          -- the edges of node i point at smaller indices
          have hlt := hdag (H.size + i) e he
          rw [h] at hlt
          omega
      · rcases tgs i e hi hm with h | ⟨j, hj, h⟩
        · rw [h]; right; left; left; rfl
        · rw [h]; left; omega
      · rcases tg w2 b2 (H.size + 9 + 6) (H.size + 16) i e hi hm with h | h | h | ⟨j, hj, h⟩
        · right; right; right; right; left; exact h
        · right; right; right; right; right; exact h
        · rw [h]; left; omega
        · rw [h]; left; omega
  -- the shape invariant
  let Sh := mlpShape H.size N D O P w2 b2
  have sh1 : ∀ i, i ≤ 8 → Sh (H.size + i) = fcShape N D O i := by
    intro i hi
    simp only [Sh, mlpShape]
    rw [if_neg (by omega), if_neg (by omega), if_pos (by omega)]
    congr 1; omega
  have sh2 : ∀ i, i ≤ 6 → Sh (H.size + 9 + i) = [N, O] := by
    intro i hi
    simp only [Sh, mlpShape]
    rw [if_neg (by omega), if_pos (by omega)]
  have sh3 : ∀ i, i ≤ 8 → Sh (H.size + 16 + i) = fcShape N O P i := by
    intro i hi
    simp only [Sh, mlpShape]
    rw [if_pos (by omega)]
    congr 1; omega
  have shO : ∀ n, (n = w1 ∨ n = b1) → Sh n = [O] := by
    intro n h
    simp only [Sh, mlpShape]
    rw [if_neg (by omega), if_neg (by omega), if_neg (by omega), if_neg (by omega)]
  have shP : ∀ n, (n = w2 ∨ n = b2) → Sh n = [P] := by
    intro n h
    simp only [Sh, mlpShape]
    rw [if_neg (by omega), if_neg (by omega), if_neg (by omega), if_pos h]
  let Hm := markDirty H3 (backwardOrder H3 (H.size + 16 + 8))
  have hv1 : ∀ n, Hm.val n = H3.val n := fun n => markDirty_val _ _ n
  have hcg : ∀ gy r, evalRule bm Hm gy r = evalRule bm H3 gy r := fun gy r => evalRule_val_congr bm Hm H3 hv1 gy r
  have vy1 : H3.val (H.size + 8) = H1.val (H.size + 8) := by rw [val3 (H.size + 8) (by omega), val2 (H.size + 8) (by omega)]
  have dy1 : (H3.val (H.size + 8)).dims = [N, O] := by rw [vy1, g1.y.dims]
  apply C01p.backprop_ok bm H3 (H.size + 16 + 8) hdag ly3.2.1 (fun n g => Shaped (Sh n) g)
  · intro n a b' ha hb
    exact C15w.shaped_add_ok _ a b' ha hb
  · intro n hn gg hgg
    rcases hM n hn with h | h | h
    · rw [gnew n (by omega)] at hgg; cases hgg
    · rw [gnew n (by omega)] at hgg; cases hgg
    · rcases h with rfl | rfl | rfl | rfl
      · rw [gw1] at hgg; cases hgg
      · rw [gb1] at hgg; cases hgg
      · rw [gw2] at hgg; cases hgg
      · rw [gb2] at hgg; cases hgg
  · show Shaped (Sh (H.size + 16 + 8)) _
    rw [sh3 8 (by omega)]
    have := ones_shaped (H3.val (H.size + 16 + 8)) g3.y.wf
    rw [g3.y.dims] at this
    exact this
  · intro u hu e he htr gy hgy
    rw [hcg]
    rcases hE u e he with ⟨h1, hm⟩ | ⟨i, hi, rfl, hm⟩ | ⟨i, hi, rfl, hm⟩ | ⟨i, hi, rfl, hm⟩
    · have : u = w1 ∨ u = b1 ∨ u = w2 ∨ u = b2 := by
        rcases hM u hu with h | h | h
        · omega
        · omega
        · exact h
      rw [lfH u this] at he; simp at he
    · -- the first layer
      have hgy' : Shaped (fcShape N D O i) gy := by have := hgy; rw [sh1 i hi] at this; exact this
      obtain ⟨g', q1', q2'⟩ := fc_edge_ok bm G1 hw1 hb1 hx hxw1 hxb1 i hi e hm gy hgy'
      refine ⟨g', q1', ?_⟩
      show Shaped (Sh e.target) g'
      rcases tg w1 b1 x H.size i e hi hm with h | h | h | ⟨j, hj, h⟩
      · rw [h] at q2' ⊢; rw [shO w1 (Or.inl rfl)]; simpa [fcTargetShape] using q2'
      · rw [h] at q2' ⊢; rw [shO b1 (Or.inr rfl)]; simpa [fcTargetShape] using q2'
      · rw [h] at htr; rw [ux3] at htr; cases htr
      · rw [h] at q2' ⊢
        rw [sh1 j hj]
        have e1 : ¬ (H.size + j = w1 ∨ H.size + j = b1) := by omega
        have e2 : ¬ H.size + j = x := by omega
        have e3 : H.size + j - H.size = j := by omega
        simpa only [fcTargetShape, e1, e2, if_false, e3] using q2'
    · -- the activation
      have wY : (H3.val (H.size + 8)).WF := by rw [vy1]; exact g1.y.wf
      have hgy' : Shaped (H3.val (H.size + 8)).dims gy := by
        have := hgy; rw [sh2 i hi] at this; rw [dy1]; exact this
      obtain ⟨g', q1', q2'⟩ := sg_edge_ok bm H3 (H.size + 8) (H.size + 9) wY
        (by rw [val3 (H.size + 9 + 2) (by omega), vy1]; exact v2)
        (by rw [val3 (H.size + 9 + 3) (by omega), val3 (H.size + 9) (by omega)]; exact v3)
        (by rw [val3 (H.size + 9 + 4) (by omega), val3 (H.size + 9 + 2) (by omega)]; exact v4)
        (by rw [val3 (H.size + 9 + 5) (by omega), vy1]; exact v5)
        i hi e hm gy hgy'
      refine ⟨g', q1', ?_⟩
      show Shaped (Sh e.target) g'
      rw [dy1] at q2'
      rcases tgs i e hi hm with h | ⟨j, hj, h⟩
      · rw [h, sh1 8 (by omega)]; exact q2'
      · rw [h, sh2 j (by omega)]; exact q2'
    · -- the second layer
      have hgy' : Shaped (fcShape N O P i) gy := by have := hgy; rw [sh3 i hi] at this; exact this
      obtain ⟨g', q1', q2'⟩ := fc_edge_ok bm g3 (by omega) (by omega) (by omega) (by omega) (by omega) i hi e hm gy hgy'
      refine ⟨g', q1', ?_⟩
      show Shaped (Sh e.target) g'
      rcases tg w2 b2 (H.size + 9 + 6) (H.size + 16) i e hi hm with h | h | h | ⟨j, hj, h⟩
      · rw [h] at q2' ⊢; rw [shP w2 (Or.inl rfl)]; simpa [fcTargetShape] using q2'
      · rw [h] at q2' ⊢; rw [shP b2 (Or.inr rfl)]; simpa [fcTargetShape] using q2'
      · rw [h] at q2' ⊢
        rw [sh2 6 (by omega)]
        have e1 : ¬ (H.size + 9 + 6 = w2 ∨ H.size + 9 + 6 = b2) := by omega
        simpa only [fcTargetShape, e1, if_false, if_true] using q2'
      · rw [h] at q2' ⊢
        rw [sh3 j hj]
        have e1 : ¬ (H.size + 16 + j = w2 ∨ H.size + 16 + j = b2) := by omega
        have e2 : ¬ H.size + 16 + j = H.size + 9 + 6 := by omega
        have e3 : H.size + 16 + j - (H.size + 16) = j := by omega
        simpa only [fcTargetShape, e1, e2, if_false, e3] using q2'

/-- **FC → Sigmoid → FC over leaf parameters and a data input: everything succeeds and the four gradients are the chain-rule
    derivatives** (`sum` mode) — no hypothesis about the outcome of the walk -/
theorem mlp_backprop_leaf (H : Heap ℝ) (w1 b1 w2 b2 x N D O P : Nat) (hR : Reach .sum H)
    (lw1 : Live H w1) (lb1 : Live H b1) (lw2 : Live H w2) (lb2 : Live H b2)
    (hx : x < H.size) (cx : H.dirty x = false) (ux : H.tracked x = false)
    (h12 : w1 ≠ b1) (h34 : w2 ≠ b2) (h13 : w1 ≠ w2) (h14 : w1 ≠ b2) (h23 : b1 ≠ w2) (h24 : b1 ≠ b2)
    (ww1 : (H.val w1).WF) (wb1 : (H.val b1).WF) (ww2 : (H.val w2).WF) (wb2 : (H.val b2).WF) (wx : (H.val x).WF)
    (dw1 : (H.val w1).dims = [O]) (db1 : (H.val b1).dims = [O]) (dw2 : (H.val w2).dims = [P]) (db2 : (H.val b2).dims = [P])
    (dx : (H.val x).dims = [N, D])
    (lf1 : (H.ctx w1).edges = []) (lf2 : (H.ctx b1).edges = []) (lf3 : (H.ctx w2).edges = []) (lf4 : (H.ctx b2).edges = [])
    (hsole : ∀ v, ∀ e ∈ (H.ctx v).edges, e.target ≠ w1 ∧ e.target ≠ b1 ∧ e.target ≠ w2 ∧ e.target ≠ b2) :
    ∃ H1 H2 H3, fcForward ⟨some w1, some b1⟩ [some x] H = .ok (H.size + 8, H1) ∧
      actForward Activation.sigmoid [some (H.size + 8)] H1 = .ok (H.size + 9 + 6, H2) ∧
      fcForward ⟨some w2, some b2⟩ [some (H.size + 9 + 6)] H2 = .ok (H.size + 16 + 8, H3) ∧
      (∀ n o, n < N → o < O → (H2.val (H.size + 9 + 6)).el [n, o] = sig ((H1.val (H.size + 8)).el [n, o])) ∧
      (backprop .sum H3 (H.size + 16 + 8)).status = .ok () ∧
        ∃ dW1 dB1 dW2 dB2,
          (backprop .sum H3 (H.size + 16 + 8)).heap.grad w1 = some dW1 ∧ (backprop .sum H3 (H.size + 16 + 8)).heap.grad b1 = some dB1 ∧
          (backprop .sum H3 (H.size + 16 + 8)).heap.grad w2 = some dW2 ∧ (backprop .sum H3 (H.size + 16 + 8)).heap.grad b2 = some dB2 ∧
          dW1.WF ∧ dB1.WF ∧ dW2.WF ∧ dB2.WF ∧ dW1.dims = [O] ∧ dB1.dims = [O] ∧ dW2.dims = [P] ∧ dB2.dims = [P] ∧
          (∀ o, o < O → dW1.el [o] = ∑ n ∈ Finset.range N,
              ((∑ p ∈ Finset.range P, (H.val w2).el [p]) *
                (sig ((H1.val (H.size + 8)).el [n, o]) * (1 - sig ((H1.val (H.size + 8)).el [n, o]))))
                * ∑ d ∈ Finset.range D, (H.val x).el [n, d]) ∧
          (∀ o, o < O → dB1.el [o] = ∑ n ∈ Finset.range N,
              (∑ p ∈ Finset.range P, (H.val w2).el [p]) *
                (sig ((H1.val (H.size + 8)).el [n, o]) * (1 - sig ((H1.val (H.size + 8)).el [n, o])))) ∧
          (∀ p, p < P → dW2.el [p] = ∑ n ∈ Finset.range N, ∑ o ∈ Finset.range O, (H2.val (H.size + 9 + 6)).el [n, o]) ∧
          (∀ p, p < P → dB2.el [p] = (N : ℝ)) := by
  obtain ⟨H1, H2, H3, r1, r2, r3, hav, himp⟩ := C11v.mlp_backprop H w1 b1 w2 b2 x N D O P hR lw1 lb1 lw2 lb2 hx cx
    h12 h34 h13 h14 h23 h24 ww1 wb1 ww2 wb2 wx dw1 db1 dw2 db2 dx hsole
  have hok := mlp_backprop_ok .sum H w1 b1 w2 b2 x N D O P hR lw1 lb1 lw2 lb2 hx cx ux h12 h34 h13 h14 h23 h24 ww1 wb1 ww2 wb2 wx
    dw1 db1 dw2 db2 dx lf1 lf2 lf3 lf4 H1 H2 H3 r1 r2 r3
  exact ⟨H1, H2, H3, r1, r2, r3, hav, hok, himp hok⟩

/-- the forward pass of the two-layer network as one step of the heap monad -/
noncomputable def mlpForward (w1 b1 w2 b2 x : Nat) : HM ℝ Nat := do
  let y1 ← fcForward ⟨some w1, some b1⟩ [some x]
  let a ← actForward Activation.sigmoid [some y1]
  fcForward ⟨some w2, some b2⟩ [some a]

/-- **one whole SGD step on the two-layer network** (`sum` mode; leaf parameters, data input): forward, `BackPropagate`,
    `Update` + `ResetGradContext(true)` of all four parameters — everything succeeds, and every parameter is replaced by a fresh
    tracked leaf holding `θ − lr·∂(Σ y₂)/∂θ` with the chain-rule derivatives of `mlp_backprop` -/
theorem mlp_train_step_leaf (lr : ℝ) (H : Heap ℝ) (w1 b1 w2 b2 x N D O P : Nat) (hR : Reach .sum H)
    (lw1 : Live H w1) (lb1 : Live H b1) (lw2 : Live H w2) (lb2 : Live H b2)
    (hx : x < H.size) (cx : H.dirty x = false) (ux : H.tracked x = false)
    (h12 : w1 ≠ b1) (h34 : w2 ≠ b2) (h13 : w1 ≠ w2) (h14 : w1 ≠ b2) (h23 : b1 ≠ w2) (h24 : b1 ≠ b2)
    (ww1 : (H.val w1).WF) (wb1 : (H.val b1).WF) (ww2 : (H.val w2).WF) (wb2 : (H.val b2).WF) (wx : (H.val x).WF)
    (dw1 : (H.val w1).dims = [O]) (db1 : (H.val b1).dims = [O]) (dw2 : (H.val w2).dims = [P]) (db2 : (H.val b2).dims = [P])
    (dx : (H.val x).dims = [N, D])
    (lf1 : (H.ctx w1).edges = []) (lf2 : (H.ctx b1).edges = []) (lf3 : (H.ctx w2).edges = []) (lf4 : (H.ctx b2).edges = [])
    (hsole : ∀ v, ∀ e ∈ (H.ctx v).edges, e.target ≠ w1 ∧ e.target ≠ b1 ∧ e.target ≠ w2 ∧ e.target ≠ b2) :
    ∃ r1 r2 r3 r4 H' Y1, C11x.trainStep .sum lr (mlpForward w1 b1 w2 b2 x) [w1, b1, w2, b2] H = .ok ([r1, r2, r3, r4], H') ∧
      H'.ctx r1 = C11x.freshLeaf ∧ H'.ctx r2 = C11x.freshLeaf ∧ H'.ctx r3 = C11x.freshLeaf ∧ H'.ctx r4 = C11x.freshLeaf ∧
      Is2 Y1 N O (fun n o => (H.val w1).el [o] * (∑ d ∈ Finset.range D, (H.val x).el [n, d]) + (H.val b1).el [o]) ∧
      (∀ o, o < O → (H'.val r1).el [o] = (H.val w1).el [o] - lr * ∑ n ∈ Finset.range N,
          ((∑ p ∈ Finset.range P, (H.val w2).el [p]) * (sig (Y1.el [n, o]) * (1 - sig (Y1.el [n, o])))) * ∑ d ∈ Finset.range D, (H.val x).el [n, d]) ∧
      (∀ o, o < O → (H'.val r2).el [o] = (H.val b1).el [o] - lr * ∑ n ∈ Finset.range N,
          (∑ p ∈ Finset.range P, (H.val w2).el [p]) * (sig (Y1.el [n, o]) * (1 - sig (Y1.el [n, o])))) ∧
      (∀ p, p < P → (H'.val r3).el [p] = (H.val w2).el [p] - lr * ∑ n ∈ Finset.range N, ∑ o ∈ Finset.range O, sig (Y1.el [n, o])) ∧
      (∀ p, p < P → (H'.val r4).el [p] = (H.val b2).el [p] - lr * (N : ℝ)) := by
  obtain ⟨H1, H2, H3, q1, q2, q3, hav, hok, dW1, dB1, dW2, dB2, g1, g2, g3, g4, f1, f2, f3, f4, d1, d2, d3, d4, e1, e2, e3, e4⟩ :=
    mlp_backprop_leaf H w1 b1 w2 b2 x N D O P hR lw1 lb1 lw2 lb2 hx cx ux h12 h34 h13 h14 h23 h24 ww1 wb1 ww2 wb2 wx
      dw1 db1 dw2 db2 dx lf1 lf2 lf3 lf4 hsole
  have x1 : Extends H H1 := frame_fcForward _ _ H _ H1 q1
  have x2 : Extends H1 H2 := frame_actForward _ _ H1 _ H2 q2
  have x3 : Extends H2 H3 := frame_fcForward _ _ H2 _ H3 q3
  have xe : Extends H H3 := (x1.trans x2).trans x3
  have hfwd : mlpForward w1 b1 w2 b2 x H = .ok (H.size + 16 + 8, H3) := by
    unfold mlpForward
    rw [bind_run q1, bind_run q2]
    exact q3
  have vH : ∀ n, n < H.size → H3.val n = H.val n := fun n hn => xe.val hn
  obtain ⟨rs, H', hstep, hlen, _, hspec⟩ := C11x.train_step_law .sum lr (mlpForward w1 b1 w2 b2 x) [w1, b1, w2, b2] H H3
    (H.size + 16 + 8) hfwd hok [dW1, dB1, dW2, dB2] rfl (by
      intro k w' g hk hg
      have hs := xe.1
      match k, hk, hg with
      | 0, hk, hg =>
        simp at hk hg; subst hk hg
        exact ⟨by have := lw1.1; omega, g1, by rw [vH _ lw1.1]; exact ww1, f1, by rw [vH _ lw1.1, d1, dw1]⟩
      | 1, hk, hg =>
        simp at hk hg; subst hk hg
        exact ⟨by have := lb1.1; omega, g2, by rw [vH _ lb1.1]; exact wb1, f2, by rw [vH _ lb1.1, d2, db1]⟩
      | 2, hk, hg =>
        simp at hk hg; subst hk hg
        exact ⟨by have := lw2.1; omega, g3, by rw [vH _ lw2.1]; exact ww2, f3, by rw [vH _ lw2.1, d3, dw2]⟩
      | 3, hk, hg =>
        simp at hk hg; subst hk hg
        exact ⟨by have := lb2.1; omega, g4, by rw [vH _ lb2.1]; exact wb2, f4, by rw [vH _ lb2.1, d4, db2]⟩
      | k + 4, hk, _ => simp at hk)
  -- the first layer's output as a matrix
  obtain ⟨y', H1', qq, _, wy, dy, ely, _⟩ := fc_forward_backward N D O w1 b1 x H lw1.1 lb1.1 hx ww1 wb1 wx dw1 db1 dx
    ⟨[N, O], List.replicate (N * O) 0⟩ ⟨by simp [prod], by
      intro d hd
      have hN := (is2_self _ wx N D dx).pos.1
      have hO := (is1_self _ ww1 O dw1).pos
      simp at hd; rcases hd with rfl | rfl <;> assumption⟩ rfl
  obtain ⟨ey, eH⟩ := C15w.run_unique q1 qq
  subst ey eH
  match rs, hlen with
  | [r1, r2, r3, r4], _ =>
    obtain ⟨_, v1, c1⟩ := hspec 0 w1 dW1 r1 rfl rfl rfl
    obtain ⟨_, v2, c2⟩ := hspec 1 b1 dB1 r2 rfl rfl rfl
    obtain ⟨_, v3, c3⟩ := hspec 2 w2 dW2 r3 rfl rfl rfl
    obtain ⟨_, v4, c4⟩ := hspec 3 b2 dB2 r4 rfl rfl rfl
    rw [vH _ lw1.1] at v1; rw [vH _ lb1.1] at v2; rw [vH _ lw2.1] at v3; rw [vH _ lb2.1] at v4
    refine ⟨r1, r2, r3, r4, H', H1.val (H.size + 8), hstep, c1, c2, c3, c4, ⟨wy, dy, ely⟩, ?_, ?_, ?_, ?_⟩
    · intro o ho
      rw [v1]; unfold C11x.stepped
      rw [C15y.zip_el _ (H.val w1) dW1 ww1 f1 (by rw [dw1, d1]) (by rw [dw1]; exact valid1 ho), e1 o ho]
      simp [sub_eq, mul_eq]
    · intro o ho
      rw [v2]; unfold C11x.stepped
      rw [C15y.zip_el _ (H.val b1) dB1 wb1 f2 (by rw [db1, d2]) (by rw [db1]; exact valid1 ho), e2 o ho]
      simp [sub_eq, mul_eq]
    · intro p hp
      rw [v3]; unfold C11x.stepped
      rw [C15y.zip_el _ (H.val w2) dW2 ww2 f3 (by rw [dw2, d3]) (by rw [dw2]; exact valid1 hp), e3 p hp]
      simp only [sub_eq, mul_eq]
      congr 2
      apply Finset.sum_congr rfl
      intro n hn
      apply Finset.sum_congr rfl
      intro o ho
      exact hav n o (Finset.mem_range.mp hn) (Finset.mem_range.mp ho)
    · intro p hp
      rw [v4]; unfold C11x.stepped
      rw [C15y.zip_el _ (H.val b2) dB2 wb2 f4 (by rw [db2, d4]) (by rw [db2]; exact valid1 hp), e4 p hp]
      simp [sub_eq, mul_eq]

end C11u
end Qeep
