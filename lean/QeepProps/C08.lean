import QeepProofs.Heap
import QeepProps.C20
/-!
# C08 — gradient tracking propagates, isolates and retires exactly as specified

The flag state machine of the Model: the three-way head of every constructor (`mkCtx`), comparisons, reset,
and what back-propagation does to the flags.
-/
set_option linter.unusedSimpArgs false

namespace Qeep
namespace C08

variable {α : Type}

/-- **A result is tracked exactly when some operand is tracked and no operand is spent.** -/
theorem mkCtx_tracked_iff (H : Heap α) (ops : List Nat) (edges : List (Edge α)) :
    (mkCtx H ops edges).tracked = true ↔ (∃ n ∈ ops, H.tracked n = true) ∧ (∀ n ∈ ops, H.dirty n = false) := by
  unfold mkCtx
  by_cases hd : ops.any H.dirty = true
  · simp only [hd, if_true, dirtyCtx]
    simp only [List.any_eq_true] at hd
    obtain ⟨n, hn, hdn⟩ := hd
    constructor
    · intro h; cases h
    · rintro ⟨_, h2⟩; rw [h2 n hn] at hdn; cases hdn
  · simp only [hd, if_false]
    have hnd : ∀ n ∈ ops, H.dirty n = false := by
      intro n hn
      cases hv : H.dirty n with
      | false => rfl
      | true => exact absurd (List.any_eq_true.mpr ⟨n, hn, hv⟩) hd
    by_cases hu : ops.all (fun n => !H.tracked n) = true
    · simp only [hu, if_true, freshCtx]
      simp only [List.all_eq_true, Bool.not_eq_true'] at hu
      constructor
      · intro h; cases h
      · rintro ⟨⟨n, hn, ht⟩, _⟩; rw [hu n hn] at ht; cases ht
    · simp only [hu, if_false]
      refine ⟨fun _ => ⟨?_, hnd⟩, fun _ => rfl⟩
      simp only [List.all_eq_true, Bool.not_eq_true'] at hu
      by_cases hex : ∃ n ∈ ops, H.tracked n = true
      · exact hex
      · exfalso; apply hu
        intro n hn
        cases hv : H.tracked n with
        | false => rfl
        | true => exact absurd ⟨n, hn, hv⟩ hex

/-- **A result is spent exactly when some operand is spent** (anything computed from a spent tensor is spent,
    hence — previous theorem — untracked). -/
theorem mkCtx_dirty_iff (H : Heap α) (ops : List Nat) (edges : List (Edge α)) :
    (mkCtx H ops edges).dirty = true ↔ ∃ n ∈ ops, H.dirty n = true := by
  unfold mkCtx
  by_cases hd : ops.any H.dirty = true
  · simp only [hd, if_true, dirtyCtx, true_iff]
    simpa [List.any_eq_true] using hd
  · have : ¬ ∃ n ∈ ops, H.dirty n = true := fun ⟨n, hn, hv⟩ => hd (List.any_eq_true.mpr ⟨n, hn, hv⟩)
    rw [if_neg hd]
    split <;> simp [freshCtx, this]

/-- a fresh result never carries a gradient, and has back edges only when it is tracked: results computed from
    spent tensors cannot reach the old graph -/
theorem mkCtx_isolated (H : Heap α) (ops : List Nat) (edges : List (Edge α)) :
    (mkCtx H ops edges).grad = none ∧ ((mkCtx H ops edges).tracked = false → (mkCtx H ops edges).edges = []) := by
  unfold mkCtx
  split
  · exact ⟨rfl, fun _ => rfl⟩
  · split
    · exact ⟨rfl, fun _ => rfl⟩
    · exact ⟨rfl, fun h => by cases h⟩

section
variable [Scalar α]

/-- the context every one-operand public operation attaches (Slice, Transpose, Reshape, UnSqueeze, Squeeze,
    Flatten, Broadcast, the seven reductions, Scale, Pow and the eight unary functions all go through `hOp1`) -/
theorem op1_ctx (x : Nat) (v : Out (Tensor α)) (rule : Nat → Rule α) (H H' : Heap α) (r : Nat)
    (h : hOp1 x v rule H = .ok (r, H')) :
    r = H.size ∧ H'.ctx r = mkCtx H [x] [⟨x, rule H.size⟩] ∧ Extends H H' := by
  have hf := frame_hOp1 x v rule H r H' h
  unfold hOp1 at h
  cases v with
  | ok t =>
    simp only [liftOut, getHeap, alloc, bind, StateT.bind, Out.bind] at h
    cases h
    refine ⟨rfl, ?_, hf⟩
    simp [Heap.ctx]
  | err => simp [liftOut, bind, StateT.bind, Out.bind] at h
  | panic => simp [liftOut, bind, StateT.bind, Out.bind] at h

/-- **Unary results**: tracked iff the operand is tracked and not spent; spent iff the operand is spent. -/
theorem op1_tracked_iff (x : Nat) (v : Out (Tensor α)) (rule : Nat → Rule α) (H H' : Heap α) (r : Nat)
    (h : hOp1 x v rule H = .ok (r, H')) :
    (H'.tracked r = true ↔ H.tracked x = true ∧ H.dirty x = false) ∧ (H'.dirty r = true ↔ H.dirty x = true) := by
  obtain ⟨_, hc, _⟩ := op1_ctx x v rule H H' r h
  unfold Heap.tracked Heap.dirty
  rw [hc]
  constructor
  · rw [mkCtx_tracked_iff]; simp [Heap.tracked, Heap.dirty]
  · rw [mkCtx_dirty_iff]; simp [Heap.dirty]

/-- **Comparison results are untracked, unspent leaves** whatever the operands are -/
theorem cmp_untracked (c : Cmp) (hc : c ≠ .elmax ∧ c ≠ .elmin) (a b : Nat) (H H' : Heap α) (r : Nat)
    (h : hCmp c a b H = .ok (r, H')) : H'.ctx r = freshCtx false := by
  unfold hCmp at h
  cases hv : vCmp c (H.val a) (H.val b) with
  | ok t =>
    simp only [liftOut, getHeap, bind, StateT.bind, Out.bind, hv] at h
    cases c
    case elmax => exact absurd rfl hc.1
    case elmin => exact absurd rfl hc.2
    all_goals (simp only [alloc] at h; cases h; simp [Heap.ctx])
  | err => simp [liftOut, getHeap, bind, StateT.bind, Out.bind, hv] at h
  | panic => simp [liftOut, getHeap, bind, StateT.bind, Out.bind, hv] at h

/-- **Gradient tensors handed to the caller are spent and untracked** -/
theorem gradients_untracked (n : Nat) (H H' : Heap α) (g : Nat) (h : hGradNode n H = .ok (some g, H')) :
    H'.ctx g = dirtyCtx := by
  unfold hGradNode at h
  simp only [getHeap, bind, StateT.bind, Out.bind] at h
  cases hg : H.grad n with
  | none => simp [hg, pure, StateT.pure] at h
  | some t =>
    simp only [hg, alloc, pure, StateT.pure, Out.bind] at h
    cases h
    simp [Heap.ctx]

/-- **Back-propagating from an untracked root changes nothing** -/
theorem bp_untracked_root_noop (bm : BMode) (H : Heap α) (root : Nat) (h : H.tracked root = false) :
    (backprop bm H root).heap = H ∧ (backprop bm H root).status = .ok () ∧ (backprop bm H root).calls = 0 := by
  unfold backprop; simp [h]

/-- **ResetGradContext turns a tensor into a fresh leaf** with the requested tracking, no gradient, no edges,
    not spent; every other tensor's context and every value is untouched -/
theorem reset_is_fresh_leaf (H : Heap α) (n : Nat) (b : Bool) (hn : n < H.size) :
    (resetCtx H n b).ctx n = { tracked := b, dirty := false, grad := none, edges := [] } ∧
    (∀ m, m ≠ n → (resetCtx H n b).ctx m = H.ctx m) ∧ (∀ m, (resetCtx H n b).val m = H.val m) :=
  ⟨by unfold resetCtx; rw [setCtx_ctx_eq _ _ _ hn]; rfl, (resetCtx_frame H n b).2.2, (resetCtx_frame H n b).2.1⟩

/-- tracking never changes forward values: the value of every public one-operand operation is the value-level
    function of the operand value alone (the context is computed separately) -/
theorem forward_value_ignores_flags (x : Nat) (v : Out (Tensor α)) (rule : Nat → Rule α) (H H' : Heap α) (r : Nat)
    (h : hOp1 x v rule H = .ok (r, H')) : v = .ok (H'.val r) := by
  unfold hOp1 at h
  cases v with
  | ok t =>
    simp only [liftOut, getHeap, alloc, bind, StateT.bind, Out.bind] at h
    cases h
    simp [Heap.val]
  | err => simp [liftOut, bind, StateT.bind, Out.bind] at h
  | panic => simp [liftOut, bind, StateT.bind, Out.bind] at h

end

/-! ### what a back-propagation leaves behind (uses the graph theorems of C01/C20) -/
section
variable {α : Type} [Scalar α]
open C01 C20

theorem markDirty_dirty_inside (ns : List Nat) : ∀ (H : Heap α) (n : Nat), n ∈ ns → n < H.size →
    (markDirty H ns).dirty n = true := by
  unfold markDirty
  induction ns with
  | nil => intro H n h; simp at h
  | cons m ms ih =>
    intro H n hn hlt
    simp only [List.foldl_cons]
    by_cases hmem : n ∈ ms
    · exact ih _ n hmem (by rw [setCtx_size]; exact hlt)
    · have hnm : n = m := by
        rcases List.mem_cons.mp hn with h | h
        · exact h
        · exact absurd h hmem
      subst hnm
      have := markDirty_ctx_outside (H.setCtx n { H.ctx n with dirty := true }) ms n hmem
      unfold markDirty at this
      unfold Heap.dirty
      rw [this, setCtx_ctx_eq _ _ _ hlt]

theorem writeBack_dirty (H : Heap α) (G : Nat → Option (Tensor α)) (n : Nat) :
    (writeBack H G).dirty n = H.dirty n := by
  unfold writeBack Heap.dirty Heap.ctx
  simp only [Array.getElem?_mapIdx]
  cases H[n]? <;> rfl

/-- **Every tensor of the walk is spent afterwards**, whatever the outcome of the walk -/
theorem bp_marks_spent (bm : BMode) (H : Heap α) (root : Nat) (htr : H.tracked root = true) (n : Nat)
    (hn : n ∈ backwardOrder H root) (hlt : n < H.size) : (backprop bm H root).heap.dirty n = true := by
  have hnt : (!H.tracked root) = false := by simp [htr]
  unfold backprop
  simp only [hnt, Bool.false_eq_true, if_false]
  split
  · simp only []; rw [writeBack_dirty]; exact markDirty_dirty_inside _ H n hn hlt
  · exact markDirty_dirty_inside _ H n hn hlt
  · exact markDirty_dirty_inside _ H n hn hlt

theorem sums_some {D : Type} {add : D → D → Out D} : ∀ {a : Option D} {l : List D} {b : Option D},
    Sums add a l b → (a ≠ none ∨ l ≠ []) → b ≠ none := by
  intro a l b h
  induction h with
  | nil a => intro h; rcases h with h | h; exact h; exact absurd rfl h
  | first _ ih => intro _; exact ih (Or.inl (by simp))
  | next _ _ ih => intro _; exact ih (Or.inl (by simp))

/-- **A successful back-propagation from a tracked root gives a gradient to the root and to every tracked tensor
    it was computed from** (the members of the walk: the root, and tracked targets of back edges of members) … -/
theorem bp_gives_gradients (bm : BMode) (H : Heap α) (root : Nat) (hdag : HeapDag H) (htr : H.tracked root = true)
    (hok : (backprop bm H root).status = .ok ()) (n : Nat) (hn : n ∈ backwardOrder H root) (hlt : n < H.size) :
    (backprop bm H root).heap.grad n ≠ none := by
  obtain ⟨seedG, final, hseed, hfin, hsums, hdef, _⟩ := backprop_adjoint bm H root hdag htr hok
  rw [hfin n hlt]
  apply sums_some (hsums n)
  rcases order_members_tracked H root hdag n hn with rfl | ⟨u, hu, hsu⟩
  · left
    unfold accumG at hseed
    split at hseed
    · cases hseed; simp [updStore]
    · rename_i old _
      cases ha : vArith Arith.add old (vPow (H.val n) Scalar.zero) with
      | ok s => rw [ha] at hseed; simp only [Out.bind] at hseed; cases hseed; simp [updStore]
      | err => rw [ha] at hseed; simp [Out.bind] at hseed
      | panic => rw [ha] at hseed; simp [Out.bind] at hseed
  · right
    unfold succs at hsu
    obtain ⟨hm, ht⟩ := List.mem_filter.mp hsu
    obtain ⟨e, he, rfl⟩ := List.mem_map.mp hm
    have hp : (u, (e.target, e.rule)) ∈ bpPairs H root := by
      unfold bpPairs allPairs
      exact List.mem_flatMap.mpr ⟨u, hu, List.mem_map.mpr ⟨(e.target, e.rule),
        by unfold edgesOf; exact List.mem_map.mpr ⟨e, he, rfl⟩, rfl⟩⟩
    obtain ⟨gy, g, hgy, hg⟩ := hdef _ hp ht
    intro hnil
    have hmem : g ∈ contrib (fun r gy => evalRule bm (markDirty H (backwardOrder H root)) gy r) H.tracked final
        (bpPairs H root) e.target := by
      unfold contrib
      refine List.mem_filterMap.mpr ⟨(u, (e.target, e.rule)), hp, ?_⟩
      simp only [ht, true_and, if_true]
      simp only [] at hgy hg
      rw [hgy]; simp only []; rw [hg]
    rw [hnil] at hmem; simp at hmem

/-- … **and to nothing else**: a tensor outside the walk keeps its whole context (gradient, flags, edges) -/
theorem bp_touches_nothing_else (bm : BMode) (H : Heap α) (root : Nat) (hdag : HeapDag H) (n : Nat)
    (hn : n ∉ backwardOrder H root) : (backprop bm H root).heap.ctx n = H.ctx n :=
  backprop_footprint bm H root hdag n hn

/-- **A result computed from a spent tensor is untracked and cannot reach the old graph**: after the walk, any
    one-operand operation on a member of the walk gets the isolated spent context — no back edge at all -/
theorem spent_results_isolated (bm : BMode) (H : Heap α) (root : Nat) (htr : H.tracked root = true) (n : Nat)
    (hn : n ∈ backwardOrder H root) (hlt : n < H.size) (edges : List (Edge α)) :
    mkCtx (backprop bm H root).heap [n] edges = dirtyCtx := by
  have := bp_marks_spent bm H root htr n hn hlt
  unfold mkCtx
  simp [this]

end

/-- non-vacuity: a tracked clean operand and a spent operand -/
example : (mkCtx (#[⟨⟨[], [1]⟩, { tracked := true }⟩] : Heap Nat) [0] []).tracked = true ∧
    (mkCtx (#[⟨⟨[], [1]⟩, { tracked := true }⟩, ⟨⟨[], [1]⟩, { dirty := true }⟩] : Heap Nat) [0, 1] []).tracked = false := by
  decide

end C08
end Qeep
