import QeepProofs.Heap
/-!
# C08 — gradient tracking propagates, isolates and retires exactly as specified

The flag state machine of the Model: the three-way head of every constructor (`mkCtx`), comparisons, reset,
and what back-propagation does to the flags.
-/
set_option linter.unusedSimpArgs false

namespace Qeep
namespace C08

variable {α : Type}

/-- **A result is tracked exactly when some operand is tracked and no operand is spent.** -/
theorem mkCtx_tracked_iff (H : Heap α) (ops : List Nat) (edges : List (Edge α)) :
    (mkCtx H ops edges).tracked = true ↔ (∃ n ∈ ops, H.tracked n = true) ∧ (∀ n ∈ ops, H.dirty n = false) := by
  unfold mkCtx
  by_cases hd : ops.any H.dirty = true
  · simp only [hd, if_true, dirtyCtx]
    simp only [List.any_eq_true] at hd
    obtain ⟨n, hn, hdn⟩ := hd
    constructor
    · intro h; cases h
    · rintro ⟨_, h2⟩; rw [h2 n hn] at hdn; cases hdn
  · simp only [hd, if_false]
    have hnd : ∀ n ∈ ops, H.dirty n = false := by
      intro n hn
      cases hv : H.dirty n with
      | false => rfl
      | true => exact absurd (List.any_eq_true.mpr ⟨n, hn, hv⟩) hd
    by_cases hu : ops.all (fun n => !H.tracked n) = true
    · simp only [hu, if_true, freshCtx]
      simp only [List.all_eq_true, Bool.not_eq_true'] at hu
      constructor
      · intro h; cases h
      · rintro ⟨⟨n, hn, ht⟩, _⟩; rw [hu n hn] at ht; cases ht
    · simp only [hu, if_false]
      refine ⟨fun _ => ⟨?_, hnd⟩, fun _ => rfl⟩
      simp only [List.all_eq_true, Bool.not_eq_true'] at hu
      by_cases hex : ∃ n ∈ ops, H.tracked n = true
      · exact hex
      · exfalso; apply hu
        intro n hn
        cases hv : H.tracked n with
        | false => rfl
        | true => exact absurd ⟨n, hn, hv⟩ hex

/-- **A result is spent exactly when some operand is spent** (anything computed from a spent tensor is spent,
    hence — previous theorem — untracked). -/
theorem mkCtx_dirty_iff (H : Heap α) (ops : List Nat) (edges : List (Edge α)) :
    (mkCtx H ops edges).dirty = true ↔ ∃ n ∈ ops, H.dirty n = true := by
  unfold mkCtx
  by_cases hd : ops.any H.dirty = true
  · simp only [hd, if_true, dirtyCtx, true_iff]
    simpa [List.any_eq_true] using hd
  · have : ¬ ∃ n ∈ ops, H.dirty n = true := fun ⟨n, hn, hv⟩ => hd (List.any_eq_true.mpr ⟨n, hn, hv⟩)
    rw [if_neg hd]
    split <;> simp [freshCtx, this]

/-- a fresh result never carries a gradient, and has back edges only when it is tracked: results computed from
    spent tensors cannot reach the old graph -/
theorem mkCtx_isolated (H : Heap α) (ops : List Nat) (edges : List (Edge α)) :
    (mkCtx H ops edges).grad = none ∧ ((mkCtx H ops edges).tracked = false → (mkCtx H ops edges).edges = []) := by
  unfold mkCtx
  split
  · exact ⟨rfl, fun _ => rfl⟩
  · split
    · exact ⟨rfl, fun _ => rfl⟩
    · exact ⟨rfl, fun h => by cases h⟩

section
variable [Scalar α]

/-- the context every one-operand public operation attaches (Slice, Transpose, Reshape, UnSqueeze, Squeeze,
    Flatten, Broadcast, the seven reductions, Scale, Pow and the eight unary functions all go through `hOp1`) -/
theorem op1_ctx (x : Nat) (v : Out (Tensor α)) (rule : Nat → Rule α) (H H' : Heap α) (r : Nat)
    (h : hOp1 x v rule H = .ok (r, H')) :
    r = H.size ∧ H'.ctx r = mkCtx H [x] [⟨x, rule H.size⟩] ∧ Extends H H' := by
  have hf := frame_hOp1 x v rule H r H' h
  unfold hOp1 at h
  cases v with
  | ok t =>
    simp only [liftOut, getHeap, alloc, bind, StateT.bind, Out.bind] at h
    cases h
    refine ⟨rfl, ?_, hf⟩
    simp [Heap.ctx]
  | err => simp [liftOut, bind, StateT.bind, Out.bind] at h
  | panic => simp [liftOut, bind, StateT.bind, Out.bind] at h

/-- **Unary results**: tracked iff the operand is tracked and not spent; spent iff the operand is spent. -/
theorem op1_tracked_iff (x : Nat) (v : Out (Tensor α)) (rule : Nat → Rule α) (H H' : Heap α) (r : Nat)
    (h : hOp1 x v rule H = .ok (r, H')) :
    (H'.tracked r = true ↔ H.tracked x = true ∧ H.dirty x = false) ∧ (H'.dirty r = true ↔ H.dirty x = true) := by
  obtain ⟨_, hc, _⟩ := op1_ctx x v rule H H' r h
  unfold Heap.tracked Heap.dirty
  rw [hc]
  constructor
  · rw [mkCtx_tracked_iff]; simp [Heap.tracked, Heap.dirty]
  · rw [mkCtx_dirty_iff]; simp [Heap.dirty]

/-- **Comparison results are untracked, unspent leaves** whatever the operands are -/
theorem cmp_untracked (c : Cmp) (hc : c ≠ .elmax ∧ c ≠ .elmin) (a b : Nat) (H H' : Heap α) (r : Nat)
    (h : hCmp c a b H = .ok (r, H')) : H'.ctx r = freshCtx false := by
  unfold hCmp at h
  cases hv : vCmp c (H.val a) (H.val b) with
  | ok t =>
    simp only [liftOut, getHeap, bind, StateT.bind, Out.bind, hv] at h
    cases c
    case elmax => exact absurd rfl hc.1
    case elmin => exact absurd rfl hc.2
    all_goals (simp only [alloc] at h; cases h; simp [Heap.ctx])
  | err => simp [liftOut, getHeap, bind, StateT.bind, Out.bind, hv] at h
  | panic => simp [liftOut, getHeap, bind, StateT.bind, Out.bind, hv] at h

/-- **Gradient tensors handed to the caller are spent and untracked** -/
theorem gradients_untracked (n : Nat) (H H' : Heap α) (g : Nat) (h : hGradNode n H = .ok (some g, H')) :
    H'.ctx g = dirtyCtx := by
  unfold hGradNode at h
  simp only [getHeap, bind, StateT.bind, Out.bind] at h
  cases hg : H.grad n with
  | none => simp [hg, pure, StateT.pure] at h
  | some t =>
    simp only [hg, alloc, pure, StateT.pure, Out.bind] at h
    cases h
    simp [Heap.ctx]

/-- **Back-propagating from an untracked root changes nothing** -/
theorem bp_untracked_root_noop (bm : BMode) (H : Heap α) (root : Nat) (h : H.tracked root = false) :
    (backprop bm H root).heap = H ∧ (backprop bm H root).status = .ok () ∧ (backprop bm H root).calls = 0 := by
  unfold backprop; simp [h]

/-- **ResetGradContext turns a tensor into a fresh leaf** with the requested tracking, no gradient, no edges,
    not spent; every other tensor's context and every value is untouched -/
theorem reset_is_fresh_leaf (H : Heap α) (n : Nat) (b : Bool) (hn : n < H.size) :
    (resetCtx H n b).ctx n = { tracked := b, dirty := false, grad := none, edges := [] } ∧
    (∀ m, m ≠ n → (resetCtx H n b).ctx m = H.ctx m) ∧ (∀ m, (resetCtx H n b).val m = H.val m) :=
  ⟨by unfold resetCtx; rw [setCtx_ctx_eq _ _ _ hn]; rfl, (resetCtx_frame H n b).2.2, (resetCtx_frame H n b).2.1⟩

/-- tracking never changes forward values: the value of every public one-operand operation is the value-level
    function of the operand value alone (the context is computed separately) -/
theorem forward_value_ignores_flags (x : Nat) (v : Out (Tensor α)) (rule : Nat → Rule α) (H H' : Heap α) (r : Nat)
    (h : hOp1 x v rule H = .ok (r, H')) : v = .ok (H'.val r) := by
  unfold hOp1 at h
  cases v with
  | ok t =>
    simp only [liftOut, getHeap, alloc, bind, StateT.bind, Out.bind] at h
    cases h
    simp [Heap.val]
  | err => simp [liftOut, bind, StateT.bind, Out.bind] at h
  | panic => simp [liftOut, bind, StateT.bind, Out.bind] at h

end

/-- non-vacuity: a tracked clean operand and a spent operand -/
example : (mkCtx (#[⟨⟨[], [1]⟩, { tracked := true }⟩] : Heap Nat) [0] []).tracked = true ∧
    (mkCtx (#[⟨⟨[], [1]⟩, { tracked := true }⟩, ⟨⟨[], [1]⟩, { dirty := true }⟩] : Heap Nat) [0, 1] []).tracked = false := by
  decide

end C08
end Qeep
