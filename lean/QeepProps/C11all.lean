import QeepProps.C11x
import QeepProps.C11z
import QeepProps.C11w
import QeepProps.C11v
import QeepProps.C11u
import QeepProps.C11t
import QeepProps.C11s
import QeepProps.C11r
import QeepProps.C11p
import QeepProps.C11o
/-! C11 — all property theorems: `C11`, `C11x` (one whole training step at model level for any loss and any number of
weights) and `C11z` (the step on an FC layer end to end, unconditional for leaf parameters and a data input). `C11w`: the training LOOP — the invariant `FCInv`, `fc_step_inv` (a step keeps it) and `fc_training_loop` (any number of steps succeeds and is gradient descent). `C11v`: a two-layer network FC → Sigmoid → FC end to end (`mlp_backprop`). `C11u`: the walk through the two-layer network succeeds (`mlp_backprop_ok`, either mode), hence `mlp_backprop_leaf` and one whole SGD step on it, unconditionally (`mlp_train_step_leaf`). `C11t` (nothing the optimizer half of a step creates has a back edge, no older tensor changes) and `C11s` (the training LOOP of the two-layer network: `MLPInv`, `mlp_step_inv`, `mlp_training_loop` — any number of steps succeeds). `C11r`: a layer under a loss — FC → CE: `fc_ce_backprop` (the chain rule across the two components on the real walk), `fc_ce_backprop_ok` (the walk succeeds for leaf parameters), `fc_ce_train_step(_leaf)` (one whole SGD step is gradient descent on the CE loss of the layer's output). `C11p`: the LOOP under the loss — `FCCEInv`, `fc_ce_step_inv`, `fc_ce_training_loop` (any number of steps succeeds and the parameters are the iterates of the gradient-descent map `gdStep`). `C11o`: `gdStep` IS gradient descent on the loss — `ceLoss_deriv_W` / `ceLoss_deriv_B` (the Mathlib partial derivatives of the composite loss CE ∘ FC with respect to the parameters) and `gdStep_is_gradient_descent` (inside the clip band the map the loop iterates is `(W, B) ↦ (W − lr·∂loss/∂W, B − lr·∂loss/∂B)` with these derivatives). -/
