import QeepProps.C08
import QeepProofs.Dag
/-!
# C08 — a tensor carries a gradient only if it took part in a back-propagation

`Fresh m`: every tensor the step `m` allocates starts without a gradient, and existing tensors are untouched (`Frame`).
It holds of every public operation and component (`fresh_*`, same decomposition as the `frame_*` lemmas).

`reach_clean_nograd`: in EVERY heap the public API can build, a tensor that is not spent has no gradient — gradients
are assigned by `BackPropagate` only, to tensors it marks spent, and `ResetGradContext` clears both.
-/
set_option linter.unusedSimpArgs false
set_option linter.unusedSectionVars false
set_option linter.unusedVariables false

namespace Qeep
variable {α : Type}

/-- every tensor the step allocates has no gradient; the others are untouched -/
def Fresh {β : Type} (m : HM α β) : Prop :=
  ∀ H r H', m H = .ok (r, H') → Extends H H' ∧ ∀ n, H.size ≤ n → H'.grad n = none

theorem grad_beyond (H : Heap α) (n : Nat) (h : H.size ≤ n) : H.grad n = none := by
  have : H[n]? = none := Array.getElem?_eq_none h
  simp [Heap.grad, Heap.ctx, this]

theorem fresh_pure {β : Type} (b : β) : Fresh (pure b : HM α β) := by
  intro H r H' h
  have : (pure b : HM α β) H = .ok (b, H) := rfl
  rw [this] at h; cases h
  exact ⟨Extends.refl _, fun n hn => grad_beyond H n hn⟩

theorem fresh_bind {β γ : Type} {m : HM α β} {f : β → HM α γ} (hm : Fresh m) (hf : ∀ b, Fresh (f b)) :
    Fresh (m >>= f) := by
  intro H r H' h
  have e : (m >>= f) H = (m H).bind (fun p => f p.1 p.2) := rfl
  rw [e] at h
  cases hmH : m H with
  | ok p =>
    rw [hmH] at h
    simp only [Out.bind] at h
    obtain ⟨e1, g1⟩ := hm H p.1 p.2 (by rw [hmH])
    obtain ⟨e2, g2⟩ := hf p.1 p.2 r H' h
    refine ⟨e1.trans e2, fun n hn => ?_⟩
    by_cases hlt : n < p.2.size
    · have : H'.grad n = p.2.grad n := by simp only [Heap.grad, e2.ctx hlt]
      rw [this]; exact g1 n hn
    · exact g2 n (by omega)
  | err => rw [hmH] at h; simp [Out.bind] at h
  | panic => rw [hmH] at h; simp [Out.bind] at h

theorem fresh_alloc (v : Tensor α) (c : Ctx α) (hc : c.grad = none) : Fresh (alloc v c) := by
  intro H r H' h
  have hf := frame_alloc v c H r H' h
  simp only [alloc] at h
  cases h
  refine ⟨hf, fun n hn => ?_⟩
  by_cases he : n = H.size
  · subst he; simp [Heap.grad, Heap.ctx, hc]
  · exact grad_beyond _ n (by simp; omega)

theorem fresh_liftOut {β : Type} (o : Out β) : Fresh (liftOut o : HM α β) := by
  intro H r H' h
  cases o with
  | ok v => simp [liftOut, Out.bind] at h; rw [← h.2]; exact ⟨Extends.refl _, fun n hn => grad_beyond H n hn⟩
  | err => simp [liftOut, Out.bind] at h
  | panic => simp [liftOut, Out.bind] at h

theorem fresh_getHeap : Fresh (getHeap : HM α (Heap α)) := by
  intro H r H' h
  simp [getHeap] at h; rw [← h.2]; exact ⟨Extends.refl _, fun n hn => grad_beyond H n hn⟩

theorem mkCtx_grad (H : Heap α) (ops : List Nat) (es : List (Edge α)) : (mkCtx H ops es).grad = none := by
  unfold mkCtx; split
  · rfl
  · split <;> rfl

/-- tactic: decompose a `do` block of fresh steps -/
syntax "fresh_tac" : tactic
macro_rules
  | `(tactic| fresh_tac) => `(tactic|
      repeat (first
        | exact fresh_pure _
        | exact fresh_alloc _ _ (by first | rfl | exact mkCtx_grad _ _ _)
        | exact fresh_liftOut _
        | exact fresh_getHeap
        | (apply fresh_bind)
        | (intro _)
        | assumption))

section
variable [Scalar α]

theorem fresh_hLeaf (v : Tensor α) (b : Bool) : Fresh (hLeaf v b) := fresh_alloc _ _ (by first | rfl | exact mkCtx_grad _ _ _)

theorem fresh_hOp1 (x : Nat) (v : Out (Tensor α)) (rule : Nat → Rule α) : Fresh (hOp1 x v rule) := by
  unfold hOp1; fresh_tac

theorem fresh_hSlice (x : Nat) (i : List IRange) : Fresh (hSlice (α := α) x i) := by
  unfold hSlice; apply fresh_bind fresh_getHeap; intro H; exact fresh_hOp1 _ _ _
theorem fresh_hTranspose (x : Nat) : Fresh (hTranspose (α := α) x) := by
  unfold hTranspose; apply fresh_bind fresh_getHeap; intro H; exact fresh_hOp1 _ _ _
theorem fresh_hReshape (x : Nat) (s : List Int) : Fresh (hReshape (α := α) x s) := by
  unfold hReshape; apply fresh_bind fresh_getHeap; intro H; exact fresh_hOp1 _ _ _
theorem fresh_hUnSqueeze (x : Nat) (d : Int) : Fresh (hUnSqueeze (α := α) x d) := by
  unfold hUnSqueeze; apply fresh_bind fresh_getHeap; intro H; exact fresh_hOp1 _ _ _
theorem fresh_hSqueeze (x : Nat) (d : Int) : Fresh (hSqueeze (α := α) x d) := by
  unfold hSqueeze; apply fresh_bind fresh_getHeap; intro H; exact fresh_hOp1 _ _ _
theorem fresh_hFlatten (x : Nat) (d : Int) : Fresh (hFlatten (α := α) x d) := by
  unfold hFlatten; apply fresh_bind fresh_getHeap; intro H; exact fresh_hOp1 _ _ _
theorem fresh_hBroadcast (x : Nat) (s : List Int) : Fresh (hBroadcast (α := α) x s) := by
  unfold hBroadcast; apply fresh_bind fresh_getHeap; intro H; exact fresh_hOp1 _ _ _
theorem fresh_hAlong (r : Reducer) (x : Nat) (d : Int) : Fresh (hAlong (α := α) r x d) := by
  unfold hAlong; apply fresh_bind fresh_getHeap; intro H; exact fresh_hOp1 _ _ _
theorem fresh_hScale (x : Nat) (a : α) : Fresh (hScale x a) := by
  unfold hScale; apply fresh_bind fresh_getHeap; intro H; exact fresh_hOp1 _ _ _
theorem fresh_hPow (x : Nat) (a : α) : Fresh (hPow x a) := by
  unfold hPow; apply fresh_bind fresh_getHeap; intro H; exact fresh_hOp1 _ _ _
theorem fresh_hUnary (f : Unary) (x : Nat) : Fresh (hUnary (α := α) f x) := by
  unfold hUnary; apply fresh_bind fresh_getHeap; intro H; exact fresh_hOp1 _ _ _

theorem fresh_hPatch (x : Nat) (i : List IRange) (p : Nat) : Fresh (hPatch (α := α) x i p) := by
  unfold hPatch; fresh_tac

theorem fresh_hCmp (c : Cmp) (a b : Nat) : Fresh (hCmp (α := α) c a b) := by
  unfold hCmp
  apply fresh_bind fresh_getHeap; intro H
  apply fresh_bind (fresh_liftOut _); intro r
  cases c <;> exact fresh_alloc _ _ (by first | rfl | exact mkCtx_grad _ _ _)

theorem fresh_hBroadcastPair (a b : Nat) : Fresh (hBroadcastPair (α := α) a b) := by
  unfold hBroadcastPair
  apply fresh_bind fresh_getHeap; intro H
  apply fresh_bind (fresh_hBroadcast _ _); intro a'
  apply fresh_bind (fresh_hBroadcast _ _); intro b'
  exact fresh_pure _

theorem fresh_hBroadcastPairMM (a b : Nat) : Fresh (hBroadcastPairMM (α := α) a b) := by
  unfold hBroadcastPairMM
  apply fresh_bind fresh_getHeap; intro H
  apply fresh_bind (fresh_hBroadcast _ _); intro a'
  apply fresh_bind (fresh_hBroadcast _ _); intro b'
  exact fresh_pure _

theorem fresh_hArith (o : Arith) (a b : Nat) : Fresh (hArith (α := α) o a b) := by
  unfold hArith
  apply fresh_bind (fresh_hBroadcastPair _ _); intro p
  obtain ⟨a', b'⟩ := p
  apply fresh_bind fresh_getHeap; intro H
  apply fresh_bind (fresh_liftOut _); intro r
  exact fresh_alloc _ _ (by first | rfl | exact mkCtx_grad _ _ _)

theorem fresh_hDot (a b : Nat) : Fresh (hDot (α := α) a b) := by
  unfold hDot
  apply fresh_bind fresh_getHeap; intro H
  split
  · apply fresh_bind (fresh_hBroadcastPair _ _); intro p
    obtain ⟨a', b'⟩ := p
    apply fresh_bind fresh_getHeap; intro H
    apply fresh_bind (fresh_liftOut _); intro r
    exact fresh_alloc _ _ (by first | rfl | exact mkCtx_grad _ _ _)
  · exact fresh_liftOut _

theorem fresh_hMatMul (a b : Nat) : Fresh (hMatMul (α := α) a b) := by
  unfold hMatMul
  apply fresh_bind fresh_getHeap; intro H
  split
  · apply fresh_bind (fresh_hBroadcastPairMM _ _); intro p
    obtain ⟨a', b'⟩ := p
    apply fresh_bind fresh_getHeap; intro H
    apply fresh_bind (fresh_liftOut _); intro r
    exact fresh_alloc _ _ (by first | rfl | exact mkCtx_grad _ _ _)
  · exact fresh_liftOut _

theorem fresh_hConcat (xs : List Nat) (d : Int) : Fresh (hConcat (α := α) xs d) := by
  unfold hConcat; fresh_tac

theorem fresh_hGradNode (n : Nat) : Fresh (hGradNode (α := α) n) := by
  unfold hGradNode
  apply fresh_bind fresh_getHeap; intro H
  split
  · exact fresh_pure _
  · apply fresh_bind (fresh_alloc _ _ (by first | rfl | exact mkCtx_grad _ _ _)); intro k; exact fresh_pure _


theorem fresh_clip (x : Nat) (l u : α) : Fresh (clip x l u) := by
  unfold clip
  apply fresh_bind (fresh_hPow _ _); intro o
  apply fresh_bind (fresh_hScale _ _); intro lo
  apply fresh_bind (fresh_hScale _ _); intro up
  apply fresh_bind (fresh_hCmp _ _ _); intro y
  exact fresh_hCmp _ _ _

theorem fresh_actForward (a : Activation α) (xs : List (Option Nat)) : Fresh (actForward a xs) := by
  unfold actForward
  apply fresh_bind (fresh_liftOut _); intro x
  cases a with
  | relu =>
    apply fresh_bind (fresh_hScale _ _); intro z; exact fresh_hCmp _ _ _
  | leaky m =>
    apply fresh_bind (fresh_hScale _ _); intro z
    apply fresh_bind (fresh_hCmp _ _ _); intro s1
    apply fresh_bind (fresh_hCmp _ _ _); intro s2
    apply fresh_bind (fresh_hScale _ _); intro s2'
    exact fresh_hArith _ _ _
  | sigmoid =>
    apply fresh_bind (fresh_hPow _ _); intro o
    apply fresh_bind (fresh_hScale _ _); intro x1
    apply fresh_bind (fresh_hUnary _ _); intro x2
    apply fresh_bind (fresh_hArith _ _ _); intro y
    exact fresh_hPow _ _
  | tanh => exact fresh_hUnary _ _
  | softmax dim =>
    apply fresh_bind fresh_getHeap; intro H
    split
    · exact fresh_liftOut _
    · apply fresh_bind (fresh_hUnary _ _); intro e
      apply fresh_bind (fresh_hAlong _ _ _); intro s
      apply fresh_bind (fresh_hUnSqueeze _ _); intro s'
      exact fresh_hArith _ _ _

theorem fresh_lossCompute (l : Loss) (yp yt : Option Nat) : Fresh (lossCompute (α := α) l yp yt) := by
  unfold lossCompute
  apply fresh_bind fresh_getHeap; intro H
  apply fresh_bind (fresh_liftOut _); intro p
  obtain ⟨p, t⟩ := p
  cases l with
  | mse =>
    apply fresh_bind (fresh_hArith _ _ _); intro d
    apply fresh_bind (fresh_hPow _ _); intro d2
    exact fresh_hAlong _ _ _
  | bce =>
    apply fresh_bind (fresh_clip _ _ _); intro yt'
    apply fresh_bind (fresh_clip _ _ _); intro yp'
    apply fresh_bind (fresh_hUnary _ _); intro lg
    apply fresh_bind (fresh_hArith _ _ _); intro s1
    apply fresh_bind (fresh_hPow _ _); intro o
    apply fresh_bind (fresh_hArith _ _ _); intro t2
    apply fresh_bind (fresh_hArith _ _ _); intro y2
    apply fresh_bind (fresh_hUnary _ _); intro lg2
    apply fresh_bind (fresh_hArith _ _ _); intro s2
    apply fresh_bind (fresh_hArith _ _ _); intro l1
    apply fresh_bind (fresh_hScale _ _); intro l2
    exact fresh_hAlong _ _ _
  | ce =>
    apply fresh_bind (fresh_clip _ _ _); intro yt'
    apply fresh_bind (fresh_clip _ _ _); intro yp'
    apply fresh_bind (fresh_hUnary _ _); intro lg
    apply fresh_bind (fresh_hArith _ _ _); intro s
    apply fresh_bind (fresh_hAlong _ _ _); intro l1
    apply fresh_bind (fresh_hScale _ _); intro l2
    exact fresh_hAlong _ _ _

theorem fresh_fcForward (c : FC) (xs : List (Option Nat)) : Fresh (fcForward (α := α) c xs) := by
  unfold fcForward
  apply fresh_bind (fresh_liftOut _); intro x
  apply fresh_bind fresh_getHeap; intro H
  split
  · exact fresh_liftOut _
  · split
    · apply fresh_bind (fresh_hUnSqueeze _ _); intro w1
      apply fresh_bind (fresh_hUnSqueeze _ _); intro x1
      apply fresh_bind (fresh_hMatMul _ _); intro y
      apply fresh_bind (fresh_hAlong _ _ _); intro y2
      exact fresh_hArith _ _ _
    · exact fresh_liftOut _
    · apply fresh_bind (fresh_hUnSqueeze _ _); intro w1
      apply fresh_bind (fresh_hUnSqueeze _ _); intro x1
      apply fresh_bind (fresh_hMatMul _ _); intro y
      apply fresh_bind (fresh_hAlong _ _ _); intro y2
      exact fresh_liftOut _

theorem fresh_sgdUpdate (lr : α) (w : Option Nat) : Fresh (sgdUpdate lr w) := by
  unfold sgdUpdate
  cases w with
  | none => exact fresh_liftOut _
  | some w =>
    apply fresh_bind (fresh_hGradNode _); intro g
    cases g with
    | none => exact fresh_liftOut _
    | some g =>
      apply fresh_bind (fresh_hScale _ _); intro d
      exact fresh_hArith _ _ _

theorem fresh_accAccumulate (c : Accuracy) (yp yt : Option Nat) : Fresh (accAccumulate (α := α) c yp yt) := by
  unfold accAccumulate
  apply fresh_bind fresh_getHeap; intro H
  cases yp with
  | none => exact fresh_liftOut _
  | some p =>
    cases yt with
    | none => exact fresh_liftOut _
    | some t =>
      simp only []
      split
      · apply fresh_bind (fresh_hCmp _ _ _); intro e
        apply fresh_bind fresh_getHeap; intro H2
        exact fresh_pure _
      · exact fresh_liftOut _


/-- the invariant: a tensor that is not spent has no gradient -/
def CleanNoGrad (H : Heap α) : Prop := ∀ n, H.dirty n = false → H.grad n = none

theorem cng_step {β : Type} {m : HM α β} (hm : Fresh m) {H H' : Heap α} {r : β} (hc : CleanNoGrad H)
    (h : m H = .ok (r, H')) : CleanNoGrad H' := by
  obtain ⟨e, g⟩ := hm H r H' h
  intro n hn
  by_cases hlt : n < H.size
  · have hd : H.dirty n = false := by simp only [Heap.dirty, e.ctx hlt] at hn ⊢; exact hn
    have : H'.grad n = H.grad n := by simp only [Heap.grad, e.ctx hlt]
    rw [this]; exact hc n hd
  · exact g n (by omega)

/-- **in every reachable heap a tensor that is not spent has no gradient** -/
theorem reach_clean_nograd {bm : BMode} {H : Heap α} (h : Reach bm H) : CleanNoGrad H := by
  induction h with
  | empty => intro n _; exact grad_beyond _ n (by simp)
  | leaf _ h ih => exact cng_step (fresh_hLeaf _ _) ih h
  | slice _ _ h ih => exact cng_step (fresh_hSlice _ _) ih h
  | transpose _ _ h ih => exact cng_step (fresh_hTranspose _) ih h
  | reshape _ _ h ih => exact cng_step (fresh_hReshape _ _) ih h
  | unsqueeze _ _ h ih => exact cng_step (fresh_hUnSqueeze _ _) ih h
  | squeeze _ _ h ih => exact cng_step (fresh_hSqueeze _ _) ih h
  | flatten _ _ h ih => exact cng_step (fresh_hFlatten _ _) ih h
  | broadcast _ _ h ih => exact cng_step (fresh_hBroadcast _ _) ih h
  | along _ _ h ih => exact cng_step (fresh_hAlong _ _ _) ih h
  | scale _ _ h ih => exact cng_step (fresh_hScale _ _) ih h
  | pow _ _ h ih => exact cng_step (fresh_hPow _ _) ih h
  | unary _ _ h ih => exact cng_step (fresh_hUnary _ _) ih h
  | patch _ _ _ h ih => exact cng_step (fresh_hPatch _ _ _) ih h
  | cmp _ _ _ h ih => exact cng_step (fresh_hCmp _ _ _) ih h
  | arith _ _ _ h ih => exact cng_step (fresh_hArith _ _ _) ih h
  | dot _ _ _ h ih => exact cng_step (fresh_hDot _ _) ih h
  | matmul _ _ _ h ih => exact cng_step (fresh_hMatMul _ _) ih h
  | concat _ _ h ih => exact cng_step (fresh_hConcat _ _) ih h
  | gradNode _ h ih => exact cng_step (fresh_hGradNode _) ih h
  | @backprop H root hr ih =>
    intro n hn
    by_cases hmem : n ∈ backwardOrder H root
    · by_cases hlt : n < H.size
      · have htr : H.tracked root = true := by
          by_cases ht : H.tracked root = true
          · exact ht
          · unfold backwardOrder at hmem; simp [ht] at hmem
        have := C08.bp_marks_spent bm H root htr n hmem hlt
        rw [this] at hn; cases hn
      · have hs : (backprop bm H root).heap.size = H.size := (backprop_val bm H root 0).2
        exact grad_beyond _ n (by omega)
    · have hctx := C20.backprop_footprint bm H root (reach_dag hr) n hmem
      have hd : H.dirty n = false := by simp only [Heap.dirty, hctx] at hn ⊢; exact hn
      have : (backprop bm H root).heap.grad n = H.grad n := by simp only [Heap.grad, hctx]
      rw [this]; exact ih n hd
  | @reset H n b _ ih =>
    intro m hm
    by_cases hmn : m = n
    · subst hmn
      by_cases hlt : m < H.size
      · have := (C08.reset_is_fresh_leaf H m b hlt).1
        simp [Heap.grad, this]
      · have hs : (resetCtx H m b).size = H.size := (resetCtx_frame H m b).1
        exact grad_beyond _ m (by omega)
    · have hctx := (resetCtx_frame H n b).2.2 m hmn
      have hd : H.dirty m = false := by simp only [Heap.dirty, hctx] at hm ⊢; exact hm
      have : (resetCtx H n b).grad m = H.grad m := by simp only [Heap.grad, hctx]
      rw [this]; exact ih m hd

end
end Qeep
