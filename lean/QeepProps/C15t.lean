import QeepProps.C15u
/-!
# C15 — every back edge of the Sigmoid graph accepts a gradient of the input's shape (either mode)

`sg_edge_ok`: the per-edge premise of the progress theorem `C01p.backprop_ok` for the seven-tensor Sigmoid graph, wherever it
sits in a network: each rule, evaluated on ANY well-formed gradient of the input's shape, returns one of that shape.
-/
set_option linter.unusedSimpArgs false
set_option linter.unusedSectionVars false
set_option linter.unusedVariables false

namespace Qeep
namespace C15t
open RealScalar C15x C15z C15u C01 C01w

theorem sg_edge_ok (bm : BMode) (H2 : Heap ℝ) (x k : Nat) (wX : (H2.val x).WF)
    (v2 : H2.val (k + 2) = (H2.val x).map (fun a => Real.exp (-a)))
    (v3 : H2.val (k + 3) = H2.val k) (v4 : H2.val (k + 4) = H2.val (k + 2))
    (v5 : H2.val (k + 5) = (H2.val x).map (fun a => 1 + Real.exp (-a)))
    (i : Nat) (hi : i ≤ 6) (e : Edge ℝ) (he : e ∈ sgEdges x k i) (gy : Tensor ℝ) (hgy : Shaped (H2.val x).dims gy) :
    ∃ g', evalRule bm H2 gy e.rule = .ok g' ∧ Shaped (H2.val x).dims g' := by
  let X := H2.val x
  have hd : gy.dims = X.dims := hgy.2
  have e1 : gz gy X (fun _ => 1) = gy := gz_one gy X wX hgy.1 hd
  have shp : ∀ φ, Shaped X.dims (gz gy X φ) := fun φ => ⟨gz_wf gy X φ wX hgy.1 hd, hd⟩
  have hX : H2.val x = X.map id := by simp [Tensor.map, X]
  interval_cases i
  · simp [sgEdges] at he; subst he
    have := r_pow0 bm H2 gy X (fun _ => 1) id x wX hgy.1 hd hX
    rw [e1] at this
    exact ⟨_, this, shp _⟩
  · simp [sgEdges] at he; subst he
    have := r_scale bm H2 gy X (fun _ => 1) (-1)
    rw [e1] at this
    exact ⟨_, this, shp _⟩
  · simp [sgEdges] at he; subst he
    have := r_exp bm H2 gy X (fun _ => 1) (fun a => Real.exp (-a)) (k + 2) wX hgy.1 hd v2
    rw [e1] at this
    exact ⟨_, this, shp _⟩
  · simp [sgEdges] at he; subst he
    exact ⟨gy, r_bcast bm H2 gy k (k + 3) (by rw [v3]), hgy⟩
  · simp [sgEdges] at he; subst he
    exact ⟨gy, r_bcast bm H2 gy (k + 2) (k + 4) (by rw [v4]), hgy⟩
  · simp [sgEdges] at he
    rcases he with rfl | rfl
    · exact ⟨gy, rfl, hgy⟩
    · exact ⟨gy, rfl, hgy⟩
  · simp [sgEdges] at he; subst he
    have := r_pow bm H2 gy X (fun _ => 1) (fun a => 1 + Real.exp (-a)) (k + 5) wX hgy.1 hd (-1) (by norm_num) v5
    rw [e1] at this
    exact ⟨_, this, shp _⟩

end C15t
end Qeep
