import QeepProofs.Index
import QeepProofs.Bcast
