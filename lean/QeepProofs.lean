import QeepProofs.Index
import QeepProofs.Bcast
import QeepProofs.Heap
import QeepProofs.Graph
import QeepProofs.Transpose
import QeepProofs.Slice
