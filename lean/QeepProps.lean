import QeepProps.C01
import QeepProps.C03
import QeepProps.C04
import QeepProps.C06
import QeepProps.C08
import QeepProps.C10
import QeepProps.C14
