import QeepProps.C03
import QeepProps.C06
