import QeepTie.Rules
import QeepTie.Act
import QeepTie.Loss
import QeepTie.FC
import QeepTie.SGD
import QeepTie.Valid
