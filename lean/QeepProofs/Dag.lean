import QeepProofs.Vals
/-!
# Back edges point to older tensors: an invariant of every heap the public API can build

`HeapDag H` is the hypothesis of the graph theorems (C01, C20). Here: every primitive public operation (whose operands
exist), `backprop` and `resetCtx` preserve it, so it holds in every heap reachable from the empty heap (`reach_dag`).
Components (activations, losses, FC, SGD, accuracy) are straight-line sequences of these primitive operations.
-/
set_option linter.unusedSimpArgs false
set_option linter.unusedSectionVars false

namespace Qeep
variable {α : Type}

/-- back edges point to older tensors -/
def HeapDag (H : Heap α) : Prop := ∀ n, ∀ e ∈ (H.ctx n).edges, e.target < n

theorem dag_empty : HeapDag (#[] : Heap α) := by
  intro n e he; simp [Heap.ctx] at he

theorem dag_push (H : Heap α) (v : Tensor α) (c : Ctx α) (hd : HeapDag H) (hc : ∀ e ∈ c.edges, e.target < H.size) :
    HeapDag (H.push ⟨v, c⟩) := by
  intro n e he
  by_cases hn : n < H.size
  · have : Heap.ctx (H.push ⟨v, c⟩) n = H.ctx n := by simp [Heap.ctx, Array.getElem?_push, Nat.ne_of_lt hn]
    rw [this] at he; exact hd n e he
  · by_cases hn2 : n = H.size
    · subst hn2
      have : Heap.ctx (H.push ⟨v, c⟩) H.size = c := by simp [Heap.ctx]
      rw [this] at he; exact hc e he
    · have : Heap.ctx (H.push ⟨v, c⟩) n = {} := by
        simp [Heap.ctx, Array.getElem?_push, hn2]
        rw [Array.getElem?_eq_none (by omega)]
      rw [this] at he; simp at he

theorem mkCtx_edges_sub (H : Heap α) (ops : List Nat) (edges : List (Edge α)) :
    ∀ e ∈ (mkCtx H ops edges).edges, e ∈ edges := by
  intro e he
  unfold mkCtx at he
  split at he
  · simp [dirtyCtx] at he
  · split at he
    · simp [freshCtx] at he
    · exact he

theorem alloc_eq {v : Tensor α} {c : Ctx α} {H H' : Heap α} {r : Nat} (h : alloc v c H = .ok (r, H')) :
    H' = H.push ⟨v, c⟩ ∧ r = H.size := by
  simp only [alloc] at h; cases h; exact ⟨rfl, rfl⟩

/-- changing a context to one whose back edges are among the old ones keeps the invariant -/
theorem dag_setCtx (H : Heap α) (n : Nat) (c : Ctx α) (hd : HeapDag H) (hc : ∀ e ∈ c.edges, e ∈ (H.ctx n).edges) :
    HeapDag (H.setCtx n c) := by
  intro m e he
  by_cases hm : m = n
  · subst hm
    by_cases hlt : m < H.size
    · rw [setCtx_ctx_eq' H m c hlt] at he
      exact hd m e (hc e he)
    · have : H.setCtx m c = H := by
        unfold Heap.setCtx; rw [Array.getElem?_eq_none (by omega)]
      rw [this] at he; exact hd m e he
  · rw [setCtx_ctx_ne' H n c m hm] at he; exact hd m e he
where
  setCtx_ctx_eq' (H : Heap α) (n : Nat) (c : Ctx α) (h : n < H.size) : (H.setCtx n c).ctx n = c := by
    unfold Heap.setCtx Heap.ctx
    have : H[n]? = some H[n] := Array.getElem?_eq_getElem h
    rw [this]
    simp [Array.set!, Array.getElem?_setIfInBounds, h]
  setCtx_ctx_ne' (H : Heap α) (n : Nat) (c : Ctx α) (m : Nat) (h : m ≠ n) : (H.setCtx n c).ctx m = H.ctx m := by
    unfold Heap.setCtx
    cases hn : H[n]? with
    | none => rfl
    | some nd =>
      simp only []
      unfold Heap.ctx
      simp [Array.set!, Array.getElem?_setIfInBounds, Ne.symm h]

section
variable [Scalar α]

theorem dag_hOp1 {x : Nat} {v : Out (Tensor α)} {rule : Nat → Rule α} {H H' : Heap α} {r : Nat}
    (hd : HeapDag H) (hx : x < H.size) (h : hOp1 x v rule H = .ok (r, H')) : HeapDag H' := by
  unfold hOp1 at h
  obtain ⟨t, H1, h1, h2⟩ := bind_ok h
  obtain ⟨_, e1⟩ := liftOut_ok h1
  rw [e1] at h2
  obtain ⟨H0, H2, h3, h4⟩ := bind_ok h2
  obtain ⟨e3, e3'⟩ := getHeap_ok h3
  rw [e3, e3'] at h4
  obtain ⟨e, _⟩ := alloc_eq h4
  rw [e]
  apply dag_push H _ _ hd
  intro ed hed
  have := mkCtx_edges_sub H [x] _ ed hed
  simp at this; rw [this]; exact hx

/-- the one-operand public operations -/
theorem dag_unary_ops {H H' : Heap α} {r x : Nat} (hd : HeapDag H) (hx : x < H.size) :
    (∀ i, hSlice x i H = .ok (r, H') → HeapDag H') ∧ (hTranspose x H = .ok (r, H') → HeapDag H') ∧
    (∀ s, hReshape x s H = .ok (r, H') → HeapDag H') ∧ (∀ d, hUnSqueeze x d H = .ok (r, H') → HeapDag H') ∧
    (∀ d, hSqueeze x d H = .ok (r, H') → HeapDag H') ∧ (∀ d, hFlatten x d H = .ok (r, H') → HeapDag H') ∧
    (∀ s, hBroadcast x s H = .ok (r, H') → HeapDag H') ∧ (∀ rd d, hAlong rd x d H = .ok (r, H') → HeapDag H') ∧
    (∀ a : α, hScale x a H = .ok (r, H') → HeapDag H') ∧ (∀ a : α, hPow x a H = .ok (r, H') → HeapDag H') ∧
    (∀ f, hUnary f x H = .ok (r, H') → HeapDag H') := by
  have gen : ∀ {m : HM α Nat} {v : Heap α → Out (Tensor α)} {rule : Heap α → Nat → Rule α},
      (m = (do let H ← getHeap; hOp1 x (v H) (rule H))) → m H = .ok (r, H') → HeapDag H' := by
    intro m v rule hm h
    rw [hm] at h
    obtain ⟨H0, H1, g0, k⟩ := bind_ok h
    obtain ⟨e0, e0'⟩ := getHeap_ok g0
    rw [e0, e0'] at k
    exact dag_hOp1 hd hx k
  refine ⟨fun i => gen rfl, gen rfl, fun s => gen rfl, fun d => gen rfl, fun d => gen rfl, fun d => gen rfl,
    fun s => gen rfl, fun rd d => gen rfl, fun a => gen rfl, fun a => gen rfl, fun f => gen rfl⟩

theorem dag_hBroadcast {x : Nat} {s : List Int} {H H' : Heap α} {r : Nat} (hd : HeapDag H) (hx : x < H.size)
    (h : hBroadcast x s H = .ok (r, H')) : HeapDag H' := (dag_unary_ops hd hx).2.2.2.2.2.2.1 s h

theorem dag_hCmp {c : Cmp} {a b : Nat} {H H' : Heap α} {r : Nat} (hd : HeapDag H) (ha : a < H.size) (hb : b < H.size)
    (h : hCmp c a b H = .ok (r, H')) : HeapDag H' := by
  unfold hCmp at h
  obtain ⟨H0, H1, g0, k1⟩ := bind_ok h
  obtain ⟨e0, e0'⟩ := getHeap_ok g0
  rw [e0, e0'] at k1
  obtain ⟨t, H2, g1, k2⟩ := bind_ok k1
  obtain ⟨_, e1⟩ := liftOut_ok g1
  rw [e1] at k2
  cases c <;> (obtain ⟨e, _⟩ := alloc_eq k2; rw [e]; apply dag_push H _ _ hd; intro ed hed) <;>
    first
    | (simp [freshCtx] at hed)
    | (have := mkCtx_edges_sub H [a, b] _ ed hed
       simp at this
       rcases this with rfl | rfl <;> assumption)

theorem dag_hPatch {x p : Nat} {i : List IRange} {H H' : Heap α} {r : Nat} (hd : HeapDag H) (hx : x < H.size) (hp : p < H.size)
    (h : hPatch x i p H = .ok (r, H')) : HeapDag H' := by
  unfold hPatch at h
  obtain ⟨H0, H1, g0, k1⟩ := bind_ok h
  obtain ⟨e0, e0'⟩ := getHeap_ok g0
  rw [e0, e0'] at k1
  obtain ⟨t, H2, g1, k2⟩ := bind_ok k1
  obtain ⟨_, e1⟩ := liftOut_ok g1
  rw [e1] at k2
  obtain ⟨e, _⟩ := alloc_eq k2
  rw [e]; apply dag_push H _ _ hd
  intro ed hed
  have := mkCtx_edges_sub H [x, p] _ ed hed
  simp at this
  rcases this with rfl | rfl <;> assumption

theorem dag_hConcat {xs : List Nat} {d : Int} {H H' : Heap α} {r : Nat} (hd : HeapDag H) (hxs : ∀ x ∈ xs, x < H.size)
    (h : hConcat xs d H = .ok (r, H')) : HeapDag H' := by
  unfold hConcat at h
  obtain ⟨H0, H1, g0, k1⟩ := bind_ok h
  obtain ⟨e0, e0'⟩ := getHeap_ok g0
  rw [e0, e0'] at k1
  obtain ⟨t, H2, g1, k2⟩ := bind_ok k1
  obtain ⟨_, e1⟩ := liftOut_ok g1
  rw [e1] at k2
  obtain ⟨e, _⟩ := alloc_eq k2
  rw [e]; apply dag_push H _ _ hd
  intro ed hed
  have hsub := mkCtx_edges_sub H xs _ ed hed
  -- targets of the Concat edges are the operands
  have : ∀ (l : List Nat) (base : Nat), (∀ x ∈ l, x < H.size) → ∀ e ∈ concatEdges H d.toNat l base, e.target < H.size := by
    intro l
    induction l with
    | nil => intro base _ e he; simp [concatEdges] at he
    | cons x l ih =>
      intro base hl e he
      simp only [concatEdges, List.mem_cons] at he
      rcases he with rfl | he
      · exact hl x (by simp)
      · exact ih _ (fun y hy => hl y (List.mem_cons_of_mem _ hy)) e he
  exact this xs 0 hxs ed hsub

/-- Add / Sub / Mul / Div (three allocations: the two broadcasts and the result) -/
theorem dag_hArith {o : Arith} {a b : Nat} {H H' : Heap α} {r : Nat} (hd : HeapDag H) (ha : a < H.size) (hb : b < H.size)
    (h : hArith o a b H = .ok (r, H')) : HeapDag H' := by
  unfold hArith at h
  obtain ⟨p, H1, h1, h2⟩ := bind_ok h
  obtain ⟨a', b'⟩ := p
  unfold hBroadcastPair at h1
  obtain ⟨H0, H0', g0, k1⟩ := bind_ok h1
  obtain ⟨e0, e0'⟩ := getHeap_ok g0
  rw [e0, e0'] at k1
  obtain ⟨a1, Ha, g1, k2⟩ := bind_ok k1
  obtain ⟨b1, Hb, g2, k3⟩ := bind_ok k2
  have hp : (pure (a1, b1) : HM α (Nat × Nat)) Hb = .ok ((a1, b1), Hb) := rfl
  rw [hp] at k3
  injection k3 with k3
  injection k3 with e1 e2
  injection e1 with ea eb
  subst ea eb e2
  have da := dag_hBroadcast hd ha g1
  have xa : Extends H Ha := frame_hBroadcast _ _ H a1 Ha g1
  have db := dag_hBroadcast da (Nat.lt_of_lt_of_le hb xa.1) g2
  have xb : Extends Ha Hb := frame_hBroadcast _ _ Ha b1 Hb g2
  have a1lt : a1 < Hb.size := Nat.lt_of_lt_of_le (alloc_size_lt g1) xb.1
  have b1lt : b1 < Hb.size := alloc_size_lt g2
  obtain ⟨H3, H3', g3, k4⟩ := bind_ok h2
  obtain ⟨e3, e3'⟩ := getHeap_ok g3
  rw [e3, e3'] at k4
  obtain ⟨t, H4, g4, k5⟩ := bind_ok k4
  obtain ⟨_, e4'⟩ := liftOut_ok g4
  rw [e4'] at k5
  obtain ⟨e, _⟩ := alloc_eq k5
  rw [e]; apply dag_push Hb _ _ db
  intro ed hed
  have := mkCtx_edges_sub Hb [a1, b1] _ ed hed
  cases o <;> (simp at this; rcases this with rfl | rfl <;> assumption)

/-- both broadcasting helpers: two allocations, invariant kept, results exist -/
theorem dag_pair {a b : Nat} {s1 s2 : Heap α → List Int} {H H' : Heap α} {a' b' : Nat}
    (hd : HeapDag H) (ha : a < H.size) (hb : b < H.size)
    (h : (do let H ← getHeap; let a' ← hBroadcast a (s1 H); let b' ← hBroadcast b (s2 H); pure (a', b') : HM α (Nat × Nat)) H
        = .ok ((a', b'), H')) :
    HeapDag H' ∧ a' < H'.size ∧ b' < H'.size := by
  obtain ⟨H0, H0', g0, k1⟩ := bind_ok h
  obtain ⟨e0, e0'⟩ := getHeap_ok g0
  rw [e0, e0'] at k1
  obtain ⟨a1, Ha, g1, k2⟩ := bind_ok k1
  obtain ⟨b1, Hb, g2, k3⟩ := bind_ok k2
  have hp : (pure (a1, b1) : HM α (Nat × Nat)) Hb = .ok ((a1, b1), Hb) := rfl
  rw [hp] at k3
  injection k3 with k3
  injection k3 with e1 e2
  injection e1 with ea eb
  subst ea eb e2
  have da := dag_hBroadcast hd ha g1
  have xa : Extends H Ha := frame_hBroadcast _ _ H a1 Ha g1
  have db := dag_hBroadcast da (Nat.lt_of_lt_of_le hb xa.1) g2
  have xb : Extends Ha Hb := frame_hBroadcast _ _ Ha b1 Hb g2
  exact ⟨db, Nat.lt_of_lt_of_le (alloc_size_lt g1) xb.1, alloc_size_lt g2⟩

theorem dag_hDot {a b : Nat} {H H' : Heap α} {r : Nat} (hd : HeapDag H) (ha : a < H.size) (hb : b < H.size)
    (h : hDot a b H = .ok (r, H')) : HeapDag H' := by
  unfold hDot at h
  obtain ⟨H0, H0', g0, k1⟩ := bind_ok h
  obtain ⟨e0, e0'⟩ := getHeap_ok g0
  rw [e0, e0'] at k1
  split at k1
  · obtain ⟨p, H1, h1, h2⟩ := bind_ok k1
    obtain ⟨a', b'⟩ := p
    obtain ⟨d1, a1lt, b1lt⟩ := dag_pair (s1 := fun H => (targetBroadcastDims (H.val a).dims (H.val b).dims).map Int.ofNat)
      (s2 := fun H => (targetBroadcastDims (H.val a).dims (H.val b).dims).map Int.ofNat) hd ha hb h1
    obtain ⟨H3, H3', g3, k4⟩ := bind_ok h2
    obtain ⟨e3, e3'⟩ := getHeap_ok g3
    rw [e3, e3'] at k4
    obtain ⟨t, H4, g4, k5⟩ := bind_ok k4
    obtain ⟨_, e4'⟩ := liftOut_ok g4
    rw [e4'] at k5
    obtain ⟨e, _⟩ := alloc_eq k5
    rw [e]; apply dag_push H1 _ _ d1
    intro ed hed
    have := mkCtx_edges_sub H1 [a', b'] _ ed hed
    simp at this; rcases this with rfl | rfl <;> assumption
  · simp [liftOut, Out.bind] at k1

theorem dag_hMatMul {a b : Nat} {H H' : Heap α} {r : Nat} (hd : HeapDag H) (ha : a < H.size) (hb : b < H.size)
    (h : hMatMul a b H = .ok (r, H')) : HeapDag H' := by
  unfold hMatMul at h
  obtain ⟨H0, H0', g0, k1⟩ := bind_ok h
  obtain ⟨e0, e0'⟩ := getHeap_ok g0
  rw [e0, e0'] at k1
  split at k1
  · obtain ⟨p, H1, h1, h2⟩ := bind_ok k1
    obtain ⟨a', b'⟩ := p
    obtain ⟨d1, a1lt, b1lt⟩ := dag_pair
      (s1 := fun H => (matMulShape (targetBroadcastDims (H.val a).dims (H.val b).dims) (H.val a).dims).map Int.ofNat)
      (s2 := fun H => (matMulShape (targetBroadcastDims (H.val a).dims (H.val b).dims) (H.val b).dims).map Int.ofNat) hd ha hb h1
    obtain ⟨H3, H3', g3, k4⟩ := bind_ok h2
    obtain ⟨e3, e3'⟩ := getHeap_ok g3
    rw [e3, e3'] at k4
    obtain ⟨t, H4, g4, k5⟩ := bind_ok k4
    obtain ⟨_, e4'⟩ := liftOut_ok g4
    rw [e4'] at k5
    obtain ⟨e, _⟩ := alloc_eq k5
    rw [e]; apply dag_push H1 _ _ d1
    intro ed hed
    have := mkCtx_edges_sub H1 [a', b'] _ ed hed
    simp at this; rcases this with rfl | rfl <;> assumption
  · simp [liftOut, Out.bind] at k1

theorem dag_hLeaf {v : Tensor α} {b : Bool} {H H' : Heap α} {r : Nat} (hd : HeapDag H) (h : hLeaf v b H = .ok (r, H')) :
    HeapDag H' := by
  obtain ⟨e, _⟩ := alloc_eq h
  rw [e]; apply dag_push H _ _ hd
  intro ed hed; simp [freshCtx] at hed

theorem dag_hGradNode {n : Nat} {H H' : Heap α} {r : Option Nat} (hd : HeapDag H) (h : hGradNode n H = .ok (r, H')) :
    HeapDag H' := by
  unfold hGradNode at h
  obtain ⟨H0, H0', g0, k1⟩ := bind_ok h
  obtain ⟨e0, e0'⟩ := getHeap_ok g0
  rw [e0, e0'] at k1
  cases hg : H.grad n with
  | none => simp only [hg] at k1; cases k1; exact hd
  | some g =>
    simp only [hg] at k1
    obtain ⟨k, H1, g1, k2⟩ := bind_ok k1
    cases k2
    obtain ⟨e, _⟩ := alloc_eq g1
    rw [e]; apply dag_push H _ _ hd
    intro ed hed; simp [dirtyCtx] at hed

/-! ### the in-place operations -/

theorem dag_resetCtx (H : Heap α) (n : Nat) (b : Bool) (hd : HeapDag H) : HeapDag (resetCtx H n b) := by
  unfold resetCtx
  apply dag_setCtx H n _ hd
  intro e he; simp [freshCtx] at he

theorem dag_markDirty (ns : List Nat) : ∀ (H : Heap α), HeapDag H → HeapDag (markDirty H ns) := by
  unfold markDirty
  induction ns with
  | nil => intro H hd; exact hd
  | cons n ns ih =>
    intro H hd
    simp only [List.foldl_cons]
    apply ih
    apply dag_setCtx H n _ hd
    intro e he; exact he

theorem writeBack_edges (H : Heap α) (G : Nat → Option (Tensor α)) (n : Nat) :
    ((writeBack H G).ctx n).edges = (H.ctx n).edges := by
  unfold writeBack Heap.ctx
  simp only [Array.getElem?_mapIdx]
  cases H[n]? <;> rfl

theorem dag_writeBack (H : Heap α) (G : Nat → Option (Tensor α)) (hd : HeapDag H) : HeapDag (writeBack H G) := by
  intro n e he
  rw [writeBack_edges] at he
  exact hd n e he

theorem dag_backprop (bm : BMode) (H : Heap α) (root : Nat) (hd : HeapDag H) : HeapDag (backprop bm H root).heap := by
  unfold backprop
  split
  · exact hd
  · simp only []
    split
    · exact dag_writeBack _ _ (dag_markDirty _ _ hd)
    · exact dag_markDirty _ _ hd
    · exact dag_markDirty _ _ hd

/-! ### every reachable heap -/

/-- heaps the public tensor API can build from nothing: constructors, every operation on existing tensors,
    `Gradient()`, `BackPropagate()` and `ResetGradContext()` -/
inductive Reach (bm : BMode) : Heap α → Prop
  | empty : Reach bm #[]
  | leaf {H H' v b r} : Reach bm H → hLeaf v b H = .ok (r, H') → Reach bm H'
  | slice {H H' x i r} : Reach bm H → x < H.size → hSlice x i H = .ok (r, H') → Reach bm H'
  | transpose {H H' x r} : Reach bm H → x < H.size → hTranspose x H = .ok (r, H') → Reach bm H'
  | reshape {H H' x s r} : Reach bm H → x < H.size → hReshape x s H = .ok (r, H') → Reach bm H'
  | unsqueeze {H H' x d r} : Reach bm H → x < H.size → hUnSqueeze x d H = .ok (r, H') → Reach bm H'
  | squeeze {H H' x d r} : Reach bm H → x < H.size → hSqueeze x d H = .ok (r, H') → Reach bm H'
  | flatten {H H' x d r} : Reach bm H → x < H.size → hFlatten x d H = .ok (r, H') → Reach bm H'
  | broadcast {H H' x s r} : Reach bm H → x < H.size → hBroadcast x s H = .ok (r, H') → Reach bm H'
  | along {H H' rd x d r} : Reach bm H → x < H.size → hAlong rd x d H = .ok (r, H') → Reach bm H'
  | scale {H H' x a r} : Reach bm H → x < H.size → hScale x a H = .ok (r, H') → Reach bm H'
  | pow {H H' x a r} : Reach bm H → x < H.size → hPow x a H = .ok (r, H') → Reach bm H'
  | unary {H H' f x r} : Reach bm H → x < H.size → hUnary f x H = .ok (r, H') → Reach bm H'
  | patch {H H' x i p r} : Reach bm H → x < H.size → p < H.size → hPatch x i p H = .ok (r, H') → Reach bm H'
  | cmp {H H' c a b r} : Reach bm H → a < H.size → b < H.size → hCmp c a b H = .ok (r, H') → Reach bm H'
  | arith {H H' o a b r} : Reach bm H → a < H.size → b < H.size → hArith o a b H = .ok (r, H') → Reach bm H'
  | dot {H H' a b r} : Reach bm H → a < H.size → b < H.size → hDot a b H = .ok (r, H') → Reach bm H'
  | matmul {H H' a b r} : Reach bm H → a < H.size → b < H.size → hMatMul a b H = .ok (r, H') → Reach bm H'
  | concat {H H' xs d r} : Reach bm H → (∀ x ∈ xs, x < H.size) → hConcat xs d H = .ok (r, H') → Reach bm H'
  | gradNode {H H' n r} : Reach bm H → hGradNode n H = .ok (r, H') → Reach bm H'
  | backprop {H root} : Reach bm H → Reach bm (backprop bm H root).heap
  | reset {H n b} : Reach bm H → Reach bm (resetCtx H n b)

/-- back edges point to older tensors in every heap the public API can build -/
theorem reach_dag {bm : BMode} {H : Heap α} (h : Reach bm H) : HeapDag H := by
  induction h with
  | empty => exact dag_empty
  | leaf _ h ih => exact dag_hLeaf ih h
  | slice _ hx h ih => exact (dag_unary_ops ih hx).1 _ h
  | transpose _ hx h ih => exact (dag_unary_ops ih hx).2.1 h
  | reshape _ hx h ih => exact (dag_unary_ops ih hx).2.2.1 _ h
  | unsqueeze _ hx h ih => exact (dag_unary_ops ih hx).2.2.2.1 _ h
  | squeeze _ hx h ih => exact (dag_unary_ops ih hx).2.2.2.2.1 _ h
  | flatten _ hx h ih => exact (dag_unary_ops ih hx).2.2.2.2.2.1 _ h
  | broadcast _ hx h ih => exact dag_hBroadcast ih hx h
  | along _ hx h ih => exact (dag_unary_ops ih hx).2.2.2.2.2.2.2.1 _ _ h
  | scale _ hx h ih => exact (dag_unary_ops ih hx).2.2.2.2.2.2.2.2.1 _ h
  | pow _ hx h ih => exact (dag_unary_ops ih hx).2.2.2.2.2.2.2.2.2.1 _ h
  | unary _ hx h ih => exact (dag_unary_ops ih hx).2.2.2.2.2.2.2.2.2.2 _ h
  | patch _ hx hp h ih => exact dag_hPatch ih hx hp h
  | cmp _ ha hb h ih => exact dag_hCmp ih ha hb h
  | arith _ ha hb h ih => exact dag_hArith ih ha hb h
  | dot _ ha hb h ih => exact dag_hDot ih ha hb h
  | matmul _ ha hb h ih => exact dag_hMatMul ih ha hb h
  | concat _ hxs h ih => exact dag_hConcat ih hxs h
  | gradNode _ h ih => exact dag_hGradNode ih h
  | backprop _ ih => exact dag_backprop _ _ _ ih
  | reset _ ih => exact dag_resetCtx _ _ _ ih

end
end Qeep
