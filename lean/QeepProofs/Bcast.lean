import QeepProofs.Index
/-!
# The `broadcastElemGenerator` loop

`stepB` (model of the Go loop, `Qeep.Tensor`) keeps `(state, repeat)`; `enc sd sh u` is what the pair must be
when the target multi-index is `u`. `stepB_enc`: one generator step = one odometer step of the target index.
-/

namespace Qeep

/-- what (state, repeat) is when the target multi-index is `u` (all little-endian) -/
def enc : (sd sh u : List Nat) → List Nat × List Nat
  | d :: sd, h :: sh, x :: u =>
      let (st, rp) := enc sd sh u
      if d = h then (x :: st, 0 :: rp) else (0 :: st, x :: rp)
  | [], _ :: sh, x :: u =>
      let (_, rp) := enc [] sh u
      ([], x :: rp)
  | _, _, _ => ([], [])

/-- admissible (source dims, target shape, target index): the validator's rule `d = h ∨ d = 1`, positive
    sizes, index in range, source rank ≤ target rank -/
inductive Adm : (sd sh u : List Nat) → Prop
  | nil : Adm [] [] []
  | lead {h x sh u} : x < h → Adm [] sh u → Adm [] (h :: sh) (x :: u)
  | both {d h x sd sh u} : (d = h ∨ d = 1) → 0 < d → x < h → Adm sd sh u → Adm (d :: sd) (h :: sh) (x :: u)

theorem stepB_enc : ∀ {sd sh u}, Adm sd sh u →
    stepB sd (enc sd sh u).1 sh (enc sd sh u).2 = enc sd sh (incr sh u)
  | _, _, _, .nil => by simp [enc, incr, stepB]
  | _, _, _, .lead (h := h) (x := x) (sh := sh) (u := u) hx ha => by
    have ih := stepB_enc ha
    have e1 : (enc [] sh u).1 = [] := by
      cases ha <;> simp [enc]
    simp only [enc, incr, stepB]
    by_cases hc : x + 1 < h
    · have : ¬ (x + 1 = h) := by omega
      simp [hc, this, enc]
    · have : x + 1 = h := by omega
      simp only [hc, this, if_true, if_false]
      rw [e1] at ih
      rw [ih]
      simp [enc]
  | _, _, _, .both (d := d) (h := h) (x := x) (sd := sd) (sh := sh) (u := u) hd hpos hx ha => by
    have ih := stepB_enc ha
    simp only [enc, incr]
    by_cases hdh : d = h
    · subst hdh
      simp only [if_true, stepB]
      by_cases hc : x + 1 < d
      · simp [hc, enc]
      · simp only [hc, if_false, true_or, if_true]
        rw [ih]; simp [enc]
    · have hd1 : d = 1 := by
        rcases hd with h' | h'
        · exact absurd h' hdh
        · exact h'
      subst hd1
      simp only [hdh, if_false, stepB]
      have h0 : ¬ (0 + 1 < 1) := by omega
      simp only [h0, if_false, false_or]
      by_cases hc : x + 1 < h
      · have : ¬ (x + 1 = h) := by omega
        simp [hc, this, enc, hdh]
      · have : x + 1 = h := by omega
        simp only [hc, this, if_true, if_false]
        rw [ih]; simp [enc, hdh]

/-- admissibility is preserved by a target odometer step -/
theorem adm_incr : ∀ {sd sh u}, Adm sd sh u → Adm sd sh (incr sh u)
  | _, _, _, .nil => by simp [incr]; exact .nil
  | _, _, _, .lead (h := h) (x := x) hx ha => by
    simp only [incr]; split
    · exact .lead (by omega) ha
    · exact .lead (by omega) (adm_incr ha)
  | _, _, _, .both (h := h) (x := x) hd hpos hx ha => by
    simp only [incr]; split
    · exact .both hd hpos (by omega) ha
    · exact .both hd hpos (by omega) (adm_incr ha)

/-- the all-zero target index is admissible whenever the validator accepts and sizes are positive -/
theorem adm_zeros : ∀ {sd sh : List Nat}, validBroadcastLE sd sh = true → (∀ d ∈ sd, 0 < d) → (∀ h ∈ sh, 0 < h) →
    Adm sd sh (zerosLike sh)
  | [], [], _, _, _ => .nil
  | [], h :: sh, _, _, hp => by
    simp only [zerosLike, List.map_cons]
    exact .lead (hp h (by simp)) (adm_zeros (sd := []) (by simp [validBroadcastLE]) (by simp) (fun x hx => hp x (by simp [hx])))
  | _ :: _, [], hv, _, _ => by simp [validBroadcastLE] at hv
  | d :: sd, h :: sh, hv, hd, hp => by
    simp only [validBroadcastLE, Bool.and_eq_true, Bool.or_eq_true, beq_iff_eq] at hv
    simp only [zerosLike, List.map_cons]
    exact .both hv.1 (hd d (by simp)) (hp h (by simp))
      (adm_zeros hv.2 (fun x hx => hd x (by simp [hx])) (fun x hx => hp x (by simp [hx])))

theorem enc_zeros : ∀ (sd sh : List Nat), sd.length ≤ sh.length → enc sd sh (zerosLike sh) = (zerosLike sd, zerosLike sh)
  | [], [], _ => by simp [enc, zerosLike]
  | [], h :: sh, _ => by
    have ih := enc_zeros [] sh (by simp)
    simp only [zerosLike, List.map_cons, List.map_nil] at ih ⊢
    simp [enc, ih]
  | _ :: _, [], h => by simp at h
  | d :: sd, h :: sh, hl => by
    have ih := enc_zeros sd sh (by simpa using hl)
    simp only [zerosLike, List.map_cons] at ih ⊢
    simp only [enc, ih]
    split <;> rfl

/-- source index selected by target index `u`: right-aligned, size-1 (expanded) dimensions pinned to 0 -/
def projLE : (sd sh u : List Nat) → List Nat
  | d :: sd, h :: sh, x :: u => (if d = h then x else 0) :: projLE sd sh u
  | _, _, _ => []

theorem enc_fst : ∀ (sd sh u : List Nat), (enc sd sh u).1 = projLE sd sh u
  | d :: sd, h :: sh, x :: u => by
    have ih := enc_fst sd sh u
    simp only [enc, projLE]
    split <;> simp [ih]
  | [], _ :: sh, _ :: u => by simp [enc, projLE]
  | [], [], _ => by simp [enc, projLE]
  | [], _ :: _, [] => by simp [enc, projLE]
  | _ :: _, [], _ => by simp [enc, projLE]
  | _ :: _, _ :: _, [] => by simp [enc, projLE]

/-- the projected index is a valid source index -/
theorem valid_proj : ∀ {sd sh u}, Adm sd sh u → Valid sd (projLE sd sh u)
  | _, _, _, .nil => by simp [projLE]; exact .nil
  | _, _, _, .lead _ _ => by simp [projLE]; exact .nil
  | _, _, _, .both (d := d) (h := h) (x := x) hd hpos hx ha => by
    simp only [projLE]
    refine .cons ?_ (valid_proj ha)
    split
    · omega
    · exact hpos

/-- state of the model generator after `k` calls -/
theorem bgen_state {sd sh : List Nat} (hv : validBroadcastLE sd sh = true) (hd : ∀ d ∈ sd, 0 < d) (hp : ∀ h ∈ sh, 0 < h)
    (hl : sd.length ≤ sh.length) (k : Nat) :
    iterN (fun (p : List Nat × List Nat) => stepB sd p.1 sh p.2) k (zerosLike sd, zerosLike sh)
      = enc sd sh (iterN (incr sh) k (zerosLike sh)) ∧ Adm sd sh (iterN (incr sh) k (zerosLike sh)) := by
  induction k with
  | zero => exact ⟨by simp [iterN, enc_zeros sd sh hl], adm_zeros hv hd hp⟩
  | succ k ih =>
    rw [iterN_succ', iterN_succ', ih.1]
    exact ⟨stepB_enc ih.2, adm_incr ih.2⟩

theorem validBroadcastLE_length : ∀ {sd sh : List Nat}, validBroadcastLE sd sh = true → sd.length ≤ sh.length
  | [], _, _ => by simp
  | _ :: _, [], h => by simp [validBroadcastLE] at h
  | _ :: sd, _ :: sh, h => by
    simp only [validBroadcastLE, Bool.and_eq_true] at h
    have := validBroadcastLE_length h.2
    simp; omega

end Qeep

namespace Qeep

/-- **Specification of the broadcast generator run**: for every source shape, every target accepted by the
    validator and every target position `k`, the `k`-th generated element is the source element at the
    right-aligned index with expanded dimensions pinned to 0. -/
theorem broadcastRaw_spec {α : Type} (t : Tensor α) (hwf : t.WF) (shape : List Nat) (hpos : ∀ h ∈ shape, 0 < h)
    (hv : validBroadcast t.dims shape = true) :
    ∃ data, t.broadcastRaw shape = some ⟨shape, data⟩ ∧ data.length = prod shape ∧
      ∀ k, k < prod shape →
        data[k]? = t.at? (projLE t.dims.reverse shape.reverse (iterN (incr shape.reverse) k (zerosLike shape.reverse))).reverse ∧
        (data[k]?).isSome := by
  have hvLE : validBroadcastLE t.dims.reverse shape.reverse = true := hv
  have hd : ∀ d ∈ t.dims.reverse, 0 < d := fun d hd => hwf.2 d (by simpa using hd)
  have hp : ∀ h ∈ shape.reverse, 0 < h := fun h hh => hpos h (by simpa using hh)
  have hl := validBroadcastLE_length hvLE
  -- element produced at step k
  let g : Nat → α → α := fun _ a => a
  have key : ∀ k, k < prod shape →
      ∃ a, t.at? (iterN (fun (p : List Nat × List Nat) => stepB t.dims.reverse p.1 shape.reverse p.2) k
          (zerosLike t.dims.reverse, zerosLike shape.reverse)).1.reverse = some a ∧
        t.at? (projLE t.dims.reverse shape.reverse (iterN (incr shape.reverse) k (zerosLike shape.reverse))).reverse = some a := by
    intro k _
    obtain ⟨hst, hadm⟩ := bgen_state hvLE hd hp hl k
    rw [hst, enc_fst]
    have hval := valid_proj hadm
    rw [Tensor.at?_reverse t hval]
    have hlt := val_lt hval
    rw [prod_reverse, ← hwf.1] at hlt
    exact ⟨_, List.getElem?_eq_getElem hlt, List.getElem?_eq_getElem hlt⟩
  -- choose the elements
  have hchoice : ∀ k, ∃ a : Option α, k < prod shape →
      t.at? (projLE t.dims.reverse shape.reverse (iterN (incr shape.reverse) k (zerosLike shape.reverse))).reverse = a ∧ a.isSome := by
    intro k
    by_cases hk : k < prod shape
    · obtain ⟨a, _, h2⟩ := key k hk
      exact ⟨some a, fun _ => ⟨h2, rfl⟩⟩
    · exact ⟨none, fun h => absurd h hk⟩
  unfold Tensor.broadcastRaw
  simp only []
  rw [iterGen_eq, zerosLike_reverse, zerosLike_reverse]
  rw [← zerosLike_reverse t.dims, ← zerosLike_reverse shape]
  -- every step yields `some`
  have hall : ∀ k, k < prod shape →
      t.at? (iterN (fun (p : List Nat × List Nat) => stepB t.dims.reverse p.1 shape.reverse p.2) k
          (zerosLike t.dims.reverse, zerosLike shape.reverse)).1.reverse
        = some ((t.at? (projLE t.dims.reverse shape.reverse (iterN (incr shape.reverse) k (zerosLike shape.reverse))).reverse).getD
            (t.data.headD (by
              -- a default value is never used: data is non-empty because all dims are positive
              have : 0 < t.data.length := by rw [hwf.1]; exact prod_pos hwf.2
              exact t.data[0]))) := by
    intro k hk
    obtain ⟨a, h1, h2⟩ := key k hk
    rw [h1, h2]; rfl
  rw [allSome_range _ _ _ hall]
  refine ⟨_, rfl, by simp, ?_⟩
  intro k hk
  obtain ⟨a, _, h2⟩ := key k hk
  simp [List.getElem?_map, List.getElem?_range hk, h2]

end Qeep

namespace Qeep

theorem projLE_self : ∀ (ds u : List Nat), u.length = ds.length → projLE ds ds u = u
  | [], [], _ => rfl
  | [], _ :: _, h => by simp at h
  | _ :: _, [], h => by simp at h
  | d :: ds, x :: u, h => by simp [projLE, projLE_self ds u (by simpa using h)]

theorem validBroadcastLE_self : ∀ (ds : List Nat), validBroadcastLE ds ds = true
  | [] => rfl
  | d :: ds => by simp [validBroadcastLE, validBroadcastLE_self ds]

/-- broadcasting to the tensor's own shape copies it -/
theorem broadcast_self {α : Type} (t : Tensor α) (hwf : t.WF) : t.broadcastRaw t.dims = some t := by
  have hv : validBroadcast t.dims t.dims = true := validBroadcastLE_self _
  obtain ⟨data, h1, h2, h3⟩ := broadcastRaw_spec t hwf t.dims hwf.2 hv
  have hpos : ∀ d ∈ t.dims.reverse, 0 < d := fun d hd => hwf.2 d (by simpa using hd)
  have : data = t.data := by
    apply List.ext_getElem?
    intro k
    by_cases hk : k < prod t.dims
    · obtain ⟨e1, _⟩ := h3 k hk
      rw [e1, projLE_self _ _ (valid_iter hpos k).length_eq, Tensor.at?_reverse t (valid_iter hpos k),
        val_iter hpos k, prod_reverse, Nat.mod_eq_of_lt hk]
    · rw [List.getElem?_eq_none (by omega), List.getElem?_eq_none (by rw [hwf.1]; omega)]
  rw [h1, this]

end Qeep
