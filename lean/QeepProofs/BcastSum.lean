import QeepProofs.AlongAt
import QeepProps.C09
/-!
# The Broadcast backward rule with `BMode.sum` is the sum over the copies

`bcastRule .sum src dst gy` (the body of the `Broadcast` gradFn with `SumAlong` as reducer): for every pair of shapes
the validator accepts, every upstream gradient `gy` of shape `dst`: the result has shape `src` and its element at `idx`
is the iterated sum of `gy` over every position of `dst` that `idx` was copied to — the extra leading dims run over
their whole range, an expanded dim (`src = 1 ≠ dst`) runs over its whole range, an unexpanded dim is fixed to `idx`'s
coordinate. The nesting order of the sums is the one the code performs (exact also for non-associative scalars).
-/
set_option linter.unusedSimpArgs false
set_option linter.unusedSectionVars false

namespace Qeep
variable {α : Type} [Scalar α]

/-- element at a multi-index (zero when out of range; only used at valid indices) -/
def Tensor.el (t : Tensor α) (u : List Nat) : α := (t.at? u).getD Scalar.zero

/-- `f 0 + f 1 + … + f (n-1)`, left fold from zero like `Tensor.sum` -/
def sumOver (n : Nat) (f : Nat → α) : α := ((List.range n).map f).foldl Scalar.add Scalar.zero

theorem sumOver_congr {n : Nat} {f f' : Nat → α} (h : ∀ i, i < n → f i = f' i) : sumOver n f = sumOver n f' := by
  unfold sumOver
  congr 1
  apply List.map_congr_left
  intro i hi
  exact h i (List.mem_range.mp hi)

theorem at?_some_el (t : Tensor α) (hwf : t.WF) {u : List Nat} (hu : Valid t.dims u) : t.at? u = some (t.el u) := by
  have := at?_valid t hwf hu
  unfold Tensor.el
  cases h : t.at? u with
  | none => rw [h] at this; simp at this
  | some v => rfl

/-! ### validity of split indices -/

theorem valid_app : ∀ {A a B b : List Nat}, Valid A a → Valid B b → Valid (A ++ B) (a ++ b)
  | _, _, _, _, .nil, hb => hb
  | _, _, _, _, .cons h ha, hb => .cons h (valid_app ha hb)

theorem valid_split : ∀ {A a B b : List Nat}, a.length = A.length → Valid (A ++ B) (a ++ b) → Valid A a ∧ Valid B b
  | [], [], _, _, _, h => ⟨.nil, h⟩
  | x :: A, y :: a, B, b, hl, h => by
    cases h with
    | cons h0 h1 =>
      obtain ⟨h2, h3⟩ := valid_split (A := A) (a := a) (by simpa using hl) h1
      exact ⟨.cons h0 h2, h3⟩
  | [], _ :: _, _, _, hl, _ => by simp at hl
  | _ :: _, [], _, _, hl, _ => by simp at hl

theorem val_app : ∀ {A a : List Nat} (B b : List Nat), a.length = A.length →
    val (A ++ B) (a ++ b) = val A a + prod A * val B b
  | [], [], B, b, _ => by simp [val, prod]
  | x :: A, y :: a, B, b, h => by
    have h' : a.length = A.length := by simpa using h
    simp only [List.cons_append, val, prod, val_app B b h', Nat.mul_add, Nat.mul_assoc]
    omega
  | [], _ :: _, _, _, h => by simp at h
  | _ :: _, [], _, _, h => by simp at h

/-! ### the two primitive steps at index level -/

/-- `SumAlong(dim)`: succeeds for `dim < rank`, drops `dim`, and each element is the sum of the fibre -/
theorem sumAlong_el (t : Tensor α) (hwf : t.WF) (dim : Nat) (hdim : dim < t.dims.length) :
    ∃ r, vAlong .sum t (dim : Int) = .ok r ∧ r.WF ∧ r.dims = squeezeDims dim t.dims ∧
      ∀ u, Valid (squeezeDims dim t.dims) u → r.el u = sumOver (t.dims.getD dim 0) (fun i => t.el (insAt dim i u)) := by
  obtain ⟨r, h1, h2, h3, h4⟩ := reduceDim_at t hwf dim hdim (Reducer.fn .sum)
  have hvd : validDimLt (dim : Int) t.dims = true := by
    simp only [validDimLt, Bool.and_eq_true, decide_eq_true_eq]; omega
  refine ⟨r, ?_, ⟨by rw [h2]; exact h3, ?_⟩, h2, ?_⟩
  · simp [vAlong, vReduceDim, hvd, h1, Out.ofOpt]
  · rw [h2]
    intro d hd
    unfold squeezeDims at hd
    rcases List.mem_append.mp hd with h | h
    · exact hwf.2 d (List.mem_of_mem_take h)
    · exact hwf.2 d (List.mem_of_mem_drop h)
  · intro u hu
    obtain ⟨wd, fib, f1, f2, f3⟩ := h4 u hu
    have hfib : fib = (List.range (t.dims.getD dim 0)).map (fun i => t.el (insAt dim i u)) := by
      apply List.ext_getElem?
      intro i
      by_cases hi : i < t.dims.getD dim 0
      · obtain ⟨e1, e2⟩ := f2 i hi
        rw [List.getElem?_map, List.getElem?_range hi]
        simp only [Option.map_some]
        rw [e1] at e2 ⊢
        unfold Tensor.el
        cases h : t.at? (insAt dim i u) with
        | none => rw [h] at e2; simp at e2
        | some v => rfl
      · rw [List.getElem?_eq_none (by omega), List.getElem?_eq_none (by rw [List.length_map, List.length_range]; omega)]
    unfold Tensor.el
    rw [f3]
    simp only [Option.getD_some, Reducer.fn, Tensor.sum, Tensor.fold]
    rw [hfib]
    rfl

/-- `UnSqueeze(j)`: inserts a dim of size 1; the element at `p ++ 0 :: q` is the element at `p ++ q` -/
theorem unsqueeze_el (t : Tensor α) (hwf : t.WF) (P R : List Nat) (hd : t.dims = P ++ R) :
    ∃ r, vUnSqueeze t (P.length : Int) = .ok r ∧ r.WF ∧ r.dims = P ++ 1 :: R ∧
      ∀ p q, Valid P p → Valid R q → r.el (p ++ 0 :: q) = t.el (p ++ q) := by
  have hvu : validUnSqueeze (P.length : Int) t.dims = true := by
    simp only [validUnSqueeze, Bool.and_eq_true, decide_eq_true_eq, hd, List.length_append]; omega
  have hun : unsqueezeDims P.length t.dims = P ++ 1 :: R := by
    unfold unsqueezeDims; rw [hd]; simp
  have hok := (C09.vUnSqueeze_total t hwf (P.length : Int)).1 hvu
  simp only [Int.toNat_natCast] at hok
  rw [hun] at hok
  have hprod : prod (P ++ 1 :: R) = prod t.dims := by
    rw [hd, prod_append, prod_append]; simp [prod]
  refine ⟨_, hok, ⟨by simp only []; rw [hprod]; exact hwf.1, ?_⟩, rfl, ?_⟩
  · intro d hdm
    simp only [List.mem_append, List.mem_cons] at hdm
    rcases hdm with h | h | h
    · exact hwf.2 d (by rw [hd]; exact List.mem_append_left _ h)
    · omega
    · exact hwf.2 d (by rw [hd]; exact List.mem_append_right _ h)
  · intro p q hp hq
    have hv1 : Valid (P ++ 1 :: R) (p ++ 0 :: q) := valid_app hp (.cons (by omega) hq)
    have hv2 : Valid t.dims (p ++ q) := by rw [hd]; exact valid_app hp hq
    have r1 := Tensor.at?_reverse (⟨P ++ 1 :: R, t.data⟩ : Tensor α) (st := (p ++ 0 :: q).reverse)
      (by simpa using valid_reverse hv1)
    have r2 := Tensor.at?_reverse t (st := (p ++ q).reverse) (by simpa using valid_reverse hv2)
    rw [List.reverse_reverse] at r1 r2
    unfold Tensor.el
    rw [r1, r2]
    simp only [hd]
    have hlq : q.reverse.length = R.reverse.length := by simp [hq.length_eq]
    have hlp : p.reverse.length = P.reverse.length := by simp [hp.length_eq]
    have e1 : val (P ++ 1 :: R).reverse (p ++ 0 :: q).reverse
        = val R.reverse q.reverse + prod R.reverse * val P.reverse p.reverse := by
      have : (P ++ 1 :: R).reverse = R.reverse ++ (1 :: P.reverse) := by simp
      rw [this]
      have : (p ++ 0 :: q).reverse = q.reverse ++ (0 :: p.reverse) := by simp
      rw [this, val_app _ _ hlq]
      simp [val]
    have e2 : val (P ++ R).reverse (p ++ q).reverse
        = val R.reverse q.reverse + prod R.reverse * val P.reverse p.reverse := by
      rw [List.reverse_append, List.reverse_append, val_app _ _ hlq]
    rw [e1, e2]

/-! ### the two loops -/

/-- sum over the extra leading dims (innermost: the first dim, as the loop reduces dim 0 first) -/
def leadSum : List Nat → (List Nat → α) → α
  | [], f => f []
  | p :: ps, f => leadSum ps (fun r => sumOver p (fun c => f (c :: r)))

theorem leadSum_congr : ∀ (ps : List Nat) {f f' : List Nat → α}, (∀ r, Valid ps r → f r = f' r) → leadSum ps f = leadSum ps f'
  | [], f, f', h => h [] .nil
  | p :: ps, f, f', h => by
    simp only [leadSum]
    apply leadSum_congr ps
    intro r hr
    apply sumOver_congr
    intro c hc
    exact h (c :: r) (.cons hc hr)

/-- sum over the expanded positions among the aligned dims -/
def expSum : (src dst idx : List Nat) → (List Nat → α) → α
  | s :: src, d :: dst, i :: idx, f =>
      if s ≠ d then expSum src dst idx (fun q => sumOver d (fun c => f (c :: q)))
      else expSum src dst idx (fun q => f (i :: q))
  | _, _, _, f => f []

theorem expSum_congr : ∀ (src dst idx : List Nat) {f f' : List Nat → α}, src.length = dst.length → Valid src idx →
    (∀ q, Valid dst q → f q = f' q) → expSum src dst idx f = expSum src dst idx f'
  | [], [], _, f, f', _, hv, h => by
    cases hv; simpa [expSum] using h [] .nil
  | s :: src, d :: dst, _, f, f', hl, .cons (s := i) (ss := idx) hi hv, h => by
    have hl' : src.length = dst.length := by simpa using hl
    simp only [expSum]
    split
    · apply expSum_congr src dst idx hl' hv
      intro q hq
      apply sumOver_congr
      intro c hc
      exact h (c :: q) (.cons hc hq)
    · rename_i hsd
      have hsd' : s = d := by simpa using hsd
      apply expSum_congr src dst idx hl' hv
      intro q hq
      exact h (i :: q) (.cons (hsd' ▸ hi) hq)
  | [], _ :: _, _, _, _, hl, _, _ => by simp at hl
  | _ :: _, [], _, _, _, hl, _, _ => by simp at hl

/-- the reducer of the rule in `sum` mode -/
def redSum : Tensor α → Int → Out (Tensor α) := fun t d => vAlong .sum t d

/-- first loop: the `pre.length` extra leading dims are summed away -/
theorem lead_spec : ∀ (pre rest : List Nat) (g : Tensor α), g.WF → g.dims = pre ++ rest →
    ∃ r, bcastLead redSum pre.length g = .ok r ∧ r.WF ∧ r.dims = rest ∧
      ∀ u, Valid rest u → r.el u = leadSum pre (fun q => g.el (q ++ u))
  | [], rest, g, hwf, hd => ⟨g, rfl, hwf, by simpa using hd, fun u _ => by simp [leadSum]⟩
  | p :: ps, rest, g, hwf, hd => by
    have hrank : 0 < g.dims.length := by rw [hd]; simp
    obtain ⟨r1, h1, w1, d1, e1⟩ := sumAlong_el g hwf 0 hrank
    have hsq : squeezeDims 0 g.dims = ps ++ rest := by rw [hd]; simp [squeezeDims]
    rw [hsq] at d1 e1
    obtain ⟨r, h2, w2, d2, e2⟩ := lead_spec ps rest r1 w1 d1
    have h1' : redSum g 0 = .ok r1 := h1
    refine ⟨r, ?_, w2, d2, ?_⟩
    · simp only [List.length_cons, bcastLead, bind, Out.bind, h1', h2]
    · intro u hu
      rw [e2 u hu]
      simp only [leadSum]
      apply leadSum_congr
      intro q hq
      rw [e1 (q ++ u) (valid_app hq hu)]
      have : g.dims.getD 0 0 = p := by rw [hd]; rfl
      rw [this]
      apply sumOver_congr
      intro c _
      simp [insAt]

/-- aligned dims: equal, or the source has size 1 -/
inductive Compat : List Nat → List Nat → Prop
  | nil : Compat [] []
  | cons {s d src dst} : (s = d ∨ s = 1) → Compat src dst → Compat (s :: src) (d :: dst)

theorem Compat.length_eq : ∀ {src dst}, Compat src dst → src.length = dst.length
  | _, _, .nil => rfl
  | _, _, .cons _ h => by simp [h.length_eq]

/-- second loop: every expanded position is summed and re-inserted with size 1 -/
theorem expand_spec : ∀ {src dst : List Nat}, Compat src dst → ∀ (P : List Nat) (g : Tensor α), g.WF → g.dims = P ++ dst →
    ∃ r, bcastExpand redSum P.length src dst g = .ok r ∧ r.WF ∧ r.dims = P ++ src ∧
      ∀ p idx, Valid P p → Valid src idx → r.el (p ++ idx) = expSum src dst idx (fun q => g.el (p ++ q))
  | _, _, .nil, P, g, hwf, hd => by
    refine ⟨g, by simp [bcastExpand], hwf, hd, ?_⟩
    intro p idx _ hi
    cases hi
    simp [expSum]
  | _, _, .cons (s := s) (d := d) (src := src) (dst := dst) hsd hc, P, g, hwf, hd => by
    by_cases hne : s ≠ d
    · -- expanded position: s = 1
      have hs1 : s = 1 := by rcases hsd with h | h; exact absurd h hne; exact h
      have hrank : P.length < g.dims.length := by rw [hd]; simp
      obtain ⟨r1, h1, w1, d1, e1⟩ := sumAlong_el g hwf P.length hrank
      have hsq : squeezeDims P.length g.dims = P ++ dst := by
        rw [hd]; unfold squeezeDims; simp
      rw [hsq] at d1 e1
      obtain ⟨r2, h2, w2, d2, e2⟩ := unsqueeze_el r1 w1 P dst d1
      have hd2 : r2.dims = (P ++ [1]) ++ dst := by rw [d2]; simp
      obtain ⟨r, h3, w3, d3, e3⟩ := expand_spec hc (P ++ [1]) r2 w2 hd2
      have h1' : redSum g (P.length : Int) = .ok r1 := h1
      refine ⟨r, ?_, w3, ?_, ?_⟩
      · have hl : (P ++ [1]).length = P.length + 1 := by simp
        rw [hl] at h3
        simp only [bcastExpand, hne, ne_eq, not_false_eq_true, if_true, bind, Out.bind, h1', h2, h3]
      · rw [d3, hs1]; simp
      · intro p idx hp hi
        cases hi with
        | cons hi0 hi' =>
          rename_i i idx'
          have hi00 : i = 0 := by omega
          subst hi00
          have := e3 (p ++ [0]) idx' (valid_append hp (by omega)) hi'
          simp only [List.append_assoc, List.singleton_append] at this
          rw [this]
          simp only [expSum, hne, ne_eq, not_false_eq_true, if_true]
          apply expSum_congr src dst idx' hc.length_eq hi'
          intro q hq
          rw [e2 p q hp hq, e1 (p ++ q) (valid_app hp hq)]
          have hg : g.dims.getD P.length 0 = d := by rw [hd]; simp [List.getD]
          rw [hg]
          apply sumOver_congr
          intro c _
          unfold insAt
          rw [List.take_left' hp.length_eq, List.drop_left' hp.length_eq]
    · have hse : s = d := by simpa using hne
      subst hse
      have hd2 : g.dims = (P ++ [s]) ++ dst := by rw [hd]; simp
      obtain ⟨r, h3, w3, d3, e3⟩ := expand_spec hc (P ++ [s]) g hwf hd2
      refine ⟨r, ?_, w3, ?_, ?_⟩
      · have hl : (P ++ [s]).length = P.length + 1 := by simp
        rw [hl] at h3
        simp only [bcastExpand, ne_eq, not_true_eq_false, if_false, h3]
      · rw [d3]; simp
      · intro p idx hp hi
        cases hi with
        | cons hi0 hi' =>
          rename_i i idx'
          have := e3 (p ++ [i]) idx' (valid_append hp hi0) hi'
          simp only [List.append_assoc, List.singleton_append] at this
          rw [this]
          simp only [expSum, ne_eq, not_true_eq_false, if_false]

/-! ### the validator gives the alignment -/

theorem Compat.append : ∀ {a b c d : List Nat}, Compat a b → Compat c d → Compat (a ++ c) (b ++ d)
  | _, _, _, _, .nil, h => h
  | _, _, _, _, .cons h0 h1, h => .cons h0 (Compat.append h1 h)

theorem Compat.reverse : ∀ {a b : List Nat}, Compat a b → Compat a.reverse b.reverse
  | _, _, .nil => .nil
  | _, _, .cons h0 h1 => by
    simp only [List.reverse_cons]
    exact Compat.append (Compat.reverse h1) (.cons h0 .nil)

theorem compatLE_of_valid : ∀ (sr dr : List Nat), validBroadcastLE sr dr = true →
    ∃ dr1 dr2, dr = dr1 ++ dr2 ∧ Compat sr dr1
  | [], dr, _ => ⟨[], dr, rfl, .nil⟩
  | _ :: _, [], h => by simp [validBroadcastLE] at h
  | s :: ss, d :: ds, h => by
    simp only [validBroadcastLE, Bool.and_eq_true, Bool.or_eq_true, beq_iff_eq] at h
    obtain ⟨dr1, dr2, e, hc⟩ := compatLE_of_valid ss ds h.2
    exact ⟨d :: dr1, dr2, by rw [e]; rfl, .cons h.1 hc⟩

theorem compat_of_valid {src dst : List Nat} (h : validBroadcast src dst = true) :
    src.length ≤ dst.length ∧ Compat src (dst.drop (dst.length - src.length)) := by
  unfold validBroadcast at h
  obtain ⟨dr1, dr2, e, hc⟩ := compatLE_of_valid _ _ h
  have hl := hc.length_eq
  have hdst : dst = dr2.reverse ++ dr1.reverse := by
    have := congrArg List.reverse e
    simpa using this
  have hlen : src.length = dr1.length := by simpa using hl
  have hc' := hc.reverse
  rw [List.reverse_reverse] at hc'
  constructor
  · rw [hdst]; simp; omega
  · have : dst.drop (dst.length - src.length) = dr1.reverse := by
      rw [hdst]
      have : (dr2.reverse ++ dr1.reverse).length - src.length = dr2.reverse.length := by simp; omega
      rw [this, List.drop_left]
    rw [this]; exact hc'

/-- the iterated sum of `gy` over every position of `dst` that the element `idx` of a `src`-shaped operand is copied to -/
def copiesSum (src dst idx : List Nat) (gy : Tensor α) : α :=
  expSum src (dst.drop (dst.length - src.length)) idx
    (fun q => leadSum (dst.take (dst.length - src.length)) (fun r => gy.el (r ++ q)))

/-- **The `Broadcast` backward rule in `sum` mode is the sum over the copies**, for every accepted shape pair. -/
theorem bcastRule_sum_spec (src dst : List Nat) (gy : Tensor α) (hwf : gy.WF) (hd : gy.dims = dst)
    (hv : validBroadcast src dst = true) :
    ∃ g, bcastRule .sum src dst gy = .ok g ∧ g.WF ∧ g.dims = src ∧
      ∀ idx, Valid src idx → g.el idx = copiesSum src dst idx gy := by
  obtain ⟨hle, hc⟩ := compat_of_valid hv
  have hsplit : gy.dims = dst.take (dst.length - src.length) ++ dst.drop (dst.length - src.length) := by
    rw [List.take_append_drop]; exact hd
  obtain ⟨g0, h0, w0, d0, e0⟩ := lead_spec _ _ gy hwf hsplit
  have hl : (dst.take (dst.length - src.length)).length = dst.length - src.length := by
    rw [List.length_take]; omega
  rw [hl] at h0
  obtain ⟨g, h1, w1, d1, e1⟩ := expand_spec hc [] g0 w0 (by simpa using d0)
  refine ⟨g, ?_, w1, by simpa using d1, ?_⟩
  · unfold bcastRule
    simp only [bind, Out.bind]
    have hred : (fun (t : Tensor α) (d : Int) => vAlong (match BMode.sum with | .mean => Reducer.avg | .sum => Reducer.sum) t d)
        = redSum := rfl
    rw [hred, h0]
    simpa using h1
  · intro idx hi
    have := e1 [] idx .nil hi
    simp only [List.nil_append] at this
    rw [this]
    unfold copiesSum
    apply expSum_congr _ _ _ hc.length_eq hi
    intro q hq
    exact e0 q hq

end Qeep
