import QeepProofs.Index
/-!
# Rows, chunks and the recursive copiers (`copiedSliceOf`)

`at?_cons`  : indexing the first dimension selects a chunk;
`sliceData_get` : the block copied by `copiedSliceOf` holds, at local index `j`, the source element at `j + From`.
-/
set_option linter.unusedSimpArgs false

namespace Qeep
variable {α : Type}

theorem offset_lt : ∀ {ds is : List Nat} {o : Nat}, offset ds is = some o → is.length = ds.length → o < prod ds
  | [], [], o, h, _ => by simp [offset] at h; subst h; simp [prod]
  | [], _ :: _, _, _, hl => by simp at hl
  | _ :: _, [], _, _, hl => by simp at hl
  | d :: ds, i :: is, o, h, hl => by
    have hl' : is.length = ds.length := by simpa using hl
    simp only [offset] at h
    split at h
    · rename_i hi
      cases ho : offset ds is with
      | none => rw [ho] at h; simp at h
      | some o' =>
        rw [ho] at h
        simp only [Option.map_some, Option.some.injEq] at h
        have := offset_lt ho hl'
        rw [hl', List.take_length] at h
        subst h
        simp only [prod]
        calc i * prod ds + o' < i * prod ds + prod ds := by omega
          _ = (i + 1) * prod ds := by rw [Nat.add_mul]; omega
          _ ≤ d * prod ds := Nat.mul_le_mul_right _ hi
    · simp at h

theorem chunk_getElem? (data : List α) (sz i o : Nat) (ho : o < sz) : (chunk data sz i)[o]? = data[i * sz + o]? := by
  unfold chunk
  rw [List.getElem?_take_of_lt ho, List.getElem?_drop]

theorem chunk_length (data : List α) (sz i n : Nat) (h : data.length = n * sz) (hi : i < n) : (chunk data sz i).length = sz := by
  unfold chunk
  simp only [List.length_take, List.length_drop, h]
  have : (i + 1) * sz ≤ n * sz := Nat.mul_le_mul_right _ hi
  rw [Nat.add_mul] at this
  omega

/-- indexing the first dimension selects the corresponding chunk -/
theorem at?_cons (d : Nat) (ds : List Nat) (data : List α) (i : Nat) (is : List Nat) (hi : i < d) (hl : is.length = ds.length) :
    (⟨d :: ds, data⟩ : Tensor α).at? (i :: is) = (⟨ds, chunk data (prod ds) i⟩ : Tensor α).at? is := by
  unfold Tensor.at?
  simp only [List.length_cons, hl, if_true, offset, hi]
  cases ho : offset ds is with
  | none => simp
  | some o =>
    have hlt := offset_lt ho hl
    simp only [Option.map_some, Option.bind_some, List.take_length]
    rw [chunk_getElem? _ _ _ _ hlt]

theorem at?_none_of_ge (d : Nat) (ds : List Nat) (data : List α) (i : Nat) (is : List Nat) (hi : ¬ i < d) :
    (⟨d :: ds, data⟩ : Tensor α).at? (i :: is) = none := by
  unfold Tensor.at?
  simp [offset, hi]

/-- the `i`-th chunk of a concatenation of equally long blocks is the `i`-th block -/
theorem chunk_flatten : ∀ (blocks : List (List α)) (sz i : Nat), (∀ b ∈ blocks, b.length = sz) → i < blocks.length →
    chunk blocks.flatten sz i = blocks[i]!
  | [], _, _, _, hi => by simp at hi
  | b :: bs, sz, 0, hb, _ => by
    have : b.length = sz := hb b (by simp)
    simp [chunk, List.flatten_cons, ← this]
  | b :: bs, sz, i + 1, hb, hi => by
    have hbl : b.length = sz := hb b (by simp)
    have ih := chunk_flatten bs sz i (fun x hx => hb x (by simp [hx])) (by simpa using hi)
    unfold chunk at ih ⊢
    simp only [List.flatten_cons]
    have : (i + 1) * sz = b.length + i * sz := by rw [Nat.add_mul, hbl]; omega
    rw [this, List.drop_length_add_append, ih]; simp

theorem allSome_some_iff {β : Type} : ∀ (l : List (Option β)) (r : List β), allSome l = some r ↔ l = r.map some
  | [], r => by cases r <;> simp [allSome]
  | none :: l, r => by cases r <;> simp [allSome]
  | some x :: l, r => by
    cases r with
    | nil => simp [allSome]
    | cons y r =>
      simp only [allSome, Option.map_eq_some_iff, List.map_cons, List.cons.injEq, Option.some.injEq]
      constructor
      · rintro ⟨a, ha, rfl, rfl⟩
        exact ⟨rfl, (allSome_some_iff l _).mp ha⟩
      · rintro ⟨rfl, h⟩
        exact ⟨r, (allSome_some_iff l r).mpr h, rfl, rfl⟩

/-- local index `j` is inside the block described by `idx` -/
inductive InBlock : List (Nat × Nat) → List Nat → Prop
  | nil : InBlock [] []
  | cons {f t idx j js} : j < t - f → InBlock idx js → InBlock ((f, t) :: idx) (j :: js)

/-- the source index of local index `j` -/
def shiftIdx : List (Nat × Nat) → List Nat → List Nat
  | (f, _) :: idx, j :: js => (j + f) :: shiftIdx idx js
  | _, _ => []

/-- ranges fit the dims -/
inductive Fits : List (Nat × Nat) → List Nat → Prop
  | nil : Fits [] []
  | cons {f t idx d ds} : t ≤ d → Fits idx ds → Fits ((f, t) :: idx) (d :: ds)

theorem Fits.length_eq : ∀ {idx ds}, Fits idx ds → idx.length = ds.length
  | _, _, .nil => rfl
  | _, _, .cons _ h => by simp [h.length_eq]

theorem InBlock.length_eq : ∀ {idx js}, InBlock idx js → js.length = idx.length
  | _, _, .nil => rfl
  | _, _, .cons _ h => by simp [h.length_eq]

theorem shiftIdx_length : ∀ {idx js}, InBlock idx js → (shiftIdx idx js).length = idx.length
  | _, _, .nil => rfl
  | _, _, .cons _ h => by simp [shiftIdx, shiftIdx_length h]

/-- **`copiedSliceOf`**: for ranges that fit the dims (what the validator guarantees) the copy succeeds, has the
    block's element count, and holds at every local index the source element at the shifted index. -/
theorem sliceData_get : ∀ (idx : List (Nat × Nat)) (dims : List Nat) (data : List α), Fits idx dims →
    data.length = prod dims →
    ∃ out, sliceData idx dims data = some out ∧ out.length = prod (sliceDims idx) ∧
      ∀ js, InBlock idx js →
        (⟨sliceDims idx, out⟩ : Tensor α).at? js = (⟨dims, data⟩ : Tensor α).at? (shiftIdx idx js)
  | [], [], data, _, hlen => by
    simp only [prod] at hlen
    match data, hlen with
    | [x], _ =>
      refine ⟨[x], rfl, by simp [sliceDims, prod], ?_⟩
      intro js hjs; cases hjs; rfl
  | (f, t) :: idx, d :: ds, data, .cons htd hfit, hlen => by
    simp only [prod] at hlen
    -- every row of the block
    have hrow : ∀ i, i < t - f → ∃ out, sliceData idx ds (chunk data (prod ds) (i + f)) = some out ∧
        out.length = prod (sliceDims idx) ∧ ∀ js, InBlock idx js →
          (⟨sliceDims idx, out⟩ : Tensor α).at? js = (⟨ds, chunk data (prod ds) (i + f)⟩ : Tensor α).at? (shiftIdx idx js) := by
      intro i hi
      exact sliceData_get idx ds _ hfit (chunk_length data (prod ds) (i + f) d hlen (by omega))
    -- choose them
    have hch : ∃ rows : List (List α), rows.length = t - f ∧
        (List.range (t - f)).map (fun i => sliceData idx ds (chunk data (prod ds) (i + f))) = rows.map some ∧
        (∀ b ∈ rows, b.length = prod (sliceDims idx)) ∧
        ∀ i, i < t - f → ∀ js, InBlock idx js →
          (⟨sliceDims idx, rows[i]!⟩ : Tensor α).at? js = (⟨ds, chunk data (prod ds) (i + f)⟩ : Tensor α).at? (shiftIdx idx js) := by
      generalize t - f = n at hrow
      induction n with
      | zero => exact ⟨[], rfl, rfl, by simp, by intro i hi; omega⟩
      | succ n ih =>
        obtain ⟨rows, h1, h2, h3, h4⟩ := ih (fun i hi => hrow i (by omega))
        obtain ⟨out, e1, e2, e3⟩ := hrow n (by omega)
        refine ⟨rows ++ [out], by simp [h1], ?_, ?_, ?_⟩
        · rw [List.range_succ, List.map_append, h2]; simp [e1]
        · intro b hb
          rcases List.mem_append.mp hb with hb | hb
          · exact h3 b hb
          · simp at hb; rw [hb]; exact e2
        · intro i hi js hjs
          by_cases hin : i < n
          · have : (rows ++ [out])[i]! = rows[i]! := by
              simp [List.getElem!_eq_getElem?_getD, List.getElem?_append_left (by omega : i < rows.length)]
            rw [this]; exact h4 i hin js hjs
          · have hi' : i = n := by omega
            subst hi'
            have : (rows ++ [out])[i]! = out := by
              simp [List.getElem!_eq_getElem?_getD, List.getElem?_append_right (by omega : rows.length ≤ i), h1]
            rw [this]; exact e3 js hjs
    obtain ⟨rows, h1, h2, h3, h4⟩ := hch
    have hsl : sliceData ((f, t) :: idx) (d :: ds) data = some rows.flatten := by
      simp only [sliceData, htd, hlen, and_self, if_true, h2, allSome_map_some, Option.map_some]
    have hflat : rows.flatten.length = (t - f) * prod (sliceDims idx) := by
      rw [List.length_flatten]
      have : rows.map List.length = List.replicate rows.length (prod (sliceDims idx)) := by
        apply List.ext_getElem
        · simp
        · intro i hi1 hi2
          simp only [List.getElem_map, List.getElem_replicate]
          exact h3 _ (List.getElem_mem _)
      rw [this, List.sum_replicate_nat, h1]
    refine ⟨rows.flatten, hsl, by simp [sliceDims, prod, hflat] , ?_⟩
    intro js hjs
    cases hjs with
    | cons hj hrest =>
      rename_i j js'
      have hl1 : js'.length = (sliceDims idx).length := by rw [hrest.length_eq]; simp [sliceDims]
      have hl2 : (shiftIdx idx js').length = ds.length := by rw [shiftIdx_length hrest, hfit.length_eq]
      simp only [sliceDims, List.map_cons, shiftIdx]
      rw [at?_cons (t - f) _ rows.flatten j js' hj (by simpa [sliceDims] using hl1)]
      rw [at?_cons d ds data (j + f) _ (by omega) hl2]
      have hc := chunk_flatten rows (prod (sliceDims idx)) j h3 (by omega)
      simp only [sliceDims] at hc
      rw [hc]
      exact h4 j hj js' hrest

end Qeep
