import QeepProofs.Along
/-!
# Index-level form of the `…Along` specification

`reduceDim_spec` speaks about the `j`-th element in row-major order. Here the same fact for a multi-index:
the element of the result at the (big-endian) index `u` is the reducer applied to the fibre
`t[u with i inserted at dim]`, `i = 0 … n-1`.
-/
set_option linter.unusedSimpArgs false
set_option linter.unusedSectionVars false

namespace Qeep
variable {α : Type}

/-- insert `i` at big-endian position `dim` -/
def insAt (dim i : Nat) (u : List Nat) : List Nat := u.take dim ++ i :: u.drop dim

theorem insLE_eq : ∀ (k v : Nat) (l : List Nat), k ≤ l.length → insLE k v l = l.take k ++ v :: l.drop k
  | 0, v, l, _ => by simp [insLE]
  | k + 1, v, [], h => by simp at h
  | k + 1, v, x :: l, h => by
    simp only [insLE, List.take_succ_cons, List.drop_succ_cons, List.cons_append]
    rw [insLE_eq k v l (by simpa using h)]

theorem insLE_rev_set (u : List Nat) (dim k i : Nat) (hk : k + dim = u.length) :
    ((insLE k 0 u.reverse).reverse).set dim i = insAt dim i u := by
  rw [insLE_eq k 0 u.reverse (by simp; omega)]
  simp only [List.reverse_append, List.reverse_cons, List.append_assoc, List.singleton_append]
  have h1 : (u.reverse.drop k).reverse = u.take dim := by
    rw [List.drop_reverse, List.reverse_reverse]; congr 1; omega
  have h2 : (u.reverse.take k).reverse = u.drop dim := by
    rw [List.take_reverse, List.reverse_reverse]; congr 1; omega
  rw [h1, h2]
  unfold insAt
  have hl : (u.take dim).length = dim := by simp; omega
  have gen : ∀ (A B : List Nat) (x : Nat), (A ++ x :: B).set A.length i = A ++ i :: B := by
    intro A B x; induction A with
    | nil => simp
    | cons a A ih => simp [ih]
  have := gen (u.take dim) (u.drop dim) 0
  rw [hl] at this
  exact this

/-- a valid index of a well-formed tensor addresses an element -/
theorem at?_valid (t : Tensor α) (hwf : t.WF) {u : List Nat} (hu : Valid t.dims u) : (t.at? u).isSome := by
  have hv : Valid t.dims.reverse u.reverse := valid_reverse hu
  have := t.at?_reverse hv
  rw [List.reverse_reverse] at this
  rw [this]
  have hlt := val_lt hv
  rw [prod_reverse, ← hwf.1] at hlt
  simp [hlt]

/-- **Index-level `…Along`**: for a valid index `u` of the result, the element is the reducer applied to the fibre
    of the operand along `dim` through `u`. -/
theorem reduceDim_at (t : Tensor α) (hwf : t.WF) (dim : Nat) (hdim : dim < t.dims.length) (trf : Tensor α → α) :
    ∃ r, t.reduceDimRaw dim trf = some r ∧ r.dims = squeezeDims dim t.dims ∧ r.data.length = prod (squeezeDims dim t.dims) ∧
      ∀ u, Valid (squeezeDims dim t.dims) u →
        ∃ (wd : List Nat) (fib : List α), fib.length = t.dims.getD dim 0 ∧
          (∀ i, i < t.dims.getD dim 0 → fib[i]? = t.at? (insAt dim i u) ∧ (fib[i]?).isSome) ∧
          r.at? u = some (trf ⟨wd, fib⟩) := by
  obtain ⟨data', h1, h2, h3⟩ := reduceDim_spec t hwf dim hdim trf
  refine ⟨⟨squeezeDims dim t.dims, data'⟩, h1, rfl, h2, ?_⟩
  intro u hu
  have hposR : ∀ d ∈ t.dims.reverse, 0 < d := fun d hd => hwf.2 d (by simpa using hd)
  have hD : (squeezeDims dim t.dims).reverse = delLE (t.dims.length - 1 - dim) t.dims.reverse := squeeze_rev dim t.dims hdim
  have hposD : ∀ d ∈ delLE (t.dims.length - 1 - dim) t.dims.reverse, 0 < d := by
    rw [← hD]
    intro d hd
    have : d ∈ squeezeDims dim t.dims := by simpa using hd
    unfold squeezeDims at this
    rcases List.mem_append.mp this with h | h
    · exact hwf.2 d (List.mem_of_mem_take h)
    · exact hwf.2 d (List.mem_of_mem_drop h)
  have hvD : Valid (delLE (t.dims.length - 1 - dim) t.dims.reverse) u.reverse := by
    rw [← hD]; exact valid_reverse hu
  have hj : val (delLE (t.dims.length - 1 - dim) t.dims.reverse) u.reverse < prod (squeezeDims dim t.dims) := by
    have := val_lt hvD
    have e : prod (delLE (t.dims.length - 1 - dim) t.dims.reverse) = prod (squeezeDims dim t.dims) := by
      rw [← hD, prod_reverse]
    rw [e] at this
    exact this
  obtain ⟨fib, f1, f2, f3⟩ := h3 _ hj
  dsimp only at f2 f3
  rw [iter_val hposD hvD] at f2 f3
  have hul : u.length = t.dims.length - 1 := by
    have := hu.length_eq
    rw [this]; unfold squeezeDims; simp; omega
  have hset : ∀ i, ((insLE (t.dims.length - 1 - dim) 0 u.reverse).reverse).set dim i = insAt dim i u :=
    fun i => insLE_rev_set u dim _ i (by omega)
  refine ⟨sliceDims (windowOf dim t.dims (insLE (t.dims.length - 1 - dim) 0 u.reverse).reverse), fib, f1, ?_, ?_⟩
  · intro i hi
    have := f2 i hi
    rw [hset i] at this
    exact this
  · have hv' : Valid (Tensor.dims ⟨squeezeDims dim t.dims, data'⟩).reverse u.reverse := by
      simp only []; rw [hD]; exact hvD
    have := Tensor.at?_reverse (⟨squeezeDims dim t.dims, data'⟩ : Tensor α) hv'
    rw [List.reverse_reverse] at this
    rw [this]
    simp only []
    rw [hD]
    exact f3

end Qeep
