import QeepProofs.BcastSum
import QeepProofs.Duality
import QeepProofs.Real
import QeepProps.C03
/-!
# The copies of an element under broadcasting, and the rule's sum as an unordered sum over them

`copies src dst idx` lists the positions of the target shape `dst` that the element `idx` of a `src`-shaped operand is
copied to by right-aligned broadcasting. Over the reals the iterated sum `copiesSum` (what the rule computes, `BcastSum`)
is the plain sum of the upstream gradient over that list; the list has no duplicates and contains exactly the valid
positions `j` of `dst` whose projection `projBE src dst j` (drop the extra leading coordinates, set expanded coordinates
to 0) is `idx`.
-/
set_option linter.unusedSimpArgs false
set_option linter.unusedSectionVars false

namespace Qeep

/-- all big-endian indices of `dims`, row-major -/
def allIdx : List Nat → List (List Nat)
  | [] => [[]]
  | d :: ds => (List.range d).flatMap (fun c => (allIdx ds).map (c :: ·))

/-- positions of the aligned part that `idx` is copied to -/
def expIdx : (src dst idx : List Nat) → List (List Nat)
  | s :: src, d :: dst, i :: idx =>
      if s ≠ d then (List.range d).flatMap (fun c => (expIdx src dst idx).map (c :: ·))
      else (expIdx src dst idx).map (i :: ·)
  | _, _, _ => [[]]

/-- the positions of `dst` that element `idx` of a `src`-shaped operand is copied to -/
def copies (src dst idx : List Nat) : List (List Nat) :=
  (allIdx (dst.take (dst.length - src.length))).flatMap
    (fun r => (expIdx src (dst.drop (dst.length - src.length)) idx).map (r ++ ·))

/-- which source element the target position `j` is a copy of -/
def projBE (src dst j : List Nat) : List Nat :=
  projLE src (dst.drop (dst.length - src.length)) (j.drop (dst.length - src.length))

/-! ### membership -/

theorem mem_allIdx : ∀ (ds : List Nat) (r : List Nat), r ∈ allIdx ds ↔ Valid ds r
  | [], r => by
    simp only [allIdx, List.mem_singleton]
    constructor
    · rintro rfl; exact .nil
    · intro h; cases h; rfl
  | d :: ds, r => by
    simp only [allIdx, List.mem_flatMap, List.mem_range, List.mem_map]
    constructor
    · rintro ⟨c, hc, q, hq, rfl⟩
      exact .cons hc ((mem_allIdx ds q).mp hq)
    · intro h
      cases h with
      | cons hc hv => exact ⟨_, hc, _, (mem_allIdx ds _).mpr hv, rfl⟩

theorem mem_expIdx : ∀ {src dst : List Nat}, Compat src dst → ∀ (idx q : List Nat), Valid src idx →
    (q ∈ expIdx src dst idx ↔ Valid dst q ∧ projLE src dst q = idx)
  | _, _, .nil, idx, q, hv => by
    cases hv
    simp only [expIdx, List.mem_singleton]
    constructor
    · rintro rfl; exact ⟨.nil, rfl⟩
    · rintro ⟨h, _⟩; cases h; rfl
  | _, _, .cons (s := s) (d := d) (src := src) (dst := dst) hsd hc, _, q, .cons (s := i) (ss := idx) hi hv => by
    have ih := mem_expIdx hc idx
    by_cases hne : s ≠ d
    · have hs1 : s = 1 := by rcases hsd with h | h; exact absurd h hne; exact h
      have hi0 : i = 0 := by omega
      simp only [expIdx, hne, ne_eq, not_false_eq_true, if_true, List.mem_flatMap, List.mem_range, List.mem_map]
      constructor
      · rintro ⟨c, hc', q', hq', rfl⟩
        obtain ⟨h1, h2⟩ := (ih q' hv).mp hq'
        refine ⟨.cons hc' h1, ?_⟩
        have : ¬ s = d := hne
        simp [projLE, this, h2, hi0]
      · rintro ⟨h1, h2⟩
        cases h1 with
        | cons hc' hv' =>
          rename_i c q'
          have : ¬ s = d := hne
          simp only [projLE, this, if_false, List.cons.injEq] at h2
          exact ⟨c, hc', q', (ih q' hv).mpr ⟨hv', h2.2⟩, rfl⟩
    · have hse : s = d := by simpa using hne
      simp only [expIdx, hse, ne_eq, not_true_eq_false, if_false, List.mem_map]
      constructor
      · rintro ⟨q', hq', rfl⟩
        obtain ⟨h1, h2⟩ := (ih q' hv).mp hq'
        exact ⟨.cons (hse ▸ hi) h1, by simp [projLE, h2]⟩
      · rintro ⟨h1, h2⟩
        cases h1 with
        | cons hc' hv' =>
          rename_i c q'
          simp only [projLE, if_true, List.cons.injEq] at h2
          exact ⟨q', (ih q' hv).mpr ⟨hv', h2.2⟩, by rw [h2.1]⟩

/-- **the list of copies is exactly the set of valid target positions that project to `idx`** -/
theorem mem_copies {src dst : List Nat} (hv : validBroadcast src dst = true) (idx : List Nat) (hi : Valid src idx)
    (j : List Nat) : j ∈ copies src dst idx ↔ Valid dst j ∧ projBE src dst j = idx := by
  obtain ⟨hle, hc⟩ := compat_of_valid hv
  have hsplit : dst = dst.take (dst.length - src.length) ++ dst.drop (dst.length - src.length) :=
    (List.take_append_drop _ _).symm
  have hlt : (dst.take (dst.length - src.length)).length = dst.length - src.length := by
    rw [List.length_take]; omega
  unfold copies projBE
  simp only [List.mem_flatMap, List.mem_map]
  constructor
  · rintro ⟨r, hr, q, hq, rfl⟩
    have hr' := (mem_allIdx _ r).mp hr
    obtain ⟨h1, h2⟩ := (mem_expIdx hc idx q hi).mp hq
    refine ⟨by rw [hsplit]; exact valid_app hr' h1, ?_⟩
    have : (r ++ q).drop (dst.length - src.length) = q := by
      rw [← hlt, ← hr'.length_eq]; exact List.drop_left
    rw [this]; exact h2
  · rintro ⟨h1, h2⟩
    have hjl : j.length = dst.length := h1.length_eq
    have hj : j = j.take (dst.length - src.length) ++ j.drop (dst.length - src.length) :=
      (List.take_append_drop _ _).symm
    rw [hsplit, hj] at h1
    obtain ⟨v1, v2⟩ := valid_split (by rw [List.length_take, hlt]; omega) h1
    exact ⟨_, (mem_allIdx _ _).mpr v1, _, (mem_expIdx hc idx _ hi).mpr ⟨v2, h2⟩, hj.symm⟩

/-! ### no duplicates -/

theorem nodup_flatMap_cons {β : Type} (n : Nat) (l : List (List β)) (hl : l.Nodup) (f : Nat → β) (hf : ∀ a b, f a = f b → a = b) :
    ((List.range n).flatMap (fun c => l.map (f c :: ·))).Nodup := by
  rw [List.nodup_flatMap]
  constructor
  · intro c _
    exact hl.map (fun a b h => by injection h)
  · apply List.Pairwise.imp_of_mem (R := fun a b => a ≠ b)
    · intro a b _ _ hab x hx1 hx2
      simp only [List.mem_map] at hx1 hx2
      obtain ⟨q1, _, rfl⟩ := hx1
      obtain ⟨q2, _, h⟩ := hx2
      injection h with h1 _
      exact hab (hf _ _ h1).symm
    · exact List.nodup_range

theorem allIdx_nodup : ∀ ds : List Nat, (allIdx ds).Nodup
  | [] => by simp [allIdx]
  | d :: ds => nodup_flatMap_cons d _ (allIdx_nodup ds) id (fun _ _ h => h)

theorem expIdx_nodup : ∀ (src dst idx : List Nat), (expIdx src dst idx).Nodup
  | s :: src, d :: dst, i :: idx => by
    simp only [expIdx]
    split
    · exact nodup_flatMap_cons d _ (expIdx_nodup src dst idx) id (fun _ _ h => h)
    · exact (expIdx_nodup src dst idx).map (fun a b h => by injection h)
  | [], _, _ => by simp [expIdx]
  | _ :: _, [], _ => by simp [expIdx]
  | _ :: _, _ :: _, [] => by simp [expIdx]

theorem copies_nodup (src dst idx : List Nat) : (copies src dst idx).Nodup := by
  unfold copies
  rw [List.nodup_flatMap]
  constructor
  · intro r _
    exact (expIdx_nodup _ _ _).map (fun a b h => List.append_cancel_left h)
  · apply List.Pairwise.imp_of_mem (R := fun a b => a ≠ b)
    · intro a b ha hb hab x hx1 hx2
      simp only [List.mem_map] at hx1 hx2
      obtain ⟨q1, _, rfl⟩ := hx1
      obtain ⟨q2, _, h⟩ := hx2
      have la := ((mem_allIdx _ a).mp ha).length_eq
      have lb := ((mem_allIdx _ b).mp hb).length_eq
      exact hab (List.append_inj_left h (by rw [la, lb])).symm
    · exact allIdx_nodup _

/-! ### the iterated sum is the sum over the list (real numbers) -/

theorem sumOver_real (n : Nat) (f : Nat → ℝ) : sumOver n f = ((List.range n).map f).sum := by
  unfold sumOver
  have gen : ∀ (l : List ℝ) (a : ℝ), l.foldl Scalar.add a = a + l.sum := by
    intro l
    induction l with
    | nil => intro a; simp
    | cons x l ih => intro a; simp only [List.foldl_cons, List.sum_cons, ih]; show (a + x) + l.sum = _; ring
  rw [gen]
  rw [RealScalar.zero_eq]; ring

theorem sum_flatMap' {β γ : Type} (L : List β) (g : β → List γ) (f : γ → ℝ) :
    ((L.flatMap g).map f).sum = (L.map (fun u => ((g u).map f).sum)).sum := by
  induction L with
  | nil => simp
  | cons u L ih => simp only [List.flatMap_cons, List.map_append, List.sum_append, List.map_cons, List.sum_cons, ih]

theorem leadSum_real : ∀ (pre : List Nat) (f : List Nat → ℝ), leadSum pre f = ((allIdx pre).map f).sum
  | [], f => by simp [leadSum, allIdx]
  | p :: ps, f => by
    simp only [leadSum, allIdx]
    rw [leadSum_real ps, sum_flatMap']
    simp only [sumOver_real, List.map_map]
    rw [sum_swap (allIdx ps) (List.range p) (fun r c => f (c :: r))]
    rfl

theorem expSum_real : ∀ (src dst idx : List Nat) (f : List Nat → ℝ), expSum src dst idx f = ((expIdx src dst idx).map f).sum
  | s :: src, d :: dst, i :: idx, f => by
    simp only [expSum, expIdx]
    split
    · rw [expSum_real src dst idx, sum_flatMap']
      simp only [sumOver_real, List.map_map]
      rw [sum_swap (expIdx src dst idx) (List.range d) (fun q c => f (c :: q))]
      rfl
    · rw [expSum_real src dst idx, List.map_map]; rfl
  | [], _, _, f => by simp [expSum, expIdx]
  | _ :: _, [], _, f => by simp [expSum, expIdx]
  | _ :: _, _ :: _, [], f => by simp [expSum, expIdx]

/-- **over the reals the rule's iterated sum is the sum of the upstream gradient over the copies** -/
theorem copiesSum_real (src dst idx : List Nat) (gy : Tensor ℝ) :
    copiesSum src dst idx gy = ((copies src dst idx).map gy.el).sum := by
  unfold copiesSum copies
  rw [expSum_real, sum_flatMap']
  simp only [leadSum_real, List.map_map]
  rw [sum_swap (expIdx src (dst.drop (dst.length - src.length)) idx) (allIdx (dst.take (dst.length - src.length)))
    (fun q r => gy.el (r ++ q))]
  rfl

/-! ### the copies are the positions the forward `Broadcast` fills from that element -/

theorem projLE_snoc : ∀ (a b c : List Nat) (x y z : Nat), a.length = b.length → a.length = c.length →
    projLE (a ++ [x]) (b ++ [y]) (c ++ [z]) = projLE a b c ++ [if x = y then z else 0]
  | [], [], [], x, y, z, _, _ => by simp [projLE]
  | a0 :: a, b0 :: b, c0 :: c, x, y, z, h1, h2 => by
    simp only [List.cons_append, projLE]
    rw [projLE_snoc a b c x y z (by simpa using h1) (by simpa using h2)]
  | [], _ :: _, _, _, _, _, h, _ => by simp at h
  | _ :: _, [], _, _, _, _, h, _ => by simp at h
  | [], [], _ :: _, _, _, _, _, h => by simp at h
  | _ :: _, _ :: _, [], _, _, _, _, h => by simp at h

theorem projLE_reverse : ∀ (a b c : List Nat), a.length = b.length → a.length = c.length →
    projLE a.reverse b.reverse c.reverse = (projLE a b c).reverse
  | [], [], [], _, _ => by simp [projLE]
  | a0 :: a, b0 :: b, c0 :: c, h1, h2 => by
    have h1' : a.length = b.length := by simpa using h1
    have h2' : a.length = c.length := by simpa using h2
    simp only [List.reverse_cons, projLE]
    rw [projLE_snoc _ _ _ _ _ _ (by simpa using h1') (by simpa using h2'), projLE_reverse a b c h1' h2']
  | [], _ :: _, _, h, _ => by simp at h
  | _ :: _, [], _, h, _ => by simp at h
  | [], [], _ :: _, _, h => by simp at h
  | _ :: _, _ :: _, [], _, h => by simp at h

theorem projLE_prefix : ∀ (a b1 c1 b2 c2 : List Nat), a.length = b1.length → a.length = c1.length →
    projLE a (b1 ++ b2) (c1 ++ c2) = projLE a b1 c1
  | [], [], [], b2, c2, _, _ => by cases b2 <;> cases c2 <;> simp [projLE]
  | a0 :: a, b0 :: b, c0 :: c, b2, c2, h1, h2 => by
    simp only [List.cons_append, projLE]
    rw [projLE_prefix a b c b2 c2 (by simpa using h1) (by simpa using h2)]
  | [], _ :: _, _, _, _, h, _ => by simp at h
  | _ :: _, [], _, _, _, h, _ => by simp at h
  | [], [], _ :: _, _, _, _, h => by simp at h
  | _ :: _, _ :: _, [], _, _, _, h => by simp at h

/-- **the forward `Broadcast` fills position `j` of the target from element `projBE src dst j` of the operand** -/
theorem broadcast_el (x : Tensor ℝ) (hwf : x.WF) (dst : List Nat) (hpos : ∀ h ∈ dst, 0 < h)
    (hv : validBroadcast x.dims dst = true) :
    ∃ y, x.broadcastRaw dst = some y ∧ y.dims = dst ∧ y.WF ∧
      ∀ j, Valid dst j → y.at? j = x.at? (projBE x.dims dst j) := by
  obtain ⟨data, e, wf, hget⟩ := C03.broadcast_get x hwf dst hpos hv
  refine ⟨_, e, rfl, wf, ?_⟩
  intro j hj
  have := (hget j.reverse (valid_reverse hj)).1
  rw [List.reverse_reverse] at this
  rw [this]
  congr 1
  obtain ⟨hle, _⟩ := compat_of_valid hv
  have hjl : j.length = dst.length := hj.length_eq
  unfold projBE
  have hd : dst = dst.take (dst.length - x.dims.length) ++ dst.drop (dst.length - x.dims.length) :=
    (List.take_append_drop _ _).symm
  have hjs : j = j.take (dst.length - x.dims.length) ++ j.drop (dst.length - x.dims.length) :=
    (List.take_append_drop _ _).symm
  have l1 : x.dims.reverse.length = (dst.drop (dst.length - x.dims.length)).reverse.length := by
    simp only [List.length_reverse, List.length_drop]; omega
  have l2 : x.dims.reverse.length = (j.drop (dst.length - x.dims.length)).reverse.length := by
    simp only [List.length_reverse, List.length_drop]; omega
  conv => lhs; rw [hd, hjs]
  rw [List.reverse_append, List.reverse_append, projLE_prefix _ _ _ _ _ l1 l2,
    projLE_reverse _ _ _ (by simpa using l1) (by simpa using l2), List.reverse_reverse]

end Qeep
