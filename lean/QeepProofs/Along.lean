import QeepProofs.Slice
/-!
# The window generator of the `…Along` reductions (`linearElemGeneratorWithReducedDim`)

`incrSkip k` is an odometer over all positions except `k`. With `insLE k` (insert a 0 at little-endian position `k`)
and `delLE k` (delete position `k`): one step of `incrSkip k` on `insLE k u` is `insLE k` of one ordinary odometer
step on `u` over the dims with position `k` deleted — position `k` is never touched.
-/
set_option linter.unusedSimpArgs false

namespace Qeep

/-- insert `v` at position `k` -/
def insLE : Nat → Nat → List Nat → List Nat
  | 0, v, l => v :: l
  | k + 1, v, x :: l => x :: insLE k v l
  | _ + 1, v, [] => [v]

/-- delete position `k` -/
def delLE : Nat → List Nat → List Nat
  | _, [] => []
  | 0, _ :: l => l
  | k + 1, x :: l => x :: delLE k l

theorem incrSkip_ins : ∀ (k : Nat) (ds u : List Nat), k < ds.length → u.length = (delLE k ds).length →
    incrSkip k ds (insLE k 0 u) = insLE k 0 (incr (delLE k ds) u)
  | _, [], _, hk, _ => by simp at hk
  | 0, d :: ds, u, _, _ => by simp [incrSkip, insLE, delLE]
  | k + 1, d :: ds, [], _, hl => by simp [delLE] at hl
  | k + 1, d :: ds, x :: u, hk, hl => by
    have hk' : k < ds.length := by simpa using hk
    have hl' : u.length = (delLE k ds).length := by simpa [delLE] using hl
    simp only [insLE, incrSkip, delLE, incr]
    split
    · simp [insLE]
    · simp [insLE, incrSkip_ins k ds u hk' hl']

theorem delLE_length : ∀ (k : Nat) (ds : List Nat), k < ds.length → (delLE k ds).length = ds.length - 1
  | _, [], hk => by simp at hk
  | 0, _ :: l, _ => by simp [delLE]
  | k + 1, x :: l, hk => by
    have hk' : k < l.length := by simpa using hk
    have := delLE_length k l hk'
    simp only [delLE, List.length_cons, this]; omega

theorem zeros_ins : ∀ (k : Nat) (ds : List Nat), k < ds.length → zerosLike ds = insLE k 0 (zerosLike (delLE k ds))
  | _, [], hk => by simp at hk
  | 0, _ :: l, _ => by simp [zerosLike, insLE, delLE]
  | k + 1, x :: l, hk => by
    have := zeros_ins k l (by simpa using hk)
    simp only [zerosLike, List.map_cons, delLE, insLE] at this ⊢
    rw [this]

theorem incr_length' : ∀ {ds st : List Nat}, st.length = ds.length → (incr ds st).length = ds.length := by
  intro ds
  induction ds with
  | nil => intro st h; cases st <;> simp_all [incr]
  | cons d ds ihd =>
    intro st h
    cases st with
    | nil => simp at h
    | cons s ss =>
      simp only [incr]
      split
      · simpa using h
      · simp [ihd (by simpa using h)]

theorem iter_incr_length (ds : List Nat) (j : Nat) : (iterN (incr ds) j (zerosLike ds)).length = ds.length := by
  induction j with
  | zero => simp [iterN, zerosLike]
  | succ j ih => rw [iterN_succ']; exact incr_length' ih

/-- the generator state after `j` calls -/
theorem iterSkip (k : Nat) (ds : List Nat) (hk : k < ds.length) (j : Nat) :
    iterN (incrSkip k ds) j (zerosLike ds) = insLE k 0 (iterN (incr (delLE k ds)) j (zerosLike (delLE k ds))) := by
  induction j with
  | zero => simp only [iterN]; exact zeros_ins k ds hk
  | succ j ih =>
    rw [iterN_succ', iterN_succ', ih]
    exact incrSkip_ins k ds _ hk (iter_incr_length _ _)

end Qeep

namespace Qeep
variable {α : Type}

theorem flatten_singletons {β γ : Type} (l : List β) (g : β → γ) : (l.map (fun i => [g i])).flatten = l.map g := by
  induction l with
  | nil => rfl
  | cons x xs ih => simp [ih]

/-- a unit window `[s, s+1)` in every dimension copies exactly the element at that index -/
theorem slice_unit : ∀ {ds st : List Nat}, Valid ds st → ∀ (data : List α), data.length = prod ds →
    ∃ x, sliceData (unitWin st) ds data = some [x] ∧ (⟨ds, data⟩ : Tensor α).at? st = some x
  | _, _, .nil, data, hl => by
    simp only [prod] at hl
    match data, hl with
    | [x], _ => exact ⟨x, rfl, by simp [Tensor.at?, offset]⟩
  | _, _, .cons (d := d) (s := s) (ds := ds) (ss := st) hs hv, data, hl => by
    simp only [prod] at hl
    obtain ⟨x, h1, h2⟩ := slice_unit hv (chunk data (prod ds) s) (chunk_length data (prod ds) s d hl hs)
    refine ⟨x, ?_, ?_⟩
    · simp only [unitWin, List.map_cons, sliceData]
      have hc : s + 1 ≤ d ∧ data.length = d * prod ds := ⟨by omega, hl⟩
      rw [if_pos hc]
      have : s + 1 - s = 1 := by omega
      rw [this]
      simp only [List.range_one, List.map_cons, List.map_nil, Nat.zero_add]
      have h1' : sliceData (List.map (fun s => (s, s + 1)) st) ds (chunk data (prod ds) s) = some [x] := h1
      rw [h1']
      simp [allSome]
    · rw [at?_cons d ds data s st hs hv.length_eq]; exact h2

/-- **the window of the `…Along` generator copies one fibre**: all elements whose index agrees with `st` outside
    position `dim`, in order of their coordinate along `dim` -/
theorem slice_window : ∀ (dim : Nat) {dims st : List Nat}, Valid dims st → dim < dims.length →
    ∀ (data : List α), data.length = prod dims →
    ∃ fib, sliceData (windowOf dim dims st) dims data = some fib ∧ fib.length = dims.getD dim 0 ∧
      ∀ i, i < dims.getD dim 0 → fib[i]? = (⟨dims, data⟩ : Tensor α).at? (st.set dim i) ∧ (fib[i]?).isSome
  | 0, _, _, .cons (d := d) (s := s) (ds := ds) (ss := st) hs hv, _, data, hl => by
    simp only [prod] at hl
    have hrow : ∀ i, i < d → ∃ x, sliceData (unitWin st) ds (chunk data (prod ds) i) = some [x] ∧
        (⟨d :: ds, data⟩ : Tensor α).at? (i :: st) = some x := by
      intro i hi
      obtain ⟨x, h1, h2⟩ := slice_unit hv (chunk data (prod ds) i) (chunk_length data (prod ds) i d hl hi)
      exact ⟨x, h1, by rw [at?_cons d ds data i st hi hv.length_eq]; exact h2⟩
    -- a default element to name the fibre entries
    obtain ⟨dflt, _, _⟩ := hrow s hs
    let g : Nat → α := fun i => ((⟨d :: ds, data⟩ : Tensor α).at? (i :: st)).getD dflt
    have hg : ∀ i, i < d → sliceData (unitWin st) ds (chunk data (prod ds) (i + 0)) = some [g i] := by
      intro i hi
      obtain ⟨x, h1, h2⟩ := hrow i hi
      simp only [Nat.add_zero, g, h2, Option.getD_some]; exact h1
    refine ⟨(List.range d).map g, ?_, by simp, ?_⟩
    · simp only [windowOf, sliceData]
      rw [if_pos ⟨Nat.le_refl d, hl⟩, Nat.sub_zero, allSome_range d _ (fun i => [g i]) hg]
      simp [flatten_singletons]
    · intro i hi
      simp only [List.getD_cons_zero] at hi
      obtain ⟨x, _, h2⟩ := hrow i hi
      simp [List.getElem?_map, List.getElem?_range hi, g, h2]
  | dim + 1, _, _, .cons (d := d) (s := s) (ds := ds) (ss := st) hs hv, hdim, data, hl => by
    simp only [prod] at hl
    have hdim' : dim < ds.length := by simpa using hdim
    obtain ⟨fib, h1, h2, h3⟩ := slice_window dim hv hdim' (chunk data (prod ds) s) (chunk_length data (prod ds) s d hl hs)
    refine ⟨fib, ?_, by simpa using h2, ?_⟩
    · simp only [windowOf, sliceData]
      rw [if_pos ⟨by omega, hl⟩]
      have : s + 1 - s = 1 := by omega
      rw [this]
      simp only [List.range_one, List.map_cons, List.map_nil, Nat.zero_add, h1]
      simp [allSome]
    · intro i hi
      simp only [List.getD_cons_succ] at hi
      obtain ⟨e1, e2⟩ := h3 i hi
      refine ⟨?_, e2⟩
      rw [e1]
      simp only [List.set_cons_succ]
      have hlen : (st.set dim i).length = ds.length := by simp [hv.length_eq]
      rw [at?_cons d ds data s (st.set dim i) hs hlen]

end Qeep

namespace Qeep
variable {α : Type}

theorem completeIndex_window : ∀ (dim : Nat) {dims st : List Nat}, Valid dims st → (∀ d ∈ dims, 0 < d) → dim < dims.length →
    completeIndex (windowOf dim dims st) dims = windowOf dim dims st
  | 0, _, _, .cons (d := d) (s := s) (ds := ds) (ss := st) hs hv, hpos, _ => by
    have hd : 0 < d := hpos d (by simp)
    simp only [windowOf, completeIndex]
    have hsame : (if True ∧ d = 0 then ((0 : Nat), d) else (0, d)) = (0, d) := by split <;> rfl
    rw [hsame]
    congr 1
    -- unit windows are complete
    have hu : ∀ {ds st : List Nat}, Valid ds st → completeIndex (unitWin st) ds = unitWin st := by
      intro ds st hv
      induction hv with
      | nil => simp [unitWin, completeIndex]
      | cons h _ ih =>
        simp only [unitWin, List.map_cons, completeIndex] at ih ⊢
        rw [if_neg (by omega), ih]
    exact hu hv
  | dim + 1, _, _, .cons (d := d) (s := s) (ds := ds) (ss := st) hs hv, hpos, hdim => by
    simp only [windowOf, completeIndex]
    rw [if_neg (by omega)]
    congr 1
    exact completeIndex_window dim hv (fun x hx => hpos x (by simp [hx])) (by simpa using hdim)

theorem valid_insLE : ∀ (k : Nat) {ds u : List Nat}, k < ds.length → Valid (delLE k ds) u → (∀ d ∈ ds, 0 < d) →
    Valid ds (insLE k 0 u)
  | _, [], _, hk, _, _ => by simp at hk
  | 0, d :: ds, u, _, hv, hpos => by
    simp only [delLE] at hv
    simp only [insLE]
    exact .cons (hpos d (by simp)) hv
  | k + 1, d :: ds, [], _, hv, _ => by simp only [delLE] at hv; cases hv
  | k + 1, d :: ds, x :: u, hk, hv, hpos => by
    simp only [delLE] at hv
    cases hv with
    | cons hx hv' =>
      simp only [insLE]
      exact .cons hx (valid_insLE k (by simpa using hk) hv' (fun y hy => hpos y (by simp [hy])))

theorem valid_reverse : ∀ {ds st : List Nat}, Valid ds st → Valid ds.reverse st.reverse
  | _, _, .nil => .nil
  | _, _, .cons h hv => by
    simp only [List.reverse_cons]
    exact valid_append (valid_reverse hv) h

theorem delLE_append_length : ∀ (p : List Nat) (x : Nat) (q : List Nat), delLE p.length (p ++ x :: q) = p ++ q
  | [], _, _ => rfl
  | a :: p, x, q => by simp [delLE, delLE_append_length p x q]

/-- deleting BE position `dim` = deleting LE position `n-1-dim` of the reversed list -/
theorem squeeze_rev (dim : Nat) (dims : List Nat) (h : dim < dims.length) :
    (squeezeDims dim dims).reverse = delLE (dims.length - 1 - dim) dims.reverse := by
  unfold squeezeDims
  have hsplit : dims = dims.take dim ++ dims[dim] :: dims.drop (dim + 1) := by
    rw [← List.drop_eq_getElem_cons h, List.take_append_drop]
  have hl : (dims.drop (dim + 1)).reverse.length = dims.length - 1 - dim := by simp; omega
  have hrev : dims.reverse = (dims.drop (dim + 1)).reverse ++ dims[dim] :: (dims.take dim).reverse := by
    conv => lhs; rw [hsplit]
    simp only [List.reverse_append, List.reverse_cons, List.append_assoc, List.singleton_append]
  rw [hrev, ← hl, delLE_append_length, List.reverse_append]

/-- **Specification of the `…Along` generator run** (`reduceDimUsingFunc`): for every rank ≥ 1, every `dim`, every
    reducer `trf`: the run succeeds, the result has the operand's dims with `dim` removed, and its `j`-th element
    (row-major) is `trf` of the `j`-th fibre — the window tensor whose data are the source elements at the index
    `S j` with coordinate `dim` running over `0 … dims[dim]-1`, where `S j` is the `j`-th output index with a 0
    inserted at `dim`. -/
theorem reduceDim_spec (t : Tensor α) (hwf : t.WF) (dim : Nat) (hdim : dim < t.dims.length) (trf : Tensor α → α) :
    let k := t.dims.length - 1 - dim
    let S := fun j => (insLE k 0 (iterN (incr (delLE k t.dims.reverse)) j (zerosLike (delLE k t.dims.reverse)))).reverse
    ∃ data', t.reduceDimRaw dim trf = some ⟨squeezeDims dim t.dims, data'⟩ ∧
      data'.length = prod (squeezeDims dim t.dims) ∧
      ∀ j, j < prod (squeezeDims dim t.dims) →
        ∃ fib : List α, fib.length = t.dims.getD dim 0 ∧
          (∀ i, i < t.dims.getD dim 0 → fib[i]? = t.at? ((S j).set dim i) ∧ (fib[i]?).isSome) ∧
          data'[j]? = some (trf ⟨sliceDims (windowOf dim t.dims (S j)), fib⟩) := by
  intro k S
  have hk : k < t.dims.reverse.length := by simp; omega
  have hposR : ∀ d ∈ t.dims.reverse, 0 < d := fun d hd => hwf.2 d (by simpa using hd)
  have hposD : ∀ d ∈ delLE k t.dims.reverse, 0 < d := by
    rw [← squeeze_rev dim t.dims hdim]
    intro d hd
    have : d ∈ squeezeDims dim t.dims := by simpa using hd
    unfold squeezeDims at this
    rcases List.mem_append.mp this with h | h
    · exact hwf.2 d (List.mem_of_mem_take h)
    · exact hwf.2 d (List.mem_of_mem_drop h)
  -- validity of the j-th window index
  have hvalid : ∀ j, Valid t.dims (S j) := by
    intro j
    have hv := valid_insLE k hk (valid_iter hposD j) hposR
    have := valid_reverse hv
    simpa [S] using this
  -- the fibre of step j
  have hstep : ∀ j, ∃ fib : List α, t.sliceRaw (windowOf dim t.dims (S j)) = some ⟨sliceDims (windowOf dim t.dims (S j)), fib⟩ ∧
      fib.length = t.dims.getD dim 0 ∧
      ∀ i, i < t.dims.getD dim 0 → fib[i]? = t.at? ((S j).set dim i) ∧ (fib[i]?).isSome := by
    intro j
    obtain ⟨fib, h1, h2, h3⟩ := slice_window dim (hvalid j) hdim t.data hwf.1
    refine ⟨fib, ?_, h2, h3⟩
    unfold Tensor.sliceRaw
    simp only [completeIndex_window dim (hvalid j) hwf.2 hdim, h1, Option.map_some]
  -- choose the fibres
  have hch : ∀ j, ∃ v : α, (t.sliceRaw (windowOf dim t.dims (S j))).map trf = some v ∧
      ∃ fib : List α, fib.length = t.dims.getD dim 0 ∧
        (∀ i, i < t.dims.getD dim 0 → fib[i]? = t.at? ((S j).set dim i) ∧ (fib[i]?).isSome) ∧
        v = trf ⟨sliceDims (windowOf dim t.dims (S j)), fib⟩ := by
    intro j
    obtain ⟨fib, h1, h2, h3⟩ := hstep j
    exact ⟨_, by rw [h1]; rfl, fib, h2, h3, rfl⟩
  let g : Nat → α := fun j => Classical.choose (hch j)
  have hg : ∀ j, (t.sliceRaw (windowOf dim t.dims (S j))).map trf = some (g j) ∧
      ∃ fib : List α, fib.length = t.dims.getD dim 0 ∧
        (∀ i, i < t.dims.getD dim 0 → fib[i]? = t.at? ((S j).set dim i) ∧ (fib[i]?).isSome) ∧
        g j = trf ⟨sliceDims (windowOf dim t.dims (S j)), fib⟩ := fun j => Classical.choose_spec (hch j)
  -- the generator state at step j is `S j` reversed back
  have hstate : ∀ j, (iterN (incrSkip k t.dims.reverse) j (zerosLike t.dims)).reverse = S j := by
    intro j
    have := iterSkip k t.dims.reverse hk j
    rw [zerosLike_reverse] at this
    rw [this]
  unfold Tensor.reduceDimRaw
  simp only []
  rw [iterGen_eq]
  have hall : ∀ j, j < prod (squeezeDims dim t.dims) →
      (t.sliceRaw (windowOf dim t.dims (iterN (incrSkip (t.dims.length - 1 - dim) t.dims.reverse) j (zerosLike t.dims)).reverse)).map trf
        = some (g j) := by
    intro j _
    rw [hstate j]; exact (hg j).1
  rw [allSome_range _ _ g hall]
  refine ⟨_, rfl, by simp, ?_⟩
  intro j hj
  obtain ⟨_, fib, h2, h3, h4⟩ := hg j
  exact ⟨fib, h2, h3, by simp [List.getElem?_map, List.getElem?_range hj, h4]⟩

end Qeep
