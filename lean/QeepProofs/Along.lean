import QeepProofs.Slice
/-!
# The window generator of the `…Along` reductions (`linearElemGeneratorWithReducedDim`)

`incrSkip k` is an odometer over all positions except `k`. With `insLE k` (insert a 0 at little-endian position `k`)
and `delLE k` (delete position `k`): one step of `incrSkip k` on `insLE k u` is `insLE k` of one ordinary odometer
step on `u` over the dims with position `k` deleted — position `k` is never touched.
-/
set_option linter.unusedSimpArgs false

namespace Qeep

/-- insert `v` at position `k` -/
def insLE : Nat → Nat → List Nat → List Nat
  | 0, v, l => v :: l
  | k + 1, v, x :: l => x :: insLE k v l
  | _ + 1, v, [] => [v]

/-- delete position `k` -/
def delLE : Nat → List Nat → List Nat
  | _, [] => []
  | 0, _ :: l => l
  | k + 1, x :: l => x :: delLE k l

theorem incrSkip_ins : ∀ (k : Nat) (ds u : List Nat), k < ds.length → u.length = (delLE k ds).length →
    incrSkip k ds (insLE k 0 u) = insLE k 0 (incr (delLE k ds) u)
  | _, [], _, hk, _ => by simp at hk
  | 0, d :: ds, u, _, _ => by simp [incrSkip, insLE, delLE]
  | k + 1, d :: ds, [], _, hl => by simp [delLE] at hl
  | k + 1, d :: ds, x :: u, hk, hl => by
    have hk' : k < ds.length := by simpa using hk
    have hl' : u.length = (delLE k ds).length := by simpa [delLE] using hl
    simp only [insLE, incrSkip, delLE, incr]
    split
    · simp [insLE]
    · simp [insLE, incrSkip_ins k ds u hk' hl']

theorem delLE_length : ∀ (k : Nat) (ds : List Nat), k < ds.length → (delLE k ds).length = ds.length - 1
  | _, [], hk => by simp at hk
  | 0, _ :: l, _ => by simp [delLE]
  | k + 1, x :: l, hk => by
    have hk' : k < l.length := by simpa using hk
    have := delLE_length k l hk'
    simp only [delLE, List.length_cons, this]; omega

theorem zeros_ins : ∀ (k : Nat) (ds : List Nat), k < ds.length → zerosLike ds = insLE k 0 (zerosLike (delLE k ds))
  | _, [], hk => by simp at hk
  | 0, _ :: l, _ => by simp [zerosLike, insLE, delLE]
  | k + 1, x :: l, hk => by
    have := zeros_ins k l (by simpa using hk)
    simp only [zerosLike, List.map_cons, delLE, insLE] at this ⊢
    rw [this]

theorem incr_length' : ∀ {ds st : List Nat}, st.length = ds.length → (incr ds st).length = ds.length := by
  intro ds
  induction ds with
  | nil => intro st h; cases st <;> simp_all [incr]
  | cons d ds ihd =>
    intro st h
    cases st with
    | nil => simp at h
    | cons s ss =>
      simp only [incr]
      split
      · simpa using h
      · simp [ihd (by simpa using h)]

theorem iter_incr_length (ds : List Nat) (j : Nat) : (iterN (incr ds) j (zerosLike ds)).length = ds.length := by
  induction j with
  | zero => simp [iterN, zerosLike]
  | succ j ih => rw [iterN_succ']; exact incr_length' ih

/-- the generator state after `j` calls -/
theorem iterSkip (k : Nat) (ds : List Nat) (hk : k < ds.length) (j : Nat) :
    iterN (incrSkip k ds) j (zerosLike ds) = insLE k 0 (iterN (incr (delLE k ds)) j (zerosLike (delLE k ds))) := by
  induction j with
  | zero => simp only [iterN]; exact zeros_ins k ds hk
  | succ j ih =>
    rw [iterN_succ', iterN_succ', ih]
    exact incrSkip_ins k ds _ hk (iter_incr_length _ _)

end Qeep
