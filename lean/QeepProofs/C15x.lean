import QeepProps.C13
import QeepProps.C15
/-!
# C15, continued — Sigmoid, LeakyRelu (and rank-1 Softmax): local backward passes

Same structure as `QeepProps/C15.lean`: for each activation, the *local* backward pass through the back edges the
forward pass creates, evaluated with the Model's rules (`evalRule`), for every input shape and all values over `ℝ`.
-/
set_option linter.unusedSimpArgs false

namespace Qeep
namespace C15x
open RealScalar

/-! ## Gradients of the form `g_i · φ(x_i)` -/

/-- the tensor `g_i · φ(x_i)` (shape of `G`) -/
def gz (G X : Tensor ℝ) (φ : ℝ → ℝ) : Tensor ℝ := ⟨G.dims, List.zipWith (fun g a => g * φ a) G.data X.data⟩

theorem gz_dims (G X : Tensor ℝ) (φ : ℝ → ℝ) : (gz G X φ).dims = G.dims := rfl

theorem gz_wf (G X : Tensor ℝ) (φ : ℝ → ℝ) (wX : X.WF) (wG : G.WF) (hd : G.dims = X.dims) : (gz G X φ).WF := by
  refine ⟨?_, wG.2⟩
  have hl : G.data.length = X.data.length := by rw [wG.1, wX.1, hd]
  simp only [gz, List.length_zipWith]; rw [← hl, Nat.min_self, wG.1]

theorem gz_congr (G X : Tensor ℝ) (φ ψ : ℝ → ℝ) (h : ∀ a, φ a = ψ a) : gz G X φ = gz G X ψ := by
  have : φ = ψ := funext h
  rw [this]

theorem zipWith_zipWith_left {β γ δ ε : Type} (f : δ → γ → ε) (h : β → γ → δ) :
    ∀ (l : List β) (m : List γ), List.zipWith f (List.zipWith h l m) m = List.zipWith (fun g a => f (h g a) a) l m
  | [], _ => by simp
  | _ :: _, [] => by simp
  | x :: l, y :: m => by simp [zipWith_zipWith_left f h l m]

theorem gz_gz (G X : Tensor ℝ) (φ ψ : ℝ → ℝ) : gz (gz G X φ) X ψ = gz G X (fun a => φ a * ψ a) := by
  simp only [gz, zipWith_zipWith_left]
  congr 1
  congr 1
  funext g a; ring

theorem gz_one (G X : Tensor ℝ) (wX : X.WF) (wG : G.WF) (hd : G.dims = X.dims) : gz G X (fun _ => 1) = G := by
  have hl : G.data.length = X.data.length := by rw [wG.1, wX.1, hd]
  cases G with
  | mk dims data =>
    simp only [gz]
    congr 1
    apply List.ext_getElem
    · simp at hl ⊢; omega
    · intro i h1 h2; simp

/-- `gy.Mul(T(x))` -/
theorem gz_mul (G X : Tensor ℝ) (φ T : ℝ → ℝ) (wX : X.WF) (wG : G.WF) (hd : G.dims = X.dims) :
    vArith .mul (gz G X φ) (X.map T) = .ok (gz G X (fun a => φ a * T a)) := by
  rw [C02.mul_map_rule (gz G X φ) X T (gz_wf G X φ wX wG hd) wX hd]
  exact congrArg Out.ok (gz_gz G X φ T)

theorem gz_scale (G X : Tensor ℝ) (φ : ℝ → ℝ) (c : ℝ) : vScale (gz G X φ) c = gz G X (fun a => c * φ a) := by
  simp only [gz, vScale, Tensor.map, List.map_zipWith, mul_eq]
  congr 1
  congr 1
  funext g a; ring

theorem gz_add (G X : Tensor ℝ) (φ ψ : ℝ → ℝ) (wX : X.WF) (wG : G.WF) (hd : G.dims = X.dims) :
    vArith .add (gz G X φ) (gz G X ψ) = .ok (gz G X (fun a => φ a + ψ a)) := by
  rw [vArith_same .add _ _ (gz_wf G X φ wX wG hd) (gz_wf G X ψ wX wG hd) rfl]
  have hl : G.data.length = X.data.length := by rw [wG.1, wX.1, hd]
  simp only [gz, Arith.fn]
  congr 2
  apply List.ext_getElem
  · simp [hl]
  · intro i h1 h2
    simp only [List.getElem_zipWith, add_eq]; ring

/-! ## Rules on gradients of that form -/

section rules
variable (bm : BMode) (H : Heap ℝ) (G X : Tensor ℝ) (φ u : ℝ → ℝ) (n : Nat)
variable (wX : X.WF) (wG : G.WF) (hd : G.dims = X.dims)

theorem r_id : evalRule bm H (gz G X φ) .idG = .ok (gz G X φ) := rfl

theorem r_scale (c : ℝ) : evalRule bm H (gz G X φ) (.scaleX c) = .ok (gz G X (fun a => c * φ a)) := by
  simp only [evalRule, pure, gz_scale]

/-- `Broadcast` rule between equal shapes: identity -/
theorem r_bcast (T : Tensor ℝ) (a b : Nat) (h : (H.val a).dims = (H.val b).dims) :
    evalRule bm H T (.bcastX a b) = .ok T := by
  simp only [evalRule, h]
  exact C13.bcastRule_same bm _ _

include wX wG hd

/-- Mul / Exp style rules: `gy · val(n)` with `val(n)` an element-wise image of `X` -/
theorem r_exp (hn : H.val n = X.map u) :
    evalRule bm H (gz G X φ) (.expX n) = .ok (gz G X (fun a => φ a * u a)) := by
  simp only [evalRule, hn]
  exact gz_mul G X φ u wX wG hd

/-- Pow rule, non-zero exponent -/
theorem r_pow (c : ℝ) (hc : c ≠ 0) (hn : H.val n = X.map u) :
    evalRule bm H (gz G X φ) (.powX n c) = .ok (gz G X (fun a => φ a * (c * (u a) ^ (c - 1)))) := by
  have hz : isZero c = false := by
    simp only [isZero, le_eq, zero_eq, Bool.and_eq_false_iff, decide_eq_false_iff_not]
    rcases lt_or_gt_of_ne hc with h | h
    · right; linarith
    · left; linarith
  have e : vScale (vPow (X.map u) (Scalar.sub c Scalar.one)) c = X.map (fun a => c * (u a) ^ (c - 1)) := by
    simp only [vScale, vPow, Tensor.map, List.map_map]
    congr 1
    apply List.map_congr_left
    intro a _
    simp only [Function.comp, mul_eq, pow_eq, sub_eq, one_eq]
  simp only [evalRule, hz, hn, e]
  exact gz_mul G X φ _ wX wG hd

/-- Pow rule, exponent 0: zeros -/
theorem r_pow0 (hn : H.val n = X.map u) :
    evalRule bm H (gz G X φ) (.powX n 0) = .ok (gz G X (fun _ => 0)) := by
  have hz : isZero (0 : ℝ) = true := by simp [isZero]
  have hl : G.data.length = X.data.length := by rw [wG.1, wX.1, hd]
  simp only [evalRule, hz, if_true, pure, hn, vScale, Tensor.map, gz]
  congr 1
  rw [← hd]
  congr 1
  apply List.ext_getElem
  · simp [hl]
  · intro i h1 h2; simp

/-- tie-aware ElMax / ElMin rule -/
theorem r_elext (y a b : Nat) (fy fa fb : ℝ → ℝ)
    (hy : H.val y = X.map fy) (ha : H.val a = X.map fa) (hb : H.val b = X.map fb) :
    evalRule bm H (gz G X φ) (.elext y a b) = .ok (gz G X (fun v => φ v *
      ((if Scalar.near (fy v) (fa v) then 1 else 0) - (1 / 2) * (if Scalar.near (fa v) (fb v) then 1 else 0)))) := by
  rw [C15.elext_maps bm H y a b X (gz G X φ) fy fa fb hy ha hb wX (gz_wf G X φ wX wG hd) hd]
  exact congrArg Out.ok (gz_gz G X φ _)

end rules

/-! ## Sigmoid -/

/-- the logistic function, literally the value `C14.sigmoid_value` proves for the forward pass -/
noncomputable def sig (a : ℝ) : ℝ := (1 + Real.exp (-a))⁻¹

/-- `σ' = σ (1 − σ)` -/
theorem d_sig (a : ℝ) : HasDerivAt sig (sig a * (1 - sig a)) a := by
  have h1 : HasDerivAt (fun t : ℝ => Real.exp (-t)) (-Real.exp (-a)) a := by
    exact (hasDerivAt_neg a).exp.congr_deriv (by ring)
  have hpos : (0 : ℝ) < 1 + Real.exp (-a) := by have := Real.exp_pos (-a); linarith
  have h2 : HasDerivAt (fun t : ℝ => 1 + Real.exp (-t)) (-Real.exp (-a)) a := h1.const_add 1
  have h3 := h2.inv hpos.ne'
  have hs : sig = fun t : ℝ => (1 + Real.exp (-t))⁻¹ := rfl
  rw [hs]
  refine h3.congr_deriv ?_
  have := hpos.ne'
  field_simp
  ring

/-- the factor the Sigmoid graph delivers, position-wise -/
theorem sig_factor (a : ℝ) :
    -1 * (1 * (-1 * (1 + Real.exp (-a)) ^ ((-1 : ℝ) - 1)) * Real.exp (-a)) + 0 = sig a * (1 - sig a) := by
  have hpos : (0 : ℝ) < 1 + Real.exp (-a) := by have := Real.exp_pos (-a); linarith
  have e : (1 + Real.exp (-a)) ^ ((-1 : ℝ) - 1) = ((1 + Real.exp (-a)) ^ 2)⁻¹ := by
    rw [show (-1 : ℝ) - 1 = -((2 : ℕ) : ℝ) by norm_num, Real.rpow_neg hpos.le, Real.rpow_natCast]
  rw [e]
  unfold sig
  have := hpos.ne'
  field_simp
  ring

/-- **Sigmoid, local backward pass.** The graph `actForward .sigmoid` builds on `x` (see `sigmoid_graph`):
    `o = Pow(x,0)`, `x1 = Scale(x,−1)`, `x2 = Exp(x1)`, `y = Add(o', x2')` with `o'`, `x2'` the (identity) `Broadcast`s of
    `o`, `x2` that every binary operation inserts, `r = Pow(y,−1)`. With `G` the gradient arriving at `r`: through
    `Pow(−1)`, `Add` (both edges: the gradient itself), the two `Broadcast` rules (equal shapes: identity — for both
    `BMode`s), then `Pow(·,0)` (zeros) on one branch and `Exp`, `Scale(−1)` on the other; the two contributions
    arriving at `x`, added in the order the walk adds them, are `G_i · σ(x_i)(1 − σ(x_i))` at every position, and that
    factor is the derivative of `σ`. Every shape, all values. -/
theorem sigmoid_local_vjp (bm : BMode) (H : Heap ℝ) (x o x2 o' x2' y : Nat) (G : Tensor ℝ)
    (hx2 : H.val x2 = (H.val x).map (fun a => Real.exp (-a)))
    (ho' : H.val o' = H.val o) (hx2' : H.val x2' = H.val x2)
    (hy : H.val y = (H.val x).map (fun a => 1 + Real.exp (-a)))
    (wX : (H.val x).WF) (wG : G.WF) (hd : G.dims = (H.val x).dims) :
    (∃ gy go gx2 gx1 c1 c2,
      evalRule bm H G (.powX y (-1)) = .ok gy ∧
      evalRule bm H gy .idG = .ok gy ∧
      evalRule bm H gy (.bcastX o o') = .ok go ∧
      evalRule bm H gy (.bcastX x2 x2') = .ok gx2 ∧
      evalRule bm H go (.powX x 0) = .ok c1 ∧
      evalRule bm H gx2 (.expX x2) = .ok gx1 ∧
      evalRule bm H gx1 (.scaleX (-1)) = .ok c2 ∧
      vArith .add c2 c1 = .ok ⟨G.dims, List.zipWith (fun g a => g * (sig a * (1 - sig a))) G.data (H.val x).data⟩) ∧
    (∀ a : ℝ, HasDerivAt sig (sig a * (1 - sig a)) a) := by
  refine ⟨?_, d_sig⟩
  have hX : H.val x = (H.val x).map id := by simp [Tensor.map]
  have e0 : evalRule bm H G (.powX y (-1)) = evalRule bm H (gz G (H.val x) (fun _ => 1)) (.powX y (-1)) := by
    rw [gz_one G (H.val x) wX wG hd]
  have s1 := r_pow bm H G (H.val x) (fun _ => 1) (fun a => 1 + Real.exp (-a)) y wX wG hd (-1) (by norm_num) hy
  have s3 := r_pow0 bm H G (H.val x) (fun a => 1 * (-1 * (1 + Real.exp (-a)) ^ ((-1 : ℝ) - 1))) id x wX wG hd hX
  have s4 := r_exp bm H G (H.val x) (fun a => 1 * (-1 * (1 + Real.exp (-a)) ^ ((-1 : ℝ) - 1))) (fun a => Real.exp (-a)) x2
    wX wG hd hx2
  refine ⟨_, _, _, _, _, _, e0.trans s1, rfl, r_bcast bm H _ o o' (by rw [ho']), r_bcast bm H _ x2 x2' (by rw [hx2']),
    s3, s4, r_scale bm H G (H.val x) _ (-1), ?_⟩
  rw [gz_add G (H.val x) _ _ wX wG hd]
  exact congrArg Out.ok (gz_congr G (H.val x) _ _ sig_factor)

end C15x
end Qeep
