import QeepProofs.Index
/-!
# The `transposeElemGenerator` carry loop

On little-endian lists the Go loop visits positions 1, 0, 2, 3, … (`incrT`). Swapping the first two entries
turns it into the ordinary odometer on the swapped dims: the generator enumerates the source indices in the
row-major order of the TRANSPOSED shape.
-/
set_option linter.unusedSimpArgs false

namespace Qeep

/-- swap the first two entries (last two dimensions, little-endian) -/
def swap2 : List Nat → List Nat
  | a :: b :: rest => b :: a :: rest
  | l => l

theorem swap2_swap2 (l : List Nat) : swap2 (swap2 l) = l := by
  match l with
  | [] => rfl
  | [_] => rfl
  | _ :: _ :: _ => rfl

theorem swap2_length (l : List Nat) : (swap2 l).length = l.length := by
  match l with
  | [] => rfl
  | [_] => rfl
  | _ :: _ :: _ => rfl

/-- one generator step = one odometer step on the swapped lists -/
theorem incrT_swap (d0 d1 : Nat) (ds : List Nat) (s0 s1 : Nat) (ss : List Nat) :
    swap2 (incrT (d0 :: d1 :: ds) (s0 :: s1 :: ss)) = incr (d1 :: d0 :: ds) (s1 :: s0 :: ss) := by
  simp only [incrT, incr]
  by_cases h1 : s1 + 1 < d1
  · simp [h1, swap2]
  · by_cases h0 : s0 + 1 < d0
    · simp [h1, h0, swap2]
    · simp [h1, h0, swap2]

theorem incrT_shape (d0 d1 : Nat) (ds : List Nat) (s0 s1 : Nat) (ss : List Nat) :
    ∃ a b r, incrT (d0 :: d1 :: ds) (s0 :: s1 :: ss) = a :: b :: r := by
  simp only [incrT]
  split
  · exact ⟨_, _, _, rfl⟩
  · split <;> exact ⟨_, _, _, rfl⟩

/-- after `k` generator calls, the swapped state is the `k`-th index of the transposed shape -/
theorem iterT_swap (d0 d1 : Nat) (ds : List Nat) (k : Nat) :
    ∃ a b r, iterN (incrT (d0 :: d1 :: ds)) k (zerosLike (d0 :: d1 :: ds)) = a :: b :: r ∧
      b :: a :: r = iterN (incr (d1 :: d0 :: ds)) k (zerosLike (d1 :: d0 :: ds)) := by
  induction k with
  | zero => exact ⟨0, 0, zerosLike ds, by simp [iterN, zerosLike], by simp [iterN, zerosLike]⟩
  | succ k ih =>
    obtain ⟨a, b, r, h1, h2⟩ := ih
    rw [iterN_succ', iterN_succ', h1, ← h2]
    obtain ⟨a', b', r', h3⟩ := incrT_shape d0 d1 ds a b r
    refine ⟨a', b', r', h3, ?_⟩
    have := incrT_swap d0 d1 ds a b r
    rw [h3] at this
    simpa [swap2] using this

theorem valid_swap {d0 d1 : Nat} {ds : List Nat} {a b : Nat} {r : List Nat}
    (h : Valid (d1 :: d0 :: ds) (b :: a :: r)) : Valid (d0 :: d1 :: ds) (a :: b :: r) := by
  cases h with
  | cons hb h' => cases h' with
    | cons ha h'' => exact .cons ha (.cons hb h'')

end Qeep
