import Mathlib.Analysis.SpecialFunctions.Pow.Real
import Mathlib.Analysis.SpecialFunctions.Trigonometric.Basic
import Mathlib.Analysis.SpecialFunctions.Trigonometric.Deriv
import Mathlib.Analysis.SpecialFunctions.Sqrt
import Mathlib.Analysis.SpecialFunctions.Log.Basic
import Qeep.Components
/-!
# The real-number instance of the scalar domain

What the theorems that speak about values are about: `ℝ` with Mathlib's functions. `negInf` / `posInf` have no real
counterpart: theorems about Max / Min take "the fold identity is below / above every element" as a hypothesis.
Division by zero, `log` of a non-positive number etc. take Mathlib's junk values here; theorems that need
definedness state the domain explicitly.
-/

namespace Qeep

noncomputable instance : Scalar ℝ where
  add := (· + ·)
  sub := (· - ·)
  mul := (· * ·)
  div := (· / ·)
  lt a b := decide (a < b)
  le a b := decide (a ≤ b)
  pow := Real.rpow
  exp := Real.exp
  log := Real.log
  sin := Real.sin
  cos := Real.cos
  tan := Real.tan
  sinh := Real.sinh
  cosh := Real.cosh
  tanh := Real.tanh
  sqrt := Real.sqrt
  abs := fun x => |x|
  max := max
  min := min
  ofNat n := (n : ℝ)
  ofSci m e := (m : ℝ) / (10 : ℝ) ^ e
  neg x := -x
  negInf := 0
  posInf := 0
  toNat x := ⌊x⌋₊

namespace RealScalar
open Scalar

@[simp] theorem add_eq (a b : ℝ) : Scalar.add a b = a + b := rfl
@[simp] theorem sub_eq (a b : ℝ) : Scalar.sub a b = a - b := rfl
@[simp] theorem mul_eq (a b : ℝ) : Scalar.mul a b = a * b := rfl
@[simp] theorem div_eq (a b : ℝ) : Scalar.div a b = a / b := rfl
@[simp] theorem neg_eq (a : ℝ) : Scalar.neg a = -a := rfl
@[simp] theorem ofNat_eq (n : ℕ) : (Scalar.ofNat n : ℝ) = (n : ℝ) := rfl
@[simp] theorem zero_eq : (Scalar.zero : ℝ) = 0 := by simp [Scalar.zero]
@[simp] theorem one_eq : (Scalar.one : ℝ) = 1 := by simp [Scalar.one]
@[simp] theorem two_eq : (Scalar.two : ℝ) = 2 := by simp [Scalar.two]
@[simp] theorem max_eq (a b : ℝ) : Scalar.max a b = Max.max a b := rfl
@[simp] theorem min_eq (a b : ℝ) : Scalar.min a b = Min.min a b := rfl
@[simp] theorem exp_eq (a : ℝ) : Scalar.exp a = Real.exp a := rfl
@[simp] theorem log_eq (a : ℝ) : Scalar.log a = Real.log a := rfl
@[simp] theorem tanh_eq (a : ℝ) : Scalar.tanh a = Real.tanh a := rfl
@[simp] theorem pow_eq (a b : ℝ) : Scalar.pow a b = a ^ b := rfl
@[simp] theorem sin_eq (a : ℝ) : Scalar.sin a = Real.sin a := rfl
@[simp] theorem cos_eq (a : ℝ) : Scalar.cos a = Real.cos a := rfl
@[simp] theorem tan_eq (a : ℝ) : Scalar.tan a = Real.tan a := rfl
@[simp] theorem sinh_eq (a : ℝ) : Scalar.sinh a = Real.sinh a := rfl
@[simp] theorem cosh_eq (a : ℝ) : Scalar.cosh a = Real.cosh a := rfl
@[simp] theorem sqrt_eq (a : ℝ) : Scalar.sqrt a = Real.sqrt a := rfl
@[simp] theorem sin_fn : (Scalar.sin : ℝ → ℝ) = Real.sin := rfl
@[simp] theorem cos_fn : (Scalar.cos : ℝ → ℝ) = Real.cos := rfl
@[simp] theorem sinh_fn : (Scalar.sinh : ℝ → ℝ) = Real.sinh := rfl
@[simp] theorem cosh_fn : (Scalar.cosh : ℝ → ℝ) = Real.cosh := rfl
@[simp] theorem exp_fn : (Scalar.exp : ℝ → ℝ) = Real.exp := rfl
@[simp] theorem tanh_fn : (Scalar.tanh : ℝ → ℝ) = Real.tanh := rfl
@[simp] theorem mul_fn : (Scalar.mul : ℝ → ℝ → ℝ) = fun a b => a * b := rfl
@[simp] theorem div_fn : (Scalar.div : ℝ → ℝ → ℝ) = fun a b => a / b := rfl
@[simp] theorem add_fn : (Scalar.add : ℝ → ℝ → ℝ) = fun a b => a + b := rfl
@[simp] theorem sub_fn : (Scalar.sub : ℝ → ℝ → ℝ) = fun a b => a - b := rfl
@[simp] theorem lt_eq (a b : ℝ) : Scalar.lt a b = decide (a < b) := rfl
@[simp] theorem le_eq (a b : ℝ) : Scalar.le a b = decide (a ≤ b) := rfl
theorem half_eq : (Scalar.half : ℝ) = 1 / 2 := by simp [Scalar.half, Scalar.ofSci]; norm_num
theorem eps_eq : (Scalar.eps : ℝ) = 1 / 10 ^ 12 := by simp [Scalar.eps, Scalar.ofSci]

end RealScalar
end Qeep
