import QeepProofs.Heap
/-!
# Value semantics of the heap operations

Each public operation on the heap computes the value-level function (`Qeep.Forward`) of its operands' values and
stores it in a freshly allocated node; `*_val` lemmas expose exactly that, so that component theorems can be
stated on values.
-/
set_option linter.unusedSimpArgs false
set_option linter.unusedSectionVars false

namespace Qeep
variable {α : Type} [Scalar α]

theorem bind_ok {β γ : Type} {m : HM α β} {f : β → HM α γ} {H H' : Heap α} {r : γ}
    (h : (m >>= f) H = .ok (r, H')) : ∃ a H1, m H = .ok (a, H1) ∧ f a H1 = .ok (r, H') := by
  have e : (m >>= f) H = (m H).bind (fun p => f p.1 p.2) := rfl
  rw [e] at h
  cases hm : m H with
  | ok p => rw [hm] at h; exact ⟨p.1, p.2, rfl, h⟩
  | err => rw [hm] at h; simp [Out.bind] at h
  | panic => rw [hm] at h; simp [Out.bind] at h

theorem getHeap_ok {H H' : Heap α} {r : Heap α} (h : (getHeap : HM α (Heap α)) H = .ok (r, H')) : r = H ∧ H' = H := by
  simp [getHeap] at h; exact ⟨h.1.symm, h.2.symm⟩

theorem liftOut_ok {β : Type} {o : Out β} {H H' : Heap α} {r : β} (h : (liftOut o : HM α β) H = .ok (r, H')) :
    o = .ok r ∧ H' = H := by
  cases o with
  | ok v => simp [liftOut, Out.bind] at h; exact ⟨by rw [h.1], h.2.symm⟩
  | err => simp [liftOut, Out.bind] at h
  | panic => simp [liftOut, Out.bind] at h

theorem alloc_ok {v : Tensor α} {c : Ctx α} {H H' : Heap α} {r : Nat} (h : alloc v c H = .ok (r, H')) :
    r = H.size ∧ H'.val r = v ∧ H'.ctx r = c ∧ Extends H H' := by
  have hf := frame_alloc v c H r H' h
  simp only [alloc] at h
  cases h
  exact ⟨rfl, by simp [Heap.val], by simp [Heap.ctx], hf⟩

theorem alloc_grows {v : Tensor α} {c : Ctx α} {H H' : Heap α} {r : Nat} (h : alloc v c H = .ok (r, H')) :
    H'.size = H.size + 1 := by
  simp only [alloc] at h; cases h; simp

/-- one-operand operations -/
theorem hOp1_val {x : Nat} {v : Out (Tensor α)} {rule : Nat → Rule α} {H H' : Heap α} {r : Nat}
    (h : hOp1 x v rule H = .ok (r, H')) : v = .ok (H'.val r) ∧ r = H.size ∧ Extends H H' := by
  unfold hOp1 at h
  obtain ⟨t, H1, h1, h2⟩ := bind_ok h
  obtain ⟨e1, rfl⟩ := liftOut_ok h1
  obtain ⟨H0, H2, h3, h4⟩ := bind_ok h2
  obtain ⟨rfl, rfl⟩ := getHeap_ok h3
  obtain ⟨a, b, _, d⟩ := alloc_ok h4
  exact ⟨by rw [e1, b], a, d⟩

theorem hScale_val {x : Nat} {a : α} {H H' : Heap α} {r : Nat} (h : hScale x a H = .ok (r, H')) :
    H'.val r = vScale (H.val x) a ∧ r = H.size ∧ Extends H H' := by
  unfold hScale at h
  obtain ⟨H0, H1, h1, h2⟩ := bind_ok h
  obtain ⟨rfl, rfl⟩ := getHeap_ok h1
  obtain ⟨e, a', b⟩ := hOp1_val h2
  exact ⟨by injection e with e; exact e.symm, a', b⟩

theorem hPow_val {x : Nat} {a : α} {H H' : Heap α} {r : Nat} (h : hPow x a H = .ok (r, H')) :
    H'.val r = vPow (H.val x) a ∧ r = H.size ∧ Extends H H' := by
  unfold hPow at h
  obtain ⟨H0, H1, h1, h2⟩ := bind_ok h
  obtain ⟨rfl, rfl⟩ := getHeap_ok h1
  obtain ⟨e, a', b⟩ := hOp1_val h2
  exact ⟨by injection e with e; exact e.symm, a', b⟩

theorem hUnary_val {f : Unary} {x : Nat} {H H' : Heap α} {r : Nat} (h : hUnary f x H = .ok (r, H')) :
    H'.val r = vUnary f (H.val x) ∧ r = H.size ∧ Extends H H' := by
  unfold hUnary at h
  obtain ⟨H0, H1, h1, h2⟩ := bind_ok h
  obtain ⟨rfl, rfl⟩ := getHeap_ok h1
  obtain ⟨e, a', b⟩ := hOp1_val h2
  exact ⟨by injection e with e; exact e.symm, a', b⟩

theorem hAlong_val {rd : Reducer} {x : Nat} {d : Int} {H H' : Heap α} {r : Nat} (h : hAlong rd x d H = .ok (r, H')) :
    vAlong rd (H.val x) d = .ok (H'.val r) ∧ r = H.size ∧ Extends H H' := by
  unfold hAlong at h
  obtain ⟨H0, H1, h1, h2⟩ := bind_ok h
  obtain ⟨rfl, rfl⟩ := getHeap_ok h1
  exact hOp1_val h2

theorem hUnSqueeze_val {x : Nat} {d : Int} {H H' : Heap α} {r : Nat} (h : hUnSqueeze x d H = .ok (r, H')) :
    vUnSqueeze (H.val x) d = .ok (H'.val r) ∧ r = H.size ∧ Extends H H' := by
  unfold hUnSqueeze at h
  obtain ⟨H0, H1, h1, h2⟩ := bind_ok h
  obtain ⟨rfl, rfl⟩ := getHeap_ok h1
  exact hOp1_val h2

theorem hOp1_size {x : Nat} {v : Out (Tensor α)} {rule : Nat → Rule α} {H H' : Heap α} {r : Nat}
    (h : hOp1 x v rule H = .ok (r, H')) : r < H'.size := by
  unfold hOp1 at h
  obtain ⟨t, H1, h1, h2⟩ := bind_ok h
  obtain ⟨e1, rfl⟩ := liftOut_ok h1
  obtain ⟨H0, H2, h3, h4⟩ := bind_ok h2
  obtain ⟨rfl, rfl⟩ := getHeap_ok h3
  have := alloc_grows h4
  obtain ⟨a, _, _, _⟩ := alloc_ok h4
  omega

theorem alloc_size_lt {x : Nat} {s : List Int} {H H' : Heap α} {r : Nat} (h : hBroadcast x s H = .ok (r, H')) : r < H'.size := by
  unfold hBroadcast at h
  obtain ⟨H0, H1, h1, h2⟩ := bind_ok h
  obtain ⟨rfl, rfl⟩ := getHeap_ok h1
  exact hOp1_size h2

theorem hBroadcast_val {x : Nat} {s : List Int} {H H' : Heap α} {r : Nat} (h : hBroadcast x s H = .ok (r, H')) :
    vBroadcast (H.val x) s = .ok (H'.val r) ∧ r = H.size ∧ Extends H H' := by
  unfold hBroadcast at h
  obtain ⟨H0, H1, h1, h2⟩ := bind_ok h
  obtain ⟨rfl, rfl⟩ := getHeap_ok h1
  exact hOp1_val h2

theorem hCmp_val {c : Cmp} {a b : Nat} {H H' : Heap α} {r : Nat} (h : hCmp c a b H = .ok (r, H')) :
    vCmp c (H.val a) (H.val b) = .ok (H'.val r) ∧ r = H.size ∧ Extends H H' := by
  unfold hCmp at h
  obtain ⟨H0, H1, h1, h2⟩ := bind_ok h
  obtain ⟨rfl, rfl⟩ := getHeap_ok h1
  obtain ⟨t, H2, h3, h4⟩ := bind_ok h2
  obtain ⟨e, rfl⟩ := liftOut_ok h3
  cases c <;> (obtain ⟨p, q, _, s⟩ := alloc_ok h4; exact ⟨by rw [e, q], p, s⟩)

theorem hBroadcastPair_val {a b : Nat} {H H' : Heap α} {a' b' : Nat} (ha : a < H.size) (hb : b < H.size)
    (h : hBroadcastPair a b H = .ok ((a', b'), H')) :
    vBroadcastPair (H.val a) (H.val b) = .ok (H'.val a', H'.val b') ∧ Extends H H' ∧ a' < H'.size ∧ b' < H'.size := by
  unfold hBroadcastPair at h
  obtain ⟨H0, H0', g0, k1⟩ := bind_ok h
  obtain ⟨e0, e0'⟩ := getHeap_ok g0
  rw [e0, e0'] at k1
  obtain ⟨a1, Ha, g1, k2⟩ := bind_ok k1
  obtain ⟨b1, Hb, g2, k3⟩ := bind_ok k2
  have hp : (pure (a1, b1) : HM α (Nat × Nat)) Hb = .ok ((a1, b1), Hb) := rfl
  rw [hp] at k3
  injection k3 with k3
  injection k3 with e1 e2
  injection e1 with ea eb
  subst ea eb e2
  obtain ⟨va, ra, xa⟩ := hBroadcast_val g1
  obtain ⟨vb, rb, xb⟩ := hBroadcast_val g2
  have hbv : Ha.val b = H.val b := xa.val hb
  have hlt : a1 < Ha.size := alloc_size_lt g1
  have ha1 : Hb.val a1 = Ha.val a1 := xb.val hlt
  refine ⟨?_, xa.trans xb, ?_, ?_⟩
  · unfold vBroadcastPair vBroadcastN
    rw [hbv] at vb
    simp only [bind, Out.bind]
    rw [va]
    simp only []
    rw [vb]
    simp only [pure, ha1]
  · exact Nat.lt_of_lt_of_le hlt xb.1
  · exact alloc_size_lt g2

/-- arithmetic with implicit broadcasting: the value is `vArith` of the operand values -/
theorem hArith_val {o : Arith} {a b : Nat} {H H' : Heap α} {r : Nat} (ha : a < H.size) (hb : b < H.size)
    (h : hArith o a b H = .ok (r, H')) :
    vArith o (H.val a) (H.val b) = .ok (H'.val r) ∧ H.size ≤ r ∧ r < H'.size ∧ Extends H H' := by
  unfold hArith at h
  obtain ⟨p, H1, h1, h2⟩ := bind_ok h
  obtain ⟨a', b'⟩ := p
  obtain ⟨vp, xp, _, _⟩ := hBroadcastPair_val ha hb h1
  obtain ⟨H3, H3', g3, k2⟩ := bind_ok h2
  obtain ⟨e3, e3'⟩ := getHeap_ok g3
  rw [e3, e3'] at k2
  obtain ⟨t, H4, g4, k3⟩ := bind_ok k2
  obtain ⟨e4, e4'⟩ := liftOut_ok g4
  rw [e4'] at k3
  obtain ⟨rr, vr, _, xr⟩ := alloc_ok k3
  refine ⟨?_, ?_, ?_, xp.trans xr⟩
  · unfold vArith
    simp only [bind, Out.bind]
    rw [vp]
    simp only []
    rw [e4, vr]
  · have := xp.1; omega
  · have := alloc_grows k3; omega

end Qeep

namespace Qeep
variable {α : Type} [Scalar α]

theorem hBroadcastPairMM_val {a b : Nat} {H H' : Heap α} {a' b' : Nat} (ha : a < H.size) (hb : b < H.size)
    (h : hBroadcastPairMM a b H = .ok ((a', b'), H')) :
    vBroadcastPairMM (H.val a) (H.val b) = .ok (H'.val a', H'.val b') ∧ Extends H H' ∧ a' < H'.size ∧ b' < H'.size := by
  unfold hBroadcastPairMM at h
  obtain ⟨H0, H0', g0, k1⟩ := bind_ok h
  obtain ⟨e0, e0'⟩ := getHeap_ok g0
  rw [e0, e0'] at k1
  obtain ⟨a1, Ha, g1, k2⟩ := bind_ok k1
  obtain ⟨b1, Hb, g2, k3⟩ := bind_ok k2
  have hp : (pure (a1, b1) : HM α (Nat × Nat)) Hb = .ok ((a1, b1), Hb) := rfl
  rw [hp] at k3
  injection k3 with k3
  injection k3 with e1 e2
  injection e1 with ea eb
  subst ea eb e2
  obtain ⟨va, ra, xa⟩ := hBroadcast_val g1
  obtain ⟨vb, rb, xb⟩ := hBroadcast_val g2
  have hbv : Ha.val b = H.val b := xa.val hb
  have hlt : a1 < Ha.size := alloc_size_lt g1
  have ha1 : Hb.val a1 = Ha.val a1 := xb.val hlt
  refine ⟨?_, xa.trans xb, ?_, ?_⟩
  · unfold vBroadcastPairMM vBroadcastN
    rw [hbv] at vb
    simp only [bind, Out.bind]
    rw [va]
    simp only []
    rw [vb]
    simp only [pure, ha1]
  · exact Nat.lt_of_lt_of_le hlt xb.1
  · exact alloc_size_lt g2

/-- MatMul with implicit batch broadcasting: the value is `vMatMul` of the operand values -/
theorem hMatMul_val {a b : Nat} {H H' : Heap α} {r : Nat} (ha : a < H.size) (hb : b < H.size)
    (h : hMatMul a b H = .ok (r, H')) :
    vMatMul (H.val a) (H.val b) = .ok (H'.val r) ∧ H.size ≤ r ∧ r < H'.size ∧ Extends H H' := by
  unfold hMatMul at h
  obtain ⟨H0, H0', g0, k1⟩ := bind_ok h
  obtain ⟨e0, e0'⟩ := getHeap_ok g0
  rw [e0, e0'] at k1
  by_cases hv : validMatMul (H.val a).dims (H.val b).dims = true
  · rw [if_pos hv] at k1
    obtain ⟨p, H1, h1, h2⟩ := bind_ok k1
    obtain ⟨a', b'⟩ := p
    obtain ⟨vp, xp, _, _⟩ := hBroadcastPairMM_val ha hb h1
    obtain ⟨H3, H3', g3, k2⟩ := bind_ok h2
    obtain ⟨e3, e3'⟩ := getHeap_ok g3
    rw [e3, e3'] at k2
    obtain ⟨t, H4, g4, k3⟩ := bind_ok k2
    obtain ⟨e4, e4'⟩ := liftOut_ok g4
    rw [e4'] at k3
    obtain ⟨rr, vr, _, xr⟩ := alloc_ok k3
    refine ⟨?_, ?_, ?_, xp.trans xr⟩
    · unfold vMatMul
      rw [if_pos hv]
      simp only [bind, Out.bind]
      rw [vp]
      simp only []
      rw [e4, vr]
    · have := xp.1; omega
    · have := alloc_grows k3; omega
  · rw [if_neg hv] at k1
    obtain ⟨e, _⟩ := liftOut_ok k1
    cases e

end Qeep
