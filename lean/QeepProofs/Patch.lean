import QeepProofs.Slice
/-!
# `copiedWithPatchOf`: the recursive patch copier
-/
set_option linter.unusedSimpArgs false

namespace Qeep
variable {α : Type}

/-- build the list of rows from a row-wise existence statement -/
theorem rows_build {β : Type} (n sz : Nat) (f : Nat → Option (List β)) (P : Nat → List β → Prop)
    (h : ∀ j, j < n → ∃ r, f j = some r ∧ r.length = sz ∧ P j r) :
    ∃ rows : List (List β), rows.length = n ∧ (List.range n).map f = rows.map some ∧
      (∀ b ∈ rows, b.length = sz) ∧ ∀ j, j < n → P j rows[j]! := by
  induction n with
  | zero => exact ⟨[], rfl, rfl, by simp, by intro j hj; omega⟩
  | succ n ih =>
    obtain ⟨rows, h1, h2, h3, h4⟩ := ih (fun j hj => h j (by omega))
    obtain ⟨r, e1, e2, e3⟩ := h n (by omega)
    refine ⟨rows ++ [r], by simp [h1], ?_, ?_, ?_⟩
    · rw [List.range_succ, List.map_append, h2]; simp [e1]
    · intro b hb
      rcases List.mem_append.mp hb with hb | hb
      · exact h3 b hb
      · simp at hb; rw [hb]; exact e2
    · intro j hj
      by_cases hin : j < n
      · have : (rows ++ [r])[j]! = rows[j]! := by
          simp [List.getElem!_eq_getElem?_getD, List.getElem?_append_left (by omega : j < rows.length)]
        rw [this]; exact h4 j hin
      · have hj' : j = n := by omega
        subst hj'
        have : (rows ++ [r])[j]! = r := by
          simp [List.getElem!_eq_getElem?_getD, List.getElem?_append_right (by omega : rows.length ≤ j), h1]
        rw [this]; exact e3

theorem flatten_length_const {β : Type} (rows : List (List β)) (sz : Nat) (h : ∀ b ∈ rows, b.length = sz) :
    rows.flatten.length = rows.length * sz := by
  rw [List.length_flatten]
  have : rows.map List.length = List.replicate rows.length sz := by
    apply List.ext_getElem
    · simp
    · intro i hi1 hi2
      simp only [List.getElem_map, List.getElem_replicate]
      exact h _ (List.getElem_mem _)
  rw [this, List.sum_replicate_nat]

/-- the source block fits into the target at the indexed position -/
inductive FitsP : List (Nat × Nat) → List Nat → List Nat → Prop
  | nil : FitsP [] [] []
  | cons {f t idx sd sds dd dds} : f + sd ≤ dd → FitsP idx sds dds → FitsP ((f, t) :: idx) (sd :: sds) (dd :: dds)

/-- target index `js` lies inside the written block -/
def insideP : List (Nat × Nat) → List Nat → List Nat → Bool
  | (f, _) :: idx, sd :: sds, j :: js => decide (f ≤ j ∧ j < f + sd) && insideP idx sds js
  | _, _, _ => true

/-- the source index of target index `js` -/
def unshiftP : List (Nat × Nat) → List Nat → List Nat
  | (f, _) :: idx, j :: js => (j - f) :: unshiftP idx js
  | _, _ => []

theorem FitsP.lengths : ∀ {idx sds dds}, FitsP idx sds dds → sds.length = dds.length
  | _, _, _, .nil => rfl
  | _, _, _, .cons _ h => by simp [h.lengths]

theorem unshiftP_length : ∀ {idx sds dds js}, FitsP idx sds dds → Valid dds js → (unshiftP idx js).length = sds.length
  | _, _, _, _, .nil, .nil => rfl
  | _, _, _, _, .cons _ hf, .cons _ hv => by simp [unshiftP, unshiftP_length hf hv]

/-- **`copiedWithPatchOf`**: the copy succeeds, has the target's element count, holds the source element (at the
    index shifted back by `From`) inside the block and the target element everywhere else. -/
theorem patchData_get : ∀ (idx : List (Nat × Nat)) (sds dds : List Nat) (src dst : List α), FitsP idx sds dds →
    src.length = prod sds → dst.length = prod dds →
    ∃ out, patchData idx sds dds src dst = some out ∧ out.length = prod dds ∧
      ∀ js, Valid dds js →
        (⟨dds, out⟩ : Tensor α).at? js =
          if insideP idx sds js then (⟨sds, src⟩ : Tensor α).at? (unshiftP idx js) else (⟨dds, dst⟩ : Tensor α).at? js
  | [], [], [], src, dst, .nil, hs, hd => by
    simp only [prod] at hs hd
    match src, dst, hs, hd with
    | [x], [y], _, _ =>
      refine ⟨[x], rfl, by simp [prod], ?_⟩
      intro js hjs; cases hjs; simp [insideP, unshiftP]
  | (f, t) :: idx, sd :: sds, dd :: dds, src, dst, .cons hfit hrest, hs, hd => by
    simp only [prod] at hs hd
    let row : Nat → Option (List α) := fun j =>
      if f ≤ j ∧ j < f + sd then patchData idx sds dds (chunk src (prod sds) (j - f)) (chunk dst (prod dds) j)
      else some (chunk dst (prod dds) j)
    have hrow : ∀ j, j < dd → ∃ r, row j = some r ∧ r.length = prod dds ∧
        ∀ js, Valid dds js →
          (⟨dds, r⟩ : Tensor α).at? js =
            if (decide (f ≤ j ∧ j < f + sd) && insideP idx sds js) then
              (⟨sds, chunk src (prod sds) (j - f)⟩ : Tensor α).at? (unshiftP idx js)
            else (⟨dds, chunk dst (prod dds) j⟩ : Tensor α).at? js := by
      intro j hj
      have hcl : (chunk dst (prod dds) j).length = prod dds := chunk_length dst (prod dds) j dd hd hj
      by_cases hin : f ≤ j ∧ j < f + sd
      · obtain ⟨out, e1, e2, e3⟩ := patchData_get idx sds dds (chunk src (prod sds) (j - f)) (chunk dst (prod dds) j) hrest
          (chunk_length src (prod sds) (j - f) sd hs (by omega)) hcl
        refine ⟨out, by simp only [row, hin, and_self, if_true]; exact e1, e2, ?_⟩
        intro js hjs
        rw [e3 js hjs]
        simp [hin]
      · refine ⟨chunk dst (prod dds) j, by simp only [row, hin, if_false], hcl, ?_⟩
        intro js _
        simp [hin]
    obtain ⟨rows, h1, h2, h3, h4⟩ := rows_build dd (prod dds) row _ hrow
    have hpd : patchData ((f, t) :: idx) (sd :: sds) (dd :: dds) src dst = some rows.flatten := by
      simp only [patchData]
      rw [if_pos ⟨hfit, hs, hd⟩]
      have : (List.range dd).map (fun j =>
          if f ≤ j ∧ j < f + sd then patchData idx sds dds (chunk src (prod sds) (j - f)) (chunk dst (prod dds) j)
          else some (chunk dst (prod dds) j)) = rows.map some := h2
      rw [this, allSome_map_some]; rfl
    refine ⟨rows.flatten, hpd, by rw [flatten_length_const rows _ h3, h1]; simp [prod], ?_⟩
    intro js hjs
    cases hjs with
    | cons hj hv =>
      rename_i j js'
      rw [at?_cons dd dds rows.flatten j js' hj hv.length_eq]
      rw [chunk_flatten rows (prod dds) j h3 (by omega)]
      rw [h4 j hj js' hv]
      simp only [insideP, unshiftP]
      by_cases hin : f ≤ j ∧ j < f + sd
      · simp only [hin, and_self, decide_true, Bool.true_and]
        split
        · rw [at?_cons sd sds src (j - f) _ (by omega) (unshiftP_length hrest hv)]
        · rw [at?_cons dd dds dst j js' hj hv.length_eq]
      · simp only [hin, decide_false, Bool.false_and, Bool.false_eq_true, if_false]
        rw [at?_cons dd dds dst j js' hj hv.length_eq]

end Qeep
