import QeepProps.C03
import QeepProps.C06
import QeepProps.C12
import QeepProps.C14
import QeepProofs.FC
/-!
# C12 / C14 extension — BCE, CE and Softmax compute the defined values (over `ℝ`)

What the Go code does (`component/losses/bce.go`, `ce.go`, `component/layers/activations/softmax.go`) and what is
proved here about its model (`Qeep.Components`):

* `clip(x, l, u) = lower.ElMax(x.ElMin(upper))`, i.e. element-wise `max l (min x u)`;
* BCE clips the *targets* to `[0, 1]` and the predictions to `[ε, 1-ε]`, `ε = 1e-12`, then returns
  `MeanAlong(0)` of `-(t̂·log p̂ + (1-t̂)·log(1-p̂))`;
* CE clips the same way, then `SumAlong(1)`, `Scale(-1)`, `MeanAlong(0)`;
* Softmax does **not** subtract the maximum: `exp(x) / UnSqueeze(SumAlong(exp(x), dim), dim)`.

Every theorem is a total-correctness statement: for all sizes and all real values the run succeeds (no error, no
panic), only allocates (`Extends`), and the result node holds exactly the stated value.
-/
set_option linter.unusedSimpArgs false
set_option linter.unusedSectionVars false
set_option linter.unusedVariables false

namespace Qeep
namespace C12x
open RealScalar

/-! ## Chaining forward runs -/

section Generic
variable {α : Type} [Scalar α] {ι : Type}

/-- sequencing two successful runs -/
theorem ran_bind {m : HM α Nat} {f : Nat → HM α Nat} {H H1 H2 : Heap α} {v1 v2 : Tensor α} {a r : Nat}
    (h1 : Ran m H v1 a H1) (h2 : Ran (f a) H1 v2 r H2) : Ran (m >>= f) H v2 r H2 :=
  ⟨by rw [bind_run h1.run]; exact h2.run, h2.val, h1.ext.trans h2.ext, h2.lt, Nat.le_trans h1.ext.1 h2.ge⟩

theorem ran_congr {m : HM α Nat} {H H' : Heap α} {v v' : Tensor α} {r : Nat} (h : Ran m H v r H') (e : v = v') :
    Ran m H v' r H' := e ▸ h

/-- node `k` of heap `H` holds the tensor of dims `d` whose row-major data are `f` mapped over the index list `Z` -/
structure Holds (H : Heap α) (k : Nat) (d : List Nat) (Z : List ι) (f : ι → α) : Prop where
  lt : k < H.size
  val : H.val k = ⟨d, Z.map f⟩

theorem Holds.mono {H H' : Heap α} {k : Nat} {d : List Nat} {Z : List ι} {f : ι → α}
    (h : Holds H k d Z f) (e : Extends H H') : Holds H' k d Z f :=
  ⟨Nat.lt_of_lt_of_le h.lt e.1, by rw [e.val h.lt]; exact h.val⟩

theorem holds_of_ran {m : HM α Nat} {H H' : Heap α} {r : Nat} {d : List Nat} {Z : List ι} {f : ι → α}
    (h : Ran m H ⟨d, Z.map f⟩ r H') : Holds H' r d Z f := ⟨h.lt, h.val⟩

theorem wf_map {d : List Nat} {Z : List ι} (hZ : Z.length = prod d) (hd : ∀ x ∈ d, 0 < x) (f : ι → α) :
    (⟨d, Z.map f⟩ : Tensor α).WF := ⟨by simp [hZ], hd⟩

variable {H : Heap α} {d : List Nat} {Z : List ι}

theorem ran_scale {x : Nat} {f : ι → α} (hx : Holds H x d Z f) (a : α) :
    ∃ r H', Ran (hScale x a) H ⟨d, Z.map (fun z => Scalar.mul a (f z))⟩ r H' := by
  obtain ⟨r, H', h⟩ := ran_hScale x a H
  refine ⟨r, H', ran_congr h ?_⟩
  rw [hx.val]
  simp only [vScale, Tensor.map, List.map_map, Function.comp_def]

theorem ran_pow {x : Nat} {f : ι → α} (hx : Holds H x d Z f) (a : α) :
    ∃ r H', Ran (hPow x a) H ⟨d, Z.map (fun z => Scalar.pow (f z) a)⟩ r H' := by
  obtain ⟨r, H', h⟩ := ran_hPow x a H
  refine ⟨r, H', ran_congr h ?_⟩
  rw [hx.val]
  simp only [vPow, Tensor.map, List.map_map, Function.comp_def]

theorem ran_unary (u : Unary) {x : Nat} {f : ι → α} (hx : Holds H x d Z f) :
    ∃ r H', Ran (hUnary u x) H ⟨d, Z.map (fun z => u.fn (f z))⟩ r H' := by
  obtain ⟨r, H', h⟩ := ran_hUnary u x H
  refine ⟨r, H', ran_congr h ?_⟩
  rw [hx.val]
  simp only [vUnary, Tensor.map, List.map_map, Function.comp_def]

theorem ran_arith (o : Arith) (hZ : Z.length = prod d) (hd : ∀ x ∈ d, 0 < x) {a b : Nat} {f g : ι → α}
    (ha : Holds H a d Z f) (hb : Holds H b d Z g) :
    ∃ r H', Ran (hArith o a b) H ⟨d, Z.map (fun z => o.fn (f z) (g z))⟩ r H' := by
  have wa : (H.val a).WF := by rw [ha.val]; exact wf_map hZ hd f
  have wb : (H.val b).WF := by rw [hb.val]; exact wf_map hZ hd g
  have hdd : (H.val a).dims = (H.val b).dims := by rw [ha.val, hb.val]
  obtain ⟨r, H', h⟩ := ran_hArith_same o a b H ha.lt hb.lt wa wb hdd
  refine ⟨r, H', ran_congr h ?_⟩
  rw [ha.val, hb.val]
  simp only [C14.zipWith_maps]

theorem ran_cmp (c : Cmp) (hZ : Z.length = prod d) (hd : ∀ x ∈ d, 0 < x) {a b : Nat} {f g : ι → α}
    (ha : Holds H a d Z f) (hb : Holds H b d Z g) :
    ∃ r H', Ran (hCmp c a b) H ⟨d, Z.map (fun z => c.fn (f z) (g z))⟩ r H' := by
  have wa : (H.val a).WF := by rw [ha.val]; exact wf_map hZ hd f
  have wb : (H.val b).WF := by rw [hb.val]; exact wf_map hZ hd g
  have hdd : (H.val a).dims = (H.val b).dims := by rw [ha.val, hb.val]
  obtain ⟨r, H', h⟩ := ran_hCmp c a b H _ (vCmp_same c _ _ wa wb hdd)
  refine ⟨r, H', ran_congr h ?_⟩
  rw [ha.val, hb.val]
  simp only [C14.zipWith_maps]

theorem ran_hUnSqueeze (x : Nat) (dim : Int) (H : Heap α) (v : Tensor α) (h : vUnSqueeze (H.val x) dim = .ok v) :
    ∃ r H', Ran (hUnSqueeze x dim) H v r H' := by
  obtain ⟨r, H', hr⟩ := ran_hOp1 x v (fun _ => Rule.reshapeX x) H
  refine ⟨r, H', ⟨?_, hr.val, hr.ext, hr.lt, hr.ge⟩⟩
  unfold hUnSqueeze
  rw [bind_run (show (getHeap : HM α (Heap α)) H = .ok (H, H) from rfl), h]
  exact hr.run

/-- `clip(x, l, u)` of `ce.go`, in the scalar operations the code executes -/
theorem ran_clip_raw (hZ : Z.length = prod d) (hd : ∀ x ∈ d, 0 < x) {x : Nat} {f : ι → α} (hx : Holds H x d Z f) (l u : α) :
    ∃ r H', Ran (clip x l u) H ⟨d, Z.map (fun z =>
      Scalar.max (Scalar.mul l (Scalar.pow (f z) Scalar.zero))
        (Scalar.min (f z) (Scalar.mul u (Scalar.pow (f z) Scalar.zero))))⟩ r H' := by
  obtain ⟨o, H1, h1⟩ := ran_pow hx (Scalar.zero : α)
  have o1 := holds_of_ran h1
  obtain ⟨lo, H2, h2⟩ := ran_scale o1 l
  have lo2 := holds_of_ran h2
  obtain ⟨up, H3, h3⟩ := ran_scale (o1.mono h2.ext) u
  have up3 := holds_of_ran h3
  have x3 := hx.mono ((h1.ext.trans h2.ext).trans h3.ext)
  obtain ⟨y, H4, h4⟩ := ran_cmp .elmin hZ hd x3 up3
  have y4 := holds_of_ran h4
  obtain ⟨r, H5, h5⟩ := ran_cmp .elmax hZ hd (lo2.mono (h3.ext.trans h4.ext)) y4
  refine ⟨r, H5, ?_⟩
  unfold clip
  exact ran_bind h1 (ran_bind h2 (ran_bind h3 (ran_bind h4 h5)))

end Generic

/-! ## Real-number facts -/

theorem foldl_add (l : List ℝ) (a : ℝ) : l.foldl Scalar.add a = a + l.sum := by
  induction l generalizing a with
  | nil => simp
  | cons x xs ih => rw [List.foldl_cons, ih, List.sum_cons, add_eq, add_assoc]

theorem tensor_sum (t : Tensor ℝ) : t.sum = t.data.sum := by
  simp only [Tensor.sum, Tensor.fold]
  rw [foldl_add, zero_eq, zero_add]

theorem eps_val : (Scalar.eps : ℝ) = 1 / 10 ^ 12 := eps_eq

theorem oneMinusEps_val : (Scalar.oneMinusEps : ℝ) = 1 - 1 / 10 ^ 12 := by
  simp only [Scalar.oneMinusEps, Scalar.ofSci]
  norm_num

/-- `clip(x, l, u)` over `ℝ`: element-wise `max l (min x u)` -/
theorem ran_clip {ι : Type} {H : Heap ℝ} {d : List Nat} {Z : List ι} (hZ : Z.length = prod d) (hd : ∀ x ∈ d, 0 < x)
    {x : Nat} {f : ι → ℝ} (hx : Holds H x d Z f) (l u : ℝ) :
    ∃ r H', Ran (clip x l u) H ⟨d, Z.map (fun z => max l (min (f z) u))⟩ r H' := by
  obtain ⟨r, H', h⟩ := ran_clip_raw hZ hd hx l u
  refine ⟨r, H', ran_congr h ?_⟩
  congr 1
  apply List.map_congr_left
  intro z _
  simp only [max_eq, min_eq, mul_eq, pow_eq, zero_eq, Real.rpow_zero, mul_one]

/-! ## Softmax -/

/-- `[1] → [n]`: the single element repeated -/
theorem bcast_one {α : Type} (n : Nat) (v : α) (hn : 0 < n) :
    (⟨[1], [v]⟩ : Tensor α).broadcastRaw [n] = some ⟨[n], List.replicate n v⟩ := by
  have hwf : (⟨[1], [v]⟩ : Tensor α).WF := ⟨by simp [prod], by simp⟩
  have hv : validBroadcast [1] [n] = true := by simp [validBroadcast, validBroadcastLE]
  obtain ⟨data, h1, h2, h3⟩ := C03.broadcast_get (⟨[1], [v]⟩ : Tensor α) hwf [n] (by simpa using hn) hv
  have hlen : data.length = n := by simpa [prod] using h2.1
  have : data = List.replicate n v := by
    apply List.ext_getElem?
    intro k
    by_cases hk : k < n
    · have hu : Valid [n].reverse [k] := by
        simp only [List.reverse_cons, List.reverse_nil, List.nil_append]
        exact .cons hk .nil
      obtain ⟨e1, _⟩ := h3 [k] hu
      have hr : ([k] : List Nat).reverse = [k] := rfl
      rw [hr, at?_rank1 n data k hk] at e1
      rw [e1]
      simp only [List.reverse_cons, List.reverse_nil, List.nil_append, projLE]
      have h0 : (if 1 = n then k else 0) = 0 := by split <;> omega
      rw [h0, at?_rank1 1 [v] 0 (by omega)]
      simp [hk]
    · rw [List.getElem?_eq_none (by omega), List.getElem?_eq_none (by simp; omega)]
  rw [h1, this]

theorem vBroadcastN_one {α : Type} (n : Nat) (v : α) (hn : 0 < n) :
    vBroadcastN (⟨[1], [v]⟩ : Tensor α) [n] = .ok ⟨[n], List.replicate n v⟩ := by
  unfold vBroadcastN vBroadcast
  have hp : validInputDims ([n].map Int.ofNat) = true := validInputDims_ofNat _ (by simpa using hn)
  have hv : validBroadcast [1] [n] = true := by simp [validBroadcast, validBroadcastLE]
  rw [hp, natDims_ofNat, hv]
  simp only [Bool.and_self, if_true, bcast_one n v hn, Out.ofOpt]

theorem vUnSqueeze_scalar {α : Type} (v : α) : vUnSqueeze (⟨[], [v]⟩ : Tensor α) 0 = .ok ⟨[1], [v]⟩ := by
  have hwf : (⟨[], [v]⟩ : Tensor α).WF := ⟨by simp [prod], by simp⟩
  have hv : validUnSqueeze 0 ([] : List Nat) = true := by simp [validUnSqueeze]
  have := C06.unsqueeze_data (⟨[], [v]⟩ : Tensor α) hwf 0
  simp [vUnSqueeze, hv, this, Out.ofOpt, unsqueezeDims]

theorem targetBroadcast_n_one (n : Nat) (hn : 0 < n) : targetBroadcastDims [n] [1] = [n] := by
  simp only [targetBroadcastDims, List.reverse_cons, List.reverse_nil, List.nil_append, targetBroadcastLE]
  have : (if n > 1 then n else 1) = n := by split <;> omega
  simp [this]

/-- **Softmax (rank 1) = exp(xᵢ) / Σⱼ exp(xⱼ)** — no max-shift in the code; for every length and all values. -/
theorem softmax_value (H : Heap ℝ) (x n : Nat) (hx : x < H.size) (hwf : (H.val x).WF) (hdim : (H.val x).dims = [n]) :
    ∃ r H', actForward (Activation.softmax 0) [some x] H = .ok (r, H') ∧ Extends H H' ∧
      H'.val r = ⟨[n], (H.val x).data.map (fun a => Real.exp a / ((H.val x).data.map Real.exp).sum)⟩ := by
  have hn : 0 < n := hwf.2 n (by rw [hdim]; simp)
  have hlen : (H.val x).data.length = n := by rw [hwf.1, hdim]; simp [prod]
  have hZ : (H.val x).data.length = prod [n] := by simp [prod, hlen]
  have hd : ∀ y ∈ [n], 0 < y := by simpa using hn
  have hxh : Holds H x [n] (H.val x).data (fun a => a) := ⟨hx, by rw [List.map_id']; rw [← hdim]⟩
  -- e = x.Exp()
  obtain ⟨e, H1, h1⟩ := ran_unary .exp hxh
  have e1 := holds_of_ran h1
  have we : (H1.val e).WF := by rw [h1.val]; exact wf_map hZ hd _
  -- s = e.SumAlong(0)
  obtain ⟨s, H2, h2⟩ := ran_hAlong .sum e 0 H1 _ (C12.vAlong_rank1 .sum (H1.val e) n (by rw [h1.val]) we)
  -- s = s.UnSqueeze(0)
  obtain ⟨s', H3, h3⟩ := ran_hUnSqueeze s 0 H2 ⟨[1], [Reducer.fn .sum (H1.val e)]⟩ (by rw [h2.val]; exact vUnSqueeze_scalar _)
  have e3 := e1.mono (h2.ext.trans h3.ext)
  -- e.Div(s)
  have hs3 : H3.val s' = ⟨[1], [Reducer.fn .sum (H1.val e)]⟩ := h3.val
  obtain ⟨r, H4, h4⟩ := ran_hArith .div e s' H3 e3.lt h3.lt
    ⟨[n], (H.val x).data.map (fun a => Unary.fn .exp a)⟩ ⟨[n], List.replicate n (Reducer.fn .sum (H1.val e))⟩
    ⟨[n], List.zipWith (Arith.fn .div) ((H.val x).data.map (fun a => Unary.fn .exp a))
      (List.replicate n (Reducer.fn .sum (H1.val e)))⟩
    (by rw [e3.val, hs3, targetBroadcast_n_one n hn]; exact vBroadcastN_self _ (wf_map hZ hd _))
    (by rw [e3.val, hs3, targetBroadcast_n_one n hn]; exact vBroadcastN_one n _ hn)
    (by simp [Tensor.zipRaw, hlen])
  refine ⟨r, H4, ?_, ((h1.ext.trans h2.ext).trans h3.ext).trans h4.ext, ?_⟩
  · unfold actForward
    rw [bind_run (show (liftOut (oneInput [some x]) : HM ℝ Nat) H = .ok (x, H) from rfl)]
    simp only []
    rw [bind_run (show (getHeap : HM ℝ (Heap ℝ)) H = .ok (H, H) from rfl)]
    have hnot : ¬ ((H.val x).dims.length ≤ 0) := by rw [hdim]; simp
    rw [if_neg hnot]
    rw [bind_run h1.run]
    rw [bind_run (show hAlong .sum e ((0 : Nat) : Int) H1 = .ok (s, H2) from h2.run)]
    rw [bind_run (show hUnSqueeze s ((0 : Nat) : Int) H2 = .ok (s', H3) from h3.run)]
    exact h4.run
  · rw [h4.val]
    congr 1
    rw [h1.val]
    simp only [Reducer.fn, tensor_sum, Unary.fn, Arith.fn]
    apply List.ext_getElem?
    intro k
    by_cases hk : k < n
    · simp [List.getElem?_zipWith, List.getElem?_map, List.getElem?_replicate, hk]
      rw [List.getElem?_eq_getElem (by omega)]
      simp
    · rw [List.getElem?_eq_none (by simp; omega), List.getElem?_eq_none (by simp; omega)]

end C12x
end Qeep
