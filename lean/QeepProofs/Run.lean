import QeepProofs.ValueOps
/-!
# Forward "run" lemmas: success and value of each heap operation

`Ran m H v r H'` : running `m` on heap `H` succeeds with result node `r` and heap `H'`, the node holds value `v`,
the old heap is untouched (`Extends`), and `r` is a fresh node.
-/
set_option linter.unusedSimpArgs false
set_option linter.unusedSectionVars false

namespace Qeep
variable {α : Type} [Scalar α]

structure Ran (m : HM α Nat) (H : Heap α) (v : Tensor α) (r : Nat) (H' : Heap α) : Prop where
  run : m H = .ok (r, H')
  val : H'.val r = v
  ext : Extends H H'
  lt : r < H'.size
  ge : H.size ≤ r

theorem hm_bind {β γ : Type} (m : HM α β) (f : β → HM α γ) (H : Heap α) :
    (m >>= f) H = (m H).bind (fun p => f p.1 p.2) := rfl

theorem bind_run {β γ : Type} {m : HM α β} {f : β → HM α γ} {H H1 : Heap α} {a : β} (h : m H = .ok (a, H1)) :
    (m >>= f) H = f a H1 := by
  rw [hm_bind, h]; rfl

omit [Scalar α] in
theorem push_val_new (H : Heap α) (nd : Node α) : Heap.val (H.push nd) H.size = nd.val := by simp [Heap.val]

omit [Scalar α] in
theorem extends_push (H : Heap α) (nd : Node α) : Extends H (H.push nd) :=
  ⟨by simp, fun n hn => by simp [Array.getElem?_push, Nat.ne_of_lt hn]⟩

theorem ran_of_push {m : HM α Nat} {H : Heap α} {v : Tensor α} {c : Ctx α} (h : m H = .ok (H.size, H.push ⟨v, c⟩)) :
    Ran m H v H.size (H.push ⟨v, c⟩) :=
  ⟨h, push_val_new _ _, extends_push _ _, by simp, Nat.le_refl _⟩

theorem ran_hScale (x : Nat) (a : α) (H : Heap α) : ∃ r H', Ran (hScale x a) H (vScale (H.val x) a) r H' :=
  ⟨_, _, ran_of_push (c := mkCtx H [x] [⟨x, .scaleX a⟩]) (by simp [hScale, hOp1, hm_bind, getHeap, liftOut, alloc, Out.bind])⟩

theorem ran_hPow (x : Nat) (a : α) (H : Heap α) : ∃ r H', Ran (hPow x a) H (vPow (H.val x) a) r H' :=
  ⟨_, _, ran_of_push (c := mkCtx H [x] [⟨x, .powX x a⟩]) (by simp [hPow, hOp1, hm_bind, getHeap, liftOut, alloc, Out.bind])⟩

theorem ran_hUnary (f : Unary) (x : Nat) (H : Heap α) : ∃ r H', Ran (hUnary f x) H (vUnary f (H.val x)) r H' :=
  ⟨_, _, ran_of_push (c := mkCtx H [x] [⟨x, unaryRule f x H.size⟩])
    (by simp [hUnary, hOp1, hm_bind, getHeap, liftOut, alloc, Out.bind])⟩

theorem ran_hCmp (c : Cmp) (a b : Nat) (H : Heap α) (v : Tensor α) (h : vCmp c (H.val a) (H.val b) = .ok v) :
    ∃ r H', Ran (hCmp c a b) H v r H' := by
  cases c <;> exact ⟨_, _, ran_of_push (by simp [hCmp, hm_bind, getHeap, liftOut, alloc, Out.bind, h]; rfl)⟩

theorem ran_hOp1 (x : Nat) (v : Tensor α) (rule : Nat → Rule α) (H : Heap α) :
    ∃ r H', Ran (hOp1 x (.ok v) rule) H v r H' :=
  ⟨_, _, ran_of_push (c := mkCtx H [x] [⟨x, rule H.size⟩]) (by simp [hOp1, hm_bind, getHeap, liftOut, alloc, Out.bind])⟩

theorem ran_hBroadcast (x : Nat) (s : List Int) (H : Heap α) (v : Tensor α) (h : vBroadcast (H.val x) s = .ok v) :
    ∃ r H', Ran (hBroadcast x s) H v r H' := by
  obtain ⟨r, H', hr⟩ := ran_hOp1 x v (fun y => Rule.bcastX x y) H
  refine ⟨r, H', ⟨?_, hr.val, hr.ext, hr.lt, hr.ge⟩⟩
  unfold hBroadcast
  rw [bind_run (show (getHeap : HM α (Heap α)) H = .ok (H, H) from rfl), h]
  exact hr.run

theorem ran_hAlong (rd : Reducer) (x : Nat) (d : Int) (H : Heap α) (v : Tensor α) (h : vAlong rd (H.val x) d = .ok v) :
    ∃ r H', Ran (hAlong rd x d) H v r H' := by
  obtain ⟨r, H', hr⟩ := ran_hOp1 x v (fun y => alongRule rd x y d.toNat) H
  refine ⟨r, H', ⟨?_, hr.val, hr.ext, hr.lt, hr.ge⟩⟩
  unfold hAlong
  rw [bind_run (show (getHeap : HM α (Heap α)) H = .ok (H, H) from rfl), h]
  exact hr.run

/-- arithmetic: success and value from the value-level result -/
theorem ran_hArith (o : Arith) (a b : Nat) (H : Heap α) (ha : a < H.size) (hb : b < H.size)
    (va vb : Tensor α) (v : Tensor α)
    (hba : vBroadcastN (H.val a) (targetBroadcastDims (H.val a).dims (H.val b).dims) = .ok va)
    (hbb : vBroadcastN (H.val b) (targetBroadcastDims (H.val a).dims (H.val b).dims) = .ok vb)
    (hz : Tensor.zipRaw o.fn va vb = some v) :
    ∃ r H', Ran (hArith o a b) H v r H' := by
  obtain ⟨a', Ha, ra⟩ := ran_hBroadcast a ((targetBroadcastDims (H.val a).dims (H.val b).dims).map Int.ofNat) H va hba
  have hbv : Ha.val b = H.val b := ra.ext.val hb
  have hba' : Ha.val a = H.val a := ra.ext.val ha
  obtain ⟨b', Hb, rb⟩ := ran_hBroadcast b ((targetBroadcastDims (H.val a).dims (H.val b).dims).map Int.ofNat) Ha vb
    (by rw [hbv]; exact hbb)
  have hva : Hb.val a' = va := by rw [rb.ext.val ra.lt, ra.val]
  let edges : List (Edge α) := match o with
    | .add => [⟨a', .idG⟩, ⟨b', .idG⟩]
    | .sub => [⟨a', .idG⟩, ⟨b', .negG⟩]
    | .mul => [⟨a', .mulG b'⟩, ⟨b', .mulG a'⟩]
    | .div => [⟨a', .divA b'⟩, ⟨b', .divB a' b'⟩]
  refine ⟨Hb.size, Hb.push ⟨v, mkCtx Hb [a', b'] edges⟩, ⟨?_, push_val_new _ _, ?_, by simp, ?_⟩⟩
  · unfold hArith hBroadcastPair
    rw [hm_bind, hm_bind]
    rw [show (getHeap : HM α (Heap α)) H = .ok (H, H) from rfl]
    simp only [Out.bind]
    rw [hm_bind, ra.run]
    simp only [Out.bind]
    rw [hm_bind, rb.run]
    simp only [Out.bind, pure, StateT.pure]
    rw [hm_bind]
    rw [show (getHeap : HM α (Heap α)) Hb = .ok (Hb, Hb) from rfl]
    simp only [Out.bind]
    rw [hm_bind, hva, rb.val, hz]
    simp only [Out.ofOpt, liftOut, Out.bind, alloc]
    cases o <;> rfl
  · exact (ra.ext.trans rb.ext).trans (extends_push Hb _)
  · have := ra.ext.1; have := rb.ext.1; omega

/-- arithmetic on equal shapes -/
theorem ran_hArith_same (o : Arith) (a b : Nat) (H : Heap α) (ha : a < H.size) (hb : b < H.size)
    (wa : (H.val a).WF) (wb : (H.val b).WF) (hd : (H.val a).dims = (H.val b).dims) :
    ∃ r H', Ran (hArith o a b) H ⟨(H.val a).dims, List.zipWith o.fn (H.val a).data (H.val b).data⟩ r H' := by
  have hl : (H.val a).data.length = (H.val b).data.length := by rw [wa.1, wb.1, hd]
  apply ran_hArith o a b H ha hb (H.val a) (H.val b)
  · rw [← hd, targetBroadcastDims_self]; exact vBroadcastN_self _ wa
  · rw [← hd, targetBroadcastDims_self, hd]; exact vBroadcastN_self _ wb
  · simp [Tensor.zipRaw, hd, hl]

end Qeep
