import QeepProofs.Bcast
import QeepProofs.Vals
/-!
# Value-level operations on operands of equal shape

Binary arithmetic goes through `Broadcast` of both operands to the common target shape; for operands of equal
shape that is the identity, so the result is the element-wise `zipWith`.
-/
set_option linter.unusedSimpArgs false
set_option linter.unusedSectionVars false

namespace Qeep
variable {α : Type}

theorem targetBroadcastLE_self : ∀ (ds : List Nat), targetBroadcastLE ds ds = ds
  | [] => rfl
  | d :: ds => by simp [targetBroadcastLE, targetBroadcastLE_self ds]

theorem targetBroadcastDims_self (ds : List Nat) : targetBroadcastDims ds ds = ds := by
  simp [targetBroadcastDims, targetBroadcastLE_self]

theorem natDims_ofNat (ds : List Nat) : natDims (ds.map Int.ofNat) = ds := by
  induction ds with
  | nil => rfl
  | cons d ds ih => simp [natDims] at ih ⊢; exact ih

theorem validInputDims_ofNat (ds : List Nat) (h : ∀ d ∈ ds, 0 < d) : validInputDims (ds.map Int.ofNat) = true := by
  simp only [validInputDims, List.all_eq_true, List.mem_map, decide_eq_true_eq]
  rintro z ⟨d, hd, rfl⟩
  have := h d hd
  show (0 : Int) < ((d : Nat) : Int)
  omega

theorem vBroadcastN_self (t : Tensor α) (hwf : t.WF) : vBroadcastN t t.dims = .ok t := by
  unfold vBroadcastN vBroadcast
  rw [validInputDims_ofNat _ hwf.2, natDims_ofNat]
  have : validBroadcast t.dims t.dims = true := validBroadcastLE_self _
  simp [this, broadcast_self t hwf, Out.ofOpt]

section
variable [Scalar α]

/-- arithmetic on operands of equal shape is element-wise -/
theorem vArith_same (o : Arith) (a b : Tensor α) (ha : a.WF) (hb : b.WF) (hd : a.dims = b.dims) :
    vArith o a b = .ok ⟨a.dims, List.zipWith o.fn a.data b.data⟩ := by
  have hl : a.data.length = b.data.length := by rw [ha.1, hb.1, hd]
  unfold vArith vBroadcastPair
  rw [← hd, targetBroadcastDims_self]
  simp only [bind, Out.bind]
  rw [vBroadcastN_self a ha]
  simp only []
  rw [hd, vBroadcastN_self b hb]
  simp [pure, Tensor.zipRaw, hd, hl, Out.ofOpt]

theorem vCmp_same (c : Cmp) (a b : Tensor α) (ha : a.WF) (hb : b.WF) (hd : a.dims = b.dims) :
    vCmp c a b = .ok ⟨a.dims, List.zipWith c.fn a.data b.data⟩ := by
  have hl : a.data.length = b.data.length := by rw [ha.1, hb.1, hd]
  simp [vCmp, validDimsMatch, hd, Tensor.zipRaw, hl, Out.ofOpt]

theorem map_wf (f : α → α) (t : Tensor α) (h : t.WF) : (t.map f).WF := ⟨by simpa [Tensor.map] using h.1, h.2⟩

theorem zip_wf (f : α → α → α) (a b : Tensor α) (ha : a.WF) (hb : b.WF) (hd : a.dims = b.dims) :
    (⟨a.dims, List.zipWith f a.data b.data⟩ : Tensor α).WF := by
  refine ⟨?_, ha.2⟩
  simp only [List.length_zipWith]
  rw [ha.1, hb.1, hd]; simp

end
end Qeep
