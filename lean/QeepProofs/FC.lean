import QeepProps.C03
import QeepProofs.MatMul
import QeepProofs.Along
import QeepProofs.ValueOps
/-!
# The value computed by the FC layer's forward composition

`fcV W B X = ((W.UnSqueeze(1)).MatMul(X.UnSqueeze(1))).SumAlong(2).Add(B)` on values; `fcV_spec`: for `W, B : [O]`,
`X : [N, D]` the result has dims `[N, O]` and `y[b][o] = (Σ_d (0 + W[o]·x[b][d])) + B[o]` with the folds in the order
the code executes them.
-/
set_option linter.unusedSimpArgs false

namespace Qeep
variable {α : Type}

theorem at?_rank1 (n : Nat) (a : List α) (p : Nat) (hp : p < n) : (⟨[n], a⟩ : Tensor α).at? [p] = a[p]? := by
  simp [Tensor.at?, offset, hp, prod]

theorem at?_rank3 (a b c : Nat) (l : List α) (i j k : Nat) (hi : i < a) (hj : j < b) (hk : k < c) :
    (⟨[a, b, c], l⟩ : Tensor α).at? [i, j, k] = l[i * (b * c) + (j * c + k)]? := by
  simp [Tensor.at?, offset, hi, hj, hk, prod]

/-- `[O,1] → [N,O,1]`: a new leading dimension; element `[b,o,0]` is `w[o]` -/
theorem bcast_lead (N O : Nat) (w : List α) (hN : 0 < N) (hO : 0 < O) (hw : w.length = O) :
    ∃ data, (⟨[O, 1], w⟩ : Tensor α).broadcastRaw [N, O, 1] = some ⟨[N, O, 1], data⟩ ∧ data.length = N * O ∧
      ∀ b o, b < N → o < O → (⟨[N, O, 1], data⟩ : Tensor α).at? [b, o, 0] = w[o]? ∧ (w[o]?).isSome := by
  have hwf : (⟨[O, 1], w⟩ : Tensor α).WF := ⟨by simp [prod, hw], by simp; omega⟩
  have hv : validBroadcast [O, 1] [N, O, 1] = true := by simp [validBroadcast, validBroadcastLE]
  obtain ⟨data, h1, h2, h3⟩ := C03.broadcast_get (⟨[O, 1], w⟩ : Tensor α) hwf [N, O, 1] (by simp; omega) hv
  refine ⟨data, h1, by simpa [prod] using h2.1, ?_⟩
  intro b o hb ho
  have hu : Valid [N, O, 1].reverse [0, o, b] := by
    simp only [List.reverse_cons, List.reverse_nil, List.nil_append, List.cons_append]
    exact .cons (by omega) (.cons ho (.cons hb .nil))
  obtain ⟨e1, _⟩ := h3 [0, o, b] hu
  have : ([0, o, b] : List Nat).reverse = [b, o, 0] := rfl
  rw [this] at e1
  rw [e1]
  simp only [List.reverse_cons, List.reverse_nil, List.nil_append, List.cons_append, projLE, if_true]
  have h00 : (⟨[O, 1], w⟩ : Tensor α).at? [o, 0] = w[o]? := by
    simp [Tensor.at?, offset, ho, prod]
  refine ⟨h00, ?_⟩
  rw [List.getElem?_eq_getElem (by omega)]; rfl

/-- `[O] → [N,O]`: element `[b,o]` is `v[o]` -/
theorem bcast_row (N O : Nat) (v : List α) (hN : 0 < N) (hO : 0 < O) (hv : v.length = O) :
    ∃ data, (⟨[O], v⟩ : Tensor α).broadcastRaw [N, O] = some ⟨[N, O], data⟩ ∧ data.length = N * O ∧
      ∀ b o, b < N → o < O → (⟨[N, O], data⟩ : Tensor α).at? [b, o] = v[o]? ∧ (v[o]?).isSome := by
  have hwf : (⟨[O], v⟩ : Tensor α).WF := ⟨by simp [prod, hv], by simp; omega⟩
  have hvb : validBroadcast [O] [N, O] = true := by simp [validBroadcast, validBroadcastLE]
  obtain ⟨data, h1, h2, h3⟩ := C03.broadcast_get (⟨[O], v⟩ : Tensor α) hwf [N, O] (by simp; omega) hvb
  refine ⟨data, h1, by simpa [prod] using h2.1, ?_⟩
  intro b o hb ho
  have hu : Valid [N, O].reverse [o, b] := by
    simp only [List.reverse_cons, List.reverse_nil, List.nil_append, List.cons_append]
    exact .cons ho (.cons hb .nil)
  obtain ⟨e1, _⟩ := h3 [o, b] hu
  have : ([o, b] : List Nat).reverse = [b, o] := rfl
  rw [this] at e1
  rw [e1]
  simp only [List.reverse_cons, List.reverse_nil, List.nil_append, List.cons_append, projLE, if_true]
  refine ⟨at?_rank1 O v o ho, ?_⟩
  rw [List.getElem?_eq_getElem (by omega)]; rfl

/-- `SumAlong(2)` of a rank-3 tensor: `s[b][o]` is the left fold of `add` over `y[b][o][0..D-1]` -/
theorem sum_along2 [Scalar α] (N O D : Nat) (y : List α) (hN : 0 < N) (hO : 0 < O) (hD : 0 < D) (hy : y.length = N * (O * D)) :
    ∃ data, (⟨[N, O, D], y⟩ : Tensor α).reduceDimRaw 2 Tensor.sum = some ⟨[N, O], data⟩ ∧ data.length = N * O ∧
      ∀ b o, b < N → o < O → ∃ fib : List α, fib.length = D ∧
        (∀ d, d < D → fib[d]? = (⟨[N, O, D], y⟩ : Tensor α).at? [b, o, d] ∧ (fib[d]?).isSome) ∧
        (⟨[N, O], data⟩ : Tensor α).at? [b, o] = some (fib.foldl Scalar.add Scalar.zero) := by
  have hwf : (⟨[N, O, D], y⟩ : Tensor α).WF := ⟨by simp [prod, hy], by simp; omega⟩
  obtain ⟨data', h1, h2, h3⟩ := reduceDim_spec (⟨[N, O, D], y⟩ : Tensor α) hwf 2 (by simp) Tensor.sum
  have hsq : squeezeDims 2 [N, O, D] = [N, O] := rfl
  simp only [hsq] at h1 h2 h3
  refine ⟨data', h1, by simpa [prod] using h2, ?_⟩
  intro b o hb ho
  -- the output position of [b, o]
  have hpos : ∀ d ∈ [O, N], 0 < d := by simp; omega
  have hu : Valid [O, N] [o, b] := .cons ho (.cons hb .nil)
  have hj : val [O, N] [o, b] < prod [N, O] := by
    have := val_lt hu; simpa [prod, Nat.mul_comm] using this
  obtain ⟨fib, f1, f2, f3⟩ := h3 (val [O, N] [o, b]) hj
  have hdel : delLE (([N, O, D] : List Nat).length - 1 - 2) ([N, O, D] : List Nat).reverse = [O, N] := rfl
  simp only [hdel] at f2 f3
  rw [iter_val hpos hu] at f2 f3
  have hS : (insLE (([N, O, D] : List Nat).length - 1 - 2) 0 [o, b]).reverse = [b, o, 0] := rfl
  simp only [hS] at f2 f3
  have hgetD : ([N, O, D] : List Nat).getD 2 0 = D := rfl
  rw [hgetD] at f1 f2
  refine ⟨fib, f1, ?_, ?_⟩
  · intro d hd
    have := f2 d hd
    simpa using this
  · have hat : (⟨[N, O], data'⟩ : Tensor α).at? [b, o] = data'[val [O, N] [o, b]]? := by
      have := Tensor.at?_reverse (⟨[N, O], data'⟩ : Tensor α) (st := [o, b]) (by simpa using hu)
      simpa using this
    rw [hat, f3]
    simp [Tensor.sum, Tensor.fold]

end Qeep
