import QeepProps.C03
import QeepProps.C06
import QeepProofs.MatMul
import QeepProofs.Along
import QeepProofs.ValueOps
/-!
# The value computed by the FC layer's forward composition

`fcV W B X = ((W.UnSqueeze(1)).MatMul(X.UnSqueeze(1))).SumAlong(2).Add(B)` on values; `fcV_spec`: for `W, B : [O]`,
`X : [N, D]` the result has dims `[N, O]` and `y[b][o] = (Σ_d (0 + W[o]·x[b][d])) + B[o]` with the folds in the order
the code executes them.
-/
set_option linter.unusedSimpArgs false

namespace Qeep
variable {α : Type}

theorem at?_rank1 (n : Nat) (a : List α) (p : Nat) (hp : p < n) : (⟨[n], a⟩ : Tensor α).at? [p] = a[p]? := by
  simp [Tensor.at?, offset, hp, prod]

theorem at?_rank3 (a b c : Nat) (l : List α) (i j k : Nat) (hi : i < a) (hj : j < b) (hk : k < c) :
    (⟨[a, b, c], l⟩ : Tensor α).at? [i, j, k] = l[i * (b * c) + (j * c + k)]? := by
  simp [Tensor.at?, offset, hi, hj, hk, prod]

/-- `[O,1] → [N,O,1]`: a new leading dimension; element `[b,o,0]` is `w[o]` -/
theorem bcast_lead (N O : Nat) (w : List α) (hN : 0 < N) (hO : 0 < O) (hw : w.length = O) :
    ∃ data, (⟨[O, 1], w⟩ : Tensor α).broadcastRaw [N, O, 1] = some ⟨[N, O, 1], data⟩ ∧ data.length = N * O ∧
      ∀ b o, b < N → o < O → (⟨[N, O, 1], data⟩ : Tensor α).at? [b, o, 0] = w[o]? ∧ (w[o]?).isSome := by
  have hwf : (⟨[O, 1], w⟩ : Tensor α).WF := ⟨by simp [prod, hw], by simp; omega⟩
  have hv : validBroadcast [O, 1] [N, O, 1] = true := by simp [validBroadcast, validBroadcastLE]
  obtain ⟨data, h1, h2, h3⟩ := C03.broadcast_get (⟨[O, 1], w⟩ : Tensor α) hwf [N, O, 1] (by simp; omega) hv
  refine ⟨data, h1, by simpa [prod] using h2.1, ?_⟩
  intro b o hb ho
  have hu : Valid [N, O, 1].reverse [0, o, b] := by
    simp only [List.reverse_cons, List.reverse_nil, List.nil_append, List.cons_append]
    exact .cons (by omega) (.cons ho (.cons hb .nil))
  obtain ⟨e1, _⟩ := h3 [0, o, b] hu
  have : ([0, o, b] : List Nat).reverse = [b, o, 0] := rfl
  rw [this] at e1
  rw [e1]
  simp only [List.reverse_cons, List.reverse_nil, List.nil_append, List.cons_append, projLE, if_true]
  have h00 : (⟨[O, 1], w⟩ : Tensor α).at? [o, 0] = w[o]? := by
    simp [Tensor.at?, offset, ho, prod]
  refine ⟨h00, ?_⟩
  rw [List.getElem?_eq_getElem (by omega)]; rfl

/-- `[O] → [N,O]`: element `[b,o]` is `v[o]` -/
theorem bcast_row (N O : Nat) (v : List α) (hN : 0 < N) (hO : 0 < O) (hv : v.length = O) :
    ∃ data, (⟨[O], v⟩ : Tensor α).broadcastRaw [N, O] = some ⟨[N, O], data⟩ ∧ data.length = N * O ∧
      ∀ b o, b < N → o < O → (⟨[N, O], data⟩ : Tensor α).at? [b, o] = v[o]? ∧ (v[o]?).isSome := by
  have hwf : (⟨[O], v⟩ : Tensor α).WF := ⟨by simp [prod, hv], by simp; omega⟩
  have hvb : validBroadcast [O] [N, O] = true := by simp [validBroadcast, validBroadcastLE]
  obtain ⟨data, h1, h2, h3⟩ := C03.broadcast_get (⟨[O], v⟩ : Tensor α) hwf [N, O] (by simp; omega) hvb
  refine ⟨data, h1, by simpa [prod] using h2.1, ?_⟩
  intro b o hb ho
  have hu : Valid [N, O].reverse [o, b] := by
    simp only [List.reverse_cons, List.reverse_nil, List.nil_append, List.cons_append]
    exact .cons ho (.cons hb .nil)
  obtain ⟨e1, _⟩ := h3 [o, b] hu
  have : ([o, b] : List Nat).reverse = [b, o] := rfl
  rw [this] at e1
  rw [e1]
  simp only [List.reverse_cons, List.reverse_nil, List.nil_append, List.cons_append, projLE, if_true]
  refine ⟨at?_rank1 O v o ho, ?_⟩
  rw [List.getElem?_eq_getElem (by omega)]; rfl

/-- `SumAlong(2)` of a rank-3 tensor: `s[b][o]` is the left fold of `add` over `y[b][o][0..D-1]` -/
theorem sum_along2 [Scalar α] (N O D : Nat) (y : List α) (hN : 0 < N) (hO : 0 < O) (hD : 0 < D) (hy : y.length = N * (O * D)) :
    ∃ data, (⟨[N, O, D], y⟩ : Tensor α).reduceDimRaw 2 Tensor.sum = some ⟨[N, O], data⟩ ∧ data.length = N * O ∧
      ∀ b o, b < N → o < O → ∃ fib : List α, fib.length = D ∧
        (∀ d, d < D → fib[d]? = (⟨[N, O, D], y⟩ : Tensor α).at? [b, o, d] ∧ (fib[d]?).isSome) ∧
        (⟨[N, O], data⟩ : Tensor α).at? [b, o] = some (fib.foldl Scalar.add Scalar.zero) := by
  have hwf : (⟨[N, O, D], y⟩ : Tensor α).WF := ⟨by simp [prod, hy], by simp; omega⟩
  obtain ⟨data', h1, h2, h3⟩ := reduceDim_spec (⟨[N, O, D], y⟩ : Tensor α) hwf 2 (by simp) Tensor.sum
  have hsq : squeezeDims 2 [N, O, D] = [N, O] := rfl
  simp only [hsq] at h1 h2 h3
  refine ⟨data', h1, by simpa [prod] using h2, ?_⟩
  intro b o hb ho
  -- the output position of [b, o]
  have hpos : ∀ d ∈ [O, N], 0 < d := by simp; omega
  have hu : Valid [O, N] [o, b] := .cons ho (.cons hb .nil)
  have hj : val [O, N] [o, b] < prod [N, O] := by
    have := val_lt hu; simpa [prod, Nat.mul_comm] using this
  obtain ⟨fib, f1, f2, f3⟩ := h3 (val [O, N] [o, b]) hj
  have hdel : delLE (([N, O, D] : List Nat).length - 1 - 2) ([N, O, D] : List Nat).reverse = [O, N] := rfl
  simp only [hdel] at f2 f3
  rw [iter_val hpos hu] at f2 f3
  have hS : (insLE (([N, O, D] : List Nat).length - 1 - 2) 0 [o, b]).reverse = [b, o, 0] := rfl
  simp only [hS] at f2 f3
  have hgetD : ([N, O, D] : List Nat).getD 2 0 = D := rfl
  rw [hgetD] at f1 f2
  refine ⟨fib, f1, ?_, ?_⟩
  · intro d hd
    have := f2 d hd
    simpa using this
  · have hat : (⟨[N, O], data'⟩ : Tensor α).at? [b, o] = data'[val [O, N] [o, b]]? := by
      have := Tensor.at?_reverse (⟨[N, O], data'⟩ : Tensor α) (st := [o, b]) (by simpa using hu)
      simpa using this
    rw [hat, f3]
    simp [Tensor.sum, Tensor.fold]

end Qeep

namespace Qeep
variable {α : Type} [Scalar α]

/-- the FC forward composition on values -/
def fcV (W Bv X : Tensor α) : Out (Tensor α) := do
  let w1 ← vUnSqueeze W 1
  let x1 ← vUnSqueeze X 1
  let y ← vMatMul w1 x1
  let s ← vAlong .sum y 2
  vArith .add s Bv

theorem at?_rank2' (m n : Nat) (a : List α) (i p : Nat) (hi : i < m) (hp : p < n) :
    (⟨[m, n], a⟩ : Tensor α).at? [i, p] = a[i * n + p]? := by
  simp [Tensor.at?, offset, hi, hp, prod]

theorem idx2_lt {N O b o : Nat} (hb : b < N) (ho : o < O) : b * O + o < N * O := by
  calc b * O + o < b * O + O := by omega
    _ = (b + 1) * O := by rw [Nat.add_mul]; omega
    _ ≤ N * O := Nat.mul_le_mul_right _ hb

/-- **FC forward formula** (value level): `y[b][o] = (Σ_d (0 + W[o]·x[b][d])) + B[o]`, dims `[N, O]`, no error, no
    panic — for every batch size `N`, feature count `D` and output count `O` (all ≥ 1) and all values. -/
theorem fcV_spec (N D O : Nat) (w bv xd : List α) (hN : 0 < N) (hD : 0 < D) (hO : 0 < O)
    (hw : w.length = O) (hb : bv.length = O) (hx : xd.length = N * D)
    (Wf Bf : Nat → α) (Xf : Nat → Nat → α)
    (hW : ∀ o, o < O → w[o]? = some (Wf o)) (hB : ∀ o, o < O → bv[o]? = some (Bf o))
    (hX : ∀ b d, b < N → d < D → xd[b * D + d]? = some (Xf b d)) :
    ∃ data, fcV (⟨[O], w⟩ : Tensor α) ⟨[O], bv⟩ ⟨[N, D], xd⟩ = .ok ⟨[N, O], data⟩ ∧ data.length = N * O ∧
      ∀ b o, b < N → o < O →
        (⟨[N, O], data⟩ : Tensor α).at? [b, o] =
          some (Scalar.add
            (((List.range D).map (fun d => Scalar.add Scalar.zero (Scalar.mul (Wf o) (Xf b d)))).foldl Scalar.add Scalar.zero)
            (Bf o)) := by
  have wW : (⟨[O], w⟩ : Tensor α).WF := ⟨by simp [prod, hw], by simp; omega⟩
  have wX : (⟨[N, D], xd⟩ : Tensor α).WF := ⟨by simp [prod, hx], by simp; omega⟩
  have wB : (⟨[O], bv⟩ : Tensor α).WF := ⟨by simp [prod, hb], by simp; omega⟩
  -- 1, 2: the two UnSqueeze calls
  have hu1 : vUnSqueeze (⟨[O], w⟩ : Tensor α) 1 = .ok ⟨[O, 1], w⟩ := by
    have hv : validUnSqueeze 1 [O] = true := by simp [validUnSqueeze]
    have := C06.unsqueeze_data (⟨[O], w⟩ : Tensor α) wW 1
    simp [vUnSqueeze, hv, this, Out.ofOpt, unsqueezeDims]
  have hu2 : vUnSqueeze (⟨[N, D], xd⟩ : Tensor α) 1 = .ok ⟨[N, 1, D], xd⟩ := by
    have hv : validUnSqueeze 1 [N, D] = true := by simp [validUnSqueeze]
    have := C06.unsqueeze_data (⟨[N, D], xd⟩ : Tensor α) wX 1
    simp [vUnSqueeze, hv, this, Out.ofOpt, unsqueezeDims]
  -- 3: MatMul with the batch expansion of W
  obtain ⟨da, ba1, ba2, ba3⟩ := bcast_lead N O w hN hO hw
  have wX1 : (⟨[N, 1, D], xd⟩ : Tensor α).WF := ⟨by simp [prod, hx], by simp; omega⟩
  have htb : targetBroadcastDims [O, 1] [N, 1, D] = [N, O, D] := by
    simp only [targetBroadcastDims, List.reverse_cons, List.reverse_nil, List.nil_append, List.cons_append, targetBroadcastLE]
    have h1 : ¬ (1 > D) := by omega
    have h2 : (if O > 1 then O else 1) = O := by split <;> omega
    simp [h1, h2]
  have hbp : vBroadcastPairMM (⟨[O, 1], w⟩ : Tensor α) ⟨[N, 1, D], xd⟩ = .ok (⟨[N, O, 1], da⟩, ⟨[N, 1, D], xd⟩) := by
    have e1 : vBroadcastN (⟨[O, 1], w⟩ : Tensor α) [N, O, 1] = .ok ⟨[N, O, 1], da⟩ := by
      unfold vBroadcastN vBroadcast
      have hp : validInputDims ([N, O, 1].map Int.ofNat) = true := validInputDims_ofNat _ (by simp; omega)
      have hv : validBroadcast [O, 1] [N, O, 1] = true := by simp [validBroadcast, validBroadcastLE]
      rw [hp, natDims_ofNat, hv]
      simp only [Bool.and_self, if_true, ba1, Out.ofOpt]
    have e2 := vBroadcastN_self (⟨[N, 1, D], xd⟩ : Tensor α) wX1
    have m1 : matMulShape [N, O, D] [O, 1] = [N, O, 1] := rfl
    have m2 : matMulShape [N, O, D] [N, 1, D] = [N, 1, D] := rfl
    unfold vBroadcastPairMM
    simp only [htb, m1, m2, bind, Out.bind, e1]
    rw [e2]; rfl
  have hda : da.length = prod ([N] ++ [O, 1]) := by simp [prod, ba2]
  have hxd : xd.length = prod ([N] ++ [1, D]) := by simp [prod, hx]
  obtain ⟨yd, my1, my2, my3⟩ := matMulRaw_spec [N] O 1 D da xd (by simp; omega) hO (by omega) hD hda hxd
    (fun pre i _ => Wf i) (fun pre _ j => Xf (pre.headD 0) j)
    (by
      intro pre i p hv hi hp
      cases hv with
      | cons hb0 hrest =>
        cases hrest
        have hp0 : p = 0 := by omega
        subst hp0
        rename_i b0
        have := (ba3 b0 i hb0 hi).1
        simp only [List.cons_append, List.nil_append] at this ⊢
        rw [this, hW i hi])
    (by
      intro pre p j hv hp hj
      cases hv with
      | cons hb0 hrest =>
        cases hrest
        have hp0 : p = 0 := by omega
        subst hp0
        rename_i b0
        simp only [List.cons_append, List.nil_append, List.headD_cons]
        rw [at?_rank3 N 1 D xd b0 0 j hb0 (by omega) hj]
        have : b0 * (1 * D) + (0 * D + j) = b0 * D + j := by simp
        rw [this, hX b0 j hb0 hj])
  have hmm : vMatMul (⟨[O, 1], w⟩ : Tensor α) ⟨[N, 1, D], xd⟩ = .ok ⟨[N, O, D], yd⟩ := by
    have hv : validMatMul [O, 1] [N, 1, D] = true := by simp [validMatMul]
    simp only [vMatMul, hv, if_true, bind, Out.bind, hbp]
    have : (⟨[N, O, 1], da⟩ : Tensor α).matMulRaw ⟨[N, 1, D], xd⟩ = some ⟨[N, O, D], yd⟩ := my1
    rw [this]; rfl
  -- 4: SumAlong(2)
  have hyl : yd.length = N * (O * D) := by simpa [prod] using my2
  obtain ⟨sd, s1, s2, s3⟩ := sum_along2 N O D yd hN hO hD hyl
  have hsum : vAlong .sum (⟨[N, O, D], yd⟩ : Tensor α) 2 = .ok ⟨[N, O], sd⟩ := by
    have hv : validDimLt 2 [N, O, D] = true := by simp [validDimLt]
    simp [vAlong, vReduceDim, hv, Reducer.fn, s1, Out.ofOpt]
  -- 5: Add(B) with the row expansion of B
  obtain ⟨db, bb1, bb2, bb3⟩ := bcast_row N O bv hN hO hb
  have wS : (⟨[N, O], sd⟩ : Tensor α).WF := ⟨by simp [prod, s2], by simp; omega⟩
  have htb2 : targetBroadcastDims [N, O] [O] = [N, O] := by
    simp [targetBroadcastDims, targetBroadcastLE]
  have hadd : vArith .add (⟨[N, O], sd⟩ : Tensor α) ⟨[O], bv⟩ = .ok ⟨[N, O], List.zipWith Scalar.add sd db⟩ := by
    unfold vArith vBroadcastPair
    simp only [htb2, bind, Out.bind]
    rw [vBroadcastN_self _ wS]
    simp only []
    have e2 : vBroadcastN (⟨[O], bv⟩ : Tensor α) [N, O] = .ok ⟨[N, O], db⟩ := by
      unfold vBroadcastN vBroadcast
      have hp : validInputDims ([N, O].map Int.ofNat) = true := validInputDims_ofNat _ (by simp; omega)
      have hv : validBroadcast [O] [N, O] = true := by simp [validBroadcast, validBroadcastLE]
      rw [hp, natDims_ofNat, hv]
      simp only [Bool.and_self, if_true, bb1, Out.ofOpt]
    rw [e2]
    simp [pure, Tensor.zipRaw, s2, bb2, Arith.fn, Out.ofOpt]
  refine ⟨List.zipWith Scalar.add sd db, ?_, by simp [s2, bb2], ?_⟩
  · unfold fcV
    simp only [bind, Out.bind, hu1, hu2, hmm, hsum]
    exact hadd
  · intro b o hb0 ho
    obtain ⟨fib, f1, f2, f3⟩ := s3 b o hb0 ho
    have hidx := idx2_lt hb0 ho
    rw [at?_rank2' N O _ b o hb0 ho, List.getElem?_zipWith]
    have hs : sd[b * O + o]? = some (fib.foldl Scalar.add Scalar.zero) := by
      rw [← at?_rank2' N O sd b o hb0 ho]; exact f3
    have hdb : db[b * O + o]? = some (Bf o) := by
      rw [← at?_rank2' N O db b o hb0 ho, (bb3 b o hb0 ho).1, hB o ho]
    rw [hs, hdb]
    simp only [Option.map_some, Option.bind_some]
    congr 2
    -- the fibre is the list of products
    have hfib : fib = (List.range D).map (fun d => Scalar.add Scalar.zero (Scalar.mul (Wf o) (Xf b d))) := by
      apply List.ext_getElem?
      intro d
      by_cases hd : d < D
      · rw [(f2 d hd).1]
        have := my3 [b] o d (.cons hb0 .nil) ho hd
        simp only [List.cons_append, List.nil_append] at this
        rw [this]
        simp [List.getElem?_map, List.getElem?_range hd]
      · rw [List.getElem?_eq_none (by omega), List.getElem?_eq_none (by simp; omega)]
    rw [hfib]

end Qeep
