import Mathlib.Analysis.SpecialFunctions.Trigonometric.DerivHyp
import Mathlib.Analysis.SpecialFunctions.Trigonometric.ArctanDeriv
import Mathlib.Analysis.SpecialFunctions.Pow.Deriv
import Mathlib.Analysis.SpecialFunctions.Log.Deriv
import Mathlib.Analysis.SpecialFunctions.ExpDeriv
import Mathlib.Analysis.Calculus.Deriv.Add
import Mathlib.Analysis.Calculus.Deriv.Mul
/-!
# Scalar derivative table and the lifting to element-wise tensor maps (Mathlib)
-/

namespace Qeep
open Finset

/-- VJP of an element-wise map as the partial derivative of the `g`-weighted sum of the outputs -/
theorem hasDerivAt_weighted_map {n : ℕ} (f f' : ℝ → ℝ) (x g : Fin n → ℝ) (i : Fin n)
    (hf : HasDerivAt f (f' (x i)) (x i)) :
    HasDerivAt (fun t => ∑ k, g k * f (Function.update x i t k)) (g i * f' (x i)) (x i) := by
  have h : ∀ k ∈ (univ : Finset (Fin n)),
      HasDerivAt (fun t => g k * f (Function.update x i t k)) (if k = i then g i * f' (x i) else 0) (x i) := by
    intro k _
    by_cases hk : k = i
    · subst hk
      simp only [Function.update_self, if_true]
      exact hf.const_mul (g k)
    · simp only [Function.update_of_ne hk, hk, if_false]
      exact hasDerivAt_const _ _
  have := HasDerivAt.fun_sum h
  simpa using this

/-- the scalar factors used by the backward rules of `gradients.go` are the derivatives -/
theorem d_exp (x : ℝ) : HasDerivAt Real.exp (Real.exp x) x := Real.hasDerivAt_exp x
theorem d_log (x : ℝ) (hx : x ≠ 0) : HasDerivAt Real.log (1 / x) x := by
  simpa using Real.hasDerivAt_log hx
theorem d_sin (x : ℝ) : HasDerivAt Real.sin (Real.cos x) x := Real.hasDerivAt_sin x
theorem d_cos (x : ℝ) : HasDerivAt Real.cos (-1 * Real.sin x) x := by simpa using Real.hasDerivAt_cos x
theorem d_sinh (x : ℝ) : HasDerivAt Real.sinh (Real.cosh x) x := Real.hasDerivAt_sinh x
theorem d_cosh (x : ℝ) : HasDerivAt Real.cosh (Real.sinh x) x := Real.hasDerivAt_cosh x

/-- Tan rule: `cos(x)^(-2)` (real exponent, as `Pow(-2)` computes it) -/
theorem d_tan (x : ℝ) (h : Real.cos x ≠ 0) : HasDerivAt Real.tan ((Real.cos x) ^ (-2 : ℝ)) x := by
  have := Real.hasDerivAt_tan h
  refine this.congr_deriv ?_
  rw [show (-2 : ℝ) = ((-2 : ℤ) : ℝ) by norm_num, Real.rpow_intCast]
  simp [zpow_neg, one_div]

/-- Tanh rule: `cosh(x)^(-2)` -/
theorem d_tanh (x : ℝ) : HasDerivAt Real.tanh ((Real.cosh x) ^ (-2 : ℝ)) x := by
  have h : Real.tanh = fun y => Real.sinh y / Real.cosh y := funext Real.tanh_eq_sinh_div_cosh
  rw [h]
  have hc : Real.cosh x ≠ 0 := (Real.cosh_pos x).ne'
  have hd := (Real.hasDerivAt_sinh x).div (Real.hasDerivAt_cosh x) hc
  refine hd.congr_deriv ?_
  have hsq := Real.cosh_sq x
  have e : (Real.cosh x) ^ (-2 : ℝ) = ((Real.cosh x) ^ 2)⁻¹ := by
    rw [show (-2 : ℝ) = -((2 : ℕ) : ℝ) by norm_num, Real.rpow_neg (Real.cosh_pos x).le, Real.rpow_natCast]
  rw [e]
  field_simp
  nlinarith [hsq]

/-- Pow rule `a·x^(a−1)`, on the differentiability domain of `x ↦ x^a` -/
theorem d_pow (x a : ℝ) (h : x ≠ 0 ∨ 1 ≤ a) : HasDerivAt (fun y => y ^ a) (a * x ^ (a - 1)) x :=
  Real.hasDerivAt_rpow_const h

/-- exponent 0: the constant 1 (the repaired Pow rule returns zeros), at every base including 0 -/
theorem d_pow_zero (x : ℝ) : HasDerivAt (fun y : ℝ => y ^ (0 : ℝ)) 0 x := by
  have : (fun y : ℝ => y ^ (0 : ℝ)) = fun _ => (1 : ℝ) := by funext y; simp
  rw [this]; exact hasDerivAt_const _ _

end Qeep
