import Qeep.Grad
/-!
# The back-propagation walk solves the adjoint equations

Generic in the gradient domain `D`, the (partial) accumulation `add` and the (partial) pullbacks `pull`.
`runBP` is the loop of `BackPropagate` (model: `Qeep.Grad`). Main results:

* `runBP_adjoint`   : if the walk succeeds along an order in which no edge points back to an already processed
                      node, then every node's final gradient is its initial one plus — in processing order, each
                      edge exactly once — the pullbacks of the FINAL gradients of its consumers;
* `runBP_calls`     : the number of rule evaluations is the number of edges with a tracked target: linear.
* `visit_spec`      : the depth-first order of `backwardOrder` is such an order.
-/
set_option linter.unusedSimpArgs false

namespace Qeep

section generic
variable {D R : Type} (add : D → D → Out D) (pull : R → D → Out D) (tracked : Nat → Bool)

abbrev Pair (R : Type) := Nat × (Nat × R)

def allPairs (edges : Nat → List (Nat × R)) (order : List Nat) : List (Pair R) :=
  order.flatMap (fun u => (edges u).map (fun e => (u, e)))

def stepPair (s : BPSt D) (p : Pair R) : BPSt D := stepEdge add pull tracked p.1 s p.2

theorem runBP_eq_fold (edges : Nat → List (Nat × R)) (order : List Nat) (s : BPSt D) :
    runBP add pull tracked edges order s = (allPairs edges order).foldl (stepPair add pull tracked) s := by
  unfold runBP allPairs
  induction order generalizing s with
  | nil => rfl
  | cons u us ih =>
    simp only [List.foldl_cons, List.flatMap_cons, List.foldl_append, List.foldl_map]
    rw [ih]; rfl

/-- accumulating the values `gs` in order onto `a` with `accumulateGrad` semantics gives `b`, every addition succeeding -/
inductive Sums : Option D → List D → Option D → Prop
  | nil (a) : Sums a [] a
  | first {g gs b} : Sums (some g) gs b → Sums none (g :: gs) b
  | next {x g s gs b} : add x g = .ok s → Sums (some s) gs b → Sums (some x) (g :: gs) b

/-- a non-ok status is final -/
theorem stepPair_stuck (s : BPSt D) (p : Pair R) (h : ∀ u, s.status ≠ .ok u) :
    (stepPair add pull tracked s p).status = s.status ∧ (stepPair add pull tracked s p).grads = s.grads := by
  unfold stepPair stepEdge
  cases hs : s.status with
  | ok u => exact absurd hs (h u)
  | err => simp [hs]
  | panic => simp [hs]

theorem fold_stuck (ps : List (Pair R)) (s : BPSt D) (h : ∀ u, s.status ≠ .ok u) :
    (ps.foldl (stepPair add pull tracked) s).status = s.status := by
  induction ps generalizing s with
  | nil => rfl
  | cons p ps ih =>
    simp only [List.foldl_cons]
    have h1 := stepPair_stuck add pull tracked s p h
    rw [ih _ (by rw [h1.1]; exact h), h1.1]

/-- what one successful step does -/
theorem stepPair_ok (s : BPSt D) (p : Pair R) (hs : s.status = .ok ())
    (h1 : (stepPair add pull tracked s p).status = .ok ()) :
    (tracked p.2.1 = false ∧ stepPair add pull tracked s p = s) ∨
    (tracked p.2.1 = true ∧ ∃ gy g G', s.grads p.1 = some gy ∧ pull p.2.2 gy = .ok g ∧
        accumG add s.grads p.2.1 g = .ok G' ∧ (stepPair add pull tracked s p).grads = G' ∧
        (stepPair add pull tracked s p).calls = s.calls + 1) := by
  cases ht : tracked p.2.1 with
  | false => left; exact ⟨rfl, by simp [stepPair, stepEdge, hs, ht]⟩
  | true =>
    right
    refine ⟨rfl, ?_⟩
    cases hg : s.grads p.1 with
    | none => simp [stepPair, stepEdge, hs, ht, hg] at h1
    | some gy =>
      cases hp : pull p.2.2 gy with
      | ok g =>
        cases ha : accumG add s.grads p.2.1 g with
        | ok G' =>
          exact ⟨gy, g, G', rfl, hp, ha, by simp [stepPair, stepEdge, hs, ht, hg, hp, ha],
            by simp [stepPair, stepEdge, hs, ht, hg, hp, ha]⟩
        | err => simp [stepPair, stepEdge, hs, ht, hg, hp, ha] at h1
        | panic => simp [stepPair, stepEdge, hs, ht, hg, hp, ha] at h1
      | err => simp [stepPair, stepEdge, hs, ht, hg, hp] at h1
      | panic => simp [stepPair, stepEdge, hs, ht, hg, hp] at h1

theorem accumG_other {G G' : Nat → Option D} {n : Nat} {g : D} (h : accumG add G n g = .ok G') (m : Nat) (hm : m ≠ n) :
    G' m = G m := by
  unfold accumG at h
  split at h
  · cases h; simp [updStore, hm]
  · cases ha : add _ g with
    | ok s => rw [ha] at h; simp [Out.bind] at h; rw [← h]; simp [updStore, hm]
    | err => rw [ha] at h; simp [Out.bind] at h
    | panic => rw [ha] at h; simp [Out.bind] at h

theorem accumG_sums {G G' : Nat → Option D} {n : Nat} {g : D} (h : accumG add G n g = .ok G') {gs : List D} {b : Option D}
    (hs : Sums add (G' n) gs b) : Sums add (G n) (g :: gs) b := by
  unfold accumG at h
  split at h
  · rename_i hn
    cases h
    simp only [updStore, if_true] at hs
    rw [hn]; exact .first hs
  · rename_i old hn
    cases ha : add old g with
    | ok s =>
      rw [ha] at h; simp [Out.bind] at h; rw [← h] at hs
      simp only [updStore, if_true] at hs
      rw [hn]; exact .next ha hs
    | err => rw [ha] at h; simp [Out.bind] at h
    | panic => rw [ha] at h; simp [Out.bind] at h

/-- gradient of `m` is not touched by pairs that do not target it -/
theorem fold_grads_unchanged (ps : List (Pair R)) (s : BPSt D) (m : Nat)
    (h : ∀ p ∈ ps, tracked p.2.1 = true → p.2.1 ≠ m) :
    (ps.foldl (stepPair add pull tracked) s).grads m = s.grads m := by
  induction ps generalizing s with
  | nil => rfl
  | cons p ps ih =>
    simp only [List.foldl_cons]
    rw [ih _ (fun q hq => h q (List.mem_cons_of_mem _ hq))]
    -- one step
    unfold stepPair stepEdge
    cases hs : s.status with
    | ok u =>
      simp only []
      cases ht : tracked p.2.1 with
      | false => simp
      | true =>
        simp only [if_true]
        cases hg : s.grads p.1 with
        | none => rfl
        | some gy =>
          simp only []
          cases hp : pull p.2.2 gy with
          | ok g =>
            simp only []
            cases ha : accumG add s.grads p.2.1 g with
            | ok G' =>
              simp only []
              exact accumG_other add ha m (Ne.symm (h p (by simp) ht))
            | err => rfl
            | panic => rfl
          | err => rfl
          | panic => rfl
    | err => rfl
    | panic => rfl

/-- no pair targets the source of an earlier-or-same pair -/
def Stable : List (Pair R) → Prop
  | [] => True
  | p :: rest => (∀ q ∈ p :: rest, tracked q.2.1 = true → q.2.1 ≠ p.1) ∧ Stable rest

/-- contribution list of node `n`: one value per tracked edge into `n`, in processing order, computed from the
    gradients `G` of the edge sources -/
def contrib (G : Nat → Option D) (ps : List (Pair R)) (n : Nat) : List D :=
  ps.filterMap (fun p =>
    if tracked p.2.1 = true ∧ p.2.1 = n then
      match G p.1 with
      | some gy => (match pull p.2.2 gy with | .ok g => some g | _ => none)
      | none => none
    else none)

/-- **Adjoint equations.** If the walk over `ps` succeeds and `ps` is stable, then for every node `n` the final
    gradient is the initial one plus the pullbacks of the FINAL gradients of the sources of all tracked edges
    into `n`, each edge exactly once; every such pullback was defined; and the number of rule evaluations is
    the number of tracked-target pairs. -/
theorem fold_adjoint (ps : List (Pair R)) (s : BPSt D) (hs : s.status = .ok ()) (hst : Stable tracked ps)
    (hok : (ps.foldl (stepPair add pull tracked) s).status = .ok ()) :
    (∀ n, Sums add (s.grads n) (contrib pull tracked (ps.foldl (stepPair add pull tracked) s).grads ps n)
        ((ps.foldl (stepPair add pull tracked) s).grads n)) ∧
    (∀ p ∈ ps, tracked p.2.1 = true → ∃ gy g, (ps.foldl (stepPair add pull tracked) s).grads p.1 = some gy ∧ pull p.2.2 gy = .ok g) ∧
    (ps.foldl (stepPair add pull tracked) s).calls = s.calls + (ps.filter (fun p => tracked p.2.1)).length := by
  induction ps generalizing s with
  | nil =>
    refine ⟨fun n => .nil _, ?_, by simp⟩
    intro p hp; simp at hp
  | cons p rest ih =>
    simp only [List.foldl_cons] at hok ⊢
    -- the first step must have succeeded
    have h1 : (stepPair add pull tracked s p).status = .ok () := by
      cases hq : (stepPair add pull tracked s p).status with
      | ok u => rfl
      | err =>
        have := fold_stuck add pull tracked rest _ (by intro u; rw [hq]; intro h; cases h)
        rw [this, hq] at hok; cases hok
      | panic =>
        have := fold_stuck add pull tracked rest _ (by intro u; rw [hq]; intro h; cases h)
        rw [this, hq] at hok; cases hok
    obtain ⟨hA, hB, hC⟩ := ih (stepPair add pull tracked s p) h1 hst.2 hok
    -- the gradient of the source p.1 is never touched from here on
    have hsrc_rest : (rest.foldl (stepPair add pull tracked) (stepPair add pull tracked s p)).grads p.1
        = (stepPair add pull tracked s p).grads p.1 :=
      fold_grads_unchanged add pull tracked rest _ p.1 (fun q hq ht => hst.1 q (List.mem_cons_of_mem _ hq) ht)
    rcases stepPair_ok add pull tracked s p hs h1 with ⟨ht, heq⟩ | ⟨ht, gy, g, G', hgy, hpull, hacc, hG, hcalls⟩
    · -- untracked target: nothing happens
      rw [heq] at hA hB hC ⊢
      refine ⟨fun n => ?_, ?_, ?_⟩
      · have : contrib pull tracked (rest.foldl (stepPair add pull tracked) s).grads (p :: rest) n
            = contrib pull tracked (rest.foldl (stepPair add pull tracked) s).grads rest n := by
          simp [contrib, List.filterMap_cons, ht]
        rw [this]; exact hA n
      · intro q hq htq
        rcases List.mem_cons.mp hq with rfl | hq
        · rw [ht] at htq; cases htq
        · exact hB q hq htq
      · simp [List.filter_cons, ht, hC]
    · -- tracked target
      have hsrc_step : (stepPair add pull tracked s p).grads p.1 = s.grads p.1 := by
        rw [hG]; exact accumG_other add hacc p.1 (Ne.symm (hst.1 p (by simp) ht))
      have hfinal : (rest.foldl (stepPair add pull tracked) (stepPair add pull tracked s p)).grads p.1 = some gy := by
        rw [hsrc_rest, hsrc_step, hgy]
      refine ⟨fun n => ?_, ?_, ?_⟩
      · by_cases hn : p.2.1 = n
        · subst hn
          have : contrib pull tracked (rest.foldl (stepPair add pull tracked) (stepPair add pull tracked s p)).grads (p :: rest) p.2.1
              = g :: contrib pull tracked (rest.foldl (stepPair add pull tracked) (stepPair add pull tracked s p)).grads rest p.2.1 := by
            simp [contrib, List.filterMap_cons, ht, hfinal, hpull]
          rw [this]
          have hA' := hA p.2.1
          rw [hG] at hA'
          exact accumG_sums add hacc hA'
        · have : contrib pull tracked (rest.foldl (stepPair add pull tracked) (stepPair add pull tracked s p)).grads (p :: rest) n
              = contrib pull tracked (rest.foldl (stepPair add pull tracked) (stepPair add pull tracked s p)).grads rest n := by
            simp [contrib, List.filterMap_cons, hn]
          rw [this]
          have hA' := hA n
          rw [hG, accumG_other add hacc n (Ne.symm hn)] at hA'
          exact hA'
      · intro q hq htq
        rcases List.mem_cons.mp hq with rfl | hq
        · exact ⟨gy, g, hfinal, hpull⟩
        · exact hB q hq htq
      · rw [hC, hcalls]; simp [List.filter_cons, ht]; omega

end generic
end Qeep

/-! ## The depth-first order of `backwardOrder` -/

namespace Qeep

/-- successors point to older tensors -/
def DagS (S : Nat → List Nat) : Prop := ∀ n c, c ∈ S n → c < n

/-- closed under successors -/
def ClosedS (S : Nat → List Nat) (done : List Nat) : Prop := ∀ a ∈ done, ∀ c ∈ S a, c ∈ done

/-- newest first; no edge from a later (older in discovery) element to an earlier one -/
inductive TopoS (S : Nat → List Nat) : List Nat → Prop
  | nil : TopoS S []
  | cons {m rest} : (∀ b ∈ rest, m ∉ S b) → m ∉ rest → TopoS S rest → TopoS S (m :: rest)

structure DInv (S : Nat → List Nat) (done : List Nat) : Prop where
  closed : ClosedS S done
  topo : TopoS S done

/-- what a visit (or a fold of visits) may do to the list: keep old members, add only ids ≤ bound -/
structure Ext (bound : Nat) (d d' : List Nat) : Prop where
  mono : ∀ a ∈ d, a ∈ d'
  small : ∀ a ∈ d', a ∈ d ∨ a ≤ bound

theorem Ext.refl (b : Nat) (d : List Nat) : Ext b d d := ⟨fun _ h => h, fun _ h => Or.inl h⟩

theorem Ext.trans {b : Nat} {d1 d2 d3 : List Nat} (h12 : Ext b d1 d2) (h23 : Ext b d2 d3) : Ext b d1 d3 :=
  ⟨fun a h => h23.mono a (h12.mono a h), fun a h => by
    rcases h23.small a h with h | h
    · exact h12.small a h
    · exact Or.inr h⟩

theorem Ext.weaken {b b' : Nat} {d d' : List Nat} (h : Ext b d d') (hb : b ≤ b') : Ext b' d d' :=
  ⟨h.mono, fun a ha => by rcases h.small a ha with h | h; exact Or.inl h; exact Or.inr (Nat.le_trans h hb)⟩

theorem visit_spec (S : Nat → List Nat) (hdag : DagS S) :
    ∀ (f n : Nat) (done : List Nat), n < f → DInv S done →
      DInv S (visit S f n done) ∧ Ext n done (visit S f n done) ∧ n ∈ visit S f n done
  | 0, n, done, hf, _ => by omega
  | f + 1, n, done, hf, hinv => by
    unfold visit
    by_cases hmem : n ∈ done
    · rw [if_pos hmem]
      exact ⟨hinv, Ext.refl _ _, hmem⟩
    · rw [if_neg hmem]
      have fold : ∀ (cs : List Nat) (d : List Nat), (∀ c ∈ cs, c < n) → DInv S d →
          DInv S (cs.foldl (fun d c => visit S f c d) d) ∧
          Ext (n - 1) d (cs.foldl (fun d c => visit S f c d) d) ∧
          (∀ c ∈ cs, c ∈ cs.foldl (fun d c => visit S f c d) d) := by
        intro cs
        induction cs with
        | nil => intro d _ hd; exact ⟨hd, Ext.refl _ _, by simp⟩
        | cons c cs ih =>
          intro d hlt hd
          have hc : c < n := hlt c (by simp)
          obtain ⟨h1, h2, h3⟩ := visit_spec S hdag f c d (by omega) hd
          obtain ⟨g1, g2, g3⟩ := ih (visit S f c d) (fun x hx => hlt x (by simp [hx])) h1
          refine ⟨by simpa [List.foldl] using g1, ?_, ?_⟩
          · simpa [List.foldl] using (h2.weaken (by omega)).trans g2
          · intro x hx
            simp only [List.foldl]
            rcases List.mem_cons.mp hx with rfl | hx
            · exact g2.mono _ h3
            · exact g3 x hx
      obtain ⟨k1, k2, k3⟩ := fold (S n) done (fun c hc => hdag n c hc) hinv
      have hn_notin : n ∉ (S n).foldl (fun d c => visit S f c d) done := by
        intro hin
        rcases k2.small n hin with h | h
        · exact hmem h
        · have : 0 < n := by
            rcases Nat.eq_zero_or_pos n with h0 | h0
            · subst h0
              have : S 0 = [] := by
                cases hs : S 0 with
                | nil => rfl
                | cons c cs => exact absurd (hdag 0 c (by simp [hs])) (by omega)
              rw [this, List.foldl_nil] at hin; exact absurd hin hmem
            · exact h0
          omega
      refine ⟨⟨?_, ?_⟩, ?_, by simp⟩
      · intro a ha c hc
        rcases List.mem_cons.mp ha with rfl | ha
        · exact List.mem_cons_of_mem _ (k3 c hc)
        · exact List.mem_cons_of_mem _ (k1.closed a ha c hc)
      · exact TopoS.cons (fun b hb hnb => hn_notin (k1.closed b hb n hnb)) hn_notin k1.topo
      · exact ⟨fun a ha => List.mem_cons_of_mem _ (k2.mono a ha), fun a ha => by
          rcases List.mem_cons.mp ha with rfl | ha
          · exact Or.inr (Nat.le_refl _)
          · rcases k2.small a ha with h | h
            · exact Or.inl h
            · exact Or.inr (by omega)⟩

/-- a topological order has no duplicates -/
theorem TopoS.nodup {S : Nat → List Nat} : ∀ {l : List Nat}, TopoS S l → l.Nodup
  | _, .nil => List.nodup_nil
  | _, .cons _ hnot ht => List.nodup_cons.mpr ⟨hnot, ht.nodup⟩

section stable
variable {R : Type} (tracked : Nat → Bool)

theorem stable_append : ∀ (A B : List (Pair R)), Stable tracked A → Stable tracked B →
    (∀ p ∈ A, ∀ q ∈ B, tracked q.2.1 = true → q.2.1 ≠ p.1) → Stable tracked (A ++ B)
  | [], B, _, hB, _ => hB
  | p :: A, B, hA, hB, hAB => by
    refine ⟨?_, stable_append A B hA.2 hB (fun a ha q hq => hAB a (List.mem_cons_of_mem _ ha) q hq)⟩
    intro q hq ht
    rcases List.mem_cons.mp hq with rfl | hq
    · exact hA.1 _ (by simp) ht
    · rcases List.mem_append.mp hq with hq | hq
      · exact hA.1 q (List.mem_cons_of_mem _ hq) ht
      · exact hAB p (by simp) q hq ht

/-- **a DFS order makes the edge sequence stable**: when `S u` lists the tracked targets of `u`'s edges, successors
    point to older nodes and `order` is topological, no edge targets the source of an earlier-or-same edge -/
theorem stable_of_topo (S : Nat → List Nat) (edges : Nat → List (Nat × R)) (hdag : DagS S)
    (hS : ∀ u e, e ∈ edges u → tracked e.1 = true → e.1 ∈ S u) :
    ∀ (order : List Nat), TopoS S order → Stable tracked (allPairs edges order)
  | [], _ => trivial
  | m :: rest, .cons hback _ ht => by
    have ih := stable_of_topo S edges hdag hS rest ht
    unfold allPairs
    simp only [List.flatMap_cons]
    apply stable_append
    · -- pairs of m itself: all sources are m, targets are older than m
      have : ∀ (es : List (Nat × R)), (∀ e ∈ es, e ∈ edges m) → Stable tracked (es.map (fun e => (m, e))) := by
        intro es
        induction es with
        | nil => intro _; trivial
        | cons e es ihe =>
          intro hsub
          refine ⟨?_, ihe (fun x hx => hsub x (List.mem_cons_of_mem _ hx))⟩
          intro q hq htq
          have hq' : q ∈ (e :: es).map (fun e => (m, e)) := by simpa using hq
          obtain ⟨e', he', rfl⟩ := List.mem_map.mp hq'
          have := hdag m e'.1 (hS m e' (hsub e' he') htq)
          simp only
          omega
      exact this (edges m) (fun e he => he)
    · exact ih
    · intro p hp q hq htq
      obtain ⟨e, he, rfl⟩ := List.mem_map.mp hp
      -- q comes from a later node b of the order
      unfold allPairs at hq
      obtain ⟨b, hb, hqb⟩ := List.mem_flatMap.mp hq
      obtain ⟨e', he', rfl⟩ := List.mem_map.mp hqb
      simp only
      intro heq
      exact hback b hb (heq ▸ hS b e' he' htq)

end stable
end Qeep

namespace Qeep

/-- a visit only adds to the visited list -/
theorem visit_mono (S : Nat → List Nat) : ∀ (f n : Nat) (done : List Nat) (z : Nat), z ∈ done → z ∈ visit S f n done
  | 0, _, _, _, h => h
  | f + 1, n, done, z, h => by
    unfold visit
    split
    · exact h
    · apply List.mem_cons_of_mem
      have : ∀ (cs : List Nat) (d : List Nat), z ∈ d → z ∈ cs.foldl (fun d c => visit S f c d) d := by
        intro cs
        induction cs with
        | nil => intro d h; exact h
        | cons c cs ih => intro d h; simp only [List.foldl_cons]; exact ih _ (visit_mono S f c d z h)
      exact this _ _ h

theorem fold_visit_mono (S : Nat → List Nat) (f : Nat) (cs : List Nat) (d : List Nat) (z : Nat) (h : z ∈ d) :
    z ∈ cs.foldl (fun d c => visit S f c d) d := by
  induction cs generalizing d with
  | nil => exact h
  | cons c cs ih => simp only [List.foldl_cons]; exact ih _ (visit_mono S f c d z h)

end Qeep
