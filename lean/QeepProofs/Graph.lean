import Qeep.Grad
/-!
# The back-propagation walk solves the adjoint equations

Generic in the gradient domain `D`, the (partial) accumulation `add` and the (partial) pullbacks `pull`.
`runBP` is the loop of `BackPropagate` (model: `Qeep.Grad`). Main results:

* `runBP_adjoint`   : if the walk succeeds along an order in which no edge points back to an already processed
                      node, then every node's final gradient is its initial one plus — in processing order, each
                      edge exactly once — the pullbacks of the FINAL gradients of its consumers;
* `runBP_calls`     : the number of rule evaluations is the number of edges with a tracked target: linear.
* `visit_spec`      : the depth-first order of `backwardOrder` is such an order.
-/
set_option linter.unusedSimpArgs false

namespace Qeep

section generic
variable {D R : Type} (add : D → D → Out D) (pull : R → D → Out D) (tracked : Nat → Bool)

abbrev Pair (R : Type) := Nat × (Nat × R)

def allPairs (edges : Nat → List (Nat × R)) (order : List Nat) : List (Pair R) :=
  order.flatMap (fun u => (edges u).map (fun e => (u, e)))

def stepPair (s : BPSt D) (p : Pair R) : BPSt D := stepEdge add pull tracked p.1 s p.2

theorem runBP_eq_fold (edges : Nat → List (Nat × R)) (order : List Nat) (s : BPSt D) :
    runBP add pull tracked edges order s = (allPairs edges order).foldl (stepPair add pull tracked) s := by
  unfold runBP allPairs
  induction order generalizing s with
  | nil => rfl
  | cons u us ih =>
    simp only [List.foldl_cons, List.flatMap_cons, List.foldl_append, List.foldl_map]
    rw [ih]; rfl

/-- accumulating the values `gs` in order onto `a` with `accumulateGrad` semantics gives `b`, every addition succeeding -/
inductive Sums : Option D → List D → Option D → Prop
  | nil (a) : Sums a [] a
  | first {g gs b} : Sums (some g) gs b → Sums none (g :: gs) b
  | next {x g s gs b} : add x g = .ok s → Sums (some s) gs b → Sums (some x) (g :: gs) b

/-- a non-ok status is final -/
theorem stepPair_stuck (s : BPSt D) (p : Pair R) (h : ∀ u, s.status ≠ .ok u) :
    (stepPair add pull tracked s p).status = s.status ∧ (stepPair add pull tracked s p).grads = s.grads := by
  unfold stepPair stepEdge
  cases hs : s.status with
  | ok u => exact absurd hs (h u)
  | err => simp [hs]
  | panic => simp [hs]

theorem fold_stuck (ps : List (Pair R)) (s : BPSt D) (h : ∀ u, s.status ≠ .ok u) :
    (ps.foldl (stepPair add pull tracked) s).status = s.status := by
  induction ps generalizing s with
  | nil => rfl
  | cons p ps ih =>
    simp only [List.foldl_cons]
    have h1 := stepPair_stuck add pull tracked s p h
    rw [ih _ (by rw [h1.1]; exact h), h1.1]

/-- what one successful step does -/
theorem stepPair_ok (s : BPSt D) (p : Pair R) (hs : s.status = .ok ())
    (h1 : (stepPair add pull tracked s p).status = .ok ()) :
    (tracked p.2.1 = false ∧ stepPair add pull tracked s p = s) ∨
    (tracked p.2.1 = true ∧ ∃ gy g G', s.grads p.1 = some gy ∧ pull p.2.2 gy = .ok g ∧
        accumG add s.grads p.2.1 g = .ok G' ∧ (stepPair add pull tracked s p).grads = G' ∧
        (stepPair add pull tracked s p).calls = s.calls + 1) := by
  cases ht : tracked p.2.1 with
  | false => left; exact ⟨rfl, by simp [stepPair, stepEdge, hs, ht]⟩
  | true =>
    right
    refine ⟨rfl, ?_⟩
    cases hg : s.grads p.1 with
    | none => simp [stepPair, stepEdge, hs, ht, hg] at h1
    | some gy =>
      cases hp : pull p.2.2 gy with
      | ok g =>
        cases ha : accumG add s.grads p.2.1 g with
        | ok G' =>
          exact ⟨gy, g, G', rfl, hp, ha, by simp [stepPair, stepEdge, hs, ht, hg, hp, ha],
            by simp [stepPair, stepEdge, hs, ht, hg, hp, ha]⟩
        | err => simp [stepPair, stepEdge, hs, ht, hg, hp, ha] at h1
        | panic => simp [stepPair, stepEdge, hs, ht, hg, hp, ha] at h1
      | err => simp [stepPair, stepEdge, hs, ht, hg, hp] at h1
      | panic => simp [stepPair, stepEdge, hs, ht, hg, hp] at h1

theorem accumG_other {G G' : Nat → Option D} {n : Nat} {g : D} (h : accumG add G n g = .ok G') (m : Nat) (hm : m ≠ n) :
    G' m = G m := by
  unfold accumG at h
  split at h
  · cases h; simp [updStore, hm]
  · cases ha : add _ g with
    | ok s => rw [ha] at h; simp [Out.bind] at h; rw [← h]; simp [updStore, hm]
    | err => rw [ha] at h; simp [Out.bind] at h
    | panic => rw [ha] at h; simp [Out.bind] at h

theorem accumG_sums {G G' : Nat → Option D} {n : Nat} {g : D} (h : accumG add G n g = .ok G') {gs : List D} {b : Option D}
    (hs : Sums add (G' n) gs b) : Sums add (G n) (g :: gs) b := by
  unfold accumG at h
  split at h
  · rename_i hn
    cases h
    simp only [updStore, if_true] at hs
    rw [hn]; exact .first hs
  · rename_i old hn
    cases ha : add old g with
    | ok s =>
      rw [ha] at h; simp [Out.bind] at h; rw [← h] at hs
      simp only [updStore, if_true] at hs
      rw [hn]; exact .next ha hs
    | err => rw [ha] at h; simp [Out.bind] at h
    | panic => rw [ha] at h; simp [Out.bind] at h

/-- gradient of `m` is not touched by pairs that do not target it -/
theorem fold_grads_unchanged (ps : List (Pair R)) (s : BPSt D) (m : Nat)
    (h : ∀ p ∈ ps, tracked p.2.1 = true → p.2.1 ≠ m) :
    (ps.foldl (stepPair add pull tracked) s).grads m = s.grads m := by
  induction ps generalizing s with
  | nil => rfl
  | cons p ps ih =>
    simp only [List.foldl_cons]
    rw [ih _ (fun q hq => h q (List.mem_cons_of_mem _ hq))]
    -- one step
    unfold stepPair stepEdge
    cases hs : s.status with
    | ok u =>
      simp only []
      cases ht : tracked p.2.1 with
      | false => simp
      | true =>
        simp only [if_true]
        cases hg : s.grads p.1 with
        | none => rfl
        | some gy =>
          simp only []
          cases hp : pull p.2.2 gy with
          | ok g =>
            simp only []
            cases ha : accumG add s.grads p.2.1 g with
            | ok G' =>
              simp only []
              exact accumG_other add ha m (Ne.symm (h p (by simp) ht))
            | err => rfl
            | panic => rfl
          | err => rfl
          | panic => rfl
    | err => rfl
    | panic => rfl

/-- no pair targets the source of an earlier-or-same pair -/
def Stable : List (Pair R) → Prop
  | [] => True
  | p :: rest => (∀ q ∈ p :: rest, tracked q.2.1 = true → q.2.1 ≠ p.1) ∧ Stable rest

/-- contribution list of node `n`: one value per tracked edge into `n`, in processing order, computed from the
    gradients `G` of the edge sources -/
def contrib (G : Nat → Option D) (ps : List (Pair R)) (n : Nat) : List D :=
  ps.filterMap (fun p =>
    if tracked p.2.1 = true ∧ p.2.1 = n then
      match G p.1 with
      | some gy => (match pull p.2.2 gy with | .ok g => some g | _ => none)
      | none => none
    else none)

/-- **Adjoint equations.** If the walk over `ps` succeeds and `ps` is stable, then for every node `n` the final
    gradient is the initial one plus the pullbacks of the FINAL gradients of the sources of all tracked edges
    into `n`, each edge exactly once; every such pullback was defined; and the number of rule evaluations is
    the number of tracked-target pairs. -/
theorem fold_adjoint (ps : List (Pair R)) (s : BPSt D) (hs : s.status = .ok ()) (hst : Stable tracked ps)
    (hok : (ps.foldl (stepPair add pull tracked) s).status = .ok ()) :
    (∀ n, Sums add (s.grads n) (contrib pull tracked (ps.foldl (stepPair add pull tracked) s).grads ps n)
        ((ps.foldl (stepPair add pull tracked) s).grads n)) ∧
    (∀ p ∈ ps, tracked p.2.1 = true → ∃ gy g, (ps.foldl (stepPair add pull tracked) s).grads p.1 = some gy ∧ pull p.2.2 gy = .ok g) ∧
    (ps.foldl (stepPair add pull tracked) s).calls = s.calls + (ps.filter (fun p => tracked p.2.1)).length := by
  induction ps generalizing s with
  | nil =>
    refine ⟨fun n => .nil _, ?_, by simp⟩
    intro p hp; simp at hp
  | cons p rest ih =>
    simp only [List.foldl_cons] at hok ⊢
    -- the first step must have succeeded
    have h1 : (stepPair add pull tracked s p).status = .ok () := by
      cases hq : (stepPair add pull tracked s p).status with
      | ok u => rfl
      | err =>
        have := fold_stuck add pull tracked rest _ (by intro u; rw [hq]; intro h; cases h)
        rw [this, hq] at hok; cases hok
      | panic =>
        have := fold_stuck add pull tracked rest _ (by intro u; rw [hq]; intro h; cases h)
        rw [this, hq] at hok; cases hok
    obtain ⟨hA, hB, hC⟩ := ih (stepPair add pull tracked s p) h1 hst.2 hok
    -- the gradient of the source p.1 is never touched from here on
    have hsrc_rest : (rest.foldl (stepPair add pull tracked) (stepPair add pull tracked s p)).grads p.1
        = (stepPair add pull tracked s p).grads p.1 :=
      fold_grads_unchanged add pull tracked rest _ p.1 (fun q hq ht => hst.1 q (List.mem_cons_of_mem _ hq) ht)
    rcases stepPair_ok add pull tracked s p hs h1 with ⟨ht, heq⟩ | ⟨ht, gy, g, G', hgy, hpull, hacc, hG, hcalls⟩
    · -- untracked target: nothing happens
      rw [heq] at hA hB hC ⊢
      refine ⟨fun n => ?_, ?_, ?_⟩
      · have : contrib pull tracked (rest.foldl (stepPair add pull tracked) s).grads (p :: rest) n
            = contrib pull tracked (rest.foldl (stepPair add pull tracked) s).grads rest n := by
          simp [contrib, List.filterMap_cons, ht]
        rw [this]; exact hA n
      · intro q hq htq
        rcases List.mem_cons.mp hq with rfl | hq
        · rw [ht] at htq; cases htq
        · exact hB q hq htq
      · simp [List.filter_cons, ht, hC]
    · -- tracked target
      have hsrc_step : (stepPair add pull tracked s p).grads p.1 = s.grads p.1 := by
        rw [hG]; exact accumG_other add hacc p.1 (Ne.symm (hst.1 p (by simp) ht))
      have hfinal : (rest.foldl (stepPair add pull tracked) (stepPair add pull tracked s p)).grads p.1 = some gy := by
        rw [hsrc_rest, hsrc_step, hgy]
      refine ⟨fun n => ?_, ?_, ?_⟩
      · by_cases hn : p.2.1 = n
        · subst hn
          have : contrib pull tracked (rest.foldl (stepPair add pull tracked) (stepPair add pull tracked s p)).grads (p :: rest) p.2.1
              = g :: contrib pull tracked (rest.foldl (stepPair add pull tracked) (stepPair add pull tracked s p)).grads rest p.2.1 := by
            simp [contrib, List.filterMap_cons, ht, hfinal, hpull]
          rw [this]
          have hA' := hA p.2.1
          rw [hG] at hA'
          exact accumG_sums add hacc hA'
        · have : contrib pull tracked (rest.foldl (stepPair add pull tracked) (stepPair add pull tracked s p)).grads (p :: rest) n
              = contrib pull tracked (rest.foldl (stepPair add pull tracked) (stepPair add pull tracked s p)).grads rest n := by
            simp [contrib, List.filterMap_cons, hn]
          rw [this]
          have hA' := hA n
          rw [hG, accumG_other add hacc n (Ne.symm hn)] at hA'
          exact hA'
      · intro q hq htq
        rcases List.mem_cons.mp hq with rfl | hq
        · exact ⟨gy, g, hfinal, hpull⟩
        · exact hB q hq htq
      · rw [hC, hcalls]; simp [List.filter_cons, ht]; omega

end generic
end Qeep
