import QeepProofs.Slice
/-!
# Blocks (`dataAt` with a prefix index) and the 2-D matrix product kernel
-/
set_option linter.unusedSimpArgs false

namespace Qeep
variable {α : Type}

/-- the offset of a prefix index depends only on the dims it indexes -/
theorem offset_prefix : ∀ (bd rest pre : List Nat), pre.length = bd.length → offset (bd ++ rest) pre = offset bd pre
  | [], rest, [], _ => by simp [offset]
  | [], _, _ :: _, h => by simp at h
  | _ :: _, _, [], h => by simp at h
  | d :: bd, rest, i :: is, h => by
    have h' : is.length = bd.length := by simpa using h
    simp only [List.cons_append, offset]
    rw [offset_prefix bd rest is h']
    have : (bd ++ rest).take is.length = bd.take is.length := by
      rw [h', List.take_append_of_le_length (Nat.le_refl _), List.take_length]
    rw [this]

/-- indexing a prefix selects a block: the rest of the index addresses inside it -/
theorem at?_prefix : ∀ (bd rest : List Nat) (data : List α) (pre suf : List Nat), Valid bd pre →
    data.length = prod (bd ++ rest) → suf.length = rest.length →
    (⟨bd ++ rest, data⟩ : Tensor α).at? (pre ++ suf) =
      (⟨rest, chunk data (prod rest) (val bd.reverse pre.reverse)⟩ : Tensor α).at? suf
  | _, rest, data, _, suf, .nil, hl, hs => by
    simp only [List.nil_append, List.reverse_nil, val]
    have : chunk data (prod rest) 0 = data := by
      unfold chunk; simp only [Nat.zero_mul, List.drop_zero]
      rw [List.take_of_length_le (by simp [prod] at hl; omega)]
    rw [this]
  | _, rest, data, _, suf, .cons (d := d) (s := i) (ds := bd) (ss := is) hi hv, hl, hs => by
    simp only [List.cons_append, prod] at hl ⊢
    rw [at?_cons d (bd ++ rest) data i (is ++ suf) hi (by simp [hv.length_eq, hs])]
    have hcl : (chunk data (prod (bd ++ rest)) i).length = prod (bd ++ rest) := chunk_length data _ i d hl hi
    rw [at?_prefix bd rest _ is suf hv hcl hs]
    congr 2
    -- chunk of a chunk
    simp only [List.reverse_cons]
    rw [val_append d i (by simp [hv.length_eq]), prod_reverse]
    unfold chunk
    rw [prod_append]
    have hvl := val_lt (valid_reverse' hv)
    rw [prod_reverse] at hvl
    rw [List.drop_take, List.drop_drop, List.take_take]
    congr 1
    · have : (val bd.reverse is.reverse + 1) * prod rest ≤ prod bd * prod rest := Nat.mul_le_mul_right _ hvl
      rw [Nat.add_mul] at this
      omega
    · congr 1
      rw [Nat.add_mul, Nat.mul_assoc]
      have : prod bd * (i * prod rest) = i * (prod bd * prod rest) := by
        rw [← Nat.mul_assoc, Nat.mul_comm (prod bd) i, Nat.mul_assoc]
      omega
where
  valid_reverse' : ∀ {ds st : List Nat}, Valid ds st → Valid ds.reverse st.reverse
    | _, _, .nil => .nil
    | _, _, .cons h hv => by
      simp only [List.reverse_cons]
      exact valid_append (valid_reverse' hv) h

end Qeep

namespace Qeep
variable {α : Type}

theorem block?_prefix (bd rest : List Nat) (data : List α) (pre : List Nat) (hv : Valid bd pre)
    (hl : data.length = prod (bd ++ rest)) :
    (⟨bd ++ rest, data⟩ : Tensor α).block? pre = some ⟨rest, chunk data (prod rest) (val bd.reverse pre.reverse)⟩ := by
  have hlen := hv.length_eq
  have hvr : Valid bd.reverse pre.reverse := at?_prefix.valid_reverse' hv
  have hoff : offset (bd ++ rest) pre = some (val bd.reverse pre.reverse) := by
    rw [offset_prefix bd rest pre hlen]; exact offset_full hvr
  have hlt := val_lt hvr
  rw [prod_reverse] at hlt
  have hdrop : (bd ++ rest).drop pre.length = rest := by rw [hlen]; simp
  unfold Tensor.block?
  simp only [List.length_append, hlen, Nat.le_add_right, if_true, hoff, Option.bind_some, hdrop]
  have hcl : (chunk data (prod rest) (val bd.reverse pre.reverse)).length = prod rest :=
    chunk_length data (prod rest) _ (prod bd) (by rw [hl, prod_append]) hlt
  simp [hcl]

section
variable [Scalar α]

/-- **the 2-D product kernel** (`matMulDataOf2DInputs`): entry `(i, j)` is the left fold `Σ_p A[i,p]·B[p,j]` from 0 -/
theorem matMul2D_spec (m n k : Nat) (a b : List α) (A B : Nat → Nat → α)
    (ha : a.length = m * n) (hb : b.length = n * k) (hm : 0 < m) (hn : 0 < n)
    (hA : ∀ i p, i < m → p < n → a[i * n + p]? = some (A i p))
    (hB : ∀ p j, p < n → j < k → b[p * k + j]? = some (B p j)) :
    matMul2D m n k a b = some ((List.range (m * k)).map (fun ij =>
      (List.range n).foldl (fun s p => Scalar.add s (Scalar.mul (A (ij / k) p) (B p (ij % k)))) Scalar.zero)) := by
  unfold matMul2D
  rw [if_pos ⟨ha, hb, hm, hn⟩]
  apply allSome_range
  intro ij hij
  have hk : 0 < k := by
    rcases Nat.eq_zero_or_pos k with h | h
    · subst h; simp at hij
    · exact h
  have hi : ij / k < m := by
    rw [Nat.div_lt_iff_lt_mul hk]; exact hij
  have hj : ij % k < k := Nat.mod_lt _ hk
  simp only []
  have gen : ∀ (l : List Nat) (s0 : α), (∀ p ∈ l, p < n) →
      l.foldl (fun (acc : Option α) p =>
        acc.bind (fun s => (a[ij / k * n + p]?).bind (fun x => (b[p * k + ij % k]?).map (fun y => Scalar.add s (Scalar.mul x y))))) (some s0)
      = some (l.foldl (fun s p => Scalar.add s (Scalar.mul (A (ij / k) p) (B p (ij % k)))) s0) := by
    intro l
    induction l with
    | nil => intro s0 _; rfl
    | cons p ps ih =>
      intro s0 hps
      have hp : p < n := hps p (by simp)
      simp only [List.foldl_cons, Option.bind_some, hA _ _ hi hp, hB _ _ hp hj, Option.map_some]
      exact ih _ (fun q hq => hps q (List.mem_cons_of_mem _ hq))
  exact gen (List.range n) Scalar.zero (fun p hp => List.mem_range.mp hp)

end
end Qeep

namespace Qeep
variable {α : Type} [Scalar α]

theorem at?_rank2 (m n : Nat) (a : List α) (i p : Nat) (hi : i < m) (hp : p < n) :
    (⟨[m, n], a⟩ : Tensor α).at? [i, p] = a[i * n + p]? := by
  simp [Tensor.at?, offset, hi, hp, prod]

/-- **Specification of the batched matrix product run** (`linearLast2DimsMatMulElemGenerator` + `matMulDataOf2DInputs`):
    for operands `bd ++ [m,n]` and `bd ++ [n,k]` (equal batch dims — what `broadcastForMatMul` produces) of every
    batch rank and all sizes: no panic, dims `bd ++ [m,k]`, and for every batch index `pre` and every `i < m`,
    `j < k` the element at `pre ++ [i,j]` is the left fold `Σ_p A[pre,i,p]·B[pre,p,j]` from 0. -/
theorem matMulRaw_spec (bd : List Nat) (m n k : Nat) (d1 d2 : List α)
    (hbd : ∀ d ∈ bd, 0 < d) (hm : 0 < m) (hn : 0 < n) (hk : 0 < k)
    (h1 : d1.length = prod (bd ++ [m, n])) (h2 : d2.length = prod (bd ++ [n, k]))
    (A B : List Nat → Nat → Nat → α)
    (hA : ∀ pre i p, Valid bd pre → i < m → p < n → (⟨bd ++ [m, n], d1⟩ : Tensor α).at? (pre ++ [i, p]) = some (A pre i p))
    (hB : ∀ pre p j, Valid bd pre → p < n → j < k → (⟨bd ++ [n, k], d2⟩ : Tensor α).at? (pre ++ [p, j]) = some (B pre p j)) :
    ∃ data, (⟨bd ++ [m, n], d1⟩ : Tensor α).matMulRaw ⟨bd ++ [n, k], d2⟩ = some ⟨bd ++ [m, k], data⟩ ∧
      data.length = prod (bd ++ [m, k]) ∧
      ∀ pre i j, Valid bd pre → i < m → j < k →
        (⟨bd ++ [m, k], data⟩ : Tensor α).at? (pre ++ [i, j]) =
          some ((List.range n).foldl (fun s p => Scalar.add s (Scalar.mul (A pre i p) (B pre p j))) Scalar.zero) := by
  have hposR : ∀ d ∈ bd.reverse, 0 < d := fun d hd => hbd d (by simpa using hd)
  -- the batch index visited at step v, big-endian
  let pre : Nat → List Nat := fun v => (iterN (incr bd.reverse) v (zerosLike bd.reverse)).reverse
  have hpreV : ∀ v, Valid bd (pre v) := by
    intro v
    have := at?_prefix.valid_reverse' (valid_iter hposR v)
    simpa [pre] using this
  have hpreval : ∀ v, v < prod bd → val bd.reverse (pre v).reverse = v := by
    intro v hv
    simp only [pre, List.reverse_reverse]
    rw [val_iter hposR v, prod_reverse, Nat.mod_eq_of_lt hv]
  -- the row (one matrix product) produced at step v
  let row : Nat → List α := fun v => (List.range (m * k)).map (fun ij =>
    (List.range n).foldl (fun s p => Scalar.add s (Scalar.mul (A (pre v) (ij / k) p) (B (pre v) p (ij % k)))) Scalar.zero)
  have hstep : ∀ v, v < prod bd →
      ((⟨bd ++ [m, n], d1⟩ : Tensor α).block? (pre v)).bind (fun a =>
        ((⟨bd ++ [n, k], d2⟩ : Tensor α).block? (pre v)).bind (fun b => matMul2D m n k a.data b.data)) = some (row v) := by
    intro v hv
    rw [block?_prefix bd [m, n] d1 (pre v) (hpreV v) h1, block?_prefix bd [n, k] d2 (pre v) (hpreV v) h2]
    simp only [Option.bind_some]
    have hvlt : val bd.reverse (pre v).reverse < prod bd := by rw [hpreval v hv]; exact hv
    have hl1 : (chunk d1 (prod [m, n]) (val bd.reverse (pre v).reverse)).length = m * n := by
      have := chunk_length d1 (prod [m, n]) _ (prod bd) (by rw [h1, prod_append]) hvlt
      simpa [prod] using this
    have hl2 : (chunk d2 (prod [n, k]) (val bd.reverse (pre v).reverse)).length = n * k := by
      have := chunk_length d2 (prod [n, k]) _ (prod bd) (by rw [h2, prod_append]) hvlt
      simpa [prod] using this
    apply matMul2D_spec m n k _ _ (A (pre v)) (B (pre v)) hl1 hl2 hm hn
    · intro i p hi hp
      rw [← at?_rank2 m n _ i p hi hp, ← at?_prefix bd [m, n] d1 (pre v) [i, p] (hpreV v) h1 rfl]
      exact hA (pre v) i p (hpreV v) hi hp
    · intro p j hp hj
      rw [← at?_rank2 n k _ p j hp hj, ← at?_prefix bd [n, k] d2 (pre v) [p, j] (hpreV v) h2 rfl]
      exact hB (pre v) p j (hpreV v) hp hj
  -- assemble
  have hdl1 : (bd ++ [m, n]).dropLast.dropLast = bd := by
    simp [List.dropLast_append_cons, List.dropLast_cons_of_ne_nil]
  have hr1 : (bd ++ [m, n]).reverse = n :: m :: bd.reverse := by simp
  have hr2 : (bd ++ [n, k]).reverse = k :: n :: bd.reverse := by simp
  have hrun : (⟨bd ++ [m, n], d1⟩ : Tensor α).matMulRaw ⟨bd ++ [n, k], d2⟩
      = some ⟨bd ++ [m, k], ((List.range (prod bd)).map row).flatten⟩ := by
    unfold Tensor.matMulRaw
    simp only [hdl1, hr1, hr2]
    rw [iterGen_eq]
    have : ∀ v, v < prod bd →
        ((⟨bd ++ [m, n], d1⟩ : Tensor α).block? (iterN (incr bd.reverse) v (zerosLike bd)).reverse).bind (fun a =>
          ((⟨bd ++ [n, k], d2⟩ : Tensor α).block? (iterN (incr bd.reverse) v (zerosLike bd)).reverse).bind (fun b =>
            matMul2D m n k a.data b.data)) = some (row v) := by
      intro v hv
      have := hstep v hv
      simp only [pre, zerosLike_reverse] at this
      exact this
    rw [allSome_range _ _ row this]
    rfl
  have hrowlen : ∀ b ∈ (List.range (prod bd)).map row, b.length = m * k := by
    intro b hb
    obtain ⟨v, _, rfl⟩ := List.mem_map.mp hb
    simp [row]
  refine ⟨_, hrun, ?_, ?_⟩
  · rw [flatten_length_const' _ _ hrowlen]; simp [prod_append, prod]
  · intro q i j hq hi hj
    have hlen : ((List.range (prod bd)).map row).flatten.length = prod (bd ++ [m, k]) := by
      rw [flatten_length_const' _ _ hrowlen]; simp [prod_append, prod]
    rw [at?_prefix bd [m, k] _ q [i, j] hq hlen rfl]
    have hv := val_lt (at?_prefix.valid_reverse' hq)
    rw [prod_reverse] at hv
    have hmk : prod [m, k] = m * k := by simp [prod]
    rw [hmk, chunk_flatten _ (m * k) _ hrowlen (by simpa using hv)]
    have hsel : ((List.range (prod bd)).map row)[val bd.reverse q.reverse]! = row (val bd.reverse q.reverse) := by
      simp [List.getElem!_eq_getElem?_getD, List.getElem?_map, List.getElem?_range hv]
    rw [hsel, at?_rank2 m k _ i j hi hj]
    -- the batch index visited at that step is q
    have hq' : pre (val bd.reverse q.reverse) = q := by
      simp only [pre]
      rw [iter_val hposR (at?_prefix.valid_reverse' hq)]; simp
    have hij : i * k + j < m * k := by
      calc i * k + j < i * k + k := by omega
        _ = (i + 1) * k := by rw [Nat.add_mul]; omega
        _ ≤ m * k := Nat.mul_le_mul_right _ hi
    simp only [row, List.getElem?_map, List.getElem?_range hij, Option.map_some, hq']
    have e1 : (i * k + j) / k = i := by
      rw [Nat.mul_comm, Nat.mul_add_div hk, Nat.div_eq_of_lt hj]; simp
    have e2 : (i * k + j) % k = j := by
      rw [Nat.mul_comm, Nat.mul_add_mod, Nat.mod_eq_of_lt hj]
    rw [e1, e2]
where
  flatten_length_const' {β : Type} (rows : List (List β)) (sz : Nat) (h : ∀ b ∈ rows, b.length = sz) :
      rows.flatten.length = rows.length * sz := by
    rw [List.length_flatten]
    have : rows.map List.length = List.replicate rows.length sz := by
      apply List.ext_getElem
      · simp
      · intro i hi1 hi2
        simp only [List.getElem_map, List.getElem_replicate]
        exact h _ (List.getElem_mem _)
    rw [this, List.sum_replicate_nat]

end Qeep

namespace Qeep
variable {α : Type} [Scalar α]

theorem zip_eq_range_map {β γ : Type} (a : List β) (b : List γ) (n : Nat) (A : Nat → β) (B : Nat → γ)
    (ha : a.length = n) (hb : b.length = n) (hA : ∀ p, p < n → a[p]? = some (A p)) (hB : ∀ p, p < n → b[p]? = some (B p)) :
    List.zip a b = (List.range n).map (fun p => (A p, B p)) := by
  apply List.ext_getElem?
  intro p
  by_cases hp : p < n
  · simp [List.getElem?_zip_eq_some, List.getElem?_range hp, hA p hp, hB p hp, List.getElem?_map]
  · rw [List.getElem?_eq_none (by simp [ha, hb]; omega), List.getElem?_eq_none (by simp; omega)]

/-- **Specification of the Dot run**: operands `bd ++ [n]` of equal dims: no panic, dims `bd`, element at `pre` is the
    left fold `Σ_p a[pre,p]·b[pre,p]` from 0 -/
theorem dotRaw_spec (bd : List Nat) (n : Nat) (d1 d2 : List α) (hbd : ∀ d ∈ bd, 0 < d) (hn : 0 < n)
    (h1 : d1.length = prod (bd ++ [n])) (h2 : d2.length = prod (bd ++ [n]))
    (A B : List Nat → Nat → α)
    (hA : ∀ pre p, Valid bd pre → p < n → (⟨bd ++ [n], d1⟩ : Tensor α).at? (pre ++ [p]) = some (A pre p))
    (hB : ∀ pre p, Valid bd pre → p < n → (⟨bd ++ [n], d2⟩ : Tensor α).at? (pre ++ [p]) = some (B pre p)) :
    ∃ data, (⟨bd ++ [n], d1⟩ : Tensor α).dotRaw ⟨bd ++ [n], d2⟩ = some ⟨bd, data⟩ ∧ data.length = prod bd ∧
      ∀ pre, Valid bd pre →
        (⟨bd, data⟩ : Tensor α).at? pre =
          some ((List.range n).foldl (fun s p => Scalar.add s (Scalar.mul (A pre p) (B pre p))) Scalar.zero) := by
  have hposR : ∀ d ∈ bd.reverse, 0 < d := fun d hd => hbd d (by simpa using hd)
  let pre : Nat → List Nat := fun v => (iterN (incr bd.reverse) v (zerosLike bd.reverse)).reverse
  have hpreV : ∀ v, Valid bd (pre v) := by
    intro v
    have := at?_prefix.valid_reverse' (valid_iter hposR v)
    simpa [pre] using this
  have hpreval : ∀ v, v < prod bd → val bd.reverse (pre v).reverse = v := by
    intro v hv
    simp only [pre, List.reverse_reverse]
    rw [val_iter hposR v, prod_reverse, Nat.mod_eq_of_lt hv]
  let el : Nat → α := fun v => (List.range n).foldl (fun s p => Scalar.add s (Scalar.mul (A (pre v) p) (B (pre v) p))) Scalar.zero
  have at1 : ∀ (a : List α) (p : Nat), p < n → (⟨[n], a⟩ : Tensor α).at? [p] = a[p]? := by
    intro a p hp; simp [Tensor.at?, offset, hp, prod]
  have hstep : ∀ v, v < prod bd →
      ((⟨bd ++ [n], d1⟩ : Tensor α).block? (pre v)).bind (fun r1 =>
        ((⟨bd ++ [n], d2⟩ : Tensor α).block? (pre v)).bind (fun r2 => dot1D r1.data r2.data)) = some (el v) := by
    intro v hv
    rw [block?_prefix bd [n] d1 (pre v) (hpreV v) h1, block?_prefix bd [n] d2 (pre v) (hpreV v) h2]
    simp only [Option.bind_some]
    have hvlt : val bd.reverse (pre v).reverse < prod bd := by rw [hpreval v hv]; exact hv
    have hl1 : (chunk d1 (prod [n]) (val bd.reverse (pre v).reverse)).length = n := by
      have := chunk_length d1 (prod [n]) _ (prod bd) (by rw [h1, prod_append]) hvlt
      simpa [prod] using this
    have hl2 : (chunk d2 (prod [n]) (val bd.reverse (pre v).reverse)).length = n := by
      have := chunk_length d2 (prod [n]) _ (prod bd) (by rw [h2, prod_append]) hvlt
      simpa [prod] using this
    unfold dot1D
    rw [if_pos (by rw [hl1, hl2]; exact Nat.le_refl n)]
    rw [zip_eq_range_map _ _ n (A (pre v)) (B (pre v)) hl1 hl2
      (fun p hp => by
        rw [← at1 _ p hp, ← at?_prefix bd [n] d1 (pre v) [p] (hpreV v) h1 rfl]; exact hA (pre v) p (hpreV v) hp)
      (fun p hp => by
        rw [← at1 _ p hp, ← at?_prefix bd [n] d2 (pre v) [p] (hpreV v) h2 rfl]; exact hB (pre v) p (hpreV v) hp)]
    rw [List.foldl_map]
  have hdl : (bd ++ [n]).dropLast = bd := by simp
  have hrun : (⟨bd ++ [n], d1⟩ : Tensor α).dotRaw ⟨bd ++ [n], d2⟩ = some ⟨bd, (List.range (prod bd)).map el⟩ := by
    unfold Tensor.dotRaw
    simp only [hdl]
    rw [iterGen_eq]
    have : ∀ v, v < prod bd →
        ((⟨bd ++ [n], d1⟩ : Tensor α).block? (iterN (incr bd.reverse) v (zerosLike bd)).reverse).bind (fun r1 =>
          ((⟨bd ++ [n], d2⟩ : Tensor α).block? (iterN (incr bd.reverse) v (zerosLike bd)).reverse).bind (fun r2 =>
            dot1D r1.data r2.data)) = some (el v) := by
      intro v hv
      have := hstep v hv
      simp only [pre, zerosLike_reverse] at this
      exact this
    rw [allSome_range _ _ el this]
    rfl
  refine ⟨_, hrun, by simp, ?_⟩
  intro q hq
  have hvr := at?_prefix.valid_reverse' hq
  have hv := val_lt hvr
  rw [prod_reverse] at hv
  have := Tensor.at?_reverse (⟨bd, (List.range (prod bd)).map el⟩ : Tensor α) (st := q.reverse) (by simpa using hvr)
  rw [List.reverse_reverse] at this
  rw [this]
  simp only [List.getElem?_map, List.getElem?_range hv, Option.map_some, el]
  have hq' : pre (val bd.reverse q.reverse) = q := by
    simp only [pre]
    rw [iter_val hposR hvr]; simp
  rw [hq']

end Qeep
