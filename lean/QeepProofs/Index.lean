import Qeep.Forward
/-!
# Index arithmetic: odometers, offsets, generator runs

Core-only. The central facts:

* `val_incr`    : one step of the Go carry loop adds one to the row-major position (mod the element count);
* `offset_rev`  : Go's `dataAt` walk (big-endian) reads the element at that position;
* `iterGen_some`: hence a generator run of `n` steps returns the first `n` positions in order.
-/

namespace Qeep

/-- row-major position of a little-endian multi-index -/
def val : List Nat → List Nat → Nat
  | d :: ds, s :: ss => s + d * val ds ss
  | _, _ => 0

/-- `ss` is a valid little-endian index into dims `ds` -/
inductive Valid : List Nat → List Nat → Prop
  | nil : Valid [] []
  | cons {d s ds ss} : s < d → Valid ds ss → Valid (d :: ds) (s :: ss)

theorem Valid.length_eq : ∀ {ds ss}, Valid ds ss → ss.length = ds.length
  | _, _, .nil => rfl
  | _, _, .cons _ h => by simp [h.length_eq]

theorem prod_pos : ∀ {ds : List Nat}, (∀ d ∈ ds, 0 < d) → 0 < prod ds
  | [], _ => by simp [prod]
  | d :: ds, h => by
    have h1 : 0 < d := h d (by simp)
    have h2 : 0 < prod ds := prod_pos (fun x hx => h x (by simp [hx]))
    simp only [prod]; exact Nat.mul_pos h1 h2

theorem prod_append (a b : List Nat) : prod (a ++ b) = prod a * prod b := by
  induction a with
  | nil => simp [prod]
  | cons d ds ih => simp [prod, ih, Nat.mul_assoc]

theorem prod_reverse (a : List Nat) : prod a.reverse = prod a := by
  induction a with
  | nil => rfl
  | cons d ds ih => simp [prod_append, prod, ih, Nat.mul_comm]

theorem val_lt : ∀ {ds ss}, Valid ds ss → val ds ss < prod ds
  | _, _, .nil => by simp [val, prod]
  | _, _, .cons (d := d) (s := s) (ds := ds) (ss := ss) h hv => by
    have ih := val_lt hv
    simp only [val, prod]
    calc s + d * val ds ss < d + d * val ds ss := by omega
      _ = d * (val ds ss + 1) := by rw [Nat.mul_add]; omega
      _ ≤ d * prod ds := Nat.mul_le_mul_left d ih

theorem valid_zeros : ∀ {ds : List Nat}, (∀ d ∈ ds, 0 < d) → Valid ds (zerosLike ds)
  | [], _ => .nil
  | d :: ds, h => by
    simp only [zerosLike, List.map_cons]
    exact .cons (h d (by simp)) (valid_zeros (fun x hx => h x (by simp [hx])))

theorem val_zeros (ds : List Nat) : val ds (zerosLike ds) = 0 := by
  induction ds with
  | nil => rfl
  | cons d ds ih => simp [zerosLike] at ih ⊢; simp [val, ih]

theorem valid_incr : ∀ {ds ss}, Valid ds ss → Valid ds (incr ds ss)
  | _, _, .nil => by simp [incr]; exact .nil
  | _, _, .cons (d := d) (s := s) h hv => by
    simp only [incr]
    split
    · exact .cons (by omega) hv
    · exact .cons (by omega) (valid_incr hv)

/-- one step of the carry loop = +1 on the row-major position, wrapping at the end -/
theorem val_incr : ∀ {ds ss}, Valid ds ss → val ds (incr ds ss) = (val ds ss + 1) % prod ds
  | _, _, .nil => by simp [val, prod]
  | _, _, .cons (d := d) (s := s) (ds := ds) (ss := ss) h hv => by
    have ih := val_incr hv
    have hlt := val_lt hv
    simp only [incr]
    split
    · simp only [val, prod]
      have : s + 1 + d * val ds ss < d * prod ds := by
        calc s + 1 + d * val ds ss < d + d * val ds ss := by omega
          _ = d * (val ds ss + 1) := by rw [Nat.mul_add]; omega
          _ ≤ d * prod ds := Nat.mul_le_mul_left d hlt
      rw [Nat.mod_eq_of_lt (by omega)]; omega
    · have hs : s + 1 = d := by omega
      simp only [val, prod, ih]
      subst hs
      have : s + (s + 1) * val ds ss + 1 = (s + 1) * (val ds ss + 1) := by
        rw [Nat.mul_add]; omega
      rw [this, Nat.mul_mod_mul_left]; simp

/-- `k` steps from the all-zero state -/
def iterN {σ : Type} (f : σ → σ) : Nat → σ → σ
  | 0, s => s
  | n + 1, s => iterN f n (f s)

theorem iterN_succ' {σ : Type} (f : σ → σ) (n : Nat) (s : σ) : iterN f (n + 1) s = f (iterN f n s) := by
  induction n generalizing s with
  | zero => rfl
  | succ n ih => simp only [iterN] at ih ⊢; rw [ih]

theorem valid_iter {ds : List Nat} (h : ∀ d ∈ ds, 0 < d) (k : Nat) : Valid ds (iterN (incr ds) k (zerosLike ds)) := by
  induction k with
  | zero => exact valid_zeros h
  | succ k ih => rw [iterN_succ']; exact valid_incr ih

/-- after `k` steps the odometer shows position `k` (mod the element count) -/
theorem val_iter {ds : List Nat} (h : ∀ d ∈ ds, 0 < d) (k : Nat) :
    val ds (iterN (incr ds) k (zerosLike ds)) = k % prod ds := by
  induction k with
  | zero => simp [iterN, val_zeros]
  | succ k ih =>
    rw [iterN_succ', val_incr (valid_iter h k), ih, Nat.mod_add_mod]

/-! ## `offset` (Go's big-endian `dataAt` walk) against `val` -/

theorem val_append : ∀ {ds ss : List Nat} (d s : Nat), ss.length = ds.length →
    val (ds ++ [d]) (ss ++ [s]) = val ds ss + prod ds * s
  | [], [], d, s, _ => by simp [val, prod]
  | d0 :: ds, s0 :: ss, d, s, h => by
    have h' : ss.length = ds.length := by simpa using h
    simp only [List.cons_append, val, prod, val_append d s h', Nat.mul_add, Nat.mul_assoc]
    omega
  | [], _ :: _, _, _, h => by simp at h
  | _ :: _, [], _, _, h => by simp at h

theorem valid_append : ∀ {ds ss : List Nat} {d s : Nat}, Valid ds ss → s < d → Valid (ds ++ [d]) (ss ++ [s])
  | _, _, _, _, .nil, h => .cons h .nil
  | _, _, _, _, .cons h0 hv, h => .cons h0 (valid_append hv h)

/-- big-endian validity -/
theorem valid_reverse_cons {ds ss : List Nat} {d s : Nat} (hv : Valid ds.reverse ss.reverse) (h : s < d) :
    Valid (d :: ds).reverse (s :: ss).reverse := by
  simp only [List.reverse_cons]; exact valid_append hv h

/-- full big-endian index: `offset` is the row-major position -/
theorem offset_full : ∀ {ds is : List Nat}, Valid ds.reverse is.reverse →
    offset ds is = some (val ds.reverse is.reverse)
  | [], [], _ => by simp [offset, val]
  | [], _ :: _, h => by have := h.length_eq; simp at this
  | _ :: _, [], h => by have := h.length_eq; simp at this
  | d :: ds, i :: is, h => by
    have hlen : is.length = ds.length := by
      have := h.length_eq; simp at this; exact this
    simp only [List.reverse_cons] at h
    -- split validity of the appended lists
    have hsplit : Valid ds.reverse is.reverse ∧ i < d := by
      generalize hA : ds.reverse = A at h
      generalize hB : is.reverse = B at h
      have hl : B.length = A.length := by rw [← hA, ← hB]; simp [hlen]
      clear hA hB hlen
      induction A generalizing B with
      | nil =>
        cases B with
        | nil => cases h with | cons h1 h2 => exact ⟨.nil, h1⟩
        | cons _ _ => simp at hl
      | cons a A ih =>
        cases B with
        | nil => simp at hl
        | cons b B =>
          cases h with
          | cons h1 h2 =>
            have := ih B h2 (by simpa using hl)
            exact ⟨.cons h1 this.1, this.2⟩
    obtain ⟨hv, hi⟩ := hsplit
    have ih := offset_full hv
    simp only [offset, hi, if_true, ih, Option.map_some, List.reverse_cons]
    rw [val_append d i (by simp [hlen]), hlen, List.take_length, prod_reverse]
    congr 1; rw [Nat.mul_comm]; omega

theorem Tensor.at?_reverse {α : Type} (t : Tensor α) {st : List Nat} (hv : Valid t.dims.reverse st) :
    t.at? st.reverse = t.data[val t.dims.reverse st]? := by
  have hl := hv.length_eq
  have hv' : Valid t.dims.reverse st.reverse.reverse := by simpa using hv
  unfold Tensor.at?
  simp only [List.length_reverse] at hl ⊢
  simp [hl, offset_full hv']

theorem zerosLike_eq (l : List Nat) : zerosLike l = List.replicate l.length 0 := by
  induction l with
  | nil => rfl
  | cons d ds ih => simp only [zerosLike, List.map_cons, List.length_cons, List.replicate_succ] at ih ⊢; rw [ih]

theorem zerosLike_reverse (l : List Nat) : zerosLike l.reverse = zerosLike l := by
  simp [zerosLike_eq]

/-! ## generator runs -/

theorem allSome_map_some {β : Type} (l : List β) : allSome (l.map some) = some l := by
  induction l with
  | nil => rfl
  | cons x xs ih => simp [allSome, ih]

theorem iterGen_eq {σ β : Type} (step : σ → σ) (out : σ → Option β) (n : Nat) (s : σ) :
    iterGen step out n s = (List.range n).map (fun k => out (iterN step k s)) := by
  induction n generalizing s with
  | zero => rfl
  | succ n ih =>
    rw [List.range_succ_eq_map, List.map_cons, List.map_map]
    simp only [iterGen, ih, iterN]
    rfl

/-- a run of the linear generator of `t` for `n ≤ numElems` steps yields the first `n` elements in order -/
theorem genData_linear {α : Type} (t : Tensor α) (hwf : t.WF) (n : Nat) (hn : n ≤ prod t.dims) :
    genData t (incr t.dims.reverse) n = some (t.data.take n) := by
  have hpos : ∀ d ∈ t.dims.reverse, 0 < d := fun d hd => hwf.2 d (by simpa using hd)
  unfold genData
  rw [iterGen_eq]
  have : (List.range n).map (fun k => t.at? (iterN (incr t.dims.reverse) k (zerosLike t.dims)).reverse)
      = (t.data.take n).map some := by
    apply List.ext_getElem
    · simp; rw [hwf.1]; omega
    · intro i h1 h2
      simp only [List.length_map, List.length_range] at h1
      have hz : zerosLike t.dims = zerosLike t.dims.reverse := (zerosLike_reverse t.dims).symm
      simp only [List.getElem_map, List.getElem_range]
      rw [hz, Tensor.at?_reverse t (valid_iter hpos i), val_iter hpos i, prod_reverse,
        Nat.mod_eq_of_lt (by omega)]
      simp [List.getElem_take]
  rw [this, allSome_map_some]

end Qeep

namespace Qeep

theorem val_inj : ∀ {ds a b : List Nat}, Valid ds a → Valid ds b → val ds a = val ds b → a = b
  | _, _, _, .nil, .nil, _ => rfl
  | _, _, _, .cons (d := d) (s := x) (ds := ds) (ss := xs) hx hvx, .cons (s := y) (ss := ys) hy hvy, h => by
    simp only [val] at h
    have h1 : (x + d * val ds xs) % d = (y + d * val ds ys) % d := by rw [h]
    rw [Nat.add_mul_mod_self_left, Nat.add_mul_mod_self_left, Nat.mod_eq_of_lt hx, Nat.mod_eq_of_lt hy] at h1
    subst h1
    have hd : 0 < d := by omega
    have h2 : d * val ds xs = d * val ds ys := by omega
    have h3 := Nat.eq_of_mul_eq_mul_left hd h2
    rw [val_inj hvx hvy h3]

/-- the odometer reaches every valid index, at step number `val` -/
theorem iter_val {ds u : List Nat} (hpos : ∀ d ∈ ds, 0 < d) (hu : Valid ds u) :
    iterN (incr ds) (val ds u) (zerosLike ds) = u := by
  apply val_inj (valid_iter hpos _) hu
  rw [val_iter hpos, Nat.mod_eq_of_lt (val_lt hu)]

theorem allSome_range {β : Type} (n : Nat) (f : Nat → Option β) (g : Nat → β) (h : ∀ k, k < n → f k = some (g k)) :
    allSome ((List.range n).map f) = some ((List.range n).map g) := by
  have : (List.range n).map f = ((List.range n).map g).map some := by
    rw [List.map_map]
    apply List.map_congr_left
    intro k hk
    simp only [List.mem_range] at hk
    simp [h k hk]
  rw [this, allSome_map_some]

end Qeep
