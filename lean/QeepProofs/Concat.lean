import QeepProofs.Patch
/-!
# `initConcatResultTensor`: the recursive concatenation (`fillCat`)
-/
set_option linter.unusedSimpArgs false

namespace Qeep
variable {α : Type}

/-- which operand holds position `j` along the concatenation dimension, and where inside it -/
def locate : List Nat → Nat → Option (Nat × Nat)
  | [], _ => none
  | l :: ls, j => if j < l then some (0, j) else (locate ls (j - l)).map (fun p => (p.1 + 1, p.2))

/-- operand and operand-local index of a result index -/
def route : Nat → List Nat → List Nat → Option (Nat × List Nat)
  | 0, lens, j :: is => (locate lens j).map (fun p => (p.1, p.2 :: is))
  | k + 1, lens, i :: is => (route k lens is).map (fun p => (p.1, i :: p.2))
  | _, _, [] => none

/-- result dims: `ds` with the total length inserted at depth `k` -/
def rdimsOf : Nat → List Nat → Nat → List Nat
  | 0, tl, tot => tot :: tl
  | k + 1, d :: ds, tot => d :: rdimsOf k ds tot
  | _ + 1, [], _ => []

/-- the operands agree on every dimension except the one at depth `k` and hold as many elements as their dims say -/
def SeedsOK : Nat → List Nat → List (List Nat × List α) → Prop
  | 0, tl, seeds => ∀ s ∈ seeds, ∃ l, s.1 = l :: tl ∧ s.2.length = l * prod tl
  | k + 1, d :: ds, seeds =>
      (∀ s ∈ seeds, ∃ sds, s.1 = d :: sds ∧ s.2.length = d * prod sds) ∧
      ∀ i, i < d → SeedsOK k ds (seeds.map (fun s => (s.1.tail, chunk s.2 (prod s.1.tail) i)))
  | _ + 1, [], _ => False

/-- lengths of the operands along the concatenation dimension -/
def lensAt : Nat → List (List Nat × List α) → List Nat
  | k, seeds => seeds.map (fun s => s.1.getD k 0)

theorem chunk_append_left (a b : List α) (sz j l : Nat) (ha : a.length = l * sz) (hj : j < l) :
    chunk (a ++ b) sz j = chunk a sz j := by
  unfold chunk
  have h1 : (j + 1) * sz ≤ l * sz := Nat.mul_le_mul_right _ hj
  rw [Nat.add_mul] at h1
  rw [List.drop_append_of_le_length (by omega)]
  rw [List.take_append_of_le_length (by simp [List.length_drop]; omega)]

theorem chunk_append_right (a b : List α) (sz j l : Nat) (ha : a.length = l * sz) (hj : l ≤ j) :
    chunk (a ++ b) sz j = chunk b sz (j - l) := by
  unfold chunk
  have : j * sz = a.length + (j - l) * sz := by
    rw [ha, ← Nat.add_mul]; congr 1; omega
  rw [this, List.drop_length_add_append]

/-- depth 0: the rows of the result are the operands' rows, laid end to end -/
theorem concat0_at (tl : List Nat) : ∀ (seeds : List (List Nat × List α)),
    (∀ s ∈ seeds, ∃ l, s.1 = l :: tl ∧ s.2.length = l * prod tl) →
    ∀ (j : Nat) (is : List Nat), j < (seeds.map (fun s => s.1.getD 0 0)).sum → is.length = tl.length →
      ∃ s j', locate (seeds.map (fun s => s.1.getD 0 0)) j = some (s, j') ∧ s < seeds.length ∧
        (⟨(seeds.map (fun s => s.1.getD 0 0)).sum :: tl, (seeds.map (·.2)).flatten⟩ : Tensor α).at? (j :: is)
          = (⟨(seeds[s]!).1, (seeds[s]!).2⟩ : Tensor α).at? (j' :: is)
  | [], _, j, is, hj, _ => by simp at hj
  | sd :: seeds, hok, j, is, hj, hl => by
    obtain ⟨l, e1, e2⟩ := hok sd (by simp)
    have hl0 : sd.1.getD 0 0 = l := by rw [e1]; rfl
    simp only [List.map_cons, List.sum_cons, hl0] at hj ⊢
    simp only [locate]
    by_cases hlt : j < l
    · refine ⟨0, j, by rw [if_pos hlt], by simp, ?_⟩
      rw [at?_cons _ tl _ j is (by omega) hl]
      simp only [List.flatten_cons]
      rw [chunk_append_left _ _ _ j l e2 hlt]
      have : (⟨(sd :: seeds)[0]!.1, (sd :: seeds)[0]!.2⟩ : Tensor α) = ⟨l :: tl, sd.2⟩ := by simp [e1]
      rw [this, at?_cons l tl sd.2 j is hlt hl]
    · have hge : l ≤ j := by omega
      obtain ⟨s, j', h1, h2, h3⟩ := concat0_at tl seeds (fun x hx => hok x (List.mem_cons_of_mem _ hx)) (j - l) is (by omega) hl
      refine ⟨s + 1, j', by rw [if_neg hlt, h1]; rfl, by simp; omega, ?_⟩
      rw [at?_cons _ tl _ j is (by omega) hl]
      simp only [List.flatten_cons]
      rw [chunk_append_right _ _ _ j l e2 hge]
      have hsel : (sd :: seeds)[s + 1]! = seeds[s]! := by simp [List.getElem!_eq_getElem?_getD]
      rw [hsel, ← h3]
      rw [at?_cons _ tl _ (j - l) is (by omega) hl]

end Qeep

namespace Qeep
variable {α : Type}

theorem getD_succ_tail (l : List Nat) (k : Nat) : l.getD (k + 1) 0 = l.tail.getD k 0 := by
  cases l <;> simp

theorem flatten0_length (tl : List Nat) : ∀ (seeds : List (List Nat × List α)),
    (∀ s ∈ seeds, ∃ l, s.1 = l :: tl ∧ s.2.length = l * prod tl) →
    (seeds.map (·.2)).flatten.length = (seeds.map (fun s => s.1.getD 0 0)).sum * prod tl
  | [], _ => by simp
  | sd :: seeds, hok => by
    obtain ⟨l, e1, e2⟩ := hok sd (by simp)
    have ih := flatten0_length tl seeds (fun x hx => hok x (List.mem_cons_of_mem _ hx))
    have hl0 : sd.1.getD 0 0 = l := by rw [e1]; rfl
    simp only [List.map_cons, List.flatten_cons, List.length_append, List.sum_cons, ih, e2, hl0, Nat.add_mul]

/-- **`fillCat`**: concatenation along the dimension at depth `k` succeeds, has the result's element count, and
    every result index is routed to exactly one operand, holding that operand's element at the operand-local index. -/
theorem concatData_get : ∀ (k : Nat) (ds : List Nat) (seeds : List (List Nat × List α)), SeedsOK k ds seeds →
    ∃ out, concatData k (rdimsOf k ds (lensAt k seeds).sum) seeds = some out ∧
      out.length = prod (rdimsOf k ds (lensAt k seeds).sum) ∧
      ∀ idx, Valid (rdimsOf k ds (lensAt k seeds).sum) idx →
        ∃ s idx', route k (lensAt k seeds) idx = some (s, idx') ∧ s < seeds.length ∧
          idx'.length = (seeds[s]!).1.length ∧
          (⟨rdimsOf k ds (lensAt k seeds).sum, out⟩ : Tensor α).at? idx = (⟨(seeds[s]!).1, (seeds[s]!).2⟩ : Tensor α).at? idx'
  | 0, tl, seeds, hok => by
    refine ⟨(seeds.map (·.2)).flatten, rfl, ?_, ?_⟩
    · simp only [rdimsOf, prod, lensAt]; exact flatten0_length tl seeds hok
    · intro idx hidx
      simp only [rdimsOf, lensAt] at hidx ⊢
      cases hidx with
      | cons hj hv =>
        rename_i j is
        obtain ⟨s, j', h1, h2, h3⟩ := concat0_at tl seeds hok j is hj hv.length_eq
        refine ⟨s, j' :: is, by simp only [route, h1]; rfl, h2, ?_, h3⟩
        have hmem : seeds[s]! ∈ seeds := by
          rw [List.getElem!_eq_getElem?_getD, List.getElem?_eq_getElem h2]; simp
        obtain ⟨l, e1, _⟩ := hok _ hmem
        rw [e1]; simp [hv.length_eq]
  | k + 1, [], seeds, hok => by exact absurd hok (by simp [SeedsOK])
  | k + 1, d :: ds, seeds, hok => by
    obtain ⟨hhead, hrec⟩ := hok
    have hlens : ∀ i, lensAt k (seeds.map (fun s => (s.1.tail, chunk s.2 (prod s.1.tail) i))) = lensAt (k + 1) seeds := by
      intro i
      simp only [lensAt, List.map_map]
      apply List.map_congr_left
      intro s _
      simp [getD_succ_tail]
    -- the rows handed to the recursive call at row i
    have hinner : ∀ i, i < d →
        allSome (seeds.map (fun (p : List Nat × List α) =>
          match p.1 with
          | [] => none
          | sd :: sds => if i < sd ∧ p.2.length = sd * prod sds then some (sds, chunk p.2 (prod sds) i) else none))
        = some (seeds.map (fun s => (s.1.tail, chunk s.2 (prod s.1.tail) i))) := by
      intro i hi
      rw [← allSome_map_some (seeds.map (fun s => (s.1.tail, chunk s.2 (prod s.1.tail) i))), List.map_map]
      congr 1
      apply List.map_congr_left
      intro s hs
      obtain ⟨sds, e1, e2⟩ := hhead s hs
      simp [e1, hi, e2]
    -- every row
    have hrow : ∀ i, i < d → ∃ r,
        ((allSome (seeds.map (fun (p : List Nat × List α) =>
          match p.1 with
          | [] => none
          | sd :: sds => if i < sd ∧ p.2.length = sd * prod sds then some (sds, chunk p.2 (prod sds) i) else none))).bind
          (fun rows => concatData k (rdimsOf k ds (lensAt (k + 1) seeds).sum) rows)) = some r ∧
        r.length = prod (rdimsOf k ds (lensAt (k + 1) seeds).sum) ∧
        ∀ idx, Valid (rdimsOf k ds (lensAt (k + 1) seeds).sum) idx →
          ∃ s idx', route k (lensAt (k + 1) seeds) idx = some (s, idx') ∧ s < seeds.length ∧
            idx'.length = (seeds[s]!).1.tail.length ∧
            (⟨rdimsOf k ds (lensAt (k + 1) seeds).sum, r⟩ : Tensor α).at? idx
              = (⟨(seeds[s]!).1.tail, chunk (seeds[s]!).2 (prod (seeds[s]!).1.tail) i⟩ : Tensor α).at? idx' := by
      intro i hi
      obtain ⟨out, h1, h2, h3⟩ := concatData_get k ds _ (hrec i hi)
      rw [hlens i] at h1 h2 h3
      refine ⟨out, by rw [hinner i hi]; exact h1, h2, ?_⟩
      intro idx hidx
      obtain ⟨s, idx', r1, r2, r3, r4⟩ := h3 idx hidx
      have r2' : s < seeds.length := by simpa using r2
      have hsel : (seeds.map (fun s => (s.1.tail, chunk s.2 (prod s.1.tail) i)))[s]!
          = ((seeds[s]!).1.tail, chunk (seeds[s]!).2 (prod (seeds[s]!).1.tail) i) := by
        simp [List.getElem!_eq_getElem?_getD, List.getElem?_map, List.getElem?_eq_getElem r2']
      rw [hsel] at r3 r4
      exact ⟨s, idx', r1, r2', r3, r4⟩
    obtain ⟨rows, g1, g2, g3, g4⟩ := rows_build d _ _ _ hrow
    have hcd : concatData (k + 1) (rdimsOf (k + 1) (d :: ds) (lensAt (k + 1) seeds).sum) seeds = some rows.flatten := by
      simp only [rdimsOf, concatData]
      have e : ∀ l : List (Option (List α)), l = rows.map some → Option.map List.flatten (allSome l) = some rows.flatten := by
        intro l hl; rw [hl, allSome_map_some]; rfl
      apply e
      rw [← g2]
      apply List.map_congr_left
      intro i _
      congr 2
    refine ⟨rows.flatten, hcd, ?_, ?_⟩
    · rw [flatten_length_const rows _ g3, g1]; simp [rdimsOf, prod]
    · intro idx hidx
      simp only [rdimsOf] at hidx
      cases hidx with
      | cons hi hv =>
        rename_i i is
        obtain ⟨s, idx', r1, r2, r3, r4⟩ := g4 i hi is hv
        have hmem : seeds[s]! ∈ seeds := by
          rw [List.getElem!_eq_getElem?_getD, List.getElem?_eq_getElem r2]; simp
        obtain ⟨sds, e1, e2⟩ := hhead _ hmem
        refine ⟨s, i :: idx', by simp only [route, r1]; rfl, r2, by rw [e1] at r3 ⊢; simpa using r3, ?_⟩
        simp only [rdimsOf]
        rw [at?_cons d _ rows.flatten i is hi hv.length_eq, chunk_flatten rows _ i g3 (by omega), r4]
        rw [e1] at r3 ⊢
        simp only [List.tail_cons] at r3 ⊢
        rw [at?_cons d sds _ i idx' hi r3]

end Qeep

namespace Qeep
variable {α : Type}

/-- delete position `k` (structural) -/
def delAt : Nat → List Nat → List Nat
  | _, [] => []
  | 0, _ :: l => l
  | k + 1, x :: l => x :: delAt k l

theorem delAt_length : ∀ (k : Nat) (l : List Nat), k < l.length → (delAt k l).length + 1 = l.length
  | _, [], h => by simp at h
  | 0, _ :: l, _ => by simp [delAt]
  | k + 1, x :: l, h => by
    have := delAt_length k l (by simpa using h)
    simp [delAt]; omega

theorem seedsOK_of : ∀ (k : Nat) (ds : List Nat) (seeds : List (List Nat × List α)), k ≤ ds.length →
    (∀ s ∈ seeds, ∃ l, s.1 = rdimsOf k ds l ∧ s.2.length = prod s.1) → SeedsOK k ds seeds
  | 0, tl, seeds, _, h => by
    intro s hs
    obtain ⟨l, e1, e2⟩ := h s hs
    exact ⟨l, e1, by rw [e2, e1]; rfl⟩
  | k + 1, [], _, hk, _ => by simp at hk
  | k + 1, d :: ds, seeds, hk, h => by
    refine ⟨?_, ?_⟩
    · intro s hs
      obtain ⟨l, e1, e2⟩ := h s hs
      exact ⟨rdimsOf k ds l, e1, by rw [e2, e1]; rfl⟩
    · intro i hi
      apply seedsOK_of k ds _ (by simpa using hk)
      intro s' hs'
      obtain ⟨s, hs, rfl⟩ := List.mem_map.mp hs'
      obtain ⟨l, e1, e2⟩ := h s hs
      refine ⟨l, by simp [e1, rdimsOf], ?_⟩
      simp only [e1, rdimsOf, List.tail_cons]
      exact chunk_length s.2 _ i d (by rw [e2, e1]; rfl) hi

theorem eq_rdimsOf : ∀ (k : Nat) (base l : List Nat), l.length = base.length → k < base.length →
    (∀ j, j ≠ k → l[j]? = base[j]?) → l = rdimsOf k (delAt k base) (l.getD k 0)
  | 0, b :: base, x :: l, hl, _, h => by
    have : l = base := by
      apply List.ext_getElem?
      intro j
      have := h (j + 1) (by omega)
      simpa using this
    simp [rdimsOf, delAt, this]
  | k + 1, b :: base, x :: l, hl, hk, h => by
    have hx : x = b := by have := h 0 (by omega); simpa using this
    have ih := eq_rdimsOf k base l (by simpa using hl) (by simpa using hk) (fun j hj => by
      have := h (j + 1) (by omega); simpa using this)
    simp only [delAt, rdimsOf, List.getD_cons_succ]
    rw [hx, ← ih]
  | _, [], _, _, hk, _ => by simp at hk
  | _, _ :: _, [], hl, _, _ => by simp at hl

theorem rdimsOf_set : ∀ (k : Nat) (base : List Nat) (tot : Nat), k < base.length →
    rdimsOf k (delAt k base) tot = base.set k tot
  | 0, _ :: _, _, _ => rfl
  | k + 1, b :: base, tot, h => by
    simp [delAt, rdimsOf, rdimsOf_set k base tot (by simpa using h)]
  | _, [], _, h => by simp at h

end Qeep
