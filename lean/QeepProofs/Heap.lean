import Qeep.Components
/-!
# Heap frame: public operations only allocate

`Frame m`: whenever the heap computation `m` succeeds, the resulting heap extends the old one — every existing
node keeps its value AND its context. Every public forward operation, every component forward pass and the
optimizer step is a `Frame`; only `backprop` and `resetCtx` change contexts (and never values).
-/
set_option linter.unusedSimpArgs false

namespace Qeep

variable {α : Type}

/-- `H'` has all nodes of `H`, unchanged -/
def Extends (H H' : Heap α) : Prop := H.size ≤ H'.size ∧ ∀ n, n < H.size → H'[n]? = H[n]?

theorem Extends.refl (H : Heap α) : Extends H H := ⟨Nat.le_refl _, fun _ _ => rfl⟩

theorem Extends.trans {H1 H2 H3 : Heap α} (a : Extends H1 H2) (b : Extends H2 H3) : Extends H1 H3 :=
  ⟨Nat.le_trans a.1 b.1, fun n hn => by rw [b.2 n (Nat.lt_of_lt_of_le hn a.1), a.2 n hn]⟩

theorem Extends.val {H H' : Heap α} (e : Extends H H') {n : Nat} (hn : n < H.size) : H'.val n = H.val n := by
  simp [Heap.val, e.2 n hn]

theorem Extends.ctx {H H' : Heap α} (e : Extends H H') {n : Nat} (hn : n < H.size) : H'.ctx n = H.ctx n := by
  simp [Heap.ctx, e.2 n hn]

/-- a heap computation that, when it succeeds, only allocates -/
def Frame {β : Type} (m : HM α β) : Prop := ∀ H r H', m H = .ok (r, H') → Extends H H'

theorem frame_pure {β : Type} (b : β) : Frame (pure b : HM α β) := by
  intro H r H' h
  have : (pure b : HM α β) H = .ok (b, H) := rfl
  rw [this] at h; cases h; exact Extends.refl _

theorem frame_bind {β γ : Type} {m : HM α β} {f : β → HM α γ} (hm : Frame m) (hf : ∀ b, Frame (f b)) :
    Frame (m >>= f) := by
  intro H r H' h
  have e : (m >>= f) H = (m H).bind (fun p => f p.1 p.2) := rfl
  rw [e] at h
  cases hmH : m H with
  | ok p =>
    rw [hmH] at h
    simp only [Out.bind] at h
    exact (hm H p.1 p.2 (by rw [hmH])).trans (hf p.1 p.2 r H' h)
  | err => rw [hmH] at h; simp [Out.bind] at h
  | panic => rw [hmH] at h; simp [Out.bind] at h

theorem frame_alloc (v : Tensor α) (c : Ctx α) : Frame (alloc v c) := by
  intro H r H' h
  simp only [alloc] at h
  cases h
  refine ⟨by simp, fun n hn => ?_⟩
  simp [Array.getElem?_push, Nat.ne_of_lt hn]

theorem frame_liftOut {β : Type} (o : Out β) : Frame (liftOut o : HM α β) := by
  intro H r H' h
  cases o with
  | ok v => simp [liftOut, Out.bind] at h; rw [← h.2]; exact Extends.refl _
  | err => simp [liftOut, Out.bind] at h
  | panic => simp [liftOut, Out.bind] at h

theorem frame_getHeap : Frame (getHeap : HM α (Heap α)) := by
  intro H r H' h
  simp [getHeap] at h; rw [← h.2]; exact Extends.refl _

/-- tactic: decompose a `do` block of frame-preserving steps -/
syntax "frame_tac" : tactic
macro_rules
  | `(tactic| frame_tac) => `(tactic|
      repeat (first
        | exact frame_pure _
        | exact frame_alloc _ _
        | exact frame_liftOut _
        | exact frame_getHeap
        | (apply frame_bind)
        | (intro _)
        | assumption))

section
variable [Scalar α]

theorem frame_hLeaf (v : Tensor α) (b : Bool) : Frame (hLeaf v b) := frame_alloc _ _

theorem frame_hOp1 (x : Nat) (v : Out (Tensor α)) (rule : Nat → Rule α) : Frame (hOp1 x v rule) := by
  unfold hOp1; frame_tac

theorem frame_hSlice (x : Nat) (i : List IRange) : Frame (hSlice (α := α) x i) := by
  unfold hSlice; apply frame_bind frame_getHeap; intro H; exact frame_hOp1 _ _ _
theorem frame_hTranspose (x : Nat) : Frame (hTranspose (α := α) x) := by
  unfold hTranspose; apply frame_bind frame_getHeap; intro H; exact frame_hOp1 _ _ _
theorem frame_hReshape (x : Nat) (s : List Int) : Frame (hReshape (α := α) x s) := by
  unfold hReshape; apply frame_bind frame_getHeap; intro H; exact frame_hOp1 _ _ _
theorem frame_hUnSqueeze (x : Nat) (d : Int) : Frame (hUnSqueeze (α := α) x d) := by
  unfold hUnSqueeze; apply frame_bind frame_getHeap; intro H; exact frame_hOp1 _ _ _
theorem frame_hSqueeze (x : Nat) (d : Int) : Frame (hSqueeze (α := α) x d) := by
  unfold hSqueeze; apply frame_bind frame_getHeap; intro H; exact frame_hOp1 _ _ _
theorem frame_hFlatten (x : Nat) (d : Int) : Frame (hFlatten (α := α) x d) := by
  unfold hFlatten; apply frame_bind frame_getHeap; intro H; exact frame_hOp1 _ _ _
theorem frame_hBroadcast (x : Nat) (s : List Int) : Frame (hBroadcast (α := α) x s) := by
  unfold hBroadcast; apply frame_bind frame_getHeap; intro H; exact frame_hOp1 _ _ _
theorem frame_hAlong (r : Reducer) (x : Nat) (d : Int) : Frame (hAlong (α := α) r x d) := by
  unfold hAlong; apply frame_bind frame_getHeap; intro H; exact frame_hOp1 _ _ _
theorem frame_hScale (x : Nat) (a : α) : Frame (hScale x a) := by
  unfold hScale; apply frame_bind frame_getHeap; intro H; exact frame_hOp1 _ _ _
theorem frame_hPow (x : Nat) (a : α) : Frame (hPow x a) := by
  unfold hPow; apply frame_bind frame_getHeap; intro H; exact frame_hOp1 _ _ _
theorem frame_hUnary (f : Unary) (x : Nat) : Frame (hUnary (α := α) f x) := by
  unfold hUnary; apply frame_bind frame_getHeap; intro H; exact frame_hOp1 _ _ _

theorem frame_hPatch (x : Nat) (i : List IRange) (p : Nat) : Frame (hPatch (α := α) x i p) := by
  unfold hPatch; frame_tac

theorem frame_hCmp (c : Cmp) (a b : Nat) : Frame (hCmp (α := α) c a b) := by
  unfold hCmp
  apply frame_bind frame_getHeap; intro H
  apply frame_bind (frame_liftOut _); intro r
  cases c <;> exact frame_alloc _ _

theorem frame_hBroadcastPair (a b : Nat) : Frame (hBroadcastPair (α := α) a b) := by
  unfold hBroadcastPair
  apply frame_bind frame_getHeap; intro H
  apply frame_bind (frame_hBroadcast _ _); intro a'
  apply frame_bind (frame_hBroadcast _ _); intro b'
  exact frame_pure _

theorem frame_hBroadcastPairMM (a b : Nat) : Frame (hBroadcastPairMM (α := α) a b) := by
  unfold hBroadcastPairMM
  apply frame_bind frame_getHeap; intro H
  apply frame_bind (frame_hBroadcast _ _); intro a'
  apply frame_bind (frame_hBroadcast _ _); intro b'
  exact frame_pure _

theorem frame_hArith (o : Arith) (a b : Nat) : Frame (hArith (α := α) o a b) := by
  unfold hArith
  apply frame_bind (frame_hBroadcastPair _ _); intro p
  obtain ⟨a', b'⟩ := p
  apply frame_bind frame_getHeap; intro H
  apply frame_bind (frame_liftOut _); intro r
  exact frame_alloc _ _

theorem frame_hDot (a b : Nat) : Frame (hDot (α := α) a b) := by
  unfold hDot
  apply frame_bind frame_getHeap; intro H
  split
  · apply frame_bind (frame_hBroadcastPair _ _); intro p
    obtain ⟨a', b'⟩ := p
    apply frame_bind frame_getHeap; intro H
    apply frame_bind (frame_liftOut _); intro r
    exact frame_alloc _ _
  · exact frame_liftOut _

theorem frame_hMatMul (a b : Nat) : Frame (hMatMul (α := α) a b) := by
  unfold hMatMul
  apply frame_bind frame_getHeap; intro H
  split
  · apply frame_bind (frame_hBroadcastPairMM _ _); intro p
    obtain ⟨a', b'⟩ := p
    apply frame_bind frame_getHeap; intro H
    apply frame_bind (frame_liftOut _); intro r
    exact frame_alloc _ _
  · exact frame_liftOut _

theorem frame_hConcat (xs : List Nat) (d : Int) : Frame (hConcat (α := α) xs d) := by
  unfold hConcat; frame_tac

theorem frame_hGradNode (n : Nat) : Frame (hGradNode (α := α) n) := by
  unfold hGradNode
  apply frame_bind frame_getHeap; intro H
  split
  · exact frame_pure _
  · apply frame_bind (frame_alloc _ _); intro k; exact frame_pure _

end
end Qeep

namespace Qeep
variable {α : Type} [Scalar α]

theorem frame_clip (x : Nat) (l u : α) : Frame (clip x l u) := by
  unfold clip
  apply frame_bind (frame_hPow _ _); intro o
  apply frame_bind (frame_hScale _ _); intro lo
  apply frame_bind (frame_hScale _ _); intro up
  apply frame_bind (frame_hCmp _ _ _); intro y
  exact frame_hCmp _ _ _

theorem frame_actForward (a : Activation α) (xs : List (Option Nat)) : Frame (actForward a xs) := by
  unfold actForward
  apply frame_bind (frame_liftOut _); intro x
  cases a with
  | relu =>
    apply frame_bind (frame_hScale _ _); intro z; exact frame_hCmp _ _ _
  | leaky m =>
    apply frame_bind (frame_hScale _ _); intro z
    apply frame_bind (frame_hCmp _ _ _); intro s1
    apply frame_bind (frame_hCmp _ _ _); intro s2
    apply frame_bind (frame_hScale _ _); intro s2'
    exact frame_hArith _ _ _
  | sigmoid =>
    apply frame_bind (frame_hPow _ _); intro o
    apply frame_bind (frame_hScale _ _); intro x1
    apply frame_bind (frame_hUnary _ _); intro x2
    apply frame_bind (frame_hArith _ _ _); intro y
    exact frame_hPow _ _
  | tanh => exact frame_hUnary _ _
  | softmax dim =>
    apply frame_bind frame_getHeap; intro H
    split
    · exact frame_liftOut _
    · apply frame_bind (frame_hUnary _ _); intro e
      apply frame_bind (frame_hAlong _ _ _); intro s
      apply frame_bind (frame_hUnSqueeze _ _); intro s'
      exact frame_hArith _ _ _

theorem frame_lossCompute (l : Loss) (yp yt : Option Nat) : Frame (lossCompute (α := α) l yp yt) := by
  unfold lossCompute
  apply frame_bind frame_getHeap; intro H
  apply frame_bind (frame_liftOut _); intro p
  obtain ⟨p, t⟩ := p
  cases l with
  | mse =>
    apply frame_bind (frame_hArith _ _ _); intro d
    apply frame_bind (frame_hPow _ _); intro d2
    exact frame_hAlong _ _ _
  | bce =>
    apply frame_bind (frame_clip _ _ _); intro yt'
    apply frame_bind (frame_clip _ _ _); intro yp'
    apply frame_bind (frame_hUnary _ _); intro lg
    apply frame_bind (frame_hArith _ _ _); intro s1
    apply frame_bind (frame_hPow _ _); intro o
    apply frame_bind (frame_hArith _ _ _); intro t2
    apply frame_bind (frame_hArith _ _ _); intro y2
    apply frame_bind (frame_hUnary _ _); intro lg2
    apply frame_bind (frame_hArith _ _ _); intro s2
    apply frame_bind (frame_hArith _ _ _); intro l1
    apply frame_bind (frame_hScale _ _); intro l2
    exact frame_hAlong _ _ _
  | ce =>
    apply frame_bind (frame_clip _ _ _); intro yt'
    apply frame_bind (frame_clip _ _ _); intro yp'
    apply frame_bind (frame_hUnary _ _); intro lg
    apply frame_bind (frame_hArith _ _ _); intro s
    apply frame_bind (frame_hAlong _ _ _); intro l1
    apply frame_bind (frame_hScale _ _); intro l2
    exact frame_hAlong _ _ _

theorem frame_fcForward (c : FC) (xs : List (Option Nat)) : Frame (fcForward (α := α) c xs) := by
  unfold fcForward
  apply frame_bind (frame_liftOut _); intro x
  apply frame_bind frame_getHeap; intro H
  split
  · exact frame_liftOut _
  · split
    · apply frame_bind (frame_hUnSqueeze _ _); intro w1
      apply frame_bind (frame_hUnSqueeze _ _); intro x1
      apply frame_bind (frame_hMatMul _ _); intro y
      apply frame_bind (frame_hAlong _ _ _); intro y2
      exact frame_hArith _ _ _
    · exact frame_liftOut _
    · apply frame_bind (frame_hUnSqueeze _ _); intro w1
      apply frame_bind (frame_hUnSqueeze _ _); intro x1
      apply frame_bind (frame_hMatMul _ _); intro y
      apply frame_bind (frame_hAlong _ _ _); intro y2
      exact frame_liftOut _

theorem frame_sgdUpdate (lr : α) (w : Option Nat) : Frame (sgdUpdate lr w) := by
  unfold sgdUpdate
  cases w with
  | none => exact frame_liftOut _
  | some w =>
    apply frame_bind (frame_hGradNode _); intro g
    cases g with
    | none => exact frame_liftOut _
    | some g =>
      apply frame_bind (frame_hScale _ _); intro d
      exact frame_hArith _ _ _

theorem frame_accAccumulate (c : Accuracy) (yp yt : Option Nat) : Frame (accAccumulate (α := α) c yp yt) := by
  unfold accAccumulate
  apply frame_bind frame_getHeap; intro H
  cases yp with
  | none => exact frame_liftOut _
  | some p =>
    cases yt with
    | none => exact frame_liftOut _
    | some t =>
      simp only []
      split
      · apply frame_bind (frame_hCmp _ _ _); intro e
        apply frame_bind frame_getHeap; intro H2
        exact frame_pure _
      · exact frame_liftOut _

/-! ## back-propagation and reset touch contexts only -/

theorem setCtx_size (H : Heap α) (n : Nat) (c : Ctx α) : (H.setCtx n c).size = H.size := by
  unfold Heap.setCtx; split <;> simp

theorem setCtx_val (H : Heap α) (n : Nat) (c : Ctx α) (m : Nat) : (H.setCtx n c).val m = H.val m := by
  unfold Heap.setCtx
  cases hn : H[n]? with
  | none => rfl
  | some nd =>
    simp only []
    unfold Heap.val
    have hlt : n < H.size := by
      rcases Nat.lt_or_ge n H.size with h | h
      · exact h
      · rw [Array.getElem?_eq_none h] at hn; cases hn
    by_cases hm : m = n
    · subst hm
      have hnd : nd = H[m] := by
        rw [Array.getElem?_eq_getElem hlt] at hn; exact (Option.some.inj hn).symm
      simp [Array.set!, Array.getElem?_setIfInBounds, hlt, hn, hnd]
    · simp [Array.set!, Array.getElem?_setIfInBounds, Ne.symm hm]

theorem setCtx_ctx_ne (H : Heap α) (n : Nat) (c : Ctx α) (m : Nat) (h : m ≠ n) : (H.setCtx n c).ctx m = H.ctx m := by
  unfold Heap.setCtx
  cases hn : H[n]? with
  | none => rfl
  | some nd =>
    simp only []
    unfold Heap.ctx
    simp [Array.set!, Array.getElem?_setIfInBounds, Ne.symm h]

theorem setCtx_ctx_eq (H : Heap α) (n : Nat) (c : Ctx α) (h : n < H.size) : (H.setCtx n c).ctx n = c := by
  unfold Heap.setCtx Heap.ctx
  have : H[n]? = some H[n] := Array.getElem?_eq_getElem h
  rw [this]
  simp [Array.set!, Array.getElem?_setIfInBounds, h]

/-- `ResetGradContext` changes no value, and no context other than the tensor's own -/
theorem resetCtx_frame (H : Heap α) (n : Nat) (b : Bool) :
    (resetCtx H n b).size = H.size ∧ (∀ m, (resetCtx H n b).val m = H.val m) ∧
    (∀ m, m ≠ n → (resetCtx H n b).ctx m = H.ctx m) :=
  ⟨setCtx_size _ _ _, setCtx_val _ _ _, fun m hm => setCtx_ctx_ne _ _ _ _ hm⟩

theorem markDirty_val (H : Heap α) (ns : List Nat) (m : Nat) : (markDirty H ns).val m = H.val m := by
  unfold markDirty
  induction ns generalizing H with
  | nil => rfl
  | cons n ns ih => simp only [List.foldl_cons]; rw [ih, setCtx_val]

theorem markDirty_size (H : Heap α) (ns : List Nat) : (markDirty H ns).size = H.size := by
  unfold markDirty
  induction ns generalizing H with
  | nil => rfl
  | cons n ns ih => simp only [List.foldl_cons]; rw [ih, setCtx_size]

theorem writeBack_val (H : Heap α) (G : Nat → Option (Tensor α)) (m : Nat) :
    (writeBack H G).val m = H.val m ∧ (writeBack H G).size = H.size := by
  unfold writeBack Heap.val
  refine ⟨?_, by simp⟩
  by_cases hm : m < H.size
  · simp [Array.getElem?_mapIdx, hm]
  · have h1 : H[m]? = none := Array.getElem?_eq_none (by omega)
    have h2 : (H.mapIdx (fun i nd => ({ nd with ctx := { nd.ctx with grad := G i } } : Node α)))[m]? = none :=
      Array.getElem?_eq_none (by simp; omega)
    rw [h1, h2]

/-- **BackPropagate changes no tensor's shape or elements** (whatever its outcome): values and heap size
    are preserved; only contexts (gradients, spent flags) are written. -/
theorem backprop_val (bm : BMode) (H : Heap α) (root : Nat) (m : Nat) :
    (backprop bm H root).heap.val m = H.val m ∧ (backprop bm H root).heap.size = H.size := by
  unfold backprop
  split
  · exact ⟨rfl, rfl⟩
  · simp only []
    split
    · simp only []
      exact ⟨(writeBack_val _ _ m).1.trans (markDirty_val _ _ _), (writeBack_val _ _ m).2.trans (markDirty_size _ _)⟩
    · exact ⟨markDirty_val _ _ _, markDirty_size _ _⟩
    · exact ⟨markDirty_val _ _ _, markDirty_size _ _⟩

end Qeep
