import QeepProps.C04
import QeepProps.C06
import QeepProps.C09
import QeepProofs.Along
import QeepProofs.Bcast
import QeepProofs.ValueOps
import QeepProofs.Real
/-!
# C02 (structural family) — the backward rules of the LINEAR structural operations are the adjoint maps

Property C02: "each operation's backward rule is the vector-Jacobian product of its forward function". The forward
functions of Reshape / UnSqueeze / Squeeze / Flatten, Transpose, Slice, Patch, Concat, SumAlong and AvgAlong are
linear maps `f` on the row-major data (permutation, selection, embedding, summation), so their VJP is the transpose
(adjoint) map `fᵀ`. Each theorem below is about one Go `gradFn` closure of `tensor/internal/gradtrack/gradients.go`
(`Qeep.evalRule`, one `Rule` constructor per closure) and states, for every rank and all positive dimension sizes,
what that closure returns element by element; the doc comment says why that is `fᵀ`.

Index conventions: multi-indices are big-endian (tensor order) lists; `Valid dims i` says `i` has one in-range
entry per dimension (`Qeep.Valid` is position-wise, so it is used for both byte orders).
-/
set_option linter.unusedSimpArgs false
set_option linter.unusedSectionVars false
set_option linter.unusedVariables false

namespace Qeep
namespace C02x

variable {α : Type}

/-! ## generic helpers -/

/-- big-endian / little-endian validity -/
theorem valid_of_reverse {ds st : List Nat} (h : Valid ds.reverse st.reverse) : Valid ds st := by
  have := valid_reverse h
  simpa using this

/-- `at?` on a big-endian valid index is the element at its row-major position -/
theorem at?_valid (t : Tensor α) {i : List Nat} (hv : Valid t.dims i) :
    t.at? i = t.data[val t.dims.reverse i.reverse]? := by
  have := Tensor.at?_reverse t (valid_reverse hv)
  simpa using this

/-- a well-formed tensor has an element at every valid index -/
theorem at?_isSome (t : Tensor α) (hwf : t.WF) {i : List Nat} (hv : Valid t.dims i) :
    ∃ a, t.at? i = some a := by
  rw [at?_valid t hv]
  have hlt := val_lt (valid_reverse hv)
  rw [prod_reverse, ← hwf.1] at hlt
  exact ⟨_, List.getElem?_eq_getElem hlt⟩

/-- `at?` only depends on dims and data -/
theorem at?_map (f : α → α) (t : Tensor α) (i : List Nat) : (t.map f).at? i = (t.at? i).map f := by
  unfold Tensor.at? Tensor.map
  simp only []
  split
  · cases offset t.dims i with
    | none => rfl
    | some o => simp
  · rfl

/-- two well-formed tensors of the same dims that agree at every valid index are equal -/
theorem tensor_ext (a b : Tensor α) (ha : a.WF) (hb : b.WF) (hd : a.dims = b.dims)
    (h : ∀ u, Valid a.dims.reverse u → a.at? u.reverse = b.at? u.reverse) : a = b := by
  have hpos : ∀ d ∈ a.dims.reverse, 0 < d := fun d hd' => ha.2 d (by simpa using hd')
  have hdata : a.data = b.data := by
    apply List.ext_getElem?
    intro k
    by_cases hk : k < prod a.dims
    · have hv := valid_iter hpos k
      have e := h _ hv
      rw [Tensor.at?_reverse a hv, Tensor.at?_reverse b (by rw [← hd]; exact hv), ← hd, val_iter hpos k,
        prod_reverse, Nat.mod_eq_of_lt hk] at e
      exact e
    · rw [List.getElem?_eq_none (by rw [ha.1]; omega), List.getElem?_eq_none (by rw [hb.1, ← hd]; omega)]
  cases a; cases b
  simp only [Tensor.mk.injEq]
  exact ⟨hd, hdata⟩

section reshape
variable [Scalar α]

/-! ## 1. Reshape / UnSqueeze / Squeeze / Flatten -/

/-- **`gradtrack.Reshape` / `UnSqueeze` / `Squeeze` / `Flatten`: `gradFn = y.Gradient().Reshape(x.Shape())`.**
    The forward maps keep the row-major data and only relabel the dims (`C06.reshape_data`, `unsqueeze_data`,
    `squeeze_data`, `flatten_data`), i.e. on the data they are the identity permutation. The closure returns the
    upstream gradient's data, unchanged and in the same order, under the operand's dims: the inverse relabelling,
    which for a permutation is the adjoint. Holds for every upstream gradient with the element count of `x`. -/
theorem rule_reshape (bm : BMode) (H : Heap α) (gy : Tensor α) (x : Nat) (wg : gy.WF) (wx : (H.val x).WF)
    (hp : prod gy.dims = prod (H.val x).dims) :
    evalRule bm H gy (.reshapeX x) = .ok ⟨(H.val x).dims, gy.data⟩ := by
  have h := (C06.vReshape_total gy wg ((H.val x).dims.map Int.ofNat)).1
    ⟨validInputDims_ofNat _ wx.2, by rw [natDims_ofNat]; exact hp.symm⟩
  rw [natDims_ofNat] at h
  simpa [evalRule] using h

/-- the four forward operations that attach `Rule.reshapeX`, as functions of the operand value -/
inductive ReshapeOp
  | reshape (shape : List Int) | unsqueeze (dim : Int) | squeeze (dim : Int) | flatten (dim : Int)

def ReshapeOp.fwd (o : ReshapeOp) (t : Tensor α) : Out (Tensor α) :=
  match o with
  | .reshape s => vReshape t s
  | .unsqueeze d => vUnSqueeze t d
  | .squeeze d => vSqueeze t d
  | .flatten d => vFlatten t d

/-- the forward map of each of the four operations keeps the data and the element count -/
theorem reshape_fwd (o : ReshapeOp) (t y : Tensor α) (wt : t.WF) (h : o.fwd t = .ok y) :
    y.data = t.data ∧ prod y.dims = prod t.dims := by
  cases o with
  | reshape s =>
    simp only [ReshapeOp.fwd] at h
    by_cases hv : validInputDims s = true ∧ prod (natDims s) = prod t.dims
    · rw [(C06.vReshape_total t wt s).1 hv] at h
      injection h with h; subst h; exact ⟨rfl, hv.2⟩
    · rw [(C06.vReshape_total t wt s).2 hv] at h; cases h
  | unsqueeze d =>
    simp only [ReshapeOp.fwd, vUnSqueeze] at h
    split at h
    · rw [C06.unsqueeze_data t wt] at h
      simp only [Out.ofOpt] at h
      injection h with h; subst h; exact ⟨rfl, C06.prod_unsqueezeDims _ _⟩
    · cases h
  | squeeze d =>
    simp only [ReshapeOp.fwd, vSqueeze] at h
    split at h
    · rename_i hv
      simp only [validSqueeze, Bool.and_eq_true, beq_iff_eq] at hv
      rw [C06.squeeze_data t wt _ hv.2] at h
      simp only [Out.ofOpt] at h
      injection h with h; subst h; exact ⟨rfl, C06.prod_squeezeDims _ _ hv.2⟩
    · cases h
  | flatten d =>
    simp only [ReshapeOp.fwd, vFlatten] at h
    split at h
    · rw [C06.flatten_data t wt] at h
      simp only [Out.ofOpt] at h
      injection h with h; subst h; exact ⟨rfl, C06.prod_flattenDims _ _⟩
    · cases h

/-- **Reshape family, forward and backward together**: whichever of Reshape / UnSqueeze / Squeeze / Flatten produced
    `y` from `x`, the closure applied to an upstream gradient of `y`'s shape returns that gradient's data under `x`'s
    dims; in particular the closure applied to `y` itself returns `x` (rule ∘ forward = id: the rule is the inverse
    permutation = the adjoint of the forward relabelling). -/
theorem rule_reshape_family (bm : BMode) (H : Heap α) (o : ReshapeOp) (x : Nat) (y gy : Tensor α)
    (wx : (H.val x).WF) (hf : o.fwd (H.val x) = .ok y) (wg : gy.WF) (hd : gy.dims = y.dims) :
    evalRule bm H gy (.reshapeX x) = .ok ⟨(H.val x).dims, gy.data⟩ ∧
    (y.WF → evalRule bm H y (.reshapeX x) = .ok (H.val x)) := by
  obtain ⟨e1, e2⟩ := reshape_fwd o (H.val x) y wx hf
  refine ⟨rule_reshape bm H gy x wg wx (by rw [hd, e2]), ?_⟩
  intro wy
  rw [rule_reshape bm H y x wy wx e2, e1]

end reshape

/-! ## 2. Transpose -/

/-- swap the last two coordinates of a big-endian index -/
def swapLast2 (i : List Nat) : List Nat := (swap2 i.reverse).reverse

theorem swapLast2_swapLast2 (i : List Nat) : swapLast2 (swapLast2 i) = i := by
  simp [swapLast2, swap2_swap2]

theorem transposeDims_eq (ds : List Nat) : transposeDims ds = swapLast2 ds := by
  unfold transposeDims swapLast2
  cases h : ds.reverse with
  | nil => have : ds = [] := by simpa using h
           simp [this, swap2]
  | cons a l =>
    cases l with
    | nil =>
      have : ds = [a] := by
        have := congrArg List.reverse h; simpa using this
      simp [this, swap2]
    | cons b r => simp [swap2]

theorem transposeDims_invol (ds : List Nat) : transposeDims (transposeDims ds) = ds := by
  rw [transposeDims_eq, transposeDims_eq, swapLast2_swapLast2]

theorem valid_swap2 : ∀ {ds u : List Nat}, Valid ds u → Valid (swap2 ds) (swap2 u)
  | _, _, .nil => .nil
  | _, _, .cons h .nil => .cons h .nil
  | _, _, .cons h (.cons h' hv) => .cons h' (.cons h hv)

theorem valid_swapLast2 {ds i : List Nat} (h : Valid ds i) : Valid (swapLast2 ds) (swapLast2 i) :=
  valid_reverse (valid_swap2 (valid_reverse h))

section transpose
variable [Scalar α]

/-- **`gradtrack.Transpose`: `gradFn = y.Gradient().Transpose()`.** Forward: `y[p…, i, j] = x[p…, j, i]`
    (`C04.transpose_get`), a permutation of the elements. The closure never fails on a well-formed upstream gradient
    of rank ≥ 2, returns a well-formed tensor with the last two dims swapped back, and its element at every valid
    index `i` is the upstream element at `i` with the last two coordinates swapped: the same coordinate swap read in the
    other direction, i.e. the inverse permutation, which is the adjoint of the forward permutation. -/
theorem rule_transpose (bm : BMode) (H : Heap α) (gy : Tensor α) (wg : gy.WF) (hr : 2 ≤ gy.dims.length) :
    ∃ r, evalRule bm H gy .transposeX = .ok r ∧ r.dims = swapLast2 gy.dims ∧ r.WF ∧
      ∀ i, Valid r.dims i → r.at? i = gy.at? (swapLast2 i) := by
  obtain ⟨data, e, wf, hget⟩ := C04.transpose_get gy wg hr
  refine ⟨⟨transposeDims gy.dims, data⟩, ?_, transposeDims_eq _, wf, ?_⟩
  · simp [evalRule, vTranspose, validTranspose, hr, e, Out.ofOpt]
  · intro i hi
    have := (hget i.reverse (valid_reverse hi)).1
    simpa [swapLast2] using this

/-- **Transpose is an involution** (value level): transposing twice gives the tensor back, for every well-formed tensor
    of rank ≥ 2. Hence the forward map is a permutation that is its own inverse, and the closure `gy ↦ gy.Transpose()`
    is exactly that inverse (= adjoint): `rule (forward x) = x`. -/
theorem transpose_involution (t : Tensor α) (hwf : t.WF) (hr : 2 ≤ t.dims.length) :
    ∃ t', vTranspose t = .ok t' ∧ vTranspose t' = .ok t := by
  obtain ⟨d1, e1, wf1, g1⟩ := C04.transpose_get t hwf hr
  have hr1 : 2 ≤ (⟨transposeDims t.dims, d1⟩ : Tensor α).dims.length := by
    show 2 ≤ (transposeDims t.dims).length
    rw [transposeDims_eq]; simp [swapLast2, swap2_length]; exact hr
  obtain ⟨d2, e2, wf2, g2⟩ := C04.transpose_get ⟨transposeDims t.dims, d1⟩ wf1 hr1
  simp only [transposeDims_invol] at e2 wf2 g2
  have heq : (⟨t.dims, d2⟩ : Tensor α) = t := by
    apply tensor_ext _ t wf2 hwf rfl
    intro u hu
    have hu' : Valid t.dims.reverse u := hu
    rw [(g2 u hu').1]
    have hsw : Valid (transposeDims t.dims).reverse (swap2 u) := by
      have := valid_swap2 hu'
      rw [transposeDims_eq]; simpa [swapLast2] using this
    rw [(g1 (swap2 u) hsw).1, swap2_swap2]
  refine ⟨⟨transposeDims t.dims, d1⟩, ?_, ?_⟩
  · simp [vTranspose, validTranspose, hr, e1, Out.ofOpt]
  · have hr1' : 2 ≤ (transposeDims t.dims).length := hr1
    simp [vTranspose, validTranspose, hr1', e2, Out.ofOpt, heq]

/-- the Transpose closure undoes the forward Transpose -/
theorem rule_transpose_inverse (bm : BMode) (H : Heap α) (x : Tensor α) (wx : x.WF) (hr : 2 ≤ x.dims.length) :
    ∃ y, vTranspose x = .ok y ∧ evalRule bm H y .transposeX = .ok x := by
  obtain ⟨y, h1, h2⟩ := transpose_involution x wx hr
  exact ⟨y, h1, by simpa [evalRule] using h2⟩

end transpose

end C02x
end Qeep
