import QeepProps.C04
import QeepProps.C06
import QeepProps.C09
import QeepProofs.Along
import QeepProofs.Bcast
import QeepProofs.ValueOps
import QeepProofs.Real
/-!
# C02 (structural family) — the backward rules of the LINEAR structural operations are the adjoint maps

Property C02: "each operation's backward rule is the vector-Jacobian product of its forward function". The forward
functions of Reshape / UnSqueeze / Squeeze / Flatten, Transpose, Slice, Patch, Concat, SumAlong and AvgAlong are
linear maps `f` on the row-major data (permutation, selection, embedding, summation), so their VJP is the transpose
(adjoint) map `fᵀ`. Each theorem below is about one Go `gradFn` closure of `tensor/internal/gradtrack/gradients.go`
(`Qeep.evalRule`, one `Rule` constructor per closure) and states, for every rank and all positive dimension sizes,
what that closure returns element by element; the doc comment says why that is `fᵀ`.

Index conventions: multi-indices are big-endian (tensor order) lists; `Valid dims i` says `i` has one in-range
entry per dimension (`Qeep.Valid` is position-wise, so it is used for both byte orders).
-/
set_option linter.unusedSimpArgs false
set_option linter.unusedSectionVars false
set_option linter.unusedVariables false

namespace Qeep
namespace C02x

variable {α : Type}

/-! ## generic helpers -/

/-- big-endian / little-endian validity -/
theorem valid_of_reverse {ds st : List Nat} (h : Valid ds.reverse st.reverse) : Valid ds st := by
  have := valid_reverse h
  simpa using this

/-- `at?` on a big-endian valid index is the element at its row-major position -/
theorem at?_valid (t : Tensor α) {i : List Nat} (hv : Valid t.dims i) :
    t.at? i = t.data[val t.dims.reverse i.reverse]? := by
  have := Tensor.at?_reverse t (valid_reverse hv)
  simpa using this

/-- a well-formed tensor has an element at every valid index -/
theorem at?_isSome (t : Tensor α) (hwf : t.WF) {i : List Nat} (hv : Valid t.dims i) :
    ∃ a, t.at? i = some a := by
  rw [at?_valid t hv]
  have hlt := val_lt (valid_reverse hv)
  rw [prod_reverse, ← hwf.1] at hlt
  exact ⟨_, List.getElem?_eq_getElem hlt⟩

/-- `at?` only depends on dims and data -/
theorem at?_map (f : α → α) (t : Tensor α) (i : List Nat) : (t.map f).at? i = (t.at? i).map f := by
  unfold Tensor.at? Tensor.map
  simp only []
  split
  · cases offset t.dims i with
    | none => rfl
    | some o => simp
  · rfl

/-- two well-formed tensors of the same dims that agree at every valid index are equal -/
theorem tensor_ext (a b : Tensor α) (ha : a.WF) (hb : b.WF) (hd : a.dims = b.dims)
    (h : ∀ u, Valid a.dims.reverse u → a.at? u.reverse = b.at? u.reverse) : a = b := by
  have hpos : ∀ d ∈ a.dims.reverse, 0 < d := fun d hd' => ha.2 d (by simpa using hd')
  have hdata : a.data = b.data := by
    apply List.ext_getElem?
    intro k
    by_cases hk : k < prod a.dims
    · have hv := valid_iter hpos k
      have e := h _ hv
      rw [Tensor.at?_reverse a hv, Tensor.at?_reverse b (by rw [← hd]; exact hv), ← hd, val_iter hpos k,
        prod_reverse, Nat.mod_eq_of_lt hk] at e
      exact e
    · rw [List.getElem?_eq_none (by rw [ha.1]; omega), List.getElem?_eq_none (by rw [hb.1, ← hd]; omega)]
  cases a; cases b
  simp only [Tensor.mk.injEq]
  exact ⟨hd, hdata⟩

section reshape
variable [Scalar α]

/-! ## 1. Reshape / UnSqueeze / Squeeze / Flatten -/

/-- **`gradtrack.Reshape` / `UnSqueeze` / `Squeeze` / `Flatten`: `gradFn = y.Gradient().Reshape(x.Shape())`.**
    The forward maps keep the row-major data and only relabel the dims (`C06.reshape_data`, `unsqueeze_data`,
    `squeeze_data`, `flatten_data`), i.e. on the data they are the identity permutation. The closure returns the
    upstream gradient's data, unchanged and in the same order, under the operand's dims: the inverse relabelling,
    which for a permutation is the adjoint. Holds for every upstream gradient with the element count of `x`. -/
theorem rule_reshape (bm : BMode) (H : Heap α) (gy : Tensor α) (x : Nat) (wg : gy.WF) (wx : (H.val x).WF)
    (hp : prod gy.dims = prod (H.val x).dims) :
    evalRule bm H gy (.reshapeX x) = .ok ⟨(H.val x).dims, gy.data⟩ := by
  have h := (C06.vReshape_total gy wg ((H.val x).dims.map Int.ofNat)).1
    ⟨validInputDims_ofNat _ wx.2, by rw [natDims_ofNat]; exact hp.symm⟩
  rw [natDims_ofNat] at h
  simpa [evalRule] using h

/-- the four forward operations that attach `Rule.reshapeX`, as functions of the operand value -/
inductive ReshapeOp
  | reshape (shape : List Int) | unsqueeze (dim : Int) | squeeze (dim : Int) | flatten (dim : Int)

def ReshapeOp.fwd (o : ReshapeOp) (t : Tensor α) : Out (Tensor α) :=
  match o with
  | .reshape s => vReshape t s
  | .unsqueeze d => vUnSqueeze t d
  | .squeeze d => vSqueeze t d
  | .flatten d => vFlatten t d

/-- the forward map of each of the four operations keeps the data and the element count -/
theorem reshape_fwd (o : ReshapeOp) (t y : Tensor α) (wt : t.WF) (h : o.fwd t = .ok y) :
    y.data = t.data ∧ prod y.dims = prod t.dims := by
  cases o with
  | reshape s =>
    simp only [ReshapeOp.fwd] at h
    by_cases hv : validInputDims s = true ∧ prod (natDims s) = prod t.dims
    · rw [(C06.vReshape_total t wt s).1 hv] at h
      injection h with h; subst h; exact ⟨rfl, hv.2⟩
    · rw [(C06.vReshape_total t wt s).2 hv] at h; cases h
  | unsqueeze d =>
    simp only [ReshapeOp.fwd, vUnSqueeze] at h
    split at h
    · rw [C06.unsqueeze_data t wt] at h
      simp only [Out.ofOpt] at h
      injection h with h; subst h; exact ⟨rfl, C06.prod_unsqueezeDims _ _⟩
    · cases h
  | squeeze d =>
    simp only [ReshapeOp.fwd, vSqueeze] at h
    split at h
    · rename_i hv
      simp only [validSqueeze, Bool.and_eq_true, beq_iff_eq] at hv
      rw [C06.squeeze_data t wt _ hv.2] at h
      simp only [Out.ofOpt] at h
      injection h with h; subst h; exact ⟨rfl, C06.prod_squeezeDims _ _ hv.2⟩
    · cases h
  | flatten d =>
    simp only [ReshapeOp.fwd, vFlatten] at h
    split at h
    · rw [C06.flatten_data t wt] at h
      simp only [Out.ofOpt] at h
      injection h with h; subst h; exact ⟨rfl, C06.prod_flattenDims _ _⟩
    · cases h

/-- **Reshape family, forward and backward together**: whichever of Reshape / UnSqueeze / Squeeze / Flatten produced
    `y` from `x`, the closure applied to an upstream gradient of `y`'s shape returns that gradient's data under `x`'s
    dims; in particular the closure applied to `y` itself returns `x` (rule ∘ forward = id: the rule is the inverse
    permutation = the adjoint of the forward relabelling). -/
theorem rule_reshape_family (bm : BMode) (H : Heap α) (o : ReshapeOp) (x : Nat) (y gy : Tensor α)
    (wx : (H.val x).WF) (hf : o.fwd (H.val x) = .ok y) (wg : gy.WF) (hd : gy.dims = y.dims) :
    evalRule bm H gy (.reshapeX x) = .ok ⟨(H.val x).dims, gy.data⟩ ∧
    (y.WF → evalRule bm H y (.reshapeX x) = .ok (H.val x)) := by
  obtain ⟨e1, e2⟩ := reshape_fwd o (H.val x) y wx hf
  refine ⟨rule_reshape bm H gy x wg wx (by rw [hd, e2]), ?_⟩
  intro wy
  rw [rule_reshape bm H y x wy wx e2, e1]

end reshape

/-! ## 2. Transpose -/

/-- swap the last two coordinates of a big-endian index -/
def swapLast2 (i : List Nat) : List Nat := (swap2 i.reverse).reverse

theorem swapLast2_swapLast2 (i : List Nat) : swapLast2 (swapLast2 i) = i := by
  simp [swapLast2, swap2_swap2]

theorem transposeDims_eq (ds : List Nat) : transposeDims ds = swapLast2 ds := by
  unfold transposeDims swapLast2
  cases h : ds.reverse with
  | nil => have : ds = [] := by simpa using h
           simp [this, swap2]
  | cons a l =>
    cases l with
    | nil =>
      have : ds = [a] := by
        have := congrArg List.reverse h; simpa using this
      simp [this, swap2]
    | cons b r => simp [swap2]

theorem transposeDims_invol (ds : List Nat) : transposeDims (transposeDims ds) = ds := by
  rw [transposeDims_eq, transposeDims_eq, swapLast2_swapLast2]

theorem valid_swap2 : ∀ {ds u : List Nat}, Valid ds u → Valid (swap2 ds) (swap2 u)
  | _, _, .nil => .nil
  | _, _, .cons h .nil => .cons h .nil
  | _, _, .cons h (.cons h' hv) => .cons h' (.cons h hv)

theorem valid_swapLast2 {ds i : List Nat} (h : Valid ds i) : Valid (swapLast2 ds) (swapLast2 i) :=
  valid_reverse (valid_swap2 (valid_reverse h))

section transpose
variable [Scalar α]

/-- **`gradtrack.Transpose`: `gradFn = y.Gradient().Transpose()`.** Forward: `y[p…, i, j] = x[p…, j, i]`
    (`C04.transpose_get`), a permutation of the elements. The closure never fails on a well-formed upstream gradient
    of rank ≥ 2, returns a well-formed tensor with the last two dims swapped back, and its element at every valid
    index `i` is the upstream element at `i` with the last two coordinates swapped: the same coordinate swap read in the
    other direction, i.e. the inverse permutation, which is the adjoint of the forward permutation. -/
theorem rule_transpose (bm : BMode) (H : Heap α) (gy : Tensor α) (wg : gy.WF) (hr : 2 ≤ gy.dims.length) :
    ∃ r, evalRule bm H gy .transposeX = .ok r ∧ r.dims = swapLast2 gy.dims ∧ r.WF ∧
      ∀ i, Valid r.dims i → r.at? i = gy.at? (swapLast2 i) := by
  obtain ⟨data, e, wf, hget⟩ := C04.transpose_get gy wg hr
  refine ⟨⟨transposeDims gy.dims, data⟩, ?_, transposeDims_eq _, wf, ?_⟩
  · simp [evalRule, vTranspose, validTranspose, hr, e, Out.ofOpt]
  · intro i hi
    have := (hget i.reverse (valid_reverse hi)).1
    simpa [swapLast2] using this

/-- **Transpose is an involution** (value level): transposing twice gives the tensor back, for every well-formed tensor
    of rank ≥ 2. Hence the forward map is a permutation that is its own inverse, and the closure `gy ↦ gy.Transpose()`
    is exactly that inverse (= adjoint): `rule (forward x) = x`. -/
theorem transpose_involution (t : Tensor α) (hwf : t.WF) (hr : 2 ≤ t.dims.length) :
    ∃ t', vTranspose t = .ok t' ∧ vTranspose t' = .ok t := by
  obtain ⟨d1, e1, wf1, g1⟩ := C04.transpose_get t hwf hr
  have hr1 : 2 ≤ (⟨transposeDims t.dims, d1⟩ : Tensor α).dims.length := by
    show 2 ≤ (transposeDims t.dims).length
    rw [transposeDims_eq]; simp [swapLast2, swap2_length]; exact hr
  obtain ⟨d2, e2, wf2, g2⟩ := C04.transpose_get ⟨transposeDims t.dims, d1⟩ wf1 hr1
  simp only [transposeDims_invol] at e2 wf2 g2
  have heq : (⟨t.dims, d2⟩ : Tensor α) = t := by
    apply tensor_ext _ t wf2 hwf rfl
    intro u hu
    have hu' : Valid t.dims.reverse u := hu
    rw [(g2 u hu').1]
    have hsw : Valid (transposeDims t.dims).reverse (swap2 u) := by
      have := valid_swap2 hu'
      rw [transposeDims_eq]; simpa [swapLast2] using this
    rw [(g1 (swap2 u) hsw).1, swap2_swap2]
  refine ⟨⟨transposeDims t.dims, d1⟩, ?_, ?_⟩
  · simp [vTranspose, validTranspose, hr, e1, Out.ofOpt]
  · have hr1' : 2 ≤ (transposeDims t.dims).length := hr1
    simp [vTranspose, validTranspose, hr1', e2, Out.ofOpt, heq]

/-- the Transpose closure undoes the forward Transpose -/
theorem rule_transpose_inverse (bm : BMode) (H : Heap α) (x : Tensor α) (wx : x.WF) (hr : 2 ≤ x.dims.length) :
    ∃ y, vTranspose x = .ok y ∧ evalRule bm H y .transposeX = .ok x := by
  obtain ⟨y, h1, h2⟩ := transpose_involution x wx hr
  exact ⟨y, h1, by simpa [evalRule] using h2⟩

end transpose

/-! ## 6. SumAlong / AvgAlong -/

theorem projLE_append : ∀ (sd sh u : List Nat) (d h x : Nat), sd.length = sh.length → sh.length = u.length →
    projLE (sd ++ [d]) (sh ++ [h]) (u ++ [x]) = projLE sd sh u ++ [if d = h then x else 0]
  | [], [], [], _, _, _, _, _ => by simp [projLE]
  | a :: sd, b :: sh, c :: u, d, h, x, h1, h2 => by
    have ih := projLE_append sd sh u d h x (by simpa using h1) (by simpa using h2)
    simp only [List.cons_append, projLE, ih]
  | [], _ :: _, _, _, _, _, h1, _ => by simp at h1
  | _ :: _, [], _, _, _, _, h1, _ => by simp at h1
  | [], [], _ :: _, _, _, _, _, h2 => by simp at h2
  | _ :: _, _ :: _, [], _, _, _, _, h2 => by simp at h2

/-- for equal ranks the right-aligned projection commutes with reversal -/
theorem projLE_reverse : ∀ (sd sh u : List Nat), sd.length = sh.length → sh.length = u.length →
    projLE sd.reverse sh.reverse u.reverse = (projLE sd sh u).reverse
  | [], [], [], _, _ => rfl
  | a :: sd, b :: sh, c :: u, h1, h2 => by
    have h1' : sd.length = sh.length := by simpa using h1
    have h2' : sh.length = u.length := by simpa using h2
    simp only [List.reverse_cons, projLE]
    rw [projLE_append _ _ _ _ _ _ (by simpa using h1') (by simpa using h2'), projLE_reverse sd sh u h1' h2']
  | [], _ :: _, _, h1, _ => by simp at h1
  | _ :: _, [], _, h1, _ => by simp at h1
  | [], [], _ :: _, _, h2 => by simp at h2
  | _ :: _, _ :: _, [], _, h2 => by simp at h2

theorem validBroadcastLE_append : ∀ (a b : List Nat) (s d : Nat), a.length = b.length →
    validBroadcastLE (a ++ [s]) (b ++ [d]) = (validBroadcastLE a b && (s == d || s == 1))
  | [], [], _, _, _ => by simp [validBroadcastLE]
  | x :: a, y :: b, s, d, h => by
    have ih := validBroadcastLE_append a b s d (by simpa using h)
    simp only [List.cons_append, validBroadcastLE, ih, Bool.and_assoc]
  | [], _ :: _, _, _, h => by simp at h
  | _ :: _, [], _, _, h => by simp at h

theorem validBroadcastLE_reverse : ∀ (a b : List Nat), a.length = b.length →
    validBroadcastLE a.reverse b.reverse = validBroadcastLE a b
  | [], [], _ => rfl
  | x :: a, y :: b, h => by
    have h' : a.length = b.length := by simpa using h
    simp only [List.reverse_cons]
    rw [validBroadcastLE_append _ _ _ _ (by simpa using h'), validBroadcastLE_reverse a b h']
    simp only [validBroadcastLE, Bool.and_comm]
  | [], _ :: _, h => by simp at h
  | _ :: _, [], h => by simp at h

/-- UnSqueeze at `dim` of the dims with `dim` removed: the dims with size 1 at `dim` -/
theorem unsqueeze_squeeze : ∀ (dim : Nat) (xd : List Nat), dim < xd.length →
    unsqueezeDims dim (squeezeDims dim xd) = xd.set dim 1
  | _, [], h => by simp at h
  | 0, d :: ds, _ => by simp [unsqueezeDims, squeezeDims]
  | dim + 1, d :: ds, h => by
    have ih := unsqueeze_squeeze dim ds (by simpa using h)
    simp only [unsqueezeDims, squeezeDims] at ih ⊢
    simp only [List.take_succ_cons, List.drop_succ_cons, List.cons_append, List.set_cons_succ, ih]

theorem squeezeDims_length (dim : Nat) (xd : List Nat) (h : dim < xd.length) :
    (squeezeDims dim xd).length = xd.length - 1 := by
  simp [squeezeDims]; omega

theorem validBroadcastLE_set_one : ∀ (dim : Nat) (xd : List Nat), validBroadcastLE (xd.set dim 1) xd = true
  | _, [] => by simp [validBroadcastLE]
  | 0, d :: ds => by simp [validBroadcastLE, validBroadcastLE_self]
  | dim + 1, d :: ds => by simp [validBroadcastLE, validBroadcastLE_set_one dim ds]

/-- source index read by `Broadcast` from dims with size 1 at `dim`: coordinate `dim` pinned to 0 -/
theorem projLE_set_one : ∀ (dim : Nat) {xd i : List Nat}, Valid xd i →
    projLE (xd.set dim 1) xd i = i.set dim 0
  | _, _, _, .nil => by simp [projLE]
  | 0, _, _, .cons (d := d) (s := s) (ds := ds) (ss := ss) hs hv => by
    simp only [List.set_cons_zero, projLE, projLE_self ds ss hv.length_eq]
    split
    · rename_i h1; congr 1; omega
    · rfl
  | dim + 1, _, _, .cons (d := d) (s := s) (ds := ds) (ss := ss) hs hv => by
    simp only [List.set_cons_succ, projLE, if_true, projLE_set_one dim hv]

theorem prod_set_one : ∀ (dim : Nat) (xd : List Nat), dim < xd.length → prod (xd.set dim 1) = prod (squeezeDims dim xd)
  | _, [], h => by simp at h
  | 0, d :: ds, _ => by simp [squeezeDims, prod]
  | dim + 1, d :: ds, h => by
    have ih := prod_set_one dim ds (by simpa using h)
    simp only [squeezeDims] at ih ⊢
    simp only [List.set_cons_succ, List.take_succ_cons, List.drop_succ_cons, List.cons_append, prod, ih]

/-- a dimension of size 1 indexed by 0 does not move the row-major offset -/
theorem offset_set_one : ∀ (dim : Nat) (xd i : List Nat), dim < xd.length → i.length = xd.length →
    offset (xd.set dim 1) (i.set dim 0) = offset (squeezeDims dim xd) (i.eraseIdx dim)
  | _, [], _, h, _ => by simp at h
  | _, _ :: _, [], _, hl => by simp at hl
  | 0, d :: ds, x :: is, _, _ => by
    simp only [List.set_cons_zero, List.eraseIdx_cons_zero, squeezeDims, List.take_zero, List.nil_append,
      List.drop_succ_cons, List.drop_zero, offset]
    cases offset ds is <;> simp
  | dim + 1, d :: ds, x :: is, h, hl => by
    have h' : dim < ds.length := by simpa using h
    have hl' : is.length = ds.length := by simpa using hl
    have ih := offset_set_one dim ds is h' hl'
    have hp := prod_set_one dim ds h'
    have hsq : squeezeDims (dim + 1) (d :: ds) = d :: squeezeDims dim ds := by simp [squeezeDims]
    rw [hsq]
    simp only [List.set_cons_succ, List.eraseIdx_cons_succ, offset, ih]
    have e1 : (ds.set dim 1).take (is.set dim 0).length = ds.set dim 1 := by
      have : (is.set dim 0).length = (ds.set dim 1).length := by simp [hl']
      rw [this, List.take_length]
    have e2 : (squeezeDims dim ds).take (is.eraseIdx dim).length = squeezeDims dim ds := by
      have : (is.eraseIdx dim).length = (squeezeDims dim ds).length := by
        rw [List.length_eraseIdx, squeezeDims_length dim ds h', hl']; simp [h']
      rw [this, List.take_length]
    rw [e1, e2, hp]

/-- element of a tensor whose dims carry a size-1 dimension at `dim` = element of the squeezed tensor -/
theorem at?_set_one (dim : Nat) (xd : List Nat) (data : List α) (i : List Nat) (h : dim < xd.length)
    (hl : i.length = xd.length) :
    (⟨xd.set dim 1, data⟩ : Tensor α).at? (i.set dim 0) = (⟨squeezeDims dim xd, data⟩ : Tensor α).at? (i.eraseIdx dim) := by
  unfold Tensor.at?
  have l1 : (i.set dim 0).length = (xd.set dim 1).length := by simp [hl]
  have l2 : (i.eraseIdx dim).length = (squeezeDims dim xd).length := by
    rw [List.length_eraseIdx, squeezeDims_length dim xd h, hl]; simp [h]
  simp only [l1, l2, if_true, offset_set_one dim xd i h hl]

section along
variable [Scalar α]

/-- `reducerBroadcasted(gy, x, dim)`: UnSqueeze at `dim`, then Broadcast to `x.Shape()` — replication along `dim` -/
theorem reducerBroadcasted_get (gy : Tensor α) (xd : List Nat) (dim : Nat) (hpos : ∀ d ∈ xd, 0 < d)
    (hdim : dim < xd.length) (wg : gy.WF) (hd : gy.dims = squeezeDims dim xd) :
    ∃ r, reducerBroadcasted gy xd dim = .ok r ∧ r.dims = xd ∧ r.WF ∧
      ∀ i, Valid xd i → r.at? i = gy.at? (i.eraseIdx dim) := by
  have hlen : gy.dims.length = xd.length - 1 := by rw [hd]; exact squeezeDims_length dim xd hdim
  have hvu : validUnSqueeze (dim : Int) gy.dims = true := by
    simp only [validUnSqueeze, Bool.and_eq_true, decide_eq_true_eq]; omega
  have hu : vUnSqueeze gy (dim : Int) = .ok ⟨xd.set dim 1, gy.data⟩ := by
    unfold vUnSqueeze
    rw [if_pos hvu, C06.unsqueeze_data gy wg, Int.toNat_natCast, hd, unsqueeze_squeeze dim xd hdim]
    rfl
  have wo : (⟨xd.set dim 1, gy.data⟩ : Tensor α).WF := by
    refine ⟨?_, ?_⟩
    · show gy.data.length = prod (xd.set dim 1)
      rw [prod_set_one dim xd hdim, ← hd]; exact wg.1
    · intro d hd'
      rcases List.mem_or_eq_of_mem_set hd' with h | h
      · exact hpos d h
      · omega
  have hv : validBroadcast (xd.set dim 1) xd = true := by
    unfold validBroadcast
    rw [validBroadcastLE_reverse _ _ (by simp)]
    exact validBroadcastLE_set_one dim xd
  obtain ⟨data, e, wf, hget⟩ := C03.broadcast_get ⟨xd.set dim 1, gy.data⟩ wo xd hpos hv
  refine ⟨⟨xd, data⟩, ?_, rfl, wf, ?_⟩
  · unfold reducerBroadcasted
    simp only [bind, Out.bind, hu]
    unfold vBroadcastN vBroadcast
    rw [validInputDims_ofNat _ hpos, natDims_ofNat]
    simp only [Bool.true_and]
    rw [if_pos hv, e]; rfl
  · intro i hi
    have h1 := (hget i.reverse (valid_reverse hi)).1
    simp only [List.reverse_reverse] at h1
    rw [h1, projLE_reverse _ _ _ (by simp) (by simp [hi.length_eq]), List.reverse_reverse,
      projLE_set_one dim hi, at?_set_one dim xd gy.data i hdim hi.length_eq, ← hd]

/-- **`gradtrack.SumAlong`: `gradFn = reducerBroadcasted(y.Gradient(), x, dim)`.** Forward: `y[j] = Σ_k x[j with k
    inserted at dim]` (`C05.along_get` with `Tensor.sum`), the summation map along `dim`. The closure succeeds on every
    well-formed upstream gradient of `y`'s shape, returns a well-formed tensor of `x`'s shape, and its element at every
    valid index `i` of `x` is the upstream element at `i` with coordinate `dim` removed — the same for all values of that
    coordinate: replication along `dim`, which is the adjoint of summation along `dim`
    (`Σ_j (Σ_k x[j,k]) gy[j] = Σ_{j,k} x[j,k] gy[j]`). -/
theorem rule_sumAlong (bm : BMode) (H : Heap α) (gy : Tensor α) (x dim : Nat) (wx : (H.val x).WF)
    (hdim : dim < (H.val x).dims.length) (wg : gy.WF) (hd : gy.dims = squeezeDims dim (H.val x).dims) :
    ∃ r, evalRule bm H gy (.sumAlongX x dim) = .ok r ∧ r.dims = (H.val x).dims ∧ r.WF ∧
      ∀ i, Valid (H.val x).dims i → r.at? i = gy.at? (i.eraseIdx dim) := by
  simpa [evalRule] using reducerBroadcasted_get gy (H.val x).dims dim wx.2 hdim wg hd

/-- **`gradtrack.AvgAlong` / `MeanAlong`: `gradFn = reducerBroadcasted(y.Gradient(), x, dim).Scale(1 / n)`**, `n` the
    size of `x` along `dim`. Forward: `y[j] = (Σ_k x[j,k]) / n`, i.e. `(1/n) ·` summation along `dim`. The closure returns
    `(1/n) · gy[i with coordinate dim removed]` at every valid index `i` of `x`: `(1/n) ·` replication along `dim`, the
    adjoint of the forward map. -/
theorem rule_avgAlong (bm : BMode) (H : Heap α) (gy : Tensor α) (x dim : Nat) (wx : (H.val x).WF)
    (hdim : dim < (H.val x).dims.length) (wg : gy.WF) (hd : gy.dims = squeezeDims dim (H.val x).dims) :
    ∃ r, evalRule bm H gy (.avgAlongX x dim) = .ok r ∧ r.dims = (H.val x).dims ∧ r.WF ∧
      ∀ i, Valid (H.val x).dims i →
        r.at? i = (gy.at? (i.eraseIdx dim)).map
          (fun g => Scalar.mul (Scalar.div Scalar.one (Scalar.ofNat ((H.val x).dims.getD dim 0))) g) := by
  obtain ⟨r, e, hdims, wf, hget⟩ := reducerBroadcasted_get gy (H.val x).dims dim wx.2 hdim wg hd
  refine ⟨vScale r (Scalar.div Scalar.one (Scalar.ofNat ((H.val x).dims.getD dim 0))), ?_, hdims, map_wf _ _ wf, ?_⟩
  · simp only [evalRule, bind, Out.bind, e]; rfl
  · intro i hi
    rw [← hget i hi]
    exact at?_map _ r i

end along

/-! ## 3. Slice -/

/-- big-endian index `i` lies in the window `[From, To)` of every range -/
def inWin : List (Nat × Nat) → List Nat → Bool
  | (f, t) :: w, j :: js => decide (f ≤ j ∧ j < t) && inWin w js
  | _, _ => true

theorem completeIndex_length : ∀ (idx : List (Nat × Nat)) (ds : List Nat), (completeIndex idx ds).length = ds.length
  | _, [] => by simp [completeIndex]
  | [], d :: ds => by simp [completeIndex, completeIndex_length [] ds]
  | (f, t) :: rest, d :: ds => by simp [completeIndex, completeIndex_length rest ds]

/-- completing an index against the dims of the block it selects gives the same complete index -/
theorem completeIndex_sliceDims : ∀ (idx : List (Nat × Nat)) (ds : List Nat),
    completeIndex idx (sliceDims (completeIndex idx ds)) = completeIndex idx ds
  | _, [] => by simp [completeIndex, sliceDims]
  | [], d :: ds => by
    have ih := completeIndex_sliceDims [] ds
    simp only [sliceDims] at ih
    simp [completeIndex, sliceDims, ih]
  | (f, t) :: rest, d :: ds => by
    have ih := completeIndex_sliceDims rest ds
    simp only [sliceDims] at ih
    simp only [completeIndex, sliceDims, List.map_cons]
    split
    · simp [ih]
    · rename_i h; simp [ih]

/-- every range of a complete index is ordered -/
def Ordered (W : List (Nat × Nat)) : Prop := ∀ p ∈ W, p.1 ≤ p.2

theorem ordered_complete : ∀ {idx ds}, C06.RangesOK idx ds → Ordered (completeIndex idx ds)
  | _, [], _ => by simp [completeIndex, Ordered]
  | _, d :: ds, .nil _ => by
    intro p hp
    simp only [completeIndex, List.mem_cons] at hp
    rcases hp with rfl | hp
    · exact Nat.zero_le _
    · exact ordered_complete (.nil ds) p hp
  | _, _, .cons (f := f) (t := t) (d := d) h hr => by
    intro p hp
    simp only [completeIndex, List.mem_cons] at hp
    rcases hp with rfl | hp
    · split
      · exact Nat.zero_le _
      · rcases h with h | h
        · rename_i hne; exact absurd h hne
        · exact Nat.le_of_lt h.1
    · exact ordered_complete hr p hp

theorem insideP_inWin : ∀ (W : List (Nat × Nat)) (i : List Nat), Ordered W →
    insideP W (sliceDims W) i = inWin W i
  | [], _, _ => by simp [insideP, inWin, sliceDims]
  | (f, t) :: W, [], _ => by simp [insideP, inWin, sliceDims]
  | (f, t) :: W, j :: js, ho => by
    have hft : f ≤ t := ho (f, t) (by simp)
    have ih := insideP_inWin W js (fun p hp => ho p (by simp [hp]))
    simp only [sliceDims] at ih
    simp only [sliceDims, List.map_cons, insideP, inWin, ih]
    have : f + (t - f) = t := by omega
    rw [this]

theorem patchOK_of_rangesOK : ∀ {idx ds}, C06.RangesOK idx ds →
    C06.PatchOK idx (sliceDims (completeIndex idx ds)) ds
  | _, [], .nil _ => by simp [completeIndex, sliceDims]; exact .nil
  | _, d :: ds, .nil _ => by
    have ih := patchOK_of_rangesOK (.nil ds)
    simp only [completeIndex, sliceDims, List.map_cons] at ih ⊢
    exact .omit (by omega) ih
  | _, _, .cons (f := f) (t := t) (d := d) h hr => by
    have ih := patchOK_of_rangesOK hr
    simp only [completeIndex, sliceDims, List.map_cons] at ih ⊢
    split
    · rename_i h0
      exact .cons (by simp) (Or.inl h0) ih
    · rename_i hne
      rcases h with h | h
      · exact absurd h hne
      · exact .cons (by simp; omega) (Or.inr ⟨h.1, h.2, rfl⟩) ih

theorem validRange_cases {a b : Int} {d : Nat} (h : validRange (a, b) d = true) :
    (a = 0 ∧ b = 0) ∨ (0 ≤ a ∧ a < b ∧ b ≤ (d : Int)) := by
  unfold validRange at h
  by_cases h0 : a = 0 ∧ b = 0
  · exact Or.inl h0
  · right
    have hne : ¬ ((a == 0 && b == 0) = true) := by simpa using h0
    simp only [hne, if_false] at h
    by_cases hge : a ≥ b
    · simp [hge] at h
    · simp only [hge, if_false] at h
      have hr' : (decide (a < 0) || decide (a ≥ (d : Int)) || decide (b < 1) || decide (b ≥ (d : Int) + 1)) = false := by
        cases hb : (decide (a < 0) || decide (a ≥ (d : Int)) || decide (b < 1) || decide (b ≥ (d : Int) + 1)) with
        | false => rfl
        | true => rw [hb] at h; simp at h
      simp only [Bool.or_eq_false_iff, decide_eq_false_iff_not] at hr'
      omega

theorem validSliceIndex_cons {r : IRange} {rest : List IRange} {d : Nat} {ds : List Nat}
    (h : validSliceIndex (r :: rest) (d :: ds) = true) : validRange r d = true ∧ validSliceIndex rest ds = true := by
  simp only [validSliceIndex, List.length_cons, List.zip_cons_cons, List.all_cons, Bool.and_eq_true,
    decide_eq_true_eq] at h ⊢
  exact ⟨h.2.1, by omega, h.2.2⟩

/-- the block selected by an accepted Slice index can be patched back with the same index -/
theorem validPatch_of_validSlice : ∀ (index : List IRange) (ds : List Nat), validSliceIndex index ds = true →
    validPatchIndex index (sliceDims (completeIndex (natRanges index) ds)) ds = true := by
  intro index ds hv
  have hfit := C06.fits_complete (C09.rangesOK_of_valid index ds hv)
  have hb : ∀ {W ds}, Fits W ds → ((sliceDims W).zip ds).all (fun (s, d) => decide (s ≤ d)) = true := by
    intro W ds hf
    induction hf with
    | nil => simp [sliceDims]
    | cons htd _ ih =>
      simp only [sliceDims, List.map_cons, List.zip_cons_cons, List.all_cons, Bool.and_eq_true, decide_eq_true_eq] at ih ⊢
      exact ⟨by omega, ih⟩
  have hd : ∀ (index : List IRange) (ds : List Nat), validSliceIndex index ds = true →
      (index.zip (sliceDims (completeIndex (natRanges index) ds))).all
        (fun (r, s) => (r.1 == 0 && r.2 == 0) || r.2 - r.1 == (s : Int)) = true := by
    intro index
    induction index with
    | nil => intro ds _; simp
    | cons r rest ih =>
      intro ds hv
      cases ds with
      | nil => simp [completeIndex, sliceDims]
      | cons d ds =>
        obtain ⟨a, b⟩ := r
        obtain ⟨h1, h2⟩ := validSliceIndex_cons hv
        have ih' := ih ds h2
        simp only [natRanges, List.map_cons, completeIndex, sliceDims, List.zip_cons_cons, List.all_cons,
          Bool.and_eq_true] at ih' ⊢
        refine ⟨?_, ih'⟩
        rcases validRange_cases h1 with h | h
        · simp [h.1, h.2]
        · have hne : ¬ (a.toNat = 0 ∧ b.toNat = 0) := by omega
          rw [if_neg hne]
          simp only [Bool.or_eq_true, beq_iff_eq]
          right
          omega
  simp only [validPatchIndex, Bool.and_eq_true, beq_iff_eq]
  refine ⟨⟨⟨?_, hb hfit⟩, hv⟩, hd index ds hv⟩
  simp [sliceDims, completeIndex_length]

section slice
variable [Scalar α]

/-- **`gradtrack.Slice`: `gradFn = toZeros(x).Patch(index, y.Gradient())`.** Forward (`C06.slice_get`):
    `y[j] = x[j + From]` for every `j` of the block — selection of the window `W = completeIndex index x.dims`.
    The closure succeeds on every well-formed upstream gradient of `y`'s shape, returns a well-formed tensor of `x`'s
    shape, and its element at a valid index `i` of `x` is `gy[i - From]` when `i` lies in the window and the element of
    `toZeros(x) = x.Scale(0)` (i.e. `0 · x[i]`) outside: embedding of the block into zeros, which is the adjoint of
    selecting the block. `rule_slice_zero` states the outside value as `0`. -/
theorem rule_slice (bm : BMode) (H : Heap α) (gy : Tensor α) (x : Nat) (index : List IRange) (wx : (H.val x).WF)
    (hv : validSliceIndex index (H.val x).dims = true) (wg : gy.WF)
    (hd : gy.dims = sliceDims (completeIndex (natRanges index) (H.val x).dims)) :
    ∃ r, evalRule bm H gy (.sliceX x index) = .ok r ∧ r.dims = (H.val x).dims ∧ r.WF ∧
      ∀ i, Valid (H.val x).dims i →
        r.at? i = if inWin (completeIndex (natRanges index) (H.val x).dims) i
          then gy.at? (unshiftP (completeIndex (natRanges index) (H.val x).dims) i)
          else ((H.val x).at? i).map (fun a => Scalar.mul Scalar.zero a) := by
  have hrok := C09.rangesOK_of_valid index (H.val x).dims hv
  have wz : (vScale (H.val x) Scalar.zero).WF := map_wf _ _ wx
  have hpok : C06.PatchOK (natRanges index) gy.dims (vScale (H.val x) Scalar.zero).dims := by
    rw [hd]; exact patchOK_of_rangesOK hrok
  obtain ⟨data, e, hlen, hget⟩ := C06.patch_get (vScale (H.val x) Scalar.zero) gy wz wg (natRanges index) hpok
  have hvp : validPatchIndex index gy.dims (vScale (H.val x) Scalar.zero).dims = true := by
    rw [hd]; exact validPatch_of_validSlice index (H.val x).dims hv
  refine ⟨⟨(H.val x).dims, data⟩, ?_, rfl, ⟨hlen, wx.2⟩, ?_⟩
  · simp only [evalRule, vPatch]
    rw [if_pos hvp, e]; rfl
  · intro i hi
    have h1 := hget i hi
    have hci : completeIndex (natRanges index) gy.dims = completeIndex (natRanges index) (H.val x).dims := by
      rw [hd]; exact completeIndex_sliceDims _ _
    rw [hci] at h1
    have hin : insideP (completeIndex (natRanges index) (H.val x).dims) gy.dims i
        = inWin (completeIndex (natRanges index) (H.val x).dims) i := by
      rw [hd]; exact insideP_inWin _ _ (ordered_complete hrok)
    rw [hin] at h1
    have hz : (vScale (H.val x) Scalar.zero).at? i = ((H.val x).at? i).map (fun a => Scalar.mul Scalar.zero a) :=
      at?_map _ _ i
    rw [hz] at h1
    exact h1

/-- `rule_slice` on a scalar domain where `0 · a = 0` (ℝ, ℚ, ℤ; not IEEE floats with infinities): zero outside -/
theorem rule_slice_zero (hz : ∀ a : α, Scalar.mul Scalar.zero a = Scalar.zero)
    (bm : BMode) (H : Heap α) (gy : Tensor α) (x : Nat) (index : List IRange) (wx : (H.val x).WF)
    (hv : validSliceIndex index (H.val x).dims = true) (wg : gy.WF)
    (hd : gy.dims = sliceDims (completeIndex (natRanges index) (H.val x).dims)) :
    ∃ r, evalRule bm H gy (.sliceX x index) = .ok r ∧ r.dims = (H.val x).dims ∧ r.WF ∧
      ∀ i, Valid (H.val x).dims i →
        r.at? i = if inWin (completeIndex (natRanges index) (H.val x).dims) i
          then gy.at? (unshiftP (completeIndex (natRanges index) (H.val x).dims) i)
          else some Scalar.zero := by
  obtain ⟨r, e, hdims, wf, hget⟩ := rule_slice bm H gy x index wx hv wg hd
  refine ⟨r, e, hdims, wf, ?_⟩
  intro i hi
  rw [hget i hi]
  obtain ⟨a, ha⟩ := at?_isSome (H.val x) wx hi
  rw [ha]; simp [hz]

end slice

/-! ## 5. Concat -/

/-- the complete window of the Concat rule: `[base, base+len)` at `dim`, the whole dimension elsewhere -/
def catWin : Nat → Nat → Nat → List Nat → List (Nat × Nat)
  | _, _, _, [] => []
  | 0, base, len, _ :: ds => (base, base + len) :: ds.map (fun d => (0, d))
  | dim + 1, base, len, d :: ds => (0, d) :: catWin dim base len ds

/-- add `b` to coordinate `k` -/
def addAt : Nat → Nat → List Nat → List Nat
  | _, _, [] => []
  | 0, b, j :: js => (j + b) :: js
  | k + 1, b, j :: js => j :: addAt k b js

theorem completeIndex_zeros : ∀ (l : List IRange) (ds : List Nat), (∀ r ∈ l, r = ((0 : Int), (0 : Int))) →
    completeIndex (natRanges l) ds = ds.map (fun d => (0, d))
  | _, [], _ => by simp [completeIndex]
  | [], d :: ds, _ => by
    have ih := completeIndex_zeros [] ds (by simp)
    simp only [natRanges, List.map_nil] at ih
    simp [natRanges, completeIndex, ih]
  | r :: l, d :: ds, h => by
    have ih := completeIndex_zeros l ds (fun x hx => h x (by simp [hx]))
    have hr : r = (0, 0) := h r (by simp)
    simp only [natRanges] at ih
    simp [natRanges, completeIndex, hr, ih]

theorem range_map_succ {β : Type} (g : Nat → β) (n : Nat) :
    (List.range (n + 1)).map g = g 0 :: (List.range n).map (fun i => g (i + 1)) := by
  rw [List.range_succ_eq_map]
  simp [List.map_map, Function.comp_def]

theorem completeIndex_oneRange : ∀ (dim base len : Nat) (ds : List Nat) (g : Nat → IRange), 0 < len →
    g dim = ((base : Int), ((base + len : Nat) : Int)) → (∀ i, i ≠ dim → g i = (0, 0)) →
    completeIndex (natRanges ((List.range ds.length).map g)) ds = catWin dim base len ds
  | _, _, _, [], _, _, _, _ => by simp [completeIndex, catWin]
  | 0, base, len, d :: ds, g, hl, hg, hz => by
    rw [List.length_cons, range_map_succ, hg]
    have hrest := completeIndex_zeros ((List.range ds.length).map (fun i => g (i + 1))) ds (by
      intro r hr
      obtain ⟨i, _, rfl⟩ := List.mem_map.mp hr
      exact hz (i + 1) (by omega))
    simp only [natRanges, List.map_cons, completeIndex, catWin] at hrest ⊢
    have hne : ¬ ((base : Int).toNat = 0 ∧ ((base + len : Nat) : Int).toNat = 0) := by omega
    rw [if_neg hne, hrest]
    simp only [Int.toNat_natCast]
  | dim + 1, base, len, d :: ds, g, hl, hg, hz => by
    rw [List.length_cons, range_map_succ, hz 0 (by omega)]
    have ih := completeIndex_oneRange dim base len ds (fun i => g (i + 1)) hl hg
      (fun i hi => hz (i + 1) (by omega))
    simp only [natRanges, List.map_cons, completeIndex, catWin] at ih ⊢
    rw [ih]
    simp

/-- the index the Concat constructor builds, completed against the result dims -/
theorem completeIndex_concatIndex (dim base len : Nat) (ds : List Nat) (hl : 0 < len) :
    completeIndex (natRanges (concatIndex ds.length dim base len)) ds = catWin dim base len ds := by
  unfold concatIndex
  exact completeIndex_oneRange dim base len ds _ hl (by simp) (fun i hi => by simp [hi])

theorem validSliceIndex_concatIndex : ∀ (dim base len : Nat) (ds : List Nat), 0 < len → dim < ds.length →
    base + len ≤ ds.getD dim 0 → validSliceIndex (concatIndex ds.length dim base len) ds = true := by
  intro dim base len ds hl hdim hb
  simp only [validSliceIndex, concatIndex, List.length_map, List.length_range, Nat.le_refl, decide_true, Bool.true_and,
    List.all_eq_true]
  intro p hp
  obtain ⟨i, hi1, hi2⟩ := List.mem_iff_getElem.mp hp
  have hi : i < ds.length := by
    simp only [List.length_zip, List.length_map, List.length_range, Nat.min_self] at hi1; exact hi1
  simp only [List.getElem_zip, List.getElem_map, List.getElem_range] at hi2
  rw [← hi2]
  by_cases hid : i = dim
  · have hgd : ds.getD dim 0 = ds[i] := by
      subst hid
      simp [List.getD, List.getElem?_eq_getElem hi]
    rw [hgd] at hb
    simp only [hid, if_true, validRange]
    have h0 : ¬ (((base : Int) == 0 && ((base + len : Nat) : Int) == 0) = true) := by
      simp only [Bool.and_eq_true, beq_iff_eq]; omega
    rw [if_neg h0]
    have h1' : ¬ ((base : Int) ≥ ((base + len : Nat) : Int)) := by omega
    rw [if_neg h1']
    have e1 : decide ((base : Int) < 0) = false := by simp
    have e2 : decide ((base : Int) ≥ (ds[i] : Int)) = false := by simp; omega
    have e3 : decide (((base + len : Nat) : Int) < 1) = false := by simp; omega
    have e4 : decide (((base + len : Nat) : Int) ≥ (ds[i] : Int) + 1) = false := by simp; omega
    subst hid
    rw [e1, e2, e3, e4]; rfl
  · simp [hid, validRange]

theorem sliceDims_catWin : ∀ (dim base len : Nat) (ds : List Nat), dim < ds.length →
    sliceDims (catWin dim base len ds) = ds.set dim len
  | _, _, _, [], h => by simp at h
  | 0, base, len, d :: ds, _ => by
    simp only [catWin, sliceDims, List.map_cons, List.map_map, List.set_cons_zero]
    congr 1
    · omega
    · conv => rhs; rw [← List.map_id ds]
      apply List.map_congr_left; intro x _; simp
  | dim + 1, base, len, d :: ds, h => by
    have ih := sliceDims_catWin dim base len ds (by simpa using h)
    simp only [sliceDims] at ih
    simp only [catWin, sliceDims, List.map_cons, List.set_cons_succ, ih]
    simp

theorem inBlock_whole : ∀ {ds js : List Nat}, Valid ds js → InBlock (ds.map (fun d => (0, d))) js
  | _, _, .nil => .nil
  | _, _, .cons h hv => by
    simp only [List.map_cons]
    exact .cons (by omega) (inBlock_whole hv)

theorem shiftIdx_whole : ∀ {ds js : List Nat}, Valid ds js → shiftIdx (ds.map (fun d => (0, d))) js = js
  | _, _, .nil => rfl
  | _, _, .cons h hv => by simp [shiftIdx, shiftIdx_whole hv]

theorem inBlock_catWin : ∀ (dim base len : Nat) {ds js : List Nat}, dim < ds.length → Valid (ds.set dim len) js →
    InBlock (catWin dim base len ds) js ∧ shiftIdx (catWin dim base len ds) js = addAt dim base js
  | _, _, _, [], _, h, _ => by simp at h
  | 0, base, len, d :: ds, _, _, hv => by
    simp only [List.set_cons_zero] at hv
    cases hv with
    | cons hj hv' =>
      simp only [catWin, shiftIdx, addAt, shiftIdx_whole hv', and_true]
      exact .cons (by omega) (inBlock_whole hv')
  | dim + 1, base, len, d :: ds, _, h, hv => by
    simp only [List.set_cons_succ] at hv
    cases hv with
    | cons hj hv' =>
      obtain ⟨h1, h2⟩ := inBlock_catWin dim base len (by simpa using h) hv'
      simp only [catWin, shiftIdx, addAt, h2, Nat.add_zero, and_true]
      exact .cons (by omega) h1

section concat
variable [Scalar α]

/-- **`gradtrack.Concat`: `gradFn_k = y.Gradient().Slice(index_k)`**, `index_k = concatIndex rank dim base_k len_k`
    with `base_k` the sum of the sizes along `dim` of the operands before `x_k` and `len_k` the size of `x_k`
    (`Qeep.concatEdges`). Forward (`C06.concat_get`): the result holds `x_k[j]` at index `j` with `base_k` added to
    coordinate `dim` — each operand is embedded as one block. The closure succeeds on every well-formed upstream
    gradient whose size along `dim` covers the block, returns the dims of `gy` with `dim` replaced by `len_k` (the shape
    of `x_k`), and its element at every valid local index `j` is `gy[j with base_k added at dim]`: selection of the block,
    the adjoint of embedding it. -/
theorem rule_concat (bm : BMode) (H : Heap α) (gy : Tensor α) (dim base len : Nat) (wg : gy.WF)
    (hl : 0 < len) (hdim : dim < gy.dims.length) (hb : base + len ≤ gy.dims.getD dim 0) :
    ∃ r, evalRule bm H gy (.concatI (concatIndex gy.dims.length dim base len)) = .ok r ∧
      r.dims = gy.dims.set dim len ∧ r.WF ∧
      ∀ j, Valid (gy.dims.set dim len) j → r.at? j = gy.at? (addAt dim base j) := by
  have hv := validSliceIndex_concatIndex dim base len gy.dims hl hdim hb
  obtain ⟨data, e, hlen, hget⟩ := C06.slice_get gy wg _ (C09.rangesOK_of_valid _ _ hv)
  rw [completeIndex_concatIndex dim base len gy.dims hl, sliceDims_catWin dim base len gy.dims hdim] at e hlen hget
  refine ⟨⟨gy.dims.set dim len, data⟩, ?_, rfl, ⟨hlen, ?_⟩, ?_⟩
  · simp only [evalRule, vSlice]
    rw [if_pos hv, e]; rfl
  · intro d hd
    rcases List.mem_or_eq_of_mem_set hd with h | h
    · exact wg.2 d h
    · omega
  · intro j hj
    obtain ⟨h1, h2⟩ := inBlock_catWin dim base len hdim hj
    rw [hget j h1, h2]

end concat

/-! ## 4. Patch -/

/-- inside the written block the shifted-back index is a valid source index -/
theorem valid_unshiftP : ∀ {idx sds dds js}, FitsP idx sds dds → Valid dds js → insideP idx sds js = true →
    Valid sds (unshiftP idx js)
  | _, _, _, _, .nil, .nil, _ => .nil
  | _, _, _, _, .cons (f := f) (sd := sd) hfit hrest, .cons (s := j) hj hv, hin => by
    simp only [insideP, Bool.and_eq_true, decide_eq_true_eq] at hin
    simp only [unshiftP]
    exact .cons (by omega) (valid_unshiftP hrest hv hin.2)

/-- every range of the complete index covers exactly the source size -/
inductive Covers : List (Nat × Nat) → List Nat → Prop
  | nil : Covers [] []
  | cons {f t W s ss} : t = f + s → Covers W ss → Covers ((f, t) :: W) (s :: ss)

theorem covers_complete : ∀ {idx sds dds}, C06.PatchOK idx sds dds → Covers (completeIndex idx sds) sds
  | _, _, _, .nil => by simp [completeIndex]; exact .nil
  | _, _, _, .omit h hr => by
    simp only [completeIndex]
    exact .cons (by omega) (covers_complete hr)
  | _, _, _, .cons (f := f) (t := t) (sd := sd) h hrange hr => by
    simp only [completeIndex]
    split
    · exact .cons (by omega) (covers_complete hr)
    · rename_i hne
      rcases hrange with h0 | h1
      · exact absurd h0 hne
      · exact .cons (by omega) (covers_complete hr)

theorem sliceDims_covers : ∀ {W pd}, Covers W pd → sliceDims W = pd
  | _, _, .nil => rfl
  | _, _, .cons h hc => by
    have ih := sliceDims_covers hc
    simp only [sliceDims] at ih
    simp only [sliceDims, List.map_cons, ih]
    congr 1; omega

theorem completeIndex_covers : ∀ {W pd} (gd : List Nat), Covers W pd → (∀ s ∈ pd, 0 < s) → pd.length = gd.length →
    completeIndex W gd = W
  | _, _, [], .nil, _, _ => by simp [completeIndex]
  | _, _, _ :: _, .nil, _, hl => by simp at hl
  | _, _, [], .cons _ _, _, hl => by simp at hl
  | _, _, d :: gd, .cons (f := f) (t := t) (s := s) h hc, hpos, hl => by
    have hs : 0 < s := hpos s (by simp)
    have ih := completeIndex_covers gd hc (fun x hx => hpos x (by simp [hx])) (by simpa using hl)
    simp only [completeIndex]
    rw [if_neg (by omega), ih]

theorem inBlock_covers : ∀ {W pd js}, Covers W pd → Valid pd js → InBlock W js
  | _, _, _, .nil, .nil => .nil
  | _, _, _, .cons h hc, .cons hj hv => .cons (by omega) (inBlock_covers hc hv)

theorem validSliceIndex_cons_iff (r : IRange) (rest : List IRange) (d : Nat) (ds : List Nat) :
    validSliceIndex (r :: rest) (d :: ds) = true ↔ (validRange r d = true ∧ validSliceIndex rest ds = true) := by
  simp only [validSliceIndex, List.length_cons, List.zip_cons_cons, List.all_cons, Bool.and_eq_true,
    decide_eq_true_eq]
  constructor
  · intro h; exact ⟨h.2.1, by omega, h.2.2⟩
  · intro h; exact ⟨by have := h.2.1; omega, h.1, h.2.2⟩

theorem validPatchIndex_nil_cons {s d : Nat} {ss ds : List Nat} (h : validPatchIndex [] (s :: ss) (d :: ds) = true) :
    s ≤ d ∧ validPatchIndex [] ss ds = true := by
  simp only [validPatchIndex, List.length_cons, List.zip_cons_cons, List.all_cons, Bool.and_eq_true,
    decide_eq_true_eq, beq_iff_eq] at h ⊢
  refine ⟨h.1.1.2.1, ⟨⟨by omega, h.1.1.2.2⟩, ?_⟩, ?_⟩ <;> simp [validSliceIndex]

theorem validPatchIndex_cons {r : IRange} {rest : List IRange} {s d : Nat} {ss ds : List Nat}
    (h : validPatchIndex (r :: rest) (s :: ss) (d :: ds) = true) :
    s ≤ d ∧ validRange r d = true ∧ ((r.1 = 0 ∧ r.2 = 0) ∨ r.2 - r.1 = (s : Int)) ∧
      validPatchIndex rest ss ds = true := by
  simp only [validPatchIndex, List.length_cons, List.zip_cons_cons, List.all_cons, Bool.and_eq_true,
    decide_eq_true_eq, beq_iff_eq, validSliceIndex, Bool.or_eq_true] at h ⊢
  obtain ⟨⟨⟨hlen, hle, hles⟩, ⟨hlen2, hr, hrs⟩⟩, hc, hcs⟩ := h
  exact ⟨hle, hr, hc, ⟨⟨by omega, hles⟩, ⟨by omega, hrs⟩⟩, hcs⟩

/-- `patchedBlock(index, p)`: an index the validator accepts as a Slice index of the target, and (on natural numbers)
    the complete index `Patch` itself used for the write -/
theorem patchedBlock_spec : ∀ (index : List IRange) (pd gd : List Nat), validPatchIndex index pd gd = true →
    (∀ s ∈ pd, 0 < s) →
    validSliceIndex (patchedBlock index pd) gd = true ∧
      natRanges (patchedBlock index pd) = completeIndex (natRanges index) pd
  | index, [], gd, h, _ => by
    have : gd = [] := by
      cases gd with
      | nil => rfl
      | cons _ _ => simp [validPatchIndex] at h
    subst this
    cases index <;> simp [patchedBlock, validSliceIndex, natRanges, completeIndex]
  | _, s :: ss, [], h, _ => by simp [validPatchIndex] at h
  | [], s :: ss, d :: ds, h, hpos => by
    obtain ⟨hle, hrest⟩ := validPatchIndex_nil_cons h
    have hs : 0 < s := hpos s (by simp)
    obtain ⟨ih1, ih2⟩ := patchedBlock_spec [] ss ds hrest (fun x hx => hpos x (by simp [hx]))
    simp only [natRanges, List.map_nil] at ih2
    refine ⟨?_, ?_⟩
    · simp only [patchedBlock]
      rw [validSliceIndex_cons_iff]
      refine ⟨?_, ih1⟩
      have h0 : ¬ ((((0 : Int), (s : Int)).1 == 0 && ((0 : Int), (s : Int)).2 == 0) = true) := by
        simp only [Bool.and_eq_true, beq_iff_eq]; omega
      have h1 : ¬ (((0 : Int), (s : Int)).1 ≥ ((0 : Int), (s : Int)).2) := by simp only []; omega
      unfold validRange
      rw [if_neg h0, if_neg h1]
      have e1 : decide ((0 : Int) < 0) = false := by simp
      have e2 : decide ((0 : Int) ≥ (d : Int)) = false := by simp; omega
      have e3 : decide ((s : Int) < 1) = false := by simp; omega
      have e4 : decide ((s : Int) ≥ (d : Int) + 1) = false := by simp; omega
      simp only [e1, e2, e3, e4]; rfl
    · simp only [patchedBlock, natRanges, List.map_cons, List.map_nil, completeIndex, Int.toNat_zero, Int.toNat_natCast]
      rw [ih2]
  | r :: rest, s :: ss, d :: ds, h, hpos => by
    obtain ⟨a, b⟩ := r
    obtain ⟨hle, hr, hc, hrest⟩ := validPatchIndex_cons h
    have hs : 0 < s := hpos s (by simp)
    obtain ⟨ih1, ih2⟩ := patchedBlock_spec rest ss ds hrest (fun x hx => hpos x (by simp [hx]))
    simp only [natRanges] at ih2
    rcases validRange_cases hr with h0 | h1
    · -- `{0,0}`: the block starts at offset 0 and has the source's size
      obtain ⟨rfl, rfl⟩ := h0
      refine ⟨?_, ?_⟩
      · simp only [patchedBlock, beq_self_eq_true, Bool.and_self, if_true]
        rw [validSliceIndex_cons_iff]
        refine ⟨?_, ih1⟩
        have h0 : ¬ ((((0 : Int), (s : Int)).1 == 0 && ((0 : Int), (s : Int)).2 == 0) = true) := by
          simp only [Bool.and_eq_true, beq_iff_eq]; omega
        have h1 : ¬ (((0 : Int), (s : Int)).1 ≥ ((0 : Int), (s : Int)).2) := by simp only []; omega
        unfold validRange
        rw [if_neg h0, if_neg h1]
        have e1 : decide ((0 : Int) < 0) = false := by simp
        have e2 : decide ((0 : Int) ≥ (d : Int)) = false := by simp; omega
        have e3 : decide ((s : Int) < 1) = false := by simp; omega
        have e4 : decide ((s : Int) ≥ (d : Int) + 1) = false := by simp; omega
        simp only [e1, e2, e3, e4]; rfl
      · simp only [patchedBlock, beq_self_eq_true, Bool.and_self, if_true, natRanges, List.map_cons, completeIndex,
          Int.toNat_zero, Int.toNat_natCast, and_self]
        rw [ih2]
    · have hne : ¬ ((a == 0 && b == 0) = true) := by
        simp only [Bool.and_eq_true, beq_iff_eq]; omega
      have hpb : patchedBlock ((a, b) :: rest) (s :: ss) = (a, b) :: patchedBlock rest ss := by
        simp only [patchedBlock]; rw [if_neg hne]
      rw [hpb]
      refine ⟨?_, ?_⟩
      · rw [validSliceIndex_cons_iff]
        exact ⟨hr, ih1⟩
      · simp only [natRanges, List.map_cons, completeIndex]
        have hne' : ¬ (a.toNat = 0 ∧ b.toNat = 0) := by omega
        rw [if_neg hne', ih2]

section patch
variable [Scalar α]

/-- **`gradtrack.Patch`, target operand `x`: `gradFn = y.Gradient().Patch(index, toZeros(p))`.** Forward
    (`C06.patch_get`): `y[i] = p[i - From]` inside the written block and `y[i] = x[i]` outside, so as a function of `x`
    the forward map keeps the positions outside the block and forgets those inside (a coordinate projection, which is
    self-adjoint). The closure succeeds on every well-formed upstream gradient of `x`'s shape, returns that shape, and its
    element at a valid index `i` is the element of `toZeros(p) = p.Scale(0)` inside the block and `gy[i]` outside: the
    same projection applied to `gy`. `rule_patchX_zero` states the inside value as `0`. -/
theorem rule_patchX (bm : BMode) (H : Heap α) (gy : Tensor α) (p : Nat) (index : List IRange) (wp : (H.val p).WF)
    (wg : gy.WF) (hv : validPatchIndex index (H.val p).dims gy.dims = true) :
    ∃ r, evalRule bm H gy (.patchX p index) = .ok r ∧ r.dims = gy.dims ∧ r.WF ∧
      ∀ i, Valid gy.dims i →
        r.at? i = if insideP (completeIndex (natRanges index) (H.val p).dims) (H.val p).dims i
          then ((H.val p).at? (unshiftP (completeIndex (natRanges index) (H.val p).dims) i)).map
            (fun a => Scalar.mul Scalar.zero a)
          else gy.at? i := by
  have wz : (vScale (H.val p) Scalar.zero).WF := map_wf _ _ wp
  have hdz : (vScale (H.val p) Scalar.zero).dims = (H.val p).dims := rfl
  have hpok : C06.PatchOK (natRanges index) (vScale (H.val p) Scalar.zero).dims gy.dims :=
    C09.patchOK_of_valid index _ _ hv
  obtain ⟨data, e, hlen, hget⟩ := C06.patch_get gy (vScale (H.val p) Scalar.zero) wg wz (natRanges index) hpok
  refine ⟨⟨gy.dims, data⟩, ?_, rfl, ⟨hlen, wg.2⟩, ?_⟩
  · simp only [evalRule, vPatch]
    rw [hdz, if_pos hv, e]; rfl
  · intro i hi
    have h1 := hget i hi
    rw [hdz] at h1
    rw [h1]
    have hz : ∀ j, (vScale (H.val p) Scalar.zero).at? j = ((H.val p).at? j).map (fun a => Scalar.mul Scalar.zero a) :=
      fun j => at?_map _ _ j
    rw [hz]

/-- `rule_patchX` on a scalar domain where `0 · a = 0`: zero inside the block -/
theorem rule_patchX_zero (hz : ∀ a : α, Scalar.mul Scalar.zero a = Scalar.zero)
    (bm : BMode) (H : Heap α) (gy : Tensor α) (p : Nat) (index : List IRange) (wp : (H.val p).WF)
    (wg : gy.WF) (hv : validPatchIndex index (H.val p).dims gy.dims = true) :
    ∃ r, evalRule bm H gy (.patchX p index) = .ok r ∧ r.dims = gy.dims ∧ r.WF ∧
      ∀ i, Valid gy.dims i →
        r.at? i = if insideP (completeIndex (natRanges index) (H.val p).dims) (H.val p).dims i
          then some Scalar.zero else gy.at? i := by
  obtain ⟨r, e, hdims, wf, hget⟩ := rule_patchX bm H gy p index wp wg hv
  refine ⟨r, e, hdims, wf, ?_⟩
  intro i hi
  rw [hget i hi]
  by_cases hin : insideP (completeIndex (natRanges index) (H.val p).dims) (H.val p).dims i = true
  · rw [if_pos hin, if_pos hin]
    have hfit := C06.fitsP_complete (C09.patchOK_of_valid index _ _ hv)
    obtain ⟨a, ha⟩ := at?_isSome (H.val p) wp (valid_unshiftP hfit hi hin)
    rw [ha]; simp [hz]
  · rw [if_neg hin, if_neg hin]

/-- **`gradtrack.Patch`, source operand `p`: `gradFn = y.Gradient().Slice(patchedBlock(index, p))`.** Forward
    (`C06.patch_get`): `y[i] = p[i - From]` for `i` inside the written block — as a function of `p`, embedding of `p` at
    offset `From` (offset 0 where the range is omitted or `{0,0}`). The closure succeeds on every well-formed upstream
    gradient of the target's shape, returns a well-formed tensor of `p`'s shape, and its element at every valid index `j`
    of `p` is `gy[j + From]`: selection of the written block, the adjoint of the embedding. -/
theorem rule_patchP (bm : BMode) (H : Heap α) (gy : Tensor α) (p : Nat) (index : List IRange) (wp : (H.val p).WF)
    (wg : gy.WF) (hv : validPatchIndex index (H.val p).dims gy.dims = true) :
    ∃ r, evalRule bm H gy (.patchP p index) = .ok r ∧ r.dims = (H.val p).dims ∧ r.WF ∧
      ∀ j, Valid (H.val p).dims j →
        r.at? j = gy.at? (shiftIdx (completeIndex (natRanges index) (H.val p).dims) j) := by
  obtain ⟨hvs, hnat⟩ := patchedBlock_spec index (H.val p).dims gy.dims hv wp.2
  have hpok := C09.patchOK_of_valid index _ _ hv
  have hcov := covers_complete hpok
  have hlen : (H.val p).dims.length = gy.dims.length := (C06.fitsP_complete hpok).lengths
  obtain ⟨data, e, hl, hget⟩ := C06.slice_get gy wg _ (C09.rangesOK_of_valid _ _ hvs)
  rw [hnat, completeIndex_covers gy.dims hcov wp.2 hlen, sliceDims_covers hcov] at e hl hget
  refine ⟨⟨(H.val p).dims, data⟩, ?_, rfl, ⟨hl, wp.2⟩, ?_⟩
  · simp only [evalRule, vSlice]
    rw [if_pos hvs, hnat, e]; rfl
  · intro j hj
    exact hget j (inBlock_covers hcov hj)

end patch

/-! ## 7. Adjointness over ℝ: `⟨f dx, gy⟩ = ⟨dx, rule gy⟩` -/

/-- the pairing `Σ_k a_k · b_k` over the row-major positions of `a` -/
noncomputable def inner (a b : Tensor ℝ) : ℝ :=
  ∑ k ∈ Finset.range (prod a.dims), (a.data[k]?).getD 0 * (b.data[k]?).getD 0

/-- a map that reads position `σ k` of its argument (`σ` a permutation of the positions with inverse `σ'`) is adjoint to
    the map that reads position `σ' j` -/
theorem adjoint_of_perm (n : ℕ) (σ σ' : ℕ → ℕ) (hσ : ∀ k, k < n → σ k < n) (hσ' : ∀ j, j < n → σ' j < n)
    (hl : ∀ k, k < n → σ' (σ k) = k) (hr : ∀ j, j < n → σ (σ' j) = j) (x g : ℕ → ℝ) :
    ∑ k ∈ Finset.range n, x (σ k) * g k = ∑ j ∈ Finset.range n, x j * g (σ' j) := by
  apply Finset.sum_nbij' σ σ'
  · intro k hk; simp only [Finset.mem_range] at hk ⊢; exact hσ k hk
  · intro j hj; simp only [Finset.mem_range] at hj ⊢; exact hσ' j hj
  · intro k hk; simp only [Finset.mem_range] at hk; exact hl k hk
  · intro j hj; simp only [Finset.mem_range] at hj; exact hr j hj
  · intro k hk; simp only [Finset.mem_range] at hk; rw [hl k hk]

/-- **Reshape family is adjoint to its rule** (over ℝ): for a direction `dx` of `x`'s shape and an upstream gradient `gy`
    of `y`'s shape, `⟨forward dx, gy⟩ = ⟨dx, rule gy⟩` — the defining property of the vector-Jacobian product of a
    linear map. (Both sides are `Σ_k dx_k · gy_k`: forward and rule keep the row-major order.) -/
theorem adjoint_reshape (bm : BMode) (H : Heap ℝ) (o : ReshapeOp) (x : Nat) (dx y gy r : Tensor ℝ)
    (wd : dx.WF) (hdx : dx.dims = (H.val x).dims) (wx : (H.val x).WF) (hf : o.fwd dx = .ok y) (wg : gy.WF)
    (hd : gy.dims = y.dims) (hr : evalRule bm H gy (.reshapeX x) = .ok r) :
    inner y gy = inner dx r := by
  obtain ⟨e1, e2⟩ := reshape_fwd o dx y wd hf
  rw [rule_reshape bm H gy x wg wx (by rw [hd, e2, hdx])] at hr
  injection hr with hr
  subst hr
  simp only [inner, e1, e2]

/-- source position (little-endian dims `D`) of the element at row-major position `k` of the transposed tensor -/
def tpos (D : List Nat) (k : Nat) : Nat :=
  val D (swap2 (iterN (incr (swap2 D)) k (zerosLike (swap2 D))))

theorem swap2_pos {D : List Nat} (h : ∀ d ∈ D, 0 < d) : ∀ d ∈ swap2 D, 0 < d := by
  match D, h with
  | [], h => exact h
  | [_], h => exact h
  | a :: b :: r, h =>
    intro d hd
    simp only [swap2, List.mem_cons] at hd
    apply h
    simp only [List.mem_cons]
    rcases hd with h1 | h1 | h1
    · exact Or.inr (Or.inl h1)
    · exact Or.inl h1
    · exact Or.inr (Or.inr h1)

theorem prod_swap2 (D : List Nat) : prod (swap2 D) = prod D := by
  match D with
  | [] => rfl
  | [_] => rfl
  | a :: b :: r => simp [swap2, prod, Nat.mul_left_comm]

theorem tpos_lt {D : List Nat} (h : ∀ d ∈ D, 0 < d) (k : Nat) : tpos D k < prod D := by
  unfold tpos
  have hv := valid_swap2 (valid_iter (swap2_pos h) k)
  rw [swap2_swap2] at hv
  exact val_lt hv

/-- transposing back reads the original position -/
theorem tpos_tpos {D : List Nat} (h : ∀ d ∈ D, 0 < d) (k : Nat) (hk : k < prod D) : tpos (swap2 D) (tpos D k) = k := by
  unfold tpos
  rw [swap2_swap2]
  have hv := valid_swap2 (valid_iter (swap2_pos h) k)
  rw [swap2_swap2] at hv
  rw [iter_val h hv, swap2_swap2, val_iter (swap2_pos h) k, prod_swap2, Nat.mod_eq_of_lt hk]

theorem transposeDims_reverse (ds : List Nat) : (transposeDims ds).reverse = swap2 ds.reverse := by
  rw [transposeDims_eq]; simp [swapLast2]

/-- data-level form of `C04.transpose_get`: position `k` of the result holds position `tpos k` of the source -/
theorem transpose_data (t r : Tensor α) (hwf : t.WF) (hr : 2 ≤ t.dims.length) (h : t.transposeRaw = some r) :
    r.dims = transposeDims t.dims ∧ r.WF ∧ ∀ k, k < prod t.dims → r.data[k]? = t.data[tpos t.dims.reverse k]? := by
  obtain ⟨data, e, wf, hget⟩ := C04.transpose_get t hwf hr
  rw [e] at h
  injection h with h
  subst h
  refine ⟨rfl, wf, ?_⟩
  intro k hk
  have hpos : ∀ d ∈ t.dims.reverse, 0 < d := fun d hd => hwf.2 d (by simpa using hd)
  have hpos' := swap2_pos hpos
  have hu : Valid (transposeDims t.dims).reverse (iterN (incr (swap2 t.dims.reverse)) k (zerosLike (swap2 t.dims.reverse))) := by
    rw [transposeDims_reverse]; exact valid_iter hpos' k
  have h1 := (hget _ hu).1
  rw [Tensor.at?_reverse _ hu] at h1
  have hv := valid_swap2 (valid_iter hpos' k)
  rw [swap2_swap2] at hv
  rw [Tensor.at?_reverse t hv] at h1
  simp only [transposeDims_reverse] at h1
  rw [val_iter hpos' k, prod_swap2, prod_reverse, Nat.mod_eq_of_lt hk] at h1
  exact h1

/-- **Transpose is adjoint to its rule** (over ℝ): for a direction `dx` and an upstream gradient `gy` of the transposed
    shape, `Σ_k (dx.Transpose())_k · gy_k = Σ_j dx_j · (gy.Transpose())_j`, i.e. `⟨f dx, gy⟩ = ⟨dx, rule gy⟩`: the closure
    `gy ↦ gy.Transpose()` of `gradtrack.Transpose` is the transpose (adjoint) of the linear forward map, hence its
    vector-Jacobian product. Every rank ≥ 2, all sizes. -/
theorem adjoint_transpose (bm : BMode) (H : Heap ℝ) (dx gy y r : Tensor ℝ) (wd : dx.WF) (hrk : 2 ≤ dx.dims.length)
    (wg : gy.WF) (hd : gy.dims = transposeDims dx.dims) (hf : vTranspose dx = .ok y)
    (hr : evalRule bm H gy .transposeX = .ok r) : inner y gy = inner dx r := by
  have hrk' : 2 ≤ gy.dims.length := by
    rw [hd, transposeDims_eq]; simp [swapLast2, swap2_length]; exact hrk
  have hy : dx.transposeRaw = some y := by
    simp only [vTranspose, validTranspose, hrk, decide_true, if_true] at hf
    cases h : dx.transposeRaw with
    | none => rw [h] at hf; cases hf
    | some v => rw [h] at hf; injection hf with hf; rw [hf]
  have hr' : gy.transposeRaw = some r := by
    simp only [evalRule, vTranspose, validTranspose, hrk', decide_true, if_true] at hr
    cases h : gy.transposeRaw with
    | none => rw [h] at hr; cases hr
    | some v => rw [h] at hr; injection hr with hr; rw [hr]
  obtain ⟨yd, _, ydata⟩ := transpose_data dx y wd hrk hy
  obtain ⟨_, _, rdata⟩ := transpose_data gy r wg hrk' hr'
  have hpos : ∀ d ∈ dx.dims.reverse, 0 < d := fun d hd' => wd.2 d (by simpa using hd')
  have hgr : gy.dims.reverse = swap2 dx.dims.reverse := by rw [hd, transposeDims_reverse]
  have hpn : prod gy.dims = prod dx.dims := by
    rw [← prod_reverse, hgr, prod_swap2, prod_reverse]
  have hpy : prod y.dims = prod dx.dims := by rw [yd, ← hd, hpn]
  unfold inner
  rw [hpy]
  have e1 : ∀ k ∈ Finset.range (prod dx.dims),
      (y.data[k]?).getD 0 * (gy.data[k]?).getD 0
        = (fun j => (dx.data[j]?).getD 0) (tpos dx.dims.reverse k) * (fun j => (gy.data[j]?).getD 0) k := by
    intro k hk
    simp only [Finset.mem_range] at hk
    simp only [ydata k hk]
  have e2 : ∀ j ∈ Finset.range (prod dx.dims),
      (dx.data[j]?).getD 0 * (r.data[j]?).getD 0
        = (fun j => (dx.data[j]?).getD 0) j * (fun j => (gy.data[j]?).getD 0) (tpos (swap2 dx.dims.reverse) j) := by
    intro j hj
    simp only [Finset.mem_range] at hj
    simp only [rdata j (by rw [hpn]; exact hj), hgr]
  rw [Finset.sum_congr rfl e1, Finset.sum_congr rfl e2]
  have hP : prod dx.dims = prod dx.dims.reverse := (prod_reverse _).symm
  refine adjoint_of_perm (prod dx.dims) (tpos dx.dims.reverse) (tpos (swap2 dx.dims.reverse)) ?_ ?_ ?_ ?_
    (fun j => (dx.data[j]?).getD 0) (fun j => (gy.data[j]?).getD 0)
  · intro k _; rw [hP]; exact tpos_lt hpos k
  · intro j _
    have := tpos_lt (swap2_pos hpos) j
    rw [prod_swap2, prod_reverse] at this; exact this
  · intro k hk; exact tpos_tpos hpos k (by rw [← hP]; exact hk)
  · intro j hj
    have := tpos_tpos (swap2_pos hpos) j (by rw [prod_swap2, ← hP]; exact hj)
    rw [swap2_swap2] at this; exact this

end C02x
end Qeep
